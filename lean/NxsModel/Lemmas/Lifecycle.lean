/-
  Lemmas about the connect / stream / disconnect state machines (`NxsModel/Lifecycle.lean`), used by
  Props/C09.lean and Props/C11.lean:
    * additions to the configuration lemmas: a device keeps 8-bit dividers under every outcome (`channelsWrite_wf`),
    * frame lemmas for `doWrite` / `cfgCall` / `commStartReq` (which fields of the world they can touch),
    * the general reachable-world invariant (`GInv`: any answers of the device) for the high-level handler and
      `CInv` for a bare `CommHandler`, and their preservation by every `step` / `commStep`,
    * the extra invariant of histories in which the device acknowledges everything (`AInv`),
    * what a call on a disconnected handler can do (`step_off`), what `disconnect` does to the device,
    * connect with its result (`commConnectR`): `off_connect` (every channel name decodes: `badNameIdx … = none`),
      `off_connect_bad` (a name is not UTF-8: the call raises and the handler stays switched off), `c_connectR`;
      `rep` is the description as a connect reports it (names cut at the first NUL), `rep_of_nonul` / `badNameIdx_none`
      relate it to the device's description when the names are valid UTF-8 without NUL (Props/C09 `DescOk`),
    * `run_append`, snoc induction over histories, and the run-level statements (`c09_*`, `c11_*`).
  Configuration facts come from Lemmas/Config.lean (`Inv`, `AckState`, `DoubtEn`, `channelsWrite_ack`, …).
-/
import NxsModel.Lifecycle
import NxsModel.Lemmas.Config

/-! ### additions to Lemmas/Config: the device's dividers stay 8-bit whatever the outcome of a request -/
namespace Nxs.Config
open Nxs Nxs.Spec Nxs.Requests

attribute [local irreducible] crc16xmodem

theorem mem_set_range {l : List Int} {k : Nat} {x : Int} (hl : ∀ v ∈ l, 0 ≤ v ∧ v ≤ 255) (hx : 0 ≤ x ∧ x ≤ 255) :
    ∀ v ∈ l.set k x, 0 ≤ v ∧ v ≤ 255 := by
  intro v hv
  rcases List.mem_or_eq_of_mem_set hv with h | h
  · exact hl v h
  · rw [h]; exact hx

/-- the divider frame the client builds, applied by the device, leaves 8-bit dividers -/
theorem divFrame_range {c : Client} {d : Device} (hI : Inv c d) (hn : c.n ≠ 0)
    (hr : ∀ v ∈ d.div, 0 ≤ v ∧ v ≤ 255) :
    ∃ f, frameDiv (divRequest c) c.n = .ok f ∧ ∀ v ∈ (devApplyDiv d f).div, 0 ≤ v ∧ v ≤ 255 := by
  by_cases hs : (∃ k, diffIdx c.divNew c.divNow = [k]) ∧ c.divResync = false
  · obtain ⟨⟨k, hk⟩, hres⟩ := hs
    have hd := diffIdx_single c.divNew c.divNow k 0 (hI.lDivNew.trans hI.lDivNow.symm) hk
    have hkn : k < c.n := hI.lDivNow ▸ hd.1
    have hkl : k < c.divNew.length := hI.lDivNew ▸ hkn
    have hv : 0 ≤ c.divNew.getD k 0 ∧ c.divNew.getD k 0 ≤ 255 := by
      apply hI.rDivNew
      rw [List.getD_eq_getElem?_getD, List.getElem?_eq_getElem hkl]
      exact List.getElem_mem hkl
    obtain ⟨p, hp1, hp2⟩ := C05.div_single_agrees c.n k (c.divNew.getD k 0).toNat d.div hI.lDevDiv hkn hI.n255
      (by omega)
    rw [Int.toNat_of_nonneg hv.1] at hp1 hp2
    refine ⟨wire 7 p, ?_, ?_⟩
    · rw [divRequest_single c k hk hres]; exact hp1
    · have e : devApplyDiv d (wire 7 p) = { d with div := d.div.set k (c.divNew.getD k 0) } := by
        unfold devApplyDiv; rw [payloadOf_wire, hI.lDevDiv, hp2]
      rw [e]
      exact mem_set_range hr hv
  · have hm := map_toNat_ofNat c.divNew hI.rDivNew
    obtain ⟨p, hp1, hp2⟩ := C05.div_forms_agree c.n (c.divNew.map Int.toNat) d.div
      (by rw [List.length_map]; exact hI.lDivNew) (Nat.pos_of_ne_zero hn) hI.n255
      (by
        intro v hv
        obtain ⟨a, ha, rfl⟩ := List.mem_map.mp hv
        have := hI.rDivNew a ha
        omega)
    rw [hm] at hp1 hp2
    refine ⟨wire 7 p, ?_, ?_⟩
    · rw [divRequest_vec c hs]; exact hp1
    · have e : devApplyDiv d (wire 7 p) = { d with div := c.divNew } := by
        unfold devApplyDiv; rw [payloadOf_wire, hI.lDevDiv, hp2]
      rw [e]
      exact hI.rDivNew

theorem writeDiv_range {c : Client} {d : Device} (hI : Inv c d) (o : Outcome)
    (hr : ∀ v ∈ d.div, 0 ≤ v ∧ v ≤ 255) : ∀ v ∈ (writeDiv c d o).2.1.div, 0 ≤ v ∧ v ≤ 255 := by
  by_cases hn : c.n = 0
  · rw [writeDiv_zero hI hn o]; exact hr
  obtain ⟨f, hf, hrange⟩ := divFrame_range hI hn hr
  rw [writeDiv_ok c d o f hf]
  dsimp only
  split
  · exact hrange
  · exact hr

/-- a well-formed device stays well formed under a write, whatever it answers -/
theorem channelsWrite_wf {c : Client} {d : Device} (hI : Inv c d) (hd : WF d) (oDiv oEn : Outcome) :
    WF (channelsWrite c d oDiv oEn).2.1 := by
  have hI' := channelsWrite_inv hI oDiv oEn
  refine ⟨hI'.lDevEn ▸ hI'.n255, hI'.lDevDiv.trans hI'.lDevEn.symm, ?_⟩
  by_cases hn : c.n = 0
  · rw [channelsWrite_zero c d oDiv oEn hn]; exact hd.2.2
  cases h : c.divSupported with
  | false =>
    rw [channelsWrite_nodiv c d oDiv oEn hn h, (writeEnable_frame c d oEn).div]
    exact hd.2.2
  | true =>
    rw [channelsWrite_div_ok c d oDiv oEn hn h (writeDiv_out hI hn oDiv).1]
    dsimp only
    rw [(writeEnable_frame (writeDiv c d oDiv).1 (writeDiv c d oDiv).2.1 oEn).div]
    exact writeDiv_range hI oDiv hd.2.2

/-- the device keeps its number of channels under a write -/
theorem channelsWrite_len {c : Client} {d : Device} (hI : Inv c d) (oDiv oEn : Outcome) :
    (channelsWrite c d oDiv oEn).2.1.en.length = d.en.length := by
  have hI' := channelsWrite_inv hI oDiv oEn
  rw [hI'.lDevEn, (channelsWrite_fixed' c d oDiv oEn), hI.lDevEn]
where
  channelsWrite_fixed' (c : Client) (d : Device) (oDiv oEn : Outcome) : (channelsWrite c d oDiv oEn).1.n = c.n := by
    by_cases hn : c.n = 0
    · rw [channelsWrite_zero c d oDiv oEn hn]
    cases h : c.divSupported with
    | false => rw [channelsWrite_nodiv c d oDiv oEn hn h]; exact (writeEnable_frame c d oEn).n
    | true =>
      cases he : (writeDiv c d oDiv).2.2.err with
      | some e => rw [channelsWrite_div_err c d oDiv oEn hn h e he]; exact (writeDiv_frame c d oDiv).n
      | none =>
        rw [channelsWrite_div_ok c d oDiv oEn hn h he]
        exact ((writeEnable_frame _ _ oEn).n).trans (writeDiv_frame c d oDiv).n

end Nxs.Config

namespace Nxs.Lifecycle
open Nxs Nxs.Config

/-! ### `doWrite` / `cfgCall` / `commStartReq`: what they touch -/

/-- fields of the world a configuration call never touches -/
structure CfgFrame (w w' : World) : Prop where
  devStarted : w'.devStarted = w.devStarted
  flags : w'.flags = w.flags
  desc : w'.desc = w.desc
  intfPad : w'.intfPad = w.intfPad
  commStarted : w'.commStarted = w.commStarted
  hasDev : w'.hasDev = w.hasDev
  reported : w'.reported = w.reported
  recvThr : w'.recvThr = w.recvThr
  intf : w'.intf = w.intf
  connected : w'.connected = w.connected
  streamStarted : w'.streamStarted = w.streamStarted
  streamThr : w'.streamThr = w.streamThr
  subs : w'.subs = w.subs
  nextQ : w'.nextQ = w.nextQ

theorem CfgFrame.refl (w : World) : CfgFrame w w := ⟨rfl, rfl, rfl, rfl, rfl, rfl, rfl, rfl, rfl, rfl, rfl, rfl, rfl, rfl⟩

theorem CfgFrame.trans {a b c : World} (h1 : CfgFrame a b) (h2 : CfgFrame b c) : CfgFrame a c :=
  ⟨h2.devStarted.trans h1.devStarted, h2.flags.trans h1.flags, h2.desc.trans h1.desc, h2.intfPad.trans h1.intfPad,
   h2.commStarted.trans h1.commStarted, h2.hasDev.trans h1.hasDev, h2.reported.trans h1.reported,
   h2.recvThr.trans h1.recvThr, h2.intf.trans h1.intf,
   h2.connected.trans h1.connected, h2.streamStarted.trans h1.streamStarted, h2.streamThr.trans h1.streamThr,
   h2.subs.trans h1.subs, h2.nextQ.trans h1.nextQ⟩

theorem doWrite_nodev (w : World) (a : Ans) (h : w.hasDev = false) : doWrite w a = (w, .raised .assertion) := by
  unfold doWrite; rw [h]; rfl

theorem doWrite_nocli (w : World) (a : Ans) (h : w.hasDev = true) (hc : w.cli = none) :
    doWrite w a = (w, .raised .attributeError) := by
  unfold doWrite; rw [h, hc]; rfl

/-- on a handler with a device description a write is `channelsWrite` with the device's answers -/
theorem doWrite_some (w : World) (a : Ans) (c : Client) (h : w.hasDev = true) (hc : w.cli = some c) :
    doWrite w a =
      ({ w with cli := some (channelsWrite c w.dev a.dv a.en).1, dev := (channelsWrite c w.dev a.dv a.en).2.1,
                log := w.log ++ (channelsWrite c w.dev a.dv a.en).2.2.sent,
                time := w.time + (channelsWrite c w.dev a.dv a.en).2.2.time },
       match (channelsWrite c w.dev a.dv a.en).2.2.err with | some e => .raised e | none => .ok) := by
  unfold doWrite; rw [h, hc]; rfl

theorem doWrite_frame (w : World) (a : Ans) : CfgFrame w (doWrite w a).1 := by
  cases h : w.hasDev with
  | false => rw [doWrite_nodev w a h]; exact .refl w
  | true =>
    cases hc : w.cli with
    | none => rw [doWrite_nocli w a h hc]; exact .refl w
    | some c => rw [doWrite_some w a c h hc]; exact ⟨rfl, rfl, rfl, rfl, rfl, rfl, rfl, rfl, rfl, rfl, rfl, rfl, rfl, rfl⟩

/-- a write returns within two ACK timeouts -/
theorem doWrite_time (w : World) (a : Ans) : (doWrite w a).1.time ≤ w.time + 20 := by
  cases h : w.hasDev with
  | false => rw [doWrite_nodev w a h]; exact Nat.le_add_right _ _
  | true =>
    cases hc : w.cli with
    | none => rw [doWrite_nocli w a h hc]; exact Nat.le_add_right _ _
    | some c =>
      rw [doWrite_some w a c h hc]
      exact Nat.add_le_add_left (channelsWrite_time c w.dev a.dv a.en) _

theorem doWrite_time_ge (w : World) (a : Ans) : w.time ≤ (doWrite w a).1.time := by
  cases h : w.hasDev with
  | false => rw [doWrite_nodev w a h]; exact Nat.le_refl _
  | true =>
    cases hc : w.cli with
    | none => rw [doWrite_nocli w a h hc]; exact Nat.le_refl _
    | some c => rw [doWrite_some w a c h hc]; exact Nat.le_add_right _ _

theorem cfgCall_none (w : World) (op : Op) (wn : Bool) (a : Ans) (hc : w.cli = none) :
    cfgCall w op wn a = (w, .raised .attributeError) := by
  unfold cfgCall; rw [hc]

/-- a configuration call is the buffered `Config.step` followed (perhaps) by a write -/
theorem cfgCall_some (w : World) (op : Op) (wn : Bool) (a : Ans) (c : Client) (hc : w.cli = some c) :
    (cfgCall w op wn a).1 = { w with cli := some (Config.step c w.dev op).1 } ∨
    (cfgCall w op wn a).1 = (doWrite { w with cli := some (Config.step c w.dev op).1 } a).1 := by
  unfold cfgCall; rw [hc]
  dsimp only
  split
  · exact Or.inl rfl
  · cases wn
    · exact Or.inl rfl
    · exact Or.inr rfl

theorem cfgCall_frame (w : World) (op : Op) (wn : Bool) (a : Ans) : CfgFrame w (cfgCall w op wn a).1 := by
  cases hc : w.cli with
  | none => rw [cfgCall_none w op wn a hc]; exact .refl w
  | some c =>
    rcases cfgCall_some w op wn a c hc with e | e <;> rw [e]
    · exact ⟨rfl, rfl, rfl, rfl, rfl, rfl, rfl, rfl, rfl, rfl, rfl, rfl, rfl, rfl⟩
    · exact CfgFrame.trans (b := { w with cli := some (Config.step c w.dev op).1 })
        ⟨rfl, rfl, rfl, rfl, rfl, rfl, rfl, rfl, rfl, rfl, rfl, rfl, rfl, rfl⟩ (doWrite_frame _ a)

theorem cfgCall_time (w : World) (op : Op) (wn : Bool) (a : Ans) :
    w.time ≤ (cfgCall w op wn a).1.time ∧ (cfgCall w op wn a).1.time ≤ w.time + 20 := by
  cases hc : w.cli with
  | none => rw [cfgCall_none w op wn a hc]; exact ⟨Nat.le_refl _, Nat.le_add_right _ _⟩
  | some c =>
    rcases cfgCall_some w op wn a c hc with e | e <;> rw [e]
    · exact ⟨Nat.le_refl _, Nat.le_add_right _ _⟩
    · exact ⟨doWrite_time_ge { w with cli := some (Config.step c w.dev op).1 } a,
        doWrite_time { w with cli := some (Config.step c w.dev op).1 } a⟩

/-- without a device description a configuration call only edits the client's buffered request -/
theorem cfgCall_nodev (w : World) (op : Op) (wn : Bool) (a : Ans) (h : w.hasDev = false) :
    ∃ cl, (cfgCall w op wn a).1 = { w with cli := cl } := by
  cases hc : w.cli with
  | none => rw [cfgCall_none w op wn a hc]; exact ⟨w.cli, rfl⟩
  | some c =>
    rcases cfgCall_some w op wn a c hc with e | e <;> rw [e]
    · exact ⟨_, rfl⟩
    · rw [doWrite_nodev { w with cli := some (Config.step c w.dev op).1 } a h]; exact ⟨_, rfl⟩

/-- the ACK wait of a start / stop request is at most its timeout -/
theorem startAck_time (w : World) (o : Outcome) (t : Nat) : (startAck w o t).2.2 ≤ t := by
  unfold startAck
  split
  · exact Nat.zero_le _
  · cases o with
    | ack => exact Nat.zero_le _
    | nack r => dsimp only; split <;> exact Nat.zero_le _
    | appliedAckLost => exact Nat.le_refl _
    | lost => exact Nat.le_refl _

theorem commStartReq_eq (w : World) (s : Bool) (o : Outcome) :
    (commStartReq w s o).1 =
      { w with log := w.log ++ okFrame (Requests.frameStart s),
               devStarted := if applies o then s else w.devStarted,
               time := w.time + (startAck w o (if s then Gen.Comm.ackTimeoutStart else Gen.Comm.ackTimeoutStop)).2.2 } := rfl


theorem commStartReq_time (w : World) (s : Bool) (o : Outcome) :
    w.time ≤ (commStartReq w s o).1.time ∧ (commStartReq w s o).1.time ≤ w.time + 10 := by
  rw [commStartReq_eq]
  refine ⟨Nat.le_add_right _ _, Nat.add_le_add_left ?_ _⟩
  refine Nat.le_trans (startAck_time w o _) ?_
  cases s <;> decide

/-! ### the configuration-level part of the invariants -/

/-- the client's configuration state is well formed for the device, carries the device's capability flags, and — on a
    device that acknowledges — the device holds the client's view unless a request is in doubt -/
def CliInv (flags : Nat) (w : World) : Prop :=
  ∃ c, w.cli = some c ∧ Inv c w.dev ∧ c.divSupported = Info.divSupported flags ∧
    c.ackSupported = Info.ackSupported flags ∧
    (Info.ackSupported flags = true → DoubtEn c w.dev ∧ DoubtDiv c w.dev)

/-- what never changes: the device is well formed, keeps its channel count, flags and static description -/
structure Base (n flags : Nat) (desc : Desc) (w : World) : Prop where
  wf : WF w.dev
  len : w.dev.en.length = n
  fl : w.flags = flags
  ds : w.desc = desc

/-- the static description of an `n`-channel device with these flags, as a connect reports it (names as the client
    decodes them: cut at the first NUL) -/
def rep (n flags : Nat) (desc : Desc) : Reported := ⟨n, flags, desc.rxpadding, desc.chans.map ChanDesc.decoded⟩

theorem Base.describe {n flags : Nat} {desc : Desc} {w : World} (h : Base n flags desc w) :
    describe w = rep n flags desc := by
  unfold Lifecycle.describe rep; rw [h.len, h.fl, h.ds]

/-- in every reachable world the first undecodable channel name is the one of the device's static description -/
theorem Base.badName {n flags : Nat} {desc : Desc} {w : World} (h : Base n flags desc w) :
    badName w = badNameIdx n desc := by
  unfold Lifecycle.badName; rw [h.len, h.ds]

theorem ackOp_of_nonwrite (op : Op) (h : ∀ a b, op ≠ .write a b) : AckOp op := by
  cases op <;> first | trivial | exact absurd rfl (h _ _)

theorem CliInv.init {flags : Nat} {w : World} (hd : WF w.dev) (hc : w.cli = some (Client.init w.dev flags)) :
    CliInv flags w :=
  ⟨_, hc, init_inv w.dev flags hd, rfl, rfl, fun _ => ⟨fun _ => rfl, fun _ => rfl⟩⟩

theorem CliInv.congr {flags : Nat} {w w' : World} (h : CliInv flags w) (hc : w'.cli = w.cli) (hd : w'.dev = w.dev) :
    CliInv flags w' := by
  obtain ⟨c, h1, h2, h3, h4, h5⟩ := h
  exact ⟨c, hc.trans h1, hd ▸ h2, h3, h4, hd ▸ h5⟩

/-- a buffered setter keeps the configuration invariant -/
theorem CliInv.setter {flags : Nat} {w : World} {c : Client} (h : CliInv flags w) (hc : w.cli = some c) (op : Op)
    (hop : ∀ a b, op ≠ .write a b) : CliInv flags { w with cli := some (Config.step c w.dev op).1 } := by
  obtain ⟨c0, hc0, hI, hdv, hak, hD⟩ := h
  obtain rfl : c0 = c := Option.some.inj (hc0.symm.trans hc)
  have hsil := (step_silent c0 w.dev op hop).1
  have hI' := step_inv hI op
  rw [hsil] at hI'
  have hf := step_fixed c0 w.dev op
  refine ⟨_, rfl, hI', hf.1.trans hdv, hf.2.1.trans hak, fun hA => ?_⟩
  have hd' := step_doubt hI (hD hA).1 (hD hA).2 op (Or.inr (ackOp_of_nonwrite op hop))
  rw [hsil] at hd'
  exact hd'

/-- a write, whatever the device answers, keeps the configuration invariant -/
theorem CliInv.write {flags : Nat} {w : World} {c : Client} (h : CliInv flags w) (hc : w.cli = some c) (a : Ans)
    (lg : List Bytes) (t : Nat) :
    CliInv flags { w with cli := some (channelsWrite c w.dev a.dv a.en).1,
                          dev := (channelsWrite c w.dev a.dv a.en).2.1, log := lg, time := t } := by
  obtain ⟨c0, hc0, hI, hdv, hak, hD⟩ := h
  obtain rfl : c0 = c := Option.some.inj (hc0.symm.trans hc)
  have hf := channelsWrite_fixed c0 w.dev a.dv a.en
  exact ⟨_, rfl, channelsWrite_inv hI a.dv a.en, hf.1.trans hdv, hf.2.1.trans hak,
    fun hA => channelsWrite_doubt hI (hD hA).1 (hD hA).2 a.dv a.en (Or.inl (hak.trans hA))⟩

/-! ### the low-level handler's two states -/

/-- the low-level handler is stopped: no receive thread, interface stopped, no description -/
def COff (w : World) : Prop :=
  w.recvThr = false ∧ w.intf = false ∧ w.hasDev = false ∧ w.commStarted = false ∧ w.reported = none

/-- the low-level handler is started: receive thread and interface running, the device's description reported,
    configuration state well formed -/
def COn (flags : Nat) (r : Reported) (w : World) : Prop :=
  w.recvThr = true ∧ w.intf = true ∧ w.hasDev = true ∧ w.commStarted = true ∧ w.reported = some r ∧ CliInv flags w

theorem COn.of_frame {flags : Nat} {r : Reported} {w w' : World} (h : COn flags r w) (hF : CfgFrame w w')
    (hc : CliInv flags w') : COn flags r w' :=
  ⟨hF.recvThr.trans h.1, hF.intf.trans h.2.1, hF.hasDev.trans h.2.2.1, hF.commStarted.trans h.2.2.2.1,
   hF.reported.trans h.2.2.2.2.1, hc⟩

theorem COff.of_frame {w w' : World} (h : COff w) (hF : CfgFrame w w') : COff w' :=
  ⟨hF.recvThr.trans h.1, hF.intf.trans h.2.1, hF.hasDev.trans h.2.2.1, hF.commStarted.trans h.2.2.2.1,
   hF.reported.trans h.2.2.2.2⟩

/-- a write on a started handler: invariants kept, and it does not raise -/
theorem doWrite_con {n flags : Nat} {desc : Desc} {r : Reported} {w : World} (hb : Base n flags desc w)
    (hon : COn flags r w) (a : Ans) :
    Base n flags desc (doWrite w a).1 ∧ COn flags r (doWrite w a).1 ∧ (doWrite w a).2 = .ok := by
  obtain ⟨c, hc, hI, -⟩ := hon.2.2.2.2.2
  have hF := doWrite_frame w a
  have hcl := CliInv.write hon.2.2.2.2.2 hc a (w.log ++ (channelsWrite c w.dev a.dv a.en).2.2.sent)
    (w.time + (channelsWrite c w.dev a.dv a.en).2.2.time)
  have hne := channelsWrite_noerr hI a.dv a.en
  rw [doWrite_some w a c hon.2.2.1 hc] at hF ⊢
  refine ⟨⟨channelsWrite_wf hI hb.wf a.dv a.en, (channelsWrite_len hI a.dv a.en).trans hb.len, hb.fl, hb.ds⟩,
    hon.of_frame hF hcl, ?_⟩
  dsimp only
  rw [hne]

/-- a buffered setter, perhaps followed by a write, on a started handler -/
theorem cfgCall_con {n flags : Nat} {desc : Desc} {r : Reported} {w : World} (hb : Base n flags desc w)
    (hon : COn flags r w) (op : Op) (wn : Bool) (a : Ans) (hop : ∀ x y, op ≠ .write x y) :
    Base n flags desc (cfgCall w op wn a).1 ∧ COn flags r (cfgCall w op wn a).1 := by
  obtain ⟨c, hc, -⟩ := hon.2.2.2.2.2
  have hset := CliInv.setter hon.2.2.2.2.2 hc op hop
  have hon' : COn flags r { w with cli := some (Config.step c w.dev op).1 } :=
    ⟨hon.1, hon.2.1, hon.2.2.1, hon.2.2.2.1, hon.2.2.2.2.1, hset⟩
  have hb' : Base n flags desc { w with cli := some (Config.step c w.dev op).1 } := ⟨hb.wf, hb.len, hb.fl, hb.ds⟩
  rcases cfgCall_some w op wn a c hc with e | e <;> rw [e]
  · exact ⟨hb', hon'⟩
  · exact ⟨(doWrite_con hb' hon' a).1, (doWrite_con hb' hon' a).2.1⟩

/-- `ch_disable_all(True)` on a started handler does not raise: the setter cannot fail, the write is built from
    well-formed vectors -/
theorem cfgCall_disableAll_ok {n flags : Nat} {desc : Desc} {r : Reported} {w : World} (hb : Base n flags desc w)
    (hon : COn flags r w) (a : Ans) : (cfgCall w .disableAll true a).2 = .ok := by
  obtain ⟨c, hc, -⟩ := hon.2.2.2.2.2
  have hset := CliInv.setter hon.2.2.2.2.2 hc .disableAll (fun _ _ e => nomatch e)
  have hon' : COn flags r { w with cli := some (Config.step c w.dev .disableAll).1 } :=
    ⟨hon.1, hon.2.1, hon.2.2.1, hon.2.2.2.1, hon.2.2.2.2.1, hset⟩
  have hb' : Base n flags desc { w with cli := some (Config.step c w.dev .disableAll).1 } :=
    ⟨hb.wf, hb.len, hb.fl, hb.ds⟩
  have e : cfgCall w .disableAll true a = doWrite { w with cli := some (Config.step c w.dev .disableAll).1 } a := by
    unfold cfgCall; rw [hc]; rfl
  rw [e]
  exact (doWrite_con hb' hon' a).2.2

/-! ### single calls of the high-level handler -/

theorem step_sub (w : World) (c : Int) (a : Ans) : step w (.sub c) a =
    if pyIdx w.subs.length c < w.subs.length then
      ({ w with subs := w.subs.set (pyIdx w.subs.length c) (w.subs.getD (pyIdx w.subs.length c) [] ++ [w.nextQ]),
                nextQ := w.nextQ + 1 }, .ok)
    else (w, .raised .indexError) := rfl

theorem step_chDivider (w : World) (cs : List Int) (v : Int) (wn : Bool) (a : Ans) : step w (.chDivider cs v wn) a =
    if v < 0 ∨ v > 255 then (w, .raised .valueError)
    else if !w.hasDev then (w, .raised .assertion)
    else cfgCall w (.divider (idxs w cs) v) wn a := rfl

theorem step_chDisableAll (w : World) (wn : Bool) (a : Ans) : step w (.chDisableAll wn) a =
    if !w.hasDev then (w, .raised .assertion) else cfgCall w .disableAll wn a := rfl

theorem step_defaultCfg (w : World) (wn : Bool) (a : Ans) : step w (.defaultCfg wn) a =
    if !w.hasDev then (w, .raised .assertion) else cfgCall w .defaultCfg wn a := rfl

theorem step_devChannelGet (w : World) (c : Int) (a : Ans) : step w (.devChannelGet c) a =
    if !w.hasDev then (w, .raised .assertion) else (w, .ok) := rfl

theorem step_streamStart (w : World) (a : Ans) : step w .streamStart a =
    if w.streamStarted then (w, .ok)
    else
      match doWrite w a with
      | (w1, .ok) => ({ (commStartReq w1 true a.st).1 with streamThr := true, streamStarted := true }, .ok)
      | (w1, r) => (w1, r) := rfl

theorem step_connect (w : World) (a : Ans) : step w .connect a =
    if w.connected then (w, .ok)
    else
      match commConnectR w with
      | (w1, .ok) => ({ w1 with subs := List.replicate w1.dev.en.length [], connected := true }, .ok)
      | (w1, r) => (w1, r) := rfl

theorem step_disconnect (w : World) (a : Ans) : step w .disconnect a =
    if w.connected then
      match (if (streamStop w a).hasDev then cfgCall (streamStop w a) .disableAll true a
             else (streamStop w a, .raised .assertion)) with
      | (w2, .ok) => ({ commDisconnect w2 with connected := false }, .ok)
      | (w2, r) => (w2, r)
    else (w, .ok) := rfl

theorem step_connect_idem (w : World) (a : Ans) (h : w.connected = true) : step w .connect a = (w, .ok) := by
  rw [step_connect, h]; rfl

theorem step_disconnect_idem (w : World) (a : Ans) (h : w.connected = false) : step w .disconnect a = (w, .ok) := by
  rw [step_disconnect, h]; rfl

theorem streamStop_idle (w : World) (a : Ans) (h : w.streamStarted = false) : streamStop w a = w := by
  unfold streamStop; rw [h]; rfl

theorem streamStop_active (w : World) (a : Ans) (h : w.streamStarted = true) :
    streamStop w a = { (commStartReq w false a.st).1 with streamThr := false, streamStarted := false } := by
  unfold streamStop; rw [h]; rfl

theorem commConnect_started (w : World) (h : w.commStarted = true) : commConnect w = w := by
  unfold commConnect; rw [h]; rfl

theorem commConnect_stopped (w : World) (h : w.commStarted = false) : commConnect w =
    { w with intf := true, devStarted := false, recvThr := true,
             log := w.log ++ okFrame (Requests.frameStart false) ++ okFrame Requests.frameCmninfo ++ padWrite w ++
                      chinfoFrames 0 w.dev.en.length,
             time := w.time + drain + drain,
             intfPad := if w.desc.rxpadding > 0 then w.desc.rxpadding else w.intfPad,
             hasDev := true, reported := some (describe w),
             cli := some (Client.init w.dev w.flags), commStarted := true } := by
  unfold commConnect; rw [h]; rfl

theorem commDisconnect_started (w : World) (h : w.commStarted = true) : commDisconnect w =
    { w with recvThr := false, intf := false, time := w.time + drain, commStarted := false, hasDev := false,
             reported := none } := by
  unfold commDisconnect; rw [h]; rfl

theorem commDisconnect_stopped (w : World) (h : w.commStarted = false) : commDisconnect w = w := by
  unfold commDisconnect; rw [h]; rfl

/-! ### `CommHandler.connect()` with its result: a channel name that is not UTF-8 makes it raise -/

theorem commConnectR_started (w : World) (h : w.commStarted = true) : commConnectR w = (w, .ok) := by
  unfold commConnectR; rw [h]; rfl

/-- every name decodes: connect goes through -/
theorem commConnectR_ok (w : World) (h : badName w = none) : commConnectR w = (commConnect w, .ok) := by
  cases hs : w.commStarted with
  | true => rw [commConnectR_started w hs, commConnect_started w hs]
  | false => unfold commConnectR; rw [hs, h]; rfl

/-- channel `k` has a name that does not decode: connect raises and leaves the handler stopped -/
theorem commConnectR_bad (w : World) (k : Nat) (hs : w.commStarted = false) (h : badName w = some k) :
    commConnectR w = (commConnectFail w k, .raised .unicodeError) := by
  unfold commConnectR; rw [hs, h]; rfl

/-- the three cases of `commConnectR` -/
theorem commConnectR_cases (w : World) :
    commConnectR w = (commConnect w, .ok) ∨
    ∃ k, w.commStarted = false ∧ badName w = some k ∧ commConnectR w = (commConnectFail w k, .raised .unicodeError) := by
  cases hb : badName w with
  | none => exact Or.inl (commConnectR_ok w hb)
  | some k =>
    cases hs : w.commStarted with
    | true => left; rw [commConnectR_started w hs, commConnect_started w hs]
    | false => exact Or.inr ⟨k, rfl, rfl, commConnectR_bad w k hs hb⟩

theorem commConnectFail_eq (w : World) (k : Nat) : commConnectFail w k =
    { w with devStarted := false,
             log := w.log ++ okFrame (Requests.frameStart false) ++ okFrame Requests.frameCmninfo ++ padWrite w ++
                      chinfoFrames 0 (k + 1),
             time := w.time + drain + drain,
             intfPad := if w.desc.rxpadding > 0 then w.desc.rxpadding else w.intfPad } := rfl

/-- connect on a disconnected handler in front of a device whose names all decode -/
theorem step_connect_ok (w : World) (a : Ans) (hc : w.connected = false) (hb : badName w = none) :
    step w .connect a =
      ({ commConnect w with subs := List.replicate (commConnect w).dev.en.length [], connected := true }, .ok) := by
  rw [step_connect, hc, if_neg Bool.false_ne_true, commConnectR_ok w hb]

/-- connect on a switched-off handler in front of a device with an undecodable name: the exception of the low-level
    connect propagates -/
theorem step_connect_bad (w : World) (a : Ans) (k : Nat) (hc : w.connected = false) (hs : w.commStarted = false)
    (hb : badName w = some k) : step w .connect a = (commConnectFail w k, .raised .unicodeError) := by
  rw [step_connect, hc, if_neg Bool.false_ne_true, commConnectR_bad w k hs hb]

/-! ### the high-level handler's two states, any answers of the device -/

/-- the handler is switched off: disconnected, no thread, no interface, no description, no stream -/
def Off (w : World) : Prop :=
  w.connected = false ∧ w.streamThr = false ∧ w.streamStarted = false ∧ COff w

/-- the handler is switched on: connected, low-level handler started, the stream thread runs exactly while the
    stream is started -/
def GOn (flags : Nat) (r : Reported) (w : World) : Prop :=
  w.connected = true ∧ w.streamThr = w.streamStarted ∧ COn flags r w

/-- invariant of every world reachable from a fresh handler in front of a well-formed `n`-channel device -/
structure GInv (n flags : Nat) (desc : Desc) (w : World) : Prop where
  base : Base n flags desc w
  mode : Off w ∨ GOn flags (rep n flags desc) w

/-- a call on a switched-off handler (other than connect) can only edit the buffered client request
    and the subscription bookkeeping -/
theorem step_off_shape (w : World) (c : Call) (a : Ans) (hc : c ≠ .connect) (h : Off w) :
    ∃ cl sb nq, (step w c a).1 = { w with cli := cl, subs := sb, nextQ := nq } := by
  obtain ⟨h1, -, h7, -, -, h5, -, -⟩ := h
  have cfg : ∀ op wn, ∃ cl sb nq, (cfgCall w op wn a).1 = { w with cli := cl, subs := sb, nextQ := nq } := by
    intro op wn
    obtain ⟨cl, e⟩ := cfgCall_nodev w op wn a h5
    exact ⟨cl, w.subs, w.nextQ, e⟩
  have same : ∃ cl sb nq, w = { w with cli := cl, subs := sb, nextQ := nq } := ⟨w.cli, w.subs, w.nextQ, rfl⟩
  cases c with
  | connect => exact absurd rfl hc
  | disconnect => rw [step_disconnect_idem w a h1]; exact same
  | streamStart =>
    have e : step w .streamStart a = (w, .raised .assertion) := by
      rw [step_streamStart, h7, doWrite_nodev w a h5]; rfl
    rw [e]; exact same
  | streamStop =>
    have e : step w .streamStop a = (streamStop w a, .ok) := rfl
    rw [e, streamStop_idle w a h7]
    exact same
  | sub c =>
    rw [step_sub]
    split
    · exact ⟨w.cli, _, _, rfl⟩
    · exact same
  | unsub q => exact ⟨w.cli, _, w.nextQ, rfl⟩
  | chEnable cs wn => exact cfg _ _
  | chDisable cs wn => exact cfg _ _
  | chDisableAll wn =>
    have e : step w (.chDisableAll wn) a = (w, .raised .assertion) := by
      rw [step_chDisableAll, h5]; rfl
    rw [e]; exact same
  | chDivider cs v wn =>
    rw [step_chDivider]
    split
    · exact same
    · split
      · exact same
      · exact cfg _ _
  | defaultCfg wn =>
    have e : step w (.defaultCfg wn) a = (w, .raised .assertion) := by
      rw [step_defaultCfg, h5]; rfl
    rw [e]; exact same
  | channelsWrite =>
    have e : step w .channelsWrite a = (w, .raised .assertion) := doWrite_nodev w a h5
    rw [e]; exact same
  | devChannelGet c =>
    have e : step w (.devChannelGet c) a = (w, .raised .assertion) := by
      rw [step_devChannelGet, h5]; rfl
    rw [e]; exact same

/-- calls on a switched-off handler never reach the device, never start anything, take no time -/
theorem step_off (w : World) (c : Call) (a : Ans) (hc : c ≠ .connect) (h : Off w) :
    Off (step w c a).1 ∧ (step w c a).1.log = w.log ∧ (step w c a).1.dev = w.dev ∧
    (step w c a).1.devStarted = w.devStarted ∧ (step w c a).1.time = w.time ∧ (step w c a).1.flags = w.flags ∧
    (step w c a).1.desc = w.desc ∧ (step w c a).1.intfPad = w.intfPad := by
  obtain ⟨cl, sb, nq, e⟩ := step_off_shape w c a hc h
  rw [e]
  exact ⟨h, rfl, rfl, rfl, rfl, rfl, rfl, rfl⟩

theorem fresh_ginv (d0 : Device) (started : Bool) (flags : Nat) (desc : Desc) (hd : WF d0) :
    GInv d0.en.length flags desc (World.fresh d0 started flags desc) :=
  ⟨⟨hd, rfl, rfl, rfl⟩, Or.inl ⟨rfl, rfl, rfl, rfl, rfl, rfl, rfl, rfl⟩⟩

theorem g_write {n flags : Nat} {desc : Desc} {w : World} (h : GInv n flags desc w)
    (hon : GOn flags (rep n flags desc) w) (a : Ans) :
    GInv n flags desc (doWrite w a).1 ∧ GOn flags (rep n flags desc) (doWrite w a).1 ∧ (doWrite w a).2 = .ok := by
  have hF := doWrite_frame w a
  obtain ⟨hb, hc, hr⟩ := doWrite_con h.base hon.2.2 a
  have h2 : GOn flags (rep n flags desc) (doWrite w a).1 :=
    ⟨hF.connected.trans hon.1, by rw [hF.streamThr, hF.streamStarted]; exact hon.2.1, hc⟩
  exact ⟨⟨hb, Or.inr h2⟩, h2, hr⟩

theorem g_cfg {n flags : Nat} {desc : Desc} {w : World} (h : GInv n flags desc w)
    (hon : GOn flags (rep n flags desc) w) (op : Op) (wn : Bool) (a : Ans) (hop : ∀ x y, op ≠ .write x y) :
    GInv n flags desc (cfgCall w op wn a).1 ∧ GOn flags (rep n flags desc) (cfgCall w op wn a).1 := by
  have hF := cfgCall_frame w op wn a
  obtain ⟨hb, hc⟩ := cfgCall_con h.base hon.2.2 op wn a hop
  have h2 : GOn flags (rep n flags desc) (cfgCall w op wn a).1 :=
    ⟨hF.connected.trans hon.1, by rw [hF.streamThr, hF.streamStarted]; exact hon.2.1, hc⟩
  exact ⟨⟨hb, Or.inr h2⟩, h2⟩

theorem g_streamStop {n flags : Nat} {desc : Desc} {w : World} (h : GInv n flags desc w)
    (hon : GOn flags (rep n flags desc) w) (a : Ans) :
    GInv n flags desc (streamStop w a) ∧ GOn flags (rep n flags desc) (streamStop w a) ∧
    (streamStop w a).streamStarted = false := by
  cases hs : w.streamStarted with
  | false =>
    rw [streamStop_idle w a hs]
    exact ⟨h, hon, hs⟩
  | true =>
    rw [streamStop_active w a hs, commStartReq_eq]
    obtain ⟨h1, -, h2, h3, h4, h5, h6, h7⟩ := hon
    have hon' : GOn flags (rep n flags desc)
        { w with log := w.log ++ okFrame (Requests.frameStart false),
                 devStarted := if applies a.st then false else w.devStarted,
                 time := w.time + (startAck w a.st (if false = true then Gen.Comm.ackTimeoutStart else Gen.Comm.ackTimeoutStop)).2.2,
                 streamThr := false, streamStarted := false } :=
      ⟨h1, rfl, h2, h3, h4, h5, h6, h7.congr rfl rfl⟩
    exact ⟨⟨⟨h.base.wf, h.base.len, h.base.fl, h.base.ds⟩, Or.inr hon'⟩, hon', rfl⟩

/-- disconnect on a switched-on handler always completes (whatever the device answers) and switches it off -/
theorem g_disconnect {n flags : Nat} {desc : Desc} {w : World} (h : GInv n flags desc w)
    (hon : GOn flags (rep n flags desc) w) (a : Ans) :
    GInv n flags desc (step w .disconnect a).1 ∧ Off (step w .disconnect a).1 ∧ (step w .disconnect a).2 = .ok := by
  obtain ⟨h1, o1, s1⟩ := g_streamStop h hon a
  have hh := o1.2.2.2.2.1
  obtain ⟨h2, o2⟩ := g_cfg h1 o1 .disableAll true a (fun _ _ e => nomatch e)
  have hF := cfgCall_frame (streamStop w a) .disableAll true a
  have hok := cfgCall_disableAll_ok h1.base o1.2.2 a
  rw [step_disconnect, hon.1, hh]
  simp only [↓reduceIte]
  generalize cfgCall (streamStop w a) .disableAll true a = r at *
  obtain ⟨w2, res⟩ := r
  dsimp only at *
  subst hok
  dsimp only
  rw [commDisconnect_started w2 o2.2.2.2.2.2.1]
  have hoff : Off { { w2 with recvThr := false, intf := false, time := w2.time + drain, commStarted := false,
                              hasDev := false, reported := none } with connected := false } :=
    ⟨rfl, o2.2.1.trans (hF.streamStarted.trans s1), hF.streamStarted.trans s1, rfl, rfl, rfl, rfl, rfl⟩
  exact ⟨⟨⟨h2.base.wf, h2.base.len, h2.base.fl, h2.base.ds⟩, Or.inl hoff⟩, hoff, rfl⟩

/-- connect on a switched-off handler: handshake (which stops a stream left running), fresh client, the device's
    static description reported -/
theorem off_connect {n flags : Nat} {desc : Desc} {w : World} (h : GInv n flags desc w) (hoff : Off w) (a : Ans)
    (hbn : badNameIdx n desc = none) :
    GInv n flags desc (step w .connect a).1 ∧ GOn flags (rep n flags desc) (step w .connect a).1 ∧
    (step w .connect a).1.devStarted = false ∧ (step w .connect a).1.dev = w.dev ∧
    (step w .connect a).1.cli = some (Client.init w.dev flags) ∧
    (step w .connect a).1.streamStarted = false ∧ (step w .connect a).2 = .ok := by
  obtain ⟨h1, h3, h7, -, -, -, h6, -⟩ := hoff
  rw [step_connect_ok w a h1 (h.base.badName.trans hbn), commConnect_stopped w h6]
  have hcli : CliInv flags
      { w with intf := true, devStarted := false, recvThr := true,
               log := w.log ++ okFrame (Requests.frameStart false) ++ okFrame Requests.frameCmninfo ++ padWrite w ++
                        chinfoFrames 0 w.dev.en.length,
               time := w.time + drain + drain,
               intfPad := if w.desc.rxpadding > 0 then w.desc.rxpadding else w.intfPad,
               hasDev := true, reported := some (describe w),
               cli := some (Client.init w.dev w.flags), commStarted := true,
               subs := List.replicate w.dev.en.length [], connected := true } :=
    CliInv.init h.base.wf (by rw [h.base.fl])
  refine (fun hon => ⟨⟨⟨h.base.wf, h.base.len, h.base.fl, h.base.ds⟩, Or.inr hon⟩, hon, rfl, rfl, ?_, h7, rfl⟩ :
    GOn flags (rep n flags desc) _ → _) ?_
  · exact ⟨rfl, h3.trans h7.symm, rfl, rfl, rfl, rfl, by rw [h.base.describe], hcli⟩
  · show some (Client.init w.dev w.flags) = _
    rw [h.base.fl]

/-- connect on a switched-off handler in front of a device whose channel `k` has a name that is not UTF-8: the call
    raises, the handler stays switched off (nothing running, no description, configuration state untouched); the
    stop request has been sent (a stream left running is stopped), the device's configuration is untouched -/
theorem off_connect_bad {n flags : Nat} {desc : Desc} {w : World} (h : GInv n flags desc w) (hoff : Off w) (a : Ans)
    (k : Nat) (hbn : badNameIdx n desc = some k) :
    GInv n flags desc (step w .connect a).1 ∧ Off (step w .connect a).1 ∧
    (step w .connect a).1.devStarted = false ∧ (step w .connect a).1.dev = w.dev ∧
    (step w .connect a).1.cli = w.cli ∧ (step w .connect a).1.time = w.time + drain + drain ∧
    (step w .connect a).2 = .raised .unicodeError := by
  have hoff' := hoff
  obtain ⟨h1, h3, h7, h4, h5, h8, h6, h9⟩ := hoff
  rw [step_connect_bad w a k h1 h6 (h.base.badName.trans hbn), commConnectFail_eq]
  have hoff2 : Off
      { w with devStarted := false,
               log := w.log ++ okFrame (Requests.frameStart false) ++ okFrame Requests.frameCmninfo ++ padWrite w ++
                        chinfoFrames 0 (k + 1),
               time := w.time + drain + drain,
               intfPad := if w.desc.rxpadding > 0 then w.desc.rxpadding else w.intfPad } := hoff'
  exact ⟨⟨⟨h.base.wf, h.base.len, h.base.fl, h.base.ds⟩, Or.inl hoff2⟩, hoff2, rfl, rfl, rfl, rfl, rfl⟩

/-- connect on a switched-off handler, either way: the invariant is kept, the device's stream is stopped and its
    configuration untouched; the handler is switched on exactly when the call returns -/
theorem off_connect_any {n flags : Nat} {desc : Desc} {w : World} (h : GInv n flags desc w) (hoff : Off w) (a : Ans) :
    GInv n flags desc (step w .connect a).1 ∧ (step w .connect a).1.devStarted = false ∧
    (step w .connect a).1.dev = w.dev ∧
    (((step w .connect a).1.connected = true ∧ badNameIdx n desc = none) ∨
     ((step w .connect a).1.connected = false ∧ ∃ k, badNameIdx n desc = some k)) := by
  cases hbn : badNameIdx n desc with
  | none =>
    obtain ⟨e1, e2, e3, e4, -⟩ := off_connect h hoff a hbn
    exact ⟨e1, e3, e4, Or.inl ⟨e2.1, rfl⟩⟩
  | some k =>
    obtain ⟨e1, e2, e3, e4, -⟩ := off_connect_bad h hoff a k hbn
    exact ⟨e1, e3, e4, Or.inr ⟨e2.1, k, rfl⟩⟩

/-- every call other than disconnect keeps a switched-on handler switched on -/
theorem g_step {n flags : Nat} {desc : Desc} {w : World} (h : GInv n flags desc w)
    (hon : GOn flags (rep n flags desc) w) (c : Call) (a : Ans) (hc : c ≠ .disconnect) :
    GInv n flags desc (step w c a).1 ∧ GOn flags (rep n flags desc) (step w c a).1 := by
  have hh := hon.2.2.2.2.1
  cases c with
  | connect => rw [step_connect_idem w a hon.1]; exact ⟨h, hon⟩
  | disconnect => exact absurd rfl hc
  | streamStart =>
    cases hs : w.streamStarted with
    | true =>
      have e : step w .streamStart a = (w, .ok) := by rw [step_streamStart, hs]; rfl
      rw [e]; exact ⟨h, hon⟩
    | false =>
      obtain ⟨hw, ow, hr⟩ := g_write h hon a
      rw [step_streamStart, hs]
      simp only [Bool.false_eq_true, ↓reduceIte]
      generalize doWrite w a = r at *
      obtain ⟨w1, res⟩ := r
      dsimp only at hr
      subst hr
      dsimp only
      rw [commStartReq_eq]
      obtain ⟨o1, -, o2, o3, o4, o5, o6, o7⟩ := ow
      have hon' : GOn flags (rep n flags desc)
          { w1 with log := w1.log ++ okFrame (Requests.frameStart true),
                    devStarted := if applies a.st then true else w1.devStarted,
                    time := w1.time + (startAck w1 a.st (if true = true then Gen.Comm.ackTimeoutStart else Gen.Comm.ackTimeoutStop)).2.2,
                    streamThr := true, streamStarted := true } :=
        ⟨o1, rfl, o2, o3, o4, o5, o6, o7.congr rfl rfl⟩
      exact ⟨⟨⟨hw.base.wf, hw.base.len, hw.base.fl, hw.base.ds⟩, Or.inr hon'⟩, hon'⟩
  | streamStop =>
    obtain ⟨h1, o1, -⟩ := g_streamStop h hon a
    exact ⟨h1, o1⟩
  | sub c =>
    rw [step_sub]
    split
    · have hon' : GOn flags (rep n flags desc)
          { w with subs := w.subs.set (pyIdx w.subs.length c) (w.subs.getD (pyIdx w.subs.length c) [] ++ [w.nextQ]),
                   nextQ := w.nextQ + 1 } :=
        ⟨hon.1, hon.2.1, hon.2.2.1, hon.2.2.2.1, hon.2.2.2.2.1, hon.2.2.2.2.2.1, hon.2.2.2.2.2.2.1,
         hon.2.2.2.2.2.2.2.congr rfl rfl⟩
      exact ⟨⟨⟨h.base.wf, h.base.len, h.base.fl, h.base.ds⟩, Or.inr hon'⟩, hon'⟩
    · exact ⟨h, hon⟩
  | unsub q =>
    have hon' : GOn flags (rep n flags desc) { w with subs := w.subs.map fun l => l.erase q } :=
      ⟨hon.1, hon.2.1, hon.2.2.1, hon.2.2.2.1, hon.2.2.2.2.1, hon.2.2.2.2.2.1, hon.2.2.2.2.2.2.1,
       hon.2.2.2.2.2.2.2.congr rfl rfl⟩
    exact ⟨⟨⟨h.base.wf, h.base.len, h.base.fl, h.base.ds⟩, Or.inr hon'⟩, hon'⟩
  | chEnable cs wn => exact g_cfg h hon _ wn a (fun _ _ e => nomatch e)
  | chDisable cs wn => exact g_cfg h hon _ wn a (fun _ _ e => nomatch e)
  | chDisableAll wn =>
    have e : step w (.chDisableAll wn) a = cfgCall w .disableAll wn a := by rw [step_chDisableAll, hh]; rfl
    rw [e]; exact g_cfg h hon _ wn a (fun _ _ e => nomatch e)
  | chDivider cs v wn =>
    rw [step_chDivider]
    split
    · exact ⟨h, hon⟩
    · have e : (if (!w.hasDev) = true then (w, Res.raised Err.assertion) else cfgCall w (.divider (idxs w cs) v) wn a) =
          cfgCall w (.divider (idxs w cs) v) wn a := by rw [hh]; rfl
      rw [e]; exact g_cfg h hon _ wn a (fun _ _ e => nomatch e)
  | defaultCfg wn =>
    have e : step w (.defaultCfg wn) a = cfgCall w .defaultCfg wn a := by rw [step_defaultCfg, hh]; rfl
    rw [e]; exact g_cfg h hon _ wn a (fun _ _ e => nomatch e)
  | channelsWrite => exact ⟨(g_write h hon a).1, (g_write h hon a).2.1⟩
  | devChannelGet c =>
    have e : step w (.devChannelGet c) a = (w, .ok) := by rw [step_devChannelGet, hh]; rfl
    rw [e]; exact ⟨h, hon⟩

theorem step_ginv {n flags : Nat} {desc : Desc} {w : World} (h : GInv n flags desc w) (c : Call) (a : Ans) :
    GInv n flags desc (step w c a).1 := by
  rcases h.mode with hoff | hon
  · by_cases hc : c = .connect
    · subst hc; exact (off_connect_any h hoff a).1
    · obtain ⟨h1, -, h3, -, -, h6, h7, -⟩ := step_off w c a hc hoff
      exact ⟨⟨h3 ▸ h.base.wf, h3 ▸ h.base.len, h6.trans h.base.fl, h7.trans h.base.ds⟩, Or.inl h1⟩
  · by_cases hc : c = .disconnect
    · subst hc; exact (g_disconnect h hon a).1
    · exact (g_step h hon c a hc).1

/-! ### a bare low-level handler -/

/-- invariant of every world reachable by calls on a bare `CommHandler` in front of a well-formed device -/
structure CInv (n flags : Nat) (desc : Desc) (w : World) : Prop where
  base : Base n flags desc w
  hi : w.connected = false ∧ w.streamThr = false ∧ w.streamStarted = false
  mode : COff w ∨ COn flags (rep n flags desc) w

theorem fresh_cinv (d0 : Device) (started : Bool) (flags : Nat) (desc : Desc) (hd : WF d0) :
    CInv d0.en.length flags desc (World.fresh d0 started flags desc) :=
  ⟨⟨hd, rfl, rfl, rfl⟩, ⟨rfl, rfl, rfl⟩, Or.inl ⟨rfl, rfl, rfl, rfl, rfl⟩⟩

theorem CInv.of_frame {n flags : Nat} {desc : Desc} {w w' : World} (h : CInv n flags desc w) (hF : CfgFrame w w')
    (hb : Base n flags desc w') (hm : COff w' ∨ COn flags (rep n flags desc) w') : CInv n flags desc w' :=
  ⟨hb, ⟨hF.connected.trans h.hi.1, hF.streamThr.trans h.hi.2.1, hF.streamStarted.trans h.hi.2.2⟩, hm⟩

theorem c_cfg {n flags : Nat} {desc : Desc} {w : World} (h : CInv n flags desc w) (op : Op) (wn : Bool) (a : Ans)
    (hop : ∀ x y, op ≠ .write x y) : CInv n flags desc (cfgCall w op wn a).1 := by
  have hF := cfgCall_frame w op wn a
  rcases h.mode with hoff | hon
  · obtain ⟨cl, e⟩ := cfgCall_nodev w op wn a hoff.2.2.1
    refine h.of_frame hF ?_ (Or.inl (hoff.of_frame hF))
    rw [e]; exact ⟨h.base.wf, h.base.len, h.base.fl, h.base.ds⟩
  · obtain ⟨hb, hc⟩ := cfgCall_con h.base hon op wn a hop
    exact h.of_frame hF hb (Or.inr hc)

theorem c_write {n flags : Nat} {desc : Desc} {w : World} (h : CInv n flags desc w) (a : Ans) :
    CInv n flags desc (doWrite w a).1 := by
  have hF := doWrite_frame w a
  rcases h.mode with hoff | hon
  · rw [doWrite_nodev w a hoff.2.2.1]; exact h
  · obtain ⟨hb, hc, -⟩ := doWrite_con h.base hon a
    exact h.of_frame hF hb (Or.inr hc)

theorem c_guard {n flags : Nat} {desc : Desc} {w : World} (h : CInv n flags desc w) (op : Op) (a : Ans)
    (hop : ∀ x y, op ≠ .write x y) :
    CInv n flags desc (if (!w.hasDev) = true then (w, Res.raised Err.assertion) else cfgCall w op false a).1 := by
  split
  · exact h
  · exact c_cfg h op false a hop

theorem commStep_connect (w : World) (a : Ans) : commStep w .connect a = commConnectR w := rfl
theorem commStep_disconnect (w : World) (a : Ans) : commStep w .disconnect a = (commDisconnect w, .ok) := rfl
theorem commStep_streamStart (w : World) (a : Ans) : commStep w .streamStart a =
    ((commStartReq w true a.st).1, .ack (commStartReq w true a.st).2.1 (commStartReq w true a.st).2.2) := rfl
theorem commStep_streamStop (w : World) (a : Ans) : commStep w .streamStop a =
    ((commStartReq w false a.st).1, .ack (commStartReq w false a.st).2.1 (commStartReq w false a.st).2.2) := rfl

theorem c_startReq {n flags : Nat} {desc : Desc} {w : World} (h : CInv n flags desc w) (s : Bool) (o : Outcome) :
    CInv n flags desc (commStartReq w s o).1 := by
  rw [commStartReq_eq]
  refine ⟨⟨h.base.wf, h.base.len, h.base.fl, h.base.ds⟩, h.hi, ?_⟩
  rcases h.mode with hoff | hon
  · exact Or.inl hoff
  · exact Or.inr ⟨hon.1, hon.2.1, hon.2.2.1, hon.2.2.2.1, hon.2.2.2.2.1, hon.2.2.2.2.2.congr rfl rfl⟩

theorem c_connect {n flags : Nat} {desc : Desc} {w : World} (h : CInv n flags desc w) :
    CInv n flags desc (commConnect w) ∧ COn flags (rep n flags desc) (commConnect w) := by
  rcases h.mode with hoff | hon
  · rw [commConnect_stopped w hoff.2.2.2.1]
    have hcli : CliInv flags
        { w with intf := true, devStarted := false, recvThr := true,
                 log := w.log ++ okFrame (Requests.frameStart false) ++ okFrame Requests.frameCmninfo ++ padWrite w ++
                          chinfoFrames 0 w.dev.en.length,
                 time := w.time + drain + drain,
                 intfPad := if w.desc.rxpadding > 0 then w.desc.rxpadding else w.intfPad,
                 hasDev := true, reported := some (describe w),
                 cli := some (Client.init w.dev w.flags), commStarted := true } :=
      CliInv.init h.base.wf (by rw [h.base.fl])
    refine (fun hon => ⟨⟨⟨h.base.wf, h.base.len, h.base.fl, h.base.ds⟩, h.hi, Or.inr hon⟩, hon⟩ :
      COn flags (rep n flags desc) _ → _) ?_
    exact ⟨rfl, rfl, rfl, rfl, by rw [h.base.describe], hcli⟩
  · rw [commConnect_started w hon.2.2.2.1]; exact ⟨h, hon⟩

/-- the low-level connect in front of a device whose channel `k` has a name that is not UTF-8: the handler stays
    stopped -/
theorem c_connect_fail {n flags : Nat} {desc : Desc} {w : World} (h : CInv n flags desc w) (hoff : COff w) (k : Nat) :
    CInv n flags desc (commConnectFail w k) ∧ COff (commConnectFail w k) := by
  rw [commConnectFail_eq]
  have hoff2 : COff
      { w with devStarted := false,
               log := w.log ++ okFrame (Requests.frameStart false) ++ okFrame Requests.frameCmninfo ++ padWrite w ++
                        chinfoFrames 0 (k + 1),
               time := w.time + drain + drain,
               intfPad := if w.desc.rxpadding > 0 then w.desc.rxpadding else w.intfPad } := hoff
  exact ⟨⟨⟨h.base.wf, h.base.len, h.base.fl, h.base.ds⟩, h.hi, Or.inl hoff2⟩, hoff2⟩

/-- the low-level connect with its result keeps the invariant; it leaves the handler started when every name
    decodes, and as it was (stopped) when it raises -/
theorem c_connectR {n flags : Nat} {desc : Desc} {w : World} (h : CInv n flags desc w) :
    CInv n flags desc (commConnectR w).1 ∧
    (badNameIdx n desc = none → COn flags (rep n flags desc) (commConnectR w).1 ∧ (commConnectR w).2 = .ok) ∧
    (w.commStarted = false → ∀ k, badNameIdx n desc = some k →
      COff (commConnectR w).1 ∧ (commConnectR w).2 = .raised .unicodeError) := by
  rcases commConnectR_cases w with e | ⟨k, hs, hb, e⟩
  · rw [e]
    refine ⟨(c_connect h).1, fun _ => ⟨(c_connect h).2, rfl⟩, fun hs k hk => ?_⟩
    have e2 := commConnectR_bad w k hs (h.base.badName.trans hk)
    rw [e] at e2
    have e3 : Res.ok = Res.raised Err.unicodeError := congrArg Prod.snd e2
    exact nomatch e3
  · rw [e]
    have hoff : COff w := by
      rcases h.mode with hoff | hon
      · exact hoff
      · exact absurd (hon.2.2.2.1.symm.trans hs) (by decide)
    refine ⟨(c_connect_fail h hoff k).1, fun hn => ?_, fun _ _ _ => ⟨(c_connect_fail h hoff k).2, rfl⟩⟩
    rw [h.base.badName, hn] at hb
    exact absurd hb (by simp)

theorem c_disconnect {n flags : Nat} {desc : Desc} {w : World} (h : CInv n flags desc w) :
    CInv n flags desc (commDisconnect w) ∧ COff (commDisconnect w) := by
  rcases h.mode with hoff | hon
  · rw [commDisconnect_stopped w hoff.2.2.2.1]; exact ⟨h, hoff⟩
  · rw [commDisconnect_started w hon.2.2.2.1]
    exact ⟨⟨⟨h.base.wf, h.base.len, h.base.fl, h.base.ds⟩, h.hi, Or.inl ⟨rfl, rfl, rfl, rfl, rfl⟩⟩, ⟨rfl, rfl, rfl, rfl, rfl⟩⟩

theorem commStep_cinv {n flags : Nat} {desc : Desc} {w : World} (h : CInv n flags desc w) (c : CommCall) (a : Ans) :
    CInv n flags desc (commStep w c a).1 := by
  cases c with
  | connect => exact (c_connectR h).1
  | disconnect => exact (c_disconnect h).1
  | streamStart => rw [commStep_streamStart]; exact c_startReq h true a.st
  | streamStop => rw [commStep_streamStop]; exact c_startReq h false a.st
  | chEnable cs => exact c_cfg h _ false a (fun _ _ e => nomatch e)
  | chDisable cs => exact c_cfg h _ false a (fun _ _ e => nomatch e)
  | chDivider cs v =>
    have e : commStep w (.chDivider cs v) a =
        if v < 0 ∨ v > 255 then (w, .raised .valueError)
        else if !w.hasDev then (w, .raised .assertion)
        else cfgCall w (.divider (idxs w cs) v) false a := rfl
    rw [e]
    split
    · exact h
    · exact c_guard h _ a (fun _ _ e => nomatch e)
  | chEnableAll => exact c_guard h .enableAll a (fun _ _ e => nomatch e)
  | chDisableAll => exact c_guard h .disableAll a (fun _ _ e => nomatch e)
  | defaultCfg => exact c_guard h .defaultCfg a (fun _ _ e => nomatch e)
  | channelsWrite => exact c_write h a

/-! ### histories -/

theorem run_cons (w : World) (c : Call) (r : List Call) :
    run w (c :: r) = ((run (step w c).1 r).1, (step w c).2 :: (run (step w c).1 r).2) := rfl

theorem run_append (w : World) (l l' : List Call) :
    run w (l ++ l') = ((run (run w l).1 l').1, (run w l).2 ++ (run (run w l).1 l').2) := by
  induction l generalizing w with
  | nil => rfl
  | cons c r ih => rw [List.cons_append, run_cons, run_cons, ih]; rfl

theorem run_snoc (w : World) (l : List Call) (c : Call) : (run w (l ++ [c])).1 = (step (run w l).1 c).1 := by
  rw [run_append]; rfl

theorem runA_cons (w : World) (c : Call × Ans) (r : List (Call × Ans)) :
    runA w (c :: r) = ((runA (step w c.1 c.2).1 r).1, (step w c.1 c.2).2 :: (runA (step w c.1 c.2).1 r).2) := rfl

theorem runA_append (w : World) (l l' : List (Call × Ans)) :
    runA w (l ++ l') = ((runA (runA w l).1 l').1, (runA w l).2 ++ (runA (runA w l).1 l').2) := by
  induction l generalizing w with
  | nil => rfl
  | cons c r ih => rw [List.cons_append, runA_cons, runA_cons, ih]; rfl

theorem runA_snoc (w : World) (l : List (Call × Ans)) (c : Call × Ans) :
    (runA w (l ++ [c])).1 = (step (runA w l).1 c.1 c.2).1 := by
  rw [runA_append]; rfl

/-- a history in which everything is acknowledged is a history with answers -/
theorem run_eq_runA (w : World) (l : List Call) : run w l = runA w (l.map fun c => (c, {})) := by
  induction l generalizing w with
  | nil => rfl
  | cons c r ih => rw [run_cons, List.map_cons, runA_cons, ih]

theorem commRun_cons (w : World) (c : CommCall × Ans) (r : List (CommCall × Ans)) :
    commRun w (c :: r) =
      ((commRun (commStep w c.1 c.2).1 r).1, (commStep w c.1 c.2).2 :: (commRun (commStep w c.1 c.2).1 r).2) := rfl

theorem commRun_append (w : World) (l l' : List (CommCall × Ans)) :
    commRun w (l ++ l') = ((commRun (commRun w l).1 l').1, (commRun w l).2 ++ (commRun (commRun w l).1 l').2) := by
  induction l generalizing w with
  | nil => rfl
  | cons c r ih => rw [List.cons_append, commRun_cons, commRun_cons, ih]; rfl

theorem commRun_snoc (w : World) (l : List (CommCall × Ans)) (c : CommCall × Ans) :
    (commRun w (l ++ [c])).1 = (commStep (commRun w l).1 c.1 c.2).1 := by
  rw [commRun_append]; rfl

theorem snoc_induction {α : Type} {P : List α → Prop} (nil : P []) (snoc : ∀ l a, P l → P (l ++ [a])) :
    ∀ l, P l := by
  intro l
  rw [← List.reverse_reverse l]
  induction l.reverse with
  | nil => exact nil
  | cons a r ih => rw [List.reverse_cons]; exact snoc _ _ ih

/-- every world reachable from a fresh high-level handler, whatever the device answers, satisfies `GInv` -/
theorem reachA (d0 : Device) (started : Bool) (flags : Nat) (desc : Desc) (hd : WF d0) (hist : List (Call × Ans)) :
    GInv d0.en.length flags desc (runA (World.fresh d0 started flags desc) hist).1 := by
  induction hist using snoc_induction with
  | nil => exact fresh_ginv d0 started flags desc hd
  | snoc l c ih => rw [runA_snoc]; exact step_ginv ih c.1 c.2

/-- every world reachable from a fresh bare `CommHandler`, whatever the device answers, satisfies `CInv` -/
theorem reachC (d0 : Device) (started : Bool) (flags : Nat) (desc : Desc) (hd : WF d0) (hist : List (CommCall × Ans)) :
    CInv d0.en.length flags desc (commRun (World.fresh d0 started flags desc) hist).1 := by
  induction hist using snoc_induction with
  | nil => exact fresh_cinv d0 started flags desc hd
  | snoc l c ih => rw [commRun_snoc]; exact commStep_cinv ih c.1 c.2

/-! ### histories in which the device acknowledges everything: client and device stay in agreement -/

/-- client and device agree (the all-acknowledged invariant of Lemmas/Config) and the client's
    capability flags are the device's -/
def CState (flags : Nat) (c : Client) (d : Device) : Prop :=
  AckState (Info.divSupported flags) d.div c d ∧ c.ackSupported = Info.ackSupported flags

theorem ackState_reanchor {ds : Bool} {dv0 : List Int} {c : Client} {d : Device} (h : AckState ds dv0 c d) :
    AckState ds d.div c d :=
  ⟨h.inv, h.dEn, h.dDiv, h.sEn, h.sDiv, h.divS, fun _ => rfl⟩

theorem CState.init (d : Device) (flags : Nat) (hd : WF d) : CState flags (Client.init d flags) d :=
  ⟨init_ackState d flags hd, rfl⟩

theorem CState.setter {flags : Nat} {c : Client} {d : Device} (h : CState flags c d) (op : Op)
    (hop : ∀ a b, op ≠ .write a b) : CState flags (Config.step c d op).1 d := by
  have h1 := h.1.step op (ackOp_of_nonwrite op hop)
  rw [(step_silent c d op hop).1] at h1
  exact ⟨ackState_reanchor h1, (step_fixed c d op).2.1.trans h.2⟩

/-- an acknowledged write keeps client and device in agreement and leaves the device with exactly the
    requested enable vector -/
theorem CState.write {flags : Nat} {c : Client} {d : Device} (h : CState flags c d) :
    CState flags (channelsWrite c d .ack .ack).1 (channelsWrite c d .ack .ack).2.1 ∧
    (channelsWrite c d .ack .ack).2.1.en = c.enNew := by
  have h1 : AckState _ _ (Config.step c d (.write .ack .ack)).1 (Config.step c d (.write .ack .ack)).2.1 :=
    h.1.step (.write .ack .ack) ⟨rfl, rfl⟩
  have h2 : CState flags (channelsWrite c d .ack .ack).1 (channelsWrite c d .ack .ack).2.1 :=
    ⟨ackState_reanchor h1, (channelsWrite_fixed c d .ack .ack).2.1.trans h.2⟩
  have hI := h.1.inv
  refine ⟨h2, ?_⟩
  by_cases hn : c.n = 0
  · rw [channelsWrite_zero c d .ack .ack hn]
    exact (hI.nil hn).2.2.2.2.1.trans (hI.nil hn).2.1.symm
  obtain ⟨-, e2⟩ := channelsWrite_ack hI hn h.1.dEn h.1.dDiv
  rw [e2]
  cases c.divSupported <;> rfl

/-- the world's client agrees with the world's device -/
def Synced (flags : Nat) (w : World) : Prop := ∃ c, w.cli = some c ∧ CState flags c w.dev

theorem Synced.congr {flags : Nat} {w w' : World} (h : Synced flags w) (hc : w'.cli = w.cli) (hd : w'.dev = w.dev) :
    Synced flags w' := by
  obtain ⟨c, h1, h2⟩ := h
  exact ⟨c, hc.trans h1, hd ▸ h2⟩

theorem doWrite_synced {flags : Nat} {w : World} (hh : w.hasDev = true) (hs : Synced flags w) :
    Synced flags (doWrite w).1 := by
  obtain ⟨c, hc, hS⟩ := hs
  rw [doWrite_some w {} c hh hc]
  exact ⟨_, rfl, hS.write.1⟩

theorem cfgCall_synced {flags : Nat} {w : World} (op : Op) (wn : Bool) (hop : ∀ a b, op ≠ .write a b)
    (hh : w.hasDev = true) (hs : Synced flags w) : Synced flags (cfgCall w op wn).1 := by
  obtain ⟨c, hc, hS⟩ := hs
  have hS' := hS.setter op hop
  rcases cfgCall_some w op wn {} c hc with e | e <;> rw [e]
  · exact ⟨_, rfl, hS'⟩
  · exact doWrite_synced (w := { w with cli := some (Config.step c w.dev op).1 }) hh ⟨_, rfl, hS'⟩

/-- `ch_disable_all(True)` on a handler in agreement with an acknowledging device leaves every channel disabled -/
theorem cfgCall_disableAll_dev {flags : Nat} {w : World} (hh : w.hasDev = true) (hs : Synced flags w) :
    ∀ b ∈ (cfgCall w .disableAll true).1.dev.en, b = false := by
  obtain ⟨c, hc, hS⟩ := hs
  have e : cfgCall w .disableAll true = doWrite { w with cli := some (Config.step c w.dev .disableAll).1 } := by
    unfold cfgCall; rw [hc]; rfl
  have hS' := hS.setter .disableAll (fun a b e => nomatch e)
  rw [e, doWrite_some { w with cli := some (Config.step c w.dev .disableAll).1 } {} _ hh rfl]
  intro b hb
  have hb' : b ∈ (channelsWrite (Config.step c w.dev .disableAll).1 w.dev .ack .ack).2.1.en := hb
  rw [hS'.write.2] at hb'
  exact (List.mem_replicate.mp hb').2

/-- with an acknowledging device: the device streams exactly while the handler's stream is started, and client
    and device agree -/
def AOn (flags : Nat) (w : World) : Prop := w.devStarted = w.streamStarted ∧ Synced flags w

theorem AOn.of_frame {flags : Nat} {w w' : World} (h : AOn flags w) (hF : CfgFrame w w') (hs : Synced flags w') :
    AOn flags w' := ⟨by rw [hF.devStarted, hF.streamStarted]; exact h.1, hs⟩

theorem a_streamStop {flags : Nat} {w : World} (hA : AOn flags w) :
    (streamStop w).devStarted = false ∧ (streamStop w).streamStarted = false ∧ Synced flags (streamStop w) := by
  cases hs : w.streamStarted with
  | false => rw [streamStop_idle w {} hs]; exact ⟨hA.1.trans hs, hs, hA.2⟩
  | true => rw [streamStop_active w {} hs, commStartReq_eq]; exact ⟨rfl, rfl, hA.2.congr rfl rfl⟩

/-- with an acknowledging device a disconnect leaves the device stopped and every channel disabled -/
theorem a_disconnect {n flags : Nat} {desc : Desc} {w : World} (h : GInv n flags desc w)
    (hon : GOn flags (rep n flags desc) w) (hA : AOn flags w) :
    (step w .disconnect).1.devStarted = false ∧ ∀ b ∈ (step w .disconnect).1.dev.en, b = false := by
  obtain ⟨h1, o1, -⟩ := g_streamStop h hon {}
  obtain ⟨d1, -, y1⟩ := a_streamStop hA
  have hh := o1.2.2.2.2.1
  obtain ⟨-, o2⟩ := g_cfg h1 o1 .disableAll true {} (fun _ _ e => nomatch e)
  have hF := cfgCall_frame (streamStop w {}) .disableAll true {}
  have hen := cfgCall_disableAll_dev hh y1
  have hok := cfgCall_disableAll_ok h1.base o1.2.2 {}
  rw [step_disconnect, hon.1, hh]
  simp only [↓reduceIte]
  generalize cfgCall (streamStop w {}) .disableAll true {} = r at *
  obtain ⟨w2, res⟩ := r
  dsimp only at *
  subst hok
  dsimp only
  rw [commDisconnect_started w2 o2.2.2.2.2.2.1]
  exact ⟨hF.devStarted.trans d1, hen⟩

/-- the acknowledged-history invariant is kept by every call -/
theorem a_step {n flags : Nat} {desc : Desc} {w : World} (h : GInv n flags desc w)
    (hA : w.connected = true → AOn flags w) (c : Call) (hc' : (step w c).1.connected = true) :
    AOn flags (step w c).1 := by
  rcases h.mode with hoff | hon
  · by_cases hc : c = .connect
    · subst hc
      cases hbn : badNameIdx n desc with
      | none =>
        obtain ⟨-, -, e1, e2, e3, e4, -⟩ := off_connect h hoff {} hbn
        exact ⟨e1.trans e4.symm, _, e3, e2 ▸ CState.init w.dev flags h.base.wf⟩
      | some k => exact absurd ((off_connect_bad h hoff {} k hbn).2.1.1.symm.trans hc') (by decide)
    · exact absurd ((step_off w c {} hc hoff).1.1.symm.trans hc') (by decide)
  · have hA := hA hon.1
    have hh := hon.2.2.2.2.1
    cases c with
    | connect => rw [step_connect_idem w {} hon.1]; exact hA
    | disconnect => exact absurd ((g_disconnect h hon {}).2.1.1.symm.trans hc') (by decide)
    | streamStart =>
      cases hs : w.streamStarted with
      | true =>
        have e : step w .streamStart = (w, .ok) := by rw [step_streamStart, hs]; rfl
        rw [e]; exact hA
      | false =>
        obtain ⟨-, -, hr⟩ := g_write h hon {}
        have hsy := doWrite_synced hh hA.2
        rw [step_streamStart, hs]
        simp only [Bool.false_eq_true, ↓reduceIte]
        generalize doWrite w {} = r at *
        obtain ⟨w1, res⟩ := r
        dsimp only at hr hsy
        subst hr
        dsimp only
        rw [commStartReq_eq]
        exact ⟨rfl, hsy.congr rfl rfl⟩
    | streamStop =>
      obtain ⟨d1, s1, y1⟩ := a_streamStop hA
      exact ⟨d1.trans s1.symm, y1⟩
    | sub c =>
      rw [step_sub]
      split
      · exact ⟨hA.1, hA.2.congr rfl rfl⟩
      · exact hA
    | unsub q => exact ⟨hA.1, hA.2.congr rfl rfl⟩
    | chEnable cs wn => exact hA.of_frame (cfgCall_frame _ _ _ _) (cfgCall_synced _ wn (fun _ _ e => nomatch e) hh hA.2)
    | chDisable cs wn => exact hA.of_frame (cfgCall_frame _ _ _ _) (cfgCall_synced _ wn (fun _ _ e => nomatch e) hh hA.2)
    | chDisableAll wn =>
      have e : step w (.chDisableAll wn) = cfgCall w .disableAll wn := by rw [step_chDisableAll, hh]; rfl
      rw [e]
      exact hA.of_frame (cfgCall_frame _ _ _ _) (cfgCall_synced _ wn (fun _ _ e => nomatch e) hh hA.2)
    | chDivider cs v wn =>
      rw [step_chDivider]
      split
      · exact hA
      · have e : (if (!w.hasDev) = true then (w, Res.raised Err.assertion) else cfgCall w (.divider (idxs w cs) v) wn {}) =
            cfgCall w (.divider (idxs w cs) v) wn {} := by rw [hh]; rfl
        rw [e]
        exact hA.of_frame (cfgCall_frame _ _ _ _) (cfgCall_synced _ wn (fun _ _ e => nomatch e) hh hA.2)
    | defaultCfg wn =>
      have e : step w (.defaultCfg wn) = cfgCall w .defaultCfg wn := by rw [step_defaultCfg, hh]; rfl
      rw [e]
      exact hA.of_frame (cfgCall_frame _ _ _ _) (cfgCall_synced _ wn (fun _ _ e => nomatch e) hh hA.2)
    | channelsWrite => exact hA.of_frame (doWrite_frame w {}) (doWrite_synced hh hA.2)
    | devChannelGet c =>
      have e : step w (.devChannelGet c) = (w, .ok) := by rw [step_devChannelGet, hh]; rfl
      rw [e]; exact hA

/-- history predicate: once a connect has occurred, a disconnected handler has left the device with the
    stream stopped and every channel disabled (kept by every call when connects succeed, i.e. when every channel
    name of the device decodes: a connect that raises leaves the channels as they were) -/
def Hist (seen : Prop) (w : World) : Prop :=
  seen → w.connected = false → w.devStarted = false ∧ ∀ b ∈ w.dev.en, b = false

theorem step_hist {n flags : Nat} {desc : Desc} {w : World} (h : GInv n flags desc w)
    (hA : w.connected = true → AOn flags w) (l : List Call) (c : Call) (hbn : badNameIdx n desc = none)
    (hH : Hist (Call.connect ∈ l) w) : Hist (Call.connect ∈ l ++ [c]) (step w c).1 := by
  intro hm hdis
  rcases h.mode with hoff | hon
  · by_cases hc : c = .connect
    · subst hc
      exact absurd ((off_connect h hoff {} hbn).2.1.1.symm.trans hdis) (by decide)
    · obtain ⟨-, -, h3, h4, -⟩ := step_off w c {} hc hoff
      have hl : Call.connect ∈ l := by
        rcases List.mem_append.mp hm with hm | hm
        · exact hm
        · exact absurd (List.mem_singleton.mp hm).symm hc
      rw [h3, h4]
      exact hH hl hoff.1
  · by_cases hc : c = .disconnect
    · subst hc
      exact a_disconnect h hon (hA hon.1)
    · exact absurd ((g_step h hon c {} hc).2.1.symm.trans hdis) (by decide)

/-- every world reachable from a fresh handler in front of an acknowledging device -/
theorem reach (d0 : Device) (started : Bool) (flags : Nat) (desc : Desc) (hd : WF d0) (calls : List Call) :
    GInv d0.en.length flags desc (run (World.fresh d0 started flags desc) calls).1 ∧
    ((run (World.fresh d0 started flags desc) calls).1.connected = true →
      AOn flags (run (World.fresh d0 started flags desc) calls).1) ∧
    (badNameIdx d0.en.length desc = none →
      Hist (Call.connect ∈ calls) (run (World.fresh d0 started flags desc) calls).1) := by
  induction calls using snoc_induction with
  | nil =>
    refine ⟨fresh_ginv d0 started flags desc hd, ?_, ?_⟩
    · intro h; exact Bool.noConfusion (h : false = true)
    · intro _ hm; exact absurd hm List.not_mem_nil
  | snoc l c ih =>
    rw [run_snoc]
    exact ⟨step_ginv ih.1 c {}, a_step ih.1 ih.2.1 c, fun hbn => step_hist ih.1 ih.2.1 l c hbn (ih.2.2 hbn)⟩

/-! ### bounded time of every call -/

theorem drain_eq : drain = 8 := by decide

theorem streamStop_time (w : World) (a : Ans) : w.time ≤ (streamStop w a).time ∧ (streamStop w a).time ≤ w.time + 10 := by
  cases hs : w.streamStarted with
  | false => rw [streamStop_idle w a hs]; exact ⟨Nat.le_refl _, Nat.le_add_right _ _⟩
  | true => rw [streamStop_active w a hs]; exact commStartReq_time w false a.st

theorem commConnect_time (w : World) : (commConnect w).time ≤ w.time + 16 := by
  cases h : w.commStarted with
  | true => rw [commConnect_started w h]; exact Nat.le_add_right _ _
  | false =>
    rw [commConnect_stopped w h]
    show w.time + drain + drain ≤ w.time + 16
    rw [drain_eq]
    exact Nat.le_refl _

theorem commConnectR_time (w : World) : (commConnectR w).1.time ≤ w.time + 16 := by
  rcases commConnectR_cases w with e | ⟨k, -, -, e⟩
  · rw [e]; exact commConnect_time w
  · rw [e]
    show w.time + drain + drain ≤ w.time + 16
    rw [drain_eq]
    exact Nat.le_refl _

theorem commDisconnect_time (w : World) : (commDisconnect w).time ≤ w.time + 8 := by
  cases h : w.commStarted with
  | false => rw [commDisconnect_stopped w h]; exact Nat.le_add_right _ _
  | true =>
    rw [commDisconnect_started w h]
    show w.time + drain ≤ w.time + 8
    rw [drain_eq]
    exact Nat.le_refl _

/-- every public call of the high-level handler returns within 3.8 s of waiting for the device, whatever the
    device answers: at most one start/stop ACK wait, two configuration ACK waits, the draining polls -/
theorem step_bounded (w : World) (c : Call) (a : Ans) : (step w c a).1.time ≤ w.time + 38 := by
  have cfg : ∀ op wn, (cfgCall w op wn a).1.time ≤ w.time + 38 := fun op wn =>
    Nat.le_trans (cfgCall_time w op wn a).2 (by omega)
  have same : w.time ≤ w.time + 38 := Nat.le_add_right _ _
  cases c with
  | connect =>
    rw [step_connect]
    split
    · exact same
    · have ht := commConnectR_time w
      generalize commConnectR w = r at *
      obtain ⟨w1, res⟩ := r
      dsimp only at ht
      cases res with
      | ok => show w1.time ≤ w.time + 38; omega
      | raised e => show w1.time ≤ w.time + 38; omega
      | ack s code => show w1.time ≤ w.time + 38; omega
  | disconnect =>
    rw [step_disconnect]
    split
    · have hs := streamStop_time w a
      cases hh : (streamStop w a).hasDev with
      | false => exact Nat.le_trans hs.2 (by omega)
      | true =>
        simp only [↓reduceIte]
        have hc := cfgCall_time (streamStop w a) .disableAll true a
        generalize cfgCall (streamStop w a) .disableAll true a = r at *
        obtain ⟨w2, res⟩ := r
        dsimp only at hc
        cases res with
        | ok =>
          have hd := commDisconnect_time w2
          show (commDisconnect w2).time ≤ w.time + 38
          omega
        | raised e => show w2.time ≤ w.time + 38; omega
        | ack s code => show w2.time ≤ w.time + 38; omega
    · exact same
  | streamStart =>
    rw [step_streamStart]
    split
    · exact same
    · have hw := doWrite_time w a
      generalize doWrite w a = r at *
      obtain ⟨w1, res⟩ := r
      dsimp only at hw
      cases res with
      | ok =>
        have hs := commStartReq_time w1 true a.st
        show (commStartReq w1 true a.st).1.time ≤ w.time + 38
        omega
      | raised e => show w1.time ≤ w.time + 38; omega
      | ack s code => show w1.time ≤ w.time + 38; omega
  | streamStop => exact Nat.le_trans (streamStop_time w a).2 (by omega)
  | sub c =>
    rw [step_sub]
    split <;> exact same
  | unsub q => exact same
  | chEnable cs wn => exact cfg _ _
  | chDisable cs wn => exact cfg _ _
  | chDisableAll wn =>
    rw [step_chDisableAll]
    split
    · exact same
    · exact cfg _ _
  | chDivider cs v wn =>
    rw [step_chDivider]
    split
    · exact same
    · split
      · exact same
      · exact cfg _ _
  | defaultCfg wn =>
    rw [step_defaultCfg]
    split
    · exact same
    · exact cfg _ _
  | channelsWrite => exact Nat.le_trans (doWrite_time w a) (by omega)
  | devChannelGet c =>
    rw [step_devChannelGet]
    split <;> exact same

/-- every public call of a bare `CommHandler` returns within 2 s of waiting for the device -/
theorem commStep_bounded (w : World) (c : CommCall) (a : Ans) : (commStep w c a).1.time ≤ w.time + 20 := by
  have cfg : ∀ op, (cfgCall w op false a).1.time ≤ w.time + 20 := fun op => (cfgCall_time w op false a).2
  have same : w.time ≤ w.time + 20 := Nat.le_add_right _ _
  have guard : ∀ op, (if (!w.hasDev) = true then (w, Res.raised Err.assertion) else cfgCall w op false a).1.time ≤ w.time + 20 := by
    intro op
    split
    · exact same
    · exact cfg op
  cases c with
  | connect => rw [commStep_connect]; exact Nat.le_trans (commConnectR_time w) (by omega)
  | disconnect => exact Nat.le_trans (commDisconnect_time w) (by omega)
  | streamStart => rw [commStep_streamStart]; exact Nat.le_trans (commStartReq_time w true a.st).2 (by omega)
  | streamStop => rw [commStep_streamStop]; exact Nat.le_trans (commStartReq_time w false a.st).2 (by omega)
  | chEnable cs => exact cfg _
  | chDisable cs => exact cfg _
  | chDivider cs v =>
    have e : commStep w (.chDivider cs v) a =
        if v < 0 ∨ v > 255 then (w, .raised .valueError)
        else if !w.hasDev then (w, .raised .assertion)
        else cfgCall w (.divider (idxs w cs) v) false a := rfl
    rw [e]
    split
    · exact same
    · exact guard _
  | chEnableAll => exact guard .enableAll
  | chDisableAll => exact guard .disableAll
  | defaultCfg => exact guard .defaultCfg
  | channelsWrite => exact doWrite_time w a

/-! ### run-level statements (C09) -/

theorem Off.facts {w : World} (h : Off w) :
    w.recvThr = false ∧ w.streamThr = false ∧ w.intf = false ∧ w.hasDev = false ∧ w.commStarted = false ∧
    w.streamStarted = false ∧ w.reported = none :=
  ⟨h.2.2.2.1, h.2.1, h.2.2.2.2.1, h.2.2.2.2.2.1, h.2.2.2.2.2.2.1, h.2.2.1, h.2.2.2.2.2.2.2⟩

theorem c09_state_machine_any (d0 : Device) (started : Bool) (flags : Nat) (desc : Desc) (hist : List (Call × Ans))
    (hd : WF d0) :
    let w := (runA (World.fresh d0 started flags desc) hist).1
    (w.connected = false → w.recvThr = false ∧ w.streamThr = false ∧ w.intf = false ∧ w.hasDev = false ∧
        w.commStarted = false ∧ w.streamStarted = false ∧ w.reported = none) ∧
    (w.connected = true → w.recvThr = true ∧ w.intf = true ∧ w.hasDev = true ∧ w.commStarted = true ∧
        w.streamThr = w.streamStarted ∧ w.reported = some (rep d0.en.length flags desc)) := by
  intro w
  rcases (reachA d0 started flags desc hd hist).mode with hoff | hon
  · exact ⟨fun _ => hoff.facts, fun hc => absurd (hoff.1.symm.trans hc) (by decide)⟩
  · exact ⟨fun hc => absurd (hon.1.symm.trans hc) (by decide),
      fun _ => ⟨hon.2.2.1, hon.2.2.2.1, hon.2.2.2.2.1, hon.2.2.2.2.2.1, hon.2.1, hon.2.2.2.2.2.2.1⟩⟩

theorem c09_state_machine (d0 : Device) (started : Bool) (flags : Nat) (desc : Desc) (calls : List Call) (hd : WF d0) :
    let w := (run (World.fresh d0 started flags desc) calls).1
    (w.connected = false → w.recvThr = false ∧ w.streamThr = false ∧ w.intf = false ∧ w.hasDev = false ∧
        w.commStarted = false ∧ w.streamStarted = false) ∧
    (w.connected = true → w.recvThr = true ∧ w.intf = true ∧ w.hasDev = true ∧ w.commStarted = true ∧
        w.streamThr = w.streamStarted ∧ w.devStarted = w.streamStarted) := by
  intro w
  obtain ⟨hG, hA, -⟩ := reach d0 started flags desc hd calls
  rcases hG.mode with hoff | hon
  · have f := hoff.facts
    exact ⟨fun _ => ⟨f.1, f.2.1, f.2.2.1, f.2.2.2.1, f.2.2.2.2.1, f.2.2.2.2.2.1⟩,
      fun hc => absurd (hoff.1.symm.trans hc) (by decide)⟩
  · exact ⟨fun hc => absurd (hon.1.symm.trans hc) (by decide),
      fun hc => ⟨hon.2.2.1, hon.2.2.2.1, hon.2.2.2.2.1, hon.2.2.2.2.2.1, hon.2.1, (hA hc).1⟩⟩

theorem c09_disconnected_is_inert_any (d0 : Device) (started : Bool) (flags : Nat) (desc : Desc)
    (hist : List (Call × Ans)) (c : Call) (a : Ans) (hd : WF d0) (hc : c ≠ .connect)
    (hdis : (runA (World.fresh d0 started flags desc) hist).1.connected = false) :
    let w := (runA (World.fresh d0 started flags desc) hist).1
    let w' := (step w c a).1
    w'.log = w.log ∧ w'.dev = w.dev ∧ w'.devStarted = w.devStarted ∧ w'.time = w.time ∧
    w'.recvThr = false ∧ w'.streamThr = false ∧ w'.intf = false ∧ w'.connected = false ∧ w'.reported = none := by
  intro w w'
  rcases (reachA d0 started flags desc hd hist).mode with hoff | hon
  · obtain ⟨h1, h2, h3, h4, h5, -⟩ := step_off w c a hc hoff
    have f := h1.facts
    exact ⟨h2, h3, h4, h5, f.1, f.2.1, f.2.2.1, h1.1, f.2.2.2.2.2.2⟩
  · exact absurd (hon.1.symm.trans hdis) (by decide)

theorem c09_disconnected_is_inert (d0 : Device) (started : Bool) (flags : Nat) (desc : Desc) (calls : List Call)
    (c : Call) (hd : WF d0) (hc : c ≠ .connect)
    (hdis : (run (World.fresh d0 started flags desc) calls).1.connected = false) :
    let w := (run (World.fresh d0 started flags desc) calls).1
    let w' := (step w c).1
    w'.log = w.log ∧ w'.dev = w.dev ∧ w'.devStarted = w.devStarted ∧ w'.time = w.time ∧
    w'.recvThr = false ∧ w'.streamThr = false ∧ w'.intf = false ∧ w'.connected = false := by
  intro w w'
  rcases (reach d0 started flags desc hd calls).1.mode with hoff | hon
  · obtain ⟨h1, h2, h3, h4, h5, -⟩ := step_off w c {} hc hoff
    have f := h1.facts
    exact ⟨h2, h3, h4, h5, f.1, f.2.1, f.2.2.1, h1.1⟩
  · exact absurd (hon.1.symm.trans hdis) (by decide)

theorem c09_reconnect_same_description_any (d0 : Device) (started : Bool) (flags : Nat) (desc : Desc)
    (hist : List (Call × Ans)) (a : Ans) (hd : WF d0) (hbn : badNameIdx d0.en.length desc = none) :
    let w := (runA (World.fresh d0 started flags desc) (hist ++ [(.connect, a)])).1
    w.connected = true ∧ w.reported = some (rep d0.en.length flags desc) ∧ w.dev.en.length = d0.en.length ∧
    w.flags = flags ∧ w.desc = desc := by
  intro w
  have h := reachA d0 started flags desc hd hist
  have h' : GInv d0.en.length flags desc w := reachA d0 started flags desc hd (hist ++ [(.connect, a)])
  have hon : GOn flags (rep d0.en.length flags desc) w := by
    show GOn flags _ (runA _ (hist ++ [(.connect, a)])).1
    rw [runA_snoc]
    rcases h.mode with hoff | hon
    · exact (off_connect h hoff a hbn).2.1
    · exact (g_step h hon .connect a (fun e => nomatch e)).2
  exact ⟨hon.1, hon.2.2.2.2.2.2.1, h'.base.len, h'.base.fl, h'.base.ds⟩

/-- what a switched-on handler in agreement with the device reports about the configuration -/
theorem on_description {n flags : Nat} {desc : Desc} {w : World} (h : GInv n flags desc w) (hA : AOn flags w) :
    ∃ c, w.cli = some c ∧ c.n = n ∧ c.enNow = w.dev.en ∧ c.copyEn = w.dev.en ∧
      c.divSupported = Info.divSupported flags ∧ c.ackSupported = Info.ackSupported flags := by
  obtain ⟨c, hc, hS, ha⟩ := hA.2
  have he := hS.dEn hS.sEn
  exact ⟨c, hc, hS.inv.lDevEn.symm.trans h.base.len, he.symm, hS.inv.cpEn.trans he.symm, hS.divS, ha⟩

theorem c09_reconnect_same_description (d0 : Device) (started : Bool) (flags : Nat) (desc : Desc) (calls : List Call)
    (hd : WF d0) (hbn : badNameIdx d0.en.length desc = none) :
    let w := (run (World.fresh d0 started flags desc) (calls ++ [.connect])).1
    w.dev.en.length = d0.en.length ∧ w.flags = flags ∧
    (∃ c, w.cli = some c ∧ c.n = d0.en.length ∧ c.enNow = w.dev.en ∧ c.copyEn = w.dev.en ∧
      c.divSupported = Info.divSupported flags ∧ c.ackSupported = Info.ackSupported flags) ∧
    w.reported = some (rep d0.en.length flags desc) := by
  intro w
  have h := (reach d0 started flags desc hd calls).1
  obtain ⟨h', hA', -⟩ := reach d0 started flags desc hd (calls ++ [.connect])
  have hon : GOn flags (rep d0.en.length flags desc) w := by
    show GOn flags _ (run _ (calls ++ [.connect])).1
    rw [run_snoc]
    rcases h.mode with hoff | hon
    · exact (off_connect h hoff {} hbn).2.1
    · exact (g_step h hon .connect {} (fun e => nomatch e)).2
  exact ⟨h'.base.len, h'.base.fl, on_description h' (hA' hon.1), hon.2.2.2.2.2.2.1⟩

theorem c09_after_disconnect_any (d0 : Device) (started : Bool) (flags : Nat) (desc : Desc)
    (hist : List (Call × Ans)) (a : Ans) (hd : WF d0) :
    let w := (runA (World.fresh d0 started flags desc) (hist ++ [(.disconnect, a)])).1
    w.connected = false ∧ w.hasDev = false ∧ w.reported = none ∧ w.recvThr = false ∧ w.streamThr = false ∧
    w.intf = false ∧ w.streamStarted = false ∧ w.commStarted = false := by
  intro w
  have h := reachA d0 started flags desc hd hist
  have hoff : Off w := by
    show Off (runA _ (hist ++ [(.disconnect, a)])).1
    rw [runA_snoc]
    rcases h.mode with hoff | hon
    · rw [step_disconnect_idem _ a hoff.1]; exact hoff
    · exact (g_disconnect h hon a).2.1
  have f := hoff.facts
  exact ⟨hoff.1, f.2.2.2.1, f.2.2.2.2.2.2, f.1, f.2.1, f.2.2.1, f.2.2.2.2.2.1, f.2.2.2.2.1⟩

theorem c09_after_disconnect (d0 : Device) (started : Bool) (flags : Nat) (desc : Desc) (calls : List Call)
    (hd : WF d0) (hbn : badNameIdx d0.en.length desc = none) :
    let w := (run (World.fresh d0 started flags desc) (calls ++ [.disconnect])).1
    w.connected = false ∧ w.hasDev = false ∧ w.recvThr = false ∧ w.streamThr = false ∧ w.intf = false ∧
    (Call.connect ∈ calls → w.devStarted = false ∧ ∀ b ∈ w.dev.en, b = false) ∧ w.reported = none := by
  intro w
  have h := (reach d0 started flags desc hd calls).1
  obtain ⟨-, -, hH⟩ := reach d0 started flags desc hd (calls ++ [.disconnect])
  have hoff : Off w := by
    show Off (run _ (calls ++ [.disconnect])).1
    rw [run_snoc]
    rcases h.mode with hoff | hon
    · rw [step_disconnect_idem _ {} hoff.1]; exact hoff
    · exact (g_disconnect h hon {}).2.1
  have f := hoff.facts
  exact ⟨hoff.1, f.2.2.2.1, f.1, f.2.1, f.2.2.1, fun hm => hH hbn (List.mem_append_left _ hm) hoff.1, f.2.2.2.2.2.2⟩

theorem c09_connect_stops_stream (d0 : Device) (flags : Nat) (desc : Desc) (hd : WF d0) :
    (run (World.fresh d0 true flags desc) [.connect]).1.devStarted = false :=
  (off_connect_any (fresh_ginv d0 true flags desc hd) ⟨rfl, rfl, rfl, rfl, rfl, rfl, rfl, rfl⟩ {}).2.1

/-! #### the bare low-level handler -/

theorem c09_comm_state_machine (d0 : Device) (started : Bool) (flags : Nat) (desc : Desc)
    (hist : List (CommCall × Ans)) (hd : WF d0) :
    let w := (commRun (World.fresh d0 started flags desc) hist).1
    (w.commStarted = false → w.recvThr = false ∧ w.intf = false ∧ w.hasDev = false ∧ w.reported = none) ∧
    (w.commStarted = true → w.recvThr = true ∧ w.intf = true ∧ w.hasDev = true ∧
        w.reported = some (rep d0.en.length flags desc)) ∧
    w.streamThr = false := by
  intro w
  have h := reachC d0 started flags desc hd hist
  rcases h.mode with hoff | hon
  · exact ⟨fun _ => ⟨hoff.1, hoff.2.1, hoff.2.2.1, hoff.2.2.2.2⟩,
      fun hc => absurd (hoff.2.2.2.1.symm.trans hc) (by decide), h.hi.2.1⟩
  · exact ⟨fun hc => absurd (hon.2.2.2.1.symm.trans hc) (by decide),
      fun _ => ⟨hon.1, hon.2.1, hon.2.2.1, hon.2.2.2.2.1⟩, h.hi.2.1⟩

theorem c09_comm_reconnect_same_description (d0 : Device) (started : Bool) (flags : Nat) (desc : Desc)
    (hist : List (CommCall × Ans)) (a : Ans) (hd : WF d0) (hbn : badNameIdx d0.en.length desc = none) :
    let w := (commRun (World.fresh d0 started flags desc) (hist ++ [(.connect, a)])).1
    w.commStarted = true ∧ w.reported = some (rep d0.en.length flags desc) := by
  intro w
  have h := reachC d0 started flags desc hd hist
  have hon : COn flags (rep d0.en.length flags desc) w := by
    show COn flags _ (commRun _ (hist ++ [(.connect, a)])).1
    rw [commRun_snoc]
    exact ((c_connectR h).2.1 hbn).1
  exact ⟨hon.2.2.2.1, hon.2.2.2.2.1⟩

theorem c09_comm_after_disconnect (d0 : Device) (started : Bool) (flags : Nat) (desc : Desc)
    (hist : List (CommCall × Ans)) (a : Ans) (hd : WF d0) :
    let w := (commRun (World.fresh d0 started flags desc) (hist ++ [(.disconnect, a)])).1
    w.commStarted = false ∧ w.hasDev = false ∧ w.reported = none ∧ w.recvThr = false ∧ w.intf = false ∧
    w.streamThr = false := by
  intro w
  have h := reachC d0 started flags desc hd hist
  have h' : CInv d0.en.length flags desc w := reachC d0 started flags desc hd (hist ++ [(.disconnect, a)])
  have hoff : COff w := by
    show COff (commRun _ (hist ++ [(.disconnect, a)])).1
    rw [commRun_snoc]
    exact (c_disconnect h).2
  exact ⟨hoff.2.2.2.1, hoff.2.2.1, hoff.2.2.2.2, hoff.1, hoff.2.1, h'.hi.2.1⟩

/-! #### descriptions with undecodable names, descriptions the client reads back unchanged -/

/-- every channel name is well-formed UTF-8: no connect raises -/
theorem badNameIdx_none {n : Nat} {desc : Desc} (h : ∀ c ∈ desc.chans, Info.validUtf8 c.name = true) :
    badNameIdx n desc = none := by
  unfold badNameIdx
  rw [List.findIdx?_eq_none_iff]
  intro c hc
  rw [h c (List.mem_of_mem_take hc)]
  rfl

/-- a name field without NUL is reported whole -/
theorem cstr_of_nonul (bs : Bytes) (h : (0 : Byte) ∉ bs) : Info.cstr bs = bs := by
  unfold Info.cstr
  induction bs with
  | nil => rfl
  | cons b r ih =>
    have hb : b ≠ 0 := fun e => h (e ▸ List.mem_cons_self)
    rw [List.takeWhile_cons_of_pos (by simpa using hb), ih (fun hm => h (List.mem_cons_of_mem _ hm))]

theorem decoded_of_nonul (c : ChanDesc) (h : (0 : Byte) ∉ c.name) : c.decoded = c := by
  unfold ChanDesc.decoded
  rw [cstr_of_nonul c.name h]

/-- names without NUL: the reported description is the device's, entry by entry -/
theorem rep_of_nonul {n flags : Nat} {desc : Desc} (h : ∀ c ∈ desc.chans, (0 : Byte) ∉ c.name) :
    rep n flags desc = ⟨n, flags, desc.rxpadding, desc.chans⟩ := by
  unfold rep
  congr 1
  conv => rhs; rw [← List.map_id desc.chans]
  exact List.map_congr_left fun c hc => decoded_of_nonul c (h c hc)

/-- the description of a device about which nothing is said has empty names: they decode -/
theorem plain_badNameIdx (m n : Nat) : badNameIdx m (Desc.plain n) = none :=
  badNameIdx_none fun c hc => by
    have e : c = ⟨10, 1, 0, []⟩ := (List.mem_replicate.mp hc).2
    rw [e]; rfl

/-- connect on a disconnected handler in front of a device whose channel `k` has a name that is not UTF-8 (after any
    history): the call raises UnicodeDecodeError and leaves nothing running -/
theorem c09_connect_bad_name (d0 : Device) (started : Bool) (flags : Nat) (desc : Desc) (hist : List (Call × Ans))
    (a : Ans) (k : Nat) (hd : WF d0) (hb : badNameIdx d0.en.length desc = some k)
    (hdis : (runA (World.fresh d0 started flags desc) hist).1.connected = false) :
    let w := (runA (World.fresh d0 started flags desc) hist).1
    let r := step w .connect a
    r.2 = .raised .unicodeError ∧ r.1.connected = false ∧ r.1.recvThr = false ∧ r.1.streamThr = false ∧
    r.1.intf = false ∧ r.1.hasDev = false ∧ r.1.reported = none ∧ r.1.commStarted = false ∧ r.1.cli = w.cli ∧
    r.1.dev = w.dev ∧ r.1.time ≤ w.time + 16 := by
  intro w r
  have h := reachA d0 started flags desc hd hist
  rcases h.mode with hoff | hon
  · obtain ⟨-, o, -, e2, e3, e4, e5⟩ := off_connect_bad h hoff a k hb
    have f := o.facts
    refine ⟨e5, o.1, f.1, f.2.1, f.2.2.1, f.2.2.2.1, f.2.2.2.2.2.2, f.2.2.2.2.1, e3, e2, ?_⟩
    show (step w .connect a).1.time ≤ w.time + 16
    rw [e4, drain_eq]
    exact Nat.le_refl _
  · exact absurd (hon.1.symm.trans hdis) (by decide)

/-- the same for a bare low-level handler that is stopped -/
theorem c09_comm_connect_bad_name (d0 : Device) (started : Bool) (flags : Nat) (desc : Desc)
    (hist : List (CommCall × Ans)) (a : Ans) (k : Nat) (hd : WF d0) (hb : badNameIdx d0.en.length desc = some k)
    (hdis : (commRun (World.fresh d0 started flags desc) hist).1.commStarted = false) :
    let w := (commRun (World.fresh d0 started flags desc) hist).1
    let r := commStep w .connect a
    r.2 = .raised .unicodeError ∧ r.1.connected = false ∧ r.1.recvThr = false ∧ r.1.streamThr = false ∧
    r.1.intf = false ∧ r.1.hasDev = false ∧ r.1.reported = none ∧ r.1.commStarted = false ∧ r.1.cli = w.cli ∧
    r.1.dev = w.dev ∧ r.1.time ≤ w.time + 16 := by
  intro w r
  have h : CInv d0.en.length flags desc w := reachC d0 started flags desc hd hist
  obtain ⟨hc, -, hbad⟩ := c_connectR h
  obtain ⟨o, e⟩ := hbad hdis k hb
  have ht := commConnectR_time w
  have e2 := commConnectR_bad w k hdis (h.base.badName.trans hb)
  refine ⟨e, hc.hi.1, o.1, hc.hi.2.1, o.2.1, o.2.2.1, o.2.2.2.2, o.2.2.2.1, ?_, ?_, ht⟩
  · show (commConnectR w).1.cli = w.cli
    rw [e2]; rfl
  · show (commConnectR w).1.dev = w.dev
    rw [e2]; rfl

/-- every name decodes: connect, after any history, returns and leaves the handler connected -/
theorem c09_connect_ok (d0 : Device) (started : Bool) (flags : Nat) (desc : Desc) (hist : List (Call × Ans))
    (a : Ans) (hd : WF d0) (hbn : badNameIdx d0.en.length desc = none) :
    let w := (runA (World.fresh d0 started flags desc) hist).1
    (step w .connect a).2 = .ok ∧ (step w .connect a).1.connected = true := by
  intro w
  have h := reachA d0 started flags desc hd hist
  rcases h.mode with hoff | hon
  · obtain ⟨-, o, -, -, -, -, e⟩ := off_connect h hoff a hbn
    exact ⟨e, o.1⟩
  · show (step w .connect a).2 = .ok ∧ (step w .connect a).1.connected = true
    rw [step_connect_idem w a hon.1]
    exact ⟨rfl, hon.1⟩

/-- the low-level handler: every name decodes: connect, after any history, returns and leaves the handler started -/
theorem c09_comm_connect_ok (d0 : Device) (started : Bool) (flags : Nat) (desc : Desc)
    (hist : List (CommCall × Ans)) (a : Ans) (hd : WF d0) (hbn : badNameIdx d0.en.length desc = none) :
    let w := (commRun (World.fresh d0 started flags desc) hist).1
    (commStep w .connect a).2 = .ok ∧ (commStep w .connect a).1.commStarted = true := by
  intro w
  have h : CInv d0.en.length flags desc w := reachC d0 started flags desc hd hist
  obtain ⟨o, e⟩ := (c_connectR h).2.1 hbn
  exact ⟨e, o.2.2.2.1⟩

/-- used by Props/C07 (`connect_gives_init`): a connect on a fresh handler in front of a device with the plain
    description yields the client initialised from the device, the device's configuration untouched, its stream
    stopped -/
theorem c07_connect_gives_init (d0 : Device) (started : Bool) (flags : Nat) :
    let w := (run (World.fresh d0 started flags) [.connect]).1
    w.cli = some (Client.init d0 flags) ∧ w.dev = d0 ∧ w.devStarted = false := by
  intro w
  have e : w = (step (World.fresh d0 started flags) .connect).1 := rfl
  have hb : badName (World.fresh d0 started flags) = none := plain_badNameIdx d0.en.length d0.en.length
  rw [e, step_connect_ok (World.fresh d0 started flags) {} rfl hb, commConnect_stopped _ rfl]
  exact ⟨rfl, rfl, rfl⟩

/-! ### run-level statements (C11): the client's view over whole sessions, any answers -/

/-- what `CliInv` says about the reported state on a device with ACK support -/
theorem CliInv.view {flags : Nat} {w : World} (h : CliInv flags w) (ha : Info.ackSupported flags = true) :
    ∃ c, w.cli = some c ∧ c.copyEn = c.enNow ∧ c.copyDiv = c.divNow ∧
      (c.enResync = false → w.dev.en = c.enNow) ∧ (c.divResync = false → w.dev.div = c.divNow) := by
  obtain ⟨c, hc, hI, -, -, hD⟩ := h
  exact ⟨c, hc, hI.cpEn, hI.cpDiv, (hD ha).1, (hD ha).2⟩

/-- an acknowledged write on a started handler brings device and client to the requested state -/
theorem CliInv.converges {flags : Nat} {w : World} (hh : w.hasDev = true) (h : CliInv flags w)
    (ha : Info.ackSupported flags = true) :
    (doWrite w).2 = .ok ∧
    ∃ c, (doWrite w).1.cli = some c ∧ (doWrite w).1.dev.en = c.enNew ∧ c.enNow = c.enNew ∧ c.copyEn = c.enNew ∧
      (Info.divSupported flags = true →
        (doWrite w).1.dev.div = c.divNew ∧ c.divNow = c.divNew ∧ c.copyDiv = c.divNew) := by
  obtain ⟨c, hc, hI, hdv, -, hD⟩ := h
  have hw := write_ack_result hI (hD ha).1 (hD ha).2
  have hne := channelsWrite_noerr hI .ack .ack
  rw [doWrite_some w {} c hh hc]
  refine ⟨?_, _, rfl, hw.1, hw.2.1, hw.2.2.1, fun e => hw.2.2.2.1 (hdv.trans e)⟩
  show (match (channelsWrite c w.dev Outcome.ack Outcome.ack).2.2.err with | some e => Res.raised e | none => Res.ok) = _
  rw [hne]

theorem c11_life_view (d0 : Device) (started : Bool) (flags : Nat) (desc : Desc) (hist : List (Call × Ans))
    (hd : WF d0) (ha : Info.ackSupported flags = true)
    (hcon : (runA (World.fresh d0 started flags desc) hist).1.connected = true) :
    let w := (runA (World.fresh d0 started flags desc) hist).1
    ∃ c, w.cli = some c ∧ c.copyEn = c.enNow ∧ c.copyDiv = c.divNow ∧
      (c.enResync = false → w.dev.en = c.enNow) ∧ (c.divResync = false → w.dev.div = c.divNow) := by
  intro w
  rcases (reachA d0 started flags desc hd hist).mode with hoff | hon
  · exact absurd (hoff.1.symm.trans hcon) (by decide)
  · exact hon.2.2.2.2.2.2.2.view ha

theorem c11_life_converges (d0 : Device) (started : Bool) (flags : Nat) (desc : Desc) (hist : List (Call × Ans))
    (hd : WF d0) (ha : Info.ackSupported flags = true)
    (hcon : (runA (World.fresh d0 started flags desc) hist).1.connected = true) :
    let r := step (runA (World.fresh d0 started flags desc) hist).1 .channelsWrite
    r.2 = .ok ∧
    ∃ c, r.1.cli = some c ∧ r.1.dev.en = c.enNew ∧ c.enNow = c.enNew ∧ c.copyEn = c.enNew ∧
      (Info.divSupported flags = true → r.1.dev.div = c.divNew ∧ c.divNow = c.divNew ∧ c.copyDiv = c.divNew) := by
  intro r
  rcases (reachA d0 started flags desc hd hist).mode with hoff | hon
  · exact absurd (hoff.1.symm.trans hcon) (by decide)
  · exact CliInv.converges hon.2.2.2.2.1 hon.2.2.2.2.2.2.2 ha

theorem c11_comm_view (d0 : Device) (started : Bool) (flags : Nat) (desc : Desc) (hist : List (CommCall × Ans))
    (hd : WF d0) (ha : Info.ackSupported flags = true)
    (hcon : (commRun (World.fresh d0 started flags desc) hist).1.commStarted = true) :
    let w := (commRun (World.fresh d0 started flags desc) hist).1
    ∃ c, w.cli = some c ∧ c.copyEn = c.enNow ∧ c.copyDiv = c.divNow ∧
      (c.enResync = false → w.dev.en = c.enNow) ∧ (c.divResync = false → w.dev.div = c.divNow) := by
  intro w
  rcases (reachC d0 started flags desc hd hist).mode with hoff | hon
  · exact absurd (hoff.2.2.2.1.symm.trans hcon) (by decide)
  · exact hon.2.2.2.2.2.view ha

theorem c11_comm_converges (d0 : Device) (started : Bool) (flags : Nat) (desc : Desc) (hist : List (CommCall × Ans))
    (hd : WF d0) (ha : Info.ackSupported flags = true)
    (hcon : (commRun (World.fresh d0 started flags desc) hist).1.commStarted = true) :
    let r := commStep (commRun (World.fresh d0 started flags desc) hist).1 .channelsWrite
    r.2 = .ok ∧
    ∃ c, r.1.cli = some c ∧ r.1.dev.en = c.enNew ∧ c.enNow = c.enNew ∧ c.copyEn = c.enNew ∧
      (Info.divSupported flags = true → r.1.dev.div = c.divNew ∧ c.divNow = c.divNew ∧ c.copyDiv = c.divNew) := by
  intro r
  rcases (reachC d0 started flags desc hd hist).mode with hoff | hon
  · exact absurd (hoff.2.2.2.1.symm.trans hcon) (by decide)
  · exact CliInv.converges hon.2.2.1 hon.2.2.2.2.2 ha

/-! ### start / stop requests (C11) -/

/-- the acknowledgement a start / stop request returns, and what the device did with the request -/
theorem commStartReq_spec (w : World) (s : Bool) (o : Outcome) :
    (commStartReq w s o).1.devStarted = (if applies o then s else w.devStarted) ∧
    (w.hasDev = false ∨ Info.ackSupported w.flags = false → (commStartReq w s o).2 = (true, 0)) ∧
    (w.hasDev = true → Info.ackSupported w.flags = true →
      (o = .ack → (commStartReq w s o).2 = (true, 0)) ∧
      (∀ code, o = .nack code → code ≠ 0 → (commStartReq w s o).2 = (false, code)) ∧
      (o = .lost ∨ o = .appliedAckLost → (commStartReq w s o).2 = (false, -1))) := by
  refine ⟨rfl, ?_, ?_⟩
  · intro h
    have e : (!w.hasDev || !Info.ackSupported w.flags) = true := by
      rcases h with h | h <;> rw [h] <;> simp
    show ((startAck w o _).1, (startAck w o _).2.1) = _
    unfold startAck
    rw [if_pos e]
  · intro h1 h2
    have e : ¬ (!w.hasDev || !Info.ackSupported w.flags) = true := by rw [h1, h2]; decide
    refine ⟨?_, ?_, ?_⟩
    · intro ho; subst ho
      show ((startAck w _ _).1, (startAck w _ _).2.1) = _
      unfold startAck; rw [if_neg e]
    · intro code ho hne; subst ho
      show ((startAck w _ _).1, (startAck w _ _).2.1) = _
      unfold startAck; rw [if_neg e]; dsimp only; rw [if_neg hne]
    · intro ho
      show ((startAck w _ _).1, (startAck w _ _).2.1) = _
      unfold startAck; rw [if_neg e]
      rcases ho with ho | ho <;> subst ho <;> rfl

end Nxs.Lifecycle
