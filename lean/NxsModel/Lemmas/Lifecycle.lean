/-
  Lemmas about the connect / stream / disconnect state machine (`NxsModel/Lifecycle.lean`), used by
  Props/C09.lean:
    * frame lemmas for `doWrite` / `cfgCall` (which fields of the world they can touch),
    * the reachable-world invariant `LInv` and its preservation by every `step`,
    * what a call on a disconnected handler can do (`step_disc`), what `disconnect` does to the device,
    * `run_append`, snoc induction over histories, and the run-level statements (`c09_*`).
  Configuration facts come from Lemmas/Config.lean (`AckState`, `channelsWrite_ack`, …).
-/
import NxsModel.Lifecycle
import NxsModel.Lemmas.Config
namespace Nxs.Lifecycle
open Nxs Nxs.Config

/-! ### `doWrite` / `cfgCall`: what they touch -/

/-- fields of the world a configuration call never touches -/
structure CfgFrame (w w' : World) : Prop where
  devStarted : w'.devStarted = w.devStarted
  flags : w'.flags = w.flags
  commStarted : w'.commStarted = w.commStarted
  hasDev : w'.hasDev = w.hasDev
  recvThr : w'.recvThr = w.recvThr
  intf : w'.intf = w.intf
  connected : w'.connected = w.connected
  streamStarted : w'.streamStarted = w.streamStarted
  streamThr : w'.streamThr = w.streamThr

theorem CfgFrame.refl (w : World) : CfgFrame w w := ⟨rfl, rfl, rfl, rfl, rfl, rfl, rfl, rfl, rfl⟩

theorem CfgFrame.trans {a b c : World} (h1 : CfgFrame a b) (h2 : CfgFrame b c) : CfgFrame a c :=
  ⟨h2.devStarted.trans h1.devStarted, h2.flags.trans h1.flags, h2.commStarted.trans h1.commStarted,
   h2.hasDev.trans h1.hasDev, h2.recvThr.trans h1.recvThr, h2.intf.trans h1.intf,
   h2.connected.trans h1.connected, h2.streamStarted.trans h1.streamStarted, h2.streamThr.trans h1.streamThr⟩

theorem doWrite_nodev (w : World) (h : w.hasDev = false) : doWrite w = (w, .raised .assertion) := by
  unfold doWrite; rw [h]; rfl

theorem doWrite_nocli (w : World) (h : w.hasDev = true) (hc : w.cli = none) :
    doWrite w = (w, .raised .attributeError) := by
  unfold doWrite; rw [h, hc]; rfl

/-- on a handler with a device description a write is an acknowledged `channelsWrite` -/
theorem doWrite_some (w : World) (c : Client) (h : w.hasDev = true) (hc : w.cli = some c) :
    ∃ lg t, (doWrite w).1 = { w with cli := some (channelsWrite c w.dev .ack .ack).1,
                                      dev := (channelsWrite c w.dev .ack .ack).2.1, log := lg, time := t } := by
  unfold doWrite
  split
  · rename_i h'; rw [h] at h'; exact absurd h' (by decide)
  · split
    · rename_i h'; rw [hc] at h'; cases h'
    · rename_i c' h'
      rw [hc] at h'; cases h'
      dsimp only
      split <;> exact ⟨_, _, rfl⟩

theorem doWrite_frame (w : World) : CfgFrame w (doWrite w).1 := by
  cases h : w.hasDev with
  | false => rw [doWrite_nodev w h]; exact .refl w
  | true =>
    cases hc : w.cli with
    | none => rw [doWrite_nocli w h hc]; exact .refl w
    | some c =>
      obtain ⟨lg, t, e⟩ := doWrite_some w c h hc
      rw [e]; exact ⟨rfl, rfl, rfl, rfl, rfl, rfl, rfl, rfl, rfl⟩

theorem cfgCall_none (w : World) (op : Op) (wn : Bool) (hc : w.cli = none) :
    cfgCall w op wn = (w, .raised .attributeError) := by
  unfold cfgCall; rw [hc]

/-- a configuration call is the buffered `Config.step` followed (perhaps) by a write -/
theorem cfgCall_some (w : World) (op : Op) (wn : Bool) (c : Client) (hc : w.cli = some c) :
    (cfgCall w op wn).1 = { w with cli := some (Config.step c w.dev op).1 } ∨
    (cfgCall w op wn).1 = (doWrite { w with cli := some (Config.step c w.dev op).1 }).1 := by
  unfold cfgCall; rw [hc]
  dsimp only
  split
  · exact Or.inl rfl
  · cases wn
    · exact Or.inl rfl
    · exact Or.inr rfl

theorem cfgCall_frame (w : World) (op : Op) (wn : Bool) : CfgFrame w (cfgCall w op wn).1 := by
  cases hc : w.cli with
  | none => rw [cfgCall_none w op wn hc]; exact .refl w
  | some c =>
    rcases cfgCall_some w op wn c hc with e | e <;> rw [e]
    · exact ⟨rfl, rfl, rfl, rfl, rfl, rfl, rfl, rfl, rfl⟩
    · exact CfgFrame.trans (b := { w with cli := some (Config.step c w.dev op).1 })
        ⟨rfl, rfl, rfl, rfl, rfl, rfl, rfl, rfl, rfl⟩ (doWrite_frame _)

/-- without a device description a configuration call only edits the client's buffered request -/
theorem cfgCall_nodev (w : World) (op : Op) (wn : Bool) (h : w.hasDev = false) :
    ∃ cl, (cfgCall w op wn).1 = { w with cli := cl } := by
  cases hc : w.cli with
  | none => rw [cfgCall_none w op wn hc]; exact ⟨w.cli, rfl⟩
  | some c =>
    rcases cfgCall_some w op wn c hc with e | e <;> rw [e]
    · exact ⟨_, rfl⟩
    · rw [doWrite_nodev { w with cli := some (Config.step c w.dev op).1 } h]; exact ⟨_, rfl⟩

/-! ### the configuration-level part of the invariant -/

/-- client and device agree (the all-acknowledged invariant of Lemmas/Config) and the client's
    capability flags are the device's -/
def CState (flags : Nat) (c : Client) (d : Device) : Prop :=
  AckState (Info.divSupported flags) d.div c d ∧ c.ackSupported = Info.ackSupported flags

/-- the device is well formed and has `n` channels -/
def DevOK (n : Nat) (d : Device) : Prop := WF d ∧ d.en.length = n

theorem ackOp_of_nonwrite (op : Op) (h : ∀ a b, op ≠ .write a b) : AckOp op := by
  cases op <;> first | trivial | exact absurd rfl (h _ _)

theorem ackState_reanchor {ds : Bool} {dv0 : List Int} {c : Client} {d : Device} (h : AckState ds dv0 c d) :
    AckState ds d.div c d :=
  ⟨h.inv, h.dEn, h.dDiv, h.sEn, h.sDiv, h.divS, fun _ => rfl⟩

theorem CState.init (d : Device) (flags : Nat) (hd : WF d) : CState flags (Client.init d flags) d :=
  ⟨init_ackState d flags hd, rfl⟩

theorem CState.setter {flags : Nat} {c : Client} {d : Device} (h : CState flags c d) (op : Op)
    (hop : ∀ a b, op ≠ .write a b) : CState flags (Config.step c d op).1 d := by
  have h1 := h.1.step op (ackOp_of_nonwrite op hop)
  rw [(step_silent c d op hop).1] at h1
  exact ⟨ackState_reanchor h1, (step_fixed c d op).2.1.trans h.2⟩

/-- an acknowledged write keeps client and device in agreement, keeps the device well formed with the
    same number of channels, and leaves the device with exactly the requested enable vector -/
theorem CState.write {flags : Nat} {c : Client} {d : Device} (h : CState flags c d) (hd : WF d) :
    CState flags (channelsWrite c d .ack .ack).1 (channelsWrite c d .ack .ack).2.1 ∧
    WF (channelsWrite c d .ack .ack).2.1 ∧
    (channelsWrite c d .ack .ack).2.1.en.length = d.en.length ∧
    (channelsWrite c d .ack .ack).2.1.en = c.enNew := by
  have h1 : AckState _ _ (Config.step c d (.write .ack .ack)).1 (Config.step c d (.write .ack .ack)).2.1 :=
    h.1.step (.write .ack .ack) ⟨rfl, rfl⟩
  have h2 : CState flags (channelsWrite c d .ack .ack).1 (channelsWrite c d .ack .ack).2.1 :=
    ⟨ackState_reanchor h1, (channelsWrite_fixed c d .ack .ack).2.1.trans h.2⟩
  have hI := h.1.inv
  by_cases hn : c.n = 0
  · -- a device without channels: the write does nothing, and requested = device = []
    refine ⟨h2, ?_, ?_, ?_⟩ <;> rw [channelsWrite_zero c d .ack .ack hn]
    · exact hd
    · exact (hI.nil hn).2.2.2.2.1.trans (hI.nil hn).2.1.symm
  obtain ⟨-, e2⟩ := channelsWrite_ack hI hn h.1.dEn h.1.dDiv
  refine ⟨h2, ?_, ?_, ?_⟩
  · rw [e2]
    cases c.divSupported
    · exact ⟨hI.lEnNew ▸ hI.n255, hI.lDevDiv.trans hI.lEnNew.symm, hd.2.2⟩
    · exact ⟨hI.lEnNew ▸ hI.n255, hI.lDivNew.trans hI.lEnNew.symm, hI.rDivNew⟩
  · rw [e2]
    cases c.divSupported <;> exact hI.lEnNew.trans hI.lDevEn.symm
  · rw [e2]
    cases c.divSupported <;> rfl

/-- the world's client (if the handler is connected) agrees with the world's device -/
def Synced (flags : Nat) (w : World) : Prop := ∃ c, w.cli = some c ∧ CState flags c w.dev

theorem doWrite_synced {n flags : Nat} {w : World} (hh : w.hasDev = true) (hd : DevOK n w.dev)
    (hs : Synced flags w) : DevOK n (doWrite w).1.dev ∧ Synced flags (doWrite w).1 := by
  obtain ⟨c, hc, hS⟩ := hs
  obtain ⟨lg, t, e⟩ := doWrite_some w c hh hc
  obtain ⟨h1, h2, h3, -⟩ := hS.write hd.1
  rw [e]
  exact ⟨⟨h2, h3.trans hd.2⟩, _, rfl, h1⟩

/-- on a handler whose client agrees with the device a write does not raise -/
theorem doWrite_ok {flags : Nat} {w : World} (hh : w.hasDev = true) (hs : Synced flags w) :
    (doWrite w).2 = .ok := by
  obtain ⟨c, hc, hS⟩ := hs
  have he := channelsWrite_noerr hS.1.inv .ack .ack
  unfold doWrite
  rw [hh, hc]
  dsimp only
  rw [he]
  rfl

/-- … nor does a buffered "all" call followed by a write (`ch_disable_all(True)`, `channels_default_cfg`):
    these setters cannot fail, and the write is built from well-formed vectors -/
theorem cfgCall_disableAll_ok {flags : Nat} {w : World} (hh : w.hasDev = true) (hs : Synced flags w) :
    (cfgCall w .disableAll true).2 = .ok := by
  obtain ⟨c, hc, hS⟩ := hs
  have e : cfgCall w .disableAll true = doWrite { w with cli := some (Config.step c w.dev .disableAll).1 } := by
    unfold cfgCall; rw [hc]; rfl
  rw [e]
  exact doWrite_ok (flags := flags) (w := { w with cli := some (Config.step c w.dev .disableAll).1 }) hh
    ⟨_, rfl, hS.setter .disableAll (fun a b e => nomatch e)⟩

theorem cfgCall_synced {n flags : Nat} {w : World} (op : Op) (wn : Bool) (hop : ∀ a b, op ≠ .write a b)
    (hh : w.hasDev = true) (hd : DevOK n w.dev) (hs : Synced flags w) :
    DevOK n (cfgCall w op wn).1.dev ∧ Synced flags (cfgCall w op wn).1 := by
  obtain ⟨c, hc, hS⟩ := hs
  have hS' := hS.setter op hop
  rcases cfgCall_some w op wn c hc with e | e <;> rw [e]
  · exact ⟨hd, _, rfl, hS'⟩
  · exact doWrite_synced (w := { w with cli := some (Config.step c w.dev op).1 }) hh hd ⟨_, rfl, hS'⟩

/-! ### single calls -/

theorem step_sub (w : World) (c : Nat) : step w (.sub c) =
    if c < w.subs.length then
      ({ w with subs := w.subs.set c (w.subs.getD c [] ++ [w.nextQ]), nextQ := w.nextQ + 1 }, .ok)
    else (w, .raised .indexError) := rfl

theorem step_chDivider (w : World) (cs : List Nat) (v : Int) (wn : Bool) : step w (.chDivider cs v wn) =
    if v < 0 ∨ v > 255 then (w, .raised .valueError)
    else if !w.hasDev then (w, .raised .assertion)
    else cfgCall w (.divider cs v) wn := rfl

theorem step_chDisableAll (w : World) (wn : Bool) : step w (.chDisableAll wn) =
    if !w.hasDev then (w, .raised .assertion) else cfgCall w .disableAll wn := rfl

theorem step_defaultCfg (w : World) (wn : Bool) : step w (.defaultCfg wn) =
    if !w.hasDev then (w, .raised .assertion) else cfgCall w .defaultCfg wn := rfl

theorem step_devChannelGet (w : World) (c : Nat) : step w (.devChannelGet c) =
    if !w.hasDev then (w, .raised .assertion) else (w, .ok) := rfl

theorem step_streamStart (w : World) : step w .streamStart =
    if w.streamStarted then (w, .ok)
    else
      match doWrite w with
      | (w1, .raised e) => (w1, .raised e)
      | (w1, .ok) =>
        ({ w1 with log := w1.log ++ okFrame (Requests.frameStart true), devStarted := true, streamThr := true,
                   streamStarted := true }, .ok) := rfl

theorem step_connect (w : World) : step w .connect =
    if w.connected then (w, .ok)
    else ({ commConnect w with subs := List.replicate (commConnect w).dev.en.length [], connected := true }, .ok) := rfl

theorem step_disconnect (w : World) : step w .disconnect =
    if w.connected then
      match (if (streamStop w).hasDev then cfgCall (streamStop w) .disableAll true
             else (streamStop w, .raised .assertion)) with
      | (w2, .raised e) => (w2, .raised e)
      | (w2, .ok) => ({ commDisconnect w2 with connected := false }, .ok)
    else (w, .ok) := rfl

theorem step_connect_idem (w : World) (h : w.connected = true) : step w .connect = (w, .ok) := by
  rw [step_connect, h]; rfl

theorem step_disconnect_idem (w : World) (h : w.connected = false) : step w .disconnect = (w, .ok) := by
  rw [step_disconnect, h]; rfl

theorem streamStop_idle (w : World) (h : w.streamStarted = false) : streamStop w = w := by
  unfold streamStop; rw [h]; rfl

/-- the handler is switched off: disconnected, no thread, no interface, no description, no stream -/
def Off (w : World) : Prop :=
  w.connected = false ∧ w.recvThr = false ∧ w.streamThr = false ∧ w.intf = false ∧ w.hasDev = false ∧
  w.commStarted = false ∧ w.streamStarted = false

/-- a call on a switched-off handler (other than connect) can only edit the buffered client request
    and the subscription bookkeeping -/
theorem step_off_shape (w : World) (c : Call) (hc : c ≠ .connect) (h : Off w) :
    ∃ cl sb nq, (step w c).1 = { w with cli := cl, subs := sb, nextQ := nq } := by
  obtain ⟨h1, -, -, -, h5, -, h7⟩ := h
  have cfg : ∀ op wn, ∃ cl sb nq, (cfgCall w op wn).1 = { w with cli := cl, subs := sb, nextQ := nq } := by
    intro op wn
    obtain ⟨cl, e⟩ := cfgCall_nodev w op wn h5
    exact ⟨cl, w.subs, w.nextQ, e⟩
  have same : ∃ cl sb nq, w = { w with cli := cl, subs := sb, nextQ := nq } := ⟨w.cli, w.subs, w.nextQ, rfl⟩
  cases c with
  | connect => exact absurd rfl hc
  | disconnect => rw [step_disconnect_idem w h1]; exact same
  | streamStart =>
    have e : step w .streamStart = (w, .raised .assertion) := by
      rw [step_streamStart, h7, doWrite_nodev w h5]; rfl
    rw [e]; exact same
  | streamStop =>
    have e : step w .streamStop = (streamStop w, .ok) := rfl
    rw [e, streamStop_idle w h7]
    exact same
  | sub c =>
    rw [step_sub]
    split
    · exact ⟨w.cli, _, _, rfl⟩
    · exact same
  | unsub q => exact ⟨w.cli, _, w.nextQ, rfl⟩
  | chEnable cs wn => exact cfg _ _
  | chDisable cs wn => exact cfg _ _
  | chDisableAll wn =>
    have e : step w (.chDisableAll wn) = (w, .raised .assertion) := by
      rw [step_chDisableAll, h5]; rfl
    rw [e]; exact same
  | chDivider cs v wn =>
    rw [step_chDivider]
    split
    · exact same
    · split
      · exact same
      · exact cfg _ _
  | defaultCfg wn =>
    have e : step w (.defaultCfg wn) = (w, .raised .assertion) := by
      rw [step_defaultCfg, h5]; rfl
    rw [e]; exact same
  | channelsWrite =>
    have e : step w .channelsWrite = (w, .raised .assertion) := doWrite_nodev w h5
    rw [e]; exact same
  | devChannelGet c =>
    have e : step w (.devChannelGet c) = (w, .raised .assertion) := by
      rw [step_devChannelGet, h5]; rfl
    rw [e]; exact same

/-- calls on a switched-off handler never reach the device, never start anything, take no time -/
theorem step_off (w : World) (c : Call) (hc : c ≠ .connect) (h : Off w) :
    Off (step w c).1 ∧ (step w c).1.log = w.log ∧ (step w c).1.dev = w.dev ∧
    (step w c).1.devStarted = w.devStarted ∧ (step w c).1.time = w.time ∧ (step w c).1.flags = w.flags := by
  obtain ⟨cl, sb, nq, e⟩ := step_off_shape w c hc h
  rw [e]
  exact ⟨h, rfl, rfl, rfl, rfl, rfl⟩

/-! ### the reachable-world invariant -/

/-- the handler is switched on: connected, receive thread and interface running, description present,
    stream thread and device stream exactly as `streamStarted` says, client and device in agreement -/
def On (flags : Nat) (w : World) : Prop :=
  w.connected = true ∧ w.recvThr = true ∧ w.intf = true ∧ w.hasDev = true ∧ w.commStarted = true ∧
  w.streamThr = w.streamStarted ∧ w.devStarted = w.streamStarted ∧ Synced flags w

/-- invariant of every world reachable from a fresh handler in front of a well-formed `n`-channel device -/
structure LInv (n flags : Nat) (w : World) : Prop where
  dev : DevOK n w.dev
  fl : w.flags = flags
  mode : Off w ∨ On flags w

theorem fresh_linv (d0 : Device) (started : Bool) (flags : Nat) (hd : WF d0) :
    LInv d0.en.length flags (World.fresh d0 started flags) :=
  ⟨⟨hd, rfl⟩, rfl, Or.inl ⟨rfl, rfl, rfl, rfl, rfl, rfl, rfl⟩⟩

theorem On.of_frame {flags : Nat} {w w' : World} (hon : On flags w) (hF : CfgFrame w w')
    (hs : Synced flags w') : On flags w' := by
  obtain ⟨h1, h2, h3, h4, h5, h6, h7, -⟩ := hon
  refine ⟨hF.connected.trans h1, hF.recvThr.trans h2, hF.intf.trans h3, hF.hasDev.trans h4,
    hF.commStarted.trans h5, ?_, ?_, hs⟩
  · rw [hF.streamThr, hF.streamStarted]; exact h6
  · rw [hF.devStarted, hF.streamStarted]; exact h7

theorem on_write {n flags : Nat} {w : World} (h : LInv n flags w) (hon : On flags w) :
    LInv n flags (doWrite w).1 ∧ On flags (doWrite w).1 := by
  have hF := doWrite_frame w
  obtain ⟨hd, hs⟩ := doWrite_synced hon.2.2.2.1 h.dev hon.2.2.2.2.2.2.2
  have h2 := hon.of_frame hF hs
  exact ⟨⟨hd, hF.flags.trans h.fl, Or.inr h2⟩, h2⟩

theorem on_cfg {n flags : Nat} {w : World} (h : LInv n flags w) (hon : On flags w) (op : Op) (wn : Bool)
    (hop : ∀ a b, op ≠ .write a b) :
    LInv n flags (cfgCall w op wn).1 ∧ On flags (cfgCall w op wn).1 := by
  have hF := cfgCall_frame w op wn
  obtain ⟨hd, hs⟩ := cfgCall_synced op wn hop hon.2.2.2.1 h.dev hon.2.2.2.2.2.2.2
  have h2 := hon.of_frame hF hs
  exact ⟨⟨hd, hF.flags.trans h.fl, Or.inr h2⟩, h2⟩

theorem on_streamStop {n flags : Nat} {w : World} (h : LInv n flags w) (hon : On flags w) :
    LInv n flags (streamStop w) ∧ On flags (streamStop w) ∧ (streamStop w).streamStarted = false ∧
    (streamStop w).devStarted = false := by
  cases hs : w.streamStarted with
  | false =>
    rw [streamStop_idle w hs]
    exact ⟨h, hon, hs, hon.2.2.2.2.2.2.1.trans hs⟩
  | true =>
    have e : streamStop w =
        { w with log := w.log ++ okFrame (Requests.frameStart false), devStarted := false,
                 streamThr := false, streamStarted := false } := by
      unfold streamStop; rw [hs]; rfl
    rw [e]
    obtain ⟨h1, h2, h3, h4, h5, -, -, h8⟩ := hon
    have hon' : On flags
        { w with log := w.log ++ okFrame (Requests.frameStart false), devStarted := false,
                 streamThr := false, streamStarted := false } := ⟨h1, h2, h3, h4, h5, rfl, rfl, h8⟩
    exact ⟨⟨h.dev, h.fl, Or.inr hon'⟩, hon', rfl, rfl⟩

/-- `ch_disable_all(True)` on a switched-on handler leaves every device channel disabled -/
theorem cfgCall_disableAll_dev {flags : Nat} {w : World} (hh : w.hasDev = true) (hd : WF w.dev)
    (hs : Synced flags w) : ∀ b ∈ (cfgCall w .disableAll true).1.dev.en, b = false := by
  obtain ⟨c, hc, hS⟩ := hs
  have e : cfgCall w .disableAll true = doWrite { w with cli := some (Config.step c w.dev .disableAll).1 } := by
    unfold cfgCall; rw [hc]; rfl
  obtain ⟨lg, t, e2⟩ := doWrite_some { w with cli := some (Config.step c w.dev .disableAll).1 } _ hh rfl
  have hS' := hS.setter .disableAll (fun a b e => nomatch e)
  obtain ⟨-, -, -, h4⟩ := hS'.write hd
  rw [e, e2]
  intro b hb
  have hb' : b ∈ (channelsWrite (Config.step c w.dev .disableAll).1 w.dev .ack .ack).2.1.en := hb
  rw [h4] at hb'
  exact (List.mem_replicate.mp hb').2

theorem on_disconnect {n flags : Nat} {w : World} (h : LInv n flags w) (hon : On flags w) :
    LInv n flags (step w .disconnect).1 ∧ Off (step w .disconnect).1 ∧
    (step w .disconnect).1.devStarted = false ∧ ∀ b ∈ (step w .disconnect).1.dev.en, b = false := by
  obtain ⟨h1, o1, s1, d1⟩ := on_streamStop h hon
  have hh := o1.2.2.2.1
  obtain ⟨h2, o2⟩ := on_cfg h1 o1 .disableAll true (fun a b e => nomatch e)
  have hF := cfgCall_frame (streamStop w) .disableAll true
  have hen := cfgCall_disableAll_dev hh h1.dev.1 o1.2.2.2.2.2.2.2
  -- in a reachable world the write cannot raise, so the disconnect goes through
  have hok := cfgCall_disableAll_ok hh o1.2.2.2.2.2.2.2
  rw [step_disconnect, hon.1, hh]
  simp only [↓reduceIte]
  generalize cfgCall (streamStop w) .disableAll true = r at *
  obtain ⟨w2, res⟩ := r
  dsimp only at *
  subst hok
  dsimp only
  have e : commDisconnect w2 =
      { w2 with recvThr := false, intf := false, time := w2.time + drain,
                commStarted := false, hasDev := false } := by
    unfold commDisconnect; rw [o2.2.2.2.2.1]; rfl
  rw [e]
  exact ⟨⟨h2.dev, h2.fl, Or.inl ⟨rfl, rfl, o2.2.2.2.2.2.1.trans (hF.streamStarted.trans s1), rfl, rfl, rfl,
    hF.streamStarted.trans s1⟩⟩, ⟨rfl, rfl, o2.2.2.2.2.2.1.trans (hF.streamStarted.trans s1), rfl, rfl, rfl,
    hF.streamStarted.trans s1⟩, hF.devStarted.trans d1, hen⟩

/-- connect on a switched-off handler: handshake (which stops a stream left running), fresh client -/
theorem off_connect {n flags : Nat} {w : World} (h : LInv n flags w) (hoff : Off w) :
    LInv n flags (step w .connect).1 ∧ On flags (step w .connect).1 ∧
    (step w .connect).1.devStarted = false := by
  obtain ⟨h1, -, h3, -, -, h6, h7⟩ := hoff
  have e : commConnect w =
      { w with intf := true, devStarted := false, recvThr := true,
               log := w.log ++ okFrame (Requests.frameStart false) ++ okFrame Requests.frameCmninfo ++
                        chinfoFrames 0 w.dev.en.length,
               time := w.time + drain + drain,
               hasDev := true, cli := some (Client.init w.dev w.flags), commStarted := true } := by
    unfold commConnect; rw [h6]; rfl
  rw [step_connect, h1, e]
  have hs : CState flags (Client.init w.dev w.flags) w.dev := by
    rw [h.fl]; exact CState.init w.dev flags h.dev.1
  simp only [Bool.false_eq_true, ↓reduceIte]
  refine (fun hon => ⟨⟨h.dev, h.fl, Or.inr hon⟩, hon, trivial⟩ : On flags _ → _) ?_
  exact ⟨rfl, rfl, rfl, rfl, rfl, h3.trans h7.symm, h7.symm, _, rfl, hs⟩

/-- every call other than disconnect keeps a switched-on handler switched on -/
theorem on_step {n flags : Nat} {w : World} (h : LInv n flags w) (hon : On flags w) (c : Call)
    (hc : c ≠ .disconnect) : LInv n flags (step w c).1 ∧ On flags (step w c).1 := by
  have hh := hon.2.2.2.1
  cases c with
  | connect => rw [step_connect_idem w hon.1]; exact ⟨h, hon⟩
  | disconnect => exact absurd rfl hc
  | streamStart =>
    cases hs : w.streamStarted with
    | true =>
      have e : step w .streamStart = (w, .ok) := by rw [step_streamStart, hs]; rfl
      rw [e]; exact ⟨h, hon⟩
    | false =>
      obtain ⟨hw, ow⟩ := on_write h hon
      rw [step_streamStart, hs]
      simp only [Bool.false_eq_true, ↓reduceIte]
      generalize doWrite w = r at *
      obtain ⟨w1, res⟩ := r
      cases res with
      | raised e => exact ⟨hw, ow⟩
      | ok =>
        obtain ⟨o1, o2, o3, o4, o5, -, -, o8⟩ := ow
        have hon' : On flags
            { w1 with log := w1.log ++ okFrame (Requests.frameStart true), devStarted := true,
                      streamThr := true, streamStarted := true } :=
          ⟨o1, o2, o3, o4, o5, rfl, rfl, o8⟩
        exact ⟨⟨hw.dev, hw.fl, Or.inr hon'⟩, hon'⟩
  | streamStop =>
    obtain ⟨h1, o1, -, -⟩ := on_streamStop h hon
    exact ⟨h1, o1⟩
  | sub c =>
    rw [step_sub]
    split
    · have hon' : On flags { w with subs := w.subs.set c (w.subs.getD c [] ++ [w.nextQ]), nextQ := w.nextQ + 1 } :=
        hon
      exact ⟨⟨h.dev, h.fl, Or.inr hon'⟩, hon'⟩
    · exact ⟨h, hon⟩
  | unsub q =>
    have hon' : On flags { w with subs := w.subs.map fun l => l.erase q } := hon
    exact ⟨⟨h.dev, h.fl, Or.inr hon'⟩, hon'⟩
  | chEnable cs wn => exact on_cfg h hon _ wn (fun a b e => nomatch e)
  | chDisable cs wn => exact on_cfg h hon _ wn (fun a b e => nomatch e)
  | chDisableAll wn =>
    have e : step w (.chDisableAll wn) = cfgCall w .disableAll wn := by rw [step_chDisableAll, hh]; rfl
    rw [e]; exact on_cfg h hon _ wn (fun a b e => nomatch e)
  | chDivider cs v wn =>
    rw [step_chDivider]
    split
    · exact ⟨h, hon⟩
    · have e : (if (!w.hasDev) = true then (w, Res.raised Err.assertion) else cfgCall w (.divider cs v) wn) =
          cfgCall w (.divider cs v) wn := by rw [hh]; rfl
      rw [e]; exact on_cfg h hon _ wn (fun a b e => nomatch e)
  | defaultCfg wn =>
    have e : step w (.defaultCfg wn) = cfgCall w .defaultCfg wn := by rw [step_defaultCfg, hh]; rfl
    rw [e]; exact on_cfg h hon _ wn (fun a b e => nomatch e)
  | channelsWrite => exact on_write h hon
  | devChannelGet c =>
    have e : step w (.devChannelGet c) = (w, .ok) := by rw [step_devChannelGet, hh]; rfl
    rw [e]; exact ⟨h, hon⟩

theorem step_linv {n flags : Nat} {w : World} (h : LInv n flags w) (c : Call) : LInv n flags (step w c).1 := by
  rcases h.mode with hoff | hon
  · by_cases hc : c = .connect
    · subst hc; exact (off_connect h hoff).1
    · obtain ⟨h1, -, h3, -, -, h6⟩ := step_off w c hc hoff
      exact ⟨h3 ▸ h.dev, h6.trans h.fl, Or.inl h1⟩
  · by_cases hc : c = .disconnect
    · subst hc; exact (on_disconnect h hon).1
    · exact (on_step h hon c hc).1

/-- what a switched-on handler reports: the device's channel count, its current enable state, its flags -/
theorem on_description {n flags : Nat} {w : World} (h : LInv n flags w) (hon : On flags w) :
    ∃ c, w.cli = some c ∧ c.n = n ∧ c.enNow = w.dev.en ∧ c.copyEn = w.dev.en ∧
      c.divSupported = Info.divSupported flags ∧ c.ackSupported = Info.ackSupported flags := by
  obtain ⟨c, hc, hA, ha⟩ := hon.2.2.2.2.2.2.2
  have he := hA.dEn hA.sEn
  exact ⟨c, hc, hA.inv.lDevEn.symm.trans h.dev.2, he.symm, hA.inv.cpEn.trans he.symm, hA.divS, ha⟩

/-! ### histories -/

theorem run_cons (w : World) (c : Call) (r : List Call) :
    run w (c :: r) = ((run (step w c).1 r).1, (step w c).2 :: (run (step w c).1 r).2) := rfl

theorem run_append (w : World) (l l' : List Call) :
    run w (l ++ l') = ((run (run w l).1 l').1, (run w l).2 ++ (run (run w l).1 l').2) := by
  induction l generalizing w with
  | nil => rfl
  | cons c r ih => rw [List.cons_append, run_cons, run_cons, ih]; rfl

theorem run_snoc (w : World) (l : List Call) (c : Call) : (run w (l ++ [c])).1 = (step (run w l).1 c).1 := by
  rw [run_append]; rfl

theorem snoc_induction {α : Type} {P : List α → Prop} (nil : P []) (snoc : ∀ l a, P l → P (l ++ [a])) :
    ∀ l, P l := by
  intro l
  rw [← List.reverse_reverse l]
  induction l.reverse with
  | nil => exact nil
  | cons a r ih => rw [List.reverse_cons]; exact snoc _ _ ih

/-- history predicate: once a connect has occurred, a disconnected handler has left the device with the
    stream stopped and every channel disabled -/
def Hist (seen : Prop) (w : World) : Prop :=
  seen → w.connected = false → w.devStarted = false ∧ ∀ b ∈ w.dev.en, b = false

theorem step_hist {n flags : Nat} {w : World} (h : LInv n flags w) (l : List Call) (c : Call)
    (hH : Hist (Call.connect ∈ l) w) : Hist (Call.connect ∈ l ++ [c]) (step w c).1 := by
  intro hm hdis
  rcases h.mode with hoff | hon
  · by_cases hc : c = .connect
    · subst hc
      exact absurd ((off_connect h hoff).2.1.1.symm.trans hdis) (by decide)
    · obtain ⟨-, -, h3, h4, -, -⟩ := step_off w c hc hoff
      have hl : Call.connect ∈ l := by
        rcases List.mem_append.mp hm with hm | hm
        · exact hm
        · exact absurd (List.mem_singleton.mp hm).symm hc
      rw [h3, h4]
      exact hH hl hoff.1
  · by_cases hc : c = .disconnect
    · subst hc
      obtain ⟨-, -, h3, h4⟩ := on_disconnect h hon
      exact ⟨h3, h4⟩
    · exact absurd ((on_step h hon c hc).2.1.symm.trans hdis) (by decide)

/-- every world reachable from a fresh handler satisfies the invariant and the history predicate -/
theorem reach (d0 : Device) (started : Bool) (flags : Nat) (hd : WF d0) (calls : List Call) :
    LInv d0.en.length flags (run (World.fresh d0 started flags) calls).1 ∧
    Hist (Call.connect ∈ calls) (run (World.fresh d0 started flags) calls).1 := by
  induction calls using snoc_induction with
  | nil => exact ⟨fresh_linv d0 started flags hd, fun hm => nomatch hm⟩
  | snoc l c ih =>
    rw [run_snoc]
    exact ⟨step_linv ih.1 c, step_hist ih.1 l c ih.2⟩

/-! ### run-level statements (C09) -/

theorem c09_state_machine (d0 : Device) (started : Bool) (flags : Nat) (calls : List Call) (hd : WF d0) :
    let w := (run (World.fresh d0 started flags) calls).1
    (w.connected = false → w.recvThr = false ∧ w.streamThr = false ∧ w.intf = false ∧ w.hasDev = false ∧
        w.commStarted = false ∧ w.streamStarted = false) ∧
    (w.connected = true → w.recvThr = true ∧ w.intf = true ∧ w.hasDev = true ∧ w.commStarted = true ∧
        w.streamThr = w.streamStarted ∧ w.devStarted = w.streamStarted) := by
  intro w
  rcases (reach d0 started flags hd calls).1.mode with hoff | hon
  · exact ⟨fun _ => hoff.2, fun hc => absurd (hoff.1.symm.trans hc) (by decide)⟩
  · exact ⟨fun hc => absurd (hon.1.symm.trans hc) (by decide),
      fun _ => ⟨hon.2.1, hon.2.2.1, hon.2.2.2.1, hon.2.2.2.2.1, hon.2.2.2.2.2.1, hon.2.2.2.2.2.2.1⟩⟩

theorem c09_disconnected_is_inert (d0 : Device) (started : Bool) (flags : Nat) (calls : List Call) (c : Call)
    (hd : WF d0) (hc : c ≠ .connect) (hdis : (run (World.fresh d0 started flags) calls).1.connected = false) :
    let w := (run (World.fresh d0 started flags) calls).1
    let w' := (step w c).1
    w'.log = w.log ∧ w'.dev = w.dev ∧ w'.devStarted = w.devStarted ∧ w'.time = w.time ∧
    w'.recvThr = false ∧ w'.streamThr = false ∧ w'.intf = false ∧ w'.connected = false := by
  intro w w'
  rcases (reach d0 started flags hd calls).1.mode with hoff | hon
  · obtain ⟨h1, h2, h3, h4, h5, -⟩ := step_off w c hc hoff
    exact ⟨h2, h3, h4, h5, h1.2.1, h1.2.2.1, h1.2.2.2.1, h1.1⟩
  · exact absurd (hon.1.symm.trans hdis) (by decide)

theorem c09_reconnect_same_description (d0 : Device) (started : Bool) (flags : Nat) (calls : List Call)
    (hd : WF d0) :
    let w := (run (World.fresh d0 started flags) (calls ++ [.connect])).1
    w.dev.en.length = d0.en.length ∧ w.flags = flags ∧
    ∃ c, w.cli = some c ∧ c.n = d0.en.length ∧ c.enNow = w.dev.en ∧ c.copyEn = w.dev.en ∧
      c.divSupported = Info.divSupported flags ∧ c.ackSupported = Info.ackSupported flags := by
  intro w
  have h := (reach d0 started flags hd calls).1
  have h' : LInv d0.en.length flags w := (reach d0 started flags hd (calls ++ [.connect])).1
  have hon : On flags w := by
    show On flags (run _ (calls ++ [.connect])).1
    rw [run_snoc]
    rcases h.mode with hoff | hon
    · exact (off_connect h hoff).2.1
    · exact (on_step h hon .connect (fun e => nomatch e)).2
  exact ⟨h'.dev.2, h'.fl, on_description h' hon⟩

theorem c09_after_disconnect (d0 : Device) (started : Bool) (flags : Nat) (calls : List Call) (hd : WF d0) :
    let w := (run (World.fresh d0 started flags) (calls ++ [.disconnect])).1
    w.connected = false ∧ w.hasDev = false ∧ w.recvThr = false ∧ w.streamThr = false ∧ w.intf = false ∧
    (Call.connect ∈ calls → w.devStarted = false ∧ ∀ b ∈ w.dev.en, b = false) := by
  intro w
  have h := (reach d0 started flags hd calls).1
  obtain ⟨-, hH⟩ := reach d0 started flags hd (calls ++ [.disconnect])
  have hoff : Off w := by
    show Off (run _ (calls ++ [.disconnect])).1
    rw [run_snoc]
    rcases h.mode with hoff | hon
    · rw [step_disconnect_idem _ hoff.1]; exact hoff
    · exact (on_disconnect h hon).2.1
  exact ⟨hoff.1, hoff.2.2.2.2.1, hoff.2.1, hoff.2.2.1, hoff.2.2.2.1,
    fun hm => hH (List.mem_append_left _ hm) hoff.1⟩

theorem c09_connect_stops_stream (d0 : Device) (flags : Nat) (hd : WF d0) :
    (run (World.fresh d0 true flags) [.connect]).1.devStarted = false :=
  (off_connect (fresh_linv d0 true flags hd) ⟨rfl, rfl, rfl, rfl, rfl, rfl, rfl⟩).2.2

end Nxs.Lifecycle
