/-
  Helper lemmas for C10 (connect / disconnect always terminate):
  * cost lemmas for the handshake model, bottom-up (`request`, `chinfoLoop`, `chinfoAll`,
    `devinfoGet`, `connectLoop`), each `(f s …).2.time ≤ s.time + …`;
  * which exceptions can come out (`struct.error` only, besides the final `TimeoutError`);
  * the silent-link computations;
  * the receive-thread body against a script that starts with an empty read;
  * the receive-thread body makes a bounded number of reads per invocation, whatever the script
    (`fill_reads`, `readHdr_reads`, `readFrame_reads`, `serial_declaredLen_lt`).
-/
import NxsModel.Handshake
import NxsModel.Reasm
import NxsModel.Lemmas.Reasm
import NxsModel.Lemmas.SerialLawful
namespace Nxs
namespace Handshake
open Gen.Comm

/-- cost of one `_drop_all_frames` on empty queues -/
def drain : Nat := drainPolls * drainPollTime + drainStreamPolls * drainStreamPollTime

theorem drain_eq : drain = 8 := by decide

theorem dropAll_time (s : St) : (dropAll s).time = s.time + drain := by
  simp [dropAll, drain, Nat.add_assoc]

/-! ### what one request does, per response -/

set_option linter.unusedSimpArgs false

/-- what an info request / a retry loop can produce: the only exceptions are `struct.error` (payload too
    short) and `UnicodeDecodeError` (channel name not UTF-8) -/
def GotOk (g : Got) : Prop := g = .answer ∨ g = .nothing ∨ g = .raise .structError ∨ g = .raise .unicodeError

theorem request_time_le (s : St) (r : Req) (t : Nat) : (request s r t).2.time ≤ s.time + t := by
  unfold request St.next
  cases h : s.script with
  | nil => cases hd : s.dflt <;> cases r <;> simp [h, hd, St.poison]
  | cons x xs => cases x <;> cases r <;> simp [h, St.poison]

theorem request_got (s : St) (r : Req) (t : Nat) : GotOk (request s r t).1 := by
  unfold request St.next GotOk
  cases h : s.script with
  | nil => cases hd : s.dflt <;> cases r <;> simp [h, hd]
  | cons x xs => cases x <;> cases r <;> simp [h]

/-! ### time bounds -/

theorem chinfoLoop_time_le (i : Nat) : ∀ (k : Nat) (s : St),
    (chinfoLoop s i k).2.time ≤ s.time + k * chinfoTimeout
  | 0, s => by simp [chinfoLoop]
  | k + 1, s => by
    have h1 := request_time_le s (.chinfo i) chinfoTimeout
    unfold chinfoLoop
    split
    · next s' h => rw [h] at h1; simp only at h1 ⊢; rw [Nat.succ_mul]; omega
    · next e s' h => rw [h] at h1; simp only at h1 ⊢; rw [Nat.succ_mul]; omega
    · next s' h =>
      rw [h] at h1
      have h2 := chinfoLoop_time_le i k s'
      simp only at h1 ⊢; rw [Nat.succ_mul]; omega

theorem chinfoLoop_got (i : Nat) : ∀ (k : Nat) (s : St), GotOk (chinfoLoop s i k).1
  | 0, s => by simp [chinfoLoop, GotOk]
  | k + 1, s => by
    have h1 := request_got s (.chinfo i) chinfoTimeout
    unfold chinfoLoop
    split
    · simp [GotOk]
    · next e s' h => rw [h] at h1; exact h1
    · exact chinfoLoop_got i k _

theorem chinfoAll_time_le : ∀ (n i : Nat) (s : St),
    (chinfoAll s i n).2.time ≤ s.time + n * (chinfoAttempts * chinfoTimeout)
  | 0, i, s => by simp [chinfoAll]
  | n + 1, i, s => by
    have h1 := chinfoLoop_time_le i chinfoAttempts s
    unfold chinfoAll
    split
    · next s' h =>
      rw [h] at h1
      have h2 := chinfoAll_time_le n (i + 1) s'
      simp only at h1; rw [Nat.succ_mul]; omega
    · next other hne =>
      rw [Nat.succ_mul]; omega

theorem chinfoAll_got : ∀ (n i : Nat) (s : St), GotOk (chinfoAll s i n).1
  | 0, i, s => by simp [chinfoAll, GotOk]
  | n + 1, i, s => by
    unfold chinfoAll
    split
    · exact chinfoAll_got n (i + 1) _
    · exact chinfoLoop_got i _ s

/-- cost bound of one `_devinfo_get` -/
def attemptCost (chmax : Nat) : Nat :=
  cmninfoTimeout + drain + chmax * (chinfoAttempts * chinfoTimeout)

theorem devinfoGet_time_le (dev : DevDesc) (s : St) :
    (devinfoGet dev s).2.time ≤ s.time + attemptCost dev.chmax := by
  have h1 := request_time_le s .cmninfo cmninfoTimeout
  unfold devinfoGet attemptCost
  split
  · next s1 h =>
    rw [h] at h1
    simp only at h1
    refine Nat.le_trans (chinfoAll_time_le _ _ _) ?_
    rw [dropAll_time]
    split
    · simp only; omega
    · omega
  · omega

theorem devinfoGet_got (dev : DevDesc) (s : St) : GotOk (devinfoGet dev s).1 := by
  unfold devinfoGet
  split
  · exact chinfoAll_got _ _ _
  · exact request_got _ _ _

theorem connectLoop_time_le (dev : DevDesc) : ∀ (k : Nat) (s : St),
    (connectLoop dev s k).2.time ≤ s.time + k * attemptCost dev.chmax
  | 0, s => by simp [connectLoop]
  | k + 1, s => by
    have h1 := devinfoGet_time_le dev s
    unfold connectLoop
    split
    · next s' h => rw [h] at h1; simp only at h1 ⊢; rw [Nat.succ_mul]; omega
    · next e s' h => rw [h] at h1; simp only at h1 ⊢; rw [Nat.succ_mul]; omega
    · next s' h =>
      rw [h] at h1
      have h2 := connectLoop_time_le dev k s'
      simp only at h1 ⊢; rw [Nat.succ_mul]; omega

/-- the outcomes of the connect loop -/
def OutcomeOk (dev : DevDesc) (o : Outcome) : Prop :=
  o = .connected dev.chmax dev.flags dev.rxpadding ∨ o = .raised .timeout ∨ o = .raised .structError ∨
    o = .raised .unicodeError

theorem connectLoop_outcome (dev : DevDesc) : ∀ (k : Nat) (s : St), OutcomeOk dev (connectLoop dev s k).1
  | 0, s => by simp [connectLoop, OutcomeOk]
  | k + 1, s => by
    have h1 := devinfoGet_got dev s
    unfold connectLoop
    split
    · simp [OutcomeOk]
    · next e s' h =>
      rw [h] at h1
      simp [GotOk] at h1
      simp [OutcomeOk, h1]
    · exact connectLoop_outcome dev k _

/-! ### `connect` in terms of the loop -/

/-- the state the connect loop starts from -/
def start (script : List Resp) (dflt : Resp) : St :=
  dropAll { script := script, dflt := dflt, sent := [.stop] }

theorem start_time (script : List Resp) (dflt : Resp) : (start script dflt).time = drain := by
  simp [start, dropAll_time]

theorem connect_time (dev : DevDesc) (script : List Resp) (dflt : Resp) :
    (connect dev script dflt).time = (connectLoop dev (start script dflt) connectAttempts).2.time := by
  unfold connect start
  dsimp only
  generalize connectLoop dev _ connectAttempts = p
  obtain ⟨o, s⟩ := p
  cases o <;> rfl

theorem connect_outcome (dev : DevDesc) (script : List Resp) (dflt : Resp) :
    (connect dev script dflt).outcome = (connectLoop dev (start script dflt) connectAttempts).1 := by
  unfold connect start
  dsimp only
  generalize connectLoop dev _ connectAttempts = p
  obtain ⟨o, s⟩ := p
  cases o <;> rfl

theorem bound_eq_cost (chmax : Nat) : bound chmax = drain + connectAttempts * attemptCost chmax := by
  simp [bound, attemptCost, drain, Nat.mul_assoc]

theorem connect_time_le (dev : DevDesc) (script : List Resp) (dflt : Resp) :
    (connect dev script dflt).time ≤ bound dev.chmax := by
  rw [connect_time, bound_eq_cost]
  have := connectLoop_time_le dev connectAttempts (start script dflt)
  rw [start_time] at this
  exact this

theorem bound_num (chmax : Nat) : bound chmax = 8 + 6 * (18 + chmax * 60) := by
  simp [bound, connectAttempts, cmninfoTimeout, chinfoAttempts, chinfoTimeout, drainPolls,
    drainPollTime, drainStreamPolls, drainStreamPollTime]
  omega

theorem connect_raised_flags (dev : DevDesc) (script : List Resp) (dflt : Resp) (e : Err)
    (h : (connect dev script dflt).outcome = .raised e) :
    (connect dev script dflt).recvThreadRunning = false ∧ (connect dev script dflt).intfRunning = false := by
  unfold connect at h ⊢
  dsimp only at h ⊢
  generalize connectLoop dev _ connectAttempts = p at h ⊢
  obtain ⟨o, s⟩ := p
  cases o <;> simp [startCleansUp] at h ⊢

theorem disconnect_time_le (r : Result) : (disconnectAfter r).time ≤ r.time + 8 := by
  unfold disconnectAfter
  split <;> simp [drainPolls, drainPollTime, drainStreamPolls, drainStreamPollTime, Nat.add_assoc]

theorem disconnect_flags (r : Result)
    (h : ∀ e, r.outcome = .raised e → r.recvThreadRunning = false ∧ r.intfRunning = false) :
    (disconnectAfter r).recvThreadRunning = false ∧ (disconnectAfter r).intfRunning = false := by
  unfold disconnectAfter
  split
  · simp
  · next e he => exact h e he

/-! ### the silent link -/

/-- an exhausted script with a silent default -/
def Silent (s : St) : Prop := s.script = [] ∧ s.dflt = .silent

theorem request_silent (s : St) (r : Req) (t : Nat) (h : Silent s) :
    (request s r t).1 = .nothing ∧ (request s r t).2.time = s.time + t ∧ Silent (request s r t).2 := by
  obtain ⟨h1, h2⟩ := h
  simp [request, St.next, h1, h2, Silent]

theorem connectLoop_silent (dev : DevDesc) : ∀ (k : Nat) (s : St), Silent s →
    (connectLoop dev s k).1 = .raised .timeout ∧
    (connectLoop dev s k).2.time = s.time + k * cmninfoTimeout
  | 0, s, _ => by simp [connectLoop]
  | k + 1, s, h => by
    obtain ⟨r1, r2, r3⟩ := request_silent s .cmninfo cmninfoTimeout h
    have hd : devinfoGet dev s = request s .cmninfo cmninfoTimeout := by
      unfold devinfoGet
      split
      · next s1 hh => rw [hh] at r1; simp at r1
      · rfl
    unfold connectLoop
    split
    · next s' hh => rw [hd] at hh; rw [hh] at r1; simp at r1
    · next e s' hh => rw [hd] at hh; rw [hh] at r1; simp at r1
    · next s' hh =>
      rw [hd] at hh; rw [hh] at r2 r3
      obtain ⟨a, b⟩ := connectLoop_silent dev k s' r3
      simp only at r2
      refine ⟨a, ?_⟩
      rw [b, r2, Nat.succ_mul]; omega

theorem chinfoLoop_silent (i : Nat) : ∀ (k : Nat) (s : St), Silent s →
    (chinfoLoop s i k).1 = .nothing ∧ Silent (chinfoLoop s i k).2
  | 0, s, h => by simp [chinfoLoop, h]
  | k + 1, s, h => by
    obtain ⟨r1, _, r3⟩ := request_silent s (.chinfo i) chinfoTimeout h
    unfold chinfoLoop
    split
    · next s' hh => rw [hh] at r1; simp at r1
    · next e s' hh => rw [hh] at r1; simp at r1
    · next s' hh => rw [hh] at r3; exact chinfoLoop_silent i k s' r3

theorem silent_connect (dev : DevDesc) :
    (connect dev [] .silent).outcome = .raised .timeout ∧ (connect dev [] .silent).time = 68 := by
  have hs : Silent (start [] .silent) := by simp [Silent, start, dropAll]
  obtain ⟨a, b⟩ := connectLoop_silent dev connectAttempts _ hs
  rw [connect_outcome, connect_time, a, b, start_time]
  exact ⟨rfl, by decide⟩

/-- after an answered common-info request `_devinfo_get` is the channel loop, run on a state with
    the same link script -/
theorem devinfoGet_of_answer (dev : DevDesc) (s s1 : St)
    (h : request s .cmninfo cmninfoTimeout = (.answer, s1)) :
    ∃ s2, s2.script = s1.script ∧ s2.dflt = s1.dflt ∧ devinfoGet dev s = chinfoAll s2 0 dev.chmax := by
  unfold devinfoGet
  rw [h]
  refine ⟨_, ?_, ?_, rfl⟩ <;> (simp only [dropAll]; split <;> rfl)

/-- one `_devinfo_get` against `[.ok]` then silence, with at least one channel: nothing, and the
    link is silent from then on -/
theorem devinfoGet_ok_then_silent (dev : DevDesc) (h : 1 ≤ dev.chmax) (s : St)
    (h1 : s.script = [.ok]) (h2 : s.dflt = .silent) :
    (devinfoGet dev s).1 = .nothing ∧ Silent (devinfoGet dev s).2 := by
  obtain ⟨n, hn⟩ : ∃ n, dev.chmax = n + 1 := ⟨dev.chmax - 1, by omega⟩
  obtain ⟨s2, a, b, e⟩ := devinfoGet_of_answer dev s
    { s with sent := s.sent ++ [.cmninfo], script := [] } (by simp [request, St.next, h1])
  have hs : Silent s2 := ⟨a, b.trans h2⟩
  obtain ⟨c, d⟩ := chinfoLoop_silent 0 chinfoAttempts s2 hs
  rw [e, hn]
  unfold chinfoAll
  split
  · next s' hh => rw [hh] at c; simp at c
  · exact ⟨c, d⟩

theorem silent_after_cmninfo_connect (dev : DevDesc) (h : 1 ≤ dev.chmax) :
    (connect dev [.ok] .silent).outcome = .raised .timeout := by
  rw [connect_outcome]
  have hc : connectAttempts = 5 + 1 := by decide
  rw [hc]
  obtain ⟨a, b⟩ := devinfoGet_ok_then_silent dev h (start [.ok] .silent)
    (by simp [start, dropAll]) (by simp [start, dropAll])
  unfold connectLoop
  split
  · next s' hh => rw [hh] at a; simp at a
  · next e s' hh => rw [hh] at a; simp at a
  · next s' hh => rw [hh] at b; exact (connectLoop_silent dev 5 s' b).1


/-! ### sessions: calls after (and around) the handshake -/

theorem startCleansUp_true : startCleansUp = true := by decide

theorem next_time (s : St) : s.next.2.time = s.time := by
  unfold St.next; split <;> rfl

theorem ackReq_time_le (x : Sess) (r : Sent) (t : Nat) : (ackReq x r t).2.st.time ≤ x.st.time + t := by
  unfold ackReq
  dsimp only
  split
  · have hn := next_time x.st
    generalize x.st.next = p at hn
    obtain ⟨resp, st⟩ := p
    simp only at hn ⊢
    cases resp <;> simp [St.poison, hn]
  · simp

theorem ackReq_dev (x : Sess) (r : Sent) (t : Nat) : (ackReq x r t).2.dev = x.dev := by
  unfold ackReq
  dsimp only
  split
  · generalize x.st.next = p
    obtain ⟨resp, st⟩ := p
    cases resp <;> rfl
  · rfl

/-- an ACK wait changes nothing but the link state, the clock and the log -/
theorem ackReq_flags (x : Sess) (r : Sent) (t : Nat) :
    (ackReq x r t).2.started = x.started ∧ (ackReq x r t).2.recvThr = x.recvThr ∧
    (ackReq x r t).2.intf = x.intf ∧ (ackReq x r t).2.connected = x.connected ∧
    (ackReq x r t).2.streamStarted = x.streamStarted ∧ (ackReq x r t).2.streamThr = x.streamThr := by
  unfold ackReq
  dsimp only
  split
  · generalize x.st.next = p
    obtain ⟨resp, st⟩ := p
    cases resp <;> simp
  · simp

theorem ackReq_err (x : Sess) (r : Sent) (t : Nat) (e : Err) (h : (ackReq x r t).1 = .raise e) :
    e = .structError := by
  unfold ackReq at h
  dsimp only at h
  split at h
  · generalize x.st.next = p at h
    obtain ⟨resp, st⟩ := p
    cases resp <;> simp at h
    exact h.symm
  · simp at h

/-- everything but the clock, the link script and the log -/
def SameCtl (x y : Sess) : Prop :=
  y.dev = x.dev ∧ y.started = x.started ∧ y.recvThr = x.recvThr ∧ y.intf = x.intf ∧
  y.connected = x.connected ∧ y.streamStarted = x.streamStarted ∧ y.streamThr = x.streamThr

theorem SameCtl.refl (x : Sess) : SameCtl x x := ⟨rfl, rfl, rfl, rfl, rfl, rfl, rfl⟩

theorem SameCtl.trans {x y z : Sess} (h1 : SameCtl x y) (h2 : SameCtl y z) : SameCtl x z := by
  obtain ⟨a0, a1, a2, a3, a4, a5, a6⟩ := h1
  obtain ⟨b0, b1, b2, b3, b4, b5, b6⟩ := h2
  exact ⟨b0.trans a0, b1.trans a1, b2.trans a2, b3.trans a3, b4.trans a4, b5.trans a5, b6.trans a6⟩

theorem ackStep_spec (x : Sess) (r : Sent) (t : Nat) :
    (ackStep x r t).2.st.time ≤ x.st.time + t ∧ SameCtl x (ackStep x r t).2 ∧
    (∀ e, (ackStep x r t).1 = some e → e = .structError) := by
  have h1 := ackReq_time_le x r t
  have h2 := ackReq_flags x r t
  have h3 := ackReq_dev x r t
  have h4 := ackReq_err x r t
  unfold ackStep
  generalize ackReq x r t = p at h1 h2 h3 h4
  obtain ⟨a, y⟩ := p
  simp only at h1 h2 h3 h4
  obtain ⟨b1, b2, b3, b4, b5, b6⟩ := h2
  cases a with
  | raise e' =>
    refine ⟨h1, ⟨h3, b1, b2, b3, b4, b5, b6⟩, ?_⟩
    intro e he
    simp only [Option.some.injEq] at he
    subst he
    exact h4 _ rfl
  | ok => exact ⟨h1, ⟨h3, b1, b2, b3, b4, b5, b6⟩, fun e he => by simp at he⟩
  | fail => exact ⟨h1, ⟨h3, b1, b2, b3, b4, b5, b6⟩, fun e he => by simp at he⟩

theorem channelsWrite_spec (x : Sess) :
    (channelsWrite x).2.st.time ≤ x.st.time + (ackTimeoutDiv + ackTimeoutEnable) ∧
    SameCtl x (channelsWrite x).2 ∧
    (∀ e, (channelsWrite x).1 = some e → (e = .assertion ∧ x.started = false) ∨ e = .structError) := by
  unfold channelsWrite
  split
  · next hs =>
    refine ⟨by simp, SameCtl.refl x, ?_⟩
    intro e he
    simp only [Option.some.injEq] at he
    exact Or.inl ⟨he.symm, by simpa using hs⟩
  · split
    · exact ⟨by simp, SameCtl.refl x, fun e he => by simp at he⟩
    · split
      · obtain ⟨t1, c1, e1⟩ := ackStep_spec x .div ackTimeoutDiv
        generalize ackStep x .div ackTimeoutDiv = p at t1 c1 e1
        obtain ⟨o, y⟩ := p
        cases o with
        | some e' =>
          simp only at t1 c1 e1 ⊢
          refine ⟨by omega, c1, ?_⟩
          intro e he
          simp only [Option.some.injEq] at he
          subst he
          exact Or.inr (e1 _ rfl)
        | none =>
          simp only at t1 c1 e1 ⊢
          obtain ⟨t2, c2, e2⟩ := ackStep_spec y .enable ackTimeoutEnable
          exact ⟨by omega, c1.trans c2, fun e he => Or.inr (e2 e he)⟩
      · obtain ⟨t2, c2, e2⟩ := ackStep_spec x .enable ackTimeoutEnable
        exact ⟨by omega, c2, fun e he => Or.inr (e2 e he)⟩

theorem commDisconnect_time (x : Sess) : (commDisconnect x).st.time ≤ x.st.time + drain := by
  unfold commDisconnect
  split
  · simp [dropAll_time]
  · simp

theorem hlStreamStop_time_le (x : Sess) (w : Nat) :
    (hlStreamStop x w).2.st.time ≤ x.st.time + (ackTimeoutStop + streamPollTimeout) := by
  unfold hlStreamStop
  split
  · obtain ⟨t1, _, _⟩ := ackStep_spec x (.info .stop) ackTimeoutStop
    generalize ackStep x (.info .stop) ackTimeoutStop = p at t1
    obtain ⟨o, y⟩ := p
    cases o with
    | some e => simp only at t1 ⊢; omega
    | none =>
      simp only at t1 ⊢
      have : (if y.streamThr = true then min w streamPollTimeout else 0) ≤ streamPollTimeout := by
        split
        · exact Nat.min_le_right _ _
        · exact Nat.zero_le _
      omega
  · simp

/-- what `NxscopeHandler.stream_stop()` does to the control state: on success the stream thread is gone -/
theorem hlStreamStop_ctl (x : Sess) (w : Nat) :
    (hlStreamStop x w).2.dev = x.dev ∧ (hlStreamStop x w).2.started = x.started ∧
    (hlStreamStop x w).2.recvThr = x.recvThr ∧ (hlStreamStop x w).2.intf = x.intf ∧
    (hlStreamStop x w).2.connected = x.connected ∧
    (((hlStreamStop x w).1 = none ∧ (hlStreamStop x w).2.streamThr = (x.streamThr && !x.streamStarted) ∧
        (hlStreamStop x w).2.streamStarted = false) ∨
     ((hlStreamStop x w).1 = some .structError ∧ (hlStreamStop x w).2.streamThr = x.streamThr ∧
        (hlStreamStop x w).2.streamStarted = x.streamStarted)) := by
  unfold hlStreamStop
  split
  · next hs =>
    obtain ⟨_, c1, e1⟩ := ackStep_spec x (.info .stop) ackTimeoutStop
    generalize ackStep x (.info .stop) ackTimeoutStop = p at c1 e1
    obtain ⟨o, y⟩ := p
    obtain ⟨a0, a1, a2, a3, a4, a5, a6⟩ := c1
    simp only at a0 a1 a2 a3 a4 a5 a6 e1
    cases o with
    | some e =>
      simp only
      have := e1 e rfl
      subst this
      exact ⟨a0, a1, a2, a3, a4, Or.inr ⟨rfl, a6, a5⟩⟩
    | none =>
      refine ⟨a0, a1, a2, a3, a4, Or.inl ⟨rfl, ?_, rfl⟩⟩
      simp [hs]
  · next hs =>
    simp only [Bool.not_eq_true] at hs
    refine ⟨rfl, rfl, rfl, rfl, rfl, Or.inl ⟨rfl, ?_, hs⟩⟩
    simp [hs]


theorem hlStreamStart_time_le (x : Sess) :
    (hlStreamStart x).2.st.time ≤ x.st.time + (ackTimeoutDiv + ackTimeoutEnable + ackTimeoutStart) := by
  unfold hlStreamStart
  split
  · dsimp only; omega
  · obtain ⟨t1, _, _⟩ := channelsWrite_spec x
    generalize channelsWrite x = p at t1
    obtain ⟨o, y⟩ := p
    cases o with
    | some e => simp only at t1 ⊢; omega
    | none =>
      simp only at t1 ⊢
      obtain ⟨t2, _, _⟩ := ackStep_spec y .start ackTimeoutStart
      generalize ackStep y .start ackTimeoutStart = q at t2
      obtain ⟨o2, z⟩ := q
      cases o2 <;> (simp only at t2 ⊢; omega)

/-- `NxscopeHandler.stream_start()`: on success the stream thread runs (and the handler has a device, unless the
    stream was already marked started); an exception leaves the control state alone -/
theorem hlStreamStart_ctl (x : Sess) :
    (hlStreamStart x).2.dev = x.dev ∧ (hlStreamStart x).2.started = x.started ∧
    (hlStreamStart x).2.recvThr = x.recvThr ∧ (hlStreamStart x).2.intf = x.intf ∧
    (hlStreamStart x).2.connected = x.connected ∧
    (((hlStreamStart x).1 = none ∧ x.streamStarted = true ∧ (hlStreamStart x).2.streamThr = x.streamThr ∧
        (hlStreamStart x).2.streamStarted = true) ∨
     ((hlStreamStart x).1 = none ∧ x.started = true ∧ (hlStreamStart x).2.streamThr = true ∧
        (hlStreamStart x).2.streamStarted = true) ∨
     ((∃ e, (hlStreamStart x).1 = some e ∧ ((e = .assertion ∧ x.started = false) ∨ e = .structError)) ∧
        (hlStreamStart x).2.streamThr = x.streamThr ∧ (hlStreamStart x).2.streamStarted = x.streamStarted)) := by
  unfold hlStreamStart
  split
  · next hs => exact ⟨rfl, rfl, rfl, rfl, rfl, Or.inl ⟨rfl, hs, rfl, hs⟩⟩
  · obtain ⟨_, c1, e1⟩ := channelsWrite_spec x
    generalize hp : channelsWrite x = p at c1 e1
    obtain ⟨o, y⟩ := p
    obtain ⟨a0, a1, a2, a3, a4, a5, a6⟩ := c1
    simp only at a0 a1 a2 a3 a4 a5 a6 e1
    cases o with
    | some e =>
      exact ⟨a0, a1, a2, a3, a4, Or.inr (Or.inr ⟨⟨e, rfl, e1 e rfl⟩, a6, a5⟩)⟩
    | none =>
      simp only
      obtain ⟨_, c2, e2⟩ := ackStep_spec y .start ackTimeoutStart
      generalize ackStep y .start ackTimeoutStart = q at c2 e2
      obtain ⟨o2, z⟩ := q
      obtain ⟨b0, b1, b2, b3, b4, b5, b6⟩ := c2
      simp only at b0 b1 b2 b3 b4 b5 b6 e2
      cases o2 with
      | some e =>
        exact ⟨b0.trans a0, b1.trans a1, b2.trans a2, b3.trans a3, b4.trans a4,
          Or.inr (Or.inr ⟨⟨e, rfl, Or.inr (e2 e rfl)⟩, b6.trans a6, b5.trans a5⟩)⟩
      | none =>
        -- no exception from `channels_write`: the handler has a device
        have hst : x.started = true := by
          cases hx : x.started with
          | true => rfl
          | false =>
            have : (channelsWrite x).1 = some .assertion := by simp [channelsWrite, hx]
            rw [hp] at this; simp at this
        exact ⟨b0.trans a0, b1.trans a1, b2.trans a2, b3.trans a3, b4.trans a4, Or.inr (Or.inl ⟨rfl, hst, rfl, rfl⟩)⟩

theorem hlDisconnect_time_le (x : Sess) (w : Nat) :
    (hlDisconnect x w).2.st.time ≤ x.st.time + hlDisconnectBound := by
  have hb : hlDisconnectBound = ackTimeoutStop + streamPollTimeout + ackTimeoutDiv + ackTimeoutEnable + drain := rfl
  rw [hb]
  unfold hlDisconnect
  split
  · have t1 := hlStreamStop_time_le x w
    generalize hlStreamStop x w = p at t1
    obtain ⟨o, y⟩ := p
    cases o with
    | some e => simp only at t1 ⊢; omega
    | none =>
      simp only at t1 ⊢
      obtain ⟨t2, _, _⟩ := channelsWrite_spec y
      generalize channelsWrite y = q at t2
      obtain ⟨o2, z⟩ := q
      cases o2 with
      | some e => simp only at t2 ⊢; omega
      | none =>
        simp only at t2 ⊢
        have t3 := commDisconnect_time z
        omega
  · dsimp only; omega

theorem hlDisconnectBound_eq : hlDisconnectBound = 48 := by decide

theorem commConnect_time_le (x : Sess) : (commConnect x).2.st.time ≤ x.st.time + bound x.dev.chmax := by
  unfold commConnect
  split
  · dsimp only; omega
  · rw [bound_eq_cost]
    have h := connectLoop_time_le x.dev connectAttempts (startState x.st)
    have hu : (startState x.st).time = x.st.time + drain := by
      unfold startState; rw [dropAll_time]; rfl
    rw [hu] at h
    generalize connectLoop x.dev (startState x.st) connectAttempts = p at h ⊢
    obtain ⟨o, s⟩ := p
    cases o <;> (simp only at h ⊢; omega)

/-- the flags after `CommHandler.connect()`: started with thread and interface, or (raised) everything this call
    started is stopped again; a started handler is left alone -/
theorem commConnect_ctl (x : Sess) :
    (commConnect x).2.dev = x.dev ∧ (commConnect x).2.connected = x.connected ∧
    (commConnect x).2.streamStarted = x.streamStarted ∧ (commConnect x).2.streamThr = x.streamThr ∧
    ((x.started = true ∧ (commConnect x).2.started = true ∧ (commConnect x).2.recvThr = x.recvThr ∧
        (commConnect x).2.intf = x.intf ∧ ∃ a b c, (commConnect x).1 = .connected a b c) ∨
     (x.started = false ∧ (∃ a b c, (commConnect x).1 = .connected a b c) ∧ (commConnect x).2.started = true ∧
        (commConnect x).2.recvThr = true ∧ (commConnect x).2.intf = true) ∨
     (x.started = false ∧ (∃ e, (commConnect x).1 = .raised e) ∧ (commConnect x).2.started = false ∧
        (commConnect x).2.recvThr = false ∧ (commConnect x).2.intf = false)) := by
  unfold commConnect
  split
  · next hs => exact ⟨rfl, rfl, rfl, rfl, Or.inl ⟨hs, hs, rfl, rfl, _, _, _, rfl⟩⟩
  · next hs =>
    simp only [Bool.not_eq_true] at hs
    generalize connectLoop x.dev (startState x.st) connectAttempts = p
    obtain ⟨o, s⟩ := p
    cases o with
    | connected a b c => exact ⟨rfl, rfl, rfl, rfl, Or.inr (Or.inl ⟨hs, ⟨_, _, _, rfl⟩, rfl, rfl, rfl⟩)⟩
    | raised e =>
      exact ⟨rfl, rfl, rfl, rfl, Or.inr (Or.inr ⟨hs, ⟨_, rfl⟩, hs, by simp [startCleansUp_true], by simp [startCleansUp_true]⟩)⟩

/-! ### the control-state invariant of a session and what the calls leave behind -/

/-- between calls: receive thread and interface run exactly while the handler is started; on a bare
    `CommHandler` nothing of the upper layer exists; on a `NxscopeHandler` connected = started and the
    stream thread runs exactly while the stream is marked started, which needs a started handler -/
def WF (lvl : Level) (x : Sess) : Prop :=
  x.recvThr = x.started ∧ x.intf = x.started ∧
  match lvl with
  | .low => x.connected = false ∧ x.streamThr = false ∧ x.streamStarted = false
  | .high => x.connected = x.started ∧ x.streamThr = x.streamStarted ∧ (x.streamThr = true → x.started = true)

theorem fresh_wf (lvl : Level) (dev : DevDesc) (script : List Resp) (dflt : Resp) :
    WF lvl (Sess.fresh dev script dflt) := by
  cases lvl <;> simp [WF, Sess.fresh]

theorem commDisconnect_ctl (x : Sess) :
    (commDisconnect x).dev = x.dev ∧ (commDisconnect x).connected = x.connected ∧
    (commDisconnect x).streamStarted = x.streamStarted ∧ (commDisconnect x).streamThr = x.streamThr ∧
    (commDisconnect x).started = false ∧
    (commDisconnect x).recvThr = (x.recvThr && !x.started) ∧ (commDisconnect x).intf = (x.intf && !x.started) := by
  unfold commDisconnect
  split
  · next h => simp [h]
  · next h => simp only [Bool.not_eq_true] at h; simp [h]

/-- `NxscopeHandler.disconnect()` on a well-formed session: it returns with everything stopped, or an ACK wait raised
    `struct.error` (an ACK frame of the wrong size: outside the property's fault classes) -/
theorem hlDisconnect_ctl (x : Sess) (w : Nat) (h : WF .high x) :
    (hlDisconnect x w).2.dev = x.dev ∧
    (((hlDisconnect x w).1 = none ∧ (hlDisconnect x w).2.started = false ∧ (hlDisconnect x w).2.recvThr = false ∧
        (hlDisconnect x w).2.intf = false ∧ (hlDisconnect x w).2.connected = false ∧
        (hlDisconnect x w).2.streamThr = false ∧ (hlDisconnect x w).2.streamStarted = false) ∨
     ((hlDisconnect x w).1 = some .structError ∧ WF .high (hlDisconnect x w).2)) := by
  obtain ⟨w1, w2, w3, w4, w5⟩ := h
  unfold hlDisconnect
  split
  · next hc =>
    have hst : x.started = true := by rw [← w3]; exact hc
    obtain ⟨s0, s1, s2, s3, s4, s5⟩ := hlStreamStop_ctl x w
    generalize hlStreamStop x w = p at s0 s1 s2 s3 s4 s5
    obtain ⟨o, y⟩ := p
    simp only at s0 s1 s2 s3 s4 s5
    rcases s5 with ⟨ho, t1, t2⟩ | ⟨ho, t1, t2⟩
    · subst ho
      simp only
      obtain ⟨_, c1, e1⟩ := channelsWrite_spec y
      generalize channelsWrite y = q at c1 e1
      obtain ⟨o2, z⟩ := q
      obtain ⟨a0, a1, a2, a3, a4, a5, a6⟩ := c1
      simp only at a0 a1 a2 a3 a4 a5 a6 e1
      have hthr : y.streamThr = false := by
        rw [t1, w4]; cases x.streamStarted <;> rfl
      cases o2 with
      | none =>
        simp only
        obtain ⟨d0, d1, d2, d3, d4, d5, d6⟩ := commDisconnect_ctl z
        refine ⟨d0.trans (a0.trans s0), Or.inl ⟨by trivial, d4, ?_, ?_, by trivial, ?_, ?_⟩⟩
        · rw [d5, a1, s1, hst]; simp
        · rw [d6, a1, s1, hst]; simp
        · rw [d3, a6, hthr]
        · rw [d2, a5, t2]
      | some e =>
        simp only
        have he : e = .structError := by
          rcases e1 e rfl with ⟨_, h2⟩ | h2
          · rw [s1, hst] at h2; cases h2
          · exact h2
        subst he
        refine ⟨a0.trans s0, Or.inr ⟨by trivial, ?_, ?_, ?_, ?_, ?_⟩⟩
        · rw [a2, a1, s2, s1]; exact w1
        · rw [a3, a1, s3, s1]; exact w2
        · rw [a4, a1, s4, s1]; exact w3
        · rw [a6, a5, hthr, t2]
        · rw [a6, hthr]; intro hh; cases hh
    · subst ho
      simp only
      refine ⟨s0, Or.inr ⟨by trivial, ?_, ?_, ?_, ?_, ?_⟩⟩
      · rw [s2, s1]; exact w1
      · rw [s3, s1]; exact w2
      · rw [s4, s1]; exact w3
      · rw [t1, t2]; exact w4
      · rw [t1, s1]; exact w5
  · next hc =>
    -- not connected: nothing is running (the session is well-formed)
    simp only [Bool.not_eq_true] at hc
    have hst : x.started = false := by rw [← w3]; exact hc
    have hthr : x.streamThr = false := by
      cases ht : x.streamThr with
      | false => rfl
      | true => rw [w5 ht] at hst; cases hst
    refine ⟨rfl, Or.inl ⟨rfl, hst, by rw [w1]; exact hst, by rw [w2]; exact hst, hc, hthr, by rw [← w4]; exact hthr⟩⟩

theorem hlConnect_ctl (x : Sess) (h : WF .high x) :
    (hlConnect x).2.dev = x.dev ∧ WF .high (hlConnect x).2 ∧
    (∀ e, (hlConnect x).1 = .raised e →
      (hlConnect x).2.recvThr = false ∧ (hlConnect x).2.intf = false ∧ (hlConnect x).2.streamThr = false) := by
  obtain ⟨w1, w2, w3, w4, w5⟩ := h
  unfold hlConnect
  split
  · next hc =>
    exact ⟨rfl, ⟨w1, w2, w3, w4, w5⟩, fun e he => by simp at he⟩
  · next hc =>
    simp only [Bool.not_eq_true] at hc
    have hst : x.started = false := by rw [← w3]; exact hc
    have hthr : x.streamThr = false := by
      cases ht : x.streamThr with
      | false => rfl
      | true => rw [w5 ht] at hst; cases hst
    obtain ⟨c0, c1, c2, c3, c4⟩ := commConnect_ctl x
    generalize commConnect x = p at c0 c1 c2 c3 c4
    obtain ⟨o, y⟩ := p
    simp only at c0 c1 c2 c3 c4
    rcases c4 with ⟨hs, _⟩ | ⟨_, ⟨a, b, c, ho⟩, d1, d2, d3⟩ | ⟨_, ⟨e, ho⟩, d1, d2, d3⟩
    · rw [hst] at hs; cases hs
    · subst ho
      simp only
      refine ⟨c0, ⟨by rw [d2, d1], by rw [d3, d1], d1.symm, by rw [c3, c2]; exact w4, ?_⟩, fun e he => by simp at he⟩
      intro _; exact d1
    · subst ho
      simp only
      refine ⟨c0, ⟨by rw [d2, d1], by rw [d3, d1], by rw [c1, d1]; exact hc, by rw [c3, c2]; exact w4, ?_⟩,
        fun e' _ => ⟨d2, d3, by rw [c3]; exact hthr⟩⟩
      rw [c3, hthr]; intro hh; cases hh

theorem commConnect_wf_low (x : Sess) (h : WF .low x) :
    (commConnect x).2.dev = x.dev ∧ WF .low (commConnect x).2 ∧
    (∀ e, (commConnect x).1 = .raised e →
      (commConnect x).2.recvThr = false ∧ (commConnect x).2.intf = false ∧ (commConnect x).2.streamThr = false) := by
  obtain ⟨w1, w2, w3, w4, w5⟩ := h
  obtain ⟨c0, c1, c2, c3, c4⟩ := commConnect_ctl x
  refine ⟨c0, ?_, ?_⟩
  · refine ⟨?_, ?_, by rw [c1]; exact w3, by rw [c3]; exact w4, by rw [c2]; exact w5⟩
    · rcases c4 with ⟨hs, d1, d2, _⟩ | ⟨_, _, d1, d2, d3⟩ | ⟨_, _, d1, d2, d3⟩
      · rw [d2, d1, w1, hs]
      · rw [d2, d1]
      · rw [d2, d1]
    · rcases c4 with ⟨hs, d1, _, d3, _⟩ | ⟨_, _, d1, d2, d3⟩ | ⟨_, _, d1, d2, d3⟩
      · rw [d3, d1, w2, hs]
      · rw [d3, d1]
      · rw [d3, d1]
  · intro e he
    rcases c4 with ⟨_, _, _, _, a, b, c, ho⟩ | ⟨_, ⟨a, b, c, ho⟩, _⟩ | ⟨_, _, d1, d2, d3⟩
    · rw [ho] at he; cases he
    · rw [ho] at he; cases he
    · exact ⟨d2, d3, by rw [c3]; exact w4⟩

/-- every call preserves the invariant and the device -/
theorem step_wf (lvl : Level) (x : Sess) (op : Op) (w : Nat) (h : WF lvl x) :
    WF lvl (step lvl x op w).2 ∧ (step lvl x op w).2.dev = x.dev := by
  cases op with
  | pause =>
    unfold step
    cases lvl <;> exact ⟨h, rfl⟩
  | connect =>
    cases lvl with
    | low => unfold step; exact ⟨(commConnect_wf_low x h).2.1, (commConnect_wf_low x h).1⟩
    | high => unfold step; exact ⟨(hlConnect_ctl x h).2.1, (hlConnect_ctl x h).1⟩
  | disconnect =>
    cases lvl with
    | low =>
      unfold step
      obtain ⟨w1, w2, w3, w4, w5⟩ := h
      obtain ⟨d0, d1, d2, d3, d4, d5, d6⟩ := commDisconnect_ctl x
      refine ⟨⟨?_, ?_, by rw [d1]; exact w3, by rw [d3]; exact w4, by rw [d2]; exact w5⟩, d0⟩
      · simp only; rw [d5, d4, w1]; cases x.started <;> rfl
      · simp only; rw [d6, d4, w2]; cases x.started <;> rfl
    | high =>
      unfold step
      obtain ⟨d0, hh⟩ := hlDisconnect_ctl x w h
      refine ⟨?_, d0⟩
      rcases hh with ⟨_, a1, a2, a3, a4, a5, a6⟩ | ⟨_, hwf⟩
      · simp only
        exact ⟨by rw [a2, a1], by rw [a3, a1], by rw [a4, a1], by rw [a5, a6], by rw [a5]; intro hh; cases hh⟩
      · exact hwf
  | streamStart =>
    cases lvl with
    | low =>
      unfold step
      obtain ⟨w1, w2, w3, w4, w5⟩ := h
      obtain ⟨b1, b2, b3, b4, b5, b6⟩ := ackReq_flags x .start ackTimeoutStart
      refine ⟨⟨?_, ?_, ?_, ?_, ?_⟩, ackReq_dev x .start ackTimeoutStart⟩
      · simp only; rw [b2, b1]; exact w1
      · simp only; rw [b3, b1]; exact w2
      · simp only; rw [b4]; exact w3
      · simp only; rw [b6]; exact w4
      · simp only; rw [b5]; exact w5
    | high =>
      unfold step
      obtain ⟨w1, w2, w3, w4, w5⟩ := h
      obtain ⟨s0, s1, s2, s3, s4, s5⟩ := hlStreamStart_ctl x
      refine ⟨⟨?_, ?_, ?_, ?_, ?_⟩, s0⟩
      · simp only; rw [s2, s1]; exact w1
      · simp only; rw [s3, s1]; exact w2
      · simp only; rw [s4, s1]; exact w3
      · simp only
        rcases s5 with ⟨_, h1, h2, h3⟩ | ⟨_, _, h2, h3⟩ | ⟨_, h2, h3⟩
        · rw [h2, h3, w4, h1]
        · rw [h2, h3]
        · rw [h2, h3]; exact w4
      · simp only
        rcases s5 with ⟨_, h1, h2, h3⟩ | ⟨_, h1, h2, h3⟩ | ⟨_, h2, h3⟩
        · rw [h2, s1]; exact w5
        · rw [s1]; intro _; exact h1
        · rw [h2, s1]; exact w5
  | streamStop =>
    cases lvl with
    | low =>
      unfold step
      obtain ⟨w1, w2, w3, w4, w5⟩ := h
      obtain ⟨b1, b2, b3, b4, b5, b6⟩ := ackReq_flags x (.info .stop) ackTimeoutStop
      refine ⟨⟨?_, ?_, ?_, ?_, ?_⟩, ackReq_dev x (.info .stop) ackTimeoutStop⟩
      · simp only; rw [b2, b1]; exact w1
      · simp only; rw [b3, b1]; exact w2
      · simp only; rw [b4]; exact w3
      · simp only; rw [b6]; exact w4
      · simp only; rw [b5]; exact w5
    | high =>
      unfold step
      obtain ⟨w1, w2, w3, w4, w5⟩ := h
      obtain ⟨s0, s1, s2, s3, s4, s5⟩ := hlStreamStop_ctl x w
      refine ⟨⟨?_, ?_, ?_, ?_, ?_⟩, s0⟩
      · simp only; rw [s2, s1]; exact w1
      · simp only; rw [s3, s1]; exact w2
      · simp only; rw [s4, s1]; exact w3
      · simp only
        rcases s5 with ⟨_, h2, h3⟩ | ⟨_, h2, h3⟩
        · rw [h2, h3, w4]; cases x.streamStarted <;> rfl
        · rw [h2, h3]; exact w4
      · simp only
        rcases s5 with ⟨_, h2, h3⟩ | ⟨_, h2, h3⟩
        · rw [h2, w4]; cases x.streamStarted <;> simp
        · rw [h2, s1]; exact w5

/-- the clock after one call -/
theorem step_time_le (lvl : Level) (x : Sess) (op : Op) (w : Nat) :
    (step lvl x op w).2.st.time ≤ x.st.time + opBound lvl x.dev.chmax op := by
  cases op <;> cases lvl <;> unfold step opBound <;> dsimp only
  · exact commConnect_time_le x
  · unfold hlConnect
    split
    · dsimp only; omega
    · have h := commConnect_time_le x
      generalize commConnect x = p at h
      obtain ⟨o, y⟩ := p
      cases o <;> exact h
  · exact ackReq_time_le x .start ackTimeoutStart
  · exact hlStreamStart_time_le x
  · exact ackReq_time_le x (.info .stop) ackTimeoutStop
  · exact hlStreamStop_time_le x w
  · exact commDisconnect_time x
  · exact hlDisconnect_time_le x w
  · omega
  · omega

/-- the sum of the per-call bounds of a session -/
def sessionBound (lvl : Level) (chmax : Nat) : List (Op × Nat) → Nat
  | [] => 0
  | (op, _) :: rest => opBound lvl chmax op + sessionBound lvl chmax rest

theorem run_time_le (lvl : Level) : ∀ (ops : List (Op × Nat)) (x : Sess), WF lvl x →
    (run lvl x ops).2.st.time ≤ x.st.time + sessionBound lvl x.dev.chmax ops ∧ WF lvl (run lvl x ops).2
  | [], x, h => ⟨by simp [run, sessionBound], h⟩
  | (op, w) :: rest, x, h => by
    have h1 := step_time_le lvl x op w
    obtain ⟨hw, hd⟩ := step_wf lvl x op w h
    obtain ⟨h2, hw2⟩ := run_time_le lvl rest (step lvl x op w).2 hw
    rw [hd] at h2
    have e : (run lvl x ((op, w) :: rest)).2 = (run lvl (step lvl x op w).2 rest).2 := rfl
    rw [e]
    exact ⟨by simp only [sessionBound]; omega, hw2⟩

/-! ### the first connect of a session is the `connect` of the single-connect theorems -/

/-- a script as a test writes it: nothing is marked as swallowed yet -/
def Plain (script : List Resp) (dflt : Resp) : Prop := (∀ r ∈ script, r.unswallow = r) ∧ dflt.unswallow = dflt

theorem map_unswallow_plain : ∀ (script : List Resp), (∀ r ∈ script, r.unswallow = r) → script.map Resp.unswallow = script
  | [], _ => rfl
  | a :: rest, h => by
    rw [List.map_cons, h a (by simp), map_unswallow_plain rest (fun r hr => h r (by simp [hr]))]

theorem startState_fresh (dev : DevDesc) (script : List Resp) (dflt : Resp) (h : Plain script dflt) :
    startState (Sess.fresh dev script dflt).st = start script dflt := by
  obtain ⟨h1, h2⟩ := h
  simp [startState, start, Sess.fresh, St.unpoison, map_unswallow_plain script h1, h2]

/-- the first connect of a session is the `connect` of the single-connect theorems -/
theorem commConnect_fresh (dev : DevDesc) (script : List Resp) (dflt : Resp) (h : Plain script dflt) :
    (commConnect (Sess.fresh dev script dflt)).1 = (connect dev script dflt).outcome ∧
    (commConnect (Sess.fresh dev script dflt)).2.st.time = (connect dev script dflt).time ∧
    (commConnect (Sess.fresh dev script dflt)).2.recvThr = (connect dev script dflt).recvThreadRunning ∧
    (commConnect (Sess.fresh dev script dflt)).2.intf = (connect dev script dflt).intfRunning ∧
    (commConnect (Sess.fresh dev script dflt)).2.log = (connect dev script dflt).sent.map .info := by
  have hs := startState_fresh dev script dflt h
  unfold commConnect connect
  have h0 : (Sess.fresh dev script dflt).started = false := rfl
  rw [h0]
  simp only [Bool.false_eq_true, ↓reduceIte]
  rw [hs]
  have hd : (Sess.fresh dev script dflt).dev = dev := rfl
  rw [hd]
  unfold start
  generalize connectLoop dev _ connectAttempts = p
  obtain ⟨o, s⟩ := p
  cases o <;> simp [Sess.fresh]

/-! ### `struct.error` out of an ACK wait needs an ACK frame of the wrong size -/

/-- the device never answers with a frame of the right kind and the wrong size -/
def NoShort (s : St) : Prop := (∀ r ∈ s.script, r.unswallow ≠ .short) ∧ s.dflt.unswallow ≠ .short

theorem next_noShort (s : St) (h : NoShort s) : s.next.1.unswallow ≠ .short ∧ NoShort s.next.2 := by
  obtain ⟨h1, h2⟩ := h
  unfold St.next
  split
  · exact ⟨h2, by simp_all [NoShort]⟩
  · next r rest hs =>
    exact ⟨h1 r (by simp [hs]), ⟨fun y hy => h1 y (by simp [hs, hy]), h2⟩⟩

theorem ackReq_noShort (x : Sess) (r : Sent) (t : Nat) (h : NoShort x.st) :
    (∀ e, (ackReq x r t).1 ≠ .raise e) ∧ NoShort (ackReq x r t).2.st := by
  unfold ackReq
  dsimp only
  split
  · obtain ⟨h1, h2⟩ := next_noShort x.st h
    generalize x.st.next = p at h1 h2
    obtain ⟨resp, st⟩ := p
    simp only at h1 h2
    obtain ⟨n1, n2⟩ := h2
    cases resp with
    | short => simp [Resp.unswallow] at h1
    | garbage =>
      refine ⟨fun e he => by simp at he, ?_, ?_⟩
      · intro y hy
        simp only [St.poison, List.mem_map] at hy
        obtain ⟨a, ha, rfl⟩ := hy
        simpa [Resp.unswallow] using n1 a ha
      · simpa [St.poison, Resp.unswallow] using n2
    | ok => exact ⟨fun e he => by simp at he, n1, n2⟩
    | silent => exact ⟨fun e he => by simp at he, n1, n2⟩
    | wrong => exact ⟨fun e he => by simp at he, n1, n2⟩
    | nack => exact ⟨fun e he => by simp at he, n1, n2⟩
    | noise => exact ⟨fun e he => by simp at he, n1, n2⟩
    | wrongStream => exact ⟨fun e he => by simp at he, n1, n2⟩
    | badName => exact ⟨fun e he => by simp at he, n1, n2⟩
    | swallowed r' => exact ⟨fun e he => by simp at he, n1, n2⟩
  · exact ⟨fun e he => by simp at he, h⟩

theorem ackStep_noShort (x : Sess) (r : Sent) (t : Nat) (h : NoShort x.st) :
    (ackStep x r t).1 = none ∧ NoShort (ackStep x r t).2.st := by
  obtain ⟨h1, h2⟩ := ackReq_noShort x r t h
  unfold ackStep
  generalize ackReq x r t = p at h1 h2
  obtain ⟨a, y⟩ := p
  cases a with
  | raise e => exact absurd rfl (h1 e)
  | ok => exact ⟨rfl, h2⟩
  | fail => exact ⟨rfl, h2⟩

theorem channelsWrite_noShort (x : Sess) (hs : x.started = true) (h : NoShort x.st) :
    (channelsWrite x).1 = none ∧ NoShort (channelsWrite x).2.st := by
  unfold channelsWrite
  rw [hs]
  simp only [Bool.not_true, Bool.false_eq_true, ↓reduceIte]
  split
  · exact ⟨rfl, h⟩
  · split
    · obtain ⟨a1, a2⟩ := ackStep_noShort x .div ackTimeoutDiv h
      generalize ackStep x .div ackTimeoutDiv = p at a1 a2
      obtain ⟨o, y⟩ := p
      simp only at a1 a2
      subst a1
      exact ackStep_noShort y .enable ackTimeoutEnable a2
    · exact ackStep_noShort x .enable ackTimeoutEnable h

/-- within the fault classes (no ACK frame of the wrong size) `NxscopeHandler.disconnect()` does not raise -/
theorem hlDisconnect_noShort (x : Sess) (w : Nat) (hw : WF .high x) (h : NoShort x.st) :
    (hlDisconnect x w).1 = none := by
  obtain ⟨w1, w2, w3, w4, w5⟩ := hw
  unfold hlDisconnect
  split
  · next hc =>
    have hst : x.started = true := by rw [← w3]; exact hc
    have hstop : (hlStreamStop x w).1 = none ∧ NoShort (hlStreamStop x w).2.st ∧ (hlStreamStop x w).2.started = true := by
      unfold hlStreamStop
      split
      · obtain ⟨a1, a2⟩ := ackStep_noShort x (.info .stop) ackTimeoutStop h
        obtain ⟨_, c1, _⟩ := ackStep_spec x (.info .stop) ackTimeoutStop
        generalize ackStep x (.info .stop) ackTimeoutStop = p at a1 a2 c1
        obtain ⟨o, y⟩ := p
        simp only at a1 a2
        subst a1
        exact ⟨rfl, a2, by simp only; rw [c1.2.1]; exact hst⟩
      · exact ⟨rfl, h, hst⟩
    obtain ⟨b1, b2, b3⟩ := hstop
    generalize hlStreamStop x w = p at b1 b2 b3
    obtain ⟨o, y⟩ := p
    simp only at b1 b2 b3
    subst b1
    simp only
    obtain ⟨c1, _⟩ := channelsWrite_noShort y b3 b2
    generalize channelsWrite y = q at c1
    obtain ⟨o2, z⟩ := q
    simp only at c1
    subst c1
    rfl
  · rfl

end Handshake

/-! ### the receive-thread body against a script starting with an empty read -/
namespace Reasm
open Serial (Hdr Frame)

theorem fill_nil_cons (n fuel : Nat) (b : Bytes) (rs : List Bytes) :
    fill n fuel b ([] :: rs) = (none, b, rs) ∨ fill n fuel b ([] :: rs) = (none, b, [] :: rs) ∨
    fill n fuel b ([] :: rs) = (some b, b, [] :: rs) := by
  cases fuel with
  | zero => simp [fill]
  | succ f =>
    unfold fill
    by_cases h : b.length < n <;> simp [h, readNext]

theorem readHdr_nil_cons (c : Codec) : ∀ (fuel : Nat) (buf : Bytes) (rs : List Bytes),
    (readHdr c fuel buf ([] :: rs)).reads = [] :: rs ∨
    ((readHdr c fuel buf ([] :: rs)).hdr = none ∧ (readHdr c fuel buf ([] :: rs)).reads = rs)
  | 0, buf, rs => by simp [readHdr]
  | fuel + 1, buf, rs => by
    unfold readHdr
    rcases fill_nil_cons c.hdrLen (fuel + 1) buf rs with h | h | h
    · rw [h]; simp
    · rw [h]; simp
    · rw [h]; simp only
      split
      · simp
      · split
        · exact readHdr_nil_cons c fuel _ rs
        · split
          · simp       -- bad header: returns (F20 repair), script untouched
          · simp

theorem fillFrame_nil_cons (n fuel : Nat) (b : Bytes) (rs : List Bytes) :
    (fillFrame n fuel b ([] :: rs)).2 = rs ∨ (fillFrame n fuel b ([] :: rs)).2 = [] :: rs := by
  cases fuel with
  | zero => simp [fillFrame]
  | succ f =>
    unfold fillFrame
    by_cases h : b.length < n <;> simp [h, readNext]

theorem readFrame_nil_cons (c : Codec) (fuel : Nat) (buf : Bytes) (rs : List Bytes) :
    (readFrame c fuel buf ([] :: rs)).2.2 = rs ∨ (readFrame c fuel buf ([] :: rs)).2.2 = [] :: rs := by
  have h := readHdr_nil_cons c fuel buf rs
  unfold readFrame
  split
  · next b rs' hh =>
    rw [hh] at h; simp only at h ⊢
    rcases h with h | ⟨_, h⟩
    · exact Or.inr h
    · exact Or.inl h
  · next hd b x rs' hh =>
    rw [hh] at h; simp only at h ⊢
    rcases h with h | ⟨h, _⟩
    · subst h
      have h2 := fillFrame_nil_cons hd.flen fuel b rs
      generalize fillFrame hd.flen fuel b ([] :: rs) = p at h2
      obtain ⟨b2, rs2⟩ := p
      simp only at h2 ⊢
      split
      · exact h2
      · split <;> exact h2
    · simp at h

theorem readFrame_idle (c : Codec) (fuel : Nat) (buf : Bytes) (h : buf.length < c.hdrLen) :
    readFrame c (fuel + 1) buf [] = (none, buf, []) := by
  simp [readFrame, readHdr, fill, readNext, h]

/-! ### one invocation of the receive-thread body performs a bounded number of reads

Since the bad-header branch of `_read_hdr` returns (F20 repair) no loop of the body can be kept
alive by the link: `fill` stops as soon as `hdr_len` bytes are there, the "candidate not complete"
re-entry of `_read_hdr` happens at most once (afterwards the buffer starts with the start byte), and
the rest-of-frame loop stops at the declared length.  None of this needs a fuel assumption: less
fuel only means fewer reads. -/

/-- the frame length declared by the header `_read_hdr` returned (0 when it returned none) -/
def declaredLen (r : HdrRes) : Nat :=
  match r.hdr with
  | some (h, _) => h.flen
  | none => 0

/-- the accumulation loop: it consumes a prefix of the script of at most `n - |b|` reads, only
    appends to the buffer, and `some` means the buffer is long enough -/
theorem fill_reads (n : Nat) : ∀ (fuel : Nat) (b : Bytes) (rs : List Bytes) (o : Option Bytes)
    (b' : Bytes) (rs' : List Bytes), fill n fuel b rs = (o, b', rs') →
    ∃ k, rs' = rs.drop k ∧ k ≤ n - b.length ∧ (∃ m, b' = b ++ m) ∧
      (∀ x, o = some x → x = b' ∧ n ≤ b'.length) := by
  intro fuel
  induction fuel with
  | zero =>
    intro b rs o b' rs' h
    simp only [fill, Prod.mk.injEq] at h
    obtain ⟨rfl, rfl, rfl⟩ := h
    exact ⟨0, rfl, by omega, ⟨[], by simp⟩, fun x hx => by cases hx⟩
  | succ fuel ih =>
    intro b rs o b' rs' h
    rw [fill] at h
    by_cases hb : b.length < n
    · rw [if_pos hb] at h
      cases rs with
      | nil =>
        simp only [readNext, List.isEmpty_nil, if_true, Prod.mk.injEq] at h
        obtain ⟨rfl, rfl, rfl⟩ := h
        exact ⟨0, rfl, by omega, ⟨[], by simp⟩, fun x hx => by cases hx⟩
      | cons r rs1 =>
        by_cases hr : r.isEmpty = true
        · simp only [readNext, hr, if_true, Prod.mk.injEq] at h
          obtain ⟨rfl, rfl, rfl⟩ := h
          exact ⟨1, rfl, by omega, ⟨[], by simp⟩, fun x hx => by cases hx⟩
        · simp only [readNext, hr] at h
          have hrl : 1 ≤ r.length := by
            cases r with
            | nil => simp at hr
            | cons y t => simp
          obtain ⟨k, h1, h2, ⟨m, h3⟩, h4⟩ := ih (b ++ r) rs1 o b' rs' h
          refine ⟨k + 1, by rw [h1]; simp, ?_, ⟨r ++ m, by rw [h3]; simp⟩, h4⟩
          simp at h2
          omega
    · rw [if_neg hb] at h
      simp only [Prod.mk.injEq] at h
      obtain ⟨rfl, rfl, rfl⟩ := h
      refine ⟨0, rfl, by omega, ⟨[], by simp⟩, fun x hx => ?_⟩
      cases hx
      exact ⟨rfl, by omega⟩

theorem fillFrame_reads (n : Nat) : ∀ (fuel : Nat) (b : Bytes) (rs : List Bytes),
    ∃ k, (fillFrame n fuel b rs).2 = rs.drop k ∧ k ≤ n - b.length := by
  intro fuel
  induction fuel with
  | zero => intro b rs; exact ⟨0, rfl, by omega⟩
  | succ fuel ih =>
    intro b rs
    rw [fillFrame]
    by_cases hb : b.length < n
    · rw [if_pos hb]
      cases rs with
      | nil => exact ⟨0, by simp [readNext], by omega⟩
      | cons r rs1 =>
        by_cases hr : r.isEmpty = true
        · exact ⟨1, by simp [readNext, hr], by omega⟩
        · simp only [readNext, hr, Bool.false_eq_true, ↓reduceIte]
          have hrl : 1 ≤ r.length := by
            cases r with
            | nil => simp at hr
            | cons y t => simp
          obtain ⟨k, h1, h2⟩ := ih (b ++ r) rs1
          refine ⟨k + 1, by rw [h1]; simp, ?_⟩
          simp at h2
          omega
    · rw [if_neg hb]
      exact ⟨0, rfl, by omega⟩

/-- a header returned by `_read_hdr` decodes from the bytes returned with it, and those are at
    least a header long (any codec, any fuel) -/
theorem readHdr_some (c : Codec) : ∀ (fuel : Nat) (buf : Bytes) (rs : List Bytes) (h : Hdr) (bb : Bytes),
    (readHdr c fuel buf rs).hdr = some (h, bb) → c.hdrDecode bb = .ok h ∧ c.hdrLen ≤ bb.length
  | 0, buf, rs, h, bb => by simp [readHdr]
  | fuel + 1, buf, rs, h, bb => by
    unfold readHdr
    split
    · simp
    · split
      · simp
      · dsimp only
        split
        · exact readHdr_some c fuel _ _ h bb
        · next hlen =>
          split
          · simp
          · next h' hdec =>
            intro e
            simp only [Option.some.injEq, Prod.mk.injEq] at e
            obtain ⟨rfl, rfl⟩ := e
            exact ⟨hdec, by omega⟩

section Laws
variable {c : Codec} (hc : LawfulCodec c)
include hc

/-- `_read_hdr` entered with a buffer that starts with the start byte: no re-entry, at most
    `hdr_len - |buf|` reads -/
theorem readHdr_reads_sof (fuel : Nat) (t : Bytes) (rs : List Bytes) :
    ∃ k, (readHdr c fuel (c.sof :: t) rs).reads = rs.drop k ∧ k ≤ c.hdrLen - (c.sof :: t).length := by
  cases fuel with
  | zero => exact ⟨0, rfl, by omega⟩
  | succ fuel =>
    rw [readHdr]
    rcases hfill : fill c.hdrLen (fuel + 1) (c.sof :: t) rs with ⟨fo, fb, frs⟩
    obtain ⟨k, h1, h2, ⟨m, h3⟩, h4⟩ := fill_reads c.hdrLen (fuel + 1) _ rs fo fb frs hfill
    refine ⟨k, ?_, h2⟩
    cases fo with
    | none => exact h1
    | some x =>
      obtain ⟨hx, hlen⟩ := h4 x rfl
      subst hx
      simp only
      have hfind : c.hdrFind x = some 0 := by
        rw [hc.hdrFind_eq, h3, List.cons_append, findByte_cons_self]
      rw [hfind]
      simp only [List.drop_zero]
      rw [if_neg (by omega)]
      cases c.hdrDecode x <;> exact h1

/-- `_read_hdr` in general: at most one re-entry ("candidate not complete"), hence at most
    `(hdr_len - |buf|) + (hdr_len - 1)` reads -/
theorem readHdr_reads (fuel : Nat) (buf : Bytes) (rs : List Bytes) :
    ∃ k, (readHdr c fuel buf rs).reads = rs.drop k ∧ k ≤ (c.hdrLen - buf.length) + (c.hdrLen - 1) := by
  cases fuel with
  | zero => exact ⟨0, rfl, by omega⟩
  | succ fuel =>
    rw [readHdr]
    rcases hfill : fill c.hdrLen (fuel + 1) buf rs with ⟨fo, fb, frs⟩
    obtain ⟨k, h1, h2, _, h4⟩ := fill_reads c.hdrLen (fuel + 1) _ rs fo fb frs hfill
    cases fo with
    | none => exact ⟨k, h1, by omega⟩
    | some x =>
      obtain ⟨hx, hlen⟩ := h4 x rfl
      subst hx
      simp only
      cases hfind : c.hdrFind x with
      | none => exact ⟨k, h1, by omega⟩
      | some i =>
        simp only
        rw [hc.hdrFind_eq] at hfind
        obtain ⟨_, t, ht⟩ := findByte_some hfind
        by_cases hshort : (x.drop i).length < c.hdrLen
        · rw [if_pos hshort, ht]
          obtain ⟨k2, e1, e2⟩ := readHdr_reads_sof hc fuel t frs
          refine ⟨k + k2, ?_, ?_⟩
          · rw [e1, h1, List.drop_drop]
          · simp at e2; omega
        · rw [if_neg hshort]
          cases c.hdrDecode (x.drop i) <;> exact ⟨k, h1, by omega⟩

/-- one invocation of the receive-thread body consumes a prefix of the script whose length is
    bounded by the header length and the declared frame length only -/
theorem readFrame_reads (fuel : Nat) (buf : Bytes) (rs : List Bytes) :
    ∃ k, (readFrame c fuel buf rs).2.2 = rs.drop k ∧
      k ≤ (c.hdrLen - buf.length) + (c.hdrLen - 1) + (declaredLen (readHdr c fuel buf rs) - c.hdrLen) := by
  obtain ⟨k, h1, h2⟩ := readHdr_reads hc fuel buf rs
  have hsome := readHdr_some c fuel buf rs
  unfold readFrame declaredLen
  rcases hr : readHdr c fuel buf rs with ⟨ho, hb, hrs⟩
  rw [hr] at h1 hsome
  simp only at h1 hsome
  rcases ho with _ | ⟨h, bb⟩
  · exact ⟨k, h1, by omega⟩
  · simp only
    obtain ⟨_, hlen⟩ := hsome h bb rfl
    obtain ⟨k2, e1, e2⟩ := fillFrame_reads h.flen fuel bb hrs
    rcases hff : fillFrame h.flen fuel bb hrs with ⟨b2, rs2⟩
    rw [hff] at e1
    simp only at e1 ⊢
    have hres : rs2 = rs.drop (k + k2) := by rw [e1, h1, List.drop_drop]
    refine ⟨k + k2, ?_, by omega⟩
    split
    · exact hres
    · split <;> exact hres

end Laws

/-- the serial header's length field is two bytes -/
theorem serial_flen_lt {d : Bytes} {h : Hdr} (hd : Serial.hdrDecode d = .ok h) : h.flen < 65536 := by
  match d, hd with
  | a :: b :: c :: e :: rest, hd =>
    rw [Serial.hdrDecode_cons] at hd
    have hb := b.isLt
    have hc := c.isLt
    split at hd
    · cases hd
    · split at hd
      · cases hd
      · cases hd; simp only; omega
  | [], hd => rw [Serial.hdrDecode_short _ (by simp)] at hd; cases hd
  | [_], hd => rw [Serial.hdrDecode_short _ (by simp)] at hd; cases hd
  | [_, _], hd => rw [Serial.hdrDecode_short _ (by simp)] at hd; cases hd
  | [_, _, _], hd => rw [Serial.hdrDecode_short _ (by simp)] at hd; cases hd

theorem serial_declaredLen_lt (fuel : Nat) (buf : Bytes) (rs : List Bytes) :
    declaredLen (readHdr Serial.codec fuel buf rs) < 65536 := by
  have hsome := readHdr_some Serial.codec fuel buf rs
  unfold declaredLen
  rcases hr : (readHdr Serial.codec fuel buf rs).hdr with _ | ⟨h, bb⟩
  · simp
  · exact serial_flen_lt (hsome h bb hr).1

end Reasm

/-! ### the receive thread: with the stop flag set it leaves its loop after at most one more body invocation -/
namespace RecvThread
open Worker
set_option linter.unusedSimpArgs false

theorem loop_len : Worker.loopProg.length = 7 := by decide

/-- from ANY instruction of the generated `_thread_loop` (also from one that is not in the program), with the stop
    flag set and staying set, the thread has returned after `loopProg.length` of its own instructions, has invoked the
    body at most once more, and that invocation consumed a prefix of the link script bounded as in `readFrame_reads` -/
theorem run_stop_from (c : Codec) (hc : LawfulCodec c) (fuel : Nat) (pc : Nat) (buf : Bytes) (rs : List Bytes) :
    (run c fuel true Worker.loopProg.length (at_ pc buf rs)).exited = true ∧
    (run c fuel true Worker.loopProg.length (at_ pc buf rs)).calls ≤ 1 ∧
    ∃ k, (run c fuel true Worker.loopProg.length (at_ pc buf rs)).rs = rs.drop k ∧
      k ≤ (c.hdrLen - buf.length) + (c.hdrLen - 1) +
        (Reasm.declaredLen (Reasm.readHdr c fuel buf rs) - c.hdrLen) := by
  rw [loop_len]
  obtain ⟨k, hk1, hk2⟩ := Reasm.readFrame_reads hc fuel buf rs
  match pc with
  | 0 | 1 | 2 | 4 | 5 | 6 =>
    refine ⟨?_, ?_, 0, ?_, by omega⟩ <;>
      simp [run, step, at_, Worker.loopProg, Gen.Thread.threadLoop, Worker.execW, cfg, shared, Worker.fresh]
  | 3 =>
    refine ⟨?_, ?_, k, ?_, hk2⟩ <;>
      simp [run, step, at_, Worker.loopProg, Gen.Thread.threadLoop, Worker.execW, cfg, shared, Worker.fresh, hk1]
  | n + 7 =>
    refine ⟨?_, ?_, 0, ?_, by omega⟩ <;>
      simp [run, step, at_, Worker.loopProg, Gen.Thread.threadLoop, Worker.execW, cfg, shared, Worker.fresh]

/-- while the flag is clear the thread keeps going: from the loop test it invokes the body and is back at the test
    (so the bound above is about the LAST invocation, not about a thread that had stopped working anyway) -/
theorem run_clear_from_test (c : Codec) (fuel : Nat) (buf : Bytes) (rs : List Bytes) :
    (run c fuel false 2 (at_ 2 buf rs)).exited = false ∧ (run c fuel false 2 (at_ 2 buf rs)).calls = 1 ∧
    (run c fuel false 2 (at_ 2 buf rs)).w.pc = 2 ∧
    (run c fuel false 2 (at_ 2 buf rs)).rs = (Reasm.readFrame c fuel buf rs).2.2 := by
  simp [run, step, at_, Worker.loopProg, Gen.Thread.threadLoop, Worker.execW, cfg, shared, Worker.fresh]

end RecvThread
end Nxs
