/-
  Helper lemmas for C10 (connect / disconnect always terminate):
  * cost lemmas for the handshake model, bottom-up (`request`, `chinfoLoop`, `chinfoAll`,
    `devinfoGet`, `connectLoop`), each `(f s …).2.time ≤ s.time + …`;
  * which exceptions can come out (`struct.error` only, besides the final `TimeoutError`);
  * the silent-link computations;
  * the receive-thread body against a script that starts with an empty read;
  * the receive-thread body makes a bounded number of reads per invocation, whatever the script
    (`fill_reads`, `readHdr_reads`, `readFrame_reads`, `serial_declaredLen_lt`).
-/
import NxsModel.Handshake
import NxsModel.Reasm
import NxsModel.Lemmas.Reasm
import NxsModel.Lemmas.SerialLawful
namespace Nxs
namespace Handshake
open Gen.Comm

/-- cost of one `_drop_all_frames` on empty queues -/
def drain : Nat := drainPolls * drainPollTime + drainStreamPolls * drainStreamPollTime

theorem drain_eq : drain = 8 := by decide

theorem dropAll_time (s : St) : (dropAll s).time = s.time + drain := by
  simp [dropAll, drain, Nat.add_assoc]

/-! ### what one request does, per response -/

set_option linter.unusedSimpArgs false

/-- what an info request / a retry loop can produce: the only exception is `struct.error` -/
def GotOk (g : Got) : Prop := g = .answer ∨ g = .nothing ∨ g = .raise .structError

theorem request_time_le (s : St) (r : Req) (t : Nat) : (request s r t).2.time ≤ s.time + t := by
  unfold request St.next
  cases h : s.script with
  | nil => cases hd : s.dflt <;> simp [h, hd]
  | cons x xs => cases x <;> simp [h]

theorem request_got (s : St) (r : Req) (t : Nat) : GotOk (request s r t).1 := by
  unfold request St.next GotOk
  cases h : s.script with
  | nil => cases hd : s.dflt <;> simp [h, hd]
  | cons x xs => cases x <;> simp [h]

/-! ### time bounds -/

theorem chinfoLoop_time_le (i : Nat) : ∀ (k : Nat) (s : St),
    (chinfoLoop s i k).2.time ≤ s.time + k * chinfoTimeout
  | 0, s => by simp [chinfoLoop]
  | k + 1, s => by
    have h1 := request_time_le s (.chinfo i) chinfoTimeout
    unfold chinfoLoop
    split
    · next s' h => rw [h] at h1; simp only at h1 ⊢; rw [Nat.succ_mul]; omega
    · next e s' h => rw [h] at h1; simp only at h1 ⊢; rw [Nat.succ_mul]; omega
    · next s' h =>
      rw [h] at h1
      have h2 := chinfoLoop_time_le i k s'
      simp only at h1 ⊢; rw [Nat.succ_mul]; omega

theorem chinfoLoop_got (i : Nat) : ∀ (k : Nat) (s : St), GotOk (chinfoLoop s i k).1
  | 0, s => by simp [chinfoLoop, GotOk]
  | k + 1, s => by
    have h1 := request_got s (.chinfo i) chinfoTimeout
    unfold chinfoLoop
    split
    · simp [GotOk]
    · next e s' h => rw [h] at h1; exact h1
    · exact chinfoLoop_got i k _

theorem chinfoAll_time_le : ∀ (n i : Nat) (s : St),
    (chinfoAll s i n).2.time ≤ s.time + n * (chinfoAttempts * chinfoTimeout)
  | 0, i, s => by simp [chinfoAll]
  | n + 1, i, s => by
    have h1 := chinfoLoop_time_le i chinfoAttempts s
    unfold chinfoAll
    split
    · next s' h =>
      rw [h] at h1
      have h2 := chinfoAll_time_le n (i + 1) s'
      simp only at h1; rw [Nat.succ_mul]; omega
    · next other hne =>
      rw [Nat.succ_mul]; omega

theorem chinfoAll_got : ∀ (n i : Nat) (s : St), GotOk (chinfoAll s i n).1
  | 0, i, s => by simp [chinfoAll, GotOk]
  | n + 1, i, s => by
    unfold chinfoAll
    split
    · exact chinfoAll_got n (i + 1) _
    · exact chinfoLoop_got i _ s

/-- cost bound of one `_devinfo_get` -/
def attemptCost (chmax : Nat) : Nat :=
  cmninfoTimeout + drain + chmax * (chinfoAttempts * chinfoTimeout)

theorem devinfoGet_time_le (dev : DevDesc) (s : St) :
    (devinfoGet dev s).2.time ≤ s.time + attemptCost dev.chmax := by
  have h1 := request_time_le s .cmninfo cmninfoTimeout
  unfold devinfoGet attemptCost
  split
  · next s1 h =>
    rw [h] at h1
    simp only at h1
    refine Nat.le_trans (chinfoAll_time_le _ _ _) ?_
    rw [dropAll_time]
    split
    · simp only; omega
    · omega
  · omega

theorem devinfoGet_got (dev : DevDesc) (s : St) : GotOk (devinfoGet dev s).1 := by
  unfold devinfoGet
  split
  · exact chinfoAll_got _ _ _
  · exact request_got _ _ _

theorem connectLoop_time_le (dev : DevDesc) : ∀ (k : Nat) (s : St),
    (connectLoop dev s k).2.time ≤ s.time + k * attemptCost dev.chmax
  | 0, s => by simp [connectLoop]
  | k + 1, s => by
    have h1 := devinfoGet_time_le dev s
    unfold connectLoop
    split
    · next s' h => rw [h] at h1; simp only at h1 ⊢; rw [Nat.succ_mul]; omega
    · next e s' h => rw [h] at h1; simp only at h1 ⊢; rw [Nat.succ_mul]; omega
    · next s' h =>
      rw [h] at h1
      have h2 := connectLoop_time_le dev k s'
      simp only at h1 ⊢; rw [Nat.succ_mul]; omega

/-- the outcomes of the connect loop -/
def OutcomeOk (dev : DevDesc) (o : Outcome) : Prop :=
  o = .connected dev.chmax dev.flags dev.rxpadding ∨ o = .raised .timeout ∨ o = .raised .structError

theorem connectLoop_outcome (dev : DevDesc) : ∀ (k : Nat) (s : St), OutcomeOk dev (connectLoop dev s k).1
  | 0, s => by simp [connectLoop, OutcomeOk]
  | k + 1, s => by
    have h1 := devinfoGet_got dev s
    unfold connectLoop
    split
    · simp [OutcomeOk]
    · next e s' h =>
      rw [h] at h1
      simp [GotOk] at h1
      simp [OutcomeOk, h1]
    · exact connectLoop_outcome dev k _

/-! ### `connect` in terms of the loop -/

/-- the state the connect loop starts from -/
def start (script : List Resp) (dflt : Resp) : St :=
  dropAll { script := script, dflt := dflt, sent := [.stop] }

theorem start_time (script : List Resp) (dflt : Resp) : (start script dflt).time = drain := by
  simp [start, dropAll_time]

theorem connect_time (dev : DevDesc) (script : List Resp) (dflt : Resp) :
    (connect dev script dflt).time = (connectLoop dev (start script dflt) connectAttempts).2.time := by
  unfold connect start
  dsimp only
  generalize connectLoop dev _ connectAttempts = p
  obtain ⟨o, s⟩ := p
  cases o <;> rfl

theorem connect_outcome (dev : DevDesc) (script : List Resp) (dflt : Resp) :
    (connect dev script dflt).outcome = (connectLoop dev (start script dflt) connectAttempts).1 := by
  unfold connect start
  dsimp only
  generalize connectLoop dev _ connectAttempts = p
  obtain ⟨o, s⟩ := p
  cases o <;> rfl

theorem bound_eq_cost (chmax : Nat) : bound chmax = drain + connectAttempts * attemptCost chmax := by
  simp [bound, attemptCost, drain, Nat.mul_assoc]

theorem connect_time_le (dev : DevDesc) (script : List Resp) (dflt : Resp) :
    (connect dev script dflt).time ≤ bound dev.chmax := by
  rw [connect_time, bound_eq_cost]
  have := connectLoop_time_le dev connectAttempts (start script dflt)
  rw [start_time] at this
  exact this

theorem bound_num (chmax : Nat) : bound chmax = 8 + 6 * (18 + chmax * 60) := by
  simp [bound, connectAttempts, cmninfoTimeout, chinfoAttempts, chinfoTimeout, drainPolls,
    drainPollTime, drainStreamPolls, drainStreamPollTime]
  omega

theorem connect_raised_flags (dev : DevDesc) (script : List Resp) (dflt : Resp) (e : Err)
    (h : (connect dev script dflt).outcome = .raised e) :
    (connect dev script dflt).recvThreadRunning = false ∧ (connect dev script dflt).intfRunning = false := by
  unfold connect at h ⊢
  dsimp only at h ⊢
  generalize connectLoop dev _ connectAttempts = p at h ⊢
  obtain ⟨o, s⟩ := p
  cases o <;> simp [startCleansUp] at h ⊢

theorem disconnect_time_le (r : Result) : (disconnectAfter r).time ≤ r.time + 8 := by
  unfold disconnectAfter
  split <;> simp [drainPolls, drainPollTime, drainStreamPolls, drainStreamPollTime, Nat.add_assoc]

theorem disconnect_flags (r : Result)
    (h : ∀ e, r.outcome = .raised e → r.recvThreadRunning = false ∧ r.intfRunning = false) :
    (disconnectAfter r).recvThreadRunning = false ∧ (disconnectAfter r).intfRunning = false := by
  unfold disconnectAfter
  split
  · simp
  · next e he => exact h e he

/-! ### the silent link -/

/-- an exhausted script with a silent default -/
def Silent (s : St) : Prop := s.script = [] ∧ s.dflt = .silent

theorem request_silent (s : St) (r : Req) (t : Nat) (h : Silent s) :
    (request s r t).1 = .nothing ∧ (request s r t).2.time = s.time + t ∧ Silent (request s r t).2 := by
  obtain ⟨h1, h2⟩ := h
  simp [request, St.next, h1, h2, Silent]

theorem connectLoop_silent (dev : DevDesc) : ∀ (k : Nat) (s : St), Silent s →
    (connectLoop dev s k).1 = .raised .timeout ∧
    (connectLoop dev s k).2.time = s.time + k * cmninfoTimeout
  | 0, s, _ => by simp [connectLoop]
  | k + 1, s, h => by
    obtain ⟨r1, r2, r3⟩ := request_silent s .cmninfo cmninfoTimeout h
    have hd : devinfoGet dev s = request s .cmninfo cmninfoTimeout := by
      unfold devinfoGet
      split
      · next s1 hh => rw [hh] at r1; simp at r1
      · rfl
    unfold connectLoop
    split
    · next s' hh => rw [hd] at hh; rw [hh] at r1; simp at r1
    · next e s' hh => rw [hd] at hh; rw [hh] at r1; simp at r1
    · next s' hh =>
      rw [hd] at hh; rw [hh] at r2 r3
      obtain ⟨a, b⟩ := connectLoop_silent dev k s' r3
      simp only at r2
      refine ⟨a, ?_⟩
      rw [b, r2, Nat.succ_mul]; omega

theorem chinfoLoop_silent (i : Nat) : ∀ (k : Nat) (s : St), Silent s →
    (chinfoLoop s i k).1 = .nothing ∧ Silent (chinfoLoop s i k).2
  | 0, s, h => by simp [chinfoLoop, h]
  | k + 1, s, h => by
    obtain ⟨r1, _, r3⟩ := request_silent s (.chinfo i) chinfoTimeout h
    unfold chinfoLoop
    split
    · next s' hh => rw [hh] at r1; simp at r1
    · next e s' hh => rw [hh] at r1; simp at r1
    · next s' hh => rw [hh] at r3; exact chinfoLoop_silent i k s' r3

theorem silent_connect (dev : DevDesc) :
    (connect dev [] .silent).outcome = .raised .timeout ∧ (connect dev [] .silent).time = 68 := by
  have hs : Silent (start [] .silent) := by simp [Silent, start, dropAll]
  obtain ⟨a, b⟩ := connectLoop_silent dev connectAttempts _ hs
  rw [connect_outcome, connect_time, a, b, start_time]
  exact ⟨rfl, by decide⟩

/-- after an answered common-info request `_devinfo_get` is the channel loop, run on a state with
    the same link script -/
theorem devinfoGet_of_answer (dev : DevDesc) (s s1 : St)
    (h : request s .cmninfo cmninfoTimeout = (.answer, s1)) :
    ∃ s2, s2.script = s1.script ∧ s2.dflt = s1.dflt ∧ devinfoGet dev s = chinfoAll s2 0 dev.chmax := by
  unfold devinfoGet
  rw [h]
  refine ⟨_, ?_, ?_, rfl⟩ <;> (simp only [dropAll]; split <;> rfl)

/-- one `_devinfo_get` against `[.ok]` then silence, with at least one channel: nothing, and the
    link is silent from then on -/
theorem devinfoGet_ok_then_silent (dev : DevDesc) (h : 1 ≤ dev.chmax) (s : St)
    (h1 : s.script = [.ok]) (h2 : s.dflt = .silent) :
    (devinfoGet dev s).1 = .nothing ∧ Silent (devinfoGet dev s).2 := by
  obtain ⟨n, hn⟩ : ∃ n, dev.chmax = n + 1 := ⟨dev.chmax - 1, by omega⟩
  obtain ⟨s2, a, b, e⟩ := devinfoGet_of_answer dev s
    { s with sent := s.sent ++ [.cmninfo], script := [] } (by simp [request, St.next, h1])
  have hs : Silent s2 := ⟨a, b.trans h2⟩
  obtain ⟨c, d⟩ := chinfoLoop_silent 0 chinfoAttempts s2 hs
  rw [e, hn]
  unfold chinfoAll
  split
  · next s' hh => rw [hh] at c; simp at c
  · exact ⟨c, d⟩

theorem silent_after_cmninfo_connect (dev : DevDesc) (h : 1 ≤ dev.chmax) :
    (connect dev [.ok] .silent).outcome = .raised .timeout := by
  rw [connect_outcome]
  have hc : connectAttempts = 5 + 1 := by decide
  rw [hc]
  obtain ⟨a, b⟩ := devinfoGet_ok_then_silent dev h (start [.ok] .silent)
    (by simp [start, dropAll]) (by simp [start, dropAll])
  unfold connectLoop
  split
  · next s' hh => rw [hh] at a; simp at a
  · next e s' hh => rw [hh] at a; simp at a
  · next s' hh => rw [hh] at b; exact (connectLoop_silent dev 5 s' b).1

end Handshake

/-! ### the receive-thread body against a script starting with an empty read -/
namespace Reasm
open Serial (Hdr Frame)

theorem fill_nil_cons (n fuel : Nat) (b : Bytes) (rs : List Bytes) :
    fill n fuel b ([] :: rs) = (none, b, rs) ∨ fill n fuel b ([] :: rs) = (none, b, [] :: rs) ∨
    fill n fuel b ([] :: rs) = (some b, b, [] :: rs) := by
  cases fuel with
  | zero => simp [fill]
  | succ f =>
    unfold fill
    by_cases h : b.length < n <;> simp [h, readNext]

theorem readHdr_nil_cons (c : Codec) : ∀ (fuel : Nat) (buf : Bytes) (rs : List Bytes),
    (readHdr c fuel buf ([] :: rs)).reads = [] :: rs ∨
    ((readHdr c fuel buf ([] :: rs)).hdr = none ∧ (readHdr c fuel buf ([] :: rs)).reads = rs)
  | 0, buf, rs => by simp [readHdr]
  | fuel + 1, buf, rs => by
    unfold readHdr
    rcases fill_nil_cons c.hdrLen (fuel + 1) buf rs with h | h | h
    · rw [h]; simp
    · rw [h]; simp
    · rw [h]; simp only
      split
      · simp
      · split
        · exact readHdr_nil_cons c fuel _ rs
        · split
          · simp       -- bad header: returns (F20 repair), script untouched
          · simp

theorem fillFrame_nil_cons (n fuel : Nat) (b : Bytes) (rs : List Bytes) :
    (fillFrame n fuel b ([] :: rs)).2 = rs ∨ (fillFrame n fuel b ([] :: rs)).2 = [] :: rs := by
  cases fuel with
  | zero => simp [fillFrame]
  | succ f =>
    unfold fillFrame
    by_cases h : b.length < n <;> simp [h, readNext]

theorem readFrame_nil_cons (c : Codec) (fuel : Nat) (buf : Bytes) (rs : List Bytes) :
    (readFrame c fuel buf ([] :: rs)).2.2 = rs ∨ (readFrame c fuel buf ([] :: rs)).2.2 = [] :: rs := by
  have h := readHdr_nil_cons c fuel buf rs
  unfold readFrame
  split
  · next b rs' hh =>
    rw [hh] at h; simp only at h ⊢
    rcases h with h | ⟨_, h⟩
    · exact Or.inr h
    · exact Or.inl h
  · next hd b x rs' hh =>
    rw [hh] at h; simp only at h ⊢
    rcases h with h | ⟨h, _⟩
    · subst h
      have h2 := fillFrame_nil_cons hd.flen fuel b rs
      generalize fillFrame hd.flen fuel b ([] :: rs) = p at h2
      obtain ⟨b2, rs2⟩ := p
      simp only at h2 ⊢
      split
      · exact h2
      · split <;> exact h2
    · simp at h

theorem readFrame_idle (c : Codec) (fuel : Nat) (buf : Bytes) (h : buf.length < c.hdrLen) :
    readFrame c (fuel + 1) buf [] = (none, buf, []) := by
  simp [readFrame, readHdr, fill, readNext, h]

/-! ### one invocation of the receive-thread body performs a bounded number of reads

Since the bad-header branch of `_read_hdr` returns (F20 repair) no loop of the body can be kept
alive by the link: `fill` stops as soon as `hdr_len` bytes are there, the "candidate not complete"
re-entry of `_read_hdr` happens at most once (afterwards the buffer starts with the start byte), and
the rest-of-frame loop stops at the declared length.  None of this needs a fuel assumption: less
fuel only means fewer reads. -/

/-- the frame length declared by the header `_read_hdr` returned (0 when it returned none) -/
def declaredLen (r : HdrRes) : Nat :=
  match r.hdr with
  | some (h, _) => h.flen
  | none => 0

/-- the accumulation loop: it consumes a prefix of the script of at most `n - |b|` reads, only
    appends to the buffer, and `some` means the buffer is long enough -/
theorem fill_reads (n : Nat) : ∀ (fuel : Nat) (b : Bytes) (rs : List Bytes) (o : Option Bytes)
    (b' : Bytes) (rs' : List Bytes), fill n fuel b rs = (o, b', rs') →
    ∃ k, rs' = rs.drop k ∧ k ≤ n - b.length ∧ (∃ m, b' = b ++ m) ∧
      (∀ x, o = some x → x = b' ∧ n ≤ b'.length) := by
  intro fuel
  induction fuel with
  | zero =>
    intro b rs o b' rs' h
    simp only [fill, Prod.mk.injEq] at h
    obtain ⟨rfl, rfl, rfl⟩ := h
    exact ⟨0, rfl, by omega, ⟨[], by simp⟩, fun x hx => by cases hx⟩
  | succ fuel ih =>
    intro b rs o b' rs' h
    rw [fill] at h
    by_cases hb : b.length < n
    · rw [if_pos hb] at h
      cases rs with
      | nil =>
        simp only [readNext, List.isEmpty_nil, if_true, Prod.mk.injEq] at h
        obtain ⟨rfl, rfl, rfl⟩ := h
        exact ⟨0, rfl, by omega, ⟨[], by simp⟩, fun x hx => by cases hx⟩
      | cons r rs1 =>
        by_cases hr : r.isEmpty = true
        · simp only [readNext, hr, if_true, Prod.mk.injEq] at h
          obtain ⟨rfl, rfl, rfl⟩ := h
          exact ⟨1, rfl, by omega, ⟨[], by simp⟩, fun x hx => by cases hx⟩
        · simp only [readNext, hr] at h
          have hrl : 1 ≤ r.length := by
            cases r with
            | nil => simp at hr
            | cons y t => simp
          obtain ⟨k, h1, h2, ⟨m, h3⟩, h4⟩ := ih (b ++ r) rs1 o b' rs' h
          refine ⟨k + 1, by rw [h1]; simp, ?_, ⟨r ++ m, by rw [h3]; simp⟩, h4⟩
          simp at h2
          omega
    · rw [if_neg hb] at h
      simp only [Prod.mk.injEq] at h
      obtain ⟨rfl, rfl, rfl⟩ := h
      refine ⟨0, rfl, by omega, ⟨[], by simp⟩, fun x hx => ?_⟩
      cases hx
      exact ⟨rfl, by omega⟩

theorem fillFrame_reads (n : Nat) : ∀ (fuel : Nat) (b : Bytes) (rs : List Bytes),
    ∃ k, (fillFrame n fuel b rs).2 = rs.drop k ∧ k ≤ n - b.length := by
  intro fuel
  induction fuel with
  | zero => intro b rs; exact ⟨0, rfl, by omega⟩
  | succ fuel ih =>
    intro b rs
    rw [fillFrame]
    by_cases hb : b.length < n
    · rw [if_pos hb]
      cases rs with
      | nil => exact ⟨0, by simp [readNext], by omega⟩
      | cons r rs1 =>
        by_cases hr : r.isEmpty = true
        · exact ⟨1, by simp [readNext, hr], by omega⟩
        · simp only [readNext, hr, Bool.false_eq_true, ↓reduceIte]
          have hrl : 1 ≤ r.length := by
            cases r with
            | nil => simp at hr
            | cons y t => simp
          obtain ⟨k, h1, h2⟩ := ih (b ++ r) rs1
          refine ⟨k + 1, by rw [h1]; simp, ?_⟩
          simp at h2
          omega
    · rw [if_neg hb]
      exact ⟨0, rfl, by omega⟩

/-- a header returned by `_read_hdr` decodes from the bytes returned with it, and those are at
    least a header long (any codec, any fuel) -/
theorem readHdr_some (c : Codec) : ∀ (fuel : Nat) (buf : Bytes) (rs : List Bytes) (h : Hdr) (bb : Bytes),
    (readHdr c fuel buf rs).hdr = some (h, bb) → c.hdrDecode bb = .ok h ∧ c.hdrLen ≤ bb.length
  | 0, buf, rs, h, bb => by simp [readHdr]
  | fuel + 1, buf, rs, h, bb => by
    unfold readHdr
    split
    · simp
    · split
      · simp
      · dsimp only
        split
        · exact readHdr_some c fuel _ _ h bb
        · next hlen =>
          split
          · simp
          · next h' hdec =>
            intro e
            simp only [Option.some.injEq, Prod.mk.injEq] at e
            obtain ⟨rfl, rfl⟩ := e
            exact ⟨hdec, by omega⟩

section Laws
variable {c : Codec} (hc : LawfulCodec c)
include hc

/-- `_read_hdr` entered with a buffer that starts with the start byte: no re-entry, at most
    `hdr_len - |buf|` reads -/
theorem readHdr_reads_sof (fuel : Nat) (t : Bytes) (rs : List Bytes) :
    ∃ k, (readHdr c fuel (c.sof :: t) rs).reads = rs.drop k ∧ k ≤ c.hdrLen - (c.sof :: t).length := by
  cases fuel with
  | zero => exact ⟨0, rfl, by omega⟩
  | succ fuel =>
    rw [readHdr]
    rcases hfill : fill c.hdrLen (fuel + 1) (c.sof :: t) rs with ⟨fo, fb, frs⟩
    obtain ⟨k, h1, h2, ⟨m, h3⟩, h4⟩ := fill_reads c.hdrLen (fuel + 1) _ rs fo fb frs hfill
    refine ⟨k, ?_, h2⟩
    cases fo with
    | none => exact h1
    | some x =>
      obtain ⟨hx, hlen⟩ := h4 x rfl
      subst hx
      simp only
      have hfind : c.hdrFind x = some 0 := by
        rw [hc.hdrFind_eq, h3, List.cons_append, findByte_cons_self]
      rw [hfind]
      simp only [List.drop_zero]
      rw [if_neg (by omega)]
      cases c.hdrDecode x <;> exact h1

/-- `_read_hdr` in general: at most one re-entry ("candidate not complete"), hence at most
    `(hdr_len - |buf|) + (hdr_len - 1)` reads -/
theorem readHdr_reads (fuel : Nat) (buf : Bytes) (rs : List Bytes) :
    ∃ k, (readHdr c fuel buf rs).reads = rs.drop k ∧ k ≤ (c.hdrLen - buf.length) + (c.hdrLen - 1) := by
  cases fuel with
  | zero => exact ⟨0, rfl, by omega⟩
  | succ fuel =>
    rw [readHdr]
    rcases hfill : fill c.hdrLen (fuel + 1) buf rs with ⟨fo, fb, frs⟩
    obtain ⟨k, h1, h2, _, h4⟩ := fill_reads c.hdrLen (fuel + 1) _ rs fo fb frs hfill
    cases fo with
    | none => exact ⟨k, h1, by omega⟩
    | some x =>
      obtain ⟨hx, hlen⟩ := h4 x rfl
      subst hx
      simp only
      cases hfind : c.hdrFind x with
      | none => exact ⟨k, h1, by omega⟩
      | some i =>
        simp only
        rw [hc.hdrFind_eq] at hfind
        obtain ⟨_, t, ht⟩ := findByte_some hfind
        by_cases hshort : (x.drop i).length < c.hdrLen
        · rw [if_pos hshort, ht]
          obtain ⟨k2, e1, e2⟩ := readHdr_reads_sof hc fuel t frs
          refine ⟨k + k2, ?_, ?_⟩
          · rw [e1, h1, List.drop_drop]
          · simp at e2; omega
        · rw [if_neg hshort]
          cases c.hdrDecode (x.drop i) <;> exact ⟨k, h1, by omega⟩

/-- one invocation of the receive-thread body consumes a prefix of the script whose length is
    bounded by the header length and the declared frame length only -/
theorem readFrame_reads (fuel : Nat) (buf : Bytes) (rs : List Bytes) :
    ∃ k, (readFrame c fuel buf rs).2.2 = rs.drop k ∧
      k ≤ (c.hdrLen - buf.length) + (c.hdrLen - 1) + (declaredLen (readHdr c fuel buf rs) - c.hdrLen) := by
  obtain ⟨k, h1, h2⟩ := readHdr_reads hc fuel buf rs
  have hsome := readHdr_some c fuel buf rs
  unfold readFrame declaredLen
  rcases hr : readHdr c fuel buf rs with ⟨ho, hb, hrs⟩
  rw [hr] at h1 hsome
  simp only at h1 hsome
  rcases ho with _ | ⟨h, bb⟩
  · exact ⟨k, h1, by omega⟩
  · simp only
    obtain ⟨_, hlen⟩ := hsome h bb rfl
    obtain ⟨k2, e1, e2⟩ := fillFrame_reads h.flen fuel bb hrs
    rcases hff : fillFrame h.flen fuel bb hrs with ⟨b2, rs2⟩
    rw [hff] at e1
    simp only at e1 ⊢
    have hres : rs2 = rs.drop (k + k2) := by rw [e1, h1, List.drop_drop]
    refine ⟨k + k2, ?_, by omega⟩
    split
    · exact hres
    · split <;> exact hres

end Laws

/-- the serial header's length field is two bytes -/
theorem serial_flen_lt {d : Bytes} {h : Hdr} (hd : Serial.hdrDecode d = .ok h) : h.flen < 65536 := by
  match d, hd with
  | a :: b :: c :: e :: rest, hd =>
    rw [Serial.hdrDecode_cons] at hd
    have hb := b.isLt
    have hc := c.isLt
    split at hd
    · cases hd
    · split at hd
      · cases hd
      · cases hd; simp only; omega
  | [], hd => rw [Serial.hdrDecode_short _ (by simp)] at hd; cases hd
  | [_], hd => rw [Serial.hdrDecode_short _ (by simp)] at hd; cases hd
  | [_, _], hd => rw [Serial.hdrDecode_short _ (by simp)] at hd; cases hd
  | [_, _, _], hd => rw [Serial.hdrDecode_short _ (by simp)] at hd; cases hd

theorem serial_declaredLen_lt (fuel : Nat) (buf : Bytes) (rs : List Bytes) :
    declaredLen (readHdr Serial.codec fuel buf rs) < 65536 := by
  have hsome := readHdr_some Serial.codec fuel buf rs
  unfold declaredLen
  rcases hr : (readHdr Serial.codec fuel buf rs).hdr with _ | ⟨h, bb⟩
  · simp
  · exact serial_flen_lt (hsome h bb hr).1

end Reasm
end Nxs
