/-
  Helper lemmas for C10 (connect / disconnect always terminate):
  * cost lemmas for the handshake model, bottom-up (`request`, `chinfoLoop`, `chinfoAll`,
    `devinfoGet`, `connectLoop`), each `(f s …).2.time ≤ s.time + …`;
  * which exceptions can come out (`struct.error` only, besides the final `TimeoutError`);
  * the silent-link computations;
  * the receive-thread body against a script that starts with an empty read.
-/
import NxsModel.Handshake
import NxsModel.Reasm
namespace Nxs
namespace Handshake
open Gen.Comm

/-- cost of one `_drop_all_frames` on empty queues -/
def drain : Nat := drainPolls * drainPollTime + drainStreamPolls * drainStreamPollTime

theorem drain_eq : drain = 8 := by decide

theorem dropAll_time (s : St) : (dropAll s).time = s.time + drain := by
  simp [dropAll, drain, Nat.add_assoc]

/-! ### what one request does, per response -/

set_option linter.unusedSimpArgs false

/-- what an info request / a retry loop can produce: the only exception is `struct.error` -/
def GotOk (g : Got) : Prop := g = .answer ∨ g = .nothing ∨ g = .raise .structError

theorem request_time_le (s : St) (r : Req) (t : Nat) : (request s r t).2.time ≤ s.time + t := by
  unfold request St.next
  cases h : s.script with
  | nil => cases hd : s.dflt <;> simp [h, hd]
  | cons x xs => cases x <;> simp [h]

theorem request_got (s : St) (r : Req) (t : Nat) : GotOk (request s r t).1 := by
  unfold request St.next GotOk
  cases h : s.script with
  | nil => cases hd : s.dflt <;> simp [h, hd]
  | cons x xs => cases x <;> simp [h]

/-! ### time bounds -/

theorem chinfoLoop_time_le (i : Nat) : ∀ (k : Nat) (s : St),
    (chinfoLoop s i k).2.time ≤ s.time + k * chinfoTimeout
  | 0, s => by simp [chinfoLoop]
  | k + 1, s => by
    have h1 := request_time_le s (.chinfo i) chinfoTimeout
    unfold chinfoLoop
    split
    · next s' h => rw [h] at h1; simp only at h1 ⊢; rw [Nat.succ_mul]; omega
    · next e s' h => rw [h] at h1; simp only at h1 ⊢; rw [Nat.succ_mul]; omega
    · next s' h =>
      rw [h] at h1
      have h2 := chinfoLoop_time_le i k s'
      simp only at h1 ⊢; rw [Nat.succ_mul]; omega

theorem chinfoLoop_got (i : Nat) : ∀ (k : Nat) (s : St), GotOk (chinfoLoop s i k).1
  | 0, s => by simp [chinfoLoop, GotOk]
  | k + 1, s => by
    have h1 := request_got s (.chinfo i) chinfoTimeout
    unfold chinfoLoop
    split
    · simp [GotOk]
    · next e s' h => rw [h] at h1; exact h1
    · exact chinfoLoop_got i k _

theorem chinfoAll_time_le : ∀ (n i : Nat) (s : St),
    (chinfoAll s i n).2.time ≤ s.time + n * (chinfoAttempts * chinfoTimeout)
  | 0, i, s => by simp [chinfoAll]
  | n + 1, i, s => by
    have h1 := chinfoLoop_time_le i chinfoAttempts s
    unfold chinfoAll
    split
    · next s' h =>
      rw [h] at h1
      have h2 := chinfoAll_time_le n (i + 1) s'
      simp only at h1; rw [Nat.succ_mul]; omega
    · next other hne =>
      rw [Nat.succ_mul]; omega

theorem chinfoAll_got : ∀ (n i : Nat) (s : St), GotOk (chinfoAll s i n).1
  | 0, i, s => by simp [chinfoAll, GotOk]
  | n + 1, i, s => by
    unfold chinfoAll
    split
    · exact chinfoAll_got n (i + 1) _
    · exact chinfoLoop_got i _ s

/-- cost bound of one `_devinfo_get` -/
def attemptCost (chmax : Nat) : Nat :=
  cmninfoTimeout + drain + chmax * (chinfoAttempts * chinfoTimeout)

theorem devinfoGet_time_le (dev : DevDesc) (s : St) :
    (devinfoGet dev s).2.time ≤ s.time + attemptCost dev.chmax := by
  have h1 := request_time_le s .cmninfo cmninfoTimeout
  unfold devinfoGet attemptCost
  split
  · next s1 h =>
    rw [h] at h1
    simp only at h1
    refine Nat.le_trans (chinfoAll_time_le _ _ _) ?_
    rw [dropAll_time]
    split
    · simp only; omega
    · omega
  · omega

theorem devinfoGet_got (dev : DevDesc) (s : St) : GotOk (devinfoGet dev s).1 := by
  unfold devinfoGet
  split
  · exact chinfoAll_got _ _ _
  · exact request_got _ _ _

theorem connectLoop_time_le (dev : DevDesc) : ∀ (k : Nat) (s : St),
    (connectLoop dev s k).2.time ≤ s.time + k * attemptCost dev.chmax
  | 0, s => by simp [connectLoop]
  | k + 1, s => by
    have h1 := devinfoGet_time_le dev s
    unfold connectLoop
    split
    · next s' h => rw [h] at h1; simp only at h1 ⊢; rw [Nat.succ_mul]; omega
    · next e s' h => rw [h] at h1; simp only at h1 ⊢; rw [Nat.succ_mul]; omega
    · next s' h =>
      rw [h] at h1
      have h2 := connectLoop_time_le dev k s'
      simp only at h1 ⊢; rw [Nat.succ_mul]; omega

/-- the outcomes of the connect loop -/
def OutcomeOk (dev : DevDesc) (o : Outcome) : Prop :=
  o = .connected dev.chmax dev.flags dev.rxpadding ∨ o = .raised .timeout ∨ o = .raised .structError

theorem connectLoop_outcome (dev : DevDesc) : ∀ (k : Nat) (s : St), OutcomeOk dev (connectLoop dev s k).1
  | 0, s => by simp [connectLoop, OutcomeOk]
  | k + 1, s => by
    have h1 := devinfoGet_got dev s
    unfold connectLoop
    split
    · simp [OutcomeOk]
    · next e s' h =>
      rw [h] at h1
      simp [GotOk] at h1
      simp [OutcomeOk, h1]
    · exact connectLoop_outcome dev k _

/-! ### `connect` in terms of the loop -/

/-- the state the connect loop starts from -/
def start (script : List Resp) (dflt : Resp) : St :=
  dropAll { script := script, dflt := dflt, sent := [.stop] }

theorem start_time (script : List Resp) (dflt : Resp) : (start script dflt).time = drain := by
  simp [start, dropAll_time]

theorem connect_time (dev : DevDesc) (script : List Resp) (dflt : Resp) :
    (connect dev script dflt).time = (connectLoop dev (start script dflt) connectAttempts).2.time := by
  unfold connect start
  dsimp only
  generalize connectLoop dev _ connectAttempts = p
  obtain ⟨o, s⟩ := p
  cases o <;> rfl

theorem connect_outcome (dev : DevDesc) (script : List Resp) (dflt : Resp) :
    (connect dev script dflt).outcome = (connectLoop dev (start script dflt) connectAttempts).1 := by
  unfold connect start
  dsimp only
  generalize connectLoop dev _ connectAttempts = p
  obtain ⟨o, s⟩ := p
  cases o <;> rfl

theorem bound_eq_cost (chmax : Nat) : bound chmax = drain + connectAttempts * attemptCost chmax := by
  simp [bound, attemptCost, drain, Nat.mul_assoc]

theorem connect_time_le (dev : DevDesc) (script : List Resp) (dflt : Resp) :
    (connect dev script dflt).time ≤ bound dev.chmax := by
  rw [connect_time, bound_eq_cost]
  have := connectLoop_time_le dev connectAttempts (start script dflt)
  rw [start_time] at this
  exact this

theorem bound_num (chmax : Nat) : bound chmax = 8 + 6 * (18 + chmax * 60) := by
  simp [bound, connectAttempts, cmninfoTimeout, chinfoAttempts, chinfoTimeout, drainPolls,
    drainPollTime, drainStreamPolls, drainStreamPollTime]
  omega

theorem connect_raised_flags (dev : DevDesc) (script : List Resp) (dflt : Resp) (e : Err)
    (h : (connect dev script dflt).outcome = .raised e) :
    (connect dev script dflt).recvThreadRunning = false ∧ (connect dev script dflt).intfRunning = false := by
  unfold connect at h ⊢
  dsimp only at h ⊢
  generalize connectLoop dev _ connectAttempts = p at h ⊢
  obtain ⟨o, s⟩ := p
  cases o <;> simp [startCleansUp] at h ⊢

theorem disconnect_time_le (r : Result) : (disconnectAfter r).time ≤ r.time + 8 := by
  unfold disconnectAfter
  split <;> simp [drainPolls, drainPollTime, drainStreamPolls, drainStreamPollTime, Nat.add_assoc]

theorem disconnect_flags (r : Result)
    (h : ∀ e, r.outcome = .raised e → r.recvThreadRunning = false ∧ r.intfRunning = false) :
    (disconnectAfter r).recvThreadRunning = false ∧ (disconnectAfter r).intfRunning = false := by
  unfold disconnectAfter
  split
  · simp
  · next e he => exact h e he

/-! ### the silent link -/

/-- an exhausted script with a silent default -/
def Silent (s : St) : Prop := s.script = [] ∧ s.dflt = .silent

theorem request_silent (s : St) (r : Req) (t : Nat) (h : Silent s) :
    (request s r t).1 = .nothing ∧ (request s r t).2.time = s.time + t ∧ Silent (request s r t).2 := by
  obtain ⟨h1, h2⟩ := h
  simp [request, St.next, h1, h2, Silent]

theorem connectLoop_silent (dev : DevDesc) : ∀ (k : Nat) (s : St), Silent s →
    (connectLoop dev s k).1 = .raised .timeout ∧
    (connectLoop dev s k).2.time = s.time + k * cmninfoTimeout
  | 0, s, _ => by simp [connectLoop]
  | k + 1, s, h => by
    obtain ⟨r1, r2, r3⟩ := request_silent s .cmninfo cmninfoTimeout h
    have hd : devinfoGet dev s = request s .cmninfo cmninfoTimeout := by
      unfold devinfoGet
      split
      · next s1 hh => rw [hh] at r1; simp at r1
      · rfl
    unfold connectLoop
    split
    · next s' hh => rw [hd] at hh; rw [hh] at r1; simp at r1
    · next e s' hh => rw [hd] at hh; rw [hh] at r1; simp at r1
    · next s' hh =>
      rw [hd] at hh; rw [hh] at r2 r3
      obtain ⟨a, b⟩ := connectLoop_silent dev k s' r3
      simp only at r2
      refine ⟨a, ?_⟩
      rw [b, r2, Nat.succ_mul]; omega

theorem chinfoLoop_silent (i : Nat) : ∀ (k : Nat) (s : St), Silent s →
    (chinfoLoop s i k).1 = .nothing ∧ Silent (chinfoLoop s i k).2
  | 0, s, h => by simp [chinfoLoop, h]
  | k + 1, s, h => by
    obtain ⟨r1, _, r3⟩ := request_silent s (.chinfo i) chinfoTimeout h
    unfold chinfoLoop
    split
    · next s' hh => rw [hh] at r1; simp at r1
    · next e s' hh => rw [hh] at r1; simp at r1
    · next s' hh => rw [hh] at r3; exact chinfoLoop_silent i k s' r3

theorem silent_connect (dev : DevDesc) :
    (connect dev [] .silent).outcome = .raised .timeout ∧ (connect dev [] .silent).time = 68 := by
  have hs : Silent (start [] .silent) := by simp [Silent, start, dropAll]
  obtain ⟨a, b⟩ := connectLoop_silent dev connectAttempts _ hs
  rw [connect_outcome, connect_time, a, b, start_time]
  exact ⟨rfl, by decide⟩

/-- after an answered common-info request `_devinfo_get` is the channel loop, run on a state with
    the same link script -/
theorem devinfoGet_of_answer (dev : DevDesc) (s s1 : St)
    (h : request s .cmninfo cmninfoTimeout = (.answer, s1)) :
    ∃ s2, s2.script = s1.script ∧ s2.dflt = s1.dflt ∧ devinfoGet dev s = chinfoAll s2 0 dev.chmax := by
  unfold devinfoGet
  rw [h]
  refine ⟨_, ?_, ?_, rfl⟩ <;> (simp only [dropAll]; split <;> rfl)

/-- one `_devinfo_get` against `[.ok]` then silence, with at least one channel: nothing, and the
    link is silent from then on -/
theorem devinfoGet_ok_then_silent (dev : DevDesc) (h : 1 ≤ dev.chmax) (s : St)
    (h1 : s.script = [.ok]) (h2 : s.dflt = .silent) :
    (devinfoGet dev s).1 = .nothing ∧ Silent (devinfoGet dev s).2 := by
  obtain ⟨n, hn⟩ : ∃ n, dev.chmax = n + 1 := ⟨dev.chmax - 1, by omega⟩
  obtain ⟨s2, a, b, e⟩ := devinfoGet_of_answer dev s
    { s with sent := s.sent ++ [.cmninfo], script := [] } (by simp [request, St.next, h1])
  have hs : Silent s2 := ⟨a, b.trans h2⟩
  obtain ⟨c, d⟩ := chinfoLoop_silent 0 chinfoAttempts s2 hs
  rw [e, hn]
  unfold chinfoAll
  split
  · next s' hh => rw [hh] at c; simp at c
  · exact ⟨c, d⟩

theorem silent_after_cmninfo_connect (dev : DevDesc) (h : 1 ≤ dev.chmax) :
    (connect dev [.ok] .silent).outcome = .raised .timeout := by
  rw [connect_outcome]
  have hc : connectAttempts = 5 + 1 := by decide
  rw [hc]
  obtain ⟨a, b⟩ := devinfoGet_ok_then_silent dev h (start [.ok] .silent)
    (by simp [start, dropAll]) (by simp [start, dropAll])
  unfold connectLoop
  split
  · next s' hh => rw [hh] at a; simp at a
  · next e s' hh => rw [hh] at a; simp at a
  · next s' hh => rw [hh] at b; exact (connectLoop_silent dev 5 s' b).1

end Handshake

/-! ### the receive-thread body against a script starting with an empty read -/
namespace Reasm

theorem fill_nil_cons (n fuel : Nat) (b : Bytes) (rs : List Bytes) :
    fill n fuel b ([] :: rs) = (none, b, rs) ∨ fill n fuel b ([] :: rs) = (none, b, [] :: rs) ∨
    fill n fuel b ([] :: rs) = (some b, b, [] :: rs) := by
  cases fuel with
  | zero => simp [fill]
  | succ f =>
    unfold fill
    by_cases h : b.length < n <;> simp [h, readNext]

theorem readHdr_nil_cons (c : Codec) : ∀ (fuel : Nat) (buf : Bytes) (rs : List Bytes),
    (readHdr c fuel buf ([] :: rs)).reads = [] :: rs ∨
    ((readHdr c fuel buf ([] :: rs)).hdr = none ∧ (readHdr c fuel buf ([] :: rs)).reads = rs)
  | 0, buf, rs => by simp [readHdr]
  | fuel + 1, buf, rs => by
    unfold readHdr
    rcases fill_nil_cons c.hdrLen (fuel + 1) buf rs with h | h | h
    · rw [h]; simp
    · rw [h]; simp
    · rw [h]; simp only
      split
      · simp
      · split
        · exact readHdr_nil_cons c fuel _ rs
        · split
          · exact readHdr_nil_cons c fuel _ rs
          · simp

theorem fillFrame_nil_cons (n fuel : Nat) (b : Bytes) (rs : List Bytes) :
    (fillFrame n fuel b ([] :: rs)).2 = rs ∨ (fillFrame n fuel b ([] :: rs)).2 = [] :: rs := by
  cases fuel with
  | zero => simp [fillFrame]
  | succ f =>
    unfold fillFrame
    by_cases h : b.length < n <;> simp [h, readNext]

theorem readFrame_nil_cons (c : Codec) (fuel : Nat) (buf : Bytes) (rs : List Bytes) :
    (readFrame c fuel buf ([] :: rs)).2.2 = rs ∨ (readFrame c fuel buf ([] :: rs)).2.2 = [] :: rs := by
  have h := readHdr_nil_cons c fuel buf rs
  unfold readFrame
  split
  · next b rs' hh =>
    rw [hh] at h; simp only at h ⊢
    rcases h with h | ⟨_, h⟩
    · exact Or.inr h
    · exact Or.inl h
  · next hd b x rs' hh =>
    rw [hh] at h; simp only at h ⊢
    rcases h with h | ⟨h, _⟩
    · subst h
      have h2 := fillFrame_nil_cons hd.flen fuel b rs
      generalize fillFrame hd.flen fuel b ([] :: rs) = p at h2
      obtain ⟨b2, rs2⟩ := p
      simp only at h2 ⊢
      split
      · exact h2
      · split <;> exact h2
    · simp at h

theorem readFrame_idle (c : Codec) (fuel : Nat) (buf : Bytes) (h : buf.length < c.hdrLen) :
    readFrame c (fuel + 1) buf [] = (none, buf, []) := by
  simp [readFrame, readHdr, fill, readNext, h]

end Reasm
end Nxs
