/-
  Round-7 lemmas for C07: the independent client fold (`cliSpec`, Lemmas/R7Config.lean) extended to the public calls —
  Python channel ids, the `writenow` wrappers, any rx padding (`Config.runCalls`).
-/
import NxsModel.Lemmas.R7Config
import NxsModel.Lemmas.ConfigExt
namespace Nxs.Config

/-- does the call raise?  (written on the id lists, without `setMany`): a setter raises `IndexError` iff some id is out
    of range, `ch_divider` raises `ValueError` for a divider outside 0..255; nothing else raises -/
def raisesSpec (c : Client) : Op → Bool
  | .enable cs => !(cs.all fun k => decide (k < c.enNew.length))
  | .disable cs => !(cs.all fun k => decide (k < c.enNew.length))
  | .divider cs v => decide (v < 0 ∨ v > 255) || !(cs.all fun k => decide (k < c.divNew.length))
  | _ => false

theorem setMany_raises (vec : List α) (cs : List Nat) (v : α) :
    (setMany vec cs v).2.isSome = !(cs.all fun k => decide (k < vec.length)) := by
  rw [setMany_snd]
  by_cases h : ∀ c ∈ cs, c < vec.length
  · rw [if_pos h]
    have : (cs.all fun k => decide (k < vec.length)) = true := by
      rw [List.all_eq_true]; intro x hx; exact decide_eq_true (h x hx)
    rw [this]; rfl
  · rw [if_neg h]
    have : (cs.all fun k => decide (k < vec.length)) = false := by
      rw [Bool.eq_false_iff]
      intro ht
      rw [List.all_eq_true] at ht
      exact h (fun x hx => of_decide_eq_true (ht x hx))
    rw [this]; rfl

theorem step_raises {c : Client} {d : Device} (hI : Inv c d) (op : Op) :
    (step c d op).2.2.err.isSome = raisesSpec c op := by
  cases op with
  | enable cs => exact setMany_raises c.enNew cs true
  | disable cs => exact setMany_raises c.enNew cs false
  | divider cs v =>
    rw [step_divider]
    by_cases hv : v < 0 ∨ v > 255
    · rw [if_pos hv]
      show true = (decide (v < 0 ∨ v > 255) || _)
      rw [decide_eq_true hv]; rfl
    · rw [if_neg hv]
      show (setMany c.divNew cs v).2.isSome = (decide (v < 0 ∨ v > 255) || _)
      rw [decide_eq_false hv, setMany_raises]; rfl
  | defaultCfg => rfl
  | enableAll => rfl
  | disableAll => rfl
  | write a b =>
    show (channelsWrite c d a b).2.2.err.isSome = false
    rw [channelsWrite_noerr hI a b]; rfl

/-- the client state after one public call: the setter (Python ids normalised), then — `writenow=True` and the setter
    did not raise — a write -/
def callSpec (c : Client) (k : Call) : Client :=
  match k.now with
  | some (a, b) =>
    if raisesSpec c (k.op.toOp c) then cliSpec c (k.op.toOp c)
    else cliSpec (cliSpec c (k.op.toOp c)) (.write a b)
  | none => cliSpec c (k.op.toOp c)

theorem stepCall_inv {c : Client} {d : Device} (hI : Inv c d) (pad : Nat) (k : Call) :
    Inv (stepCall pad c d k).1 (stepCall pad c d k).2.1 := by
  have h1 : Inv (stepP pad c d (k.op.toOp c)).1 (stepP pad c d (k.op.toOp c)).2.1 := by
    rw [stepP_eq hI pad]; exact step_inv hI _
  cases hn : k.now with
  | none => rw [stepCall_plain pad c d k hn]; exact h1
  | some ab =>
    obtain ⟨a, b⟩ := ab
    cases he : (stepP pad c d (k.op.toOp c)).2.2.err with
    | some e => rw [stepCall_raise pad c d k e he]; exact h1
    | none =>
      rw [stepCall_now pad c d k a b hn he, stepP_eq h1 pad]
      exact step_inv h1 _

theorem stepCall_client {c : Client} {d : Device} (hI : Inv c d) (pad : Nat) (k : Call) :
    (stepCall pad c d k).1 = callSpec c k := by
  have h1 : Inv (stepP pad c d (k.op.toOp c)).1 (stepP pad c d (k.op.toOp c)).2.1 := by
    rw [stepP_eq hI pad]; exact step_inv hI _
  have hc : (stepP pad c d (k.op.toOp c)).1 = cliSpec c (k.op.toOp c) := by
    rw [stepP_eq hI pad]; exact step_client hI _
  have hr : (stepP pad c d (k.op.toOp c)).2.2.err.isSome = raisesSpec c (k.op.toOp c) := by
    rw [stepP_eq hI pad]; exact step_raises hI _
  unfold callSpec
  cases hn : k.now with
  | none => rw [stepCall_plain pad c d k hn]; exact hc
  | some ab =>
    obtain ⟨a, b⟩ := ab
    cases he : (stepP pad c d (k.op.toOp c)).2.2.err with
    | some e =>
      rw [he] at hr
      rw [stepCall_raise pad c d k e he, hc]
      dsimp only
      rw [← hr]; rfl
    | none =>
      rw [he] at hr
      rw [stepCall_now pad c d k a b hn he, stepP_eq h1 pad]
      dsimp only
      rw [← hr, step_client h1, hc]; rfl

/-- REFINEMENT for the public calls: for every rx padding, after any call history (Python ids, `writenow` wrappers, any
    outcomes) the client state is the fold of `callSpec` -/
theorem runCalls_client {c : Client} {d : Device} (hI : Inv c d) (pad : Nat) (ks : List Call) :
    (runCalls pad c d ks).1 = ks.foldl callSpec c := by
  induction ks generalizing c d with
  | nil => rfl
  | cons k r ih =>
    rw [runCalls_cons, List.foldl_cons, ← stepCall_client hI pad k]
    exact ih (stepCall_inv hI pad k)

/-- one public call leaves client and device in the same state whatever the rx padding -/
theorem stepCall_pad {c : Client} {d : Device} (hI : Inv c d) (pad pad' : Nat) (k : Call) :
    (stepCall pad c d k).1 = (stepCall pad' c d k).1 ∧ (stepCall pad c d k).2.1 = (stepCall pad' c d k).2.1 := by
  have key : ∀ p : Nat, (stepCall p c d k).1 = (stepCall 0 c d k).1 ∧ (stepCall p c d k).2.1 = (stepCall 0 c d k).2.1 := by
    intro p
    have e : ∀ q : Nat, stepP q c d (k.op.toOp c) =
        ((step c d (k.op.toOp c)).1, (step c d (k.op.toOp c)).2.1, padOut q (step c d (k.op.toOp c)).2.2) :=
      fun q => stepP_eq hI q _
    have h1 : Inv (step c d (k.op.toOp c)).1 (step c d (k.op.toOp c)).2.1 := step_inv hI _
    cases hn : k.now with
    | none => rw [stepCall_plain p c d k hn, stepCall_plain 0 c d k hn, e p, e 0]; exact ⟨rfl, rfl⟩
    | some ab =>
      obtain ⟨a, b⟩ := ab
      cases he : (step c d (k.op.toOp c)).2.2.err with
      | some x =>
        rw [stepCall_raise p c d k x (by rw [e p]; exact he), stepCall_raise 0 c d k x (by rw [e 0]; exact he), e p, e 0]
        exact ⟨rfl, rfl⟩
      | none =>
        rw [stepCall_now p c d k a b hn (by rw [e p]; exact he), stepCall_now 0 c d k a b hn (by rw [e 0]; exact he),
          e p, e 0]
        dsimp only
        rw [stepP_eq h1 p, stepP_eq h1 0]
        exact ⟨rfl, rfl⟩
  exact ⟨(key pad).1.trans (key pad').1.symm, (key pad).2.trans (key pad').2.symm⟩

/-- rx padding is invisible to client and device over whole call histories -/
theorem runCalls_pad {c : Client} {d : Device} (hI : Inv c d) (pad pad' : Nat) (ks : List Call) :
    (runCalls pad c d ks).1 = (runCalls pad' c d ks).1 ∧ (runCalls pad c d ks).2.1 = (runCalls pad' c d ks).2.1 := by
  induction ks generalizing c d with
  | nil => exact ⟨rfl, rfl⟩
  | cons k r ih =>
    rw [runCalls_cons, runCalls_cons]
    have h := stepCall_pad hI pad pad' k
    dsimp only
    rw [← h.1, ← h.2]
    exact ih (stepCall_inv hI pad k)

end Nxs.Config
