/- round 7 helper lemmas about the serial-port pipe (C18): views over concatenated histories, draining,
   invisible ops, the line composed with the pipe -/
import NxsModel.Lemmas.Pipe
import NxsModel.PipeLine
namespace Nxs.Pipe
open Nxs

/-! ### views distribute over concatenation -/

theorem clientGot_append (a b : List Obs) : clientGot (a ++ b) = clientGot a ++ clientGot b := by
  induction a with
  | nil => rfl
  | cons o a ih => rw [List.cons_append, clientGot_cons, clientGot_cons o a, ih, List.append_assoc]

theorem peerGot_append (a b : List Obs) : peerGot (a ++ b) = peerGot a ++ peerGot b := by
  induction a with
  | nil => rfl
  | cons o a ih => rw [List.cons_append, peerGot_cons, peerGot_cons o a, ih, List.append_assoc]

theorem peerSent_append (a b : List Op) : peerSent (a ++ b) = peerSent a ++ peerSent b := by
  induction a with
  | nil => rfl
  | cons o a ih => rw [List.cons_append, peerSent_cons, peerSent_cons o a, ih, List.append_assoc]

theorem readChunks_append (a b : List Obs) : readChunks (a ++ b) = readChunks a ++ readChunks b := by
  induction a with
  | nil => rfl
  | cons o a ih => cases o <;> simp [readChunks, ih]

theorem writes_append (a b : List Op) : writes (a ++ b) = writes a ++ writes b := by
  induction a with
  | nil => rfl
  | cons o a ih => cases o <;> simp [writes, ih]

/-! ### idle reads -/

/-- on a lawful port a read with nothing waiting returns `b""` at once and changes nothing -/
theorem step_read_idle (pt : Port) (hl : pt.Lawful) (s : State) (h : s.rxWaiting = []) :
    step pt s .read = (s, .read [] false) := by
  have h0 : pt.readCount 0 = 0 := Nat.le_zero.mp (hl.le 0)
  cases s
  simp only at h
  subst h
  simp [step, h0]

/-! ### draining -/

/-- `n` reads on a line where nothing arrives meanwhile, `n` at least the number of bytes waiting: everything
    waiting is taken, in order, nothing else changes -/
theorem reads_drain (pt : Port) (hl : pt.Lawful) : ∀ (n : Nat) (s : State), s.rxWaiting.length ≤ n →
    (run pt s (List.replicate n .read)).1 = { s with rxWaiting := [] } ∧
    clientGot (run pt s (List.replicate n .read)).2 = s.rxWaiting := by
  intro n
  induction n with
  | zero =>
    intro s h
    have hw : s.rxWaiting = [] := List.length_eq_zero_iff.mp (Nat.le_zero.mp h)
    cases s
    simp only at hw
    subst hw
    exact ⟨rfl, rfl⟩
  | succ n ih =>
    intro s h
    rw [List.replicate_succ, run_cons]
    have hle := hl.le s.rxWaiting.length
    have hs : (step pt s .read).1 = { s with rxWaiting := s.rxWaiting.drop (pt.readCount s.rxWaiting.length) } := rfl
    have ho : (step pt s .read).2 =
        .read (s.rxWaiting.take (pt.readCount s.rxWaiting.length))
          (decide (s.rxWaiting.length < pt.readCount s.rxWaiting.length)) := rfl
    have hlen : (step pt s .read).1.rxWaiting.length ≤ n := by
      rw [hs]
      simp only [List.length_drop]
      by_cases h0 : s.rxWaiting.length = 0
      · omega
      · have := hl.pos s.rxWaiting.length (by omega)
        omega
    obtain ⟨ih1, ih2⟩ := ih (step pt s .read).1 hlen
    refine ⟨?_, ?_⟩
    · simp only
      rw [ih1, hs]
    · simp only
      rw [clientGot_cons, ih2, ho, hs]
      simp [clientGot]

/-- the closing history `drainOps` empties the line and hands the client everything that was pending -/
theorem run_drainOps (pt : Port) (hl : pt.Lawful) (s : State) :
    (run pt s (drainOps s)).1 = { s with rxWaiting := [], rxFlight := [] } ∧
    clientGot (run pt s (drainOps s)).2 = s.rxWaiting ++ s.rxFlight := by
  unfold drainOps
  rw [run_cons]
  have hs : (step pt s (.osDeliver s.rxFlight.length)).1
      = { s with rxFlight := [], rxWaiting := s.rxWaiting ++ s.rxFlight } := by
    simp [step]
  have ho : (step pt s (.osDeliver s.rxFlight.length)).2 = .none := rfl
  obtain ⟨h1, h2⟩ := reads_drain pt hl (s.rxWaiting.length + s.rxFlight.length)
    (step pt s (.osDeliver s.rxFlight.length)).1 (by rw [hs]; simp)
  refine ⟨?_, ?_⟩
  · simp only
    rw [h1, hs]
  · simp only
    rw [clientGot_cons, h2, ho, hs]
    simp [clientGot]

/-! ### ops the rest of a history cannot see -/

theorem run_readError (pt : Port) (s : State) : run pt s [.readError] = (s, [.read [] false]) := rfl

theorem stripOs_peerSent (ops : List Op) : peerSent (stripOs ops) = peerSent ops := by
  induction ops with
  | nil => rfl
  | cons op ops ih => cases op <;> simp [stripOs, peerSent, ih]

theorem stripOs_writes (ops : List Op) : writes (stripOs ops) = writes ops := by
  induction ops with
  | nil => rfl
  | cons op ops ih => cases op <;> simp [stripOs, writes, ih]

/-! ### the line -/

theorem Line.carryByte_of_transparent (l : Line) (h : l.transparent = true) (b : Byte) :
    l.carryByte b = some b := by
  simp only [Line.transparent, Bool.and_eq_true, decide_eq_true_eq, Bool.not_eq_eq_eq_not, Bool.not_true] at h
  have hc := (Line.carry_all_iff l).mpr ⟨h.1, h.2⟩ b.toNat b.isLt
  simp only [Line.carryByte, hc, Option.map_some, BitVec.ofNat_toNat, BitVec.setWidth_eq]

theorem Line.carryBytes_of_transparent (l : Line) (h : l.transparent = true) (d : Bytes) :
    l.carryBytes d = d := by
  induction d with
  | nil => rfl
  | cons b d ih =>
    unfold Line.carryBytes at ih ⊢
    rw [List.filterMap_cons, Line.carryByte_of_transparent l h b]
    simp only
    rw [ih]

/-- a line that is not transparent alters a one-byte string: 0x11 is swallowed under XON/XOFF, 0xff loses
    its top bit under fewer than 8 data bits -/
theorem Line.carryBytes_witness (l : Line) (h : l.transparent = false) :
    l.carryBytes [0x11] ≠ [0x11] ∨ l.carryBytes [0xff] ≠ [0xff] := by
  simp only [Line.transparent, Bool.and_eq_false_iff, decide_eq_false_iff_not, Nat.not_le,
    Bool.not_eq_eq_eq_not, Bool.not_false] at h
  by_cases hx : l.xonxoff = true
  · left
    simp [Line.carryBytes, Line.carryByte, Line.carry, hx]
  · right
    have hx' : l.xonxoff = false := by simpa using hx
    have h7 : l.dataBits < 8 := by
      rcases h with h | h
      · exact h
      · exact absurd h hx
    have hk : l.dataBits ≤ 7 := by omega
    have hp : 2 ^ l.dataBits ≤ 2 ^ 7 := Nat.pow_le_pow_right (by decide) hk
    have hpos : 0 < 2 ^ l.dataBits := Nat.pow_pos (by decide)
    have hm := Nat.mod_lt 255 hpos
    intro he
    simp only [Line.carryBytes, Line.carryByte, Line.carry, hx', Bool.false_and, Bool.false_eq_true, if_false,
      List.filterMap_cons, List.filterMap_nil, Option.map_some, List.cons.injEq, and_true] at he
    have ht := congrArg BitVec.toNat he
    simp only [BitVec.toNat_ofNat] at ht
    have e255 : BitVec.toNat (255 : BitVec 8) = 255 := rfl
    simp only [e255] at ht
    have : 255 % 2 ^ l.dataBits % 2 ^ 8 = 255 % 2 ^ l.dataBits := Nat.mod_eq_of_lt (by omega)
    omega

/-! ### the pipe over a transparent line is the pipe -/

theorem stepLine_of_transparent (l : Line) (h : l.transparent = true) (pt : Port) (s : State) (op : Op) :
    stepLine l pt s op = step pt s op := by
  cases op <;> simp [stepLine, step, Line.carryBytes_of_transparent l h]

theorem runLine_of_transparent (l : Line) (h : l.transparent = true) (pt : Port) (s : State) (ops : List Op) :
    runLine l pt s ops = run pt s ops := by
  induction ops generalizing s with
  | nil => rfl
  | cons op ops ih =>
    simp only [runLine, run]
    rw [stepLine_of_transparent l h, ih]

/-! ### counting reads -/

/-- the number of non-empty chunks of a list of chunks is at most the number of bytes in them -/
theorem nonempty_le_flatten (L : List Bytes) :
    (L.filter (fun c => !c.isEmpty)).length ≤ L.flatten.length := by
  induction L with
  | nil => exact Nat.le_refl _
  | cons c L ih =>
    cases c with
    | nil => simpa using ih
    | cons b c =>
      simp only [List.filter_cons, List.isEmpty_cons, Bool.not_false, if_true, List.length_cons,
        List.flatten_cons, List.length_append]
      omega

/-- the results of the `read()` calls are part of what the client took -/
theorem readChunks_flatten_le (obs : List Obs) : (readChunks obs).flatten.length ≤ (clientGot obs).length := by
  induction obs with
  | nil => exact Nat.le_refl _
  | cons o obs ih =>
    cases o <;> simp only [readChunks, clientGot, List.flatten_cons, List.length_append] <;> omega

theorem filter_split (L : List Bytes) :
    (L.filter (fun c => c.isEmpty)).length + (L.filter (fun c => !c.isEmpty)).length = L.length := by
  induction L with
  | nil => rfl
  | cons c L ih =>
    cases c with
    | nil => simp only [List.filter_cons, List.isEmpty_nil, Bool.not_true, if_true, List.length_cons]; simp; omega
    | cons b c => simp only [List.filter_cons, List.isEmpty_cons, Bool.not_false, if_true, List.length_cons]; simp; omega

/-! ### alignment of the transmit stream -/

theorem dataAlign_length_mod (p : Nat) (hp0 : 0 < p) (d : Bytes) : (Pad.dataAlign p d).length % p = 0 := by
  unfold Pad.dataAlign
  have hp : p ≠ 0 := by omega
  · by_cases hm : d.length % p = 0
    · simp [hp, hm]
    · have hlt : d.length % p < p := Nat.mod_lt _ (by omega)
      simp only [ne_eq, hp, not_false_eq_true, if_true, hm, List.length_append, List.length_replicate]
      have hdm := Nat.div_add_mod d.length p
      have : d.length + (p - d.length % p) = p * (d.length / p + 1) := by
        rw [Nat.mul_add]; omega
      rw [this]
      exact Nat.mul_mod_right _ _

theorem aligned_flatten_mod (p : Nat) (hp0 : 0 < p) (ws : List Bytes) : ((ws.map (Pad.dataAlign p)).flatten.length) % p = 0 := by
  induction ws with
  | nil => simp
  | cons d ws ih =>
    simp only [List.map_cons, List.flatten_cons, List.length_append]
    rw [Nat.add_mod, dataAlign_length_mod p hp0, ih]
    simp

end Nxs.Pipe
