/-
  Round-7 helper lemmas for C10.
  * the link seen as an infinite stream (`St.nth`: script entry `i`, the default beyond its end) and the
    relation `Agree n` (two link states with the same clock / request log / padding whose streams agree on
    the next `n` entries); every layer of the handshake (`request`, `chinfoLoop`, `chinfoAll`,
    `devinfoGet`, `connectLoop`) maps states that agree on "its own worst-case number of awaited requests
    + n" entries to the same answer and states that agree on `n` entries;
  * the number of requests written (`sent.length`) per layer;
  * the parametric closed form of the time bound and its monotonicity.
-/
import NxsModel.Handshake
import NxsModel.Lemmas.Handshake
namespace Nxs
namespace Handshake
open Gen.Comm

/-! ### the link as a stream -/

/-- what the link answers to the `i`-th awaited request from now on -/
def St.nth (s : St) (i : Nat) : Resp := s.script.getD i s.dflt

/-- same clock, same request log, same padding, and the same next `n` answers -/
def Agree (n : Nat) (s s' : St) : Prop :=
  s.time = s'.time ∧ s.sent = s'.sent ∧ s.padding = s'.padding ∧ ∀ i, i < n → s.nth i = s'.nth i

theorem Agree.mono {n m : Nat} {s s' : St} (h : Agree m s s') (hn : n ≤ m) : Agree n s s' :=
  ⟨h.1, h.2.1, h.2.2.1, fun i hi => h.2.2.2 i (Nat.lt_of_lt_of_le hi hn)⟩

theorem next_fst (s : St) : s.next.1 = s.nth 0 := by
  obtain ⟨tm, sn, sc, d, p⟩ := s
  cases sc <;> rfl

theorem next_nth (s : St) (i : Nat) : s.next.2.nth i = s.nth (i + 1) := by
  obtain ⟨tm, sn, sc, d, p⟩ := s
  cases sc with
  | nil => simp [St.next, St.nth]
  | cons x xs => simp [St.next, St.nth]

theorem next_fields (s : St) : s.next.2.time = s.time ∧ s.next.2.sent = s.sent ∧ s.next.2.padding = s.padding := by
  obtain ⟨tm, sn, sc, d, p⟩ := s
  cases sc <;> exact ⟨rfl, rfl, rfl⟩

theorem getD_map_sw : ∀ (l : List Resp) (i : Nat) (d : Resp),
    (l.map Resp.swallowed).getD i (.swallowed d) = .swallowed (l.getD i d)
  | [], i, d => by simp
  | x :: xs, 0, d => by simp
  | x :: xs, i + 1, d => by simp

theorem poison_nth (s : St) (t i : Nat) : (s.poison t).nth i = .swallowed (s.nth i) := by
  simp only [St.poison, St.nth]
  exact getD_map_sw _ _ _

theorem next_agree {n : Nat} {s s' : St} (h : Agree (n + 1) s s') :
    s.next.1 = s'.next.1 ∧ Agree n s.next.2 s'.next.2 := by
  obtain ⟨h1, h2, h3, h4⟩ := h
  refine ⟨?_, ?_, ?_, ?_, ?_⟩
  · rw [next_fst, next_fst]; exact h4 0 (Nat.succ_pos _)
  · rw [(next_fields s).1, (next_fields s').1]; exact h1
  · rw [(next_fields s).2.1, (next_fields s').2.1]; exact h2
  · rw [(next_fields s).2.2, (next_fields s').2.2]; exact h3
  · intro i hi
    rw [next_nth, next_nth]; exact h4 (i + 1) (Nat.succ_lt_succ hi)

/-- the body of `request` once the answer has been taken off the link -/
def reqOn (resp : Resp) (s : St) (r : Req) (timeout : Nat) : Got × St :=
  match resp with
  | .ok => (.answer, s)
  | .silent => (.nothing, { s with time := s.time + timeout })
  | .wrong => (.nothing, s)
  | .wrongStream => (.nothing, { s with time := s.time + timeout })
  | .badName =>
    match r with
    | .chinfo _ => (.raise .unicodeError, s)
    | _ => (.answer, s)
  | .short => (.raise .structError, s)
  | .nack => (.nothing, { s with time := s.time + timeout })
  | .noise => (.nothing, { s with time := s.time + timeout })
  | .swallowed _ => (.nothing, { s with time := s.time + timeout })
  | .garbage => (.nothing, s.poison (s.time + timeout))

theorem request_eq (s : St) (r : Req) (t : Nat) :
    request s r t =
      reqOn ({ s with sent := s.sent ++ [r] } : St).next.1 ({ s with sent := s.sent ++ [r] } : St).next.2 r t := by
  obtain ⟨tm, sn, sc, d, p⟩ := s
  cases sc <;> rfl

theorem addTime_agree {n : Nat} {s s' : St} (t : Nat) (h : Agree n s s') :
    Agree n { s with time := s.time + t } { s' with time := s'.time + t } := by
  obtain ⟨h1, h2, h3, h4⟩ := h
  exact ⟨by simp [h1], h2, h3, h4⟩

theorem poison_agree {n : Nat} {s s' : St} (t : Nat) (h : Agree n s s') :
    Agree n (s.poison (s.time + t)) (s'.poison (s'.time + t)) := by
  obtain ⟨h1, h2, h3, h4⟩ := h
  refine ⟨by simp [St.poison, h1], h2, h3, ?_⟩
  intro i hi
  rw [poison_nth, poison_nth, h4 i hi]

theorem reqOn_agree {n : Nat} {s s' : St} (resp : Resp) (r : Req) (t : Nat) (h : Agree n s s') :
    (reqOn resp s r t).1 = (reqOn resp s' r t).1 ∧ Agree n (reqOn resp s r t).2 (reqOn resp s' r t).2 := by
  cases resp with
  | badName => cases r <;> exact ⟨rfl, h⟩
  | garbage => exact ⟨rfl, poison_agree t h⟩
  | ok => exact ⟨rfl, h⟩
  | wrong => exact ⟨rfl, h⟩
  | short => exact ⟨rfl, h⟩
  | silent => exact ⟨rfl, addTime_agree t h⟩
  | wrongStream => exact ⟨rfl, addTime_agree t h⟩
  | nack => exact ⟨rfl, addTime_agree t h⟩
  | noise => exact ⟨rfl, addTime_agree t h⟩
  | swallowed x => exact ⟨rfl, addTime_agree t h⟩

theorem sent_agree {n : Nat} {s s' : St} (r : Req) (h : Agree n s s') :
    Agree n { s with sent := s.sent ++ [r] } { s' with sent := s'.sent ++ [r] } := by
  obtain ⟨h1, h2, h3, h4⟩ := h
  exact ⟨h1, by simp [h2], h3, h4⟩

/-- one awaited request looks at one entry of the stream -/
theorem request_agree {n : Nat} {s s' : St} (r : Req) (t : Nat) (h : Agree (n + 1) s s') :
    (request s r t).1 = (request s' r t).1 ∧ Agree n (request s r t).2 (request s' r t).2 := by
  rw [request_eq, request_eq]
  obtain ⟨e, a⟩ := next_agree (sent_agree r h)
  rw [e]
  exact reqOn_agree _ r t a

theorem chinfoLoop_agree (i : Nat) : ∀ (k n : Nat) (s s' : St), Agree (n + k) s s' →
    (chinfoLoop s i k).1 = (chinfoLoop s' i k).1 ∧ Agree n (chinfoLoop s i k).2 (chinfoLoop s' i k).2
  | 0, n, s, s', h => ⟨rfl, h⟩
  | k + 1, n, s, s', h => by
    have hr := request_agree (n := n + k) (.chinfo i) chinfoTimeout h
    unfold chinfoLoop
    rcases h1 : request s (.chinfo i) chinfoTimeout with ⟨g, a⟩
    rcases h2 : request s' (.chinfo i) chinfoTimeout with ⟨g', a'⟩
    rw [h1, h2] at hr
    obtain ⟨e, ha⟩ := hr
    simp only at e ha
    subst e
    cases g with
    | answer => exact ⟨rfl, ha.mono (Nat.le_add_right _ _)⟩
    | raise x => exact ⟨rfl, ha.mono (Nat.le_add_right _ _)⟩
    | nothing => exact chinfoLoop_agree i k n a a' ha

theorem chinfoAll_agree : ∀ (m i n : Nat) (s s' : St), Agree (n + m * chinfoAttempts) s s' →
    (chinfoAll s i m).1 = (chinfoAll s' i m).1 ∧ Agree n (chinfoAll s i m).2 (chinfoAll s' i m).2
  | 0, i, n, s, s', h => ⟨rfl, h.mono (by omega)⟩
  | m + 1, i, n, s, s', h => by
    have h' : Agree ((n + m * chinfoAttempts) + chinfoAttempts) s s' := by
      rw [Nat.succ_mul] at h; exact h.mono (by omega)
    have hr := chinfoLoop_agree i chinfoAttempts (n + m * chinfoAttempts) s s' h'
    unfold chinfoAll
    rcases h1 : chinfoLoop s i chinfoAttempts with ⟨g, a⟩
    rcases h2 : chinfoLoop s' i chinfoAttempts with ⟨g', a'⟩
    rw [h1, h2] at hr
    obtain ⟨e, ha⟩ := hr
    simp only at e ha
    subst e
    cases g with
    | answer => exact chinfoAll_agree m (i + 1) n a a' ha
    | raise x => exact ⟨rfl, ha.mono (Nat.le_add_right _ _)⟩
    | nothing => exact ⟨rfl, ha.mono (Nat.le_add_right _ _)⟩

theorem dropAll_agree {n : Nat} {s s' : St} (h : Agree n s s') : Agree n (dropAll s) (dropAll s') := by
  obtain ⟨h1, h2, h3, h4⟩ := h
  exact ⟨by simp [dropAll, h1], h2, h3, h4⟩

theorem padStep_agree {n : Nat} {s s' : St} (dev : DevDesc) (h : Agree n s s') :
    Agree n
      (if dev.rxpadding > 0 ∧ s.padding ≠ dev.rxpadding then
        { s with padding := dev.rxpadding, sent := s.sent ++ [.padding dev.rxpadding] } else s)
      (if dev.rxpadding > 0 ∧ s'.padding ≠ dev.rxpadding then
        { s' with padding := dev.rxpadding, sent := s'.sent ++ [.padding dev.rxpadding] } else s') := by
  obtain ⟨h1, h2, h3, h4⟩ := h
  rw [← h3]
  by_cases c : dev.rxpadding > 0 ∧ s.padding ≠ dev.rxpadding
  · rw [if_pos c, if_pos c]; exact ⟨h1, by simp [h2], rfl, h4⟩
  · rw [if_neg c, if_neg c]; exact ⟨h1, h2, h3, h4⟩

/-- awaited requests of one `_devinfo_get`, worst case -/
def attemptReqs (chmax : Nat) : Nat := chmax * chinfoAttempts + 1

theorem devinfoGet_agree (dev : DevDesc) (n : Nat) (s s' : St) (h : Agree (n + attemptReqs dev.chmax) s s') :
    (devinfoGet dev s).1 = (devinfoGet dev s').1 ∧ Agree n (devinfoGet dev s).2 (devinfoGet dev s').2 := by
  have hr := request_agree (n := n + dev.chmax * chinfoAttempts) .cmninfo cmninfoTimeout h
  unfold devinfoGet
  rcases h1 : request s .cmninfo cmninfoTimeout with ⟨g, a⟩
  rcases h2 : request s' .cmninfo cmninfoTimeout with ⟨g', a'⟩
  rw [h1, h2] at hr
  obtain ⟨e, ha⟩ := hr
  simp only at e ha
  subst e
  cases g with
  | answer => exact chinfoAll_agree dev.chmax 0 n _ _ (dropAll_agree (padStep_agree dev ha))
  | raise x => exact ⟨rfl, ha.mono (Nat.le_add_right _ _)⟩
  | nothing => exact ⟨rfl, ha.mono (Nat.le_add_right _ _)⟩

theorem connectLoop_agree (dev : DevDesc) : ∀ (k n : Nat) (s s' : St),
    Agree (n + k * attemptReqs dev.chmax) s s' →
    (connectLoop dev s k).1 = (connectLoop dev s' k).1 ∧ Agree n (connectLoop dev s k).2 (connectLoop dev s' k).2
  | 0, n, s, s', h => ⟨rfl, h.mono (by omega)⟩
  | k + 1, n, s, s', h => by
    have h' : Agree ((n + k * attemptReqs dev.chmax) + attemptReqs dev.chmax) s s' := by
      rw [Nat.succ_mul] at h; exact h.mono (by omega)
    have hr := devinfoGet_agree dev _ s s' h'
    unfold connectLoop
    rcases h1 : devinfoGet dev s with ⟨g, a⟩
    rcases h2 : devinfoGet dev s' with ⟨g', a'⟩
    rw [h1, h2] at hr
    obtain ⟨e, ha⟩ := hr
    simp only at e ha
    subst e
    cases g with
    | answer => exact ⟨rfl, ha.mono (Nat.le_add_right _ _)⟩
    | raise x => exact ⟨rfl, ha.mono (Nat.le_add_right _ _)⟩
    | nothing => exact connectLoop_agree dev k n a a' ha

/-- awaited requests of one `connect`, worst case: attempts × (common-info + channels × tries) -/
def reqBound (chmax : Nat) : Nat := connectAttempts * attemptReqs chmax

theorem connect_congr (dev : DevDesc) (script script' : List Resp) (dflt dflt' : Resp)
    (h : ∀ i, i < reqBound dev.chmax → script.getD i dflt = script'.getD i dflt') :
    connect dev script dflt = connect dev script' dflt' := by
  have h0 : Agree (0 + connectAttempts * attemptReqs dev.chmax)
      (dropAll { script := script, dflt := dflt, sent := [.stop] })
      (dropAll { script := script', dflt := dflt', sent := [.stop] }) :=
    dropAll_agree ⟨rfl, rfl, rfl, by simpa [St.nth, reqBound] using h⟩
  have hr := connectLoop_agree dev connectAttempts 0 _ _ h0
  unfold connect
  simp only
  rcases h1 : connectLoop dev (dropAll { script := script, dflt := dflt, sent := [.stop] }) connectAttempts with ⟨o, a⟩
  rcases h2 : connectLoop dev (dropAll { script := script', dflt := dflt', sent := [.stop] }) connectAttempts with ⟨o', a'⟩
  rw [h1, h2] at hr
  obtain ⟨e, ha⟩ := hr
  simp only at e ha
  subst e
  obtain ⟨t1, t2, _, _⟩ := ha
  cases o <;> simp [t1, t2]

/-! ### number of requests written -/

theorem request_sent (s : St) (r : Req) (t : Nat) : (request s r t).2.sent.length = s.sent.length + 1 := by
  rw [request_eq]
  have hf := (next_fields ({ s with sent := s.sent ++ [r] } : St)).2.1
  generalize ({ s with sent := s.sent ++ [r] } : St).next.1 = resp
  generalize ({ s with sent := s.sent ++ [r] } : St).next.2 = a at hf
  have : a.sent.length = s.sent.length + 1 := by rw [hf]; simp
  cases resp <;> try (simpa [reqOn, St.poison] using this)
  cases r <;> simpa [reqOn] using this

theorem chinfoLoop_sent (i : Nat) : ∀ (k : Nat) (s : St), (chinfoLoop s i k).2.sent.length ≤ s.sent.length + k
  | 0, s => by simp [chinfoLoop]
  | k + 1, s => by
    have hr := request_sent s (.chinfo i) chinfoTimeout
    unfold chinfoLoop
    rcases h1 : request s (.chinfo i) chinfoTimeout with ⟨g, a⟩
    rw [h1] at hr
    simp only at hr
    cases g with
    | answer => simp only; omega
    | raise x => simp only; omega
    | nothing => have := chinfoLoop_sent i k a; simp only; omega

theorem chinfoAll_sent : ∀ (m i : Nat) (s : St), (chinfoAll s i m).2.sent.length ≤ s.sent.length + m * chinfoAttempts
  | 0, i, s => by simp [chinfoAll]
  | m + 1, i, s => by
    have hr := chinfoLoop_sent i chinfoAttempts s
    unfold chinfoAll
    rcases h1 : chinfoLoop s i chinfoAttempts with ⟨g, a⟩
    rw [h1] at hr
    simp only at hr
    rw [Nat.succ_mul]
    cases g with
    | answer => have := chinfoAll_sent m (i + 1) a; simp only; omega
    | raise x => simp only; omega
    | nothing => simp only; omega

/-- requests written by one `_devinfo_get`, worst case: common-info, padding set-up, channels × tries -/
def attemptWrites (chmax : Nat) : Nat := chmax * chinfoAttempts + 2

theorem devinfoGet_sent (dev : DevDesc) (s : St) :
    (devinfoGet dev s).2.sent.length ≤ s.sent.length + attemptWrites dev.chmax := by
  have hr := request_sent s .cmninfo cmninfoTimeout
  unfold devinfoGet attemptWrites
  rcases h1 : request s .cmninfo cmninfoTimeout with ⟨g, a⟩
  rw [h1] at hr
  simp only at hr
  cases g with
  | raise x => simp only; omega
  | nothing => simp only; omega
  | answer =>
    simp only
    refine Nat.le_trans (chinfoAll_sent dev.chmax 0 _) ?_
    have : (dropAll (if dev.rxpadding > 0 ∧ a.padding ≠ dev.rxpadding then
        { a with padding := dev.rxpadding, sent := a.sent ++ [.padding dev.rxpadding] } else a)).sent.length
          ≤ a.sent.length + 1 := by
      by_cases c : dev.rxpadding > 0 ∧ a.padding ≠ dev.rxpadding
      · rw [if_pos c]; simp [dropAll]
      · rw [if_neg c]; simp [dropAll]
    omega

theorem connectLoop_sent (dev : DevDesc) : ∀ (k : Nat) (s : St),
    (connectLoop dev s k).2.sent.length ≤ s.sent.length + k * attemptWrites dev.chmax
  | 0, s => by simp [connectLoop]
  | k + 1, s => by
    have hr := devinfoGet_sent dev s
    unfold connectLoop
    rcases h1 : devinfoGet dev s with ⟨g, a⟩
    rw [h1] at hr
    simp only at hr
    rw [Nat.succ_mul]
    cases g with
    | answer => simp only; omega
    | raise x => simp only; omega
    | nothing => have := connectLoop_sent dev k a; simp only; omega

theorem connect_sent_le (dev : DevDesc) (script : List Resp) (dflt : Resp) :
    (connect dev script dflt).sent.length ≤ 1 + connectAttempts * attemptWrites dev.chmax := by
  have hr := connectLoop_sent dev connectAttempts (dropAll { script := script, dflt := dflt, sent := [.stop] })
  unfold connect
  simp only
  rcases h1 : connectLoop dev (dropAll { script := script, dflt := dflt, sent := [.stop] }) connectAttempts with ⟨o, a⟩
  rw [h1] at hr
  have h0 : (dropAll { script := script, dflt := dflt, sent := [.stop] }).sent.length = 1 := rfl
  rw [h0] at hr
  simp only at hr
  cases o <;> (simp only; omega)

/-! ### the time bound as a closed form of its parameters -/

/-- first drain + attempts × (common-info wait + drain + channels × tries × channel-info wait) -/
def boundP (drain cmnT chT attempts tries chmax : Nat) : Nat :=
  drain + attempts * (cmnT + drain + chmax * tries * chT)

theorem boundP_mono {d d' a a' b b' c c' e e' n n' : Nat}
    (hd : d ≤ d') (ha : a ≤ a') (hb : b ≤ b') (hc : c ≤ c') (he : e ≤ e') (hn : n ≤ n') :
    boundP d a b c e n ≤ boundP d' a' b' c' e' n' := by
  unfold boundP
  exact Nat.add_le_add hd (Nat.mul_le_mul hc
    (Nat.add_le_add (Nat.add_le_add ha hd) (Nat.mul_le_mul (Nat.mul_le_mul hn he) hb)))

/-! ### the sharp time bound

`bound` charges every attempt the common-info wait AND the channel loops; but an attempt whose common-info
request timed out never reaches the channel loops, and a channel that is answered cannot have used all
its tries.  Numerals: the generated time-outs (10) and counters (6). -/

theorem request_time_of_not_nothing (s : St) (r : Req) (t : Nat) (h : (request s r t).1 ≠ .nothing) :
    (request s r t).2.time = s.time := by
  rw [request_eq] at h ⊢
  have hf := (next_fields ({ s with sent := s.sent ++ [r] } : St)).1
  generalize ({ s with sent := s.sent ++ [r] } : St).next.1 = resp at h ⊢
  generalize ({ s with sent := s.sent ++ [r] } : St).next.2 = a at hf h ⊢
  have hf' : a.time = s.time := hf
  cases resp <;> first | (exact absurd rfl h) | skip
  · exact hf'
  · exact hf'
  · cases r <;> exact hf'

theorem chinfoLoop_time_sharp (i : Nat) : ∀ (k : Nat) (s : St),
    ((chinfoLoop s i k).1 = .nothing → (chinfoLoop s i k).2.time ≤ s.time + k * 10) ∧
    ((chinfoLoop s i k).1 ≠ .nothing → (chinfoLoop s i k).2.time + 10 ≤ s.time + k * 10)
  | 0, s => by simp [chinfoLoop]
  | k + 1, s => by
    have hle : (request s (.chinfo i) chinfoTimeout).2.time ≤ s.time + 10 := request_time_le s _ _
    have heq := request_time_of_not_nothing s (.chinfo i) chinfoTimeout
    unfold chinfoLoop
    rcases h1 : request s (.chinfo i) chinfoTimeout with ⟨g, a⟩
    rw [h1] at hle heq
    simp only at hle heq
    cases g with
    | answer => have := heq (by simp); simp only; exact ⟨by simp, fun _ => by omega⟩
    | raise x => have := heq (by simp); simp only; exact ⟨by simp, fun _ => by omega⟩
    | nothing =>
      obtain ⟨i1, i2⟩ := chinfoLoop_time_sharp i k a
      simp only
      exact ⟨fun h => by have := i1 h; omega, fun h => by have := i2 h; omega⟩

theorem chinfoAll_time_sharp : ∀ (m i : Nat) (s : St),
    ((chinfoAll s i m).1 = .answer → (chinfoAll s i m).2.time ≤ s.time + m * 50) ∧
    ((chinfoAll s i m).1 ≠ .answer → 1 ≤ m ∧ (chinfoAll s i m).2.time ≤ s.time + (m - 1) * 50 + 60)
  | 0, i, s => by simp [chinfoAll]
  | m + 1, i, s => by
    have hl := chinfoLoop_time_sharp i chinfoAttempts s
    have e6 : chinfoAttempts * 10 = 60 := rfl
    rw [e6] at hl
    unfold chinfoAll
    rcases h1 : chinfoLoop s i chinfoAttempts with ⟨g, a⟩
    rw [h1] at hl
    simp only at hl
    cases g with
    | answer =>
      have h50 := hl.2 (by simp)
      obtain ⟨i1, i2⟩ := chinfoAll_time_sharp m (i + 1) a
      simp only
      refine ⟨fun h => by have := i1 h; omega, fun h => ?_⟩
      obtain ⟨j1, j2⟩ := i2 h
      refine ⟨by omega, ?_⟩
      have : m + 1 - 1 = (m - 1) + 1 := by omega
      rw [this, Nat.succ_mul]; omega
    | raise x =>
      have h50 := hl.2 (by simp)
      simp only
      exact ⟨by simp, fun _ => ⟨by omega, by omega⟩⟩
    | nothing =>
      have h60 := hl.1 rfl
      simp only
      exact ⟨by simp, fun _ => ⟨by omega, by omega⟩⟩

/-- worst case of one `_devinfo_get`: the common-info wait alone, or (answered at once) the drain, every channel
    but the last answered at its last try, the last one never -/
def attemptSharp (chmax : Nat) : Nat := if chmax = 0 then 10 else 18 + chmax * 50

theorem devinfoGet_time_sharp (dev : DevDesc) (s : St) :
    (devinfoGet dev s).2.time ≤ s.time + attemptSharp dev.chmax := by
  have hle : (request s .cmninfo cmninfoTimeout).2.time ≤ s.time + 10 := request_time_le s _ _
  have heq := request_time_of_not_nothing s .cmninfo cmninfoTimeout
  have h10 : 10 ≤ attemptSharp dev.chmax := by unfold attemptSharp; split <;> omega
  unfold devinfoGet
  rcases h1 : request s .cmninfo cmninfoTimeout with ⟨g, a⟩
  rw [h1] at hle heq
  simp only at hle heq
  cases g with
  | raise x => simp only; omega
  | nothing => simp only; omega
  | answer =>
    have ha : a.time = s.time := heq (by simp)
    simp only
    generalize hb : (if dev.rxpadding > 0 ∧ a.padding ≠ dev.rxpadding then
        ({ a with padding := dev.rxpadding, sent := a.sent ++ [.padding dev.rxpadding] } : St) else a) = b
    have hbt : b.time = a.time := by
      rw [← hb]; split <;> rfl
    have hd : (dropAll b).time = s.time + 8 := by
      rw [dropAll_time, drain_eq, hbt, ha]
    obtain ⟨i1, i2⟩ := chinfoAll_time_sharp dev.chmax 0 (dropAll b)
    by_cases c : (chinfoAll (dropAll b) 0 dev.chmax).1 = .answer
    · have := i1 c
      unfold attemptSharp; split <;> omega
    · obtain ⟨j1, j2⟩ := i2 c
      unfold attemptSharp
      rw [if_neg (by omega)]
      omega

theorem connectLoop_time_sharp (dev : DevDesc) : ∀ (k : Nat) (s : St),
    (connectLoop dev s k).2.time ≤ s.time + k * attemptSharp dev.chmax
  | 0, s => by simp [connectLoop]
  | k + 1, s => by
    have hr := devinfoGet_time_sharp dev s
    unfold connectLoop
    rcases h1 : devinfoGet dev s with ⟨g, a⟩
    rw [h1] at hr
    simp only at hr
    rw [Nat.succ_mul]
    cases g with
    | answer => simp only; omega
    | raise x => simp only; omega
    | nothing => have := connectLoop_time_sharp dev k a; simp only; omega

/-- 0.8 s + 6 × (1 s for a device without channels, else 1.8 s + chmax × 5 s) -/
def sharpBound (chmax : Nat) : Nat := 8 + 6 * attemptSharp chmax

theorem connect_time_sharp (dev : DevDesc) (script : List Resp) (dflt : Resp) :
    (connect dev script dflt).time ≤ sharpBound dev.chmax := by
  have hr := connectLoop_time_sharp dev connectAttempts (dropAll { script := script, dflt := dflt, sent := [.stop] })
  have h0 : (dropAll { script := script, dflt := dflt, sent := [.stop] }).time = 8 := rfl
  have e6 : connectAttempts = 6 := rfl
  rw [h0, e6] at hr
  unfold connect sharpBound
  simp only
  rw [e6]
  rcases h1 : connectLoop dev (dropAll { script := script, dflt := dflt, sent := [.stop] }) 6 with ⟨o, a⟩
  rw [h1] at hr
  simp only at hr
  cases o <;> (simp only; omega)

theorem sharpBound_le_bound (chmax : Nat) : sharpBound chmax ≤ bound chmax := by
  rw [bound_num]; unfold sharpBound attemptSharp; split <;> omega

/-! ### the sharp bound is attained, for every number of channels -/

/-- a channel answered at its last try -/
def lateOk : List Resp := [.silent, .silent, .silent, .silent, .silent, .ok]
/-- a channel never answered -/
def never : List Resp := [.silent, .silent, .silent, .silent, .silent, .silent]

def lateOks : Nat → List Resp → List Resp
  | 0, rest => rest
  | n + 1, rest => lateOk ++ lateOks n rest

/-- `k` worst attempts against a device with `n + 1` channels: common-info answered at once, `n` channels
    answered at the last try, the last channel never -/
def worstScript (n : Nat) : Nat → List Resp
  | 0 => []
  | k + 1 => .ok :: lateOks n (never ++ worstScript n k)

theorem chinfoLoop_lateOk (tm : Nat) (sn rest : List _) (d : Resp) (p i : Nat) :
    ∃ sn', chinfoLoop ⟨tm, sn, lateOk ++ rest, d, p⟩ i 6 = (.answer, ⟨tm + 50, sn', rest, d, p⟩) :=
  ⟨_, rfl⟩

theorem chinfoLoop_never (tm : Nat) (sn rest : List _) (d : Resp) (p i : Nat) :
    ∃ sn', chinfoLoop ⟨tm, sn, never ++ rest, d, p⟩ i 6 = (.nothing, ⟨tm + 60, sn', rest, d, p⟩) :=
  ⟨_, rfl⟩

theorem chinfoAll_worst (rest : List Resp) (d : Resp) (p : Nat) : ∀ (n i tm : Nat) (sn : List Req),
    ∃ sn', chinfoAll ⟨tm, sn, lateOks n (never ++ rest), d, p⟩ i (n + 1) =
      (.nothing, ⟨tm + (n * 50 + 60), sn', rest, d, p⟩)
  | 0, i, tm, sn => by
    obtain ⟨sn', h⟩ := chinfoLoop_never tm sn rest d p i
    refine ⟨sn', ?_⟩
    have e6 : chinfoAttempts = 6 := rfl
    unfold chinfoAll
    rw [e6]
    show (match chinfoLoop ⟨tm, sn, never ++ rest, d, p⟩ i 6 with
      | (.answer, s') => chinfoAll s' (i + 1) 0
      | other => other) = _
    rw [h]
  | n + 1, i, tm, sn => by
    obtain ⟨sn1, h⟩ := chinfoLoop_lateOk tm sn (lateOks n (never ++ rest)) d p i
    obtain ⟨sn', ih⟩ := chinfoAll_worst rest d p n (i + 1) (tm + 50) sn1
    refine ⟨sn', ?_⟩
    have e6 : chinfoAttempts = 6 := rfl
    unfold chinfoAll
    rw [e6]
    show (match chinfoLoop ⟨tm, sn, lateOk ++ lateOks n (never ++ rest), d, p⟩ i 6 with
      | (.answer, s') => chinfoAll s' (i + 1) (n + 1)
      | other => other) = _
    rw [h]
    simp only
    rw [ih]
    have : tm + 50 + (n * 50 + 60) = tm + ((n + 1) * 50 + 60) := by omega
    rw [this]

theorem devinfoGet_worst (dev : DevDesc) (n : Nat) (hn : dev.chmax = n + 1) (rest : List Resp) (d : Resp)
    (tm : Nat) (sn : List Req) (p : Nat) :
    ∃ sn' p', devinfoGet dev ⟨tm, sn, .ok :: lateOks n (never ++ rest), d, p⟩ =
      (.nothing, ⟨tm + (n * 50 + 68), sn', rest, d, p'⟩) := by
  unfold devinfoGet
  rw [hn]
  show ∃ sn' p', (match ((Got.answer, (⟨tm, sn ++ [.cmninfo], lateOks n (never ++ rest), d, p⟩ : St)) : Got × St) with
      | (.answer, s1) =>
        let s2 :=
          if dev.rxpadding > 0 ∧ s1.padding ≠ dev.rxpadding then
            { s1 with padding := dev.rxpadding, sent := s1.sent ++ [Req.padding dev.rxpadding] }
          else s1
        chinfoAll (dropAll s2) 0 (n + 1)
      | other => other) = _
  simp only
  by_cases c : dev.rxpadding > 0 ∧ p ≠ dev.rxpadding
  · rw [if_pos c]
    obtain ⟨sn', h⟩ := chinfoAll_worst rest d dev.rxpadding n 0 (tm + 8) (sn ++ [Req.cmninfo] ++ [Req.padding dev.rxpadding])
    refine ⟨sn', dev.rxpadding, ?_⟩
    show chinfoAll ⟨tm + 8, sn ++ [.cmninfo] ++ [.padding dev.rxpadding], lateOks n (never ++ rest), d, dev.rxpadding⟩ 0 (n + 1) = _
    rw [h]
    have : tm + 8 + (n * 50 + 60) = tm + (n * 50 + 68) := by omega
    rw [this]
  · rw [if_neg c]
    obtain ⟨sn', h⟩ := chinfoAll_worst rest d p n 0 (tm + 8) (sn ++ [.cmninfo])
    refine ⟨sn', p, ?_⟩
    show chinfoAll ⟨tm + 8, sn ++ [.cmninfo], lateOks n (never ++ rest), d, p⟩ 0 (n + 1) = _
    rw [h]
    have : tm + 8 + (n * 50 + 60) = tm + (n * 50 + 68) := by omega
    rw [this]

theorem connectLoop_worst (dev : DevDesc) (n : Nat) (hn : dev.chmax = n + 1) (d : Resp) :
    ∀ (k tm : Nat) (sn : List Req) (p : Nat),
      (connectLoop dev ⟨tm, sn, worstScript n k, d, p⟩ k).1 = .raised .timeout ∧
      (connectLoop dev ⟨tm, sn, worstScript n k, d, p⟩ k).2.time = tm + k * (n * 50 + 68)
  | 0, tm, sn, p => by simp [connectLoop]
  | k + 1, tm, sn, p => by
    obtain ⟨sn', p', h⟩ := devinfoGet_worst dev n hn (worstScript n k) d tm sn p
    obtain ⟨i1, i2⟩ := connectLoop_worst dev n hn d k (tm + (n * 50 + 68)) sn' p'
    unfold connectLoop
    show (match devinfoGet dev ⟨tm, sn, .ok :: lateOks n (never ++ worstScript n k), d, p⟩ with
      | (.answer, s') => (Outcome.connected dev.chmax dev.flags dev.rxpadding, s')
      | (.raise e, s') => (.raised e, s')
      | (.nothing, s') => connectLoop dev s' k).1 = _ ∧ (match devinfoGet dev ⟨tm, sn, .ok :: lateOks n (never ++ worstScript n k), d, p⟩ with
      | (.answer, s') => (Outcome.connected dev.chmax dev.flags dev.rxpadding, s')
      | (.raise e, s') => (.raised e, s')
      | (.nothing, s') => connectLoop dev s' k).2.time = _
    rw [h]
    simp only
    refine ⟨i1, ?_⟩
    rw [i2, Nat.succ_mul]; omega

theorem connect_worst (dev : DevDesc) (n : Nat) (hn : dev.chmax = n + 1) (d : Resp) :
    (connect dev (worstScript n 6) d).outcome = .raised .timeout ∧
    (connect dev (worstScript n 6) d).time = sharpBound dev.chmax := by
  obtain ⟨i1, i2⟩ := connectLoop_worst dev n hn d 6 8 [.stop] 0
  have e6 : connectAttempts = 6 := rfl
  unfold connect
  simp only
  rw [e6]
  show (match connectLoop dev ⟨8, [.stop], worstScript n 6, d, 0⟩ 6 with
    | (.connected a b c, s) => (⟨.connected a b c, s.time, s.sent, true, true⟩ : Result)
    | (.raised e, s) => ⟨.raised e, s.time, s.sent, !startCleansUp, !startCleansUp⟩).outcome = _ ∧
    (match connectLoop dev ⟨8, [.stop], worstScript n 6, d, 0⟩ 6 with
    | (.connected a b c, s) => (⟨.connected a b c, s.time, s.sent, true, true⟩ : Result)
    | (.raised e, s) => ⟨.raised e, s.time, s.sent, !startCleansUp, !startCleansUp⟩).time = _
  rcases h1 : connectLoop dev ⟨8, [.stop], worstScript n 6, d, 0⟩ 6 with ⟨o, a⟩
  rw [h1] at i1 i2
  simp only at i1 i2
  subst i1
  simp only
  refine ⟨trivial, ?_⟩
  rw [i2, hn]
  unfold sharpBound attemptSharp
  rw [if_neg (by omega)]; omega

end Handshake
end Nxs
