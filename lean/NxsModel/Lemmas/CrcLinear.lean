/-
  CRC-16/XMODEM as a GF(2)-linear shift register (for property C02).

  * `crcReg_xor`       : the register update is linear in (register, input)
  * `crc16xmodem_xor`  : hence crc (w ⊕ e) = crc w ⊕ crc e
  * bit-level view     : `T` is the zero-input step (multiplication by x modulo the generator),
    `shiftIn r b = T r ⊕ b` the "remainder" step, `rem r bits` the remainder after the bits;
    `crc16xmodem bs = Tpow 16 (rem 0 (bitsOf bs))` (`crc16xmodem_eq_rem`), and since `T` is
    injective: `crc16xmodem bs = 0 ↔ rem 0 (bitsOf bs) = 0`.
  * parity             : `par (rem r bits) = par r ⊕ (number of set bits odd)`
-/
import NxsModel.Crc
import NxsModel.Spec.Bits
namespace Nxs

/-! ### linearity of one bit step -/

theorem xcancel (p x : BitVec 16) : p ^^^ (p ^^^ x) = x := by
  rw [← BitVec.xor_assoc, BitVec.xor_self, BitVec.zero_xor]

theorem crcStepBit_xor (p a b : BitVec 16) :
    crcStepBit p (a ^^^ b) = crcStepBit p a ^^^ crcStepBit p b := by
  unfold crcStepBit
  rw [BitVec.msb_xor, BitVec.shiftLeft_xor_distrib]
  cases a.msb <;> cases b.msb <;> simp <;> (try ac_nf) <;> (try rw [xcancel])

theorem crcStepBit_zero (p : BitVec 16) : crcStepBit p 0 = 0 := by
  simp [crcStepBit]

theorem iter8_crcStepBit_xor (p a b : BitVec 16) :
    iter8 (crcStepBit p) (a ^^^ b) = iter8 (crcStepBit p) a ^^^ iter8 (crcStepBit p) b := by
  simp only [iter8, crcStepBit_xor]

/-! ### linearity at byte / byte string level -/

theorem crcStepByte_xor (p a b : BitVec 16) (x y : Byte) :
    crcStepByte p (a ^^^ b) (x ^^^ y) = crcStepByte p a x ^^^ crcStepByte p b y := by
  unfold crcStepByte
  rw [← iter8_crcStepBit_xor]
  congr 1
  have h : BitVec.zeroExtend 16 (x ^^^ y) = BitVec.zeroExtend 16 x ^^^ BitVec.zeroExtend 16 y := by
    ext i hi; simp
  rw [h, BitVec.shiftLeft_xor_distrib]
  ac_rfl

theorem crcReg_xor (p : BitVec 16) (xs ys : Bytes) (h : xs.length = ys.length) (a b : BitVec 16) :
    crcReg p (a ^^^ b) (xorBytes xs ys) = crcReg p a xs ^^^ crcReg p b ys := by
  induction xs generalizing ys a b with
  | nil =>
    cases ys with
    | nil => simp [crcReg, xorBytes]
    | cons y ys => simp at h
  | cons x xs ih =>
    cases ys with
    | nil => simp at h
    | cons y ys =>
      have h' : xs.length = ys.length := by simpa using h
      have := ih ys h' (crcStepByte p a x) (crcStepByte p b y)
      simp only [crcReg, xorBytes, List.zipWith_cons_cons, List.foldl_cons] at this ⊢
      rw [crcStepByte_xor, this]

/-- the CRC of a corrupted string is the CRC of the string xor the CRC of the error pattern -/
theorem crc16xmodem_xor (w e : Bytes) (h : e.length = w.length) :
    crc16xmodem (xorBytes w e) = crc16xmodem w ^^^ crc16xmodem e := by
  unfold crc16xmodem
  have := crcReg_xor 0x1021 w e h.symm 0 0
  rwa [BitVec.xor_self] at this

/-! ### bit-level view -/

/-- the zero-input step of the register: multiplication by `x` modulo the generator -/
def T (r : BitVec 16) : BitVec 16 := crcStepBit 0x1021 r

/-- `n` zero-input steps -/
def Tpow : Nat → BitVec 16 → BitVec 16
  | 0, r => r
  | n + 1, r => Tpow n (T r)

/-- remainder step: multiply by `x`, add the next bit (coefficient), reduce -/
def shiftIn (r : BitVec 16) (b : Bool) : BitVec 16 := T r ^^^ (if b then 1 else 0)

/-- remainder of (register · x^n + bits) modulo the generator -/
def rem (r : BitVec 16) (bits : List Bool) : BitVec 16 := bits.foldl shiftIn r

theorem T_xor (a b : BitVec 16) : T (a ^^^ b) = T a ^^^ T b := crcStepBit_xor _ a b
theorem T_zero : T 0 = 0 := crcStepBit_zero _

theorem Tpow_xor (n : Nat) (a b : BitVec 16) : Tpow n (a ^^^ b) = Tpow n a ^^^ Tpow n b := by
  induction n generalizing a b with
  | zero => rfl
  | succ n ih => simp only [Tpow, T_xor, ih]

theorem Tpow_zero (n : Nat) : Tpow n 0 = 0 := by
  induction n with
  | zero => rfl
  | succ n ih => simp only [Tpow, T_zero, ih]

theorem Tpow_add (m n : Nat) (r : BitVec 16) : Tpow (m + n) r = Tpow n (Tpow m r) := by
  induction m generalizing r with
  | zero => simp [Tpow]
  | succ m ih => rw [Nat.succ_add]; simp only [Tpow, ih]

theorem Tpow_succ' (n : Nat) (r : BitVec 16) : Tpow (n + 1) r = T (Tpow n r) := by
  rw [Tpow_add]; rfl

theorem Tpow_comm (m n : Nat) (r : BitVec 16) : Tpow m (Tpow n r) = Tpow n (Tpow m r) := by
  rw [← Tpow_add, ← Tpow_add, Nat.add_comm]

theorem iter8_eq_Tpow (r : BitVec 16) : iter8 (crcStepBit 0x1021) r = Tpow 8 r := rfl

theorem rem_nil (r : BitVec 16) : rem r [] = r := rfl
theorem rem_cons (r : BitVec 16) (b : Bool) (l : List Bool) :
    rem r (b :: l) = rem (shiftIn r b) l := rfl
theorem rem_append (r : BitVec 16) (l₁ l₂ : List Bool) :
    rem r (l₁ ++ l₂) = rem (rem r l₁) l₂ := by
  simp [rem, List.foldl_append]

theorem shiftIn_false (r : BitVec 16) : shiftIn r false = T r := by simp [shiftIn]

theorem rem_replicate_false (r : BitVec 16) (n : Nat) :
    rem r (List.replicate n false) = Tpow n r := by
  induction n generalizing r with
  | zero => rfl
  | succ n ih => rw [List.replicate_succ, rem_cons, shiftIn_false, ih]; rfl

/-- `rem` is affine in the start register -/
theorem rem_eq (r : BitVec 16) (l : List Bool) : rem r l = Tpow l.length r ^^^ rem 0 l := by
  induction l generalizing r with
  | nil => simp [rem, Tpow]
  | cons b l ih =>
    rw [rem_cons, ih, rem_cons, ih (shiftIn 0 b)]
    simp only [shiftIn, T_zero, Tpow_xor, List.length_cons, Tpow, Tpow_zero]
    simp [BitVec.xor_assoc]

/-- the 256-case base fact behind the byte ↔ bit bridge -/
theorem bridge_base (b : Byte) :
    Tpow 8 (b.zeroExtend 16 <<< 8) = Tpow 16 (rem 0 (byteBits b)) := by
  revert b; decide +kernel

theorem byteBits_length (b : Byte) : (byteBits b).length = 8 := rfl

/-- one byte step of the table-free CRC equals shifting in its eight bits, MSB first
(both sides seen through the injective `Tpow 16`) -/
theorem crcStepByte_Tpow16 (r : BitVec 16) (b : Byte) :
    crcStepByte 0x1021 (Tpow 16 r) b = Tpow 16 (rem r (byteBits b)) := by
  unfold crcStepByte
  rw [iter8_eq_Tpow, Tpow_xor, bridge_base, rem_eq r, Tpow_xor, byteBits_length, Tpow_comm]

theorem bitsOf_cons (b : Byte) (bs : Bytes) : bitsOf (b :: bs) = byteBits b ++ bitsOf bs := by
  simp [bitsOf]

theorem bitsOf_length (bs : Bytes) : (bitsOf bs).length = 8 * bs.length := by
  induction bs with
  | nil => rfl
  | cons b bs ih => rw [bitsOf_cons, List.length_append, ih, byteBits_length, List.length_cons]; omega

theorem crcReg_Tpow16 (r : BitVec 16) (bs : Bytes) :
    crcReg 0x1021 (Tpow 16 r) bs = Tpow 16 (rem r (bitsOf bs)) := by
  induction bs generalizing r with
  | nil => rfl
  | cons b bs ih =>
    rw [bitsOf_cons, rem_append, ← ih]
    simp only [crcReg, List.foldl_cons]
    rw [crcStepByte_Tpow16]

/-- the CRC is `x^16 ·` (message polynomial) modulo the generator -/
theorem crc16xmodem_eq_rem (bs : Bytes) : crc16xmodem bs = Tpow 16 (rem 0 (bitsOf bs)) := by
  unfold crc16xmodem
  rw [← crcReg_Tpow16, Tpow_zero]

/-! ### the zero-input step is injective -/

theorem T_toNat (r : BitVec 16) :
    (T r).toNat = ((2 * r.toNat) % 65536) ^^^ (0x1021 * (r.toNat / 32768)) := by
  have hr := r.isLt
  unfold T crcStepBit
  by_cases h : r.msb = true
  · have h2 : 32768 ≤ r.toNat := by
      have := (BitVec.msb_eq_true_iff_two_mul_ge).1 h
      omega
    have h3 : r.toNat / 32768 = 1 := by omega
    rw [if_pos h, BitVec.toNat_xor, BitVec.toNat_shiftLeft, h3, Nat.shiftLeft_eq]
    simp
    congr 1
    omega
  · have h2 : r.toNat < 32768 := by
      have h' : r.msb = false := by simpa using h
      have := (BitVec.msb_eq_false_iff_two_mul_lt).1 h'
      omega
    have h3 : r.toNat / 32768 = 0 := by omega
    rw [if_neg h, BitVec.toNat_shiftLeft, h3, Nat.shiftLeft_eq]
    rw [Nat.mul_zero, Nat.xor_zero]
    omega

theorem T_eq_zero {r : BitVec 16} (h : T r = 0) : r = 0 := by
  have hr := r.isLt
  unfold T crcStepBit at h
  apply BitVec.eq_of_toNat_eq
  have h0 : (0 : BitVec 16).toNat = 0 := rfl
  rw [h0]
  by_cases hm : r.msb = true
  · rw [if_pos hm] at h
    have h1 := BitVec.xor_eq_zero_iff.1 h
    have h2 := congrArg BitVec.toNat h1
    rw [BitVec.toNat_shiftLeft, Nat.shiftLeft_eq] at h2
    have h3 : (0x1021 : BitVec 16).toNat = 4129 := rfl
    rw [h3] at h2
    omega
  · have h2 : r.toNat < 32768 := by
      have h' : r.msb = false := by simpa using hm
      have := (BitVec.msb_eq_false_iff_two_mul_lt).1 h'
      omega
    rw [if_neg hm] at h
    have h3 := congrArg BitVec.toNat h
    rw [BitVec.toNat_shiftLeft, Nat.shiftLeft_eq, h0] at h3
    omega

theorem T_ne_zero {r : BitVec 16} (h : r ≠ 0) : T r ≠ 0 := fun h' => h (T_eq_zero h')

theorem Tpow_ne_zero (n : Nat) {r : BitVec 16} (h : r ≠ 0) : Tpow n r ≠ 0 := by
  induction n generalizing r with
  | zero => exact h
  | succ n ih => exact ih (T_ne_zero h)

theorem Tpow_eq_zero_iff (n : Nat) (r : BitVec 16) : Tpow n r = 0 ↔ r = 0 := by
  constructor
  · intro h
    apply Classical.byContradiction
    intro hr
    exact Tpow_ne_zero n hr h
  · intro h; rw [h, Tpow_zero]

theorem crc16xmodem_eq_zero_iff (bs : Bytes) : crc16xmodem bs = 0 ↔ rem 0 (bitsOf bs) = 0 := by
  rw [crc16xmodem_eq_rem, Tpow_eq_zero_iff]

/-! ### parity -/

/-- xor of the register bits at the listed positions -/
def parL (r : BitVec 16) (l : List Nat) : Bool := l.foldr (fun i acc => r.getLsbD i ^^ acc) false

/-- parity of the number of set bits of the register -/
def par (r : BitVec 16) : Bool := parL r [0, 1, 2, 3, 4, 5, 6, 7, 8, 9, 10, 11, 12, 13, 14, 15]

theorem parL_xor (a b : BitVec 16) (l : List Nat) : parL (a ^^^ b) l = (parL a l ^^ parL b l) := by
  induction l with
  | nil => rfl
  | cons i l ih =>
    simp only [parL, List.foldr_cons, BitVec.getLsbD_xor] at ih ⊢
    rw [ih]
    generalize a.getLsbD i = x, b.getLsbD i = y
    generalize List.foldr (fun i acc => a.getLsbD i ^^ acc) false l = u
    generalize List.foldr (fun i acc => b.getLsbD i ^^ acc) false l = v
    cases x <;> cases y <;> cases u <;> cases v <;> rfl

theorem par_xor (a b : BitVec 16) : par (a ^^^ b) = (par a ^^ par b) := parL_xor a b _

theorem par_shl (r : BitVec 16) : par (r <<< 1) = (par r ^^ r.msb) := by
  simp [par, parL, BitVec.getLsbD_shiftLeft, BitVec.msb_eq_getLsbD_last]

theorem par_consts : par (0#16) = false ∧ par (1#16) = true ∧ par (4129#16) = true := by decide

theorem par_T (r : BitVec 16) : par (T r) = par r := by
  unfold T crcStepBit
  cases h : r.msb
  · simp [par_shl, h]
  · simp [par_xor, par_shl, h, par_consts]

theorem par_shiftIn (r : BitVec 16) (b : Bool) : par (shiftIn r b) = (par r ^^ b) := by
  unfold shiftIn
  rw [par_xor, par_T]
  cases b <;> simp [par_consts]

theorem par_rem (r : BitVec 16) (l : List Bool) :
    par (rem r l) = (par r ^^ decide (l.count true % 2 = 1)) := by
  induction l generalizing r with
  | nil => simp [rem]
  | cons b l ih =>
    rw [rem_cons, ih, par_shiftIn]
    cases b
    · simp
    · simp only [List.count_cons_self, Bool.xor_assoc]
      congr 1
      by_cases h : l.count true % 2 = 1
      · have : ¬ (l.count true + 1) % 2 = 1 := by omega
        simp [h, this]
      · have : (l.count true + 1) % 2 = 1 := by omega
        simp [h, this]

end Nxs
