/-
  Lemmas for C12: no deadlock in the wait-for graph with lock waits, queue waits and joins
  (`Locks.WDeadlocked`), from decidable facts of a lock-discipline table.
-/
import NxsModel.Locks
import NxsModel.Lemmas.Locks
namespace Nxs
namespace LocksLemmas
open Locks

/-- the facts of a table the argument uses -/
structure WaitFacts (tbl : Table) : Prop where
  ranked : nestingRespectsRank tbl = true
  prodFree : producersLockFree tbl = true
  joinsFree : joinsLockFree tbl = true
  joinBodies : joinTargetsAreBodies tbl = true
  bodies : bodiesNeverWaitForever tbl = true
  foreverProd : foreverGetsProduced tbl = true
  subProd : subProduced tbl = true

/-- rank of the lock a thread waits for, plus one (0 if it does not wait for a lock) -/
def lockWaitRank (t : XThr) : Nat :=
  match t.waits with
  | some (.lock l) => l.rank + 1
  | _ => 0

theorem mem_producersOf {tbl : Table} {q : QueueId} {x : ThreadBody} (hx : x ∈ tbl.threads)
    (hp : x.produces.contains q = true) : x.tid ∈ producersOf tbl q :=
  List.mem_map.mpr ⟨x, List.mem_filter.mpr ⟨hx, hp⟩, rfl⟩

section
variable {tbl : Table} (hF : WaitFacts tbl) {S : List XThr} (hfit : ∀ t ∈ S, Fits tbl t)
  (hD : ∀ t ∈ S, Stuck (producersOf tbl) S t)
include hF hfit hD

/-- a library thread whose body takes no lock is never stuck -/
theorem lockFree_body_not_stuck {u : XThr} (hu : u ∈ S) {x : ThreadBody} (hx : x ∈ tbl.threads)
    (htid : x.tid = u.tid) (hl : x.locks = []) : False := by
  obtain ⟨b1, b2, b3, b4⟩ := (hfit u hu).body x hx htid
  have hholds : u.holds = [] := by
    cases hh : u.holds with
    | nil => rfl
    | cons h r =>
      have := b1 h (by rw [hh]; exact List.mem_cons_self ..)
      rw [hl] at this; nomatch this
  have hb := List.all_eq_true.mp hF.bodies x hx
  have hfg : x.foreverGets = [] := by
    have := (Bool.and_eq_true_iff.mp hb).1
    exact List.isEmpty_iff.mp this
  have hj : x.joins = [] := by
    have := (Bool.and_eq_true_iff.mp hb).2
    exact List.isEmpty_iff.mp this
  have hs := hD u hu
  unfold Stuck at hs
  cases hw : u.waits with
  | none => rw [hw] at hs; exact hs
  | some w =>
    cases w with
    | lock l => have := b2 l hw; rw [hl] at this; nomatch this
    | queue q b =>
      rw [hw] at hs
      rcases hs.1 with hb0 | hne
      · subst hb0
        have := b3 q hw; rw [hfg] at this; nomatch this
      · exact hne hholds
    | join j => have := b4 j hw; rw [hj] at this; nomatch this

/-- nobody in a deadlocked set waits on a queue while holding a lock: the producer of such a queue takes
    no lock, never waits without a timeout and never joins -/
theorem no_queue_wait_under_lock {t : XThr} (ht : t ∈ S) {q : QueueId} {b : Bool}
    (hw : t.waits = some (.queue q b)) (hne : t.holds ≠ []) : False := by
  rcases (hfit t ht).queueSite q b hw with ⟨s, hs, hk, hq, -, hheld⟩ | ⟨-, h0, -⟩
  · have hsne : s.held.isEmpty = false := by
      cases hh : t.holds with
      | nil => exact absurd hh hne
      | cons h r =>
        have := hheld h (by rw [hh]; exact List.mem_cons_self ..)
        cases hs' : s.held with
        | nil => rw [hs'] at this; nomatch this
        | cons _ _ => rfl
    have hpf := List.all_eq_true.mp hF.prodFree s hs
    have hpf' : producerFree tbl s.queue = true := by
      rw [hk, hsne] at hpf
      simpa using hpf
    rw [hq] at hpf'
    obtain ⟨hex, hall⟩ := Bool.and_eq_true_iff.mp hpf'
    obtain ⟨x, hx, hxp⟩ := List.any_eq_true.mp hex
    have hxl : x.locks = [] := by
      have := List.all_eq_true.mp hall x hx
      rw [hxp] at this
      exact List.isEmpty_iff.mp (by simpa using this)
    have hst := hD t ht
    unfold Stuck at hst
    rw [hw] at hst
    obtain ⟨u, hu, hut⟩ := hst.2 x.tid (mem_producersOf hx hxp)
    exact lockFree_body_not_stuck hF hfit hD hu hx hut.symm hxl
  · exact hne h0

/-- whoever holds a lock in a deadlocked set waits for a lock -/
theorem holder_waits_lock {t : XThr} (ht : t ∈ S) (hne : t.holds ≠ []) : ∃ l, t.waits = some (.lock l) := by
  have hst := hD t ht
  unfold Stuck at hst
  cases hw : t.waits with
  | none => rw [hw] at hst; exact hst.elim
  | some w =>
    cases w with
    | lock l => exact ⟨l, rfl⟩
    | queue q b => exact (no_queue_wait_under_lock hF hfit hD ht hw hne).elim
    | join j =>
      obtain ⟨s, hs, -, hheld⟩ := (hfit t ht).joinSite j hw
      have hse : s.held = [] := List.isEmpty_iff.mp (List.all_eq_true.mp hF.joinsFree s hs)
      cases hh : t.holds with
      | nil => exact absurd hh hne
      | cons h r =>
        have := hheld h (by rw [hh]; exact List.mem_cons_self ..)
        rw [hse] at this; nomatch this

/-- nobody in a deadlocked set waits for a lock (the rank argument) -/
theorem no_lock_waiter {t : XThr} (ht : t ∈ S) {l : Lock} (hw : t.waits = some (.lock l)) : False := by
  have hne : S ≠ [] := List.ne_nil_of_mem ht
  obtain ⟨m, hm, hmax⟩ := exists_max lockWaitRank S hne
  have hpos : 0 < lockWaitRank m := by
    have h1 : lockWaitRank t = l.rank + 1 := by simp only [lockWaitRank, hw]
    have := hmax t ht
    omega
  -- the maximal thread waits for a lock
  obtain ⟨lm, hlm⟩ : ∃ lm, m.waits = some (.lock lm) := by
    unfold lockWaitRank at hpos
    cases hmw : m.waits with
    | none => rw [hmw] at hpos; exact absurd hpos (Nat.lt_irrefl 0)
    | some w =>
      cases w with
      | lock l' => exact ⟨l', rfl⟩
      | queue q b => rw [hmw] at hpos; exact absurd hpos (Nat.lt_irrefl 0)
      | join j => rw [hmw] at hpos; exact absurd hpos (Nat.lt_irrefl 0)
  have hst := hD m hm
  unfold Stuck at hst
  rw [hlm] at hst
  obtain ⟨u, hu, hlu⟩ := hst
  obtain ⟨l', hl'⟩ := holder_waits_lock hF hfit hD hu (List.ne_nil_of_mem hlu)
  obtain ⟨a, ha, hacq, hheld⟩ := (hfit u hu).lockSite l' hl'
  have hr : Acq.ranked a = true := List.all_eq_true.mp hF.ranked a ha
  have hlt : lm.rank < l'.rank := by
    have := List.all_eq_true.mp hr lm (hheld lm hlu)
    rw [hacq] at this
    exact of_decide_eq_true this
  have h1 : lockWaitRank u = l'.rank + 1 := by simp only [lockWaitRank, hl']
  have h2 : lockWaitRank m = lm.rank + 1 := by simp only [lockWaitRank, hlm]
  have := hmax u hu
  omega

/-- a library thread is never in a deadlocked set -/
theorem body_not_in {u : XThr} (hu : u ∈ S) {x : ThreadBody} (hx : x ∈ tbl.threads) (htid : x.tid = u.tid) : False := by
  obtain ⟨-, -, b3, b4⟩ := (hfit u hu).body x hx htid
  have hb := List.all_eq_true.mp hF.bodies x hx
  have hfg : x.foreverGets = [] := List.isEmpty_iff.mp (Bool.and_eq_true_iff.mp hb).1
  have hj : x.joins = [] := List.isEmpty_iff.mp (Bool.and_eq_true_iff.mp hb).2
  have hs := hD u hu
  unfold Stuck at hs
  cases hw : u.waits with
  | none => rw [hw] at hs; exact hs
  | some w =>
    cases w with
    | lock l => exact no_lock_waiter hF hfit hD hu hw
    | queue q b =>
      rw [hw] at hs
      rcases hs.1 with hb0 | hne
      · subst hb0
        have := b3 q hw; rw [hfg] at this; nomatch this
      · exact no_queue_wait_under_lock hF hfit hD hu hw hne
    | join j => have := b4 j hw; rw [hj] at this; nomatch this

/-- … so a deadlocked set has no member at all -/
theorem no_member {t : XThr} (ht : t ∈ S) : False := by
  have hs := hD t ht
  unfold Stuck at hs
  cases hw : t.waits with
  | none => rw [hw] at hs; exact hs
  | some w =>
    cases w with
    | lock l => exact no_lock_waiter hF hfit hD ht hw
    | queue q b =>
      rw [hw] at hs
      by_cases hne : t.holds = []
      · -- an application thread waiting without timeout: the queue has a producer, a library thread
        have hb0 : b = false := hs.1.resolve_right (fun h => h hne)
        subst hb0
        have hprod : ∃ x ∈ tbl.threads, x.produces.contains q = true := by
          rcases (hfit t ht).queueSite q false hw with ⟨s, hs', hk, hq, hbd, -⟩ | ⟨hq, -, -⟩
          · have := List.all_eq_true.mp hF.foreverProd s hs'
            rw [hk, hbd, hq] at this
            exact List.any_eq_true.mp (by simpa using this)
          · rw [hq]; exact List.any_eq_true.mp hF.subProd
        obtain ⟨x, hx, hxp⟩ := hprod
        obtain ⟨u, hu, hut⟩ := hs.2 x.tid (mem_producersOf hx hxp)
        exact body_not_in hF hfit hD hu hx hut.symm
      · exact no_queue_wait_under_lock hF hfit hD ht hw hne
    | join j =>
      rw [hw] at hs
      obtain ⟨u, hu, hut⟩ := hs
      obtain ⟨s, hs', htgt, -⟩ := (hfit t ht).joinSite j hw
      obtain ⟨x, hx, hxt⟩ := List.any_eq_true.mp (List.all_eq_true.mp hF.joinBodies s hs')
      have : x.tid = u.tid := by
        have e : x.tid = s.target := by simpa using hxt
        rw [e, htgt, hut]
      exact body_not_in hF hfit hD hu hx this

end

/-- the extended no-deadlock lemma -/
theorem waitfor_not_deadlocked {tbl : Table} (hF : WaitFacts tbl) (S : List XThr) (hfit : ∀ t ∈ S, Fits tbl t) :
    ¬ WDeadlocked (producersOf tbl) S := by
  intro ⟨hne, hD⟩
  obtain ⟨t, ht⟩ := List.exists_mem_of_ne_nil S hne
  exact no_member hF hfit hD ht

end LocksLemmas
end Nxs
