/-
  helper lemmas about the info / ACK encoders and decoders (Info.lean): the generated formats
  written out as atoms, the atoms used (`?`, `s`, `i`), the closed forms of the encoders, the
  decoders on well-shaped payloads, the strict UTF-8 validator (`validUtf8` = "is the encoding of
  a text"), and the lemmas behind Props/C06; at the end the composition with the handshake model
  (`Describe.lean`): what the client holds after `connect()` against a conforming device.
  (`BitVec.ofNat 8 n` is C06's `byte n`; `leBytes 4 (r % 2^32).toNat` is C06's `i32le r`.)
-/
import NxsModel.Info
import NxsModel.Describe
import NxsModel.Spec.Wire
import NxsModel.Lemmas.Serial
namespace Nxs.Info
open Nxs Nxs.Spec Gen.Ids

/-! ### derived attributes -/

theorem and_two_ne_zero (x : Nat) : (decide (x &&& 2 ≠ 0)) = x.testBit 1 := by
  rw [Bool.eq_iff_iff, decide_eq_true_iff]
  have h2 : ∀ i, (2 : Nat).testBit i = decide (1 = i) := fun i => Nat.testBit_two_pow (n := 1) (m := i)
  constructor
  · intro h
    obtain ⟨i, hi⟩ := Nat.exists_testBit_of_ne_zero h
    rw [Nat.testBit_and, h2] at hi
    simp only [Bool.and_eq_true, decide_eq_true_eq] at hi
    rw [hi.2]; exact hi.1
  · intro h h0
    have : (x &&& 2).testBit 1 = true := by rw [Nat.testBit_and, h, h2]; rfl
    rw [h0] at this
    simp at this

theorem flags_derived (flags : Nat) :
    divSupported flags = flags.testBit 0 ∧ ackSupported flags = flags.testBit 1 := by
  constructor
  · unfold divSupported
    show decide (flags &&& 1 ≠ 0) = _
    rw [Nat.and_one_is_mod, Nat.testBit_zero, Bool.eq_iff_iff]
    simp only [decide_eq_true_iff]
    omega
  · exact and_two_ne_zero flags

theorem type_derived_lt : ∀ ty, ty < 256 →
    (dtypeOf ty = ty % 32 ∧ criticalOf ty = ty.testBit 7 ∧ typeResOf ty = (ty / 32 % 4) * 32 ∧
    isValidOf ty = (ty % 32 != 0)) := by
  decide +kernel

/-! ### formats -/

theorem cmninfoEnc_atoms : Gen.Fmt.cmninfoEnc.atoms = [⟨.B, 1⟩, ⟨.B, 1⟩, ⟨.B, 1⟩] := by
  simp [Gen.Fmt.cmninfoEnc, Fmt.atoms, itemAtoms, Code.size]

theorem cmninfoDec_atoms : Gen.Fmt.cmninfoDec.atoms = [⟨.B, 1⟩, ⟨.B, 1⟩, ⟨.B, 1⟩] := by
  simp [Gen.Fmt.cmninfoDec, Fmt.atoms, itemAtoms, Code.size]

theorem chinfoEnc_atoms (n : Nat) : (Gen.Fmt.chinfoEnc n).atoms =
    [⟨.bool, 1⟩, ⟨.B, 1⟩, ⟨.B, 1⟩, ⟨.B, 1⟩, ⟨.B, 1⟩, ⟨.s, n⟩] := by
  simp [Gen.Fmt.chinfoEnc, Fmt.atoms, itemAtoms, Code.size]

theorem chinfoDec_atoms (n : Nat) : (Gen.Fmt.chinfoDec n).atoms =
    [⟨.B, 1⟩, ⟨.B, 1⟩, ⟨.B, 1⟩, ⟨.B, 1⟩, ⟨.B, 1⟩, ⟨.s, n⟩] := by
  simp [Gen.Fmt.chinfoDec, Fmt.atoms, itemAtoms, Code.size]

theorem ackEnc_atoms : Gen.Fmt.ackEnc.atoms = [⟨.i, 4⟩] := by
  simp [Gen.Fmt.ackEnc, Fmt.atoms, itemAtoms, Code.size]

theorem ackDec_atoms : Gen.Fmt.ackDec.atoms = [⟨.i, 4⟩] := by
  simp [Gen.Fmt.ackDec, Fmt.atoms, itemAtoms, Code.size]

/-! ### atoms -/

theorem packAtom_bool (be : Bool) (n : Nat) (b : Bool) :
    packAtom be ⟨.bool, n⟩ (.bool b) = .ok [BitVec.ofNat 8 (if b then 1 else 0)] := by
  cases b <;> rfl

theorem padTo_self (bs : Bytes) : padTo bs.length bs = bs := by
  simp [padTo]

theorem packAtom_s (be : Bool) (bs : Bytes) : packAtom be ⟨.s, bs.length⟩ (.bytes bs) = .ok bs := by
  simp [packAtom, padTo_self]

theorem unpackAtom_s (be : Bool) (n : Nat) (bs : Bytes) : unpackAtom be ⟨.s, n⟩ bs = .bytes bs := rfl

theorem packAtom_i_le (n : Nat) (r : Int) (hlo : -2147483648 ≤ r) (hhi : r ≤ 2147483647) :
    packAtom false ⟨.i, n⟩ (.int r) = .ok (leBytes 4 (r % 4294967296).toNat) := by
  have a : -(256 ^ 4 / 2 : Int) ≤ r ∧ r < (256 ^ 4 / 2 : Int) := by
    constructor <;> omega
  show packS false 4 r = _
  unfold packS
  rw [if_pos a]
  rfl

theorem unpackS_i32le (r : Int) (hlo : -2147483648 ≤ r) (hhi : r ≤ 2147483647) :
    unpackS false (leBytes 4 (r % 4294967296).toNat) = r := by
  unfold unpackS
  simp only [ordNat, leNat_leBytes, leBytes_length, Bool.false_eq_true, if_false]
  have h1 : (256 : Nat) ^ 4 = 4294967296 := by decide
  rw [h1]
  have h2 : (r % 4294967296).toNat < 4294967296 := by omega
  rw [Nat.mod_eq_of_lt h2]
  split <;> omega

theorem unpackAtom_i_le (n : Nat) (bs : Bytes) : unpackAtom false ⟨.i, n⟩ bs = .int (unpackS false bs) := rfl

/-! ### common info -/

theorem cmninfoData_eq (chmax flags rxp : Nat) (h1 : chmax ≤ 255) (h2 : flags ≤ 255) (h3 : rxp ≤ 255) :
    cmninfoData chmax flags rxp
      = .ok [BitVec.ofNat 8 chmax, BitVec.ofNat 8 flags, BitVec.ofNat 8 rxp] := by
  unfold cmninfoData pack
  rw [cmninfoEnc_atoms]
  exact packAtoms_cons_ok (packAtom_B _ 1 chmax (by omega))
    (packAtoms_cons_ok (packAtom_B _ 1 flags (by omega))
      (packAtoms_cons_ok (packAtom_B _ 1 rxp (by omega)) rfl))

theorem cmninfoEncode_eq (chmax flags rxp : Nat) (h1 : chmax ≤ 255) (h2 : flags ≤ 255) (h3 : rxp ≤ 255) :
    cmninfoEncode chmax flags rxp
      = .ok (wire 2 [BitVec.ofNat 8 chmax, BitVec.ofNat 8 flags, BitVec.ofNat 8 rxp]) := by
  unfold cmninfoEncode
  rw [cmninfoData_eq chmax flags rxp h1 h2 h3, ok_bind]
  exact Serial.frameCreate_eq 2 _ (by simp) (by omega)

theorem unpack_cmninfoDec (a b c : Byte) :
    unpack Gen.Fmt.cmninfoDec [a, b, c] = .ok [.int a.toNat, .int b.toNat, .int c.toNat] := by
  unfold unpack
  rw [cmninfoDec_atoms]
  rw [unpackAtoms_cons (by simp [Atom.size, Code.size]), unpackAtoms_cons (by simp [Atom.size, Code.size]),
    unpackAtoms_cons (by simp [Atom.size, Code.size])]
  simp [Atom.size, Code.size, unpackAtoms, unpackAtom_B, ok_bind]

theorem cmninfoDecode_three (a b c : Byte) :
    cmninfoDecode ⟨2, [a, b, c]⟩ = .ok (some (a.toNat, b.toNat, c.toNat)) := by
  unfold cmninfoDecode
  have h0 : ¬ ((⟨2, [a, b, c]⟩ : Serial.Frame).fid ≠ idCMNINFO) := by simp [idCMNINFO]
  rw [if_neg h0]
  have hs : slice (⟨2, [a, b, c]⟩ : Serial.Frame).data 0 3 = [a, b, c] := rfl
  rw [hs, unpack_cmninfoDec]
  simp

theorem ofNat8_toNat (n : Nat) (h : n ≤ 255) : (BitVec.ofNat 8 n).toNat = n := by
  simp; omega

theorem cmninfo_rt (chmax flags rxp : Nat) (h1 : chmax ≤ 255) (h2 : flags ≤ 255) (h3 : rxp ≤ 255) :
    cmninfoEncode chmax flags rxp
      = .ok (wire 2 [BitVec.ofNat 8 chmax, BitVec.ofNat 8 flags, BitVec.ofNat 8 rxp]) ∧
    (Serial.frameDecode (wire 2 [BitVec.ofNat 8 chmax, BitVec.ofNat 8 flags, BitVec.ofNat 8 rxp])).bind
      cmninfoDecode = .ok (some (chmax, flags, rxp)) := by
  refine ⟨cmninfoEncode_eq chmax flags rxp h1 h2 h3, ?_⟩
  rw [Serial.frameDecode_wire 2 _ (by simp) (by omega), ok_bind, cmninfoDecode_three,
    ofNat8_toNat _ h1, ofNat8_toNat _ h2, ofNat8_toNat _ h3]

/-! ### ACK -/

theorem ackEncode_eq (r : Int) (hlo : -2147483648 ≤ r) (hhi : r ≤ 2147483647) :
    ackEncode r = .ok (wire 4 (leBytes 4 (r % 4294967296).toNat)) := by
  unfold ackEncode ackData pack
  have hbe : Gen.Fmt.ackEnc.be = false := rfl
  rw [ackEnc_atoms, hbe, packAtoms_cons_ok (packAtom_i_le 4 r hlo hhi) rfl, ok_bind, List.append_nil]
  exact Serial.frameCreate_eq 4 _ (by simp) (by omega)

theorem ackDecode_four (bs : Bytes) (h : bs.length = 4) :
    ackDecode ⟨4, bs⟩ = .ok (some (if unpackS false bs = 0 then (true, 0) else (false, unpackS false bs))) := by
  unfold ackDecode
  have h0 : ¬ ((⟨4, bs⟩ : Serial.Frame).fid ≠ idACK) := by simp [idACK]
  rw [if_neg h0]
  have hu : unpack Gen.Fmt.ackDec (⟨4, bs⟩ : Serial.Frame).data = .ok [.int (unpackS false bs)] := by
    unfold unpack
    have hbe : Gen.Fmt.ackDec.be = false := rfl
    rw [ackDec_atoms, hbe, unpackAtoms_cons (by simp [Atom.size, Code.size, h])]
    have ht : List.take (Atom.size ⟨.i, 4⟩) bs = bs := by
      simp [Atom.size, Code.size, ← h]
    have hd : List.drop (Atom.size ⟨.i, 4⟩) bs = [] := by
      simp [Atom.size, Code.size, ← h]
    show (unpackAtoms false [] (List.drop (Atom.size ⟨.i, 4⟩) bs)).bind
      (fun r => .ok (unpackAtom false ⟨.i, 4⟩ (List.take (Atom.size ⟨.i, 4⟩) bs) :: r)) = _
    rw [ht, hd]
    rfl
  rw [hu]

theorem ack_rt (r : Int) (hlo : -2147483648 ≤ r) (hhi : r ≤ 2147483647) :
    ackEncode r = .ok (wire 4 (leBytes 4 (r % 4294967296).toNat)) ∧
    (Serial.frameDecode (wire 4 (leBytes 4 (r % 4294967296).toNat))).bind ackDecode
      = .ok (some (if r = 0 then (true, 0) else (false, r))) := by
  refine ⟨ackEncode_eq r hlo hhi, ?_⟩
  rw [Serial.frameDecode_wire 4 _ (by simp) (by omega), ok_bind, ackDecode_four _ (by simp),
    unpackS_i32le r hlo hhi]

/-! ### wrong kind -/

theorem wrong_kind (fid : Nat) (d : Bytes) :
    (fid ≠ 2 → cmninfoDecode ⟨fid, d⟩ = .ok none) ∧ (fid ≠ 3 → chinfoDecode ⟨fid, d⟩ = .ok none) ∧
    (fid ≠ 4 → ackDecode ⟨fid, d⟩ = .ok none) := by
  refine ⟨fun h => ?_, fun h => ?_, fun h => ?_⟩
  · unfold cmninfoDecode; exact if_pos h
  · unfold chinfoDecode; exact if_pos h
  · unfold ackDecode; exact if_pos h

/-! ### UTF-8: the strict decoder's acceptance condition and the encoder -/

theorem validUtf8_cons (b0 : Byte) (rest : Bytes) : validUtf8 (b0 :: rest) =
    (if b0.toNat < 0x80 then validUtf8 rest
    else if b0.toNat < 0xC2 then false
    else if b0.toNat < 0xE0 then
      match rest with
      | b1 :: r => isCont b1 && validUtf8 r
      | _ => false
    else if b0.toNat < 0xF0 then
      match rest with
      | b1 :: b2 :: r =>
        isCont b1 && isCont b2 && (b0.toNat != 0xE0 || 0xA0 ≤ b1.toNat) && (b0.toNat != 0xED || b1.toNat < 0xA0)
          && validUtf8 r
      | _ => false
    else if b0.toNat < 0xF5 then
      match rest with
      | b1 :: b2 :: b3 :: r =>
        isCont b1 && isCont b2 && isCont b3 && (b0.toNat != 0xF0 || 0x90 ≤ b1.toNat)
          && (b0.toNat != 0xF4 || b1.toNat < 0x90) && validUtf8 r
      | _ => false
    else false) := by
  rw [validUtf8.eq_def]; rfl

/-- a well-formed prefix does not influence what follows -/
theorem validUtf8_append : ∀ (a b : Bytes), validUtf8 a = true → validUtf8 (a ++ b) = validUtf8 b
  | [], b, _ => rfl
  | b0 :: rest, b, h => by
    rw [validUtf8_cons] at h
    rw [List.cons_append, validUtf8_cons]
    by_cases h1 : b0.toNat < 0x80
    · rw [if_pos h1] at h ⊢
      exact validUtf8_append rest b h
    rw [if_neg h1] at h ⊢
    by_cases h2 : b0.toNat < 0xC2
    · rw [if_pos h2] at h; exact absurd h (by simp)
    rw [if_neg h2] at h ⊢
    by_cases h3 : b0.toNat < 0xE0
    · rw [if_pos h3] at h ⊢
      match rest, h with
      | [], h => exact absurd h (by simp)
      | b1 :: r, h =>
        simp only [Bool.and_eq_true] at h
        simp only [List.cons_append, h.1, Bool.true_and]
        exact validUtf8_append r b h.2
    rw [if_neg h3] at h ⊢
    by_cases h4 : b0.toNat < 0xF0
    · rw [if_pos h4] at h ⊢
      match rest, h with
      | [], h => exact absurd h (by simp)
      | [_], h => exact absurd h (by simp)
      | b1 :: b2 :: r, h =>
        simp only [Bool.and_eq_true] at h
        simp only [List.cons_append, h.1, Bool.true_and, Bool.and_true]
        exact validUtf8_append r b h.2
    rw [if_neg h4] at h ⊢
    by_cases h5 : b0.toNat < 0xF5
    · rw [if_pos h5] at h ⊢
      match rest, h with
      | [], h => exact absurd h (by simp)
      | [_], h => exact absurd h (by simp)
      | [_, _], h => exact absurd h (by simp)
      | b1 :: b2 :: b3 :: r, h =>
        simp only [Bool.and_eq_true] at h
        simp only [List.cons_append, h.1, Bool.true_and, Bool.and_true]
        exact validUtf8_append r b h.2
    rw [if_neg h5] at h; exact absurd h (by simp)

theorem isCont_iff (b : Byte) : isCont b = true ↔ 0x80 ≤ b.toNat ∧ b.toNat ≤ 0xBF := by
  simp [isCont]

/-- one-byte sequence `00..7F` -/
theorem validUtf8_one (b0 : Byte) (r : Bytes) (h : b0.toNat < 0x80) :
    validUtf8 (b0 :: r) = validUtf8 r := by
  rw [validUtf8_cons, if_pos h]

/-- two-byte sequence `C2..DF 80..BF` -/
theorem validUtf8_two (b0 b1 : Byte) (r : Bytes) (h0 : 0xC2 ≤ b0.toNat ∧ b0.toNat < 0xE0)
    (h1 : 0x80 ≤ b1.toNat ∧ b1.toNat ≤ 0xBF) : validUtf8 (b0 :: b1 :: r) = validUtf8 r := by
  rw [validUtf8_cons, if_neg (by omega), if_neg (by omega), if_pos (by omega)]
  simp only [(isCont_iff b1).2 h1, Bool.true_and]

/-- three-byte sequence `E0 A0..BF`, `E1..EC 80..BF`, `ED 80..9F`, `EE..EF 80..BF`, then `80..BF` -/
theorem validUtf8_three (b0 b1 b2 : Byte) (r : Bytes) (h0 : 0xE0 ≤ b0.toNat ∧ b0.toNat < 0xF0)
    (h1 : 0x80 ≤ b1.toNat ∧ b1.toNat ≤ 0xBF) (h2 : 0x80 ≤ b2.toNat ∧ b2.toNat ≤ 0xBF)
    (hlo : b0.toNat = 0xE0 → 0xA0 ≤ b1.toNat) (hsur : b0.toNat = 0xED → b1.toNat < 0xA0) :
    validUtf8 (b0 :: b1 :: b2 :: r) = validUtf8 r := by
  rw [validUtf8_cons, if_neg (by omega), if_neg (by omega), if_neg (by omega), if_pos (by omega)]
  have e1 : (b0.toNat != 0xE0 || decide (0xA0 ≤ b1.toNat)) = true := by
    by_cases h : b0.toNat = 0xE0 <;> simp [h, hlo]
  have e2 : (b0.toNat != 0xED || decide (b1.toNat < 0xA0)) = true := by
    by_cases h : b0.toNat = 0xED <;> simp [h, hsur]
  simp only [(isCont_iff b1).2 h1, (isCont_iff b2).2 h2, e1, e2, Bool.true_and]

/-- four-byte sequence `F0 90..BF`, `F1..F3 80..BF`, `F4 80..8F`, then `80..BF 80..BF` -/
theorem validUtf8_four (b0 b1 b2 b3 : Byte) (r : Bytes) (h0 : 0xF0 ≤ b0.toNat ∧ b0.toNat < 0xF5)
    (h1 : 0x80 ≤ b1.toNat ∧ b1.toNat ≤ 0xBF) (h2 : 0x80 ≤ b2.toNat ∧ b2.toNat ≤ 0xBF)
    (h3 : 0x80 ≤ b3.toNat ∧ b3.toNat ≤ 0xBF)
    (hlo : b0.toNat = 0xF0 → 0x90 ≤ b1.toNat) (hhi : b0.toNat = 0xF4 → b1.toNat < 0x90) :
    validUtf8 (b0 :: b1 :: b2 :: b3 :: r) = validUtf8 r := by
  rw [validUtf8_cons, if_neg (by omega), if_neg (by omega), if_neg (by omega), if_neg (by omega),
    if_pos (by omega)]
  have e1 : (b0.toNat != 0xF0 || decide (0x90 ≤ b1.toNat)) = true := by
    by_cases h : b0.toNat = 0xF0 <;> simp [h, hlo]
  have e2 : (b0.toNat != 0xF4 || decide (b1.toNat < 0x90)) = true := by
    by_cases h : b0.toNat = 0xF4 <;> simp [h, hhi]
  simp only [(isCont_iff b1).2 h1, (isCont_iff b2).2 h2, (isCont_iff b3).2 h3, e1, e2, Bool.true_and]

theorem toNat_ofNat8 (n : Nat) : (BitVec.ofNat 8 n).toNat = n % 256 := by simp

/-- the encoding of a scalar value is one well-formed sequence -/
theorem validUtf8_utf8Char (c : Nat) (hs : isScalar c = true) (r : Bytes) :
    validUtf8 (utf8Char c ++ r) = validUtf8 r := by
  have hs' : c < 0xD800 ∨ (0xE000 ≤ c ∧ c < 0x110000) := by simpa [isScalar] using hs
  unfold utf8Char
  by_cases h1 : c < 0x80
  · rw [if_pos h1]
    exact validUtf8_one _ _ (by rw [toNat_ofNat8]; omega)
  rw [if_neg h1]
  by_cases h2 : c < 0x800
  · rw [if_pos h2]
    exact validUtf8_two _ _ _ (by rw [toNat_ofNat8]; omega) (by rw [toNat_ofNat8]; omega)
  rw [if_neg h2]
  by_cases h3 : c < 0x10000
  · rw [if_pos h3]
    exact validUtf8_three _ _ _ _ (by rw [toNat_ofNat8]; omega) (by rw [toNat_ofNat8]; omega)
      (by rw [toNat_ofNat8]; omega) (by rw [toNat_ofNat8, toNat_ofNat8]; omega)
      (by rw [toNat_ofNat8, toNat_ofNat8]; omega)
  rw [if_neg h3]
  exact validUtf8_four _ _ _ _ _ (by rw [toNat_ofNat8]; omega) (by rw [toNat_ofNat8]; omega)
    (by rw [toNat_ofNat8]; omega) (by rw [toNat_ofNat8]; omega)
    (by rw [toNat_ofNat8, toNat_ofNat8]; omega) (by rw [toNat_ofNat8, toNat_ofNat8]; omega)

/-! #### text level: code points ↔ bytes -/

theorem utf8Encode_cons_ok (c : Nat) (cs : List Nat) (r : Bytes) (hs : isScalar c = true)
    (h : utf8Encode cs = .ok r) : utf8Encode (c :: cs) = .ok (utf8Char c ++ r) := by
  simp only [utf8Encode, hs, if_true, h]; rfl

/-- a text without lone surrogates can be encoded -/
theorem utf8Encode_ok (cs : List Nat) (hs : ∀ c ∈ cs, isScalar c = true) :
    ∃ bs, utf8Encode cs = .ok bs := by
  induction cs with
  | nil => exact ⟨[], rfl⟩
  | cons c cs ih =>
    obtain ⟨r, hr⟩ := ih (fun x hx => hs x (by simp [hx]))
    exact ⟨_, utf8Encode_cons_ok c cs r (hs c (by simp)) hr⟩

theorem utf8Encode_inv (c : Nat) (cs : List Nat) (bs : Bytes) (h : utf8Encode (c :: cs) = .ok bs) :
    isScalar c = true ∧ ∃ r, utf8Encode cs = .ok r ∧ bs = utf8Char c ++ r := by
  simp only [utf8Encode] at h
  by_cases hs : isScalar c = true
  · rw [if_pos hs] at h
    cases hr : utf8Encode cs with
    | error e => rw [hr] at h; cases h
    | ok r =>
      rw [hr] at h
      refine ⟨hs, r, rfl, ?_⟩
      injection h with h; exact h.symm
  · rw [if_neg hs] at h; cases h

/-- "the UTF-8 encoding of a text is valid UTF-8" -/
theorem utf8Encode_valid : ∀ (cs : List Nat) (bs : Bytes), utf8Encode cs = .ok bs → validUtf8 bs = true
  | [], bs, h => by cases h; rfl
  | c :: cs, bs, h => by
    obtain ⟨hs, r, hr, rfl⟩ := utf8Encode_inv c cs bs h
    rw [validUtf8_utf8Char c hs]
    exact utf8Encode_valid cs r hr

theorem ofNat8_eq (b : Byte) (n : Nat) (h : n = b.toNat) : BitVec.ofNat 8 n = b := by
  apply BitVec.eq_of_toNat_eq
  rw [toNat_ofNat8, h]
  have := b.isLt
  omega

/-- conversely every byte string the strict decoder accepts is the encoding of a text:
    `validUtf8` is exactly "is the UTF-8 encoding of a sequence of scalar values" -/
theorem validUtf8_decodes : ∀ (bs : Bytes), validUtf8 bs = true → ∃ cs, utf8Encode cs = .ok bs
  | [], _ => ⟨[], rfl⟩
  | b0 :: rest, h => by
    rw [validUtf8_cons] at h
    by_cases h1 : b0.toNat < 0x80
    · rw [if_pos h1] at h
      obtain ⟨cs, hcs⟩ := validUtf8_decodes rest h
      refine ⟨b0.toNat :: cs, ?_⟩
      rw [utf8Encode_cons_ok _ cs rest (by simp [isScalar]; omega) hcs]
      simp only [utf8Char, h1, if_true, List.cons_append, List.nil_append, ofNat8_eq b0 _ rfl]
    rw [if_neg h1] at h
    by_cases h2 : b0.toNat < 0xC2
    · rw [if_pos h2] at h; exact absurd h (by simp)
    rw [if_neg h2] at h
    by_cases h3 : b0.toNat < 0xE0
    · rw [if_pos h3] at h
      match rest, h with
      | [], h => exact absurd h (by simp)
      | b1 :: r, h =>
        simp only [Bool.and_eq_true, isCont_iff] at h
        obtain ⟨cs, hcs⟩ := validUtf8_decodes r h.2
        refine ⟨((b0.toNat - 0xC0) * 64 + (b1.toNat - 0x80)) :: cs, ?_⟩
        rw [utf8Encode_cons_ok _ cs r (by simp [isScalar]; omega) hcs]
        have e : utf8Char ((b0.toNat - 0xC0) * 64 + (b1.toNat - 0x80)) = [b0, b1] := by
          unfold utf8Char
          rw [if_neg (by omega), if_pos (by omega), ofNat8_eq b0 _ (by omega), ofNat8_eq b1 _ (by omega)]
        rw [e]; rfl
    rw [if_neg h3] at h
    by_cases h4 : b0.toNat < 0xF0
    · rw [if_pos h4] at h
      match rest, h with
      | [], h => exact absurd h (by simp)
      | [_], h => exact absurd h (by simp)
      | b1 :: b2 :: r, h =>
        simp only [Bool.and_eq_true, isCont_iff, Bool.or_eq_true, bne_iff_ne, ne_eq, decide_eq_true_eq] at h
        obtain ⟨⟨⟨⟨hc1, hc2⟩, hlo⟩, hsur⟩, hr⟩ := h
        obtain ⟨cs, hcs⟩ := validUtf8_decodes r hr
        refine ⟨((b0.toNat - 0xE0) * 4096 + (b1.toNat - 0x80) * 64 + (b2.toNat - 0x80)) :: cs, ?_⟩
        rw [utf8Encode_cons_ok _ cs r (by simp [isScalar]; omega) hcs]
        have e : utf8Char ((b0.toNat - 0xE0) * 4096 + (b1.toNat - 0x80) * 64 + (b2.toNat - 0x80))
            = [b0, b1, b2] := by
          unfold utf8Char
          rw [if_neg (by omega), if_neg (by omega), if_pos (by omega), ofNat8_eq b0 _ (by omega),
            ofNat8_eq b1 _ (by omega), ofNat8_eq b2 _ (by omega)]
        rw [e]; rfl
    rw [if_neg h4] at h
    by_cases h5 : b0.toNat < 0xF5
    · rw [if_pos h5] at h
      match rest, h with
      | [], h => exact absurd h (by simp)
      | [_], h => exact absurd h (by simp)
      | [_, _], h => exact absurd h (by simp)
      | b1 :: b2 :: b3 :: r, h =>
        simp only [Bool.and_eq_true, isCont_iff, Bool.or_eq_true, bne_iff_ne, ne_eq, decide_eq_true_eq] at h
        obtain ⟨⟨⟨⟨⟨hc1, hc2⟩, hc3⟩, hlo⟩, hhi⟩, hr⟩ := h
        obtain ⟨cs, hcs⟩ := validUtf8_decodes r hr
        refine ⟨((b0.toNat - 0xF0) * 262144 + (b1.toNat - 0x80) * 4096 + (b2.toNat - 0x80) * 64
          + (b3.toNat - 0x80)) :: cs, ?_⟩
        rw [utf8Encode_cons_ok _ cs r (by simp [isScalar]; omega) hcs]
        have e : utf8Char ((b0.toNat - 0xF0) * 262144 + (b1.toNat - 0x80) * 4096 + (b2.toNat - 0x80) * 64
            + (b3.toNat - 0x80)) = [b0, b1, b2, b3] := by
          unfold utf8Char
          rw [if_neg (by omega), if_neg (by omega), if_neg (by omega), ofNat8_eq b0 _ (by omega),
            ofNat8_eq b1 _ (by omega), ofNat8_eq b2 _ (by omega), ofNat8_eq b3 _ (by omega)]
        rw [e]; rfl
    rw [if_neg h5] at h; exact absurd h (by simp)

theorem validUtf8_iff_encoding (bs : Bytes) : validUtf8 bs = true ↔ ∃ cs, utf8Encode cs = .ok bs :=
  ⟨validUtf8_decodes bs, fun ⟨cs, h⟩ => utf8Encode_valid cs bs h⟩

/-! ### channel info -/

theorem cstr_append_nul (name rest : Bytes) (hnul : ∀ b ∈ name, b ≠ 0) :
    cstr (name ++ 0 :: rest) = name := by
  unfold cstr
  induction name with
  | nil => simp
  | cons b bs ih =>
    have hb : b ≠ 0 := hnul b (by simp)
    rw [List.cons_append, List.takeWhile_cons]
    simp only [ne_eq, hb, not_false_eq_true, decide_true, if_true]
    rw [ih (fun x hx => hnul x (by simp [hx]))]

theorem cstr_append_of_no_nul (a b : Bytes) (ha : ∀ x ∈ a, x ≠ 0) : cstr (a ++ b) = a ++ cstr b := by
  unfold cstr
  induction a with
  | nil => rfl
  | cons x xs ih =>
    have hx : x ≠ 0 := ha x (by simp)
    rw [List.cons_append, List.takeWhile_cons]
    simp only [ne_eq, hx, not_false_eq_true, decide_true, if_true, List.cons_append]
    rw [ih (fun y hy => ha y (by simp [hy]))]

theorem cstr_no_nul (name : Bytes) (hnul : ∀ b ∈ name, b ≠ 0) : cstr name = name := by
  have := cstr_append_of_no_nul name [] hnul
  simpa [cstr] using this

theorem cstr_append_zeros (name : Bytes) (k : Nat) (hnul : ∀ b ∈ name, b ≠ 0) :
    cstr (name ++ List.replicate k 0) = name := by
  cases k with
  | zero => simpa using cstr_no_nul name hnul
  | succ k => rw [List.replicate_succ]; exact cstr_append_nul name _ hnul

theorem validUtf8_zeros (k : Nat) : validUtf8 (List.replicate k (0 : Byte)) = true := by
  induction k with
  | zero => rfl
  | succ k ih => rw [List.replicate_succ, validUtf8_one _ _ (by decide)]; exact ih

theorem ofNat8_ne_zero (n : Nat) (h : n % 256 ≠ 0) : BitVec.ofNat 8 n ≠ 0 := by
  intro e
  have := congrArg BitVec.toNat e
  rw [toNat_ofNat8] at this
  exact h this

/-- in the encoding of a text the byte 0 occurs only as the encoding of U+0000 -/
theorem utf8Char_no_nul (c : Nat) (hc : c ≠ 0) (hs : isScalar c = true) : ∀ b ∈ utf8Char c, b ≠ 0 := by
  have hs' : c < 0xD800 ∨ (0xE000 ≤ c ∧ c < 0x110000) := by simpa [isScalar] using hs
  unfold utf8Char
  by_cases h1 : c < 0x80
  · rw [if_pos h1]; intro b hb
    simp only [List.mem_singleton] at hb
    subst hb; exact ofNat8_ne_zero _ (by omega)
  rw [if_neg h1]
  by_cases h2 : c < 0x800
  · rw [if_pos h2]; intro b hb
    simp only [List.mem_cons, List.not_mem_nil, or_false] at hb
    rcases hb with rfl | rfl <;> exact ofNat8_ne_zero _ (by omega)
  rw [if_neg h2]
  by_cases h3 : c < 0x10000
  · rw [if_pos h3]; intro b hb
    simp only [List.mem_cons, List.not_mem_nil, or_false] at hb
    rcases hb with rfl | rfl | rfl <;> exact ofNat8_ne_zero _ (by omega)
  rw [if_neg h3]; intro b hb
  simp only [List.mem_cons, List.not_mem_nil, or_false] at hb
  rcases hb with rfl | rfl | rfl | rfl <;> exact ofNat8_ne_zero _ (by omega)

theorem utf8Encode_no_nul : ∀ (cs : List Nat) (bs : Bytes), utf8Encode cs = .ok bs →
    (∀ c ∈ cs, c ≠ 0) → ∀ b ∈ bs, b ≠ 0
  | [], bs, h, _ => by cases h; simp
  | c :: cs, bs, h, hc => by
    obtain ⟨hs, r, hr, rfl⟩ := utf8Encode_inv c cs bs h
    intro b hb
    rcases List.mem_append.1 hb with hb | hb
    · exact utf8Char_no_nul c (hc c (by simp)) hs b hb
    · exact utf8Encode_no_nul cs r hr (fun x hx => hc x (by simp [hx])) b hb

/-- cutting the bytes at the first NUL byte is cutting the text at the first U+0000:
    `.decode().split("\x00")[0]` re-encoded is `cstr` of the bytes -/
theorem cstr_utf8Encode : ∀ (cs : List Nat) (bs : Bytes), utf8Encode cs = .ok bs →
    utf8Encode (cs.takeWhile (· ≠ 0)) = .ok (cstr bs)
  | [], bs, h => by cases h; rfl
  | c :: cs, bs, h => by
    obtain ⟨hs, r, hr, rfl⟩ := utf8Encode_inv c cs bs h
    by_cases hc : c = 0
    · subst hc
      simp only [ne_eq, not_true_eq_false, decide_false, List.takeWhile_cons, Bool.false_eq_true, if_false]
      rfl
    · rw [List.takeWhile_cons]
      simp only [ne_eq, hc, not_false_eq_true, decide_true, if_true]
      rw [cstr_append_of_no_nul _ _ (utf8Char_no_nul c hc hs)]
      exact utf8Encode_cons_ok c _ _ hs (cstr_utf8Encode cs r hr)

theorem chinfoData_eq (en : Bool) (ty vdim div mlen : Nat) (name : Bytes)
    (ht : ty ≤ 255) (hv : vdim ≤ 255) (hd : div ≤ 255) (hm : mlen ≤ 255) :
    chinfoData ⟨en, ty, vdim, div, mlen, name⟩
      = .ok ([BitVec.ofNat 8 (if en then 1 else 0), BitVec.ofNat 8 ty, BitVec.ofNat 8 vdim,
          BitVec.ofNat 8 div, BitVec.ofNat 8 mlen] ++ name) := by
  unfold chinfoData pack
  have hbe : ∀ n, (Gen.Fmt.chinfoEnc n).be = false := fun _ => rfl
  rw [chinfoEnc_atoms, hbe]
  have := packAtoms_cons_ok (packAtom_bool false 1 en)
    (packAtoms_cons_ok (packAtom_B false 1 ty (by omega))
      (packAtoms_cons_ok (packAtom_B false 1 vdim (by omega))
        (packAtoms_cons_ok (packAtom_B false 1 div (by omega))
          (packAtoms_cons_ok (packAtom_B false 1 mlen (by omega))
            (packAtoms_cons_ok (packAtom_s false name) (rfl : packAtoms false [] [] = .ok []))))))
  simpa using this

theorem chinfoEncode_eq (en : Bool) (ty vdim div mlen : Nat) (name : Bytes)
    (ht : ty ≤ 255) (hv : vdim ≤ 255) (hd : div ≤ 255) (hm : mlen ≤ 255)
    (hfit : name.length ≤ 65524) :
    chinfoEncode ⟨en, ty, vdim, div, mlen, name⟩
      = .ok (wire 3 ([BitVec.ofNat 8 (if en then 1 else 0), BitVec.ofNat 8 ty, BitVec.ofNat 8 vdim,
          BitVec.ofNat 8 div, BitVec.ofNat 8 mlen] ++ name)) := by
  unfold chinfoEncode
  rw [chinfoData_eq en ty vdim div mlen name ht hv hd hm, ok_bind]
  exact Serial.frameCreate_eq 3 _ (by simp; omega) (by omega)

theorem unpack_chinfoDec (a b c d e : Byte) (s : Bytes) :
    unpack (Gen.Fmt.chinfoDec s.length) ([a, b, c, d, e] ++ s)
      = .ok [.int a.toNat, .int b.toNat, .int c.toNat, .int d.toNat, .int e.toNat, .bytes s] := by
  unfold unpack
  have hbe : ∀ n, (Gen.Fmt.chinfoDec n).be = false := fun _ => rfl
  rw [chinfoDec_atoms, hbe]
  rw [unpackAtoms_cons (by simp [Atom.size, Code.size]), unpackAtoms_cons (by simp [Atom.size, Code.size]),
    unpackAtoms_cons (by simp [Atom.size, Code.size]), unpackAtoms_cons (by simp [Atom.size, Code.size]),
    unpackAtoms_cons (by simp [Atom.size, Code.size]), unpackAtoms_cons (by simp [Atom.size, Code.size])]
  simp [Atom.size, Code.size, unpackAtoms, unpackAtom_B, unpackAtom_s, ok_bind]

theorem byte_ne_zero (en : Byte) : decide (((en.toNat : Nat) : Int) ≠ 0) = decide (en ≠ 0) := by
  rw [Bool.eq_iff_iff]
  simp only [decide_eq_true_iff]
  constructor
  · intro h h'; subst h'; exact h rfl
  · intro h h'; apply h; apply BitVec.eq_of_toNat_eq
    simp; omega

/-- the decoder on any payload of at least five bytes: the name field is decoded as strict UTF-8
    first (error when it is not well-formed, wherever the bad bytes are), then cut at the first NUL -/
theorem chinfoDecode_five (a b c d e : Byte) (s : Bytes) :
    chinfoDecode ⟨3, [a, b, c, d, e] ++ s⟩
      = if validUtf8 s then .ok (some ⟨a ≠ 0, b.toNat, c.toNat, d.toNat, e.toNat, cstr s⟩)
        else .error .unicodeError := by
  unfold chinfoDecode
  have h0 : ¬ ((⟨3, [a, b, c, d, e] ++ s⟩ : Serial.Frame).fid ≠ idCHINFO) := by simp [idCHINFO]
  have hl : (⟨3, [a, b, c, d, e] ++ s⟩ : Serial.Frame).data.length - 5 = s.length := by simp
  have h1 : ¬ ((⟨3, [a, b, c, d, e] ++ s⟩ : Serial.Frame).data.length < 5) := by simp
  rw [if_neg h0, if_neg h1, hl]
  have hu : unpack (Gen.Fmt.chinfoDec s.length) (⟨3, [a, b, c, d, e] ++ s⟩ : Serial.Frame).data
      = .ok [.int a.toNat, .int b.toNat, .int c.toNat, .int d.toNat, .int e.toNat, .bytes s] :=
    unpack_chinfoDec a b c d e s
  rw [hu]
  simp only [Int.toNat_natCast, byte_ne_zero]

theorem chinfoDecode_valid (a b c d e : Byte) (s : Bytes) (hv : validUtf8 s = true) :
    chinfoDecode ⟨3, [a, b, c, d, e] ++ s⟩
      = .ok (some ⟨a ≠ 0, b.toNat, c.toNat, d.toNat, e.toNat, cstr s⟩) := by
  rw [chinfoDecode_five, if_pos hv]

theorem chinfo_invalid_utf8 (a b c d e : Byte) (s : Bytes) (hv : validUtf8 s = false) :
    chinfoDecode ⟨3, [a, b, c, d, e] ++ s⟩ = .error .unicodeError := by
  rw [chinfoDecode_five, if_neg (by simp [hv])]

theorem chinfo_nul_then_rest (en ty vdim div mlen : Byte) (name rest : Bytes)
    (hnul : ∀ b ∈ name, b ≠ 0) (hvn : validUtf8 name = true) (hvr : validUtf8 rest = true) :
    chinfoDecode ⟨3, [en, ty, vdim, div, mlen] ++ (name ++ 0 :: rest)⟩
      = .ok (some ⟨en ≠ 0, ty.toNat, vdim.toNat, div.toNat, mlen.toNat, name⟩) := by
  have hv : validUtf8 (name ++ 0 :: rest) = true := by
    rw [validUtf8_append name _ hvn, validUtf8_one _ _ (by decide)]; exact hvr
  rw [chinfoDecode_valid _ _ _ _ _ _ hv, cstr_append_nul name rest hnul]

theorem chinfo_trailing_nul (en ty vdim div mlen : Byte) (name : Bytes) (k : Nat)
    (hnul : ∀ b ∈ name, b ≠ 0) (hvn : validUtf8 name = true) :
    chinfoDecode ⟨3, [en, ty, vdim, div, mlen] ++ name ++ List.replicate k 0⟩
      = .ok (some ⟨en ≠ 0, ty.toNat, vdim.toNat, div.toNat, mlen.toNat, name⟩) := by
  have hv : validUtf8 (name ++ List.replicate k 0) = true := by
    rw [validUtf8_append name _ hvn]; exact validUtf8_zeros k
  rw [List.append_assoc, chinfoDecode_valid _ _ _ _ _ _ hv, cstr_append_zeros name k hnul]

theorem chinfo_rt (en : Bool) (ty vdim div mlen : Nat) (name : Bytes)
    (ht : ty ≤ 255) (hv : vdim ≤ 255) (hd : div ≤ 255) (hm : mlen ≤ 255)
    (hnul : ∀ b ∈ name, b ≠ 0) (hutf : validUtf8 name = true) (hfit : name.length ≤ 65524) :
    chinfoEncode ⟨en, ty, vdim, div, mlen, name⟩
      = .ok (wire 3 ([BitVec.ofNat 8 (if en then 1 else 0), BitVec.ofNat 8 ty, BitVec.ofNat 8 vdim,
          BitVec.ofNat 8 div, BitVec.ofNat 8 mlen] ++ name)) ∧
    (Serial.frameDecode (wire 3 ([BitVec.ofNat 8 (if en then 1 else 0), BitVec.ofNat 8 ty,
        BitVec.ofNat 8 vdim, BitVec.ofNat 8 div, BitVec.ofNat 8 mlen] ++ name))).bind
        chinfoDecode = .ok (some ⟨en, ty, vdim, div, mlen, name⟩) := by
  refine ⟨chinfoEncode_eq en ty vdim div mlen name ht hv hd hm hfit, ?_⟩
  rw [Serial.frameDecode_wire 3 _ (by simp; omega) (by omega), ok_bind, chinfoDecode_valid _ _ _ _ _ _ hutf,
    cstr_no_nul name hnul, ofNat8_toNat _ ht, ofNat8_toNat _ hv, ofNat8_toNat _ hd,
    ofNat8_toNat _ hm]
  cases en <;> rfl

/-- encode then decode in one step (what the handshake composition uses) -/
theorem chinfo_encode_decode (en : Bool) (ty vdim div mlen : Nat) (name : Bytes)
    (ht : ty ≤ 255) (hv : vdim ≤ 255) (hd : div ≤ 255) (hm : mlen ≤ 255)
    (hnul : ∀ b ∈ name, b ≠ 0) (hutf : validUtf8 name = true) (hfit : name.length ≤ 65524) :
    ((chinfoEncode ⟨en, ty, vdim, div, mlen, name⟩).bind Serial.frameDecode).bind chinfoDecode
      = .ok (some ⟨en, ty, vdim, div, mlen, name⟩) := by
  obtain ⟨h1, h2⟩ := chinfo_rt en ty vdim div mlen name ht hv hd hm hnul hutf hfit
  rw [h1, ok_bind]; exact h2

theorem cmninfo_encode_decode (chmax flags rxp : Nat) (h1 : chmax ≤ 255) (h2 : flags ≤ 255) (h3 : rxp ≤ 255) :
    ((cmninfoEncode chmax flags rxp).bind Serial.frameDecode).bind cmninfoDecode
      = .ok (some (chmax, flags, rxp)) := by
  obtain ⟨e1, e2⟩ := cmninfo_rt chmax flags rxp h1 h2 h3
  rw [e1, ok_bind]; exact e2

/-- the name as a text: a text of scalar values without U+0000 whose encoding fits arrives unchanged -/
theorem chinfo_rt_text (en : Bool) (ty vdim div mlen : Nat) (text : List Nat)
    (ht : ty ≤ 255) (hv : vdim ≤ 255) (hd : div ≤ 255) (hm : mlen ≤ 255)
    (hsc : ∀ c ∈ text, isScalar c = true) (hnul : ∀ c ∈ text, c ≠ 0) :
    ∃ name, utf8Encode text = .ok name ∧ (name.length ≤ 65524 →
      ((chinfoEncodeText en ty vdim div mlen text).bind Serial.frameDecode).bind chinfoDecode
        = .ok (some ⟨en, ty, vdim, div, mlen, name⟩)) := by
  obtain ⟨name, hname⟩ := utf8Encode_ok text hsc
  refine ⟨name, hname, fun hfit => ?_⟩
  unfold chinfoEncodeText
  rw [hname, ok_bind]
  exact chinfo_encode_decode en ty vdim div mlen name ht hv hd hm
    (utf8Encode_no_nul text name hname hnul) (utf8Encode_valid text name hname) hfit

end Nxs.Info

/-! ## the description after `connect()`: Info ∘ Handshake (definitions in `Describe.lean`) -/

namespace Nxs.Describe
open Nxs Nxs.Info Nxs.Handshake Gen.Comm

/-! ### the handshake against a link that answers every request (`Resp.ok`) -/

/-- every remaining response of the link is the conforming one -/
def AllOk (s : St) : Prop := (∀ r ∈ s.script, r = Resp.ok) ∧ s.dflt = Resp.ok

theorem request_allOk (s : St) (r : Req) (t : Nat) (h : AllOk s) :
    ∃ s', request s r t = (.answer, s') ∧ AllOk s' ∧ s'.sent = s.sent ++ [r] ∧ s'.padding = s.padding := by
  obtain ⟨hs, hd⟩ := h
  unfold request St.next
  cases hsc : s.script with
  | nil =>
    simp only [hd]
    exact ⟨_, rfl, ⟨by simp, rfl⟩, rfl, rfl⟩
  | cons x rest =>
    have hx : x = Resp.ok := hs x (by simp [hsc])
    subst hx
    exact ⟨_, rfl, ⟨fun y hy => hs y (by simp [hsc, hy]), hd⟩, rfl, rfl⟩

theorem chinfoLoop_allOk (s : St) (i k : Nat) (h : AllOk s) :
    ∃ s', chinfoLoop s i (k + 1) = (.answer, s') ∧ AllOk s' ∧ s'.sent = s.sent ++ [.chinfo i]
      ∧ s'.padding = s.padding := by
  obtain ⟨s', e, h1, h2, h3⟩ := request_allOk s (.chinfo i) chinfoTimeout h
  exact ⟨s', by simp only [chinfoLoop, e], h1, h2, h3⟩

theorem chinfoAll_allOk : ∀ (n i : Nat) (s : St), AllOk s →
    ∃ s', chinfoAll s i n = (.answer, s') ∧ AllOk s' ∧
      s'.sent = s.sent ++ (List.range' i n).map Req.chinfo
  | 0, i, s, h => ⟨s, rfl, h, by simp⟩
  | n + 1, i, s, h => by
    have hk : chinfoAttempts = 5 + 1 := rfl
    obtain ⟨s1, e1, h1, hs1, _⟩ := chinfoLoop_allOk s i 5 h
    obtain ⟨s2, e2, h2, hs2⟩ := chinfoAll_allOk n (i + 1) s1 h1
    refine ⟨s2, ?_, h2, ?_⟩
    · simp only [chinfoAll, hk, e1, e2]
    · rw [hs2, hs1, List.range'_succ, List.map_cons, List.append_assoc]; rfl

/-- the requests of one successful `_devinfo_get`: common info, the padding trigger write when the
    device asks for one, every channel in order -/
def infoRequests (dev : DevDesc) (padding : Nat) : List Req :=
  [.cmninfo] ++ (if dev.rxpadding > 0 ∧ padding ≠ dev.rxpadding then [.padding dev.rxpadding] else [])
    ++ (List.range' 0 dev.chmax).map Req.chinfo

theorem devinfoGet_allOk (dev : DevDesc) (s : St) (h : AllOk s) :
    ∃ s', devinfoGet dev s = (.answer, s') ∧ s'.sent = s.sent ++ infoRequests dev s.padding := by
  obtain ⟨s1, e1, h1, hs1, hp1⟩ := request_allOk s .cmninfo cmninfoTimeout h
  unfold devinfoGet
  simp only [e1]
  by_cases hp : dev.rxpadding > 0 ∧ s1.padding ≠ dev.rxpadding
  · rw [if_pos hp]
    obtain ⟨s2, e2, _, hs2⟩ := chinfoAll_allOk dev.chmax 0
      (dropAll { s1 with padding := dev.rxpadding, sent := s1.sent ++ [.padding dev.rxpadding] }) h1
    refine ⟨s2, e2, ?_⟩
    rw [hs2]
    simp only [dropAll, hs1, infoRequests, ← hp1, if_pos hp, List.append_assoc]
  · rw [if_neg hp]
    obtain ⟨s2, e2, _, hs2⟩ := chinfoAll_allOk dev.chmax 0 (dropAll s1) h1
    refine ⟨s2, e2, ?_⟩
    rw [hs2]
    simp only [dropAll, hs1, infoRequests, ← hp1, if_neg hp, List.append_assoc, List.append_nil]

/-- `connect()` against a link that answers every request: connected, and exactly these requests -/
theorem connect_allOk (dev : DevDesc) (script : List Resp) (h : ∀ r ∈ script, r = Resp.ok) :
    (connect dev script .ok).outcome = .connected dev.chmax dev.flags dev.rxpadding ∧
    (connect dev script .ok).sent = [.stop] ++ infoRequests dev 0 := by
  have hk : connectAttempts = 5 + 1 := rfl
  have h0 : AllOk (dropAll { script := script, dflt := .ok, sent := [.stop] }) := ⟨h, rfl⟩
  obtain ⟨s', e, hs⟩ := devinfoGet_allOk dev _ h0
  unfold connect
  simp only [hk, connectLoop, e]
  exact ⟨trivial, hs⟩

/-! ### the client reads the conforming device's answers -/

/-- a channel configuration within the quantifier of C06: one-byte fields, a name that is the
    UTF-8 encoding of a text without NUL and fits in a frame -/
structure ChanOk (c : ChanCfg) : Prop where
  type : 0 ≤ c.type ∧ c.type ≤ 255
  vdim : 0 ≤ c.vdim ∧ c.vdim ≤ 255
  div : 0 ≤ c.div ∧ c.div ≤ 255
  mlen : 0 ≤ c.mlen ∧ c.mlen ≤ 255
  nonul : ∀ b ∈ c.name, b ≠ 0
  utf8 : validUtf8 c.name = true
  fits : c.name.length ≤ 65524

structure CfgOk (c : DevCfg) : Prop where
  chmax : c.chans.length ≤ 255
  flags : c.flags ≤ 255
  rxpadding : c.rxpadding ≤ 255
  chans : ∀ ch ∈ c.chans, ChanOk ch

/-- the configured values as the client should see them -/
def toInfo (c : ChanCfg) : ChanInfo := ⟨c.en, c.type.toNat, c.vdim.toNat, c.div.toNat, c.mlen.toNat, c.name⟩

/-- channels `i0, i0+1, …` as the client should hold them -/
def clientView : List ChanCfg → Nat → List ClientChan
  | [], _ => []
  | c :: cs, i => ⟨i, toInfo c⟩ :: clientView cs (i + 1)

theorem clientView_length (cs : List ChanCfg) (i : Nat) : (clientView cs i).length = cs.length := by
  induction cs generalizing i with
  | nil => rfl
  | cons c cs ih => simp [clientView, ih]

theorem clientView_eq_zipIdx (cs : List ChanCfg) (i : Nat) :
    clientView cs i = (cs.zipIdx i).map fun p => ⟨p.2, toInfo p.1⟩ := by
  induction cs generalizing i with
  | nil => rfl
  | cons c cs ih => simp [clientView, ih, List.zipIdx_cons]

theorem chan_encode_decode (c : ChanCfg) (h : ChanOk c) :
    ((chinfoEncode c).bind Serial.frameDecode).bind chinfoDecode = .ok (some (toInfo c)) := by
  obtain ⟨en, ty, vdim, div, mlen, name⟩ := c
  obtain ⟨⟨t0, t1⟩, ⟨v0, v1⟩, ⟨d0, d1⟩, ⟨m0, m1⟩, hn, hu, hf⟩ := h
  simp only at t0 t1 v0 v1 d0 d1 m0 m1 hn hu hf
  have := chinfo_encode_decode en ty.toNat vdim.toNat div.toNat mlen.toNat name (by omega) (by omega)
    (by omega) (by omega) hn hu hf
  rw [Int.toNat_of_nonneg t0, Int.toNat_of_nonneg v0, Int.toNat_of_nonneg d0, Int.toNat_of_nonneg m0] at this
  exact this

theorem bind_bind_of_ok {α β γ : Type} (x : Except Err α) (f : α → Except Err β) (g : β → Except Err γ) (v : β)
    (h : x.bind f = .ok v) : (x.bind fun a => (f a).bind g) = g v := by
  cases x with
  | error e => cases h
  | ok a =>
    have h' : f a = .ok v := h
    show (f a).bind g = g v
    rw [h']; rfl

theorem absorb_stop (c : DevCfg) (st : Collected) : absorb c st .stop = .ok st := rfl
theorem absorb_padding (c : DevCfg) (st : Collected) (n : Nat) : absorb c st (.padding n) = .ok st := rfl

theorem absorb_cmninfo (c : DevCfg) (h : CfgOk c) (st : Collected) :
    absorb c st .cmninfo = .ok { cmn := some (c.chans.length, c.flags, c.rxpadding), chans := [] } := by
  have e := cmninfo_encode_decode c.chans.length c.flags c.rxpadding h.chmax h.flags h.rxpadding
  unfold absorb respond
  simp only
  rw [bind_bind_of_ok _ _ _ _ e]

theorem absorb_chinfo (c : DevCfg) (st : Collected) (i : Nat) (ch : ChanCfg) (hi : c.chans[i]? = some ch)
    (h : ChanOk ch) :
    absorb c st (.chinfo i) = .ok { st with chans := st.chans ++ [⟨i, toInfo ch⟩] } := by
  have e := chan_encode_decode ch h
  unfold absorb respond
  simp only [hi, Option.map_some]
  rw [bind_bind_of_ok _ _ _ _ e]

theorem absorbAll_append (c : DevCfg) (st : Collected) (a b : List Req) :
    absorbAll c st (a ++ b) = (absorbAll c st a).bind fun st' => absorbAll c st' b := by
  induction a generalizing st with
  | nil => rfl
  | cons r rs ih =>
    simp only [List.cons_append, absorbAll]
    cases absorb c st r with
    | error e => rfl
    | ok st' => exact ih st'

/-- reading the channels `pre.length, …` when the device's channel list is `pre ++ post` -/
theorem absorbAll_chans (c : DevCfg) : ∀ (post pre : List ChanCfg) (st : Collected),
    c.chans = pre ++ post → (∀ ch ∈ post, ChanOk ch) →
    absorbAll c st ((List.range' pre.length post.length).map Req.chinfo)
      = .ok { st with chans := st.chans ++ clientView post pre.length }
  | [], pre, st, _, _ => by simp [absorbAll, clientView]
  | ch :: post, pre, st, hc, hok => by
    have hi : c.chans[pre.length]? = some ch := by rw [hc]; simp
    rw [List.length_cons, List.range'_succ, List.map_cons, absorbAll,
      absorb_chinfo c st pre.length ch hi (hok ch (by simp)), ok_bind]
    have := absorbAll_chans c post (pre ++ [ch]) { st with chans := st.chans ++ [⟨pre.length, toInfo ch⟩] }
      (by rw [hc]; simp) (fun x hx => hok x (by simp [hx]))
    rw [List.length_append, List.length_singleton] at this
    rw [this]
    simp [clientView]

/-- the description after reading the answers to the requests of a successful handshake -/
theorem describe_requests (c : DevCfg) (h : CfgOk c) (padding : Nat) :
    describe c ([.stop] ++ infoRequests c.desc padding)
      = .ok ⟨c.chans.length, c.flags, c.rxpadding, divSupported c.flags, ackSupported c.flags,
          clientView c.chans 0⟩ := by
  unfold describe infoRequests
  rw [absorbAll_append, show absorbAll c {} [Req.stop] = .ok {} from rfl, ok_bind,
    absorbAll_append, absorbAll_append,
    show absorbAll c {} [Req.cmninfo] = (absorb c {} .cmninfo).bind fun st' => .ok st' from rfl,
    absorb_cmninfo c h, ok_bind, ok_bind]
  have hpad : ∀ st : Collected, absorbAll c st
      (if c.desc.rxpadding > 0 ∧ padding ≠ c.desc.rxpadding then [Req.padding c.desc.rxpadding] else [])
      = .ok st := by
    intro st; split <;> rfl
  rw [hpad, ok_bind]
  have := absorbAll_chans c c.chans [] { cmn := some (c.chans.length, c.flags, c.rxpadding), chans := [] }
    rfl h.chans
  simp only [List.length_nil, List.nil_append] at this
  show (absorbAll c _ ((List.range' 0 c.chans.length).map Req.chinfo)).bind mkDevice = _
  rw [this, ok_bind]
  simp [mkDevice, clientView_length]

end Nxs.Describe
