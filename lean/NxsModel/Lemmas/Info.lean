/-
  helper lemmas about the info / ACK encoders and decoders (Info.lean): the generated formats
  written out as atoms, the atoms used (`?`, `s`, `i`), the closed forms of the encoders, the
  decoders on well-shaped payloads, and the lemmas behind Props/C06.
  (`BitVec.ofNat 8 n` is C06's `byte n`; `leBytes 4 (r % 2^32).toNat` is C06's `i32le r`.)
-/
import NxsModel.Info
import NxsModel.Spec.Wire
import NxsModel.Lemmas.Serial
namespace Nxs.Info
open Nxs Nxs.Spec Gen.Ids

/-! ### derived attributes -/

theorem and_two_ne_zero (x : Nat) : (decide (x &&& 2 ≠ 0)) = x.testBit 1 := by
  rw [Bool.eq_iff_iff, decide_eq_true_iff]
  have h2 : ∀ i, (2 : Nat).testBit i = decide (1 = i) := fun i => Nat.testBit_two_pow (n := 1) (m := i)
  constructor
  · intro h
    obtain ⟨i, hi⟩ := Nat.exists_testBit_of_ne_zero h
    rw [Nat.testBit_and, h2] at hi
    simp only [Bool.and_eq_true, decide_eq_true_eq] at hi
    rw [hi.2]; exact hi.1
  · intro h h0
    have : (x &&& 2).testBit 1 = true := by rw [Nat.testBit_and, h, h2]; rfl
    rw [h0] at this
    simp at this

theorem flags_derived (flags : Nat) :
    divSupported flags = flags.testBit 0 ∧ ackSupported flags = flags.testBit 1 := by
  constructor
  · unfold divSupported
    show decide (flags &&& 1 ≠ 0) = _
    rw [Nat.and_one_is_mod, Nat.testBit_zero, Bool.eq_iff_iff]
    simp only [decide_eq_true_iff]
    omega
  · exact and_two_ne_zero flags

theorem type_derived_lt : ∀ ty, ty < 256 →
    (dtypeOf ty = ty % 32 ∧ criticalOf ty = ty.testBit 7 ∧ typeResOf ty = (ty / 32 % 4) * 32 ∧
    isValidOf ty = (ty % 32 != 0)) := by
  decide +kernel

/-! ### formats -/

theorem cmninfoEnc_atoms : Gen.Fmt.cmninfoEnc.atoms = [⟨.B, 1⟩, ⟨.B, 1⟩, ⟨.B, 1⟩] := by
  simp [Gen.Fmt.cmninfoEnc, Fmt.atoms, itemAtoms, Code.size]

theorem cmninfoDec_atoms : Gen.Fmt.cmninfoDec.atoms = [⟨.B, 1⟩, ⟨.B, 1⟩, ⟨.B, 1⟩] := by
  simp [Gen.Fmt.cmninfoDec, Fmt.atoms, itemAtoms, Code.size]

theorem chinfoEnc_atoms (n : Nat) : (Gen.Fmt.chinfoEnc n).atoms =
    [⟨.bool, 1⟩, ⟨.B, 1⟩, ⟨.B, 1⟩, ⟨.B, 1⟩, ⟨.B, 1⟩, ⟨.s, n⟩] := by
  simp [Gen.Fmt.chinfoEnc, Fmt.atoms, itemAtoms, Code.size]

theorem chinfoDec_atoms (n : Nat) : (Gen.Fmt.chinfoDec n).atoms =
    [⟨.B, 1⟩, ⟨.B, 1⟩, ⟨.B, 1⟩, ⟨.B, 1⟩, ⟨.B, 1⟩, ⟨.s, n⟩] := by
  simp [Gen.Fmt.chinfoDec, Fmt.atoms, itemAtoms, Code.size]

theorem ackEnc_atoms : Gen.Fmt.ackEnc.atoms = [⟨.i, 4⟩] := by
  simp [Gen.Fmt.ackEnc, Fmt.atoms, itemAtoms, Code.size]

theorem ackDec_atoms : Gen.Fmt.ackDec.atoms = [⟨.i, 4⟩] := by
  simp [Gen.Fmt.ackDec, Fmt.atoms, itemAtoms, Code.size]

/-! ### atoms -/

theorem packAtom_bool (be : Bool) (n : Nat) (b : Bool) :
    packAtom be ⟨.bool, n⟩ (.bool b) = .ok [BitVec.ofNat 8 (if b then 1 else 0)] := by
  cases b <;> rfl

theorem padTo_self (bs : Bytes) : padTo bs.length bs = bs := by
  simp [padTo]

theorem packAtom_s (be : Bool) (bs : Bytes) : packAtom be ⟨.s, bs.length⟩ (.bytes bs) = .ok bs := by
  simp [packAtom, padTo_self]

theorem unpackAtom_s (be : Bool) (n : Nat) (bs : Bytes) : unpackAtom be ⟨.s, n⟩ bs = .bytes bs := rfl

theorem packAtom_i_le (n : Nat) (r : Int) (hlo : -2147483648 ≤ r) (hhi : r ≤ 2147483647) :
    packAtom false ⟨.i, n⟩ (.int r) = .ok (leBytes 4 (r % 4294967296).toNat) := by
  have a : -(256 ^ 4 / 2 : Int) ≤ r ∧ r < (256 ^ 4 / 2 : Int) := by
    constructor <;> omega
  show packS false 4 r = _
  unfold packS
  rw [if_pos a]
  rfl

theorem unpackS_i32le (r : Int) (hlo : -2147483648 ≤ r) (hhi : r ≤ 2147483647) :
    unpackS false (leBytes 4 (r % 4294967296).toNat) = r := by
  unfold unpackS
  simp only [ordNat, leNat_leBytes, leBytes_length, Bool.false_eq_true, if_false]
  have h1 : (256 : Nat) ^ 4 = 4294967296 := by decide
  rw [h1]
  have h2 : (r % 4294967296).toNat < 4294967296 := by omega
  rw [Nat.mod_eq_of_lt h2]
  split <;> omega

theorem unpackAtom_i_le (n : Nat) (bs : Bytes) : unpackAtom false ⟨.i, n⟩ bs = .int (unpackS false bs) := rfl

/-! ### common info -/

theorem cmninfoData_eq (chmax flags rxp : Nat) (h1 : chmax ≤ 255) (h2 : flags ≤ 255) (h3 : rxp ≤ 255) :
    cmninfoData chmax flags rxp
      = .ok [BitVec.ofNat 8 chmax, BitVec.ofNat 8 flags, BitVec.ofNat 8 rxp] := by
  unfold cmninfoData pack
  rw [cmninfoEnc_atoms]
  exact packAtoms_cons_ok (packAtom_B _ 1 chmax (by omega))
    (packAtoms_cons_ok (packAtom_B _ 1 flags (by omega))
      (packAtoms_cons_ok (packAtom_B _ 1 rxp (by omega)) rfl))

theorem cmninfoEncode_eq (chmax flags rxp : Nat) (h1 : chmax ≤ 255) (h2 : flags ≤ 255) (h3 : rxp ≤ 255) :
    cmninfoEncode chmax flags rxp
      = .ok (wire 2 [BitVec.ofNat 8 chmax, BitVec.ofNat 8 flags, BitVec.ofNat 8 rxp]) := by
  unfold cmninfoEncode
  rw [cmninfoData_eq chmax flags rxp h1 h2 h3, ok_bind]
  exact Serial.frameCreate_eq 2 _ (by simp) (by omega)

theorem unpack_cmninfoDec (a b c : Byte) :
    unpack Gen.Fmt.cmninfoDec [a, b, c] = .ok [.int a.toNat, .int b.toNat, .int c.toNat] := by
  unfold unpack
  rw [cmninfoDec_atoms]
  rw [unpackAtoms_cons (by simp [Atom.size, Code.size]), unpackAtoms_cons (by simp [Atom.size, Code.size]),
    unpackAtoms_cons (by simp [Atom.size, Code.size])]
  simp [Atom.size, Code.size, unpackAtoms, unpackAtom_B, ok_bind]

theorem cmninfoDecode_three (a b c : Byte) :
    cmninfoDecode ⟨2, [a, b, c]⟩ = .ok (some (a.toNat, b.toNat, c.toNat)) := by
  unfold cmninfoDecode
  have h0 : ¬ ((⟨2, [a, b, c]⟩ : Serial.Frame).fid ≠ idCMNINFO) := by simp [idCMNINFO]
  rw [if_neg h0]
  have hs : slice (⟨2, [a, b, c]⟩ : Serial.Frame).data 0 3 = [a, b, c] := rfl
  rw [hs, unpack_cmninfoDec]
  simp

theorem ofNat8_toNat (n : Nat) (h : n ≤ 255) : (BitVec.ofNat 8 n).toNat = n := by
  simp; omega

theorem cmninfo_rt (chmax flags rxp : Nat) (h1 : chmax ≤ 255) (h2 : flags ≤ 255) (h3 : rxp ≤ 255) :
    cmninfoEncode chmax flags rxp
      = .ok (wire 2 [BitVec.ofNat 8 chmax, BitVec.ofNat 8 flags, BitVec.ofNat 8 rxp]) ∧
    (Serial.frameDecode (wire 2 [BitVec.ofNat 8 chmax, BitVec.ofNat 8 flags, BitVec.ofNat 8 rxp])).bind
      cmninfoDecode = .ok (some (chmax, flags, rxp)) := by
  refine ⟨cmninfoEncode_eq chmax flags rxp h1 h2 h3, ?_⟩
  rw [Serial.frameDecode_wire 2 _ (by simp) (by omega), ok_bind, cmninfoDecode_three,
    ofNat8_toNat _ h1, ofNat8_toNat _ h2, ofNat8_toNat _ h3]

/-! ### ACK -/

theorem ackEncode_eq (r : Int) (hlo : -2147483648 ≤ r) (hhi : r ≤ 2147483647) :
    ackEncode r = .ok (wire 4 (leBytes 4 (r % 4294967296).toNat)) := by
  unfold ackEncode ackData pack
  have hbe : Gen.Fmt.ackEnc.be = false := rfl
  rw [ackEnc_atoms, hbe, packAtoms_cons_ok (packAtom_i_le 4 r hlo hhi) rfl, ok_bind, List.append_nil]
  exact Serial.frameCreate_eq 4 _ (by simp) (by omega)

theorem ackDecode_four (bs : Bytes) (h : bs.length = 4) :
    ackDecode ⟨4, bs⟩ = .ok (some (if unpackS false bs = 0 then (true, 0) else (false, unpackS false bs))) := by
  unfold ackDecode
  have h0 : ¬ ((⟨4, bs⟩ : Serial.Frame).fid ≠ idACK) := by simp [idACK]
  rw [if_neg h0]
  have hu : unpack Gen.Fmt.ackDec (⟨4, bs⟩ : Serial.Frame).data = .ok [.int (unpackS false bs)] := by
    unfold unpack
    have hbe : Gen.Fmt.ackDec.be = false := rfl
    rw [ackDec_atoms, hbe, unpackAtoms_cons (by simp [Atom.size, Code.size, h])]
    have ht : List.take (Atom.size ⟨.i, 4⟩) bs = bs := by
      simp [Atom.size, Code.size, ← h]
    have hd : List.drop (Atom.size ⟨.i, 4⟩) bs = [] := by
      simp [Atom.size, Code.size, ← h]
    show (unpackAtoms false [] (List.drop (Atom.size ⟨.i, 4⟩) bs)).bind
      (fun r => .ok (unpackAtom false ⟨.i, 4⟩ (List.take (Atom.size ⟨.i, 4⟩) bs) :: r)) = _
    rw [ht, hd]
    rfl
  rw [hu]

theorem ack_rt (r : Int) (hlo : -2147483648 ≤ r) (hhi : r ≤ 2147483647) :
    ackEncode r = .ok (wire 4 (leBytes 4 (r % 4294967296).toNat)) ∧
    (Serial.frameDecode (wire 4 (leBytes 4 (r % 4294967296).toNat))).bind ackDecode
      = .ok (some (if r = 0 then (true, 0) else (false, r))) := by
  refine ⟨ackEncode_eq r hlo hhi, ?_⟩
  rw [Serial.frameDecode_wire 4 _ (by simp) (by omega), ok_bind, ackDecode_four _ (by simp),
    unpackS_i32le r hlo hhi]

/-! ### wrong kind -/

theorem wrong_kind (fid : Nat) (d : Bytes) :
    (fid ≠ 2 → cmninfoDecode ⟨fid, d⟩ = .ok none) ∧ (fid ≠ 3 → chinfoDecode ⟨fid, d⟩ = .ok none) ∧
    (fid ≠ 4 → ackDecode ⟨fid, d⟩ = .ok none) := by
  refine ⟨fun h => ?_, fun h => ?_, fun h => ?_⟩
  · unfold cmninfoDecode; exact if_pos h
  · unfold chinfoDecode; exact if_pos h
  · unfold ackDecode; exact if_pos h

/-! ### channel info -/

theorem cstr_append_zeros (name : Bytes) (k : Nat) (hnul : ∀ b ∈ name, b ≠ 0) :
    cstr (name ++ List.replicate k 0) = name := by
  unfold cstr
  induction name with
  | nil =>
    cases k with
    | zero => rfl
    | succ k => simp [List.replicate_succ]
  | cons b bs ih =>
    have hb : b ≠ 0 := hnul b (by simp)
    rw [List.cons_append, List.takeWhile_cons]
    simp only [ne_eq, hb, not_false_eq_true, decide_true, if_true]
    rw [ih (fun x hx => hnul x (by simp [hx]))]

theorem cstr_no_nul (name : Bytes) (hnul : ∀ b ∈ name, b ≠ 0) : cstr name = name := by
  have := cstr_append_zeros name 0 hnul
  simpa using this

theorem chinfoData_eq (en : Bool) (ty vdim div mlen : Nat) (name : Bytes)
    (ht : ty ≤ 255) (hv : vdim ≤ 255) (hd : div ≤ 255) (hm : mlen ≤ 255) :
    chinfoData ⟨en, ty, vdim, div, mlen, name⟩
      = .ok ([BitVec.ofNat 8 (if en then 1 else 0), BitVec.ofNat 8 ty, BitVec.ofNat 8 vdim,
          BitVec.ofNat 8 div, BitVec.ofNat 8 mlen] ++ name) := by
  unfold chinfoData pack
  have hbe : ∀ n, (Gen.Fmt.chinfoEnc n).be = false := fun _ => rfl
  rw [chinfoEnc_atoms, hbe]
  have := packAtoms_cons_ok (packAtom_bool false 1 en)
    (packAtoms_cons_ok (packAtom_B false 1 ty (by omega))
      (packAtoms_cons_ok (packAtom_B false 1 vdim (by omega))
        (packAtoms_cons_ok (packAtom_B false 1 div (by omega))
          (packAtoms_cons_ok (packAtom_B false 1 mlen (by omega))
            (packAtoms_cons_ok (packAtom_s false name) (rfl : packAtoms false [] [] = .ok []))))))
  simpa using this

theorem chinfoEncode_eq (en : Bool) (ty vdim div mlen : Nat) (name : Bytes)
    (ht : ty ≤ 255) (hv : vdim ≤ 255) (hd : div ≤ 255) (hm : mlen ≤ 255)
    (hfit : name.length ≤ 65524) :
    chinfoEncode ⟨en, ty, vdim, div, mlen, name⟩
      = .ok (wire 3 ([BitVec.ofNat 8 (if en then 1 else 0), BitVec.ofNat 8 ty, BitVec.ofNat 8 vdim,
          BitVec.ofNat 8 div, BitVec.ofNat 8 mlen] ++ name)) := by
  unfold chinfoEncode
  rw [chinfoData_eq en ty vdim div mlen name ht hv hd hm, ok_bind]
  exact Serial.frameCreate_eq 3 _ (by simp; omega) (by omega)

theorem unpack_chinfoDec (a b c d e : Byte) (s : Bytes) :
    unpack (Gen.Fmt.chinfoDec s.length) ([a, b, c, d, e] ++ s)
      = .ok [.int a.toNat, .int b.toNat, .int c.toNat, .int d.toNat, .int e.toNat, .bytes s] := by
  unfold unpack
  have hbe : ∀ n, (Gen.Fmt.chinfoDec n).be = false := fun _ => rfl
  rw [chinfoDec_atoms, hbe]
  rw [unpackAtoms_cons (by simp [Atom.size, Code.size]), unpackAtoms_cons (by simp [Atom.size, Code.size]),
    unpackAtoms_cons (by simp [Atom.size, Code.size]), unpackAtoms_cons (by simp [Atom.size, Code.size]),
    unpackAtoms_cons (by simp [Atom.size, Code.size]), unpackAtoms_cons (by simp [Atom.size, Code.size])]
  simp [Atom.size, Code.size, unpackAtoms, unpackAtom_B, unpackAtom_s, ok_bind]

theorem byte_ne_zero (en : Byte) : decide (((en.toNat : Nat) : Int) ≠ 0) = decide (en ≠ 0) := by
  rw [Bool.eq_iff_iff]
  simp only [decide_eq_true_iff]
  constructor
  · intro h h'; subst h'; exact h rfl
  · intro h h'; apply h; apply BitVec.eq_of_toNat_eq
    simp; omega

theorem chinfoDecode_five (a b c d e : Byte) (s : Bytes) :
    chinfoDecode ⟨3, [a, b, c, d, e] ++ s⟩
      = .ok (some ⟨a ≠ 0, b.toNat, c.toNat, d.toNat, e.toNat, cstr s⟩) := by
  unfold chinfoDecode
  have h0 : ¬ ((⟨3, [a, b, c, d, e] ++ s⟩ : Serial.Frame).fid ≠ idCHINFO) := by simp [idCHINFO]
  have hl : (⟨3, [a, b, c, d, e] ++ s⟩ : Serial.Frame).data.length - 5 = s.length := by simp
  have h1 : ¬ ((⟨3, [a, b, c, d, e] ++ s⟩ : Serial.Frame).data.length < 5) := by simp
  rw [if_neg h0, if_neg h1, hl]
  have hu : unpack (Gen.Fmt.chinfoDec s.length) (⟨3, [a, b, c, d, e] ++ s⟩ : Serial.Frame).data
      = .ok [.int a.toNat, .int b.toNat, .int c.toNat, .int d.toNat, .int e.toNat, .bytes s] :=
    unpack_chinfoDec a b c d e s
  rw [hu]
  simp only [Int.toNat_natCast, byte_ne_zero]

theorem chinfo_trailing_nul (en ty vdim div mlen : Byte) (name : Bytes) (k : Nat)
    (hnul : ∀ b ∈ name, b ≠ 0) :
    chinfoDecode ⟨3, [en, ty, vdim, div, mlen] ++ name ++ List.replicate k 0⟩
      = .ok (some ⟨en ≠ 0, ty.toNat, vdim.toNat, div.toNat, mlen.toNat, name⟩) := by
  rw [List.append_assoc, chinfoDecode_five, cstr_append_zeros name k hnul]

theorem chinfo_rt (en : Bool) (ty vdim div mlen : Nat) (name : Bytes)
    (ht : ty ≤ 255) (hv : vdim ≤ 255) (hd : div ≤ 255) (hm : mlen ≤ 255)
    (hnul : ∀ b ∈ name, b ≠ 0) (hfit : name.length ≤ 65524) :
    chinfoEncode ⟨en, ty, vdim, div, mlen, name⟩
      = .ok (wire 3 ([BitVec.ofNat 8 (if en then 1 else 0), BitVec.ofNat 8 ty, BitVec.ofNat 8 vdim,
          BitVec.ofNat 8 div, BitVec.ofNat 8 mlen] ++ name)) ∧
    (Serial.frameDecode (wire 3 ([BitVec.ofNat 8 (if en then 1 else 0), BitVec.ofNat 8 ty,
        BitVec.ofNat 8 vdim, BitVec.ofNat 8 div, BitVec.ofNat 8 mlen] ++ name))).bind
        chinfoDecode = .ok (some ⟨en, ty, vdim, div, mlen, name⟩) := by
  refine ⟨chinfoEncode_eq en ty vdim div mlen name ht hv hd hm hfit, ?_⟩
  rw [Serial.frameDecode_wire 3 _ (by simp; omega) (by omega), ok_bind, chinfoDecode_five,
    cstr_no_nul name hnul, ofNat8_toNat _ ht, ofNat8_toNat _ hv, ofNat8_toNat _ hd,
    ofNat8_toNat _ hm]
  cases en <;> rfl

end Nxs.Info
