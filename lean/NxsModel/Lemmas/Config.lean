/-
  Lemmas about the buffered channel-configuration machine (`NxsModel/Config.lean`), used by
  Props/C07.lean and Props/C11.lean:
    * list facts (`setMany`, `diffIdx`), `payloadOf (wire …)`,
    * a characterisation of `writeEnable` / `writeDiv` under the well-formedness invariant `Inv`,
    * preservation of `Inv`, of the doubt invariant `Doubt` and of `Sync` by every `step`,
    * a generic induction principle for `run` and `run_append`.
-/
import NxsModel.Config
import NxsModel.Spec.Wire
import NxsModel.Props.C05
namespace Nxs.Config
open Nxs Nxs.Spec Nxs.Requests

attribute [local irreducible] crc16xmodem

/-! ### frames -/

theorem payloadOf_wire (fid : Nat) (p : Bytes) : payloadOf (wire fid p) = p := by
  simp [payloadOf, slice, wire, wirePrefix]

theorem wire_id (fid : Nat) (p : Bytes) : (wire fid p).getD 3 0 = BitVec.ofNat 8 fid := by
  simp [wire, wirePrefix]

/-! ### lists -/

theorem setMany_length (vec : List α) (cs : List Nat) (v : α) :
    (setMany vec cs v).1.length = vec.length := by
  induction cs generalizing vec with
  | nil => rfl
  | cons c r ih =>
    unfold setMany
    split
    · rw [ih, List.length_set]
    · rfl

theorem setMany_mem (vec : List α) (cs : List Nat) (v : α) :
    ∀ x ∈ (setMany vec cs v).1, x ∈ vec ∨ x = v := by
  induction cs generalizing vec with
  | nil => intro x hx; exact Or.inl hx
  | cons c r ih =>
    unfold setMany
    split
    · intro x hx
      rcases ih _ x hx with h | h
      · rcases List.mem_or_eq_of_mem_set h with h | h
        · exact Or.inl h
        · exact Or.inr h
      · exact Or.inr h
    · intro x hx; exact Or.inl hx

theorem diffIdx_single [DecidableEq α] (new now : List α) (k : Nat) (dflt : α)
    (hl : new.length = now.length) (h : diffIdx new now = [k]) :
    k < now.length ∧ now.set k (new.getD k dflt) = new := by
  have hk : k ∈ diffIdx new now := by rw [h]; exact List.mem_singleton.mpr rfl
  have hk' : k < now.length := by
    unfold diffIdx at hk
    exact List.mem_range.mp (List.mem_filter.mp hk).1
  refine ⟨hk', ?_⟩
  apply List.ext_getElem
  · rw [List.length_set, hl]
  · intro i h1 h2
    rw [List.length_set] at h1
    by_cases hik : k = i
    · subst hik
      rw [List.getElem_set_self, List.getD_eq_getElem?_getD, List.getElem?_eq_getElem h2]
      rfl
    · rw [List.getElem_set_ne hik]
      apply Classical.byContradiction
      intro hne
      have hi : i ∈ diffIdx new now := by
        unfold diffIdx
        refine List.mem_filter.mpr ⟨List.mem_range.mpr h1, ?_⟩
        rw [List.getElem?_eq_getElem h2, List.getElem?_eq_getElem h1]
        simp only [ne_eq, Option.some.injEq, decide_not, Bool.not_eq_eq_eq_not, Bool.not_true,
          decide_eq_false_iff_not]
        exact fun e => hne e.symm
      rw [h] at hi
      exact hik (List.mem_singleton.mp hi).symm

theorem diffIdx_self [DecidableEq α] (l : List α) : diffIdx l l = [] := by
  unfold diffIdx
  simp

theorem map_toNat_ofNat (vs : List Int) (h : ∀ v ∈ vs, 0 ≤ v ∧ v ≤ 255) :
    (vs.map Int.toNat).map Int.ofNat = vs := by
  induction vs with
  | nil => rfl
  | cons a r ih =>
    have ha := h a (List.mem_cons_self ..)
    simp only [List.map_cons]
    rw [ih (fun v hv => h v (List.mem_cons_of_mem _ hv))]
    congr 1
    simp only [Int.ofNat_eq_natCast]
    omega

/-! ### the well-formedness invariant and the doubt invariant -/

/-- well-formedness of a client/device pair: `n ≤ 255` (zero channels allowed), every vector has `n`
    entries, requested dividers are 8-bit, and the client's copy of the device description equals its
    `…Now` view -/
structure Inv (c : Client) (d : Device) : Prop where
  n255 : c.n ≤ 255
  lEnNow : c.enNow.length = c.n
  lEnNew : c.enNew.length = c.n
  lDivNow : c.divNow.length = c.n
  lDivNew : c.divNew.length = c.n
  lDevEn : d.en.length = c.n
  lDevDiv : d.div.length = c.n
  rDivNew : ∀ v ∈ c.divNew, 0 ≤ v ∧ v ≤ 255
  cpEn : c.copyEn = c.enNow
  cpDiv : c.copyDiv = c.divNow

/-- unless a request is pending in doubt, the device holds exactly the client's view -/
def DoubtEn (c : Client) (d : Device) : Prop := c.enResync = false → d.en = c.enNow
def DoubtDiv (c : Client) (d : Device) : Prop := c.divResync = false → d.div = c.divNow

theorem enRequest_single (c : Client) (k : Nat) (h : diffIdx c.enNew c.enNow = [k]) (hr : c.enResync = false) :
    enRequest c = .single k (c.enNew.getD k false) := by
  simp [enRequest, h, hr]

theorem enRequest_vec (c : Client) (h : ¬ ((∃ k, diffIdx c.enNew c.enNow = [k]) ∧ c.enResync = false)) :
    enRequest c = .vec c.enNew := by
  unfold enRequest
  split
  · rename_i k hk
    cases hr : c.enResync
    · exact absurd ⟨⟨k, hk⟩, hr⟩ h
    · rfl
  · rfl

theorem divRequest_single (c : Client) (k : Nat) (h : diffIdx c.divNew c.divNow = [k]) (hr : c.divResync = false) :
    divRequest c = .single k (c.divNew.getD k 0) := by
  simp [divRequest, h, hr]

theorem divRequest_vec (c : Client) (h : ¬ ((∃ k, diffIdx c.divNew c.divNow = [k]) ∧ c.divResync = false)) :
    divRequest c = .vec c.divNew := by
  unfold divRequest
  split
  · rename_i k hk
    cases hr : c.divResync
    · exact absurd ⟨⟨k, hk⟩, hr⟩ h
    · rfl
  · rfl

/-- the enable frame the client builds is well formed (id 6) and a device that applies it ends up
    with an `n`-vector, which is the requested one unless the client's view was in doubt -/
theorem enFrame_spec {c : Client} {d : Device} (hI : Inv c d) (hn : c.n ≠ 0) :
    ∃ f en', frameEnable (enRequest c) c.n = .ok f ∧ f.getD 3 0 = 6 ∧
      devApplyEn d f = { d with en := en' } ∧ en'.length = c.n ∧ (DoubtEn c d → en' = c.enNew) := by
  by_cases hs : (∃ k, diffIdx c.enNew c.enNow = [k]) ∧ c.enResync = false
  · obtain ⟨⟨k, hk⟩, hr⟩ := hs
    have hd := diffIdx_single c.enNew c.enNow k false (hI.lEnNew.trans hI.lEnNow.symm) hk
    have hkn : k < c.n := hI.lEnNow ▸ hd.1
    obtain ⟨p, hp1, hp2⟩ := C05.en_single_agrees c.n k (c.enNew.getD k false) d.en hI.lDevEn hkn hI.n255
    refine ⟨wire 6 p, d.en.set k (c.enNew.getD k false), ?_, ?_, ?_, ?_, ?_⟩
    · rw [enRequest_single c k hk hr]; exact hp1
    · rw [wire_id]; rfl
    · unfold devApplyEn; rw [payloadOf_wire, hI.lDevEn, hp2]
    · rw [List.length_set, hI.lDevEn]
    · intro hD; rw [hD hr]; exact hd.2
  · obtain ⟨p, hp1, hp2⟩ := C05.en_forms_agree c.n c.enNew d.en hI.lEnNew (Nat.pos_of_ne_zero hn) hI.n255
    refine ⟨wire 6 p, c.enNew, ?_, ?_, ?_, hI.lEnNew, fun _ => rfl⟩
    · rw [enRequest_vec c hs]; exact hp1
    · rw [wire_id]; rfl
    · unfold devApplyEn; rw [payloadOf_wire, hI.lDevEn, hp2]

theorem divFrame_spec {c : Client} {d : Device} (hI : Inv c d) (hn : c.n ≠ 0) :
    ∃ f dv', frameDiv (divRequest c) c.n = .ok f ∧ f.getD 3 0 = 7 ∧
      devApplyDiv d f = { d with div := dv' } ∧ dv'.length = c.n ∧ (DoubtDiv c d → dv' = c.divNew) := by
  by_cases hs : (∃ k, diffIdx c.divNew c.divNow = [k]) ∧ c.divResync = false
  · obtain ⟨⟨k, hk⟩, hr⟩ := hs
    have hd := diffIdx_single c.divNew c.divNow k 0 (hI.lDivNew.trans hI.lDivNow.symm) hk
    have hkn : k < c.n := hI.lDivNow ▸ hd.1
    have hkl : k < c.divNew.length := hI.lDivNew ▸ hkn
    have hv : 0 ≤ c.divNew.getD k 0 ∧ c.divNew.getD k 0 ≤ 255 := by
      apply hI.rDivNew
      rw [List.getD_eq_getElem?_getD, List.getElem?_eq_getElem hkl]
      exact List.getElem_mem hkl
    obtain ⟨p, hp1, hp2⟩ := C05.div_single_agrees c.n k (c.divNew.getD k 0).toNat d.div hI.lDevDiv hkn hI.n255
      (by omega)
    rw [Int.toNat_of_nonneg hv.1] at hp1 hp2
    refine ⟨wire 7 p, d.div.set k (c.divNew.getD k 0), ?_, ?_, ?_, ?_, ?_⟩
    · rw [divRequest_single c k hk hr]; exact hp1
    · rw [wire_id]; rfl
    · unfold devApplyDiv; rw [payloadOf_wire, hI.lDevDiv, hp2]
    · rw [List.length_set, hI.lDevDiv]
    · intro hD; rw [hD hr]; exact hd.2
  · have hm := map_toNat_ofNat c.divNew hI.rDivNew
    obtain ⟨p, hp1, hp2⟩ := C05.div_forms_agree c.n (c.divNew.map Int.toNat) d.div
      (by rw [List.length_map]; exact hI.lDivNew) (Nat.pos_of_ne_zero hn) hI.n255
      (by
        intro v hv
        obtain ⟨a, ha, rfl⟩ := List.mem_map.mp hv
        have := hI.rDivNew a ha
        omega)
    rw [hm] at hp1 hp2
    refine ⟨wire 7 p, c.divNew, ?_, ?_, ?_, hI.lDivNew, fun _ => rfl⟩
    · rw [divRequest_vec c hs]; exact hp1
    · rw [wire_id]; rfl
    · unfold devApplyDiv; rw [payloadOf_wire, hI.lDevDiv, hp2]

/-! ### acknowledgement -/

theorem ackSeen_ack (c : Client) (t : Nat) : ackSeen c .ack t = (true, 0) := by
  unfold ackSeen; split <;> rfl

theorem ackSeen_fail (c : Client) (o : Outcome) (t : Nat) (ha : c.ackSupported = true) (hf : o ≠ .ack) :
    (ackSeen c o t).1 = false := by
  unfold ackSeen
  rw [ha]
  cases o <;> first | rfl | exact absurd rfl hf

theorem ackSeen_time (c : Client) (o : Outcome) (t : Nat) : (ackSeen c o t).2 ≤ t := by
  unfold ackSeen
  split
  · exact Nat.zero_le _
  · cases o <;> simp

/-! ### one request: `writeEnable` / `writeDiv` -/

/-- the client after an acknowledged / a failed enable request -/
def enAck (c : Client) : Client := { c with enResync := false, enNow := c.enNew, copyEn := c.enNew }
def enFail (c : Client) : Client := { c with enResync := true }
def divAck (c : Client) : Client := { c with divResync := false, divNow := c.divNew, copyDiv := c.divNew }
def divFail (c : Client) : Client := { c with divResync := true }

theorem writeEnable_ok (c : Client) (d : Device) (o : Outcome) (f : Bytes)
    (h : frameEnable (enRequest c) c.n = .ok f) :
    writeEnable c d o = (if (ackSeen c o Gen.Comm.ackTimeoutEnable).1 then enAck c else enFail c,
      if applies o then devApplyEn d f else d, { sent := [f], time := (ackSeen c o Gen.Comm.ackTimeoutEnable).2 }) := by
  unfold writeEnable
  rw [h]
  generalize ackSeen c o Gen.Comm.ackTimeoutEnable = p
  obtain ⟨s, t⟩ := p
  cases s <;> rfl

theorem writeEnable_err (c : Client) (d : Device) (o : Outcome) (e : Err)
    (h : frameEnable (enRequest c) c.n = .error e) :
    writeEnable c d o = (c, d, { err := some e }) := by
  unfold writeEnable
  rw [h]

theorem writeDiv_ok (c : Client) (d : Device) (o : Outcome) (f : Bytes)
    (h : frameDiv (divRequest c) c.n = .ok f) :
    writeDiv c d o = (if (ackSeen c o Gen.Comm.ackTimeoutDiv).1 then divAck c else divFail c,
      if applies o then devApplyDiv d f else d, { sent := [f], time := (ackSeen c o Gen.Comm.ackTimeoutDiv).2 }) := by
  unfold writeDiv
  rw [h]
  generalize ackSeen c o Gen.Comm.ackTimeoutDiv = p
  obtain ⟨s, t⟩ := p
  cases s <;> rfl

theorem writeDiv_err (c : Client) (d : Device) (o : Outcome) (e : Err)
    (h : frameDiv (divRequest c) c.n = .error e) :
    writeDiv c d o = (c, d, { err := some e }) := by
  unfold writeDiv
  rw [h]

theorem devApplyEn_div (d : Device) (f : Bytes) : (devApplyEn d f).div = d.div := by
  unfold devApplyEn; split <;> rfl

theorem devApplyDiv_en (d : Device) (f : Bytes) : (devApplyDiv d f).en = d.en := by
  unfold devApplyDiv; split <;> rfl

/-- what an enable request leaves alone (no assumption on the state) -/
structure EnFrame (c c' : Client) (d d' : Device) : Prop where
  n : c'.n = c.n
  enNew : c'.enNew = c.enNew
  divNew : c'.divNew = c.divNew
  divNow : c'.divNow = c.divNow
  copyDiv : c'.copyDiv = c.copyDiv
  divResync : c'.divResync = c.divResync
  divS : c'.divSupported = c.divSupported
  ackS : c'.ackSupported = c.ackSupported
  div : d'.div = d.div

/-- what a divider request leaves alone -/
structure DivFrame (c c' : Client) (d d' : Device) : Prop where
  n : c'.n = c.n
  enNew : c'.enNew = c.enNew
  divNew : c'.divNew = c.divNew
  enNow : c'.enNow = c.enNow
  copyEn : c'.copyEn = c.copyEn
  enResync : c'.enResync = c.enResync
  divS : c'.divSupported = c.divSupported
  ackS : c'.ackSupported = c.ackSupported
  en : d'.en = d.en

theorem writeEnable_frame (c : Client) (d : Device) (o : Outcome) :
    EnFrame c (writeEnable c d o).1 d (writeEnable c d o).2.1 := by
  cases h : frameEnable (enRequest c) c.n with
  | error e => rw [writeEnable_err c d o e h]; constructor <;> rfl
  | ok f =>
    rw [writeEnable_ok c d o f h]
    constructor
    case div => dsimp only; split <;> first | rfl | exact devApplyEn_div d f
    all_goals (dsimp only; split <;> rfl)

theorem writeDiv_frame (c : Client) (d : Device) (o : Outcome) :
    DivFrame c (writeDiv c d o).1 d (writeDiv c d o).2.1 := by
  cases h : frameDiv (divRequest c) c.n with
  | error e => rw [writeDiv_err c d o e h]; constructor <;> rfl
  | ok f =>
    rw [writeDiv_ok c d o f h]
    constructor
    case en => dsimp only; split <;> first | rfl | exact devApplyDiv_en d f
    all_goals (dsimp only; split <;> rfl)

theorem writeEnable_time (c : Client) (d : Device) (o : Outcome) : (writeEnable c d o).2.2.time ≤ 10 := by
  cases h : frameEnable (enRequest c) c.n with
  | error e => rw [writeEnable_err c d o e h]; exact Nat.zero_le _
  | ok f => rw [writeEnable_ok c d o f h]; exact ackSeen_time c o _

theorem writeDiv_time (c : Client) (d : Device) (o : Outcome) : (writeDiv c d o).2.2.time ≤ 10 := by
  cases h : frameDiv (divRequest c) c.n with
  | error e => rw [writeDiv_err c d o e h]; exact Nat.zero_le _
  | ok f => rw [writeDiv_ok c d o f h]; exact ackSeen_time c o _

/-- a request that is not positively acknowledged leaves the reported enable state alone -/
theorem writeEnable_failed (c : Client) (d : Device) (o : Outcome) (ha : c.ackSupported = true)
    (hf : o ≠ .ack) :
    (writeEnable c d o).1.enNow = c.enNow ∧ (writeEnable c d o).1.copyEn = c.copyEn := by
  cases h : frameEnable (enRequest c) c.n with
  | error e => rw [writeEnable_err c d o e h]; exact ⟨rfl, rfl⟩
  | ok f => rw [writeEnable_ok c d o f h, ackSeen_fail c o _ ha hf]; exact ⟨rfl, rfl⟩

theorem writeDiv_failed (c : Client) (d : Device) (o : Outcome) (ha : c.ackSupported = true)
    (hf : o ≠ .ack) :
    (writeDiv c d o).1.divNow = c.divNow ∧ (writeDiv c d o).1.copyDiv = c.copyDiv := by
  cases h : frameDiv (divRequest c) c.n with
  | error e => rw [writeDiv_err c d o e h]; exact ⟨rfl, rfl⟩
  | ok f => rw [writeDiv_ok c d o f h, ackSeen_fail c o _ ha hf]; exact ⟨rfl, rfl⟩

/-! ### a device without channels (`n = 0`): every vector is empty and no request can be built -/

theorem Inv.nil {c : Client} {d : Device} (h : Inv c d) (h0 : c.n = 0) :
    c.enNow = [] ∧ c.enNew = [] ∧ c.divNow = [] ∧ c.divNew = [] ∧ d.en = [] ∧ d.div = [] ∧
    c.copyEn = [] ∧ c.copyDiv = [] := by
  have e1 : c.enNow = [] := List.eq_nil_of_length_eq_zero (h.lEnNow.trans h0)
  have e2 : c.divNow = [] := List.eq_nil_of_length_eq_zero (h.lDivNow.trans h0)
  exact ⟨e1, List.eq_nil_of_length_eq_zero (h.lEnNew.trans h0), e2,
    List.eq_nil_of_length_eq_zero (h.lDivNew.trans h0), List.eq_nil_of_length_eq_zero (h.lDevEn.trans h0),
    List.eq_nil_of_length_eq_zero (h.lDevDiv.trans h0), h.cpEn.trans e1, h.cpDiv.trans e2⟩

/-- the request builders cannot express an empty vector (the `IndexError` of F18) -/
theorem frameEnable_zero {c : Client} {d : Device} (hI : Inv c d) (h0 : c.n = 0) :
    frameEnable (enRequest c) c.n = .error .indexError := by
  obtain ⟨e1, e2, -⟩ := hI.nil h0
  have hr : enRequest c = .vec [] := by
    unfold enRequest; rw [e1, e2, diffIdx_self]
  rw [hr, h0]; rfl

theorem frameDiv_zero {c : Client} {d : Device} (hI : Inv c d) (h0 : c.n = 0) :
    frameDiv (divRequest c) c.n = .error .indexError := by
  obtain ⟨-, -, e1, e2, -⟩ := hI.nil h0
  have hr : divRequest c = .vec [] := by
    unfold divRequest; rw [e1, e2, diffIdx_self]
  rw [hr, h0]; rfl

/-- … so a request attempted on a device without channels fails locally and changes nothing -/
theorem writeEnable_zero {c : Client} {d : Device} (hI : Inv c d) (h0 : c.n = 0) (o : Outcome) :
    writeEnable c d o = (c, d, { err := some .indexError }) :=
  writeEnable_err c d o _ (frameEnable_zero hI h0)

theorem writeDiv_zero {c : Client} {d : Device} (hI : Inv c d) (h0 : c.n = 0) (o : Outcome) :
    writeDiv c d o = (c, d, { err := some .indexError }) :=
  writeDiv_err c d o _ (frameDiv_zero hI h0)

/-- under `Inv`, with at least one channel, the enable request is always built and emitted; the device
    (if it applies it) gets an `n`-vector, the requested one unless the view was in doubt -/
theorem writeEnable_char {c : Client} {d : Device} (hI : Inv c d) (hn : c.n ≠ 0) (o : Outcome) :
    ∃ f en', f.getD 3 0 = 6 ∧ en'.length = c.n ∧ (DoubtEn c d → en' = c.enNew) ∧
      writeEnable c d o = (if (ackSeen c o Gen.Comm.ackTimeoutEnable).1 then enAck c else enFail c,
        if applies o then { d with en := en' } else d, { sent := [f], time := (ackSeen c o Gen.Comm.ackTimeoutEnable).2 }) := by
  obtain ⟨f, en', hf, h6, hap, hl, hD⟩ := enFrame_spec hI hn
  exact ⟨f, en', h6, hl, hD, by rw [writeEnable_ok c d o f hf, hap]⟩

theorem writeDiv_char {c : Client} {d : Device} (hI : Inv c d) (hn : c.n ≠ 0) (o : Outcome) :
    ∃ f dv', f.getD 3 0 = 7 ∧ dv'.length = c.n ∧ (DoubtDiv c d → dv' = c.divNew) ∧
      writeDiv c d o = (if (ackSeen c o Gen.Comm.ackTimeoutDiv).1 then divAck c else divFail c,
        if applies o then { d with div := dv' } else d, { sent := [f], time := (ackSeen c o Gen.Comm.ackTimeoutDiv).2 }) := by
  obtain ⟨f, dv', hf, h7, hap, hl, hD⟩ := divFrame_spec hI hn
  exact ⟨f, dv', h7, hl, hD, by rw [writeDiv_ok c d o f hf, hap]⟩

theorem Inv.enAck {c : Client} {d : Device} (h : Inv c d) : Inv (enAck c) d :=
  ⟨h.n255, h.lEnNew, h.lEnNew, h.lDivNow, h.lDivNew, h.lDevEn, h.lDevDiv, h.rDivNew, rfl, h.cpDiv⟩
theorem Inv.enFail {c : Client} {d : Device} (h : Inv c d) : Inv (enFail c) d :=
  ⟨h.n255, h.lEnNow, h.lEnNew, h.lDivNow, h.lDivNew, h.lDevEn, h.lDevDiv, h.rDivNew, h.cpEn, h.cpDiv⟩
theorem Inv.divAck {c : Client} {d : Device} (h : Inv c d) : Inv (divAck c) d :=
  ⟨h.n255, h.lEnNow, h.lEnNew, h.lDivNew, h.lDivNew, h.lDevEn, h.lDevDiv, h.rDivNew, h.cpEn, rfl⟩
theorem Inv.divFail {c : Client} {d : Device} (h : Inv c d) : Inv (divFail c) d :=
  ⟨h.n255, h.lEnNow, h.lEnNew, h.lDivNow, h.lDivNew, h.lDevEn, h.lDevDiv, h.rDivNew, h.cpEn, h.cpDiv⟩
theorem Inv.devEn {c : Client} {d : Device} (h : Inv c d) (en' : List Bool) (hl : en'.length = c.n) :
    Inv c { d with en := en' } :=
  ⟨h.n255, h.lEnNow, h.lEnNew, h.lDivNow, h.lDivNew, hl, h.lDevDiv, h.rDivNew, h.cpEn, h.cpDiv⟩
theorem Inv.devDiv {c : Client} {d : Device} (h : Inv c d) (dv' : List Int) (hl : dv'.length = c.n) :
    Inv c { d with div := dv' } :=
  ⟨h.n255, h.lEnNow, h.lEnNew, h.lDivNow, h.lDivNew, h.lDevEn, hl, h.rDivNew, h.cpEn, h.cpDiv⟩

theorem writeEnable_inv {c : Client} {d : Device} (hI : Inv c d) (o : Outcome) :
    Inv (writeEnable c d o).1 (writeEnable c d o).2.1 := by
  by_cases hn : c.n = 0
  · rw [writeEnable_zero hI hn o]; exact hI
  obtain ⟨f, en', -, hl, -, heq⟩ := writeEnable_char hI hn o
  rw [heq]; dsimp only
  split <;> split
  · exact (hI.devEn en' hl).enAck
  · exact hI.enAck
  · exact (hI.devEn en' hl).enFail
  · exact hI.enFail

theorem writeDiv_inv {c : Client} {d : Device} (hI : Inv c d) (o : Outcome) :
    Inv (writeDiv c d o).1 (writeDiv c d o).2.1 := by
  by_cases hn : c.n = 0
  · rw [writeDiv_zero hI hn o]; exact hI
  obtain ⟨f, dv', -, hl, -, heq⟩ := writeDiv_char hI hn o
  rw [heq]; dsimp only
  split <;> split
  · exact (hI.devDiv dv' hl).divAck
  · exact hI.divAck
  · exact (hI.devDiv dv' hl).divFail
  · exact hI.divFail

/-- under `Inv`, with at least one channel, a request never fails locally and emits exactly one frame
    with the right id (with zero channels it fails locally: `writeEnable_zero`) -/
theorem writeEnable_out {c : Client} {d : Device} (hI : Inv c d) (hn : c.n ≠ 0) (o : Outcome) :
    (writeEnable c d o).2.2.err = none ∧ ∀ f ∈ (writeEnable c d o).2.2.sent, f.getD 3 0 = 6 := by
  obtain ⟨f, en', h6, -, -, heq⟩ := writeEnable_char hI hn o
  rw [heq]
  exact ⟨rfl, fun g hg => (List.mem_singleton.mp hg) ▸ h6⟩

theorem writeDiv_out {c : Client} {d : Device} (hI : Inv c d) (hn : c.n ≠ 0) (o : Outcome) :
    (writeDiv c d o).2.2.err = none ∧ ∀ f ∈ (writeDiv c d o).2.2.sent, f.getD 3 0 = 7 := by
  obtain ⟨f, dv', h7, -, -, heq⟩ := writeDiv_char hI hn o
  rw [heq]
  exact ⟨rfl, fun g hg => (List.mem_singleton.mp hg) ▸ h7⟩

/-- the doubt invariant survives a request whose outcome the client can observe -/
theorem writeEnable_doubt {c : Client} {d : Device} (hI : Inv c d) (hD : DoubtEn c d) (o : Outcome)
    (hg : c.ackSupported = true ∨ o = .ack) :
    DoubtEn (writeEnable c d o).1 (writeEnable c d o).2.1 := by
  by_cases hn : c.n = 0
  · rw [writeEnable_zero hI hn o]; exact hD
  obtain ⟨f, en', -, -, hen, heq⟩ := writeEnable_char hI hn o
  rw [heq]
  by_cases ho : o = .ack
  · subst ho
    rw [ackSeen_ack]
    intro _
    exact hen hD
  · have ha : c.ackSupported = true := hg.resolve_right ho
    rw [ackSeen_fail c o _ ha ho]
    intro h
    exact absurd h (by simp [enFail])

theorem writeDiv_doubt {c : Client} {d : Device} (hI : Inv c d) (hD : DoubtDiv c d) (o : Outcome)
    (hg : c.ackSupported = true ∨ o = .ack) :
    DoubtDiv (writeDiv c d o).1 (writeDiv c d o).2.1 := by
  by_cases hn : c.n = 0
  · rw [writeDiv_zero hI hn o]; exact hD
  obtain ⟨f, dv', -, -, hdv, heq⟩ := writeDiv_char hI hn o
  rw [heq]
  by_cases ho : o = .ack
  · subst ho
    rw [ackSeen_ack]
    intro _
    exact hdv hD
  · have ha : c.ackSupported = true := hg.resolve_right ho
    rw [ackSeen_fail c o _ ha ho]
    intro h
    exact absurd h (by simp [divFail])

/-- an acknowledged request brings device and client to the requested state -/
theorem writeEnable_ack {c : Client} {d : Device} (hI : Inv c d) (hn : c.n ≠ 0) (hD : DoubtEn c d) :
    (writeEnable c d .ack).1 = enAck c ∧ (writeEnable c d .ack).2.1 = { d with en := c.enNew } := by
  obtain ⟨f, en', -, -, hen, heq⟩ := writeEnable_char hI hn .ack
  rw [heq, ackSeen_ack, hen hD]
  exact ⟨rfl, rfl⟩

theorem writeDiv_ack {c : Client} {d : Device} (hI : Inv c d) (hn : c.n ≠ 0) (hD : DoubtDiv c d) :
    (writeDiv c d .ack).1 = divAck c ∧ (writeDiv c d .ack).2.1 = { d with div := c.divNew } := by
  obtain ⟨f, dv', -, -, hdv, heq⟩ := writeDiv_char hI hn .ack
  rw [heq, ackSeen_ack, hdv hD]
  exact ⟨rfl, rfl⟩

/-! ### `channelsWrite` -/

/-- a device without channels: the write is a no-op (`chmax == 0`) -/
theorem channelsWrite_zero (c : Client) (d : Device) (oDiv oEn : Outcome) (h0 : c.n = 0) :
    channelsWrite c d oDiv oEn = (c, d, {}) := by
  unfold channelsWrite; rw [if_pos h0]

theorem channelsWrite_nodiv (c : Client) (d : Device) (oDiv oEn : Outcome) (hn : c.n ≠ 0)
    (h : c.divSupported = false) :
    channelsWrite c d oDiv oEn = writeEnable c d oEn := by
  unfold channelsWrite; rw [if_neg hn, h]; rfl

theorem channelsWrite_div_err (c : Client) (d : Device) (oDiv oEn : Outcome) (hn : c.n ≠ 0)
    (h : c.divSupported = true) (e : Err) (he : (writeDiv c d oDiv).2.2.err = some e) :
    channelsWrite c d oDiv oEn = writeDiv c d oDiv := by
  unfold channelsWrite; rw [if_neg hn, h]; dsimp only; rw [he]; rfl

theorem channelsWrite_div_ok (c : Client) (d : Device) (oDiv oEn : Outcome) (hn : c.n ≠ 0)
    (h : c.divSupported = true) (he : (writeDiv c d oDiv).2.2.err = none) :
    channelsWrite c d oDiv oEn =
      ((writeEnable (writeDiv c d oDiv).1 (writeDiv c d oDiv).2.1 oEn).1,
       (writeEnable (writeDiv c d oDiv).1 (writeDiv c d oDiv).2.1 oEn).2.1,
       { sent := (writeDiv c d oDiv).2.2.sent ++ (writeEnable (writeDiv c d oDiv).1 (writeDiv c d oDiv).2.1 oEn).2.2.sent,
         time := (writeDiv c d oDiv).2.2.time + (writeEnable (writeDiv c d oDiv).1 (writeDiv c d oDiv).2.1 oEn).2.2.time,
         err := (writeEnable (writeDiv c d oDiv).1 (writeDiv c d oDiv).2.1 oEn).2.2.err }) := by
  unfold channelsWrite; rw [if_neg hn, h]; dsimp only; rw [he]; rfl

theorem channelsWrite_time (c : Client) (d : Device) (oDiv oEn : Outcome) :
    (channelsWrite c d oDiv oEn).2.2.time ≤ 20 := by
  by_cases hn : c.n = 0
  · rw [channelsWrite_zero c d oDiv oEn hn]; exact Nat.zero_le _
  cases h : c.divSupported with
  | false =>
    rw [channelsWrite_nodiv c d oDiv oEn hn h]
    exact Nat.le_trans (writeEnable_time c d oEn) (by decide)
  | true =>
    cases he : (writeDiv c d oDiv).2.2.err with
    | some e =>
      rw [channelsWrite_div_err c d oDiv oEn hn h e he]
      exact Nat.le_trans (writeDiv_time c d oDiv) (by decide)
    | none =>
      rw [channelsWrite_div_ok c d oDiv oEn hn h he]
      have h1 := writeDiv_time c d oDiv
      have h2 := writeEnable_time (writeDiv c d oDiv).1 (writeDiv c d oDiv).2.1 oEn
      show _ + _ ≤ 20
      omega

theorem channelsWrite_failed_en (c : Client) (d : Device) (oDiv oEn : Outcome) (ha : c.ackSupported = true)
    (hf : oEn ≠ .ack) :
    (channelsWrite c d oDiv oEn).1.enNow = c.enNow ∧ (channelsWrite c d oDiv oEn).1.copyEn = c.copyEn := by
  by_cases hn : c.n = 0
  · rw [channelsWrite_zero c d oDiv oEn hn]; exact ⟨rfl, rfl⟩
  have hF := writeDiv_frame c d oDiv
  cases h : c.divSupported with
  | false =>
    rw [channelsWrite_nodiv c d oDiv oEn hn h]
    exact writeEnable_failed c d oEn ha hf
  | true =>
    cases he : (writeDiv c d oDiv).2.2.err with
    | some e =>
      rw [channelsWrite_div_err c d oDiv oEn hn h e he]
      exact ⟨hF.enNow, hF.copyEn⟩
    | none =>
      rw [channelsWrite_div_ok c d oDiv oEn hn h he]
      have h2 := writeEnable_failed (writeDiv c d oDiv).1 (writeDiv c d oDiv).2.1 oEn (hF.ackS.trans ha) hf
      exact ⟨h2.1.trans hF.enNow, h2.2.trans hF.copyEn⟩

theorem channelsWrite_failed_div (c : Client) (d : Device) (oDiv oEn : Outcome) (ha : c.ackSupported = true)
    (hf : oDiv ≠ .ack) :
    (channelsWrite c d oDiv oEn).1.divNow = c.divNow ∧ (channelsWrite c d oDiv oEn).1.copyDiv = c.copyDiv := by
  by_cases hn : c.n = 0
  · rw [channelsWrite_zero c d oDiv oEn hn]; exact ⟨rfl, rfl⟩
  cases h : c.divSupported with
  | false =>
    rw [channelsWrite_nodiv c d oDiv oEn hn h]
    have hF := writeEnable_frame c d oEn
    exact ⟨hF.divNow, hF.copyDiv⟩
  | true =>
    have h1 := writeDiv_failed c d oDiv ha hf
    cases he : (writeDiv c d oDiv).2.2.err with
    | some e =>
      rw [channelsWrite_div_err c d oDiv oEn hn h e he]
      exact h1
    | none =>
      rw [channelsWrite_div_ok c d oDiv oEn hn h he]
      have hF := writeEnable_frame (writeDiv c d oDiv).1 (writeDiv c d oDiv).2.1 oEn
      exact ⟨hF.divNow.trans h1.1, hF.copyDiv.trans h1.2⟩

/-- capability flags are never touched; without divider support the device's dividers never change -/
theorem channelsWrite_fixed (c : Client) (d : Device) (oDiv oEn : Outcome) :
    (channelsWrite c d oDiv oEn).1.divSupported = c.divSupported ∧
    (channelsWrite c d oDiv oEn).1.ackSupported = c.ackSupported ∧
    (c.divSupported = false → (channelsWrite c d oDiv oEn).2.1.div = d.div) := by
  by_cases hn : c.n = 0
  · rw [channelsWrite_zero c d oDiv oEn hn]; exact ⟨rfl, rfl, fun _ => rfl⟩
  have hF := writeDiv_frame c d oDiv
  cases h : c.divSupported with
  | false =>
    rw [channelsWrite_nodiv c d oDiv oEn hn h]
    have hE := writeEnable_frame c d oEn
    exact ⟨hE.divS.trans h, hE.ackS, fun _ => hE.div⟩
  | true =>
    cases he : (writeDiv c d oDiv).2.2.err with
    | some e =>
      rw [channelsWrite_div_err c d oDiv oEn hn h e he]
      exact ⟨hF.divS.trans h, hF.ackS, fun x => nomatch x⟩
    | none =>
      rw [channelsWrite_div_ok c d oDiv oEn hn h he]
      have hE := writeEnable_frame (writeDiv c d oDiv).1 (writeDiv c d oDiv).2.1 oEn
      exact ⟨(hE.divS.trans hF.divS).trans h, hE.ackS.trans hF.ackS, fun x => nomatch x⟩

theorem channelsWrite_inv {c : Client} {d : Device} (hI : Inv c d) (oDiv oEn : Outcome) :
    Inv (channelsWrite c d oDiv oEn).1 (channelsWrite c d oDiv oEn).2.1 := by
  by_cases hn : c.n = 0
  · rw [channelsWrite_zero c d oDiv oEn hn]; exact hI
  cases h : c.divSupported with
  | false => rw [channelsWrite_nodiv c d oDiv oEn hn h]; exact writeEnable_inv hI oEn
  | true =>
    rw [channelsWrite_div_ok c d oDiv oEn hn h (writeDiv_out hI hn oDiv).1]
    exact writeEnable_inv (writeDiv_inv hI oDiv) oEn

/-- under `Inv` a write never fails locally (with zero channels it does nothing) -/
theorem channelsWrite_noerr {c : Client} {d : Device} (hI : Inv c d) (oDiv oEn : Outcome) :
    (channelsWrite c d oDiv oEn).2.2.err = none := by
  by_cases hn : c.n = 0
  · rw [channelsWrite_zero c d oDiv oEn hn]
  cases h : c.divSupported with
  | false => rw [channelsWrite_nodiv c d oDiv oEn hn h]; exact (writeEnable_out hI hn oEn).1
  | true =>
    rw [channelsWrite_div_ok c d oDiv oEn hn h (writeDiv_out hI hn oDiv).1]
    have hn1 : (writeDiv c d oDiv).1.n ≠ 0 := by rw [(writeDiv_frame c d oDiv).n]; exact hn
    exact (writeEnable_out (writeDiv_inv hI oDiv) hn1 oEn).1

theorem DoubtEn.of_divFrame {c c' : Client} {d d' : Device} (hF : DivFrame c c' d d') (h : DoubtEn c d) :
    DoubtEn c' d' := by
  unfold DoubtEn; rw [hF.enResync, hF.en, hF.enNow]; exact h

theorem DoubtDiv.of_enFrame {c c' : Client} {d d' : Device} (hF : EnFrame c c' d d') (h : DoubtDiv c d) :
    DoubtDiv c' d' := by
  unfold DoubtDiv; rw [hF.divResync, hF.div, hF.divNow]; exact h

theorem channelsWrite_doubt {c : Client} {d : Device} (hI : Inv c d) (hE : DoubtEn c d) (hD : DoubtDiv c d)
    (oDiv oEn : Outcome) (hg : c.ackSupported = true ∨ (oDiv = .ack ∧ oEn = .ack)) :
    DoubtEn (channelsWrite c d oDiv oEn).1 (channelsWrite c d oDiv oEn).2.1 ∧
    DoubtDiv (channelsWrite c d oDiv oEn).1 (channelsWrite c d oDiv oEn).2.1 := by
  by_cases hn : c.n = 0
  · rw [channelsWrite_zero c d oDiv oEn hn]; exact ⟨hE, hD⟩
  cases h : c.divSupported with
  | false =>
    rw [channelsWrite_nodiv c d oDiv oEn hn h]
    exact ⟨writeEnable_doubt hI hE oEn (hg.imp id And.right), hD.of_enFrame (writeEnable_frame c d oEn)⟩
  | true =>
    rw [channelsWrite_div_ok c d oDiv oEn hn h (writeDiv_out hI hn oDiv).1]
    have hF := writeDiv_frame c d oDiv
    have hI1 := writeDiv_inv hI oDiv
    have hD1 := writeDiv_doubt hI hD oDiv (hg.imp id And.left)
    have hE1 := hE.of_divFrame hF
    exact ⟨writeEnable_doubt hI1 hE1 oEn (hg.imp (fun x => hF.ackS.trans x) And.right),
      hD1.of_enFrame (writeEnable_frame _ _ oEn)⟩

/-- without divider support only enable frames (id 6) are emitted -/
theorem channelsWrite_sent {c : Client} {d : Device} (hI : Inv c d) (oDiv oEn : Outcome)
    (h : c.divSupported = false) : ∀ f ∈ (channelsWrite c d oDiv oEn).2.2.sent, f.getD 3 0 = 6 := by
  by_cases hn : c.n = 0
  · rw [channelsWrite_zero c d oDiv oEn hn]; exact fun f hf => nomatch hf
  rw [channelsWrite_nodiv c d oDiv oEn hn h]; exact (writeEnable_out hI hn oEn).2

/-- an acknowledged write (device with at least one channel): explicit resulting state -/
theorem channelsWrite_ack {c : Client} {d : Device} (hI : Inv c d) (hn : c.n ≠ 0) (hE : DoubtEn c d)
    (hD : DoubtDiv c d) :
    (channelsWrite c d .ack .ack).1 = (if c.divSupported then enAck (divAck c) else enAck c) ∧
    (channelsWrite c d .ack .ack).2.1 =
      (if c.divSupported then { en := c.enNew, div := c.divNew } else { d with en := c.enNew }) := by
  cases h : c.divSupported with
  | false =>
    rw [channelsWrite_nodiv c d _ _ hn h]
    exact writeEnable_ack hI hn hE
  | true =>
    rw [channelsWrite_div_ok c d _ _ hn h (writeDiv_out hI hn .ack).1]
    have hF := writeDiv_frame c d .ack
    have hI1 := writeDiv_inv hI .ack
    have hE1 := hE.of_divFrame hF
    have hn1 : (writeDiv c d .ack).1.n ≠ 0 := by rw [hF.n]; exact hn
    have h2 := writeEnable_ack hI1 hn1 hE1
    have h1 := writeDiv_ack hI hn hD
    dsimp only
    rw [h2.1, h2.2, h1.1, h1.2]
    exact ⟨rfl, rfl⟩

/-! ### `step` -/

/-- an op whose requests (if any) are all acknowledged -/
def AckOp : Op → Prop
  | .write a b => a = .ack ∧ b = .ack
  | _ => True

theorem step_divider (c : Client) (d : Device) (cs : List Nat) (v : Int) :
    step c d (.divider cs v) =
      if v < 0 ∨ v > 255 then (c, d, { err := some .valueError })
      else ({ c with divNew := (setMany c.divNew cs v).1 }, d, { err := (setMany c.divNew cs v).2 }) := rfl

/-- every call other than a write only edits the requested vectors, keeping their lengths and the
    8-bit range of dividers; nothing is sent and the device is untouched -/
theorem step_setter (c : Client) (d : Device) (op : Op) (h : ∀ a b, op ≠ .write a b) :
    ∃ e' v', (step c d op).1 = { c with enNew := e', divNew := v' } ∧ (step c d op).2.1 = d ∧
      (step c d op).2.2.sent = [] ∧ e'.length = c.enNew.length ∧ v'.length = c.divNew.length ∧
      ((∀ v ∈ c.divNew, 0 ≤ v ∧ v ≤ 255) → ∀ v ∈ v', 0 ≤ v ∧ v ≤ 255) := by
  cases op with
  | enable cs =>
    exact ⟨(setMany c.enNew cs true).1, c.divNew, rfl, rfl, rfl, setMany_length _ _ _, rfl, id⟩
  | disable cs =>
    exact ⟨(setMany c.enNew cs false).1, c.divNew, rfl, rfl, rfl, setMany_length _ _ _, rfl, id⟩
  | divider cs v =>
    by_cases hv : v < 0 ∨ v > 255
    · refine ⟨c.enNew, c.divNew, ?_, ?_, ?_, rfl, rfl, id⟩ <;> rw [step_divider, if_pos hv]
    · refine ⟨c.enNew, (setMany c.divNew cs v).1, ?_, ?_, ?_, rfl, setMany_length _ _ _, ?_⟩
      · rw [step_divider, if_neg hv]
      · rw [step_divider, if_neg hv]
      · rw [step_divider, if_neg hv]
      · intro hr x hx
        rcases setMany_mem _ _ _ x hx with h1 | h1
        · exact hr x h1
        · subst h1; omega
  | defaultCfg =>
    refine ⟨List.replicate c.enNew.length false, List.replicate c.divNew.length 0, rfl, rfl, rfl,
      List.length_replicate .., List.length_replicate .., ?_⟩
    intro _ x hx
    rw [(List.mem_replicate.mp hx).2]; decide
  | enableAll =>
    exact ⟨List.replicate c.enNew.length true, c.divNew, rfl, rfl, rfl, List.length_replicate .., rfl, id⟩
  | disableAll =>
    exact ⟨List.replicate c.enNew.length false, c.divNew, rfl, rfl, rfl, List.length_replicate .., rfl, id⟩
  | write a b => exact absurd rfl (h a b)

theorem step_inv {c : Client} {d : Device} (hI : Inv c d) (op : Op) :
    Inv (step c d op).1 (step c d op).2.1 := by
  by_cases h : ∀ a b, op ≠ .write a b
  · obtain ⟨e', v', h1, h2, -, hl1, hl2, hr⟩ := step_setter c d op h
    rw [h1, h2]
    exact ⟨hI.n255, hI.lEnNow, hl1.trans hI.lEnNew, hI.lDivNow, hl2.trans hI.lDivNew, hI.lDevEn,
      hI.lDevDiv, hr hI.rDivNew, hI.cpEn, hI.cpDiv⟩
  · cases op with
    | write a b => exact channelsWrite_inv hI a b
    | _ => exact absurd (fun a b e => nomatch e) h

theorem step_fixed (c : Client) (d : Device) (op : Op) :
    (step c d op).1.divSupported = c.divSupported ∧ (step c d op).1.ackSupported = c.ackSupported ∧
    (c.divSupported = false → (step c d op).2.1.div = d.div) := by
  by_cases h : ∀ a b, op ≠ .write a b
  · obtain ⟨e', v', h1, h2, -⟩ := step_setter c d op h
    rw [h1, h2]
    exact ⟨rfl, rfl, fun _ => rfl⟩
  · cases op with
    | write a b => exact channelsWrite_fixed c d a b
    | _ => exact absurd (fun a b e => nomatch e) h

theorem step_doubt {c : Client} {d : Device} (hI : Inv c d) (hE : DoubtEn c d) (hD : DoubtDiv c d) (op : Op)
    (hg : c.ackSupported = true ∨ AckOp op) :
    DoubtEn (step c d op).1 (step c d op).2.1 ∧ DoubtDiv (step c d op).1 (step c d op).2.1 := by
  by_cases h : ∀ a b, op ≠ .write a b
  · obtain ⟨e', v', h1, h2, -⟩ := step_setter c d op h
    rw [h1, h2]
    exact ⟨hE, hD⟩
  · cases op with
    | write a b => exact channelsWrite_doubt hI hE hD a b hg
    | _ => exact absurd (fun a b e => nomatch e) h

/-- in an acknowledged history no request is ever in doubt -/
theorem step_sync {c : Client} {d : Device} (hI : Inv c d) (hE : DoubtEn c d) (hD : DoubtDiv c d) (op : Op)
    (ha : AckOp op) (hs : c.enResync = false ∧ c.divResync = false) :
    (step c d op).1.enResync = false ∧ (step c d op).1.divResync = false := by
  by_cases h : ∀ a b, op ≠ .write a b
  · obtain ⟨e', v', h1, -⟩ := step_setter c d op h
    rw [h1]
    exact hs
  · cases op with
    | write a b =>
      obtain ⟨rfl, rfl⟩ := ha
      show (channelsWrite c d .ack .ack).1.enResync = false ∧ (channelsWrite c d .ack .ack).1.divResync = false
      by_cases hn : c.n = 0
      · rw [channelsWrite_zero c d .ack .ack hn]; exact hs
      rw [(channelsWrite_ack hI hn hE hD).1]
      split
      · exact ⟨rfl, rfl⟩
      · exact ⟨rfl, hs.2⟩
    | _ => exact absurd (fun a b e => nomatch e) h

theorem step_sent {c : Client} {d : Device} (hI : Inv c d) (op : Op) (hs : c.divSupported = false) :
    ∀ f ∈ (step c d op).2.2.sent, f.getD 3 0 = 6 := by
  by_cases h : ∀ a b, op ≠ .write a b
  · obtain ⟨e', v', -, -, h3, -⟩ := step_setter c d op h
    rw [h3]
    exact fun f hf => nomatch hf
  · cases op with
    | write a b => exact channelsWrite_sent hI a b hs
    | _ => exact absurd (fun a b e => nomatch e) h

/-! ### `run` -/

theorem run_cons (c : Client) (d : Device) (op : Op) (r : List Op) :
    run c d (op :: r) = ((run (step c d op).1 (step c d op).2.1 r).1,
      (run (step c d op).1 (step c d op).2.1 r).2.1,
      (step c d op).2.2 :: (run (step c d op).1 (step c d op).2.1 r).2.2) := rfl

theorem run_append (c : Client) (d : Device) (ops ops' : List Op) :
    run c d (ops ++ ops') =
      ((run (run c d ops).1 (run c d ops).2.1 ops').1, (run (run c d ops).1 (run c d ops).2.1 ops').2.1,
       (run c d ops).2.2 ++ (run (run c d ops).1 (run c d ops).2.1 ops').2.2) := by
  induction ops generalizing c d with
  | nil => rfl
  | cons op r ih => rw [List.cons_append, run_cons, run_cons, ih]; rfl

theorem run_snoc (c : Client) (d : Device) (ops : List Op) (op : Op) :
    (run c d (ops ++ [op])).1 = (step (run c d ops).1 (run c d ops).2.1 op).1 ∧
    (run c d (ops ++ [op])).2.1 = (step (run c d ops).1 (run c d ops).2.1 op).2.1 := by
  rw [run_append]; exact ⟨rfl, rfl⟩

/-- induction over a history: a state predicate `P` kept by every step, with a property `Q` of the
    step outputs -/
theorem run_induct (P : Client → Device → Prop) (Q : StepOut → Prop) (ops : List Op)
    (hstep : ∀ c d op, op ∈ ops → P c d → P (step c d op).1 (step c d op).2.1 ∧ Q (step c d op).2.2)
    (c : Client) (d : Device) (h : P c d) :
    P (run c d ops).1 (run c d ops).2.1 ∧ ∀ o ∈ (run c d ops).2.2, Q o := by
  induction ops generalizing c d with
  | nil => exact ⟨h, fun o ho => nomatch ho⟩
  | cons op r ih =>
    rw [run_cons]
    have h1 := hstep c d op (List.mem_cons_self ..) h
    have h2 := ih (fun c d op' hm => hstep c d op' (List.mem_cons_of_mem _ hm)) _ _ h1.1
    refine ⟨h2.1, fun o ho => ?_⟩
    rcases List.mem_cons.mp ho with rfl | ho
    · exact h1.2
    · exact h2.2 o ho

/-- a device the client can be connected to: 0..255 channels, 8-bit dividers -/
def WF (d : Device) : Prop :=
  d.en.length ≤ 255 ∧ d.div.length = d.en.length ∧ ∀ v ∈ d.div, 0 ≤ v ∧ v ≤ 255

theorem init_inv (d0 : Device) (flags : Nat) (hd : WF d0) : Inv (Client.init d0 flags) d0 :=
  ⟨hd.1, rfl, rfl, hd.2.1, hd.2.1, rfl, hd.2.1, hd.2.2, rfl, rfl⟩

/-- the invariants of a history in which every request is acknowledged (C07) -/
structure AckState (ds : Bool) (dv0 : List Int) (c : Client) (d : Device) : Prop where
  inv : Inv c d
  dEn : DoubtEn c d
  dDiv : DoubtDiv c d
  sEn : c.enResync = false
  sDiv : c.divResync = false
  divS : c.divSupported = ds
  dev : ds = false → d.div = dv0

/-- the invariants of any history against a device with ACK support (C11) -/
structure DoubtState (ds : Bool) (c : Client) (d : Device) : Prop where
  inv : Inv c d
  dEn : DoubtEn c d
  dDiv : DoubtDiv c d
  ackS : c.ackSupported = true
  divS : c.divSupported = ds

theorem AckState.step {ds : Bool} {dv0 : List Int} {c : Client} {d : Device} (h : AckState ds dv0 c d)
    (op : Op) (ha : AckOp op) : AckState ds dv0 (step c d op).1 (step c d op).2.1 := by
  have hd := step_doubt h.inv h.dEn h.dDiv op (Or.inr ha)
  have hs := step_sync h.inv h.dEn h.dDiv op ha ⟨h.sEn, h.sDiv⟩
  have hf := step_fixed c d op
  exact ⟨step_inv h.inv op, hd.1, hd.2, hs.1, hs.2, hf.1.trans h.divS,
    fun e => (hf.2.2 (h.divS.trans e)).trans (h.dev e)⟩

theorem DoubtState.step {ds : Bool} {c : Client} {d : Device} (h : DoubtState ds c d) (op : Op) :
    DoubtState ds (step c d op).1 (step c d op).2.1 := by
  have hd := step_doubt h.inv h.dEn h.dDiv op (Or.inl h.ackS)
  have hf := step_fixed c d op
  exact ⟨step_inv h.inv op, hd.1, hd.2, hf.2.1.trans h.ackS, hf.1.trans h.divS⟩

theorem init_ackState (d0 : Device) (flags : Nat) (hd : WF d0) :
    AckState (Info.divSupported flags) d0.div (Client.init d0 flags) d0 :=
  ⟨init_inv d0 flags hd, fun _ => rfl, fun _ => rfl, rfl, rfl, rfl, fun _ => rfl⟩

theorem init_doubtState (d0 : Device) (flags : Nat) (hd : WF d0) (ha : Info.ackSupported flags = true) :
    DoubtState (Info.divSupported flags) (Client.init d0 flags) d0 :=
  ⟨init_inv d0 flags hd, fun _ => rfl, fun _ => rfl, ha, rfl⟩

theorem run_ackState {ds : Bool} {dv0 : List Int} {c : Client} {d : Device} (h : AckState ds dv0 c d)
    (ops : List Op) (ha : ∀ op ∈ ops, AckOp op) :
    AckState ds dv0 (run c d ops).1 (run c d ops).2.1 :=
  (run_induct (AckState ds dv0) (fun _ => True) ops
    (fun _ _ op hm hP => ⟨hP.step op (ha op hm), trivial⟩) c d h).1

theorem run_doubtState {ds : Bool} {c : Client} {d : Device} (h : DoubtState ds c d) (ops : List Op) :
    DoubtState ds (run c d ops).1 (run c d ops).2.1 :=
  (run_induct (DoubtState ds) (fun _ => True) ops
    (fun _ _ op _ hP => ⟨hP.step op, trivial⟩) c d h).1

/-! ### run-level statements (C07, C11) -/

theorem step_silent (c : Client) (d : Device) (op : Op) (h : ∀ a b, op ≠ .write a b) :
    (step c d op).2.1 = d ∧ (step c d op).2.2.sent = [] := by
  obtain ⟨_, _, -, h2, h3, -⟩ := step_setter c d op h
  exact ⟨h2, h3⟩

/-- result of an acknowledged write from a state whose view is not in doubt -/
theorem write_ack_result {c : Client} {d : Device} (hI : Inv c d) (hE : DoubtEn c d) (hD : DoubtDiv c d) :
    (channelsWrite c d .ack .ack).2.1.en = (channelsWrite c d .ack .ack).1.enNew ∧
    (channelsWrite c d .ack .ack).1.enNow = (channelsWrite c d .ack .ack).1.enNew ∧
    (channelsWrite c d .ack .ack).1.copyEn = (channelsWrite c d .ack .ack).1.enNew ∧
    (c.divSupported = true →
      (channelsWrite c d .ack .ack).2.1.div = (channelsWrite c d .ack .ack).1.divNew ∧
      (channelsWrite c d .ack .ack).1.divNow = (channelsWrite c d .ack .ack).1.divNew ∧
      (channelsWrite c d .ack .ack).1.copyDiv = (channelsWrite c d .ack .ack).1.divNew) ∧
    (c.divSupported = false → (channelsWrite c d .ack .ack).2.1.div = d.div) := by
  by_cases hn : c.n = 0
  · obtain ⟨e1, e2, e3, e4, e5, e6, e7, e8⟩ := hI.nil hn
    rw [channelsWrite_zero c d .ack .ack hn]
    dsimp only
    rw [e1, e2, e3, e4, e5, e6, e7, e8]
    exact ⟨rfl, rfl, rfl, fun _ => ⟨rfl, rfl, rfl⟩, fun _ => rfl⟩
  obtain ⟨h1, h2⟩ := channelsWrite_ack hI hn hE hD
  rw [h1, h2]
  cases c.divSupported
  · exact ⟨rfl, rfl, rfl, fun x => Bool.noConfusion x, fun _ => rfl⟩
  · exact ⟨rfl, rfl, rfl, fun _ => ⟨rfl, rfl, rfl⟩, fun x => Bool.noConfusion x⟩

theorem enAck_eq_self (c : Client) (h1 : c.enResync = false) (h2 : c.enNow = c.enNew)
    (h3 : c.copyEn = c.enNew) : enAck c = c := by
  cases c; simp_all [enAck]

theorem divAck_eq_self (c : Client) (h1 : c.divResync = false) (h2 : c.divNow = c.divNew)
    (h3 : c.copyDiv = c.divNew) : divAck c = c := by
  cases c; simp_all [divAck]

/-- writing again from a synchronised state changes nothing -/
theorem write_idem {c : Client} {d : Device} (hI : Inv c d) (hE : DoubtEn c d) (hD : DoubtDiv c d)
    (h1 : c.enResync = false) (h2 : d.en = c.enNew) (h3 : c.enNow = c.enNew)
    (h4 : c.divSupported = true → c.divResync = false ∧ d.div = c.divNew ∧ c.divNow = c.divNew) :
    (channelsWrite c d .ack .ack).2.1 = d ∧ (channelsWrite c d .ack .ack).1 = c := by
  by_cases hn : c.n = 0
  · rw [channelsWrite_zero c d .ack .ack hn]; exact ⟨rfl, rfl⟩
  obtain ⟨e1, e2⟩ := channelsWrite_ack hI hn hE hD
  rw [e1, e2]
  have hc := enAck_eq_self c h1 h3 (hI.cpEn.trans h3)
  cases hs : c.divSupported with
  | false =>
    refine ⟨?_, hc⟩
    rw [← h2]; rfl
  | true =>
    obtain ⟨h5, h6, h7⟩ := h4 hs
    have hc2 := divAck_eq_self c h5 h7 (hI.cpDiv.trans h7)
    refine ⟨?_, ?_⟩
    · rw [← h2, ← h6]; rfl
    · rw [if_pos rfl, hc2, hc]

theorem c07_write_syncs (d0 : Device) (flags : Nat) (ops : List Op) (hd : WF d0) (ha : ∀ op ∈ ops, AckOp op) :
    let r := run (Client.init d0 flags) d0 (ops ++ [.write .ack .ack])
    r.2.1.en = r.1.enNew ∧ r.1.enNow = r.1.enNew ∧ r.1.copyEn = r.1.enNew ∧
    (Info.divSupported flags = true →
      r.2.1.div = r.1.divNew ∧ r.1.divNow = r.1.divNew ∧ r.1.copyDiv = r.1.divNew) ∧
    (Info.divSupported flags = false → r.2.1.div = d0.div) := by
  intro r
  have hS := run_ackState (init_ackState d0 flags hd) ops ha
  obtain ⟨s1, s2⟩ := run_snoc (Client.init d0 flags) d0 ops (.write .ack .ack)
  have hw := write_ack_result hS.inv hS.dEn hS.dDiv
  show (run _ _ _).2.1.en = (run _ _ _).1.enNew ∧ (run _ _ _).1.enNow = (run _ _ _).1.enNew ∧
    (run _ _ _).1.copyEn = (run _ _ _).1.enNew ∧
    (_ → (run _ _ _).2.1.div = (run _ _ _).1.divNew ∧ (run _ _ _).1.divNow = (run _ _ _).1.divNew ∧
      (run _ _ _).1.copyDiv = (run _ _ _).1.divNew) ∧ (_ → (run _ _ _).2.1.div = d0.div)
  rw [s1, s2]
  exact ⟨hw.1, hw.2.1, hw.2.2.1, fun e => hw.2.2.2.1 (hS.divS.trans e),
    fun e => (hw.2.2.2.2 (hS.divS.trans e)).trans (hS.dev e)⟩

theorem c07_reported (d0 : Device) (flags : Nat) (ops : List Op) (hd : WF d0) (ha : ∀ op ∈ ops, AckOp op) :
    let r := run (Client.init d0 flags) d0 ops
    r.1.enNow = r.2.1.en ∧ r.1.copyEn = r.2.1.en ∧
    (Info.divSupported flags = true → r.1.divNow = r.2.1.div ∧ r.1.copyDiv = r.2.1.div) := by
  intro r
  have hS := run_ackState (init_ackState d0 flags hd) ops ha
  have h1 := hS.dEn hS.sEn
  have h2 := hS.dDiv hS.sDiv
  exact ⟨h1.symm, hS.inv.cpEn.trans h1.symm, fun _ => ⟨h2.symm, hS.inv.cpDiv.trans h2.symm⟩⟩

theorem c07_idempotent (d0 : Device) (flags : Nat) (ops : List Op) (hd : WF d0) (ha : ∀ op ∈ ops, AckOp op) :
    let r1 := run (Client.init d0 flags) d0 (ops ++ [.write .ack .ack])
    let r2 := run (Client.init d0 flags) d0 (ops ++ [.write .ack .ack, .write .ack .ack])
    r2.2.1 = r1.2.1 ∧ r2.1 = r1.1 := by
  intro r1 r2
  have ha' : ∀ op ∈ ops ++ [Op.write .ack .ack], AckOp op := by
    intro op hm
    rcases List.mem_append.mp hm with h | h
    · exact ha op h
    · rw [List.mem_singleton.mp h]; exact ⟨rfl, rfl⟩
  have hS := run_ackState (init_ackState d0 flags hd) _ ha'
  have hw := c07_write_syncs d0 flags ops hd ha
  have hl : ops ++ [Op.write .ack .ack, .write .ack .ack] = (ops ++ [.write .ack .ack]) ++ [.write .ack .ack] := by
    rw [List.append_assoc]; rfl
  obtain ⟨s1, s2⟩ := run_snoc (Client.init d0 flags) d0 (ops ++ [.write .ack .ack]) (.write .ack .ack)
  show (run _ _ _).2.1 = (run _ _ _).2.1 ∧ (run _ _ _).1 = (run _ _ _).1
  rw [hl, s1, s2]
  exact write_idem hS.inv hS.dEn hS.dDiv hS.sEn hw.1 hw.2.1
    (fun e => ⟨hS.sDiv, (hw.2.2.2.1 (hS.divS.symm.trans e)).1, (hw.2.2.2.1 (hS.divS.symm.trans e)).2.1⟩)

theorem c07_no_div (d0 : Device) (flags : Nat) (ops : List Op) (hd : WF d0)
    (hs : Info.divSupported flags = false) :
    ∀ o ∈ (run (Client.init d0 flags) d0 ops).2.2, ∀ f ∈ o.sent, f.getD 3 0 ≠ 7 := by
  have h := (run_induct (fun c d => Inv c d ∧ c.divSupported = false)
    (fun o => ∀ f ∈ o.sent, f.getD 3 0 = 6) ops
    (fun c d op _ hP => ⟨⟨step_inv hP.1 op, (step_fixed c d op).1.trans hP.2⟩, step_sent hP.1 op hP.2⟩)
    (Client.init d0 flags) d0 ⟨init_inv d0 flags hd, hs⟩).2
  intro o ho f hf
  rw [h o ho f hf]
  decide

theorem c11_view (d0 : Device) (flags : Nat) (ops : List Op) (hd : WF d0)
    (ha : Info.ackSupported flags = true) :
    let r := run (Client.init d0 flags) d0 ops
    r.1.copyEn = r.1.enNow ∧ r.1.copyDiv = r.1.divNow ∧
    (r.1.enResync = false → r.2.1.en = r.1.enNow) ∧
    (Info.divSupported flags = true → r.1.divResync = false → r.2.1.div = r.1.divNow) := by
  intro r
  have hS := run_doubtState (init_doubtState d0 flags hd ha) ops
  exact ⟨hS.inv.cpEn, hS.inv.cpDiv, hS.dEn, fun _ => hS.dDiv⟩

theorem c11_converges (d0 : Device) (flags : Nat) (ops : List Op) (hd : WF d0)
    (ha : Info.ackSupported flags = true) :
    let r := run (Client.init d0 flags) d0 (ops ++ [.write .ack .ack])
    r.2.1.en = r.1.enNew ∧ r.1.enNow = r.1.enNew ∧ r.1.copyEn = r.1.enNew ∧
    (Info.divSupported flags = true →
      r.2.1.div = r.1.divNew ∧ r.1.divNow = r.1.divNew ∧ r.1.copyDiv = r.1.divNew) := by
  intro r
  have hS := run_doubtState (init_doubtState d0 flags hd ha) ops
  obtain ⟨s1, s2⟩ := run_snoc (Client.init d0 flags) d0 ops (.write .ack .ack)
  have hw := write_ack_result hS.inv hS.dEn hS.dDiv
  show (run _ _ _).2.1.en = (run _ _ _).1.enNew ∧ (run _ _ _).1.enNow = (run _ _ _).1.enNew ∧
    (run _ _ _).1.copyEn = (run _ _ _).1.enNew ∧
    (_ → (run _ _ _).2.1.div = (run _ _ _).1.divNew ∧ (run _ _ _).1.divNow = (run _ _ _).1.divNew ∧
      (run _ _ _).1.copyDiv = (run _ _ _).1.divNew)
  rw [s1, s2]
  exact ⟨hw.1, hw.2.1, hw.2.2.1, fun e => hw.2.2.2.1 (hS.divS.trans e)⟩

end Nxs.Config
