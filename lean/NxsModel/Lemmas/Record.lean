/-
  helper lemmas about the read-only record model (Record.lean): closed forms of the constructed
  `__dict__`s, generic facts about `Dict.get?`/`Dict.set`, and the lemmas behind Props/C19.
-/
import NxsModel.Record
namespace Nxs.Record

/-! ### closed forms of construction -/

def chanClosed (args : String → Int) (ty : Nat) : Dict :=
  [("chan", args "chan"), ("_type", (ty : Int)), ("vdim", args "vdim"), ("name", args "name"),
   ("en", args "en"), ("div", args "div"), ("mlen", args "mlen"),
   ("dtype", ((Info.dtypeOf ty : Nat) : Int)), ("critical", b2i (Info.criticalOf ty)),
   ("type_res", ((Info.typeResOf ty : Nat) : Int)), ("is_valid", b2i (Info.isValidOf ty)),
   ("is_numerical", b2i (Info.isNumericalOf ty)), ("_initdone", 1)]

theorem mkChan_eq (args : String → Int) (ty : Nat) : mkChan args ty = .ok (chanClosed args ty) := by
  simp [mkChan, chanClosed, Gen.Record.chanInitOrder, Gen.Record.chanPostOrder,
    Gen.Record.chanAllow, assignAll, setattr, initDone, Dict.get?, Dict.set, chanDerived,
    Except.bind]

def devClosed (args : String → Int) (flags : Nat) : Dict :=
  [("chmax", args "chmax"), ("flags", (flags : Int)), ("rxpadding", args "rxpadding"),
   ("div_supported", b2i (Info.divSupported flags)),
   ("ack_supported", b2i (Info.ackSupported flags)), ("_initdone", 1)]

theorem mkDev_eq (args : String → Int) (flags : Nat) : mkDev args flags = .ok (devClosed args flags) := by
  simp [mkDev, devClosed, Gen.Record.devInitOrder, Gen.Record.devPostOrder,
    Gen.Record.devAllow, assignAll, setattr, initDone, Dict.get?, Dict.set, devDerived,
    Except.bind]

theorem initDone_chanClosed (args : String → Int) (ty : Nat) : initDone (chanClosed args ty) = true := by
  simp [initDone, chanClosed, Dict.get?]

theorem initDone_devClosed (args : String → Int) (flags : Nat) : initDone (devClosed args flags) = true := by
  simp [initDone, devClosed, Dict.get?]

/-! ### generic facts about `Dict.get?` / `Dict.set` / `setattr` -/

theorem get?_cons (e : String × Int) (d : Dict) (k : String) :
    Dict.get? (e :: d) k = if e.1 = k then some e.2 else Dict.get? d k := by
  unfold Dict.get?
  rw [List.find?_cons]
  by_cases h : e.1 = k <;> simp [h]

theorem get?_map_set_ne (d : Dict) (k k' : String) (v : Int) (h : k' ≠ k) :
    Dict.get? (d.map (fun e => if e.1 = k then (k, v) else e)) k' = Dict.get? d k' := by
  have h2 : ¬ k = k' := fun x => h x.symm
  induction d with
  | nil => rfl
  | cons e d ih =>
    rw [List.map_cons, get?_cons, get?_cons, ih]
    by_cases he : e.1 = k
    · have h1 : ¬ e.1 = k' := by rw [he]; exact h2
      rw [if_pos he, if_neg h1, if_neg h2]
    · rw [if_neg he]

theorem get?_append_ne (d : Dict) (k k' : String) (v : Int) (h : k' ≠ k) :
    Dict.get? (d ++ [(k, v)]) k' = Dict.get? d k' := by
  have h2 : ¬ k = k' := fun x => h x.symm
  induction d with
  | nil => rw [List.nil_append, get?_cons, if_neg h2]
  | cons e d ih => rw [List.cons_append, get?_cons, get?_cons, ih]

theorem get?_set_ne (d : Dict) (k k' : String) (v : Int) (h : k' ≠ k) :
    (d.set k v).get? k' = d.get? k' := by
  unfold Dict.set
  split
  · exact get?_map_set_ne d k k' v h
  · exact get?_append_ne d k k' v h

theorem get?_map_set_eq (d : Dict) (k : String) (v : Int) (h : d.any (·.1 = k) = true) :
    Dict.get? (d.map (fun e => if e.1 = k then (k, v) else e)) k = some v := by
  induction d with
  | nil => cases h
  | cons e d ih =>
    rw [List.map_cons, get?_cons]
    by_cases he : e.1 = k
    · rw [if_pos he, if_pos rfl]
    · rw [if_neg he, if_neg he]
      apply ih
      simpa [he] using h

theorem get?_append_eq (d : Dict) (k : String) (v : Int) (h : ¬ d.any (·.1 = k) = true) :
    Dict.get? (d ++ [(k, v)]) k = some v := by
  induction d with
  | nil => rw [List.nil_append, get?_cons, if_pos rfl]
  | cons e d ih =>
    have he : ¬ e.1 = k := by intro he; apply h; simp [he]
    rw [List.cons_append, get?_cons, if_neg he]
    apply ih
    intro h'; apply h
    simp only [List.any_cons, h', Bool.or_true]

theorem get?_set_eq (d : Dict) (k : String) (v : Int) : (d.set k v).get? k = some v := by
  unfold Dict.set
  split
  next h => exact get?_map_set_eq d k v h
  next h => exact get?_append_eq d k v h

theorem setattr_sealed_error (allow : List String) (d : Dict) (name : String) (v : Int)
    (hd : initDone d = true) (hn : allow.contains name = false) :
    setattr allow d name v = .error .typeError := by
  unfold setattr
  rw [hd, hn]; rfl

theorem setattr_allowed (allow : List String) (d : Dict) (name : String) (v : Int)
    (hn : allow.contains name = true) :
    setattr allow d name v = .ok (d.set name v) := by
  unfold setattr
  rw [hn]; simp

theorem chanAllow_not_contains (name : String) (h1 : name ≠ "en") (h2 : name ≠ "div") :
    Gen.Record.chanAllow.contains name = false := by
  simp [Gen.Record.chanAllow, h1, h2]

/-! ### the C19 statements -/

theorem chan_constructs (args : String → Int) (ty : Nat) :
    ∃ d, mkChan args ty = .ok d ∧ initDone d = true :=
  ⟨_, mkChan_eq args ty, initDone_chanClosed args ty⟩

theorem dev_constructs (args : String → Int) (flags : Nat) :
    ∃ d, mkDev args flags = .ok d ∧ initDone d = true :=
  ⟨_, mkDev_eq args flags, initDone_devClosed args flags⟩

theorem mkChan_inv {args : String → Int} {ty : Nat} {d : Dict} (hd : mkChan args ty = .ok d) :
    d = chanClosed args ty := by
  rw [mkChan_eq] at hd; cases hd; rfl

theorem mkDev_inv {args : String → Int} {flags : Nat} {d : Dict} (hd : mkDev args flags = .ok d) :
    d = devClosed args flags := by
  rw [mkDev_eq] at hd; cases hd; rfl

theorem chan_readonly (args : String → Int) (ty : Nat) (d : Dict) (name : String) (v : Int)
    (hd : mkChan args ty = .ok d) (hn : name ≠ "en" ∧ name ≠ "div") :
    setattr Gen.Record.chanAllow d name v = .error .typeError := by
  rw [mkChan_inv hd]
  exact setattr_sealed_error _ _ _ _ (initDone_chanClosed args ty)
    (chanAllow_not_contains name hn.1 hn.2)

theorem chan_en_div_assignable (args : String → Int) (ty : Nat) (d : Dict) (name : String) (v : Int)
    (_hd : mkChan args ty = .ok d) (hn : name = "en" ∨ name = "div") :
    ∃ d', setattr Gen.Record.chanAllow d name v = .ok d' ∧ d'.get? name = some v ∧
      ∀ k, k ≠ name → d'.get? k = d.get? k := by
  have hc : Gen.Record.chanAllow.contains name = true := by
    rcases hn with h | h <;> subst h <;> decide
  exact ⟨_, setattr_allowed _ d name v hc, get?_set_eq d name v,
    fun k hk => get?_set_ne d name k v hk⟩

theorem dev_readonly (args : String → Int) (flags : Nat) (d : Dict) (name : String) (v : Int)
    (hd : mkDev args flags = .ok d) :
    setattr Gen.Record.devAllow d name v = .error .typeError := by
  rw [mkDev_inv hd]
  exact setattr_sealed_error _ _ _ _ (initDone_devClosed args flags) rfl

theorem chan_fields (args : String → Int) (ty : Nat) (d : Dict) (hd : mkChan args ty = .ok d) :
    d.get? "chan" = some (args "chan") ∧ d.get? "_type" = some (ty : Int) ∧
    d.get? "vdim" = some (args "vdim") ∧ d.get? "name" = some (args "name") ∧
    d.get? "en" = some (args "en") ∧ d.get? "div" = some (args "div") ∧
    d.get? "mlen" = some (args "mlen") ∧
    d.get? "dtype" = some ((Info.dtypeOf ty : Nat) : Int) ∧
    d.get? "critical" = some (b2i (Info.criticalOf ty)) ∧
    d.get? "type_res" = some ((Info.typeResOf ty : Nat) : Int) ∧
    d.get? "is_valid" = some (b2i (Info.isValidOf ty)) ∧
    d.get? "is_numerical" = some (b2i (Info.isNumericalOf ty)) := by
  rw [mkChan_inv hd]
  simp [chanClosed, Dict.get?]

theorem dev_fields (args : String → Int) (flags : Nat) (d : Dict) (hd : mkDev args flags = .ok d) :
    d.get? "chmax" = some (args "chmax") ∧ d.get? "flags" = some (flags : Int) ∧
    d.get? "rxpadding" = some (args "rxpadding") ∧
    d.get? "div_supported" = some (b2i (Info.divSupported flags)) ∧
    d.get? "ack_supported" = some (b2i (Info.ackSupported flags)) := by
  rw [mkDev_inv hd]
  simp [devClosed, Dict.get?]

end Nxs.Record
