/-
  helper lemmas about the read-only record model (Record.lean): closed forms of the constructed
  `__dict__`s, generic facts about `Dict.get?`/`Dict.set`, the lemmas behind Props/C19, and the
  history lemmas: a generic one-step / whole-history invariant for any allow-list that does not name
  the marker (`step_sealed`, `history_sealed`), and closed forms of the record after any history
  (`chan_history_closed`: a freshly built record with en / div replaced; `dev_history_closed`: the
  same record).
-/
import NxsModel.Record
namespace Nxs.Record

/-! ### closed forms of construction -/

def chanClosed (args : String → Val) (ty : Nat) : Dict :=
  [("chan", args "chan"), ("_type", .int (ty : Int)), ("vdim", args "vdim"), ("name", args "name"),
   ("en", args "en"), ("div", args "div"), ("mlen", args "mlen"),
   ("dtype", .int (Info.dtypeOf ty)), ("critical", .bool (Info.criticalOf ty)),
   ("type_res", .int (Info.typeResOf ty)), ("is_valid", .bool (Info.isValidOf ty)),
   ("is_numerical", .bool (Info.isNumericalOf ty)), ("_initdone", .bool true)]

theorem mkChan_eq (args : String → Val) (ty : Nat) : mkChan args ty = .ok (chanClosed args ty) := by
  simp [mkChan, chanClosed, Gen.Record.chanInitOrder, Gen.Record.chanPostOrder,
    Gen.Record.chanAllow, assignAll, setattr, initDone, Dict.get?, Dict.set, chanDerived,
    Except.bind, Val.truthy]

def devClosed (args : String → Val) (flags : Nat) : Dict :=
  [("chmax", args "chmax"), ("flags", .int (flags : Int)), ("rxpadding", args "rxpadding"),
   ("div_supported", .bool (Info.divSupported flags)),
   ("ack_supported", .bool (Info.ackSupported flags)), ("_initdone", .bool true)]

theorem mkDev_eq (args : String → Val) (flags : Nat) : mkDev args flags = .ok (devClosed args flags) := by
  simp [mkDev, devClosed, Gen.Record.devInitOrder, Gen.Record.devPostOrder,
    Gen.Record.devAllow, assignAll, setattr, initDone, Dict.get?, Dict.set, devDerived,
    Except.bind, Val.truthy]

theorem initDone_chanClosed (args : String → Val) (ty : Nat) : initDone (chanClosed args ty) = true := by
  simp [initDone, chanClosed, Dict.get?, Val.truthy]

theorem initDone_devClosed (args : String → Val) (flags : Nat) : initDone (devClosed args flags) = true := by
  simp [initDone, devClosed, Dict.get?, Val.truthy]

/-! ### generic facts about `Dict.get?` / `Dict.set` / `setattr` -/

theorem get?_cons (e : String × Val) (d : Dict) (k : String) :
    Dict.get? (e :: d) k = if e.1 = k then some e.2 else Dict.get? d k := by
  unfold Dict.get?
  rw [List.find?_cons]
  by_cases h : e.1 = k <;> simp [h]

theorem get?_map_set_ne (d : Dict) (k k' : String) (v : Val) (h : k' ≠ k) :
    Dict.get? (d.map (fun e => if e.1 = k then (k, v) else e)) k' = Dict.get? d k' := by
  have h2 : ¬ k = k' := fun x => h x.symm
  induction d with
  | nil => rfl
  | cons e d ih =>
    rw [List.map_cons, get?_cons, get?_cons, ih]
    by_cases he : e.1 = k
    · have h1 : ¬ e.1 = k' := by rw [he]; exact h2
      rw [if_pos he, if_neg h1, if_neg h2]
    · rw [if_neg he]

theorem get?_append_ne (d : Dict) (k k' : String) (v : Val) (h : k' ≠ k) :
    Dict.get? (d ++ [(k, v)]) k' = Dict.get? d k' := by
  have h2 : ¬ k = k' := fun x => h x.symm
  induction d with
  | nil => rw [List.nil_append, get?_cons, if_neg h2]
  | cons e d ih => rw [List.cons_append, get?_cons, get?_cons, ih]

theorem get?_set_ne (d : Dict) (k k' : String) (v : Val) (h : k' ≠ k) :
    (d.set k v).get? k' = d.get? k' := by
  unfold Dict.set
  split
  · exact get?_map_set_ne d k k' v h
  · exact get?_append_ne d k k' v h

theorem get?_map_set_eq (d : Dict) (k : String) (v : Val) (h : d.any (·.1 = k) = true) :
    Dict.get? (d.map (fun e => if e.1 = k then (k, v) else e)) k = some v := by
  induction d with
  | nil => cases h
  | cons e d ih =>
    rw [List.map_cons, get?_cons]
    by_cases he : e.1 = k
    · rw [if_pos he, if_pos rfl]
    · rw [if_neg he, if_neg he]
      apply ih
      simpa [he] using h

theorem get?_append_eq (d : Dict) (k : String) (v : Val) (h : ¬ d.any (·.1 = k) = true) :
    Dict.get? (d ++ [(k, v)]) k = some v := by
  induction d with
  | nil => rw [List.nil_append, get?_cons, if_pos rfl]
  | cons e d ih =>
    have he : ¬ e.1 = k := by intro he; apply h; simp [he]
    rw [List.cons_append, get?_cons, if_neg he]
    apply ih
    intro h'; apply h
    simp only [List.any_cons, h', Bool.or_true]

theorem get?_set_eq (d : Dict) (k : String) (v : Val) : (d.set k v).get? k = some v := by
  unfold Dict.set
  split
  next h => exact get?_map_set_eq d k v h
  next h => exact get?_append_eq d k v h

theorem setattr_sealed_error (allow : List String) (d : Dict) (name : String) (v : Val)
    (hd : initDone d = true) (hn : allow.contains name = false) :
    setattr allow d name v = .error .typeError := by
  unfold setattr
  rw [hd, hn]; rfl

theorem setattr_allowed (allow : List String) (d : Dict) (name : String) (v : Val)
    (hn : allow.contains name = true) :
    setattr allow d name v = .ok (d.set name v) := by
  unfold setattr
  rw [hn]; simp

theorem chanAllow_not_contains (name : String) (h1 : name ≠ "en") (h2 : name ≠ "div") :
    Gen.Record.chanAllow.contains name = false := by
  simp [Gen.Record.chanAllow, h1, h2]

/-! ### the C19 statements -/

theorem chan_constructs (args : String → Val) (ty : Nat) :
    ∃ d, mkChan args ty = .ok d ∧ initDone d = true :=
  ⟨_, mkChan_eq args ty, initDone_chanClosed args ty⟩

theorem dev_constructs (args : String → Val) (flags : Nat) :
    ∃ d, mkDev args flags = .ok d ∧ initDone d = true :=
  ⟨_, mkDev_eq args flags, initDone_devClosed args flags⟩

theorem mkChan_inv {args : String → Val} {ty : Nat} {d : Dict} (hd : mkChan args ty = .ok d) :
    d = chanClosed args ty := by
  rw [mkChan_eq] at hd; cases hd; rfl

theorem mkDev_inv {args : String → Val} {flags : Nat} {d : Dict} (hd : mkDev args flags = .ok d) :
    d = devClosed args flags := by
  rw [mkDev_eq] at hd; cases hd; rfl

theorem chan_readonly (args : String → Val) (ty : Nat) (d : Dict) (name : String) (v : Val)
    (hd : mkChan args ty = .ok d) (hn : name ≠ "en" ∧ name ≠ "div") :
    setattr Gen.Record.chanAllow d name v = .error .typeError := by
  rw [mkChan_inv hd]
  exact setattr_sealed_error _ _ _ _ (initDone_chanClosed args ty)
    (chanAllow_not_contains name hn.1 hn.2)

theorem chan_en_div_assignable (args : String → Val) (ty : Nat) (d : Dict) (name : String) (v : Val)
    (_hd : mkChan args ty = .ok d) (hn : name = "en" ∨ name = "div") :
    ∃ d', setattr Gen.Record.chanAllow d name v = .ok d' ∧ d'.get? name = some v ∧
      ∀ k, k ≠ name → d'.get? k = d.get? k := by
  have hc : Gen.Record.chanAllow.contains name = true := by
    rcases hn with h | h <;> subst h <;> decide
  exact ⟨_, setattr_allowed _ d name v hc, get?_set_eq d name v,
    fun k hk => get?_set_ne d name k v hk⟩

theorem dev_readonly (args : String → Val) (flags : Nat) (d : Dict) (name : String) (v : Val)
    (hd : mkDev args flags = .ok d) :
    setattr Gen.Record.devAllow d name v = .error .typeError := by
  rw [mkDev_inv hd]
  exact setattr_sealed_error _ _ _ _ (initDone_devClosed args flags) rfl

theorem chan_fields (args : String → Val) (ty : Nat) (d : Dict) (hd : mkChan args ty = .ok d) :
    d.get? "chan" = some (args "chan") ∧ d.get? "_type" = some (.int (ty : Int)) ∧
    d.get? "vdim" = some (args "vdim") ∧ d.get? "name" = some (args "name") ∧
    d.get? "en" = some (args "en") ∧ d.get? "div" = some (args "div") ∧
    d.get? "mlen" = some (args "mlen") ∧
    d.get? "dtype" = some (.int (Info.dtypeOf ty)) ∧
    d.get? "critical" = some (.bool (Info.criticalOf ty)) ∧
    d.get? "type_res" = some (.int (Info.typeResOf ty)) ∧
    d.get? "is_valid" = some (.bool (Info.isValidOf ty)) ∧
    d.get? "is_numerical" = some (.bool (Info.isNumericalOf ty)) := by
  rw [mkChan_inv hd]
  simp [chanClosed, Dict.get?]

theorem dev_fields (args : String → Val) (flags : Nat) (d : Dict) (hd : mkDev args flags = .ok d) :
    d.get? "chmax" = some (args "chmax") ∧ d.get? "flags" = some (.int (flags : Int)) ∧
    d.get? "rxpadding" = some (args "rxpadding") ∧
    d.get? "div_supported" = some (.bool (Info.divSupported flags)) ∧
    d.get? "ack_supported" = some (.bool (Info.ackSupported flags)) := by
  rw [mkDev_inv hd]
  simp [devClosed, Dict.get?]

/-! ### the value is never looked at -/

/-- `__setattr__` does not look at the assigned value: whether it raises is the same for any two
    values, and when it does not raise the record afterwards holds exactly the given value -/
theorem setattr_ignores_value (allow : List String) (d : Dict) (name : String) (v w : Val) :
    ((setattr allow d name v).toOption.isSome = (setattr allow d name w).toOption.isSome) ∧
    (setattr allow d name v = .error .typeError ↔ setattr allow d name w = .error .typeError) ∧
    (∀ d', setattr allow d name v = .ok d' → d' = d.set name v) := by
  unfold setattr
  cases initDone d && !(allow.contains name) <;> simp [Except.toOption]

/-! ### histories -/

theorem runHistory_cons (allow : List String) (d : Dict) (s : Step) (r : List Step) :
    runHistory allow d (s :: r) = runHistory allow (s.run allow d).1 r := rfl

theorem runHistory_nil (allow : List String) (d : Dict) : runHistory allow d [] = d := rfl

/-- generic one-step invariant: on a sealed record whose marker is not on the allow-list, no step
    unseals it or touches an attribute outside the allow-list, and it goes through iff it is a copy
    or an assignment to an allowed name -/
theorem step_sealed (allow : List String) (d : Dict) (s : Step)
    (hd : initDone d = true) (hm : allow.contains "_initdone" = false) :
    initDone (s.run allow d).1 = true ∧
    (∀ k, allow.contains k = false → (s.run allow d).1.get? k = d.get? k) ∧
    (s.run allow d).2 = (match s with | .assign k _ => allow.contains k | .copy => true) := by
  cases s with
  | copy => exact ⟨hd, fun _ _ => rfl, rfl⟩
  | assign k v =>
    by_cases hk : allow.contains k = true
    · have hne : ∀ k', allow.contains k' = false → k' ≠ k := by
        intro k' h' e; rw [e, hk] at h'; cases h'
      have hrun : (Step.assign k v).run allow d = (d.set k v, true) := by
        simp only [Step.run, setattr_allowed allow d k v hk]
      rw [hrun]
      refine ⟨?_, fun k' h' => get?_set_ne d k k' v (hne k' h'), hk.symm⟩
      unfold initDone at hd ⊢
      rw [get?_set_ne d k "_initdone" v (hne _ hm)]; exact hd
    · have hk' : allow.contains k = false := by simpa using hk
      have hrun : (Step.assign k v).run allow d = (d, false) := by
        simp only [Step.run, setattr_sealed_error allow d k v hd hk']
      rw [hrun]
      exact ⟨hd, fun _ _ => rfl, hk'.symm⟩

/-- generic history invariant (any allow-list that does not contain the marker) -/
theorem history_sealed (allow : List String) (h : List Step) (d : Dict)
    (hd : initDone d = true) (hm : allow.contains "_initdone" = false) :
    initDone (runHistory allow d h) = true ∧
    (∀ k, allow.contains k = false → (runHistory allow d h).get? k = d.get? k) := by
  induction h generalizing d with
  | nil => exact ⟨hd, fun _ _ => rfl⟩
  | cons s r ih =>
    have st := step_sealed allow d s hd hm
    have := ih (s.run allow d).1 st.1
    rw [runHistory_cons]
    exact ⟨this.1, fun k hk => (this.2 k hk).trans (st.2.1 k hk)⟩

/-- the constructor arguments a history leaves behind: en / div are the last value assigned to
    them (else the constructor's), everything else is the constructor's -/
def argsAfter (args : String → Val) (h : List Step) : String → Val :=
  fun k => if k = "en" ∨ k = "div" then (lastAssigned k h).getD (args k) else args k

def upd (args : String → Val) (k : String) (v : Val) : String → Val :=
  fun x => if x = k then v else args x

theorem step_en (args : String → Val) (ty : Nat) (v : Val) :
    (Step.assign "en" v).run Gen.Record.chanAllow (chanClosed args ty) = (chanClosed (upd args "en" v) ty, true) := by
  simp [Step.run, setattr, initDone_chanClosed, Gen.Record.chanAllow]
  simp [chanClosed, Dict.set, upd]

theorem step_div (args : String → Val) (ty : Nat) (v : Val) :
    (Step.assign "div" v).run Gen.Record.chanAllow (chanClosed args ty) = (chanClosed (upd args "div" v) ty, true) := by
  simp [Step.run, setattr, initDone_chanClosed, Gen.Record.chanAllow]
  simp [chanClosed, Dict.set, upd]

theorem step_other (args : String → Val) (ty : Nat) (k : String) (v : Val) (h1 : k ≠ "en") (h2 : k ≠ "div") :
    (Step.assign k v).run Gen.Record.chanAllow (chanClosed args ty) = (chanClosed args ty, false) := by
  simp only [Step.run, setattr_sealed_error _ _ k v (initDone_chanClosed args ty) (chanAllow_not_contains k h1 h2)]

theorem chanClosed_congr (a b : String → Val) (ty : Nat)
    (h : a "chan" = b "chan" ∧ a "vdim" = b "vdim" ∧ a "name" = b "name" ∧ a "en" = b "en" ∧
      a "div" = b "div" ∧ a "mlen" = b "mlen") : chanClosed a ty = chanClosed b ty := by
  obtain ⟨h1, h2, h3, h4, h5, h6⟩ := h
  simp [chanClosed, h1, h2, h3, h4, h5, h6]

theorem argsAfter_nil (args : String → Val) : argsAfter args [] = args := by
  funext k; simp [argsAfter, lastAssigned]

theorem argsAfter_copy (args : String → Val) (r : List Step) :
    argsAfter args (.copy :: r) = argsAfter args r := by
  funext k; simp [argsAfter, lastAssigned]

theorem argsAfter_other (args : String → Val) (k : String) (v : Val) (r : List Step)
    (h1 : k ≠ "en") (h2 : k ≠ "div") : argsAfter args (.assign k v :: r) = argsAfter args r := by
  funext x
  by_cases hx : x = "en" ∨ x = "div"
  · have : ¬ k = x := by rcases hx with e | e <;> subst e <;> assumption
    simp [argsAfter, lastAssigned, hx, this]
  · simp [argsAfter, hx]

theorem argsAfter_allowed (args : String → Val) (k : String) (v : Val) (r : List Step)
    (hk : k = "en" ∨ k = "div") : argsAfter args (.assign k v :: r) = argsAfter (upd args k v) r := by
  funext x
  by_cases hx : x = "en" ∨ x = "div"
  · by_cases hkx : k = x
    · subst hkx
      cases hl : lastAssigned k r <;> simp [argsAfter, lastAssigned, hx, upd, hl]
    · have hxk : ¬ x = k := fun e => hkx e.symm
      simp [argsAfter, lastAssigned, hx, upd, hkx, hxk]
  · have hxk : ¬ x = k := by rintro rfl; exact hx hk
    simp [argsAfter, hx, upd, hxk]

/-- closed form: after ANY history a channel record is the freshly constructed record of the same
    identifying arguments, with en / div the last values assigned to them -/
theorem chan_history_closed (h : List Step) (args : String → Val) (ty : Nat) :
    runHistory Gen.Record.chanAllow (chanClosed args ty) h = chanClosed (argsAfter args h) ty := by
  induction h generalizing args with
  | nil => rw [argsAfter_nil]; rfl
  | cons s r ih =>
    rw [runHistory_cons]
    cases s with
    | copy => rw [argsAfter_copy]; exact ih args
    | assign k v =>
      by_cases h1 : k = "en"
      · subst h1; rw [step_en, argsAfter_allowed _ _ _ _ (Or.inl rfl)]; exact ih _
      · by_cases h2 : k = "div"
        · subst h2; rw [step_div, argsAfter_allowed _ _ _ _ (Or.inr rfl)]; exact ih _
        · rw [step_other _ _ _ _ h1 h2, argsAfter_other _ _ _ _ h1 h2]; exact ih _

/-- which steps of a history go through on a channel record: copies and en / div, nothing else -/
theorem chan_trace_closed (h : List Step) (args : String → Val) (ty : Nat) :
    (runTrace Gen.Record.chanAllow (chanClosed args ty) h).map (·.1) =
      h.map (fun s => match s with | .assign k _ => decide (k = "en" ∨ k = "div") | .copy => true) := by
  induction h generalizing args with
  | nil => rfl
  | cons s r ih =>
    cases s with
    | copy => simp only [runTrace, List.map_cons, Step.run]; rw [ih]
    | assign k v =>
      simp only [runTrace, List.map_cons]
      by_cases h1 : k = "en"
      · subst h1; rw [step_en, ih]; simp
      · by_cases h2 : k = "div"
        · subst h2; rw [step_div, ih]; simp
        · rw [step_other _ _ _ _ h1 h2, ih]; simp [h1, h2]

theorem step_dev (args : String → Val) (flags : Nat) (s : Step) :
    s.run Gen.Record.devAllow (devClosed args flags) =
      (devClosed args flags, match s with | .assign _ _ => false | .copy => true) := by
  cases s with
  | copy => rfl
  | assign k v =>
    have hk : Gen.Record.devAllow.contains k = false := rfl
    simp only [Step.run, setattr_sealed_error _ _ k v (initDone_devClosed args flags) hk]

/-- closed form: no history changes a device record at all -/
theorem dev_history_closed (h : List Step) (args : String → Val) (flags : Nat) :
    runHistory Gen.Record.devAllow (devClosed args flags) h = devClosed args flags := by
  induction h with
  | nil => rfl
  | cons s r ih => rw [runHistory_cons, step_dev]; exact ih

theorem dev_trace_closed (h : List Step) (args : String → Val) (flags : Nat) :
    (runTrace Gen.Record.devAllow (devClosed args flags) h).map (·.1) =
      h.map (fun s => match s with | .assign _ _ => false | .copy => true) := by
  induction h with
  | nil => rfl
  | cons s r ih => simp only [runTrace, List.map_cons, step_dev]; rw [ih]

theorem argsAfter_en (args : String → Val) (h : List Step) :
    argsAfter args h "en" = (lastAssigned "en" h).getD (args "en") := by simp [argsAfter]

theorem argsAfter_div (args : String → Val) (h : List Step) :
    argsAfter args h "div" = (lastAssigned "div" h).getD (args "div") := by simp [argsAfter]

theorem argsAfter_ident (args : String → Val) (h : List Step) (k : String) (h1 : k ≠ "en") (h2 : k ≠ "div") :
    argsAfter args h k = args k := by simp [argsAfter, h1, h2]

end Nxs.Record
