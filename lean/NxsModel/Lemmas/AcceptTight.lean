/-
  Sharpness of the length bound in the error-detection theorems of C02 (brute-force module: four
  kernel evaluations of a CRC over 4 KiB, ≈ 9 s each).

  `x` has order exactly 32767 modulo the generator (`Tpow_32767_one`, Lemmas/CrcOrder.lean), so an error
  pattern of two set bits 32767 positions apart has CRC 0 and goes undetected wherever it fits:

  * in a bare CRC code word from 4096 bytes on (`crc_bound_tight`): the hypothesis `w.length ≤ 4095` of
    `detect_single_double` cannot be relaxed by a single byte;
  * in a *frame* with intact length field from 4100 bytes on (`w4100_corrupted_accepted`): up to 4099
    bytes one of the two bits has to fall on the start byte, the length field or the top bit of the id
    byte, which the header checks reject for their own reasons.
-/
import NxsModel.Lemmas.Accept
import NxsModel.Lemmas.CrcDetect
namespace Nxs.Tight
open Nxs Nxs.Spec

/-- a valid ENABLE frame of 4100 bytes: 0x55, length 0x1004 (LE), id 6, 4094 zero bytes, CRC 0x53B1 -/
def w4100 : Bytes := [0x55, 0x04, 0x10, 0x06] ++ List.replicate 4094 0 ++ [0x53, 0xB1]

/-- two flipped bits: the first payload bit (bit 32) and the last CRC bit (bit 32799 = 32 + 32767) -/
def e4100 : Bytes := List.replicate 4 0 ++ [0x80] ++ List.replicate 4094 0 ++ [0x01]

set_option maxRecDepth 100000 in
theorem w4100_valid : Serial.frameDecode w4100 = .ok ⟨6, List.replicate 4094 0⟩ := by decide +kernel

set_option maxRecDepth 100000 in
theorem w4100_exact : w4100.length = flen w4100 ∧ w4100.length = 4100 := by decide +kernel

set_option maxRecDepth 100000 in
theorem e4100_shape :
    e4100.length = w4100.length ∧ e4100.getD 1 0 = 0 ∧ e4100.getD 2 0 = 0 ∧ weight e4100 = 2 := by
  decide +kernel

set_option maxRecDepth 100000 in
/-- the corrupted frame is accepted, with another payload -/
theorem w4100_corrupted_accepted :
    Serial.frameDecode (xorBytes w4100 e4100) = .ok ⟨6, 0x80 :: List.replicate 4093 0⟩ := by
  decide +kernel

/-- a CRC code word of 4096 bytes and a two-bit error (bits 0 and 32767) that leaves the CRC zero -/
def e4096 : Bytes := [0x80] ++ List.replicate 4094 0 ++ [0x01]

theorem crcReg_zeros (n : Nat) : crcReg 0x1021 0 (List.replicate n 0) = 0 := by
  induction n with
  | zero => rfl
  | succ n ih =>
    rw [List.replicate_succ, crcReg, List.foldl_cons, crcStepByte_zero]
    exact ih

set_option maxRecDepth 100000 in
theorem crc_bound_tight :
    ∃ w e : Bytes, crc16xmodem w = 0 ∧ e.length = w.length ∧ w.length = 4096 ∧ weight e = 2 ∧
      crc16xmodem (xorBytes w e) = 0 :=
  ⟨List.replicate 4096 0, e4096, crcReg_zeros 4096, by decide +kernel, by decide +kernel,
    by decide +kernel, by decide +kernel⟩

end Nxs.Tight
