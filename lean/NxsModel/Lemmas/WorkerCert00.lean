/-
  C13 certificate for the callback configuration init=false, final=false (own module so that the four
  kernel evaluations run in parallel and rebuild only when `Gen/Thread.lean` changes):
  the computed reachable set `R c` contains `init`, is closed under `step`, and every state of it
  satisfies every safety predicate.
-/
import NxsModel.Worker
namespace Nxs.Worker

theorem cert_ff : certified ⟨false, false⟩ (R ⟨false, false⟩) = true := by decide +kernel

end Nxs.Worker
