/- acceptance characterisation of frame_decode and recv_handle (C02) -/
import NxsModel.Lemmas.Serial
import NxsModel.Spec.Accept
import NxsModel.Dispatch
namespace Nxs.Serial
open Nxs Nxs.Spec

attribute [local irreducible] crc16xmodem

theorem Accept_cons (a b c e : Byte) (rest : Bytes) (fid : Nat) (pl : Bytes) :
    Accept (a :: b :: c :: e :: rest) fid pl ↔
      a = 0x55 ∧ e.toNat = fid ∧ fid ≤ 8 ∧ 6 ≤ b.toNat + 256 * c.toNat ∧
      b.toNat + 256 * c.toNat ≤ (a :: b :: c :: e :: rest).length ∧
      crc16xmodem ((a :: b :: c :: e :: rest).take (b.toNat + 256 * c.toNat)) = 0 ∧
      pl = ((a :: b :: c :: e :: rest).take (b.toNat + 256 * c.toNat - 2)).drop 4 := by
  simp [Accept, flen]

theorem frameDecode_accept (d : Bytes) (fid : Nat) (pl : Bytes) :
    frameDecode d = .ok ⟨fid, pl⟩ ↔ Accept d fid pl := by
  match d with
  | [] | [_] | [_, _] | [_, _, _] =>
    rw [frameDecode_of_hdr_err _ _ (hdrDecode_short _ (by simp))]
    simp [Accept]
  | a :: b :: c :: e :: rest =>
    rw [Accept_cons]
    by_cases ha : a = 0x55
    · by_cases he : e.toNat ≤ 8
      · have hh : hdrDecode (a :: b :: c :: e :: rest) = .ok ⟨e.toNat, b.toNat + 256 * c.toNat⟩ := by
          rw [hdrDecode_cons]; simp [ha, he]
        rw [frameDecode_of_hdr _ _ hh]
        show (if b.toNat + 256 * c.toNat < 6 then _ else _) = _ ↔ _
        generalize b.toNat + 256 * c.toNat = n
        generalize hD : (a :: b :: c :: e :: rest) = D
        by_cases h6 : n < 6
        · rw [if_pos h6]
          constructor
          · intro h; cases h
          · rintro ⟨_, _, _, h, _⟩; omega
        · rw [if_neg h6]
          by_cases hl : n > D.length
          · rw [if_pos hl]
            constructor
            · intro h; cases h
            · rintro ⟨_, _, _, _, h, _⟩; omega
          · rw [if_neg hl]
            by_cases hc : crc16xmodem (D.take n) = 0
            · rw [if_neg (by simpa using hc)]
              constructor
              · intro h
                simp only [Except.ok.injEq, Frame.mk.injEq] at h
                obtain ⟨h1, h2⟩ := h
                exact ⟨ha, h1, by omega, by omega, by omega, hc, by rw [← h2]; rfl⟩
              · rintro ⟨_, h2, _, _, _, _, h7⟩
                rw [h2, h7]; rfl
            · rw [if_pos hc]
              constructor
              · intro h; cases h
              · rintro ⟨_, _, _, _, _, h, _⟩; exact absurd h hc
      · have hh : hdrDecode (a :: b :: c :: e :: rest) = .error .hdr := by
          rw [hdrDecode_cons]; simp [ha, he]
        rw [frameDecode_of_hdr_err _ _ hh]
        constructor
        · intro h; cases h
        · rintro ⟨_, h2, h3, _⟩; omega
    · have hh : hdrDecode (a :: b :: c :: e :: rest) = .error .hdr := by
        rw [hdrDecode_cons, if_pos ha]
      rw [frameDecode_of_hdr_err _ _ hh]
      constructor
      · intro h; cases h
      · rintro ⟨h, _⟩; exact absurd h ha

/-- anything `frame_decode` accepts has at least 6 bytes -/
theorem frameDecode_ok_length {d : Bytes} {fr : Frame} (h : frameDecode d = .ok fr) : 6 ≤ d.length := by
  have := (frameDecode_accept d fr.fid fr.data).mp h
  obtain ⟨_, _, _, _, h5, h6, _⟩ := this
  omega

end Nxs.Serial

namespace Nxs.Dispatch
open Nxs Nxs.Spec Nxs.Serial Gen.Frame

attribute [local irreducible] crc16xmodem

/-- `recv_handle` = crop to the first start byte, `frame_decode`, dispatch: the dispatcher repeats
    exactly the client decoder's validation -/
theorem recvHandle_eq (d : Bytes) :
    recvHandle d =
      match hdrFind d with
      | none => .ignored
      | some i =>
        match frameDecode (d.drop i) with
        | .ok fr => cbHandle fr.fid fr.data
        | .error _ => .ignored := by
  unfold recvHandle
  cases hdrFind d with
  | none => rfl
  | some i =>
    simp only
    by_cases hs : d.length - i < hdrLen + footLen
    · have : (Gen.Recv.guardShort && decide (d.length - i < hdrLen + footLen)) = true := by
        simp [Gen.Recv.guardShort, hs]
      rw [if_pos this]
      cases hfd : frameDecode (d.drop i) with
      | error e => rfl
      | ok fr =>
        have := frameDecode_ok_length hfd
        simp [hdrLen, footLen] at hs
        simp at this
        omega
    · have : ¬ (Gen.Recv.guardShort && decide (d.length - i < hdrLen + footLen)) = true := by
        simp [Gen.Recv.guardShort, hs]
      rw [if_neg this]
      cases hh : hdrDecode (d.drop i) with
      | error e => rw [frameDecode_of_hdr_err _ _ hh]
      | ok h =>
        rw [frameDecode_of_hdr _ _ hh]
        simp only [Gen.Recv.guardMin, Gen.Recv.guardMax, Gen.Recv.guardCrc, Bool.true_and, hdrLen, footLen,
          footValidate_eq, decide_eq_true_eq, Nat.reduceAdd, Bool.not_eq_true', decide_eq_false_iff_not]
        simp only [List.length_drop]
        by_cases h6 : h.flen < 6
        · simp [h6]
        · by_cases hl : h.flen > d.length - i
          · simp [h6, hl]
          · by_cases hc : crc16xmodem ((d.drop i).take h.flen) = 0#16
            · simp [h6, hl, hc]
            · simp [h6, hl, hc]

end Nxs.Dispatch
