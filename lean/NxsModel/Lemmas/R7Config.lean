/-
  Round-7 lemmas for C07 / C11: an INDEPENDENT specification of the client side of the configuration machine
  (`cliSpec`: pointwise vector assignment, no `setMany`, no device, no bytes, no frames) and the refinement
  theorem `run_client`: after ANY history with ANY outcomes the model's client state is the fold of `cliSpec`.
-/
import NxsModel.Lemmas.Config
namespace Nxs.Config
open Requests

/-! ### pointwise meaning of `for chan in chans: vec[chan] = v` -/

/-- position `i` receives `v` iff `i` occurs in `chans` before the first out-of-range id (where Python raises) -/
def assign (vec : List α) (cs : List Nat) (v : α) : List α :=
  vec.mapIdx fun i x => if i ∈ cs.takeWhile (fun c => decide (c < vec.length)) then v else x

theorem assign_length (vec : List α) (cs : List Nat) (v : α) : (assign vec cs v).length = vec.length := by
  simp [assign]

theorem assign_getElem? (vec : List α) (cs : List Nat) (v : α) (i : Nat) :
    (assign vec cs v)[i]? =
      if i ∈ cs.takeWhile (fun c => decide (c < vec.length)) then vec[i]?.map (fun _ => v) else vec[i]? := by
  unfold assign
  rw [List.getElem?_mapIdx]
  split
  · rfl
  · cases vec[i]? <;> rfl

theorem setMany_fst (vec : List α) (cs : List Nat) (v : α) : (setMany vec cs v).1 = assign vec cs v := by
  induction cs generalizing vec with
  | nil =>
    apply List.ext_getElem?
    intro i
    rw [assign_getElem?]
    simp [setMany]
  | cons c r ih =>
    unfold setMany
    by_cases h : c < vec.length
    · rw [if_pos h, ih]
      apply List.ext_getElem?
      intro i
      rw [assign_getElem?, assign_getElem?, List.length_set, List.takeWhile_cons, decide_eq_true h, if_pos rfl,
        List.getElem?_set]
      by_cases hi : i ∈ r.takeWhile (fun c => decide (c < vec.length))
      · rw [if_pos hi, if_pos (List.mem_cons_of_mem _ hi)]
        by_cases hc : c = i
        · subst hc; rw [if_pos rfl, if_pos h, List.getElem?_eq_getElem h]; rfl
        · rw [if_neg hc]
      · rw [if_neg hi]
        by_cases hc : c = i
        · subst hc
          rw [if_pos rfl, if_pos h, if_pos (List.mem_cons_self ..), List.getElem?_eq_getElem h]; rfl
        · rw [if_neg hc, if_neg]
          intro hm
          rcases List.mem_cons.mp hm with e | e
          · exact hc e.symm
          · exact hi e
    · rw [if_neg h]
      apply List.ext_getElem?
      intro i
      rw [assign_getElem?, List.takeWhile_cons, decide_eq_false h]
      simp

theorem setMany_snd (vec : List α) (cs : List Nat) (v : α) :
    (setMany vec cs v).2 = if ∀ c ∈ cs, c < vec.length then none else some .indexError := by
  induction cs generalizing vec with
  | nil => simp [setMany]
  | cons c r ih =>
    unfold setMany
    by_cases h : c < vec.length
    · rw [if_pos h, ih, List.length_set]
      simp [h]
    · rw [if_neg h]
      simp [h]

/-- a channel that is not named keeps its requested value; a named one (all ids in range) gets the new value -/
theorem assign_other (vec : List α) (cs : List Nat) (v : α) (i : Nat) (hi : i ∉ cs) :
    (assign vec cs v)[i]? = vec[i]? := by
  rw [assign_getElem?, if_neg]
  exact fun hm => hi ((List.takeWhile_prefix _).subset hm)

theorem takeWhile_all (cs : List Nat) (n : Nat) (h : ∀ c ∈ cs, c < n) :
    cs.takeWhile (fun c => decide (c < n)) = cs := by
  induction cs with
  | nil => rfl
  | cons c r ih =>
    rw [List.takeWhile_cons, decide_eq_true (h c (List.mem_cons_self ..)), if_pos rfl,
      ih (fun x hx => h x (List.mem_cons_of_mem _ hx))]

theorem assign_named (vec : List α) (cs : List Nat) (v : α) (i : Nat) (hr : ∀ c ∈ cs, c < vec.length)
    (hi : i ∈ cs) : (assign vec cs v)[i]? = some v := by
  rw [assign_getElem?, takeWhile_all cs _ hr, if_pos hi, List.getElem?_eq_getElem (hr i hi)]; rfl

/-- naming every channel is the `…_all` call -/
theorem assign_range (vec : List α) (v : α) : assign vec (List.range vec.length) v = vec.map fun _ => v := by
  apply List.ext_getElem?
  intro i
  rw [assign_getElem?, takeWhile_all _ _ (fun c hc => List.mem_range.mp hc), List.getElem?_map]
  by_cases hi : i < vec.length
  · rw [if_pos (List.mem_range.mpr hi)]
  · rw [if_neg (fun h => hi (List.mem_range.mp h)), List.getElem?_eq_none (Nat.le_of_not_lt hi)]; rfl

theorem assign_idem (vec : List α) (cs : List Nat) (v : α) : assign (assign vec cs v) cs v = assign vec cs v := by
  apply List.ext_getElem?
  intro i
  rw [assign_getElem?, assign_length, assign_getElem?]
  split
  · cases vec[i]? <;> rfl
  · rfl

/-! ### the client side as a pure fold -/

/-- does the client take the request as positively acknowledged? -/
def seen (c : Client) (o : Outcome) : Bool := !c.ackSupported || decide (o = .ack)

theorem ackSeen_fst (c : Client) (o : Outcome) (t : Nat) : (ackSeen c o t).1 = seen c o := by
  unfold ackSeen seen
  cases c.ackSupported <;> cases o <;> rfl

/-- the client state after one call, written without the device, the bytes and `setMany` -/
def cliSpec (c : Client) : Op → Client
  | .enable cs => { c with enNew := assign c.enNew cs true }
  | .disable cs => { c with enNew := assign c.enNew cs false }
  | .divider cs v => if 0 ≤ v ∧ v ≤ 255 then { c with divNew := assign c.divNew cs v } else c
  | .defaultCfg => { c with enNew := c.enNew.map fun _ => false, divNew := c.divNew.map fun _ => 0 }
  | .enableAll => { c with enNew := c.enNew.map fun _ => true }
  | .disableAll => { c with enNew := c.enNew.map fun _ => false }
  | .write oDiv oEn =>
    if c.n = 0 then c
    else
      let c1 := if c.divSupported then (if seen c oDiv then divAck c else divFail c) else c
      if seen c oEn then enAck c1 else enFail c1

theorem cliSpec_divider (c : Client) (cs : List Nat) (v : Int) :
    cliSpec c (.divider cs v) = if 0 ≤ v ∧ v ≤ 255 then { c with divNew := assign c.divNew cs v } else c := rfl

theorem cliSpec_write (c : Client) (oDiv oEn : Outcome) :
    cliSpec c (.write oDiv oEn) =
      if c.n = 0 then c
      else if seen c oEn then enAck (if c.divSupported then (if seen c oDiv then divAck c else divFail c) else c)
        else enFail (if c.divSupported then (if seen c oDiv then divAck c else divFail c) else c) := rfl

theorem step_client {c : Client} {d : Device} (hI : Inv c d) (op : Op) : (step c d op).1 = cliSpec c op := by
  cases op with
  | enable cs =>
    show { c with enNew := (setMany c.enNew cs true).1 } = _
    rw [setMany_fst]; rfl
  | disable cs =>
    show { c with enNew := (setMany c.enNew cs false).1 } = _
    rw [setMany_fst]; rfl
  | divider cs v =>
    rw [step_divider, cliSpec_divider]
    by_cases hv : v < 0 ∨ v > 255
    · rw [if_pos hv, if_neg (by omega)]
    · rw [if_neg hv, if_pos (by omega)]
      show { c with divNew := (setMany c.divNew cs v).1 } = _
      rw [setMany_fst]
  | defaultCfg =>
    show { c with enNew := List.replicate c.enNew.length false, divNew := List.replicate c.divNew.length 0 } =
      { c with enNew := c.enNew.map fun _ => false, divNew := c.divNew.map fun _ => 0 }
    rw [List.map_const', List.map_const']
  | enableAll =>
    show { c with enNew := List.replicate c.enNew.length true } = { c with enNew := c.enNew.map fun _ => true }
    rw [List.map_const']
  | disableAll =>
    show { c with enNew := List.replicate c.enNew.length false } = { c with enNew := c.enNew.map fun _ => false }
    rw [List.map_const']
  | write oDiv oEn =>
    show (channelsWrite c d oDiv oEn).1 = _
    rw [cliSpec_write]
    by_cases hn : c.n = 0
    · rw [channelsWrite_zero c d oDiv oEn hn, if_pos hn]
    rw [if_neg hn]
    cases h : c.divSupported with
    | false =>
      rw [channelsWrite_nodiv c d oDiv oEn hn h]
      obtain ⟨f, en', -, -, -, heq⟩ := writeEnable_char hI hn oEn
      rw [heq, ackSeen_fst]
      rfl
    | true =>
      rw [channelsWrite_div_ok c d oDiv oEn hn h (writeDiv_out hI hn oDiv).1]
      have hF := writeDiv_frame c d oDiv
      have hI1 := writeDiv_inv hI oDiv
      have hn1 : (writeDiv c d oDiv).1.n ≠ 0 := by rw [hF.n]; exact hn
      obtain ⟨f, en', -, -, -, heq⟩ := writeEnable_char hI1 hn1 oEn
      obtain ⟨g, dv', -, -, -, hdq⟩ := writeDiv_char hI hn oDiv
      have hs : seen (writeDiv c d oDiv).1 oEn = seen c oEn := by unfold seen; rw [hF.ackS]
      rw [heq, ackSeen_fst, hs]
      have hc1 : (writeDiv c d oDiv).1 = if seen c oDiv then divAck c else divFail c := by
        rw [hdq, ackSeen_fst]
      dsimp only
      rw [hc1]
      rfl

/-- REFINEMENT: after any history, whatever the device does with each request, the client state is the fold of the
    device-free specification -/
theorem run_client {c : Client} {d : Device} (hI : Inv c d) (ops : List Op) :
    (run c d ops).1 = ops.foldl cliSpec c := by
  induction ops generalizing c d with
  | nil => rfl
  | cons op r ih =>
    rw [run_cons, List.foldl_cons, ← step_client hI op]
    exact ih (step_inv hI op)

/-! ### facts read off the fold -/

/-- the requested vectors never depend on what the device answered: `cliSpec` with other outcomes -/
def reqOf (c : Client) : List Bool × List Int := (c.enNew, c.divNew)

theorem cliSpec_write_req (c : Client) (a b : Outcome) : reqOf (cliSpec c (.write a b)) = reqOf c := by
  rw [cliSpec_write]
  split
  · rfl
  · cases c.divSupported <;> cases seen c a <;> cases seen c b <;> rfl

/-- capability flags and the channel count never change -/
theorem cliSpec_fixed (c : Client) (op : Op) :
    (cliSpec c op).n = c.n ∧ (cliSpec c op).divSupported = c.divSupported ∧
    (cliSpec c op).ackSupported = c.ackSupported := by
  cases op with
  | write a b =>
    rw [cliSpec_write]
    split
    · exact ⟨rfl, rfl, rfl⟩
    · cases h : c.divSupported <;> cases seen c a <;> cases seen c b <;> exact ⟨rfl, h, rfl⟩
  | divider cs v => rw [cliSpec_divider]; split <;> exact ⟨rfl, rfl, rfl⟩
  | _ => exact ⟨rfl, rfl, rfl⟩

theorem foldl_fixed (c : Client) (ops : List Op) :
    (ops.foldl cliSpec c).n = c.n ∧ (ops.foldl cliSpec c).divSupported = c.divSupported ∧
    (ops.foldl cliSpec c).ackSupported = c.ackSupported := by
  induction ops generalizing c with
  | nil => exact ⟨rfl, rfl, rfl⟩
  | cons op r ih =>
    rw [List.foldl_cons]
    have h1 := cliSpec_fixed c op
    have h2 := ih (cliSpec c op)
    exact ⟨h2.1.trans h1.1, h2.2.1.trans h1.2.1, h2.2.2.trans h1.2.2⟩

/-- a setter reads nothing but the requested vectors -/
theorem cliSpec_req_congr (c c' : Client) (op : Op) (h : reqOf c = reqOf c') (hw : ∀ a b, op ≠ .write a b) :
    reqOf (cliSpec c op) = reqOf (cliSpec c' op) := by
  have h1 : c.enNew = c'.enNew := congrArg Prod.fst h
  have h2 : c.divNew = c'.divNew := congrArg Prod.snd h
  cases op with
  | write a b => exact absurd rfl (hw a b)
  | enable cs => show (assign c.enNew cs true, c.divNew) = (assign c'.enNew cs true, c'.divNew); rw [h1, h2]
  | disable cs => show (assign c.enNew cs false, c.divNew) = (assign c'.enNew cs false, c'.divNew); rw [h1, h2]
  | divider cs v =>
    rw [cliSpec_divider, cliSpec_divider]
    split
    · show (c.enNew, assign c.divNew cs v) = (c'.enNew, assign c'.divNew cs v); rw [h1, h2]
    · exact h
  | defaultCfg =>
    show (c.enNew.map _, c.divNew.map _) = (c'.enNew.map _, c'.divNew.map _); rw [h1, h2]
  | enableAll => show (c.enNew.map _, c.divNew) = (c'.enNew.map _, c'.divNew); rw [h1, h2]
  | disableAll => show (c.enNew.map _, c.divNew) = (c'.enNew.map _, c'.divNew); rw [h1, h2]

def notWrite : Op → Bool
  | .write _ _ => false
  | _ => true

/-- the requested vectors are a function of the setter calls alone: writes (and what the device answered) can be
    erased from the history -/
theorem foldl_req_erase (c c' : Client) (ops : List Op) (h : reqOf c = reqOf c') :
    reqOf (ops.foldl cliSpec c) = reqOf ((ops.filter notWrite).foldl cliSpec c') := by
  induction ops generalizing c c' with
  | nil => exact h
  | cons op r ih =>
    rw [List.foldl_cons]
    by_cases hw : ∀ a b, op ≠ .write a b
    · have hn : notWrite op = true := by
        cases op with
        | write a b => exact absurd rfl (hw a b)
        | _ => rfl
      rw [List.filter_cons_of_pos hn, List.foldl_cons]
      exact ih _ _ (cliSpec_req_congr c c' op h hw)
    · cases op with
      | write a b =>
        rw [List.filter_cons_of_neg (by simp [notWrite])]
        exact ih _ _ ((cliSpec_write_req c a b).trans h)
      | _ => exact absurd (fun a b e => nomatch e) hw

/-- a write whose ENABLE request is not acknowledged / whose DIVIDER request is not acknowledged (any other op
    qualifies) -/
def NoAckEn : Op → Prop
  | .write _ b => b ≠ .ack
  | _ => True
def NoAckDiv : Op → Prop
  | .write a _ => a ≠ .ack
  | _ => True

theorem seen_false (c : Client) (o : Outcome) (ha : c.ackSupported = true) (ho : o ≠ .ack) : seen c o = false := by
  unfold seen; rw [ha]; simp [ho]

theorem seen_ack (c : Client) : seen c .ack = true := by
  unfold seen; simp

theorem cliSpec_noackEn (c : Client) (op : Op) (ha : c.ackSupported = true) (h : NoAckEn op) :
    (cliSpec c op).enNow = c.enNow ∧ (cliSpec c op).copyEn = c.copyEn := by
  cases op with
  | write a b =>
    rw [cliSpec_write]
    split
    · exact ⟨rfl, rfl⟩
    · rw [seen_false c b ha h]
      cases c.divSupported <;> cases seen c a <;> exact ⟨rfl, rfl⟩
  | divider cs v => rw [cliSpec_divider]; split <;> exact ⟨rfl, rfl⟩
  | _ => exact ⟨rfl, rfl⟩

theorem cliSpec_noackDiv (c : Client) (op : Op) (ha : c.ackSupported = true) (h : NoAckDiv op) :
    (cliSpec c op).divNow = c.divNow ∧ (cliSpec c op).copyDiv = c.copyDiv := by
  cases op with
  | write a b =>
    rw [cliSpec_write]
    split
    · exact ⟨rfl, rfl⟩
    · rw [seen_false c a ha h]
      cases c.divSupported <;> cases seen c b <;> exact ⟨rfl, rfl⟩
  | divider cs v => rw [cliSpec_divider]; split <;> exact ⟨rfl, rfl⟩
  | _ => exact ⟨rfl, rfl⟩

theorem foldl_noackEn (c : Client) (ops : List Op) (ha : c.ackSupported = true) (h : ∀ op ∈ ops, NoAckEn op) :
    (ops.foldl cliSpec c).enNow = c.enNow ∧ (ops.foldl cliSpec c).copyEn = c.copyEn := by
  induction ops generalizing c with
  | nil => exact ⟨rfl, rfl⟩
  | cons op r ih =>
    rw [List.foldl_cons]
    have h1 := cliSpec_noackEn c op ha (h op (List.mem_cons_self ..))
    have h2 := ih (cliSpec c op) ((cliSpec_fixed c op).2.2.trans ha) (fun x hx => h x (List.mem_cons_of_mem _ hx))
    exact ⟨h2.1.trans h1.1, h2.2.trans h1.2⟩

theorem foldl_noackDiv (c : Client) (ops : List Op) (ha : c.ackSupported = true) (h : ∀ op ∈ ops, NoAckDiv op) :
    (ops.foldl cliSpec c).divNow = c.divNow ∧ (ops.foldl cliSpec c).copyDiv = c.copyDiv := by
  induction ops generalizing c with
  | nil => exact ⟨rfl, rfl⟩
  | cons op r ih =>
    rw [List.foldl_cons]
    have h1 := cliSpec_noackDiv c op ha (h op (List.mem_cons_self ..))
    have h2 := ih (cliSpec c op) ((cliSpec_fixed c op).2.2.trans ha) (fun x hx => h x (List.mem_cons_of_mem _ hx))
    exact ⟨h2.1.trans h1.1, h2.2.trans h1.2⟩

/-- an acknowledged enable request (device with channels) makes the view the requested vector -/
theorem cliSpec_ackEn (c : Client) (a : Outcome) (hn : c.n ≠ 0) :
    (cliSpec c (.write a .ack)).enNow = c.enNew ∧ (cliSpec c (.write a .ack)).copyEn = c.enNew := by
  rw [cliSpec_write, if_neg hn, seen_ack]
  cases c.divSupported <;> cases seen c a <;> exact ⟨rfl, rfl⟩

theorem cliSpec_ackDiv (c : Client) (b : Outcome) (hn : c.n ≠ 0) (hs : c.divSupported = true) :
    (cliSpec c (.write .ack b)).divNow = c.divNew ∧ (cliSpec c (.write .ack b)).copyDiv = c.divNew := by
  rw [cliSpec_write, if_neg hn, seen_ack, hs]
  cases seen c b <;> exact ⟨rfl, rfl⟩

/-- a request the device does not apply leaves the device alone -/
def NoApply : Op → Prop
  | .write a b => applies a = false ∧ applies b = false
  | _ => True

theorem writeEnable_noapply (c : Client) (d : Device) (o : Outcome) (h : applies o = false) :
    (writeEnable c d o).2.1 = d := by
  cases hf : frameEnable (enRequest c) c.n with
  | error e => rw [writeEnable_err c d o e hf]
  | ok f => rw [writeEnable_ok c d o f hf, h]; rfl

theorem writeDiv_noapply (c : Client) (d : Device) (o : Outcome) (h : applies o = false) :
    (writeDiv c d o).2.1 = d := by
  cases hf : frameDiv (divRequest c) c.n with
  | error e => rw [writeDiv_err c d o e hf]
  | ok f => rw [writeDiv_ok c d o f hf, h]; rfl

theorem step_noapply (c : Client) (d : Device) (op : Op) (h : NoApply op) : (step c d op).2.1 = d := by
  by_cases hw : ∀ a b, op ≠ .write a b
  · exact (step_silent c d op hw).1
  · cases op with
    | write a b =>
      show (channelsWrite c d a b).2.1 = d
      by_cases hn : c.n = 0
      · rw [channelsWrite_zero c d a b hn]
      cases hs : c.divSupported with
      | false => rw [channelsWrite_nodiv c d a b hn hs]; exact writeEnable_noapply c d b h.2
      | true =>
        cases he : (writeDiv c d a).2.2.err with
        | some e => rw [channelsWrite_div_err c d a b hn hs e he]; exact writeDiv_noapply c d a h.1
        | none =>
          rw [channelsWrite_div_ok c d a b hn hs he]
          show (writeEnable _ _ b).2.1 = d
          rw [writeEnable_noapply _ _ b h.2, writeDiv_noapply c d a h.1]
    | _ => exact absurd (fun a b e => nomatch e) hw

theorem run_noapply (c : Client) (d : Device) (ops : List Op) (h : ∀ op ∈ ops, NoApply op) :
    (run c d ops).2.1 = d := by
  induction ops generalizing c d with
  | nil => rfl
  | cons op r ih =>
    rw [run_cons]
    show (run _ _ r).2.1 = d
    rw [ih _ _ (fun x hx => h x (List.mem_cons_of_mem _ hx)), step_noapply c d op (h op (List.mem_cons_self ..))]

/-! ### frames of a write -/

/-- under `Inv` a write emits no frame on a device without channels, otherwise the divider request (iff supported)
    followed by the enable request: ids `[7, 6]` / `[6]`, whatever the outcomes -/
theorem channelsWrite_ids {c : Client} {d : Device} (hI : Inv c d) (oDiv oEn : Outcome) :
    (channelsWrite c d oDiv oEn).2.2.sent.map (fun f => f.getD 3 0) =
      if c.n = 0 then [] else if c.divSupported then [7, 6] else [6] := by
  by_cases hn : c.n = 0
  · rw [channelsWrite_zero c d oDiv oEn hn, if_pos hn]; rfl
  rw [if_neg hn]
  cases h : c.divSupported with
  | false =>
    rw [channelsWrite_nodiv c d oDiv oEn hn h]
    obtain ⟨f, en', h6, -, -, heq⟩ := writeEnable_char hI hn oEn
    rw [heq]
    show [f.getD 3 0] = [6]
    rw [h6]
  | true =>
    rw [channelsWrite_div_ok c d oDiv oEn hn h (writeDiv_out hI hn oDiv).1]
    have hF := writeDiv_frame c d oDiv
    have hI1 := writeDiv_inv hI oDiv
    have hn1 : (writeDiv c d oDiv).1.n ≠ 0 := by rw [hF.n]; exact hn
    obtain ⟨f, en', h6, -, -, heq⟩ := writeEnable_char hI1 hn1 oEn
    obtain ⟨g, dv', h7, -, -, hdq⟩ := writeDiv_char hI hn oDiv
    rw [heq, hdq]
    show [g.getD 3 0, f.getD 3 0] = [7, 6]
    rw [h6, h7]

/-- total model time of a history: at most two ACK time-outs per write -/
def totalTime (os : List StepOut) : Nat := (os.map (·.time)).sum

def nWrites : List Op → Nat
  | [] => 0
  | .write _ _ :: r => nWrites r + 1
  | _ :: r => nWrites r

theorem step_time (c : Client) (d : Device) (op : Op) :
    (step c d op).2.2.time ≤ 20 * nWrites [op] := by
  by_cases hw : ∀ a b, op ≠ .write a b
  · obtain ⟨e', v', -, -, -, -⟩ := step_setter c d op hw
    cases op with
    | write a b => exact absurd rfl (hw a b)
    | divider cs v => rw [step_divider]; split <;> exact Nat.zero_le _
    | _ => exact Nat.zero_le _
  · cases op with
    | write a b => exact channelsWrite_time c d a b
    | _ => exact absurd (fun a b e => nomatch e) hw

theorem nWrites_cons (op : Op) (r : List Op) : nWrites (op :: r) = nWrites [op] + nWrites r := by
  cases op <;> simp [nWrites] <;> omega

theorem run_time (c : Client) (d : Device) (ops : List Op) :
    totalTime (run c d ops).2.2 ≤ 20 * nWrites ops := by
  induction ops generalizing c d with
  | nil => exact Nat.zero_le _
  | cons op r ih =>
    rw [run_cons, nWrites_cons]
    have h1 := step_time c d op
    have h2 := ih (step c d op).1 (step c d op).2.1
    show (step c d op).2.2.time + totalTime _ ≤ _
    omega

/-! ### the doubt flag between a failed enable request and the next acknowledged one -/

theorem cliSpec_failEn (c : Client) (a b : Outcome) (hn : c.n ≠ 0) (ha : c.ackSupported = true) (hb : b ≠ .ack) :
    (cliSpec c (.write a b)).enResync = true := by
  rw [cliSpec_write, if_neg hn, seen_false c b ha hb]
  cases c.divSupported <;> cases seen c a <;> rfl

theorem cliSpec_keepDoubtEn (c : Client) (op : Op) (ha : c.ackSupported = true) (h : NoAckEn op)
    (hr : c.enResync = true) : (cliSpec c op).enResync = true := by
  cases op with
  | write a b =>
    rw [cliSpec_write]
    split
    · exact hr
    · rw [seen_false c b ha h]
      cases c.divSupported <;> cases seen c a <;> rfl
  | divider cs v => rw [cliSpec_divider]; split <;> exact hr
  | _ => exact hr

theorem foldl_keepDoubtEn (c : Client) (ops : List Op) (ha : c.ackSupported = true) (h : ∀ op ∈ ops, NoAckEn op)
    (hr : c.enResync = true) : (ops.foldl cliSpec c).enResync = true := by
  induction ops generalizing c with
  | nil => exact hr
  | cons op r ih =>
    rw [List.foldl_cons]
    exact ih (cliSpec c op) ((cliSpec_fixed c op).2.2.trans ha) (fun x hx => h x (List.mem_cons_of_mem _ hx))
      (cliSpec_keepDoubtEn c op ha (h op (List.mem_cons_self ..)) hr)

theorem cliSpec_failDiv (c : Client) (a b : Outcome) (hn : c.n ≠ 0) (ha : c.ackSupported = true)
    (hs : c.divSupported = true) (hb : a ≠ .ack) : (cliSpec c (.write a b)).divResync = true := by
  rw [cliSpec_write, if_neg hn, seen_false c a ha hb, hs]
  cases seen c b <;> rfl

theorem cliSpec_keepDoubtDiv (c : Client) (op : Op) (ha : c.ackSupported = true) (h : NoAckDiv op)
    (hr : c.divResync = true) : (cliSpec c op).divResync = true := by
  cases op with
  | write a b =>
    rw [cliSpec_write]
    split
    · exact hr
    · rw [seen_false c a ha h]
      cases c.divSupported <;> cases seen c b <;> first | rfl | exact hr
  | divider cs v => rw [cliSpec_divider]; split <;> exact hr
  | _ => exact hr

theorem foldl_keepDoubtDiv (c : Client) (ops : List Op) (ha : c.ackSupported = true) (h : ∀ op ∈ ops, NoAckDiv op)
    (hr : c.divResync = true) : (ops.foldl cliSpec c).divResync = true := by
  induction ops generalizing c with
  | nil => exact hr
  | cons op r ih =>
    rw [List.foldl_cons]
    exact ih (cliSpec c op) ((cliSpec_fixed c op).2.2.trans ha) (fun x hx => h x (List.mem_cons_of_mem _ hx))
      (cliSpec_keepDoubtDiv c op ha (h op (List.mem_cons_self ..)) hr)

end Nxs.Config
