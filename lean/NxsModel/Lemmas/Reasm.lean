/-
  Lemmas for C03 (frame reassembly): `findByte`, fuel-irrelevance and the unfolding equations of
  the specification `scan`, and the consequences of `LawfulCodec` that the proofs use.
-/
import NxsModel.Reasm
namespace Nxs
open Serial (Hdr Frame)

/-! ### `findByte` -/

theorem findByte_nil (b : Byte) : findByte b [] = none := by
  simp [findByte]

theorem findByte_cons (b x : Byte) (d : Bytes) :
    findByte b (x :: d) = if x = b then some 0 else (findByte b d).map (· + 1) := by
  unfold findByte
  by_cases h : x = b
  · simp [h, List.findIdx_cons]
  · simp only [List.findIdx_cons, h, List.length_cons, if_false]
    by_cases h2 : List.findIdx (fun x => decide (x = b)) d < d.length
    · simp [h2]
    · simp [h2]

theorem findByte_cons_self (b : Byte) (d : Bytes) : findByte b (b :: d) = some 0 := by
  rw [findByte_cons, if_pos rfl]

theorem findByte_append_of_not_mem (b : Byte) (pre d : Bytes) (h : ∀ x ∈ pre, x ≠ b) :
    findByte b (pre ++ d) = (findByte b d).map (· + pre.length) := by
  induction pre with
  | nil => simp
  | cons x pre ih =>
    have hx : x ≠ b := h x (by simp)
    have ih' := ih (fun y hy => h y (by simp [hy]))
    rw [List.cons_append, findByte_cons, if_neg hx, ih']
    cases findByte b d with
    | none => rfl
    | some i => simp [Nat.add_assoc]

theorem findByte_none {b : Byte} {d : Bytes} (h : findByte b d = none) : ∀ x ∈ d, x ≠ b := by
  induction d with
  | nil => simp
  | cons x d ih =>
    rw [findByte_cons] at h
    by_cases hx : x = b
    · rw [if_pos hx] at h; cases h
    · rw [if_neg hx] at h
      have h' : findByte b d = none := by
        cases hf : findByte b d with
        | none => rfl
        | some i => rw [hf] at h; cases h
      intro y hy
      rcases List.mem_cons.mp hy with rfl | hy
      · exact hx
      · exact ih h' y hy

theorem findByte_none_of_not_mem {b : Byte} {d : Bytes} (h : ∀ x ∈ d, x ≠ b) : findByte b d = none := by
  have := findByte_append_of_not_mem b d [] h
  simpa [findByte_nil] using this

theorem findByte_some {b : Byte} {d : Bytes} {i : Nat} (h : findByte b d = some i) :
    (∀ x ∈ d.take i, x ≠ b) ∧ ∃ t, d.drop i = b :: t := by
  induction d generalizing i with
  | nil => rw [findByte_nil] at h; cases h
  | cons x d ih =>
    rw [findByte_cons] at h
    by_cases hx : x = b
    · rw [if_pos hx] at h
      cases h
      exact ⟨by simp, d, by simp [hx]⟩
    · rw [if_neg hx] at h
      cases hf : findByte b d with
      | none => rw [hf] at h; cases h
      | some j =>
        rw [hf] at h
        simp only [Option.map_some, Option.some.injEq] at h
        subst h
        obtain ⟨h1, t, h2⟩ := ih hf
        refine ⟨?_, t, by simpa using h2⟩
        intro y hy
        rw [List.take_succ_cons] at hy
        rcases List.mem_cons.mp hy with rfl | hy
        · exact hx
        · exact h1 y hy

theorem findByte_some_lt {b : Byte} {d : Bytes} {i : Nat} (h : findByte b d = some i) : i < d.length := by
  unfold findByte at h
  simp only at h
  split at h
  · cases h; assumption
  · cases h

namespace Reasm

/-! ### consequences of the codec laws -/
section Laws
variable {c : Codec} (hc : LawfulCodec c)
include hc

theorem hdrDecode_ok_length {d : Bytes} {h : Hdr} (hd : c.hdrDecode d = .ok h) : c.hdrLen ≤ d.length := by
  apply Nat.le_of_not_lt
  intro hlt
  obtain ⟨e, he⟩ := hc.hdrDecode_short d hlt
  rw [he] at hd; cases hd

/-- `hdr_decode` of a buffer that already holds a whole header does not change when bytes are appended -/
theorem hdrDecode_append {b : Bytes} (m : Bytes) (hb : c.hdrLen ≤ b.length) :
    c.hdrDecode (b ++ m) = c.hdrDecode b := by
  rw [hc.hdrDecode_prefix (b ++ m) (by simp; omega), hc.hdrDecode_prefix b hb,
    List.take_append_of_le_length hb]

theorem hdrFind_of_hdr {d : Bytes} {h : Hdr} (hd : c.hdrDecode d = .ok h) : c.hdrFind d = some 0 := by
  have := hc.hdrDecode_sof d h hd
  rw [hc.hdrFind_eq]
  cases d with
  | nil => simp at this
  | cons x t =>
    simp only [List.head?_cons, Option.some.injEq] at this
    rw [this, findByte_cons_self]

/-- a window that decodes as a frame is at least a header long -/
theorem frameDecode_take_len {d : Bytes} {n : Nat} {fr : Frame}
    (h : c.frameDecode (d.take n) = .ok fr) : c.hdrLen ≤ n := by
  obtain ⟨h', hh, _⟩ := (hc.frameDecode_iff _ _).mp h
  have := hdrDecode_ok_length hc hh
  simp at this
  omega

/-! ### the specification `scan`: fuel does not matter, unfolding equations -/

theorem scanLoop_fuel : ∀ (f₁ f₂ : Nat) (d : Bytes), d.length < f₁ → d.length < f₂ →
    scanLoop c f₁ d = scanLoop c f₂ d := by
  intro f₁
  induction f₁ with
  | zero => intro f₂ d h; omega
  | succ f₁ ih =>
    intro f₂ d h1 h2
    cases f₂ with
    | zero => omega
    | succ f₂ =>
      have hpos := hc.hdrLen_pos
      rw [scanLoop, scanLoop]
      cases hfind : c.hdrFind d with
      | none => rfl
      | some i =>
        simp only
        have hlen : (d.drop i).length ≤ d.length := by simp
        by_cases hs : (d.drop i).length < c.hdrLen
        · rw [if_pos hs, if_pos hs]
        · rw [if_neg hs, if_neg hs]
          have hd1 : ((d.drop i).drop 1).length < f₁ := by simp at hs hlen ⊢; omega
          have hd2 : ((d.drop i).drop 1).length < f₂ := by simp at hs hlen ⊢; omega
          cases hh : c.hdrDecode (d.drop i) with
          | error e => exact ih _ _ hd1 hd2
          | ok h =>
            simp only
            by_cases hw : (d.drop i).length < h.flen
            · rw [if_pos hw, if_pos hw]
            · rw [if_neg hw, if_neg hw]
              cases hfd : c.frameDecode ((d.drop i).take h.flen) with
              | error e => exact ih _ _ hd1 hd2
              | ok fr =>
                simp only
                have := frameDecode_take_len hc hfd
                rw [ih f₂ ((d.drop i).drop h.flen) (by simp at hs hlen ⊢; omega) (by simp at hs hlen ⊢; omega)]

/-- one step of `scan` -/
theorem scan_eq (d : Bytes) :
    scan c d =
      match c.hdrFind d with
      | none => []
      | some i =>
        let d' := d.drop i
        if d'.length < c.hdrLen then []
        else
          match c.hdrDecode d' with
          | .error _ => scan c (d'.drop 1)
          | .ok h =>
            if d'.length < h.flen then []
            else
              match c.frameDecode (d'.take h.flen) with
              | .ok fr => fr :: scan c (d'.drop h.flen)
              | .error _ => scan c (d'.drop 1) := by
  have hpos := hc.hdrLen_pos
  unfold scan
  rw [scanLoop]
  cases hfind : c.hdrFind d with
  | none => rfl
  | some i =>
    simp only
    have hlen : (d.drop i).length ≤ d.length := by simp
    by_cases hs : (d.drop i).length < c.hdrLen
    · rw [if_pos hs, if_pos hs]
    · rw [if_neg hs, if_neg hs]
      have h1 : scanLoop c d.length ((d.drop i).drop 1) = scanLoop c (((d.drop i).drop 1).length + 1) ((d.drop i).drop 1) :=
        scanLoop_fuel hc _ _ _ (by simp at hs hlen ⊢; omega) (by omega)
      cases hh : c.hdrDecode (d.drop i) with
      | error e => exact h1
      | ok h =>
        simp only
        by_cases hw : (d.drop i).length < h.flen
        · rw [if_pos hw, if_pos hw]
        · rw [if_neg hw, if_neg hw]
          cases hfd : c.frameDecode ((d.drop i).take h.flen) with
          | error e => exact h1
          | ok fr =>
            simp only
            have := frameDecode_take_len hc hfd
            rw [scanLoop_fuel hc d.length (((d.drop i).drop h.flen).length + 1) _
              (by simp at hs hlen ⊢; omega) (by omega)]

/-- bytes in front of the first start byte do not matter -/
theorem scan_skip (pre d : Bytes) (h : ∀ x ∈ pre, x ≠ c.sof) : scan c (pre ++ d) = scan c d := by
  rw [scan_eq hc (pre ++ d), scan_eq hc d, hc.hdrFind_eq, hc.hdrFind_eq,
    findByte_append_of_not_mem _ _ _ h]
  cases findByte c.sof d with
  | none => rfl
  | some i =>
    have : (pre ++ d).drop (i + pre.length) = d.drop i := by
      simp [List.drop_append]
    simp only [Option.map_some, this]

/-- no start byte: nothing -/
theorem scan_nosof (d : Bytes) (h : ∀ x ∈ d, x ≠ c.sof) : scan c d = [] := by
  rw [scan_eq hc d, hc.hdrFind_eq, findByte_none_of_not_mem h]

/-- fewer bytes than a header: nothing (wait) -/
theorem scan_short (d : Bytes) (h : d.length < c.hdrLen) : scan c d = [] := by
  rw [scan_eq hc d]
  cases c.hdrFind d with
  | none => rfl
  | some i =>
    simp only
    rw [if_pos (by simp; omega)]

/-- the candidate at the front is not a header: advance one byte -/
theorem scan_badhdr (d : Bytes) (e : Err) (hs : c.hdrFind d = some 0) (hl : c.hdrLen ≤ d.length)
    (hd : c.hdrDecode d = .error e) : scan c d = scan c (d.drop 1) := by
  rw [scan_eq hc d, hs]
  simp only [List.drop_zero]
  rw [if_neg (by omega), hd]

/-- header at the front, frame not complete: nothing (wait) -/
theorem scan_wait (d : Bytes) (h : Hdr) (hd : c.hdrDecode d = .ok h) (hl : d.length < h.flen) :
    scan c d = [] := by
  rw [scan_eq hc d, hdrFind_of_hdr hc hd]
  simp only [List.drop_zero]
  rw [if_neg (by have := hdrDecode_ok_length hc hd; omega), hd]
  simp only
  rw [if_pos hl]

/-- header at the front, complete window decodes: emit and continue after it -/
theorem scan_frame (d : Bytes) (h : Hdr) (fr : Frame) (hd : c.hdrDecode d = .ok h) (hl : h.flen ≤ d.length)
    (hf : c.frameDecode (d.take h.flen) = .ok fr) : scan c d = fr :: scan c (d.drop h.flen) := by
  rw [scan_eq hc d, hdrFind_of_hdr hc hd]
  simp only [List.drop_zero]
  rw [if_neg (by have := hdrDecode_ok_length hc hd; omega), hd]
  simp only
  rw [if_neg (by omega), hf]

/-- header at the front, complete window does not decode: advance one byte -/
theorem scan_badframe (d : Bytes) (h : Hdr) (e : Err) (hd : c.hdrDecode d = .ok h) (hl : h.flen ≤ d.length)
    (hf : c.frameDecode (d.take h.flen) = .error e) : scan c d = scan c (d.drop 1) := by
  rw [scan_eq hc d, hdrFind_of_hdr hc hd]
  simp only [List.drop_zero]
  rw [if_neg (by have := hdrDecode_ok_length hc hd; omega), hd]
  simp only
  rw [if_neg (by omega), hf]

/-! ### consequences used by the corollaries of C03 -/

/-- a whole valid frame at the front is emitted and the scan continues right after it -/
theorem scan_valid_frame (f rest : Bytes) (fr : Frame) (h : Hdr) (hf : c.frameDecode f = .ok fr)
    (hh : c.hdrDecode f = .ok h) (hl : h.flen = f.length) :
    scan c (f ++ rest) = fr :: scan c rest := by
  have hlen := hdrDecode_ok_length hc hh
  have hd : c.hdrDecode (f ++ rest) = .ok h := by rw [hdrDecode_append hc _ hlen]; exact hh
  have ht : (f ++ rest).take h.flen = f := by rw [hl]; simp
  rw [scan_frame hc _ h fr hd (by simp; omega) (by rw [ht]; exact hf), hl]
  simp

/-- positions whose candidate is examined and rejected (no start byte, bad header, or a complete
    window that does not decode) are stepped over one by one -/
theorem scan_reject_prefix (noise d : Bytes) (hd : c.hdrLen ≤ d.length)
    (hn : ∀ k, k < noise.length → ∀ h, c.hdrDecode ((noise ++ d).drop k) = .ok h →
      h.flen ≤ (noise ++ d).length - k ∧ ∀ fr, c.frameDecode (((noise ++ d).drop k).take h.flen) ≠ .ok fr) :
    scan c (noise ++ d) = scan c d := by
  induction noise with
  | nil => rfl
  | cons x t ih =>
    have ih' := ih (fun k hk h hh => by
      have := hn (k + 1) (by simp; omega) h (by simpa using hh)
      simp at this ⊢
      exact ⟨by omega, this.2⟩)
    rw [← ih']
    by_cases hx : x = c.sof
    · have hfind : c.hdrFind (x :: t ++ d) = some 0 := by
        rw [hc.hdrFind_eq, hx, List.cons_append, findByte_cons_self]
      have hlen : c.hdrLen ≤ (x :: t ++ d).length := by simp; omega
      cases hdec : c.hdrDecode (x :: t ++ d) with
      | error e =>
        rw [scan_badhdr hc _ e hfind hlen hdec]; rfl
      | ok h =>
        obtain ⟨h1, h2⟩ := hn 0 (by simp) h (by simpa using hdec)
        cases hfd : c.frameDecode ((x :: t ++ d).take h.flen) with
        | ok fr => exact absurd (by simpa using hfd) (h2 fr)
        | error e =>
          rw [scan_badframe hc _ h e hdec (by simpa using h1) hfd]; rfl
    · exact scan_skip hc [x] (t ++ d) (by simpa using hx)

/-- every frame `scan` emits is the decoding of a window of the stream -/
theorem mem_scan {fr : Frame} : ∀ (n : Nat) (d : Bytes), d.length < n → fr ∈ scan c d →
    ∃ pre post w, d = pre ++ w ++ post ∧ c.frameDecode w = .ok fr := by
  intro n
  induction n with
  | zero => intro d h; omega
  | succ n ih =>
    intro d hn hmem
    have hpos := hc.hdrLen_pos
    rw [scan_eq hc d] at hmem
    cases hfind : c.hdrFind d with
    | none => rw [hfind] at hmem; cases hmem
    | some i =>
      rw [hfind] at hmem
      simp only at hmem
      have hlen : (d.drop i).length ≤ d.length := by simp
      by_cases hs : (d.drop i).length < c.hdrLen
      · rw [if_pos hs] at hmem; cases hmem
      · rw [if_neg hs] at hmem
        have hstep : fr ∈ scan c ((d.drop i).drop 1) →
            ∃ pre post w, d = pre ++ w ++ post ∧ c.frameDecode w = .ok fr := by
          intro hm
          obtain ⟨pre, post, w, h1, h2⟩ := ih _ (by simp at hs hlen ⊢; omega) hm
          refine ⟨d.take i ++ (d.drop i).take 1 ++ pre, post, w, ?_, h2⟩
          have e1 : d = d.take i ++ ((d.drop i).take 1 ++ (d.drop i).drop 1) := by
            rw [List.take_append_drop, List.take_append_drop]
          rw [h1] at e1
          exact e1.trans (by simp)
        cases hh : c.hdrDecode (d.drop i) with
        | error e => rw [hh] at hmem; exact hstep hmem
        | ok h =>
          rw [hh] at hmem
          simp only at hmem
          by_cases hw : (d.drop i).length < h.flen
          · rw [if_pos hw] at hmem; cases hmem
          · rw [if_neg hw] at hmem
            cases hfd : c.frameDecode ((d.drop i).take h.flen) with
            | error e => rw [hfd] at hmem; exact hstep hmem
            | ok fr0 =>
              rw [hfd] at hmem
              simp only at hmem
              rcases List.mem_cons.mp hmem with rfl | hm
              · refine ⟨d.take i, (d.drop i).drop h.flen, (d.drop i).take h.flen, ?_, hfd⟩
                rw [List.append_assoc, List.take_append_drop, List.take_append_drop]
              · have hfl := frameDecode_take_len hc hfd
                obtain ⟨pre, post, w, h1, h2⟩ := ih _ (by simp at hs hlen ⊢; omega) hm
                refine ⟨d.take i ++ (d.drop i).take h.flen ++ pre, post, w, ?_, h2⟩
                have e1 : d = d.take i ++ ((d.drop i).take h.flen ++ (d.drop i).drop h.flen) := by
                  rw [List.take_append_drop, List.take_append_drop]
                rw [h1] at e1
                exact e1.trans (by simp)


/-! ### where the scan stops: the bytes it is still waiting on (`scanRest`), resumption -/

end Laws

/-- the unconsumed rest of `d` when `scan c d` stops: `[]` when the scan ran out of start bytes
    (everything examined and dropped), otherwise the suffix of `d` that begins with the candidate the
    scan is waiting on (an incomplete header, or a decodable header whose declared length has not
    arrived yet).  Same recursion as `scanLoop`, returning the rest instead of the frames. -/
def scanRestLoop (c : Codec) : Nat → Bytes → Bytes
  | 0, d => d
  | fuel + 1, d =>
    match c.hdrFind d with
    | none => []
    | some i =>
      let d' := d.drop i
      if d'.length < c.hdrLen then d'
      else
        match c.hdrDecode d' with
        | .error _ => scanRestLoop c fuel (d'.drop 1)
        | .ok h =>
          if d'.length < h.flen then d'
          else
            match c.frameDecode (d'.take h.flen) with
            | .ok _ => scanRestLoop c fuel (d'.drop h.flen)
            | .error _ => scanRestLoop c fuel (d'.drop 1)

def scanRest (c : Codec) (d : Bytes) : Bytes := scanRestLoop c (d.length + 1) d

/-- "the receiver can only wait": `w` is empty, or starts with the start byte and is either shorter
    than a header or carries a decodable header that declares more bytes than `w` has -/
def Waiting (c : Codec) (w : Bytes) : Prop :=
  w = [] ∨ (w.head? = some c.sof ∧
    (w.length < c.hdrLen ∨ ∃ h, c.hdrDecode w = .ok h ∧ w.length < h.flen))

section Laws
variable {c : Codec} (hc : LawfulCodec c)
include hc

theorem scanRestLoop_fuel : ∀ (f₁ f₂ : Nat) (d : Bytes), d.length < f₁ → d.length < f₂ →
    scanRestLoop c f₁ d = scanRestLoop c f₂ d := by
  intro f₁
  induction f₁ with
  | zero => intro f₂ d h; omega
  | succ f₁ ih =>
    intro f₂ d h1 h2
    cases f₂ with
    | zero => omega
    | succ f₂ =>
      have hpos := hc.hdrLen_pos
      rw [scanRestLoop, scanRestLoop]
      cases hfind : c.hdrFind d with
      | none => rfl
      | some i =>
        simp only
        have hlen : (d.drop i).length ≤ d.length := by simp
        by_cases hs : (d.drop i).length < c.hdrLen
        · rw [if_pos hs, if_pos hs]
        · rw [if_neg hs, if_neg hs]
          have hd1 : ((d.drop i).drop 1).length < f₁ := by simp at hs hlen ⊢; omega
          have hd2 : ((d.drop i).drop 1).length < f₂ := by simp at hs hlen ⊢; omega
          cases hh : c.hdrDecode (d.drop i) with
          | error e => exact ih _ _ hd1 hd2
          | ok h =>
            simp only
            by_cases hw : (d.drop i).length < h.flen
            · rw [if_pos hw, if_pos hw]
            · rw [if_neg hw, if_neg hw]
              cases hfd : c.frameDecode ((d.drop i).take h.flen) with
              | error e => exact ih _ _ hd1 hd2
              | ok fr =>
                simp only
                have := frameDecode_take_len hc hfd
                rw [ih f₂ ((d.drop i).drop h.flen) (by simp at hs hlen ⊢; omega) (by simp at hs hlen ⊢; omega)]

/-- one step of `scanRest` -/
theorem scanRest_eq (d : Bytes) :
    scanRest c d =
      match c.hdrFind d with
      | none => []
      | some i =>
        let d' := d.drop i
        if d'.length < c.hdrLen then d'
        else
          match c.hdrDecode d' with
          | .error _ => scanRest c (d'.drop 1)
          | .ok h =>
            if d'.length < h.flen then d'
            else
              match c.frameDecode (d'.take h.flen) with
              | .ok _ => scanRest c (d'.drop h.flen)
              | .error _ => scanRest c (d'.drop 1) := by
  have hpos := hc.hdrLen_pos
  unfold scanRest
  rw [scanRestLoop]
  cases hfind : c.hdrFind d with
  | none => rfl
  | some i =>
    simp only
    have hlen : (d.drop i).length ≤ d.length := by simp
    by_cases hs : (d.drop i).length < c.hdrLen
    · rw [if_pos hs, if_pos hs]
    · rw [if_neg hs, if_neg hs]
      have h1 : scanRestLoop c d.length ((d.drop i).drop 1) =
          scanRestLoop c (((d.drop i).drop 1).length + 1) ((d.drop i).drop 1) :=
        scanRestLoop_fuel hc _ _ _ (by simp at hs hlen ⊢; omega) (by omega)
      cases hh : c.hdrDecode (d.drop i) with
      | error e => exact h1
      | ok h =>
        simp only
        by_cases hw : (d.drop i).length < h.flen
        · rw [if_pos hw, if_pos hw]
        · rw [if_neg hw, if_neg hw]
          cases hfd : c.frameDecode ((d.drop i).take h.flen) with
          | error e => exact h1
          | ok fr =>
            simp only
            have := frameDecode_take_len hc hfd
            rw [scanRestLoop_fuel hc d.length (((d.drop i).drop h.flen).length + 1) _
              (by simp at hs hlen ⊢; omega) (by omega)]

/-- the scan and its rest, one step, for a buffer that starts with the start byte: the five cases -/
theorem hdrFind_cons_sof (t : Bytes) : c.hdrFind (c.sof :: t) = some 0 := by
  rw [hc.hdrFind_eq, findByte_cons_self]

theorem scanRest_skip (pre d : Bytes) (h : ∀ x ∈ pre, x ≠ c.sof) : scanRest c (pre ++ d) = scanRest c d := by
  rw [scanRest_eq hc (pre ++ d), scanRest_eq hc d, hc.hdrFind_eq, hc.hdrFind_eq,
    findByte_append_of_not_mem _ _ _ h]
  cases findByte c.sof d with
  | none => rfl
  | some i =>
    have : (pre ++ d).drop (i + pre.length) = d.drop i := by
      simp [List.drop_append]
    simp only [Option.map_some, this]

theorem scanRest_nosof (d : Bytes) (h : ∀ x ∈ d, x ≠ c.sof) : scanRest c d = [] := by
  rw [scanRest_eq hc d, hc.hdrFind_eq, findByte_none_of_not_mem h]

theorem scanRest_short (t : Bytes) (h : (c.sof :: t).length < c.hdrLen) :
    scanRest c (c.sof :: t) = c.sof :: t := by
  rw [scanRest_eq hc, hdrFind_cons_sof hc]
  simp only [List.drop_zero]
  rw [if_pos h]

theorem scanRest_badhdr (d : Bytes) (e : Err) (hs : c.hdrFind d = some 0) (hl : c.hdrLen ≤ d.length)
    (hd : c.hdrDecode d = .error e) : scanRest c d = scanRest c (d.drop 1) := by
  rw [scanRest_eq hc d, hs]
  simp only [List.drop_zero]
  rw [if_neg (by omega), hd]

theorem scanRest_wait (d : Bytes) (h : Hdr) (hd : c.hdrDecode d = .ok h) (hl : d.length < h.flen) :
    scanRest c d = d := by
  rw [scanRest_eq hc d, hdrFind_of_hdr hc hd]
  simp only [List.drop_zero]
  rw [if_neg (by have := hdrDecode_ok_length hc hd; omega), hd]
  simp only
  rw [if_pos hl]

theorem scanRest_frame (d : Bytes) (h : Hdr) (fr : Frame) (hd : c.hdrDecode d = .ok h) (hl : h.flen ≤ d.length)
    (hf : c.frameDecode (d.take h.flen) = .ok fr) : scanRest c d = scanRest c (d.drop h.flen) := by
  rw [scanRest_eq hc d, hdrFind_of_hdr hc hd]
  simp only [List.drop_zero]
  rw [if_neg (by have := hdrDecode_ok_length hc hd; omega), hd]
  simp only
  rw [if_neg (by omega), hf]

theorem scanRest_badframe (d : Bytes) (h : Hdr) (e : Err) (hd : c.hdrDecode d = .ok h) (hl : h.flen ≤ d.length)
    (hf : c.frameDecode (d.take h.flen) = .error e) : scanRest c d = scanRest c (d.drop 1) := by
  rw [scanRest_eq hc d, hdrFind_of_hdr hc hd]
  simp only [List.drop_zero]
  rw [if_neg (by have := hdrDecode_ok_length hc hd; omega), hd]
  simp only
  rw [if_neg (by omega), hf]

/-- a buffer on which the receiver can only wait delivers nothing and is its own rest -/
theorem scan_of_waiting {w : Bytes} (hw : Waiting c w) : scan c w = [] := by
  rcases hw with rfl | ⟨_, hs | ⟨h, hd, hl⟩⟩
  · exact scan_nosof hc [] (by simp)
  · exact scan_short hc w hs
  · exact scan_wait hc w h hd hl

theorem scanRest_of_waiting {w : Bytes} (hw : Waiting c w) : scanRest c w = w := by
  rcases hw with rfl | ⟨hh, hs | ⟨h, hd, hl⟩⟩
  · exact scanRest_nosof hc [] (by simp)
  · cases w with
    | nil => exact scanRest_nosof hc [] (by simp)
    | cons x t =>
      simp only [List.head?_cons, Option.some.injEq] at hh
      subst hh
      exact scanRest_short hc t hs
  · exact scanRest_wait hc w h hd hl

/-- **resumption**: what `scan` delivers for `d ++ e` is what it delivered for `d`, followed by the
    scan of (the bytes it was still waiting on ++ `e`); together with `scanRest_waiting` and
    `scanRest_suffix`: delivery is monotone in the bytes received, and the only thing that carries over
    is the candidate being waited on -/
theorem scan_resume_aux : ∀ (n : Nat) (d : Bytes), d.length < n → ∀ e : Bytes,
    scan c (d ++ e) = scan c d ++ scan c (scanRest c d ++ e) ∧ Waiting c (scanRest c d) ∧
      ∃ k, scanRest c d = d.drop k := by
  intro n
  induction n with
  | zero => intro d h; omega
  | succ n ih =>
    intro d hn e
    have hpos := hc.hdrLen_pos
    cases hfind : findByte c.sof d with
    | none =>
      have hns := findByte_none hfind
      rw [scan_skip hc d e hns, scan_nosof hc d hns, scanRest_nosof hc d hns]
      exact ⟨rfl, Or.inl rfl, d.length, by simp⟩
    | some i =>
      obtain ⟨hpre, t, ht⟩ := findByte_some hfind
      have hi := findByte_some_lt hfind
      have hsplit : d = d.take i ++ (c.sof :: t) := by rw [← ht, List.take_append_drop]
      have hlen : (c.sof :: t).length ≤ d.length := by rw [← ht]; simp
      -- reduce to the suffix that starts with the start byte
      suffices hmain : scan c ((c.sof :: t) ++ e) = scan c (c.sof :: t) ++ scan c (scanRest c (c.sof :: t) ++ e) ∧
          Waiting c (scanRest c (c.sof :: t)) ∧ ∃ k, scanRest c (c.sof :: t) = (c.sof :: t).drop k by
        obtain ⟨h1, h2, k, h3⟩ := hmain
        have e1 : scan c (d ++ e) = scan c ((c.sof :: t) ++ e) := by
          conv => lhs; rw [hsplit, List.append_assoc]
          exact scan_skip hc _ _ hpre
        have e2 : scan c d = scan c (c.sof :: t) := by
          conv => lhs; rw [hsplit]
          exact scan_skip hc _ _ hpre
        have e3 : scanRest c d = scanRest c (c.sof :: t) := by
          conv => lhs; rw [hsplit]
          exact scanRest_skip hc _ _ hpre
        rw [e1, e2, e3]
        refine ⟨h1, h2, i + k, ?_⟩
        rw [h3, ← ht, List.drop_drop]
      generalize hw : c.sof :: t = w at hlen ⊢
      have hhead : w.head? = some c.sof := by rw [← hw]; rfl
      have hf0 : ∀ m, c.hdrFind (w ++ m) = some 0 := by
        intro m; rw [← hw, List.cons_append]; exact hdrFind_cons_sof hc _
      have hf0' : c.hdrFind w = some 0 := by rw [← hw]; exact hdrFind_cons_sof hc _
      have hwne : 1 ≤ w.length := by rw [← hw]; simp
      by_cases hs : w.length < c.hdrLen
      · have hwt : Waiting c w := Or.inr ⟨hhead, Or.inl hs⟩
        rw [scanRest_of_waiting hc hwt, scan_of_waiting hc hwt]
        exact ⟨rfl, hwt, 0, rfl⟩
      · have hdrop1 : ∀ m, (w ++ m).drop 1 = w.drop 1 ++ m := by
          intro m; rw [List.drop_append_of_le_length hwne]
        have hih1 := ih (w.drop 1) (by simp; omega) e
        have hk1 : (∃ k, scanRest c (w.drop 1) = (w.drop 1).drop k) → ∃ k, scanRest c (w.drop 1) = w.drop k := by
          rintro ⟨k, hk⟩; exact ⟨1 + k, by rw [hk, List.drop_drop]⟩
        cases hdec : c.hdrDecode w with
        | error er =>
          have hdec' : c.hdrDecode (w ++ e) = .error er := by
            rw [hdrDecode_append hc _ (by omega)]; exact hdec
          rw [scan_badhdr hc _ er (hf0 e) (by simp; omega) hdec', hdrop1,
            scan_badhdr hc _ er hf0' (by omega) hdec, scanRest_badhdr hc _ er hf0' (by omega) hdec]
          exact ⟨hih1.1, hih1.2.1, hk1 hih1.2.2⟩
        | ok h =>
          have hdec' : c.hdrDecode (w ++ e) = .ok h := by
            rw [hdrDecode_append hc _ (by omega)]; exact hdec
          by_cases hl : w.length < h.flen
          · have hwt : Waiting c w := Or.inr ⟨hhead, Or.inr ⟨h, hdec, hl⟩⟩
            rw [scanRest_of_waiting hc hwt, scan_of_waiting hc hwt]
            exact ⟨rfl, hwt, 0, rfl⟩
          · have htake : (w ++ e).take h.flen = w.take h.flen := by
              rw [List.take_append_of_le_length (by omega)]
            cases hfd : c.frameDecode (w.take h.flen) with
            | error er =>
              rw [scan_badframe hc _ h er hdec' (by simp; omega) (by rw [htake]; exact hfd), hdrop1,
                scan_badframe hc _ h er hdec (by omega) hfd, scanRest_badframe hc _ h er hdec (by omega) hfd]
              exact ⟨hih1.1, hih1.2.1, hk1 hih1.2.2⟩
            | ok fr =>
              have hfl := frameDecode_take_len hc hfd
              have hih2 := ih (w.drop h.flen) (by simp; omega) e
              rw [scan_frame hc _ h fr hdec' (by simp; omega) (by rw [htake]; exact hfd),
                List.drop_append_of_le_length (by omega),
                scan_frame hc _ h fr hdec (by omega) hfd, scanRest_frame hc _ h fr hdec (by omega) hfd]
              refine ⟨by rw [hih2.1]; rfl, hih2.2.1, ?_⟩
              obtain ⟨k, hk⟩ := hih2.2.2
              exact ⟨h.flen + k, by rw [hk, List.drop_drop]⟩

theorem scan_resume (d e : Bytes) : scan c (d ++ e) = scan c d ++ scan c (scanRest c d ++ e) :=
  (scan_resume_aux hc (d.length + 1) d (by omega) e).1

theorem scanRest_waiting (d : Bytes) : Waiting c (scanRest c d) :=
  (scan_resume_aux hc (d.length + 1) d (by omega) []).2.1

theorem scanRest_suffix (d : Bytes) : ∃ k, scanRest c d = d.drop k :=
  (scan_resume_aux hc (d.length + 1) d (by omega) []).2.2

end Laws
end Reasm
end Nxs
