/-
  Lemmas for C20: every valid member of the parameterised family honours the frame interface
  (`LawfulCodec`), and the codec-generic dispatcher `recvHandleWith` = crop + `frameDecode` + callback
  table for every lawful codec.
-/
import NxsModel.Family
import NxsModel.Dispatch
import NxsModel.Pad
import NxsModel.Lemmas.Reasm
import NxsModel.Lemmas.Pad
namespace Nxs.Family
open Nxs
open Nxs.Serial (Hdr Frame)

theorem check_length (f : Foot) (d : Bytes) : (check f d).length = f.len := by
  cases f <;> simp [check, Foot.len]

theorem encFields_length (fs : List Field) (L I : Nat) : (encFields fs L I).length = widthSum fs := by
  induction fs with
  | nil => rfl
  | cons f fs ih =>
    cases f <;> simp [encFields, widthSum, Field.width, ih] <;> omega

/-- the header decoder reads only the first `widthSum` bytes after the start byte -/
theorem decFields_take : ∀ (fs : List Field) (d : Bytes) (a : Hdr) (k : Nat), widthSum fs ≤ k →
    decFields fs (d.take k) a = decFields fs d a := by
  intro fs
  induction fs with
  | nil => intro d a k _; rfl
  | cons f fs ih =>
    intro d a k hk
    cases f with
    | len n be =>
      simp only [widthSum, Field.width] at hk
      simp only [decFields]
      rw [List.take_take, Nat.min_eq_left (by omega), List.drop_take, ih _ _ _ (by omega)]
    | fid =>
      simp only [widthSum, Field.width] at hk
      simp only [decFields]
      rw [List.drop_take, ih _ _ _ (by omega)]
      have : (d.take k).headD 0 = d.headD 0 := by
        cases d with
        | nil => simp
        | cons x xs =>
          cases k with
          | zero => omega
          | succ k => simp
      rw [this]
    | fill b =>
      simp only [widthSum, Field.width] at hk
      simp only [decFields]
      rw [List.drop_take, ih _ _ _ (by omega)]

/-- decoding the fields of a created header gives back the length and the id -/
theorem decFields_enc : ∀ (fs : List Field) (L I : Nat) (rest : Bytes) (a : Hdr),
    fits fs L = true → I < 256 →
    decFields fs (encFields fs L I ++ rest) a =
      ⟨if hasFid fs then I else a.fid, if hasLen fs then L else a.flen⟩ := by
  intro fs
  induction fs with
  | nil => intro L I rest a _ _; rfl
  | cons f fs ih =>
    intro L I rest a hf hI
    cases f with
    | len n be =>
      simp only [fits, Bool.and_eq_true, decide_eq_true_eq] at hf
      simp only [encFields, decFields, List.append_assoc]
      rw [List.take_left' (ordBytes_length be n L), List.drop_left' (ordBytes_length be n L),
        ordNat_ordBytes, Nat.mod_eq_of_lt hf.1, ih L I rest _ hf.2 hI]
      simp [hasFid, hasLen, Field.isFid, Field.isLen]
    | fid =>
      simp only [fits] at hf
      simp only [encFields, decFields, List.cons_append, List.headD_cons, List.drop_succ_cons,
        List.drop_zero]
      rw [ih L I rest _ hf hI]
      have : (BitVec.ofNat 8 I).toNat = I := by simp [BitVec.toNat_ofNat]; omega
      simp [hasFid, hasLen, Field.isFid, Field.isLen, this]
    | fill b =>
      simp only [fits] at hf
      simp only [encFields, decFields, List.cons_append, List.drop_succ_cons, List.drop_zero]
      rw [ih L I rest _ hf hI]
      simp [hasFid, hasLen, Field.isFid, Field.isLen]

theorem hasLen_of_filter : ∀ (fs : List Field), (fs.filter Field.isLen).length = 1 → hasLen fs = true := by
  intro fs
  induction fs with
  | nil => intro h; simp at h
  | cons f fs ih =>
    intro h
    by_cases hf : f.isLen = true
    · simp [hasLen, hf]
    · simp only [List.filter_cons, hf] at h
      simp [hasLen, ih h]

theorem hasFid_of_filter : ∀ (fs : List Field), (fs.filter Field.isFid).length = 1 → hasFid fs = true := by
  intro fs
  induction fs with
  | nil => intro h; simp at h
  | cons f fs ih =>
    intro h
    by_cases hf : f.isFid = true
    · simp [hasFid, hf]
    · simp only [List.filter_cons, hf] at h
      simp [hasFid, ih h]

/-! ### the laws -/

theorem hdrDecode_short (p : Params) (d : Bytes) (h : d.length < hdrLen p) : hdrDecode p d = .error .hdr := by
  unfold hdrDecode; rw [if_pos h]

theorem hdrDecode_cons (p : Params) (s : Byte) (rest : Bytes) (h : hdrLen p ≤ (s :: rest).length) :
    hdrDecode p (s :: rest) =
      if s ≠ p.sof then .error .hdr
      else if (decFields p.fields rest ⟨0, 0⟩).fid > 8 then .error .hdr
      else .ok (decFields p.fields rest ⟨0, 0⟩) := by
  unfold hdrDecode; rw [if_neg (by omega)]

theorem hdrDecode_prefix (p : Params) (d : Bytes) (h : hdrLen p ≤ d.length) :
    hdrDecode p d = hdrDecode p (d.take (hdrLen p)) := by
  cases d with
  | nil => simp [hdrLen] at h
  | cons s rest =>
    have e : (s :: rest).take (hdrLen p) = s :: rest.take (widthSum p.fields) := by
      simp [hdrLen, Nat.add_comm 1]
    rw [e, hdrDecode_cons p s rest h, hdrDecode_cons p s _ (by
      simp only [List.length_cons, List.length_take, hdrLen] at h ⊢; omega),
      decFields_take _ _ _ _ (Nat.le_refl _)]

theorem hdrDecode_sof (p : Params) (d : Bytes) (h : Hdr) (hd : hdrDecode p d = .ok h) :
    d.head? = some p.sof := by
  cases d with
  | nil => simp [hdrDecode] at hd
  | cons s rest =>
    by_cases hl : (s :: rest).length < hdrLen p
    · rw [hdrDecode_short p _ hl] at hd; cases hd
    · rw [hdrDecode_cons p s rest (by omega)] at hd
      by_cases hs : s = p.sof
      · simp [hs]
      · rw [if_pos hs] at hd; cases hd

theorem frameDecode_iff (p : Params) (d : Bytes) (fr : Frame) :
    frameDecode p d = .ok fr ↔
      ∃ h, hdrDecode p d = .ok h ∧ hdrLen p + p.foot.len ≤ h.flen ∧ h.flen ≤ d.length ∧
        footValidate p (d.take h.flen) = true ∧ fr = ⟨h.fid, slice d (hdrLen p) (h.flen - p.foot.len)⟩ := by
  unfold frameDecode
  cases hh : hdrDecode p d with
  | error e =>
    constructor
    · intro h; cases h
    · rintro ⟨h, h1, _⟩; cases h1
  | ok h =>
    simp only
    constructor
    · intro hx
      by_cases h1 : h.flen < hdrLen p + p.foot.len
      · rw [if_pos h1] at hx; cases hx
      · rw [if_neg h1] at hx
        by_cases h2 : h.flen > d.length
        · rw [if_pos h2] at hx; cases hx
        · rw [if_neg h2] at hx
          by_cases h3 : (!footValidate p (d.take h.flen)) = true
          · rw [if_pos h3] at hx; cases hx
          · rw [if_neg h3] at hx
            cases hx
            exact ⟨h, rfl, by omega, by omega, by simpa using h3, rfl⟩
    · rintro ⟨h', e, h1, h2, h3, h4⟩
      cases e
      rw [if_neg (by omega), if_neg (by omega), if_neg (by simp [h3]), h4]

theorem body_length (p : Params) (fid : Nat) (pl : Bytes) : (body p fid pl).length = hdrLen p + pl.length := by
  simp [body, encFields_length, hdrLen]; omega

/-- the frame `frame_create` builds decodes to what was put in, and declares its own length -/
theorem create_decode (p : Params) (hl : hasLen p.fields = true) (hi : hasFid p.fields = true)
    (fid : Nat) (pl f : Bytes) (hcr : frameCreate p fid (some pl) = .ok f) (h8 : fid ≤ 8) :
    frameDecode p f = .ok ⟨fid, pl⟩ ∧ ∃ h, hdrDecode p f = .ok h ∧ h.flen = f.length := by
  unfold frameCreate at hcr
  rw [if_neg (by omega)] at hcr
  simp only [Option.getD_some] at hcr
  by_cases hfit : fits p.fields (hdrLen p + pl.length + p.foot.len) = true
  · rw [if_neg (by simp [hfit])] at hcr
    cases hcr
    have hbl := body_length p fid pl
    have hcl := check_length p.foot (body p fid pl)
    have hlen : (body p fid pl ++ check p.foot (body p fid pl)).length = hdrLen p + pl.length + p.foot.len := by
      rw [List.length_append, hbl, hcl]
    have hh : hdrDecode p (body p fid pl ++ check p.foot (body p fid pl)) =
        .ok ⟨fid, hdrLen p + pl.length + p.foot.len⟩ := by
      have e : body p fid pl ++ check p.foot (body p fid pl) =
          p.sof :: (encFields p.fields (hdrLen p + pl.length + p.foot.len) fid ++
            (pl ++ check p.foot (body p fid pl))) := by
        simp [body]
      rw [e, hdrDecode_cons p _ _ (by rw [← e, hlen]; omega), if_neg (by simp),
        decFields_enc _ _ _ _ _ hfit (by omega)]
      simp only [hl, hi, if_true]
      rw [if_neg (by omega)]
    refine ⟨?_, _, hh, by simp only; omega⟩
    rw [frameDecode_iff]
    refine ⟨_, hh, by simp only; omega, by simp only; omega, ?_, ?_⟩
    · simp only
      rw [← hlen, List.take_length]
      unfold footValidate
      rw [hlen]
      have e1 : hdrLen p + pl.length + p.foot.len - p.foot.len = (body p fid pl).length := by omega
      rw [e1, List.take_left, List.drop_left]
      simp
    · simp only [slice]
      have e1 : hdrLen p + pl.length + p.foot.len - p.foot.len = (body p fid pl).length := by omega
      rw [e1, List.take_left]
      have e2 : body p fid pl = (p.sof :: encFields p.fields (hdrLen p + pl.length + p.foot.len) fid) ++ pl := by
        simp [body]
      have e3 : hdrLen p = (p.sof :: encFields p.fields (hdrLen p + pl.length + p.foot.len) fid).length := by
        simp [encFields_length, hdrLen]; omega
      rw [e2, List.drop_left' e3.symm]
  · rw [if_pos (by simp [hfit])] at hcr; cases hcr

/-- every member with a length field and an id field honours the frame interface -/
theorem codec_lawful_of (p : Params) (hl : hasLen p.fields = true) (hi : hasFid p.fields = true) :
    LawfulCodec (codec p) where
  hdrLen_pos := by show 1 ≤ hdrLen p; unfold hdrLen; omega
  hdrFind_eq := fun _ => rfl
  hdrDecode_short := fun d h => ⟨.hdr, hdrDecode_short p d h⟩
  hdrDecode_prefix := fun d h => hdrDecode_prefix p d h
  hdrDecode_sof := fun d h hd => hdrDecode_sof p d h hd
  frameDecode_iff := fun d fr => frameDecode_iff p d fr
  frameCreate_decode := fun fid pl f hcr h8 => create_decode p hl hi fid pl f hcr h8

theorem codec_lawful (p : Params) (hv : p.valid) : LawfulCodec (codec p) :=
  codec_lawful_of p (hasLen_of_filter _ hv.1) (hasFid_of_filter _ hv.2.1)

/-- `frame_create` refuses exactly the frames whose total length does not fit the length field -/
theorem create_refuses (p : Params) (fid : Nat) (pl : Bytes) (hfid : fid ≤ 255)
    (h : fits p.fields (hdrLen p + pl.length + p.foot.len) = false) :
    frameCreate p fid (some pl) = .error .structError := by
  unfold frameCreate
  rw [if_neg (by omega)]
  simp [h]

/-! ### a run of zero bytes never decodes (also when the start byte is 0x00) -/

theorem leNat_zeros (m : Nat) : leNat (List.replicate m (0 : Byte)) = 0 := by
  induction m with
  | zero => rfl
  | succ m ih =>
    rw [List.replicate_succ]
    show (0 : Byte).toNat + 256 * leNat (List.replicate m (0 : Byte)) = 0
    rw [ih]; rfl

theorem ordNat_zeros (be : Bool) (m : Nat) : ordNat be (List.replicate m (0 : Byte)) = 0 := by
  cases be
  · exact leNat_zeros m
  · show leNat (List.replicate m (0 : Byte)).reverse = 0
    rw [List.reverse_replicate]; exact leNat_zeros m

theorem decFields_zeros : ∀ (fs : List Field) (m : Nat),
    decFields fs (List.replicate m (0 : Byte)) ⟨0, 0⟩ = ⟨0, 0⟩ := by
  intro fs
  induction fs with
  | nil => intro m; rfl
  | cons f fs ih =>
    intro m
    cases f with
    | len n be =>
      simp only [decFields, List.take_replicate, List.drop_replicate, ordNat_zeros]
      exact ih _
    | fid =>
      simp only [decFields, List.drop_replicate]
      have : (List.replicate m (0 : Byte)).headD 0 = 0 := by cases m <;> simp [List.replicate_succ]
      rw [this]
      exact ih _
    | fill b =>
      simp only [decFields, List.drop_replicate]
      exact ih _

theorem frameDecode_zeros (p : Params) (m : Nat) : ∃ e, frameDecode p (List.replicate m (0 : Byte)) = .error e := by
  cases hfd : frameDecode p (List.replicate m (0 : Byte)) with
  | error e => exact ⟨e, rfl⟩
  | ok fr =>
    exfalso
    obtain ⟨h, h1, h2, _⟩ := (frameDecode_iff p _ fr).mp hfd
    cases m with
    | zero => simp [hdrDecode] at h1
    | succ m =>
      by_cases hl : (List.replicate (m + 1) (0 : Byte)).length < hdrLen p
      · rw [hdrDecode_short p _ hl] at h1; cases h1
      · rw [List.replicate_succ, hdrDecode_cons p _ _ (by rw [← List.replicate_succ]; omega),
          decFields_zeros] at h1
        by_cases hs : (0 : Byte) ≠ p.sof
        · rw [if_pos hs] at h1; cases h1
        · rw [if_neg hs, if_neg (by simp)] at h1
          cases h1
          simp only [hdrLen] at h2
          omega

end Nxs.Family

namespace Nxs.Dispatch
open Nxs
open Nxs.Serial (Hdr Frame)

/-- the existing serial dispatcher is the generic one at the serial codec -/
theorem recvHandle_eq_with : recvHandle = recvHandleWith Serial.codec := rfl

variable {c : Codec} (hc : LawfulCodec c)
include hc

/-- generic C02 `dispatch_eq_decode`: for every lawful codec the dispatcher is crop-to-first-start-
    byte + `frame_decode` + callback table -/
theorem recvHandleWith_eq (d : Bytes) :
    recvHandleWith c d =
      match c.hdrFind d with
      | none => .ignored
      | some i =>
        match c.frameDecode (d.drop i) with
        | .ok fr => cbHandle fr.fid fr.data
        | .error _ => .ignored := by
  unfold recvHandleWith
  cases c.hdrFind d with
  | none => rfl
  | some i =>
    simp only
    have hlen : d.length - i = (d.drop i).length := by simp
    rw [hlen]
    generalize d.drop i = x
    simp only [Gen.Recv.guardShort, Gen.Recv.guardMin, Gen.Recv.guardMax, Gen.Recv.guardCrc, Bool.true_and,
      decide_eq_true_eq]
    cases hfd : c.frameDecode x with
    | ok fr =>
      obtain ⟨h, h1, h2, h3, h4, h5⟩ := (hc.frameDecode_iff x fr).mp hfd
      rw [if_neg (by omega), h1]
      simp only
      rw [if_neg (by omega), if_neg (by omega), if_neg (by simp [h4]), h5]
    | error e =>
      simp only
      by_cases hs : x.length < c.hdrLen + c.footLen
      · rw [if_pos hs]
      · rw [if_neg hs]
        cases hh : c.hdrDecode x with
        | error _ => rfl
        | ok h =>
          simp only
          by_cases h1 : h.flen < c.hdrLen + c.footLen
          · rw [if_pos h1]
          · rw [if_neg h1]
            by_cases h2 : h.flen > x.length
            · rw [if_pos h2]
            · rw [if_neg h2]
              by_cases h3 : (!c.footValidate (x.take h.flen)) = true
              · rw [if_pos h3]
              · exfalso
                have := (hc.frameDecode_iff x _).mpr
                  ⟨h, hh, by omega, by omega, by simpa using h3, rfl⟩
                rw [hfd] at this; cases this

/-- an accepted frame followed by anything is accepted with the same id and payload -/
theorem frameDecode_append (d z : Bytes) (fr : Frame) (h : c.frameDecode d = .ok fr) :
    c.frameDecode (d ++ z) = .ok fr := by
  obtain ⟨hd, h1, h2, h3, h4, h5⟩ := (hc.frameDecode_iff d fr).mp h
  have hl : c.hdrLen ≤ d.length := by omega
  rw [hc.frameDecode_iff]
  refine ⟨hd, ?_, h2, by rw [List.length_append]; omega, ?_, ?_⟩
  · rw [Reasm.hdrDecode_append hc z hl]; exact h1
  · rw [List.take_append_of_le_length h3]; exact h4
  · rw [h5]; simp only [slice]
    rw [List.take_append_of_le_length (by omega)]

/-- generic C17: whatever the receiver reacts to, it reacts to identically when anything is appended -/
theorem recvHandleWith_append (w z : Bytes) (h : recvHandleWith c w ≠ .ignored) :
    recvHandleWith c (w ++ z) = recvHandleWith c w := by
  rw [recvHandleWith_eq hc] at h
  rw [recvHandleWith_eq hc w, recvHandleWith_eq hc (w ++ z)]
  rw [hc.hdrFind_eq] at h ⊢
  rw [hc.hdrFind_eq]
  cases hf : findByte c.sof w with
  | none => rw [hf] at h; exact absurd rfl h
  | some i =>
    rw [hf] at h
    have hi := findByte_some_lt hf
    have hf' : findByte c.sof (w ++ z) = some i := by
      unfold findByte at hf ⊢
      simp only at hf ⊢
      split at hf
      next hlt =>
        cases hf
        rw [List.findIdx_append, if_pos hlt, if_pos (by rw [List.length_append]; omega)]
      next => cases hf
    rw [hf']
    simp only at h ⊢
    rw [List.drop_append_of_le_length (by omega)]
    cases hd : c.frameDecode (w.drop i) with
    | error e => rw [hd] at h; exact absurd rfl h
    | ok fr => rw [frameDecode_append hc _ z fr hd]

/-- a write without any start byte is ignored -/
theorem recvHandleWith_nosof (d : Bytes) (h : ∀ x ∈ d, x ≠ c.sof) : recvHandleWith c d = .ignored := by
  rw [recvHandleWith_eq hc, hc.hdrFind_eq, findByte_none_of_not_mem h]

end Nxs.Dispatch
