/-
  Order of `x` modulo the CRC-16/XMODEM generator 0x11021 (brute-force module).
  `T` (multiplication by x) returns to the start value `1` for the first time after 32767 steps:
  one linear pass of 32766 steps on `Nat` arithmetic, checked by the kernel, transferred to
  `BitVec 16` through `T_toNat`.
-/
import NxsModel.Lemmas.CrcLinear
namespace Nxs

/-- `T` on the `Nat` value of the register -/
def stepN (c : Nat) : Nat := ((2 * c) % 65536) ^^^ (0x1021 * (c / 32768))

/-- none of the next `n` iterates of `stepN` from `c` equals `1` -/
def noReturn : Nat → Nat → Bool
  | 0, _ => true
  | n + 1, c => stepN c != 1 && noReturn n (stepN c)

theorem noReturn_32766 : noReturn 32766 1 = true := by decide +kernel

theorem T_toNat_stepN (r : BitVec 16) : (T r).toNat = stepN r.toNat := T_toNat r

theorem Tpow_toNat_of_noReturn (n : Nat) (r : BitVec 16) (h : noReturn n r.toNat = true)
    (j : Nat) (h1 : 1 ≤ j) (h2 : j ≤ n) : (Tpow j r).toNat ≠ 1 := by
  induction n generalizing r j with
  | zero => omega
  | succ n ih =>
    simp only [noReturn, Bool.and_eq_true, bne_iff_ne, ne_eq] at h
    rw [← T_toNat_stepN] at h
    obtain ⟨ha, hb⟩ := h
    cases j with
    | zero => omega
    | succ j =>
      cases j with
      | zero => exact ha
      | succ j => exact ih (T r) hb (j + 1) (by omega) (by omega)

/-- `x^j ≠ 1` modulo the generator for `1 ≤ j ≤ 32766` -/
theorem Tpow_one_ne_one (j : Nat) (h1 : 1 ≤ j) (h2 : j ≤ 32766) : Tpow j 1 ≠ 1 := by
  intro h
  have := Tpow_toNat_of_noReturn 32766 1 noReturn_32766 j h1 h2
  rw [h] at this
  exact this rfl

/-! sharpness: the order of `x` is exactly 32767, so two flipped bits at distance 32767 (possible
only in frames longer than 4095 bytes) would go undetected -/

def iterN : Nat → Nat → Nat
  | 0, c => c
  | n + 1, c => iterN n (stepN c)

theorem iterN_32767 : iterN 32767 1 = 1 := by decide +kernel

theorem Tpow_toNat (n : Nat) (r : BitVec 16) : (Tpow n r).toNat = iterN n r.toNat := by
  induction n generalizing r with
  | zero => rfl
  | succ n ih => rw [Tpow, ih, T_toNat_stepN, iterN]

theorem Tpow_32767_one : Tpow 32767 1 = 1 := by
  apply BitVec.eq_of_toNat_eq
  rw [Tpow_toNat]
  exact iterN_32767

end Nxs
