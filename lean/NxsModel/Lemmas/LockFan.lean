/-
  Lemmas for C12: the lock-level machine extended with the subscriber side (`LockSteps.XOp`): the
  configuration component of a run is the run of the configuration blocks alone, subscriber-side
  sections commute with configuration blocks, nothing raises.
-/
import NxsModel.LockSteps
import NxsModel.Lemmas.Locks
namespace Nxs
namespace LocksLemmas
open Locks LockSteps Config

theorem xrun_cons (s : XState) (op : XOp) (r : List XOp) :
    xrun s (op :: r) = ((xrun (xstep s op).1 r).1, (xstep s op).2 :: (xrun (xstep s op).1 r).2) := rfl

theorem xrun_append (s : XState) (a b : List XOp) :
    xrun s (a ++ b) = ((xrun (xrun s a).1 b).1, (xrun s a).2 ++ (xrun (xrun s a).1 b).2) := by
  induction a generalizing s with
  | nil => rfl
  | cons op r ih => rw [List.cons_append, xrun_cons, xrun_cons, ih]; rfl

/-- a subscriber-side section leaves client and device alone; a configuration block (and the stream
    thread's enabled check, a `query`) acts on them as `astep` -/
theorem xstep_cfg (s : XState) (op : XOp) :
    (xstep s op).1.c = (match cfgOf op with | some a => (astep s.c s.d a).1 | none => s.c) ∧
    (xstep s op).1.d = (match cfgOf op with | some a => (astep s.c s.d a).2.1 | none => s.d) := by
  cases op with
  | cfg a => exact ⟨rfl, rfl⟩
  | sub ch =>
    show (if ch < s.f.subs.length then _ else _ : XState × XOut).1.c = s.c ∧
      (if ch < s.f.subs.length then _ else _ : XState × XOut).1.d = s.d
    split <;> exact ⟨rfl, rfl⟩
  | unsub q => exact ⟨rfl, rfl⟩
  | fanCheck ch => exact ⟨rfl, rfl⟩
  | fanDeliver ss => exact ⟨rfl, rfl⟩

/-- a configuration block leaves the subscriber side alone -/
theorem xstep_cfg_fan (s : XState) (a : AOp) : (xstep s (.cfg a)).1.f = s.f := rfl

/-- THE REDUCTION: the client / device component of an extended run is the lock-level configuration run of
    its configuration blocks — subscriptions, unsubscriptions and deliveries are invisible to it -/
theorem xrun_cfg (s : XState) (m : List XOp) :
    (xrun s m).1.c = (arun s.c s.d (m.filterMap cfgOf)).1 ∧
    (xrun s m).1.d = (arun s.c s.d (m.filterMap cfgOf)).2.1 := by
  induction m generalizing s with
  | nil => exact ⟨rfl, rfl⟩
  | cons op r ih =>
    rw [xrun_cons]
    obtain ⟨h1, h2⟩ := xstep_cfg s op
    have := ih (xstep s op).1
    rw [h1, h2] at this
    cases hc : cfgOf op with
    | none =>
      rw [hc] at this
      rw [List.filterMap_cons, hc]
      exact this
    | some a =>
      rw [hc] at this
      rw [List.filterMap_cons, hc, arun_cons]
      exact this

/-- a subscriber-side section that is not the stream thread's enabled check -/
def fanOnly : XOp → Bool
  | .sub _ => true
  | .unsub _ => true
  | .fanDeliver _ => true
  | _ => false

/-- subscription, unsubscription and delivery commute with EVERY configuration block: same final state,
    same outputs, in either order -/
theorem fanOnly_comm (s : XState) (op : XOp) (a : AOp) (h : fanOnly op = true) :
    (xstep (xstep s op).1 (.cfg a)).1 = (xstep (xstep s (.cfg a)).1 op).1 ∧
    (xstep (xstep s (.cfg a)).1 op).2 = (xstep s op).2 ∧
    (xstep (xstep s op).1 (.cfg a)).2 = (xstep s (.cfg a)).2 := by
  cases op with
  | cfg _ => exact absurd h (by simp [fanOnly])
  | fanCheck _ => exact absurd h (by simp [fanOnly])
  | sub ch =>
    by_cases hc : ch < s.f.subs.length
    · simp only [xstep, hc, if_true]; exact ⟨trivial, trivial, trivial⟩
    · simp only [xstep, hc, if_false]; exact ⟨trivial, trivial, trivial⟩
  | unsub q => exact ⟨rfl, rfl, rfl⟩
  | fanDeliver ss => exact ⟨rfl, rfl, rfl⟩

/-- configuration blocks that do not change the acknowledged enable vector: everything but the enable
    half of a write -/
def keepsEnNow : AOp → Bool
  | .wEn _ => false
  | _ => true

theorem astep_enNow (c : Client) (d : Device) (a : AOp) (h : keepsEnNow a = true) : (astep c d a).1.enNow = c.enNow := by
  cases a with
  | enable cs => rfl
  | disable cs => rfl
  | divider cs v =>
    show (step c d (.divider cs v)).1.enNow = c.enNow
    rw [step_divider]; split <;> rfl
  | wDiv o =>
    show (if c.divSupported then writeDiv c d o else (c, d, {})).1.enNow = c.enNow
    split
    · exact (writeDiv_frame c d o).enNow
    · rfl
  | wEn o => exact absurd h (by simp [keepsEnNow])
  | query => rfl

/-- … and the stream thread's enabled check commutes with every configuration block except the enable half
    of a write (the ONLY interaction between the two sides is `ch_is_enabled`) -/
theorem fanCheck_comm (s : XState) (ch : Nat) (a : AOp) (h : keepsEnNow a = true) :
    (xstep (xstep s (.fanCheck ch)).1 (.cfg a)).1 = (xstep (xstep s (.cfg a)).1 (.fanCheck ch)).1 ∧
    (xstep (xstep s (.cfg a)).1 (.fanCheck ch)).2.ans = (xstep s (.fanCheck ch)).2.ans := by
  have he : isEnabled (astep s.c s.d a).1 ch = isEnabled s.c ch := by
    unfold isEnabled; rw [astep_enNow s.c s.d a h]
  simp only [xstep, he]
  exact ⟨trivial, trivial⟩

/-- the answer the stream thread gets -/
theorem fanCheck_ans (s : XState) (ch : Nat) : (xstep s (.fanCheck ch)).2.ans = some (isEnabled s.c ch) := rfl

/-! ### nothing raises -/

/-- an extended op the application / the stream thread can issue on a device with `n` channels -/
def WellXOp (n : Nat) : XOp → Prop
  | .cfg a => WellOp n a
  | .sub ch => ch < n
  | _ => True

theorem xstep_subs_length (s : XState) (op : XOp) : (xstep s op).1.f.subs.length = s.f.subs.length := by
  cases op with
  | cfg a => rfl
  | sub ch =>
    by_cases hc : ch < s.f.subs.length
    · simp only [xstep, hc, if_true, List.length_set]
    · simp only [xstep, hc, if_false]
  | unsub q => simp only [xstep, List.length_map]
  | fanCheck ch => rfl
  | fanDeliver ss => rfl

theorem xstep_n (s : XState) (op : XOp) : (xstep s op).1.c.n = s.c.n := by
  rw [(xstep_cfg s op).1]
  cases cfgOf op with
  | none => rfl
  | some a => exact astep_n s.c s.d a

theorem xstep_inv {s : XState} (hI : Inv s.c s.d) (op : XOp) : Inv (xstep s op).1.c (xstep s op).1.d := by
  rw [(xstep_cfg s op).1, (xstep_cfg s op).2]
  cases cfgOf op with
  | none => exact hI
  | some a => exact astep_inv hI a

/-- what one well-formed section shows: no exception, and a configuration block lasts at most one ACK
    timeout — for EVERY outcome of the request (ack, nack, lost request, lost ACK) -/
def SafeOut (o : XOut) : Prop := o.err = none ∧ ∀ so, o.cfg = some so → so.err = none ∧ so.time ≤ 10

theorem xstep_safe {s : XState} (hI : Inv s.c s.d) (hl : s.f.subs.length = s.c.n) (op : XOp) (hw : WellXOp s.c.n op) :
    SafeOut (xstep s op).2 := by
  cases op with
  | cfg a =>
    refine ⟨rfl, fun so hso => ?_⟩
    have : so = (astep s.c s.d a).2.2 := (Option.some.inj hso).symm
    rw [this]
    exact ⟨astep_noerr hI a hw, astep_time s.c s.d a⟩
  | sub ch =>
    have hc : ch < s.f.subs.length := by rw [hl]; exact hw
    simp only [xstep, hc, if_true]
    exact ⟨rfl, fun so hso => nomatch hso⟩
  | unsub q => exact ⟨rfl, fun so hso => nomatch hso⟩
  | fanCheck ch => exact ⟨rfl, fun so hso => nomatch hso⟩
  | fanDeliver ss => exact ⟨rfl, fun so hso => nomatch hso⟩

theorem xrun_safe {s : XState} (hI : Inv s.c s.d) (hl : s.f.subs.length = s.c.n) (m : List XOp)
    (hw : ∀ op ∈ m, WellXOp s.c.n op) : ∀ o ∈ (xrun s m).2, SafeOut o := by
  induction m generalizing s with
  | nil => intro o ho; nomatch ho
  | cons op r ih =>
    rw [xrun_cons]
    intro o ho
    rcases List.mem_cons.mp ho with rfl | ho
    · exact xstep_safe hI hl op (hw op (List.mem_cons_self ..))
    · refine ih (xstep_inv hI op) ((xstep_subs_length s op).trans (hl.trans (xstep_n s op).symm)) (fun op' hm => ?_) o ho
      rw [xstep_n]
      exact hw op' (List.mem_cons_of_mem _ hm)

/-! ### what a delivery puts where -/

theorem deliver_mem {subs : List (List Nat)} {ss : List Smp} {ans : List Bool} {q : Nat} {g : List Nat}
    (h : (q, g) ∈ deliver subs ss ans) :
    ∃ ch, ch < subs.length ∧ q ∈ subs.getD ch [] ∧ g = group ss ans ch ∧ g ≠ [] := by
  unfold deliver at h
  obtain ⟨ch, hch, hm⟩ := List.mem_flatMap.mp h
  refine ⟨ch, List.mem_range.mp hch, ?_⟩
  by_cases he : (group ss ans ch).isEmpty = true
  · simp [he] at hm
  · simp only [he] at hm
    obtain ⟨q', hq', heq⟩ := List.mem_map.mp hm
    have e1 : q' = q := congrArg Prod.fst heq
    have e2 : group ss ans ch = g := congrArg Prod.snd heq
    refine ⟨e1 ▸ hq', e2.symm, ?_⟩
    intro hg
    rw [← e2] at hg
    exact he (by rw [hg]; rfl)

/-- every value of a delivered group belongs to a sample of that channel whose enabled check answered True -/
theorem group_mem {ss : List Smp} {ans : List Bool} {ch v : Nat} (h : v ∈ group ss ans ch) :
    ∃ p ∈ ss.zip ans, p.1.chan = ch ∧ p.2 = true ∧ p.1.val = v := by
  unfold group at h
  obtain ⟨p, hp, hv⟩ := List.mem_map.mp h
  obtain ⟨hp1, hp2⟩ := List.mem_filter.mp hp
  have := Bool.and_eq_true_iff.mp hp2
  exact ⟨p, hp1, by simpa using this.1, this.2, hv⟩

end LocksLemmas
end Nxs
