/-
  Helper lemmas for C13: the kernel-checked certificate of the computed reachable set and its
  lift to the inductive `Reach` (all call histories × all schedules, unbounded).
-/
import NxsModel.Worker
import NxsModel.Lemmas.WorkerCert11
import NxsModel.Lemmas.WorkerCert10
import NxsModel.Lemmas.WorkerCert01
import NxsModel.Lemmas.WorkerCert00
import NxsModel.Lemmas.WorkerCertC11
import NxsModel.Lemmas.WorkerCertC10
import NxsModel.Lemmas.WorkerCertC01
import NxsModel.Lemmas.WorkerCertC00
namespace Nxs.Worker
open Nxs.ThreadIR

/-! ### the certificate: `init ∈ R`, every state of `R` is safe, `R` is closed under `step`
    (one kernel evaluation per callback configuration, in `Lemmas/WorkerCert??.lean`;
    recomputed from the regenerated programs) -/

theorem cert (c : Cfg) : certified c (R c) = true := by
  match c with
  | ⟨true, true⟩ => exact cert_tt
  | ⟨true, false⟩ => exact cert_tf
  | ⟨false, true⟩ => exact cert_ft
  | ⟨false, false⟩ => exact cert_ff

/-- any set that passes the certificate contains every reachable state -/
theorem mem_of_certified {c : Cfg} {r : List State} (hc : certified c r = true) {s : State}
    (h : Reach c s) : s ∈ r := by
  simp only [certified, closed, Bool.and_eq_true, List.all_eq_true, List.contains_iff_mem] at hc
  induction h with
  | init => exact hc.1.1
  | step _ hs ih => exact hc.2 _ ih _ hs

/-- every reachable state satisfies all safety predicates -/
theorem reach_safe {c : Cfg} {s : State} (h : Reach c s) : safe c s = true := by
  have hc := cert c
  have hm := mem_of_certified hc h
  simp only [certified, Bool.and_eq_true, List.all_eq_true] at hc
  exact hc.1.2 s hm

/-- `safe` is the conjunction of the twelve predicates -/
theorem safe_parts {c : Cfg} {s : State} (h : safe c s = true) :
    ((workers s).all (okInitW c) = true ∧ (workers s).all (okFinalW c) = true ∧
     (workers s).all okPolledW = true) ∧
    (okStopped s = true ∧ okStartNoop c s = true ∧ okStopNoop c s = true ∧ okRestart c s = true) ∧
    (okAlive c s = true ∧ okSingle s = true ∧ okNoErr s = true ∧ okProgress c s = true ∧
     okStopReturns c s = true) := by
  simp only [safe, Bool.and_eq_true] at h
  obtain ⟨⟨⟨⟨⟨⟨⟨⟨⟨⟨⟨h1, h2⟩, h3⟩, h4⟩, h5⟩, h6⟩, h7⟩, h8⟩, h9⟩, h10⟩, h11⟩, h12⟩ := h
  exact ⟨⟨h1, h2, h3⟩, ⟨h4, h5, h6, h7⟩, ⟨h8, h9, h10, h11, h12⟩⟩

/-! ### runs -/

theorem Steps.reach {c : Cfg} {s t : State} (hs : Reach c s) (h : Steps c s t) : Reach c t := by
  induction h with
  | refl => exact hs
  | tail _ hu ih => exact Reach.step ih hu

theorem Steps.trans {c : Cfg} {s t u : State} (h1 : Steps c s t) (h2 : Steps c t u) : Steps c s u := by
  induction h2 with
  | refl => exact h1
  | tail _ hu ih => exact Steps.tail ih hu

theorem Steps.head {c : Cfg} {s t u : State} (h : t ∈ step c s) (h2 : Steps c t u) : Steps c s u :=
  Steps.trans (Steps.tail (Steps.refl s) h) h2

theorem ctlStep_mem_step {c : Cfg} {s : State} {p : Ev × State} (h : p ∈ ctlStep c s) :
    p.2 ∈ step c s := by
  simp only [step, stepL, List.map_append, List.map_map, List.mem_append, List.mem_map]
  exact Or.inl (Or.inl ⟨p, h, rfl⟩)

theorem curStep_mem_step {c : Cfg} {s : State} {p : Ev × State} (h : curStep c s = some p) :
    p.2 ∈ step c s := by
  simp only [step, stepL, List.map_append, List.map_map, List.mem_append, List.mem_map]
  refine Or.inl (Or.inr ⟨p, ?_, rfl⟩)
  simp [h]

theorem runCtl_steps {c : Cfg} : ∀ (n : Nat) {s s' : State}, runCtl c n s = some s' → Steps c s s' := by
  intro n
  induction n with
  | zero => intro s s' h; simp [runCtl] at h
  | succ n ih =>
    intro s s' h
    unfold runCtl at h
    split at h
    · cases h; exact Steps.refl _
    · split at h
      · next ev t heq =>
        have hm : (ev, t) ∈ ctlStep c s := by rw [heq]; simp
        exact Steps.head (ctlStep_mem_step hm) (ih h)
      · cases h

theorem runCall_steps {c : Cfg} {m : Meth} {s s' : State} (h : runCall c m s = some s') :
    Steps c s s' := by
  unfold runCall at h
  split at h
  · next hi =>
    have hm : (Ev.call m, { s with ctl := Ctl.run m 0 }) ∈ ctlStep c s := by
      unfold ctlStep; rw [hi]; cases m <;> simp
    exact Steps.head (ctlStep_mem_step hm) (runCtl_steps _ h)
  · cases h

theorem finishStop_steps {c : Cfg} : ∀ (n : Nat) {s : State}, finishStop c n s = true →
    ∃ s', Steps c s s' ∧ s'.ctl = .idle := by
  intro n
  induction n with
  | zero => intro s h; simp [finishStop] at h
  | succ n ih =>
    intro s h
    unfold finishStop at h
    split at h
    · next hi => exact ⟨s, Steps.refl _, hi⟩
    · split at h
      · next ev t rest heq =>
        have hm : (ev, t) ∈ ctlStep c s := by rw [heq]; simp
        obtain ⟨s', hs, hi⟩ := ih h
        exact ⟨s', Steps.head (ctlStep_mem_step hm) hs, hi⟩
      · split at h
        · next ev t heq =>
          obtain ⟨s', hs, hi⟩ := ih h
          exact ⟨s', Steps.head (curStep_mem_step (p := (ev, t)) heq) hs, hi⟩
        · cases h

theorem runPath_reach {c : Cfg} : ∀ (is : List Nat) {s s' : State}, Reach c s →
    runPath c is s = some s' → Reach c s' := by
  intro is
  induction is with
  | nil => intro s s' hs h; simp [runPath] at h; exact h ▸ hs
  | cons i is ih =>
    intro s s' hs h
    unfold runPath at h
    split at h
    · next t heq => exact ih (Reach.step hs (List.mem_of_getElem? heq)) h
    · cases h

/-- a concrete path (successor indices from the initial state) exhibits a reachable state -/
theorem reach_of_path {c : Cfg} {is : List Nat} {p : State → Bool}
    (h : (runPath c is init).any p = true) : ∃ s, Reach c s ∧ p s = true := by
  cases hr : runPath c is init with
  | none => simp [hr] at h
  | some s => exact ⟨s, runPath_reach is Reach.init hr, by simpa [hr] using h⟩

/-! ### the product with the history counters (`ReachC`, `RC`): certificate and lift -/

theorem certC (c : Cfg) : certifiedC c (RC c) = true := by
  match c with
  | ⟨true, true⟩ => exact certC_tt
  | ⟨true, false⟩ => exact certC_tf
  | ⟨false, true⟩ => exact certC_ft
  | ⟨false, false⟩ => exact certC_ff

/-- cutting the counters off before or after a step gives the same cut-off counters -/
theorem Calls.sat_upd_sat (ev : Ev) (g : Calls) : ((g.sat).upd ev).sat = (g.upd ev).sat := by
  cases ev <;> simp only [Calls.upd, Calls.sat, Calls.mk.injEq] <;> omega

/-- any set that passes the product certificate contains every reachable state together with its
    cut-off history counters -/
theorem memC_of_certified {c : Cfg} {r : List (State × Calls)} (hc : certifiedC c r = true)
    {s : State} {g : Calls} (h : ReachC c s g) : (s, g.sat) ∈ r := by
  simp only [certifiedC, Bool.and_eq_true, List.all_eq_true, List.contains_iff_mem] at hc
  induction h with
  | init => exact hc.1.1
  | @step s g p _ hp ih =>
    have := hc.2 _ ih (p.2.2, ((g.sat).upd p.2.1).sat)
      (by simp only [stepC, List.mem_map]; exact ⟨p, hp, rfl⟩)
    rwa [Calls.sat_upd_sat] at this

theorem reachC_okStopRet {c : Cfg} {s : State} {g : Calls} (h : ReachC c s g) :
    okStopRet c (s, g.sat) = true := by
  have hc := certC c
  have hm := memC_of_certified hc h
  simp only [certifiedC, Bool.and_eq_true, List.all_eq_true] at hc
  exact hc.1.2 _ hm

/-- forgetting the counters: a `ReachC` state is a `Reach` state -/
theorem ReachC.reach {c : Cfg} {s : State} {g : Calls} (h : ReachC c s g) : Reach c s := by
  induction h with
  | init => exact Reach.init
  | @step s g p _ hp ih =>
    exact Reach.step ih (by simp only [Nxs.Worker.step, List.mem_map]; exact ⟨p, hp, rfl⟩)

/-- every `Reach` state carries history counters -/
theorem Reach.exists_calls {c : Cfg} {s : State} (h : Reach c s) : ∃ g, ReachC c s g := by
  induction h with
  | init => exact ⟨_, ReachC.init⟩
  | step _ hs ih =>
    obtain ⟨g, hg⟩ := ih
    simp only [Nxs.Worker.step, List.mem_map] at hs
    obtain ⟨p, hp, rfl⟩ := hs
    exact ⟨_, ReachC.step hg hp⟩

theorem expected_le_one (b : Bool) : expected b ≤ 1 := by cases b <;> simp [expected]

/-- a state in which the controller's next step is the return of `thread_stop` has that labelled step -/
theorem stopReturns_step {c : Cfg} {s : State} (h : stopReturns c s = true) :
    ∃ v s', (Who.ctl, Ev.ret .stop v, s') ∈ stepL c s := by
  simp only [stopReturns, List.any_eq_true] at h
  obtain ⟨⟨ev, s'⟩, hp, hm⟩ := h
  have hin : (Who.ctl, ev, s') ∈ stepL c s := by
    simp only [stepL, List.mem_append, List.mem_map]
    exact Or.inl (Or.inl ⟨(ev, s'), hp, rfl⟩)
  match ev, hm, hin with
  | .ret .stop v, _, hin => exact ⟨v, s', hin⟩

/-- non-vacuity helper for `stop_returned_final_once`: a reachable state (given by a path) in which a
    stop call on a started worker is about to return yields the hypotheses of that theorem -/
theorem stop_return_exists {c : Cfg}
    (h : ∃ s, Reach c s ∧ (fun s => s.started && stopReturns c s) s = true) :
    ∃ s g v s', ReachC c s g ∧ s.started = true ∧ (Who.ctl, Ev.ret .stop v, s') ∈ stepL c s := by
  obtain ⟨s, hr, hp⟩ := h
  simp only [Bool.and_eq_true] at hp
  obtain ⟨g, hg⟩ := hr.exists_calls
  obtain ⟨v, s', hs'⟩ := stopReturns_step hp.2
  exact ⟨s, g, v, s', hg, hp.1, hs'⟩

end Nxs.Worker
