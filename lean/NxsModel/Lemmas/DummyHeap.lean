/- helper lemmas about the heap of the simulated devices (`Dummy.lean`): gather / scatter, the invariants of an
   op, separation of instances (C16) -/
import NxsModel.Dummy
namespace Nxs.Dummy
open Nxs

/-! ### gather / scatter -/

theorem gather_length (h : Heap) (addrs : List Nat) (hv : ∀ a ∈ addrs, a < h.length) :
    (gather h addrs).length = addrs.length := by
  induction addrs with
  | nil => rfl
  | cons a as ih =>
    have ha : a < h.length := hv a (by simp)
    simp only [gather, List.filterMap_cons, List.getElem?_eq_getElem ha, List.length_cons]
    have := ih (fun x hx => hv x (by simp [hx]))
    simp only [gather] at this
    rw [this]

@[simp] theorem scatter_length (h : Heap) (addrs : List Nat) (cs : List Chan) :
    (scatter h addrs cs).length = h.length := by
  induction addrs generalizing h cs with
  | nil => cases cs <;> rfl
  | cons a as ih =>
    cases cs with
    | nil => rfl
    | cons c cs => simp [scatter, ih]

/-- the frame property of an update: addresses outside the instance are not written -/
theorem scatter_getElem_of_not_mem (h : Heap) (addrs : List Nat) (cs : List Chan) (a : Nat) (ha : a ∉ addrs) :
    (scatter h addrs cs)[a]? = h[a]? := by
  induction addrs generalizing h cs with
  | nil => cases cs <;> rfl
  | cons x xs ih =>
    cases cs with
    | nil => rfl
    | cons c cs =>
      simp only [scatter]
      rw [ih (h.set x c) cs (fun hm => ha (by simp [hm]))]
      rw [List.getElem?_set_ne (fun e => ha (by simp [e]))]

theorem gather_congr (h h' : Heap) (addrs : List Nat) (hagree : ∀ a ∈ addrs, h'[a]? = h[a]?) :
    gather h' addrs = gather h addrs := by
  induction addrs with
  | nil => rfl
  | cons a as ih =>
    simp only [gather, List.filterMap_cons, hagree a (by simp)]
    have := ih (fun x hx => hagree x (by simp [hx]))
    simp only [gather] at this
    rw [this]

def Disjoint (a b : List Nat) : Prop := ∀ x ∈ a, x ∉ b

theorem Disjoint.symm {a b : List Nat} (h : Disjoint a b) : Disjoint b a :=
  fun x hb ha => h x ha hb

/-- objects of an instance disjoint from the updated one read the same before and after -/
theorem gather_scatter_disjoint (h : Heap) (A B : List Nat) (cs : List Chan) (hd : Disjoint A B) :
    gather (scatter h A cs) B = gather h B :=
  gather_congr _ _ _ fun a ha => scatter_getElem_of_not_mem h A cs a (fun hA => hd a hA ha)

/-- reading back what was written -/
theorem gather_scatter (h : Heap) (addrs : List Nat) (cs : List Chan) (hv : ∀ a ∈ addrs, a < h.length)
    (hn : addrs.Nodup) (hl : cs.length = addrs.length) : gather (scatter h addrs cs) addrs = cs := by
  induction addrs generalizing h cs with
  | nil => cases cs with
    | nil => rfl
    | cons _ _ => simp at hl
  | cons a as ih =>
    cases cs with
    | nil => simp at hl
    | cons c cs =>
      have ha : a ∉ as := (List.nodup_cons.mp hn).1
      have hn' : as.Nodup := (List.nodup_cons.mp hn).2
      simp only [scatter, gather, List.filterMap_cons]
      rw [scatter_getElem_of_not_mem _ as cs a ha]
      have hal : a < h.length := hv a (by simp)
      rw [List.getElem?_set_self (by simpa using hal)]
      have := ih (h.set a c) cs (fun x hx => by simpa using hv x (by simp [hx])) hn' (by simpa using hl)
      simp only [gather] at this
      rw [this]

/-! ### what an op on an instance never changes: the number of channel objects, the addresses -/

theorem applyEn_length (cs cs' : List Chan) (vs : List Bool) (h : applyEn cs vs = .ok cs') : cs'.length = cs.length := by
  induction cs generalizing vs cs' with
  | nil => cases vs with
    | nil => cases h; rfl
    | cons _ _ => cases h
  | cons c cs ih =>
    cases vs with
    | nil => cases h; rfl
    | cons v vs =>
      simp only [applyEn] at h
      cases hr : applyEn cs vs with
      | error e => rw [hr] at h; cases h
      | ok r => rw [hr] at h; cases h; simp [ih r vs hr]

theorem applyDiv_length (cs cs' : List Chan) (vs : List Int) (h : applyDiv cs vs = .ok cs') : cs'.length = cs.length := by
  induction cs generalizing vs cs' with
  | nil => cases vs with
    | nil => cases h; rfl
    | cons _ _ => cases h
  | cons c cs ih =>
    cases vs with
    | nil => cases h; rfl
    | cons v vs =>
      simp only [applyDiv] at h
      cases hr : applyDiv cs vs with
      | error e => rw [hr] at h; cases h
      | ok r => rw [hr] at h; cases h; simp [ih r vs hr]

/-- the invariant of every piece of an op -/
def Keeps (cs : List Chan) (i : Inst) (cs' : List Chan) (i' : Inst) : Prop :=
  cs'.length = cs.length ∧ i'.addrs = i.addrs

theorem Keeps.refl (cs : List Chan) (i : Inst) : Keeps cs i cs i := ⟨rfl, rfl⟩

theorem Keeps.trans {cs i cs1 i1 cs2 i2} (h1 : Keeps cs i cs1 i1) (h2 : Keeps cs1 i1 cs2 i2) : Keeps cs i cs2 i2 :=
  ⟨h2.1.trans h1.1, h2.2.trans h1.2⟩

theorem callback_length (cs : List Chan) (i : Inst) (cb : Nat) (p : Bytes) (cs' : List Chan) (fl : Bool)
    (out : List Bytes) (h : callback cs i cb p = .ok (cs', fl, out)) : cs'.length = cs.length := by
  unfold callback at h
  split at h
  · cases hx : Info.cmninfoEncode i.chmax i.flags i.rxp with
    | error e => rw [hx] at h; cases h
    | ok b => rw [hx] at h; cases h; rfl
  · split at h
    · cases h
    · split at h
      · cases h
      · rename_i ch _
        cases hx : Info.chinfoEncode ch.cfg with
        | error e => rw [hx] at h; cases h
        | ok b => rw [hx] at h; cases h; rfl
  · cases h1 : Requests.frameEnableDecode p i.chmax (ensOf cs) with
    | error e => rw [h1] at h; cases h
    | ok ens =>
      rw [h1] at h
      simp only [Except.bind] at h
      cases h2 : applyEn cs ens with
      | error e => rw [h2] at h; cases h
      | ok r =>
        rw [h2] at h
        simp only at h
        cases h3 : ackIf i Gen.Dummy.ackGuardEnable with
        | error e => rw [h3] at h; cases h
        | ok o => rw [h3] at h; cases h; exact applyEn_length _ _ _ h2
  · cases h1 : Requests.frameDivDecode p i.chmax (divsOf cs) with
    | error e => rw [h1] at h; cases h
    | ok ds =>
      rw [h1] at h
      simp only [Except.bind] at h
      cases h2 : applyDiv cs ds with
      | error e => rw [h2] at h; cases h
      | ok r =>
        rw [h2] at h
        simp only at h
        cases h3 : ackIf i Gen.Dummy.ackGuardDiv with
        | error e => rw [h3] at h; cases h
        | ok o => rw [h3] at h; cases h; exact applyDiv_length _ _ _ h2
  · cases h1 : Requests.frameStartDecode p with
    | error e => rw [h1] at h; cases h
    | ok b =>
      rw [h1] at h
      simp only [Except.bind] at h
      cases h3 : ackIf i Gen.Dummy.ackGuardStart with
      | error e => rw [h3] at h; cases h
      | ok o => rw [h3] at h; cases h; rfl
  · cases h

theorem handle_keeps (cs : List Chan) (i : Inst) (d : Bytes) :
    Keeps cs i (handle cs i d).1 (handle cs i d).2.1 := by
  unfold handle
  split
  · exact Keeps.refl _ _
  · exact ⟨rfl, rfl⟩
  · rename_i cb p _
    cases hc : callback cs i cb p with
    | error e => exact ⟨rfl, rfl⟩
    | ok r =>
      obtain ⟨cs', fl, out⟩ := r
      exact ⟨callback_length cs i cb p cs' fl out hc, rfl⟩

theorem recvStep_keeps (cs : List Chan) (i : Inst) :
    Keeps cs i (recvStep cs i).1 (recvStep cs i).2.1 := by
  unfold recvStep
  split
  · exact Keeps.refl _ _
  · split
    · exact Keeps.refl _ _
    · rename_i d rest _
      exact handle_keeps cs { i with qwrite := rest } d

theorem roundGet_length (cs : List Chan) (k : Nat) : (roundGet cs k).1.length = cs.length := by
  induction cs generalizing k with
  | nil => rfl
  | cons c cs ih =>
    unfold roundGet
    split
    · cases hd : c.dataGet with
      | mk c' r =>
        cases hr : roundGet cs (k + 1) with
        | mk cs' rest =>
          have := ih (k + 1)
          rw [hr] at this
          cases r with
          | none => simpa using this
          | some dm => cases dm; simpa using this
    · cases hr : roundGet cs (k + 1) with
      | mk cs' rest =>
        have := ih (k + 1)
        rw [hr] at this
        simpa using this

theorem dataGet_succ_fst (cs : List Chan) (n : Nat) :
    (dataGet cs (n + 1)).1 = (dataGet (roundGet cs 0).1 n).1 := rfl

theorem dataGet_length' (cs : List Chan) (n : Nat) : (dataGet cs n).1.length = cs.length := by
  induction n generalizing cs with
  | zero => rfl
  | succ n ih => rw [dataGet_succ_fst, ih, roundGet_length]

theorem produce_keeps (cs : List Chan) (i : Inst) :
    Keeps cs i (produce cs i).1 (produce cs i).2.1 := by
  unfold produce
  cases hd : dataGet cs i.snum with
  | mk cs' ss =>
    have hl : cs'.length = cs.length := by have := dataGet_length' cs i.snum; rw [hd] at this; exact this
    simp only
    split <;> exact ⟨hl, rfl⟩

theorem streamStep_keeps (cs : List Chan) (i : Inst) :
    Keeps cs i (streamStep cs i).1 (streamStep cs i).2.1 := by
  unfold streamStep
  split
  · exact Keeps.refl _ _
  · split
    · exact Keeps.refl _ _
    · exact produce_keeps cs i

theorem stopStream_keeps (fuel : Nat) (cs : List Chan) (i : Inst) :
    Keeps cs i (stopStream fuel cs i).1 (stopStream fuel cs i).2.1 := by
  induction fuel generalizing cs i with
  | zero => exact ⟨rfl, rfl⟩
  | succ fuel ih =>
    unfold stopStream
    split
    · exact ⟨rfl, rfl⟩
    · split
      · have := produce_keeps cs i
        exact ⟨this.1, this.2⟩
      · split
        · have h1 := recvStep_keeps cs i
          have h2 := ih (recvStep cs i).1 (recvStep cs i).2.1
          exact ⟨h2.1.trans h1.1, h2.2.trans h1.2⟩
        · exact ⟨rfl, rfl⟩

theorem stop_keeps (cs : List Chan) (i : Inst) : Keeps cs i (stop cs i).1 (stop cs i).2.1 := by
  unfold stop
  have h1 := stopStream_keeps (i.qwrite.length + 1) cs i
  have h2 := recvStep_keeps (stopStream (i.qwrite.length + 1) cs i).1 (stopStream (i.qwrite.length + 1) cs i).2.1
  exact ⟨h2.1.trans h1.1, h2.2.trans h1.2⟩

theorem start_keeps (cs : List Chan) (i : Inst) : Keeps cs i (start cs i).1 (start cs i).2 := by
  unfold start
  refine ⟨?_, rfl⟩
  simp only
  split
  · simp [resetAll]
  · rfl

theorem step_keeps (cs : List Chan) (i : Inst) (op : Op) :
    Keeps cs i (step cs i op).1 (step cs i op).2.1 := by
  cases op with
  | write d => exact ⟨rfl, rfl⟩
  | recvStep => exact recvStep_keeps cs i
  | streamStep => exact streamStep_keeps cs i
  | read =>
    simp only [step]
    split <;> exact ⟨rfl, rfl⟩
  | start => exact start_keeps cs i
  | stop => exact stop_keeps cs i


/-! ### worlds -/

/-- the addresses of an instance are valid and pairwise different (one `Device` cannot hold the same
    channel object twice: `Device.__init__` asserts unique channel ids) -/
structure InstOk (h : Heap) (i : Inst) : Prop where
  valid : ∀ a ∈ i.addrs, a < h.length
  nodup : i.addrs.Nodup

/-- every instance is well formed and no two instances share a channel object -/
structure World.Sep (w : World) : Prop where
  ok : ∀ (k : Nat) (i : Inst), w.insts[k]? = some i → InstOk w.heap i
  disj : ∀ (j k : Nat) (ij ik : Inst), j ≠ k → w.insts[j]? = some ij → w.insts[k]? = some ik → Disjoint ij.addrs ik.addrs

/-- one op on instance `k`, seen from instance `k`: it is the op on the instance's own channel objects -/
theorem World.step_local (w : World) (k : Nat) (op : Op) (i : Inst) (hi : w.insts[k]? = some i) (hok : InstOk w.heap i) :
    (w.step k op).2 = (Dummy.step (gather w.heap i.addrs) i op).2.2 ∧
    (w.step k op).1.insts[k]? = some (Dummy.step (gather w.heap i.addrs) i op).2.1 ∧
    gather (w.step k op).1.heap i.addrs = (Dummy.step (gather w.heap i.addrs) i op).1 ∧
    (w.step k op).1.heap.length = w.heap.length := by
  unfold World.step
  rw [hi]
  have hk := step_keeps (gather w.heap i.addrs) i op
  refine ⟨rfl, ?_, ?_, ?_⟩
  · have : k < w.insts.length := by
      rcases Nat.lt_or_ge k w.insts.length with h | h
      · exact h
      · rw [List.getElem?_eq_none h] at hi; cases hi
    simp [List.getElem?_set_self this]
  · exact gather_scatter _ _ _ hok.valid hok.nodup (hk.1.trans (gather_length _ _ hok.valid))
  · simp

/-- **frame rule**, one op: an op on instance `k` leaves instance `j` and the channel objects of `j` as they
    were, when `j` shares no object with `k` -/
theorem World.step_frame (w : World) (j k : Nat) (op : Op) (ij : Inst) (hjk : j ≠ k)
    (hj : w.insts[j]? = some ij)
    (hd : ∀ ik, w.insts[k]? = some ik → Disjoint ik.addrs ij.addrs) :
    (w.step k op).1.insts[j]? = some ij ∧ gather (w.step k op).1.heap ij.addrs = gather w.heap ij.addrs := by
  unfold World.step
  cases hk : w.insts[k]? with
  | none => exact ⟨hj, rfl⟩
  | some ik =>
    refine ⟨?_, ?_⟩
    · simp only
      rw [List.getElem?_set_ne (Ne.symm hjk)]; exact hj
    · exact gather_scatter_disjoint _ _ _ _ (hd ik hk)

/-- an op keeps the addresses of every instance and the size of the heap, hence `Sep` -/
theorem World.step_insts (w : World) (k : Nat) (op : Op) (j : Nat) :
    ((w.step k op).1.insts[j]?).map Inst.addrs = (w.insts[j]?).map Inst.addrs ∧
    (w.step k op).1.heap.length = w.heap.length := by
  unfold World.step
  cases hk : w.insts[k]? with
  | none => exact ⟨rfl, rfl⟩
  | some ik =>
    have hkeep := step_keeps (gather w.heap ik.addrs) ik op
    refine ⟨?_, by simp⟩
    simp only
    by_cases hjk : j = k
    · subst hjk
      have : j < w.insts.length := by
        rcases Nat.lt_or_ge j w.insts.length with h | h
        · exact h
        · rw [List.getElem?_eq_none h] at hk; cases hk
      rw [List.getElem?_set_self this, hk]
      simp [hkeep.2]
    · rw [List.getElem?_set_ne (Ne.symm hjk)]

theorem World.step_sep (w : World) (k : Nat) (op : Op) (h : w.Sep) : (w.step k op).1.Sep := by
  have key : ∀ (j : Nat) (i' : Inst), (w.step k op).1.insts[j]? = some i' → ∃ i : Inst, w.insts[j]? = some i ∧ i.addrs = i'.addrs := by
    intro j i' hi'
    have := (w.step_insts k op j).1
    rw [hi'] at this
    cases hj : w.insts[j]? with
    | none => rw [hj] at this; cases this
    | some i => rw [hj] at this; exact ⟨i, rfl, by simpa using this.symm⟩
  have hlen := (w.step_insts k op 0).2
  constructor
  · intro j i' hi'
    obtain ⟨i, hi, ha⟩ := key j i' hi'
    have := h.ok j i hi
    exact ⟨by rw [← ha, hlen]; exact this.valid, by rw [← ha]; exact this.nodup⟩
  · intro j l ij il hjl hj hl
    obtain ⟨i1, h1, a1⟩ := key j ij hj
    obtain ⟨i2, h2, a2⟩ := key l il hl
    rw [← a1, ← a2]
    exact h.disj j l i1 i2 hjl h1 h2

/-- worlds that can exist: the module state, instances created from the defaults or from separately built
    channel lists, any op on any instance -/
inductive Built : World → Prop
  | init : Built World.init
  | newDefault {w} (flags rxp snum wpad : Nat) : Built w → Built (w.newDefault flags rxp snum wpad)
  | newCustom {w} (chans : List Chan) (flags rxp snum wpad : Nat) : Built w → Built (w.newCustom chans flags rxp snum wpad)
  | step {w} (k : Nat) (op : Op) : Built w → Built (w.step k op).1

theorem freshAddrs_mem (h : Heap) (n a : Nat) : a ∈ freshAddrs h n ↔ h.length ≤ a ∧ a < h.length + n := by
  simp only [freshAddrs, List.mem_map, List.mem_range]
  constructor
  · rintro ⟨x, hx, rfl⟩; omega
  · intro ⟨h1, h2⟩; exact ⟨a - h.length, by omega, by omega⟩

theorem freshAddrs_nodup (h : Heap) (n : Nat) : (freshAddrs h n).Nodup := by
  unfold freshAddrs
  show List.Pairwise (· ≠ ·) _
  exact List.Pairwise.map _ (fun a b hab => by omega) List.nodup_range

/-- adding an instance whose objects are freshly allocated keeps the world separated -/
theorem Sep_alloc (w : World) (objs : List Chan) (flags rxp snum wpad : Nat) (h : w.Sep) :
    World.Sep ⟨w.heap ++ objs, w.insts ++ [newInst (freshAddrs w.heap objs.length) flags rxp snum wpad]⟩ := by
  have hget : ∀ j i, (w.insts ++ [newInst (freshAddrs w.heap objs.length) flags rxp snum wpad])[j]? = some i →
      (w.insts[j]? = some i ∧ j < w.insts.length) ∨
      (j = w.insts.length ∧ i = newInst (freshAddrs w.heap objs.length) flags rxp snum wpad) := by
    intro j i hj
    rcases Nat.lt_or_ge j w.insts.length with hlt | hge
    · left; rw [List.getElem?_append_left hlt] at hj; exact ⟨hj, hlt⟩
    · right
      rw [List.getElem?_append_right hge] at hj
      cases hjj : j - w.insts.length with
      | zero => rw [hjj] at hj; simp at hj; exact ⟨by omega, hj.symm⟩
      | succ m => rw [hjj] at hj; simp at hj
  have hnew : (newInst (freshAddrs w.heap objs.length) flags rxp snum wpad).addrs = freshAddrs w.heap objs.length := rfl
  constructor
  · intro j i hj
    rcases hget j i hj with ⟨h1, _⟩ | ⟨_, rfl⟩
    · have := h.ok j i h1
      exact ⟨fun a ha => by have := this.valid a ha; simp; omega, this.nodup⟩
    · refine ⟨fun a ha => ?_, by rw [hnew]; exact freshAddrs_nodup _ _⟩
      rw [hnew, freshAddrs_mem] at ha
      simp; omega
  · intro j k ij ik hjk hj hk
    rcases hget j ij hj with ⟨h1, l1⟩ | ⟨e1, rfl⟩ <;> rcases hget k ik hk with ⟨h2, l2⟩ | ⟨e2, rfl⟩
    · exact h.disj j k ij ik hjk h1 h2
    · intro a ha hb
      rw [hnew, freshAddrs_mem] at hb
      have := (h.ok j ij h1).valid a ha
      omega
    · intro a ha hb
      rw [hnew, freshAddrs_mem] at ha
      have := (h.ok k ik h2).valid a hb
      omega
    · omega

theorem Sep_init : World.init.Sep :=
  ⟨fun k i h => by simp [World.init] at h, fun j k ij ik _ h => by simp [World.init] at h⟩

/-- **separation**: with the per-instance copy of the default channels, instances created from the defaults or
    from separately built lists never share a channel object — an invariant of every op of every instance -/
theorem Built.sep (hc : Gen.Dummy.defaultCopied = true) {w : World} (hb : Built w) : w.Sep := by
  induction hb with
  | init => exact Sep_init
  | newDefault flags rxp snum wpad _ ih =>
    unfold World.newDefault
    rw [if_pos hc]
    exact Sep_alloc _ _ flags rxp snum wpad ih
  | newCustom chans flags rxp snum wpad _ ih =>
    unfold World.newCustom
    cases chans with
    | nil =>
      simp only
      unfold World.newDefault
      rw [if_pos hc]
      exact Sep_alloc _ _ flags rxp snum wpad ih
    | cons c cs => exact Sep_alloc _ _ flags rxp snum wpad ih
  | step k op _ ih => exact World.step_sep _ k op ih

/-- without the copy, two default instances are the *same* channel objects -/
theorem aliasing (hc : Gen.Dummy.defaultCopied = false) (w : World) (f1 r1 s1 p1 f2 r2 s2 p2 : Nat) :
    let w2 := (w.newDefault f1 r1 s1 p1).newDefault f2 r2 s2 p2
    ∃ a b, w2.insts[w.insts.length]? = some a ∧ w2.insts[w.insts.length + 1]? = some b ∧ a.addrs = b.addrs := by
  simp only [World.newDefault, hc, Bool.false_eq_true, if_false]
  refine ⟨newInst (List.range nDefault) f1 r1 s1 p1, newInst (List.range nDefault) f2 r2 s2 p2, ?_, ?_, rfl⟩
  · simp
  · simp

/-! ### histories on one instance of a world -/

/-- the ops `ops` applied to instance `k` -/
def World.runOn (w : World) (k : Nat) (ops : List Op) : World × List Obs := w.run (ops.map fun op => (k, op))

theorem World.runOn_cons (w : World) (k : Nat) (op : Op) (ops : List Op) :
    w.runOn k (op :: ops) = (((w.step k op).1.runOn k ops).1, (w.step k op).2 :: ((w.step k op).1.runOn k ops).2) := rfl

/-- a history on instance `k` is the history on its own channel objects: what is observed depends on nothing else -/
theorem World.runOn_local (w : World) (k : Nat) (ops : List Op) (i : Inst) (hi : w.insts[k]? = some i)
    (hok : InstOk w.heap i) :
    (w.runOn k ops).2 = (Dummy.run (gather w.heap i.addrs) i ops).2.2 := by
  induction ops generalizing w i with
  | nil => rfl
  | cons op ops ih =>
    rw [World.runOn_cons]
    obtain ⟨h1, h2, h3, h4⟩ := w.step_local k op i hi hok
    have hkeep := step_keeps (gather w.heap i.addrs) i op
    have hok' : InstOk (w.step k op).1.heap (Dummy.step (gather w.heap i.addrs) i op).2.1 :=
      ⟨by rw [hkeep.2, h4]; exact hok.valid, by rw [hkeep.2]; exact hok.nodup⟩
    have := ih (w.step k op).1 _ h2 hok'
    rw [hkeep.2, h3] at this
    simp only [this, h1]
    rfl

/-- **frame rule**, histories: any history on instance `k` leaves instance `j` and its channel objects unchanged -/
theorem World.runOn_frame (w : World) (j k : Nat) (ops : List Op) (ij : Inst) (hjk : j ≠ k) (hs : w.Sep)
    (hj : w.insts[j]? = some ij) :
    (w.runOn k ops).1.Sep ∧ (w.runOn k ops).1.insts[j]? = some ij ∧
    gather (w.runOn k ops).1.heap ij.addrs = gather w.heap ij.addrs := by
  induction ops generalizing w with
  | nil => exact ⟨hs, hj, rfl⟩
  | cons op ops ih =>
    rw [World.runOn_cons]
    have hf := w.step_frame j k op ij hjk hj (fun ik hk => hs.disj k j ik ij (Ne.symm hjk) hk hj)
    have hs' := w.step_sep k op hs
    obtain ⟨a, b, c⟩ := ih (w.step k op).1 hs' hf.1
    exact ⟨a, b, c.trans hf.2⟩


/-! ### interleaved histories on several instances -/

/-- the ops of an interleaved history that address instance `j`, in order -/
def projOps (j : Nat) (h : List (Nat × Op)) : List Op := h.filterMap fun p => if p.1 = j then some p.2 else none

/-- what instance `j` lets a client observe during an interleaved history (ops on any instances, in any order) -/
def World.obsFor (w : World) (j : Nat) : List (Nat × Op) → List Obs
  | [] => []
  | (k, op) :: rest =>
    if k = j then (w.step k op).2 :: (w.step k op).1.obsFor j rest else (w.step k op).1.obsFor j rest

/-- **frame rule**, interleaved histories: what instance `j` lets a client observe is the history of its OWN ops on its
    own channel objects — the ops on other instances in between change nothing -/
theorem World.obsFor_local (w : World) (hs : w.Sep) (j : Nat) (h : List (Nat × Op)) (ij : Inst) (hj : w.insts[j]? = some ij) :
    w.obsFor j h = (Dummy.run (gather w.heap ij.addrs) ij (projOps j h)).2.2 := by
  induction h generalizing w ij with
  | nil => rfl
  | cons p rest ih =>
    obtain ⟨k, op⟩ := p
    have hs' := w.step_sep k op hs
    by_cases hk : k = j
    · subst hk
      have hok := hs.ok k ij hj
      obtain ⟨h1, h2, h3, h4⟩ := w.step_local k op ij hj hok
      have hkeep := step_keeps (gather w.heap ij.addrs) ij op
      have := ih (w.step k op).1 hs' _ h2
      rw [hkeep.2, h3] at this
      simp only [World.obsFor, if_true, projOps, List.filterMap_cons, this, h1]
      rfl
    · have hf := w.step_frame j k op ij (fun e => hk e.symm) hj (fun ik hik => hs.disj k j ik ij hk hik hj)
      have := ih (w.step k op).1 hs' ij hf.1
      rw [hf.2] at this
      simp only [World.obsFor, if_neg hk, projOps, List.filterMap_cons, this]

/-! ### restart: generator state -/

/-- the channel object is in the state `DeviceChannel.reset()` leaves it in: the attached function reset (for
    functions without state: nothing to say) and the call counter handed to `func.get()` back at 0 -/
def Chan.GenFresh (c : Chan) : Prop := c.reset = c

theorem genReset_idem (c : Chan) : genReset (genReset c) = genReset c := by
  cases c with
  | mk en type vdim div mlen name gen cntr sign calls =>
    cases gen with
    | none => rfl
    | some k =>
      rcases k with _|_|_|_|_|_|_|_|_|_|_|k <;> rfl

theorem genReset_calls (c : Chan) (n : Nat) : genReset { c with calls := n } = { genReset c with calls := n } := by
  cases c with
  | mk en type vdim div mlen name gen cntr sign calls =>
    cases gen with
    | none => rfl
    | some k =>
      rcases k with _|_|_|_|_|_|_|_|_|_|_|k <;> rfl

theorem reset_idem (c : Chan) : c.reset.reset = c.reset := by
  unfold Chan.reset
  split
  · rw [genReset_calls, genReset_idem]
  · exact genReset_idem c

theorem reset_fresh (c : Chan) : c.reset.GenFresh := reset_idem c

theorem genReset_calls_eq (c : Chan) : (genReset c).calls = c.calls := by
  cases c with
  | mk en type vdim div mlen name gen cntr sign calls =>
    cases gen with
    | none => rfl
    | some k =>
      rcases k with _|_|_|_|_|_|_|_|_|_|_|k <;> rfl

/-- `reset()` zeroes the call counter (with the repaired `DeviceChannel.reset`) -/
theorem reset_calls (hz : Gen.Dummy.resetZeroesCalls = true) (c : Chan) : c.reset.calls = 0 := by
  unfold Chan.reset
  rw [if_pos hz]

/-- what `GenFresh` says per function: counters back at 0, ChannelFunc2's direction back at +1 — and, for every
    channel object, the call counter back at 0 -/
theorem GenFresh_iff (hz : Gen.Dummy.resetZeroesCalls = true) (c : Chan) :
    c.GenFresh ↔ ((c.gen = some 1 ∨ c.gen = some 6 ∨ c.gen = some 7 ∨ c.gen = some 9 ∨ c.gen = some 10 → c.cntr = 0) ∧
      (c.gen = some 2 → c.cntr = 0 ∧ c.sign = 1) ∧ c.calls = 0) := by
  unfold Chan.GenFresh Chan.reset
  rw [if_pos hz]
  unfold genReset
  cases c with
  | mk en type vdim div mlen name gen cntr sign calls =>
    cases gen with
    | none => simp; omega
    | some k =>
      rcases k with _|_|_|_|_|_|_|_|_|_|_|k <;> simp <;> omega

theorem start_fresh (hr : Gen.Dummy.startResets = true) (cs : List Chan) (i : Inst) :
    ∀ c ∈ (start cs i).1, c.GenFresh := by
  intro c hc
  simp only [start, hr, if_true, resetAll, List.mem_map] at hc
  obtain ⟨c0, _, rfl⟩ := hc
  exact reset_fresh c0

/-- the outputs of `n` successive `data_get()` calls -/
def Chan.outputs (c : Chan) : Nat → List (Option (List PyVal × List Int))
  | 0 => []
  | n + 1 => c.dataGet.2 :: (c.dataGet.1).outputs n

/-- same function, same dimension, same function state, same call counter -/
def SameGen (c d : Chan) : Prop :=
  c.gen = d.gen ∧ c.vdim = d.vdim ∧ c.calls = d.calls ∧
  (c.gen = some 1 ∨ c.gen = some 6 ∨ c.gen = some 7 ∨ c.gen = some 9 ∨ c.gen = some 10 → c.cntr = d.cntr) ∧
  (c.gen = some 2 → c.cntr = d.cntr ∧ c.sign = d.sign)

theorem SameGen.step {c d : Chan} (h : SameGen c d) :
    c.dataGet.2 = d.dataGet.2 ∧ SameGen c.dataGet.1 d.dataGet.1 := by
  obtain ⟨hg, hv, hcl, h1, h2⟩ := h
  cases c with
  | mk en type vdim div mlen name gen cntr sign calls =>
    cases d with
    | mk en' type' vdim' div' mlen' name' gen' cntr' sign' calls' =>
      simp only at hg hv hcl h1 h2
      subst hg hv hcl
      cases gen with
      | none => simp [Chan.dataGet, SameGen]
      | some k =>
        rcases k with _|_|_|_|_|_|_|_|_|_|_|_|_|k <;>
          simp_all [Chan.dataGet, SameGen, genGet] <;> (try split) <;> simp

theorem SameGen.outputs {c d : Chan} (h : SameGen c d) (n : Nat) : c.outputs n = d.outputs n := by
  induction n generalizing c d with
  | zero => rfl
  | succ n ih =>
    simp only [Chan.outputs]
    rw [h.step.1, ih h.step.2]

/-- a channel object in its reset state produces the sequence of a newly created one (function state initial, call
    counter 0) -/
theorem GenFresh.outputs (hz : Gen.Dummy.resetZeroesCalls = true) {c : Chan} (h : c.GenFresh) (n : Nat) :
    c.outputs n = ({ c with cntr := 0, sign := 1, calls := 0 } : Chan).outputs n := by
  apply SameGen.outputs
  have := (GenFresh_iff hz c).mp h
  refine ⟨rfl, rfl, this.2.2, fun hk => this.1 hk, fun hk => this.2.1 hk⟩

/-! ### the user-defined functions that read the call index: closed forms -/

/-- kind 11 (`get(cntr) -> (cntr,) * vdim`): the outputs of `n` successive calls are the call indices
    `calls, calls + 1, …` — each once, none skipped -/
theorem outputs_callidx (c : Chan) (h : c.gen = some 11) (n : Nat) :
    c.outputs n = (List.range n).map fun j => some (List.replicate c.vdim (PyVal.int ((c.calls + j : Nat) : Int)), []) := by
  induction n generalizing c with
  | zero => rfl
  | succ n ih =>
    have hd : c.dataGet = ({ c with calls := c.calls + 1 }, some (List.replicate c.vdim (PyVal.int (c.calls : Int)), [])) := by
      unfold Chan.dataGet
      rw [h]
      rfl
    simp only [Chan.outputs, hd, List.range_succ_eq_map, List.map_cons, List.map_map, Nat.add_zero]
    rw [ih { c with calls := c.calls + 1 } h]
    congr 1
    apply List.map_congr_left
    intro j _
    simp only [Function.comp]
    congr 4
    omega

/-- kind 12 (sparse): call number `k` yields a sample iff `k % 3 = 0`, the value is `k`; the counter advances on
    every call, also when the function returned `None` -/
theorem outputs_sparse (c : Chan) (h : c.gen = some 12) (n : Nat) :
    c.outputs n = (List.range n).map fun j =>
      if (c.calls + j) % 3 = 0 then some (List.replicate c.vdim (PyVal.int ((c.calls + j : Nat) : Int)), []) else none := by
  induction n generalizing c with
  | zero => rfl
  | succ n ih =>
    have hd : c.dataGet = ({ c with calls := c.calls + 1 },
        if c.calls % 3 = 0 then some (List.replicate c.vdim (PyVal.int (c.calls : Int)), []) else none) := by
      unfold Chan.dataGet
      rw [h]
      rfl
    simp only [Chan.outputs, hd, List.range_succ_eq_map, List.map_cons, List.map_map, Nat.add_zero]
    rw [ih { c with calls := c.calls + 1 } h]
    congr 1
    apply List.map_congr_left
    intro j _
    simp only [Function.comp]
    rw [show c.calls + 1 + j = c.calls + (j + 1) by omega]

/-! ### the module-level default objects stay pristine -/

/-- the module-level default channel objects (addresses `0 … nDefault - 1`) are as at import time, and no instance
    holds one of them -/
def Pristine (w : World) : Prop :=
  nDefault ≤ w.heap.length ∧ w.heap.take nDefault = defaultObjs ∧
  ∀ (k : Nat) (i : Inst), w.insts[k]? = some i → ∀ a ∈ i.addrs, nDefault ≤ a

theorem Pristine_init : Pristine World.init :=
  ⟨Nat.le_refl _, List.take_length, fun k i h => by simp [World.init] at h⟩

/-- allocating fresh objects for a new instance keeps the defaults pristine -/
theorem Pristine_alloc (w : World) (objs : List Chan) (flags rxp snum wpad : Nat) (h : Pristine w) :
    Pristine ⟨w.heap ++ objs, w.insts ++ [newInst (freshAddrs w.heap objs.length) flags rxp snum wpad]⟩ := by
  obtain ⟨h1, h2, h3⟩ := h
  refine ⟨by simp only [List.length_append]; omega, ?_, ?_⟩
  · show (w.heap ++ objs).take nDefault = defaultObjs
    rw [List.take_append_of_le_length h1]; exact h2
  · intro k i hk a ha
    rcases Nat.lt_or_ge k w.insts.length with hlt | hge
    · rw [List.getElem?_append_left hlt] at hk
      exact h3 k i hk a ha
    · rw [List.getElem?_append_right hge] at hk
      cases hkk : k - w.insts.length with
      | zero =>
        rw [hkk] at hk
        simp only [List.getElem?_cons_zero, Option.some.injEq] at hk
        subst hk
        have := (freshAddrs_mem w.heap objs.length a).mp ha
        omega
      | succ m => rw [hkk] at hk; simp at hk

/-- an op on an instance writes only at the instance's addresses: the defaults stay pristine -/
theorem Pristine_step (w : World) (k : Nat) (op : Op) (h : Pristine w) : Pristine (w.step k op).1 := by
  obtain ⟨h1, h2, h3⟩ := h
  have hlen := (w.step_insts k op 0).2
  refine ⟨by rw [hlen]; exact h1, ?_, ?_⟩
  · rw [← h2]
    unfold World.step
    cases hk : w.insts[k]? with
    | none => rfl
    | some ik =>
      simp only
      apply List.ext_getElem?
      intro j
      rw [List.getElem?_take, List.getElem?_take]
      by_cases hj : j < nDefault
      · rw [if_pos hj, if_pos hj]
        exact scatter_getElem_of_not_mem _ _ _ j (fun hm => by have := h3 k ik hk j hm; omega)
      · rw [if_neg hj, if_neg hj]
  · intro j i' hj a ha
    have := (w.step_insts k op j).1
    rw [hj] at this
    cases hw : w.insts[j]? with
    | none => rw [hw] at this; cases this
    | some i =>
      rw [hw] at this
      simp only [Option.map_some, Option.some.injEq] at this
      exact h3 j i hw a (by rw [← this]; exact ha)

/-- **the default objects stay pristine**: with the per-instance copy of the default channel list, in every world that
    can exist the module-level objects are as at import time and belong to no instance -/
theorem Built.pristine (hc : Gen.Dummy.defaultCopied = true) {w : World} (hb : Built w) : Pristine w := by
  induction hb with
  | init => exact Pristine_init
  | newDefault flags rxp snum wpad _ ih =>
    unfold World.newDefault
    rw [if_pos hc]
    exact Pristine_alloc _ _ flags rxp snum wpad ih
  | newCustom chans flags rxp snum wpad _ ih =>
    unfold World.newCustom
    cases chans with
    | nil =>
      simp only
      unfold World.newDefault
      rw [if_pos hc]
      exact Pristine_alloc _ _ flags rxp snum wpad ih
    | cons c cs => exact Pristine_alloc _ _ flags rxp snum wpad ih
  | step k op _ ih => exact Pristine_step _ k op ih

/-- reading the freshly allocated objects back -/
theorem filterMap_getElem?_range (l : List Chan) (n : Nat) (hn : n ≤ l.length) :
    (List.range n).filterMap (l[·]?) = l.take n := by
  induction n with
  | zero => rfl
  | succ n ih =>
    rw [List.range_succ, List.filterMap_append, ih (by omega), List.take_add_one,
      List.getElem?_eq_getElem (by omega)]
    simp [List.getElem?_eq_getElem (show n < l.length by omega)]

theorem gather_fresh (h : Heap) (objs : List Chan) : gather (h ++ objs) (freshAddrs h objs.length) = objs := by
  unfold gather freshAddrs
  rw [List.filterMap_map]
  have : ((fun x => (h ++ objs)[x]?) ∘ fun x => h.length + x) = fun j => objs[j]? := by
    funext j
    simp only [Function.comp]
    rw [List.getElem?_append_right (by omega)]
    congr 1
    omega
  rw [this, filterMap_getElem?_range objs objs.length (Nat.le_refl _), List.take_length]

/-- what `DummyDev()` creates in a world whose defaults are pristine: a new last instance at fresh addresses whose
    channel objects are copies of the import-time defaults -/
theorem newDefault_pristine (hc : Gen.Dummy.defaultCopied = true) (w : World) (hp : Pristine w) (flags rxp snum wpad : Nat) :
    w.newDefault flags rxp snum wpad =
      ⟨w.heap ++ defaultObjs, w.insts ++ [newInst (freshAddrs w.heap nDefault) flags rxp snum wpad]⟩ := by
  unfold World.newDefault
  rw [if_pos hc]
  simp only [hp.2.1]
  rfl

/-! ### an op reads the address list of its instance only through its length -/

/-- the same instance holding other addresses -/
def Inst.withAddrs (i : Inst) (a : List Nat) : Inst := { i with addrs := a }

theorem callback_withAddrs (cs : List Chan) (i : Inst) (a : List Nat) (cb : Nat) (p : Bytes)
    (h : a.length = i.addrs.length) : callback cs (i.withAddrs a) cb p = callback cs i cb p := by
  have hc : (i.withAddrs a).chmax = i.chmax := h
  unfold callback
  rw [hc]
  rfl

theorem handle_withAddrs (cs : List Chan) (i : Inst) (a : List Nat) (d : Bytes) (h : a.length = i.addrs.length) :
    handle cs (i.withAddrs a) d = ((handle cs i d).1, (handle cs i d).2.1.withAddrs a, (handle cs i d).2.2) := by
  unfold handle
  cases Dispatch.recvHandle d with
  | ignored => rfl
  | raised e => rfl
  | fired cb p =>
    simp only
    rw [callback_withAddrs cs i a cb p h]
    cases callback cs i cb p with
    | error e => rfl
    | ok r => obtain ⟨cs', fl, out⟩ := r; rfl

theorem recvStep_withAddrs (cs : List Chan) (i : Inst) (a : List Nat) (h : a.length = i.addrs.length) :
    recvStep cs (i.withAddrs a) = ((recvStep cs i).1, (recvStep cs i).2.1.withAddrs a, (recvStep cs i).2.2) := by
  unfold recvStep
  show (if i.recvThr ≠ .alive then _ else match i.qwrite with | [] => _ | d :: rest => _) = _
  split
  · rfl
  · cases hq : i.qwrite with
    | nil => rfl
    | cons d rest => exact handle_withAddrs cs { i with qwrite := rest } a d h

theorem produce_withAddrs (cs : List Chan) (i : Inst) (a : List Nat) :
    produce cs (i.withAddrs a) = ((produce cs i).1, (produce cs i).2.1.withAddrs a, (produce cs i).2.2) := by
  unfold produce
  have hs : (i.withAddrs a).snum = i.snum := rfl
  rw [hs]
  cases dataGet cs i.snum with
  | mk cs' ss =>
    simp only
    cases Stream.frameStreamEncode [] ss with
    | error e => rfl
    | ok o => cases o <;> rfl

theorem streamStep_withAddrs (cs : List Chan) (i : Inst) (a : List Nat) :
    streamStep cs (i.withAddrs a) = ((streamStep cs i).1, (streamStep cs i).2.1.withAddrs a, (streamStep cs i).2.2) := by
  unfold streamStep
  show (if i.streamThr ≠ .alive then _ else if (Gen.Dummy.streamWaitsStarted && !i.flag) = true then _ else _) = _
  split
  · rfl
  · split
    · rfl
    · exact produce_withAddrs cs i a

theorem stopStream_withAddrs (fuel : Nat) (cs : List Chan) (i : Inst) (a : List Nat) (h : a.length = i.addrs.length) :
    stopStream fuel cs (i.withAddrs a) =
      ((stopStream fuel cs i).1, (stopStream fuel cs i).2.1.withAddrs a, (stopStream fuel cs i).2.2) := by
  induction fuel generalizing cs i with
  | zero => rfl
  | succ fuel ih =>
    unfold stopStream
    show (if i.streamThr ≠ .alive then _
      else if (i.flag || !Gen.Dummy.streamWaitsStarted) = true then _
      else if i.recvThr = .alive ∧ i.qwrite ≠ [] then _ else _) = _
    split
    · rfl
    · split
      · rw [produce_withAddrs]; rfl
      · split
        · rw [recvStep_withAddrs cs i a h]
          simp only
          rw [ih (recvStep cs i).1 (recvStep cs i).2.1 (by rw [(recvStep_keeps cs i).2]; exact h)]
        · rfl

theorem stop_withAddrs (cs : List Chan) (i : Inst) (a : List Nat) (h : a.length = i.addrs.length) :
    stop cs (i.withAddrs a) = ((stop cs i).1, (stop cs i).2.1.withAddrs a, (stop cs i).2.2) := by
  unfold stop
  have hq : (i.withAddrs a).qwrite = i.qwrite := rfl
  rw [hq, stopStream_withAddrs _ cs i a h]
  simp only
  rw [recvStep_withAddrs _ _ a (by rw [(stopStream_keeps _ cs i).2]; exact h)]
  rfl

theorem step_withAddrs (cs : List Chan) (i : Inst) (a : List Nat) (op : Op) (h : a.length = i.addrs.length) :
    step cs (i.withAddrs a) op = ((step cs i op).1, (step cs i op).2.1.withAddrs a, (step cs i op).2.2) := by
  cases op with
  | write d => rfl
  | recvStep => simp only [step]; rw [recvStep_withAddrs cs i a h]
  | streamStep => simp only [step]; rw [streamStep_withAddrs cs i a]
  | read =>
    simp only [step]
    show (match i.qread with | [] => _ | f :: r => _) = _
    cases i.qread <;> rfl
  | start => rfl
  | stop => simp only [step]; rw [stop_withAddrs cs i a h]

/-- **a history reads the address list of its instance only through its length**: channel objects and observations of
    the same history on the same instance holding other addresses (as many) are the same -/
theorem run_withAddrs (cs : List Chan) (i : Inst) (a : List Nat) (ops : List Op) (h : a.length = i.addrs.length) :
    run cs (i.withAddrs a) ops = ((run cs i ops).1, (run cs i ops).2.1.withAddrs a, (run cs i ops).2.2) := by
  induction ops generalizing cs i with
  | nil => rfl
  | cons op ops ih =>
    simp only [run]
    rw [step_withAddrs cs i a op h]
    simp only
    rw [ih (step cs i op).1 (step cs i op).2.1 (by rw [(step_keeps cs i op).2]; exact h)]

/-- two instances that differ in their addresses only (same number of them) let a client observe the same -/
theorem run_addrs_congr (cs : List Chan) (a b : List Nat) (flags rxp snum wpad : Nat) (ops : List Op) (h : a.length = b.length) :
    (run cs (newInst a flags rxp snum wpad) ops).2.2 = (run cs (newInst b flags rxp snum wpad) ops).2.2 := by
  have : newInst a flags rxp snum wpad = (newInst b flags rxp snum wpad).withAddrs a := rfl
  rw [this, run_withAddrs cs _ a ops h]

theorem freshAddrs_length (h : Heap) (n : Nat) : (freshAddrs h n).length = n := by simp [freshAddrs]

/-- histories stay inside the worlds that can exist -/
theorem Built.run {w : World} (hb : Built w) (h : List (Nat × Op)) : Built (w.run h).1 := by
  induction h generalizing w with
  | nil => exact hb
  | cons p rest ih =>
    obtain ⟨k, op⟩ := p
    exact ih (hb.step k op)

theorem Built.runOn {w : World} (hb : Built w) (k : Nat) (ops : List Op) : Built (w.runOn k ops).1 :=
  hb.run _

end Nxs.Dummy
