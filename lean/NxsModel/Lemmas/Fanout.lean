/-
  Helper lemmas about the fan-out model (`NxsModel/Fanout.lean`), independent of the C08
  specification.  Main fact: `fanout` is a `map` over the queue entries which appends to the
  entry with id `q` the list `extra … q` (one copy of every non-empty group per occurrence of `q`
  in the subscriber list of that channel).
-/
import NxsModel.Fanout
namespace Nxs
namespace Fanout

/-- what the fan-out of channels `c, c+1, …` (`k` of them) appends to the entry of queue `q` -/
def extra (enabled : List Bool) (subs : List (List Nat)) (ss : List Smp) : Nat → Nat → Nat → List (List Nat)
  | _, 0, _ => []
  | c, k + 1, q =>
    (if (group enabled ss c).isEmpty then []
     else List.replicate ((subs.getD c []).count q) (group enabled ss c))
      ++ extra enabled subs ss (c + 1) k q

theorem group_eq (enabled : List Bool) (ss : List Smp) (c : Nat) :
    group enabled ss c =
      if enabled.getD c false then (ss.filter (·.chan = c)).map (·.val) else [] := by
  unfold group
  by_cases h : enabled.getD c false = true
  · rw [if_pos h]
    congr 1
    apply List.filter_congr
    intro x _
    by_cases hx : x.chan = c
    · subst hx; simp_all
    · simp [hx]
  · rw [if_neg h]
    have : ss.filter (fun s => decide (s.chan = c ∧ enabled.getD s.chan false = true)) = [] := by
      rw [List.filter_eq_nil_iff]
      intro x _
      by_cases hx : x.chan = c
      · subst hx; simp_all
      · simp [hx]
    rw [this]; rfl

theorem group_isEmpty_of (enabled : List Bool) (ss : List Smp) (c : Nat)
    (h : enabled.getD c false = false ∨ ∀ x ∈ ss, x.chan ≠ c) : (group enabled ss c).isEmpty = true := by
  rw [group_eq]
  rcases h with h | h
  · rw [h]; rfl
  · have : ss.filter (·.chan = c) = [] := by
      rw [List.filter_eq_nil_iff]; intro x hx; simpa using h x hx
    simp [this]

theorem exists_of_group_nonempty (enabled : List Bool) (ss : List Smp) (c : Nat)
    (h : (group enabled ss c).isEmpty = false) : enabled.getD c false = true ∧ ∃ x ∈ ss, x.chan = c := by
  by_cases he : enabled.getD c false = true
  · refine ⟨he, ?_⟩
    apply Classical.byContradiction
    intro hne
    have := group_isEmpty_of enabled ss c (Or.inr (fun x hx hc => hne ⟨x, hx, hc⟩))
    rw [this] at h; cases h
  · have := group_isEmpty_of enabled ss c (Or.inl (by simpa using he))
    rw [this] at h; cases h

theorem foldl_putOn (l : List Nat) (g : List Nat) (qs : List (Nat × List (List Nat))) :
    l.foldl (fun acc q => putOn acc q g) qs
      = qs.map (fun e => (e.1, e.2 ++ List.replicate (l.count e.1) g)) := by
  induction l generalizing qs with
  | nil => simp
  | cons a l ih =>
    rw [List.foldl_cons, ih, putOn, List.map_map]
    apply List.map_congr_left
    intro e _
    by_cases h : e.1 = a
    · subst h
      simp [List.replicate_succ]
    · have h' : ¬ a = e.1 := fun x => h x.symm
      simp [h, h']

theorem fanout_eq_map (enabled : List Bool) (subs : List (List Nat)) (ss : List Smp)
    (c k : Nat) (qs : List (Nat × List (List Nat))) :
    fanout enabled subs ss c k qs = qs.map (fun e => (e.1, e.2 ++ extra enabled subs ss c k e.1)) := by
  induction k generalizing c qs with
  | zero => simp [fanout, extra]
  | succ k ih =>
    rw [fanout, ih]
    by_cases hg : (group enabled ss c).isEmpty = true
    · simp [hg, extra]
    · rw [if_neg hg, foldl_putOn, List.map_map]
      apply List.map_congr_left
      intro e _
      simp [extra, hg]

theorem fanout_map_fst (enabled : List Bool) (subs : List (List Nat)) (ss : List Smp)
    (c k : Nat) (qs : List (Nat × List (List Nat))) :
    (fanout enabled subs ss c k qs).map (·.1) = qs.map (·.1) := by
  rw [fanout_eq_map, List.map_map]
  apply List.map_congr_left
  intro e _; rfl

/-- channels whose group is empty or in whose list `q` does not occur contribute nothing -/
theorem extra_eq_nil (enabled : List Bool) (subs : List (List Nat)) (ss : List Smp) (c k q : Nat)
    (h : ∀ c', c ≤ c' → c' < c + k →
      (group enabled ss c').isEmpty = true ∨ (subs.getD c' []).count q = 0) :
    extra enabled subs ss c k q = [] := by
  induction k generalizing c with
  | zero => rfl
  | succ k ih =>
    rw [extra, ih (c + 1) (fun c' h1 h2 => h c' (by omega) (by omega))]
    rcases h c (Nat.le_refl _) (by omega) with h | h
    · simp [h]
    · rw [h]; simp

/-- a queue that occurs exactly once, in the list of channel `c0`, gets exactly the group of `c0` -/
theorem extra_flatten_unique (enabled : List Bool) (subs : List (List Nat)) (ss : List Smp)
    (c k q c0 : Nat)
    (h : ∀ c', c ≤ c' → c' < c + k → (subs.getD c' []).count q = if c' = c0 then 1 else 0) :
    (extra enabled subs ss c k q).flatten
      = if c ≤ c0 ∧ c0 < c + k then group enabled ss c0 else [] := by
  induction k generalizing c with
  | zero =>
    have : ¬ (c ≤ c0 ∧ c0 < c + 0) := by omega
    rw [if_neg this]; rfl
  | succ k ih =>
    rw [extra, List.flatten_append, ih (c + 1) (fun c' h1 h2 => h c' (by omega) (by omega)),
      h c (Nat.le_refl _) (by omega)]
    by_cases hc : c = c0
    · subst hc
      have h1 : ¬ (c + 1 ≤ c ∧ c < c + 1 + k) := by omega
      have h2 : c ≤ c ∧ c < c + (k + 1) := by omega
      rw [if_neg h1, if_pos h2, if_pos rfl]
      by_cases hg : (group enabled ss c).isEmpty = true
      · rw [if_pos hg]
        have : group enabled ss c = [] := by simpa using hg
        rw [this]; rfl
      · rw [if_neg hg]; simp
    · rw [if_neg hc]
      have : (c + 1 ≤ c0 ∧ c0 < c + 1 + k) ↔ (c ≤ c0 ∧ c0 < c + (k + 1)) := by omega
      simp [this]

theorem extra_mem_ne_nil (enabled : List Bool) (subs : List (List Nat)) (ss : List Smp)
    (c k q : Nat) : ∀ g ∈ extra enabled subs ss c k q, g ≠ [] := by
  induction k generalizing c with
  | zero => intro g hg; cases hg
  | succ k ih =>
    intro g hg
    rw [extra, List.mem_append] at hg
    rcases hg with hg | hg
    · by_cases he : (group enabled ss c).isEmpty = true
      · rw [if_pos he] at hg; cases hg
      · rw [if_neg he] at hg
        have := (List.mem_replicate.mp hg).2
        subst this
        intro h0; apply he; rw [h0]; rfl
    · exact ih _ g hg

/-- if every channel has an empty group or no subscriber, the fan-out does nothing -/
theorem fanout_eq_self (enabled : List Bool) (subs : List (List Nat)) (ss : List Smp)
    (c k : Nat) (qs : List (Nat × List (List Nat)))
    (h : ∀ c', (group enabled ss c').isEmpty = true ∨ subs.getD c' [] = []) :
    fanout enabled subs ss c k qs = qs := by
  induction k generalizing c qs with
  | zero => rfl
  | succ k ih =>
    rw [fanout, ih]
    rcases h c with h | h
    · simp [h]
    · rw [h]; simp

/-! ### `step` on a frame -/

theorem step_frame_dead {s : St} (fl : Nat) (ss : List Smp) (hd : s.dead = true) :
    step s (.frame fl ss) = .ok s := by
  rw [step, if_pos hd]

theorem step_frame_bad {s : St} (fl : Nat) (ss : List Smp) (hd : s.dead = false)
    (h : ss.any (fun x => x.chan ≥ s.enabled.length) = true) :
    step s (.frame fl ss) = .ok { s with dead := true } := by
  rw [step, if_neg (by simp [hd]), if_pos h]

theorem step_frame_good {s : St} (fl : Nat) (ss : List Smp) (hd : s.dead = false)
    (h : ss.any (fun x => x.chan ≥ s.enabled.length) = false) :
    step s (.frame fl ss) =
      .ok { s with ovf := if fl % 2 = 1 then s.ovf + 1 else s.ovf,
                   queues := fanout s.enabled s.subs ss 0 s.enabled.length s.queues } := by
  rw [step, if_neg (by simp [hd]), if_neg (by simp [h])]

/-- the three outcomes of a frame: not processed (thread dead), kills the thread, fanned out -/
theorem step_frame_cases (s : St) (fl : Nat) (ss : List Smp) :
    (s.dead = true ∧ step s (.frame fl ss) = .ok s) ∨
    (s.dead = false ∧ ss.any (fun x => x.chan ≥ s.enabled.length) = true ∧
      step s (.frame fl ss) = .ok { s with dead := true }) ∨
    (s.dead = false ∧ ss.any (fun x => x.chan ≥ s.enabled.length) = false ∧
      step s (.frame fl ss) =
        .ok { s with ovf := if fl % 2 = 1 then s.ovf + 1 else s.ovf,
                     queues := fanout s.enabled s.subs ss 0 s.enabled.length s.queues }) := by
  rcases Bool.eq_false_or_eq_true s.dead with hd | hd
  · exact Or.inl ⟨hd, step_frame_dead fl ss hd⟩
  · rcases Bool.eq_false_or_eq_true (ss.any (fun x => x.chan ≥ s.enabled.length)) with h | h
    · exact Or.inr (Or.inl ⟨hd, h, step_frame_bad fl ss hd h⟩)
    · exact Or.inr (Or.inr ⟨hd, h, step_frame_good fl ss hd h⟩)

theorem any_ge_false_of_lt {ss : List Smp} {n : Nat} (h : ∀ x ∈ ss, x.chan < n) :
    ss.any (fun x => x.chan ≥ n) = false := by
  rw [List.any_eq_false]
  intro x hx
  have := h x hx
  simp only [decide_eq_true_eq]; omega

theorem step_frame_of_lt (s : St) (fl : Nat) (ss : List Smp) (hd : s.dead = false)
    (h : ∀ x ∈ ss, x.chan < s.enabled.length) :
    step s (.frame fl ss) =
      .ok { s with ovf := if fl % 2 = 1 then s.ovf + 1 else s.ovf,
                   queues := fanout s.enabled s.subs ss 0 s.enabled.length s.queues } :=
  step_frame_good fl ss hd (any_ge_false_of_lt h)

/-- a frame never makes a call fail -/
theorem step_frame_isOk (s : St) (fl : Nat) (ss : List Smp) : ∃ s', step s (.frame fl ss) = .ok s' := by
  rcases step_frame_cases s fl ss with ⟨_, h⟩ | ⟨_, _, h⟩ | ⟨_, _, h⟩ <;> exact ⟨_, h⟩

/-! ### `apply` / `run` -/

theorem run_cons (s : St) (op : Op) (r : List Op) : run s (op :: r) = run (apply s op) r := by
  rw [run, apply]; cases step s op <;> rfl

theorem run_append (s : St) (a b : List Op) : run s (a ++ b) = run (run s a) b := by
  induction a generalizing s with
  | nil => rfl
  | cons op r ih => rw [List.cons_append, run_cons, run_cons, ih]

theorem run_singleton (s : St) (op : Op) : run s [op] = apply s op := by
  rw [run_cons]; rfl

/-! ### `received` -/

theorem find?_map_snd (f : Nat → List (List Nat) → List (List Nat)) (q : Nat)
    (qs : List (Nat × List (List Nat))) :
    (qs.map (fun e => (e.1, f e.1 e.2))).find? (·.1 = q)
      = (qs.find? (·.1 = q)).map (fun e => (e.1, f e.1 e.2)) := by
  induction qs with
  | nil => rfl
  | cons e qs ih =>
    rw [List.map_cons, List.find?_cons, List.find?_cons]
    by_cases h : e.1 = q
    · simp [h]
    · simp [h, ih]

/-- what queue `q` holds after a frame: the old content plus the flattened `extra` -/
theorem received_fanout (s s' : St) (ss : List Smp) (q : Nat)
    (h : s'.queues = fanout s.enabled s.subs ss 0 s.enabled.length s.queues) :
    received s' q = match s.queues.find? (·.1 = q) with
      | some e => e.2.flatten ++ (extra s.enabled s.subs ss 0 s.enabled.length q).flatten
      | none => [] := by
  unfold received
  rw [h, fanout_eq_map,
    find?_map_snd (fun i l => l ++ extra s.enabled s.subs ss 0 s.enabled.length i)]
  cases hf : s.queues.find? (·.1 = q) with
  | none => rfl
  | some e =>
    have := List.find?_some hf
    simp at this
    simp [this]

theorem received_fanout_of_nil (s s' : St) (ss : List Smp) (q : Nat)
    (h : s'.queues = fanout s.enabled s.subs ss 0 s.enabled.length s.queues)
    (hx : (extra s.enabled s.subs ss 0 s.enabled.length q).flatten = []) :
    received s' q = received s q := by
  rw [received_fanout s s' ss q h, hx]
  unfold received
  cases s.queues.find? (·.1 = q) <;> simp

theorem received_fanout_of_mem (s s' : St) (ss : List Smp) (q : Nat)
    (h : s'.queues = fanout s.enabled s.subs ss 0 s.enabled.length s.queues)
    (hq : q ∈ s.queues.map (·.1)) :
    received s' q = received s q ++ (extra s.enabled s.subs ss 0 s.enabled.length q).flatten := by
  rw [received_fanout s s' ss q h]
  unfold received
  cases hf : s.queues.find? (·.1 = q) with
  | some e => rfl
  | none =>
    exfalso
    rw [List.find?_eq_none] at hf
    rw [List.mem_map] at hq
    obtain ⟨e, he, rfl⟩ := hq
    simpa using hf e he

/-- a new (empty) queue at the end changes nobody's content -/
theorem received_append_empty (s s' : St) (k q : Nat) (h : s'.queues = s.queues ++ [(k, [])]) :
    received s' q = received s q := by
  unfold received
  rw [h, List.find?_append]
  cases s.queues.find? (·.1 = q) with
  | some e => rfl
  | none =>
    by_cases hk : k = q
    · simp [hk]
    · simp [hk]

theorem received_of_queues_eq (s s' : St) (q : Nat) (h : s'.queues = s.queues) :
    received s' q = received s q := by
  unfold received; rw [h]

/-! ### no empty group is ever put on a queue -/

def GroupsNonempty (s : St) : Prop := ∀ e ∈ s.queues, ∀ g ∈ e.2, g ≠ []

theorem groupsNonempty_init (n : Nat) : GroupsNonempty (St.init n) := by
  intro e he; cases he

theorem groupsNonempty_subAt {s : St} (hs : GroupsNonempty s) (ch : Nat) : GroupsNonempty (subAt s ch) := by
  intro e he g hg
  simp only [subAt, List.mem_append, List.mem_singleton] at he
  rcases he with he | rfl
  · exact hs e he g hg
  · cases hg

theorem groupsNonempty_step {s s' : St} {op : Op} (hs : GroupsNonempty s) (h : step s op = .ok s') :
    GroupsNonempty s' := by
  cases op with
  | frame fl ss =>
    rcases step_frame_cases s fl ss with ⟨_, h'⟩ | ⟨_, _, h'⟩ | ⟨_, _, h'⟩
    · rw [h'] at h; injection h with h; subst h; exact hs
    · rw [h'] at h; injection h with h; subst h; exact hs
    · rw [h'] at h; injection h with h; subst h
      intro e he g hg
      simp only [fanout_eq_map, List.mem_map] at he
      obtain ⟨e0, he0, rfl⟩ := he
      rw [List.mem_append] at hg
      rcases hg with hg | hg
      · exact hs e0 he0 g hg
      · exact extra_mem_ne_nil _ _ _ _ _ _ g hg
  | badFrame =>
    rw [step] at h; injection h with h; subst h; exact hs
  | sub ch =>
    rw [step] at h
    by_cases hc : ch < s.subs.length
    · rw [if_pos hc] at h
      injection h with h; subst h
      exact groupsNonempty_subAt hs ch
    · rw [if_neg hc] at h; cases h
  | subNeg k =>
    rw [step] at h
    by_cases hc : k < s.subs.length
    · rw [if_pos hc] at h
      injection h with h; subst h
      exact groupsNonempty_subAt hs _
    · rw [if_neg hc] at h; cases h
  | unsub k =>
    rw [step] at h
    injection h with h; subst h
    exact hs
  | setEnabled v =>
    rw [step] at h
    by_cases hc : v.length = s.enabled.length
    · rw [if_pos hc] at h
      injection h with h; subst h
      exact hs
    · rw [if_neg hc] at h; cases h
  | restart =>
    rw [step] at h; injection h with h; subst h; exact hs

theorem groupsNonempty_run (s : St) (ops : List Op) (hs : GroupsNonempty s) :
    GroupsNonempty (run s ops) := by
  induction ops generalizing s with
  | nil => exact hs
  | cons op r ih =>
    rw [run]
    cases h : step s op with
    | ok s' => exact ih s' (groupsNonempty_step hs h)
    | error e => exact ih s hs

/-! ### the decoded samples of stream frames (`tagged`, `opsOfFrames`) -/

theorem bind_eq_ok {α β : Type} {x : Except Err α} {f : α → Except Err β} {b : β}
    (h : x.bind f = .ok b) : ∃ a, x = .ok a ∧ f a = .ok b := by
  cases x with
  | error e => cases h
  | ok a => exact ⟨a, rfl, h⟩

theorem bind_eq_ok_iff {α β : Type} {x : Except Err α} {f : α → Except Err β} {b : β} :
    x.bind f = .ok b ↔ ∃ a, x = .ok a ∧ f a = .ok b := by
  constructor
  · exact bind_eq_ok
  · rintro ⟨a, rfl, h⟩; exact h

theorem exists_ok_of {α : Type} {x : Except Err α}
    (h : (match x with | .ok _ => true | .error _ => false) = true) : ∃ r, x = .ok r := by
  cases x with
  | ok r => exact ⟨r, rfl⟩
  | error e => cases h

/-- the decoder only returns samples of channels the device has (robust against the number of
    intermediate results the decoder binds: format, values, data, metadata) -/
theorem decodeOne_chan {layout : List Stream.Chan} {user : List Stream.UserType} {rest rest' : Bytes}
    {s : Stream.Sample} (h : Stream.decodeOne layout user rest = .ok (s, rest')) :
    s.chan < layout.length := by
  unfold Stream.decodeOne at h
  cases rest with
  | nil => cases h
  | cons cid r1 =>
    simp only at h
    cases hl : layout[cid.toNat]? with
    | none => rw [hl] at h; cases h
    | some ch =>
      rw [hl] at h
      simp only at h
      obtain ⟨d, _, h⟩ := bind_eq_ok h
      split at h
      · cases h
      · have hlt : cid.toNat < layout.length := (List.getElem?_eq_some_iff.mp hl).1
        revert h
        simp only [bind_eq_ok_iff, Except.ok.injEq, Prod.mk.injEq, forall_exists_index, and_imp]
        intros
        subst_vars
        exact hlt

theorem decodeLoop_chan {layout : List Stream.Chan} {user : List Stream.UserType} (fuel : Nat) {rest : Bytes}
    {ss : List Stream.Sample} (h : Stream.decodeLoop layout user fuel rest = .ok ss) :
    ∀ s ∈ ss, s.chan < layout.length := by
  induction fuel generalizing rest ss with
  | zero =>
    cases rest with
    | nil => rw [Stream.decodeLoop] at h; injection h with h; subst h; intro s hs; cases hs
    | cons b r => rw [Stream.decodeLoop] at h; cases h
  | succ fuel ih =>
    cases rest with
    | nil => rw [Stream.decodeLoop] at h; injection h with h; subst h; intro s hs; cases hs
    | cons b r =>
      rw [Stream.decodeLoop] at h
      rotate_left
      · intro hh; cases hh
      obtain ⟨⟨s1, rest'⟩, h1, h⟩ := bind_eq_ok h
      obtain ⟨ss', h2, h⟩ := bind_eq_ok h
      injection h with h; subst h
      intro s hs
      rcases List.mem_cons.mp hs with rfl | hs
      · exact decodeOne_chan h1
      · exact ih h2 s hs

theorem frameStreamDecode_chan {layout : List Stream.Chan} {user : List Stream.UserType} {fr : Serial.Frame}
    {fl : Nat} {ss : List Stream.Sample}
    (h : Stream.frameStreamDecode layout user fr = .ok (some (fl, ss))) : ∀ s ∈ ss, s.chan < layout.length := by
  unfold Stream.frameStreamDecode at h
  split at h
  · cases h
  · unfold Stream.streamDecode at h
    split at h
    · cases h
    · obtain ⟨ss', h1, h⟩ := bind_eq_ok h
      injection h with h; injection h with h; injection h with _ h; subst h
      exact decodeLoop_chan _ h1

theorem tagged_append (k : Nat) (a b : List Stream.Sample) :
    tagged k (a ++ b) = tagged k a ++ tagged (k + a.length) b := by
  induction a generalizing k with
  | nil => simp [tagged]
  | cons s a ih =>
    simp only [List.cons_append, tagged, ih, List.length_cons]
    rw [show k + 1 + a.length = k + (a.length + 1) by omega]

/-- the tag of a sample is its position: the `j`-th sample gets `val = k + j` and keeps its channel -/
theorem tagged_getElem? (k j : Nat) (ss : List Stream.Sample) :
    (tagged k ss)[j]? = ss[j]?.map fun s => ⟨s.chan, k + j⟩ := by
  induction ss generalizing k j with
  | nil => simp [tagged]
  | cons s r ih =>
    cases j with
    | zero => simp [tagged]
    | succ j => simp only [tagged, List.getElem?_cons_succ, ih]; congr; funext s; congr 1; omega

theorem mem_tagged {k : Nat} {ss : List Stream.Sample} {x : Smp} (h : x ∈ tagged k ss) :
    ∃ s ∈ ss, x.chan = s.chan := by
  induction ss generalizing k with
  | nil => simp [tagged] at h
  | cons s r ih =>
    simp only [tagged, List.mem_cons] at h
    rcases h with rfl | h
    · exact ⟨s, by simp, rfl⟩
    · obtain ⟨s', hs', he⟩ := ih h
      exact ⟨s', by simp [hs'], he⟩

/-- frames the decoder accepts become well-formed `frame` ops -/
theorem opsOfFrames_wf (layout : List Stream.Chan) (user : List Stream.UserType) (k : Nat)
    (frs : List Serial.Frame) (h : ∀ fr ∈ frs, ∃ r, Stream.frameStreamDecode layout user fr = .ok r) :
    ∀ op ∈ opsOfFrames layout user k frs, op.wfFrame layout.length = true := by
  induction frs generalizing k with
  | nil => intro op hop; cases hop
  | cons fr r ih =>
    have hr : ∀ fr ∈ r, ∃ x, Stream.frameStreamDecode layout user fr = .ok x :=
      fun f hf => h f (List.mem_cons_of_mem _ hf)
    obtain ⟨x, hx⟩ := h fr List.mem_cons_self
    intro op hop
    rw [opsOfFrames, hx] at hop
    cases x with
    | none =>
      rcases List.mem_cons.mp hop with rfl | hop
      · rfl
      · exact ih k hr op hop
    | some p =>
      obtain ⟨fl, ss⟩ := p
      rcases List.mem_cons.mp hop with rfl | hop
      · simp only [Op.wfFrame, List.all_eq_true, decide_eq_true_eq]
        intro y hy
        obtain ⟨s, hs, he⟩ := mem_tagged hy
        rw [he]; exact frameStreamDecode_chan hx s hs
      · exact ih _ hr op hop

/-- what the ops of a frame sequence carry for channel `c`: the positions of the `c`-samples among
    all decoded samples, ascending -/
theorem flatMap_opsOfFrames (layout : List Stream.Chan) (user : List Stream.UserType) (c k : Nat)
    (frs : List Serial.Frame) :
    (opsOfFrames layout user k frs).flatMap (Op.samplesOf c)
      = ((tagged k (samplesOfFrames layout user frs)).filter (·.chan = c)).map (·.val) := by
  induction frs generalizing k with
  | nil => rfl
  | cons fr r ih =>
    rw [opsOfFrames, samplesOfFrames]
    cases hx : Stream.frameStreamDecode layout user fr with
    | error e => simp only [List.flatMap_cons, Op.samplesOf, List.nil_append, ih]
    | ok x =>
      cases x with
      | none => simp [List.flatMap_cons, Op.samplesOf, ih]
      | some p =>
        obtain ⟨fl, ss⟩ := p
        simp only [List.flatMap_cons, Op.samplesOf, ih, tagged_append, List.filter_append, List.map_append]

end Fanout
end Nxs
