/-
  Helper lemmas about the fan-out model (`NxsModel/Fanout.lean`), independent of the C08
  specification.  Main fact: `fanout` is a `map` over the queue entries which appends to the
  entry with id `q` the list `extra … q` (one copy of every non-empty group per occurrence of `q`
  in the subscriber list of that channel).
-/
import NxsModel.Fanout
namespace Nxs
namespace Fanout

/-- what the fan-out of channels `c, c+1, …` (`k` of them) appends to the entry of queue `q` -/
def extra (enabled : List Bool) (subs : List (List Nat)) (ss : List Smp) : Nat → Nat → Nat → List (List Nat)
  | _, 0, _ => []
  | c, k + 1, q =>
    (if (group enabled ss c).isEmpty then []
     else List.replicate ((subs.getD c []).count q) (group enabled ss c))
      ++ extra enabled subs ss (c + 1) k q

theorem group_eq (enabled : List Bool) (ss : List Smp) (c : Nat) :
    group enabled ss c =
      if enabled.getD c false then (ss.filter (·.chan = c)).map (·.val) else [] := by
  unfold group
  by_cases h : enabled.getD c false = true
  · rw [if_pos h]
    congr 1
    apply List.filter_congr
    intro x _
    by_cases hx : x.chan = c
    · subst hx; simp_all
    · simp [hx]
  · rw [if_neg h]
    have : ss.filter (fun s => decide (s.chan = c ∧ enabled.getD s.chan false = true)) = [] := by
      rw [List.filter_eq_nil_iff]
      intro x _
      by_cases hx : x.chan = c
      · subst hx; simp_all
      · simp [hx]
    rw [this]; rfl

theorem group_isEmpty_of (enabled : List Bool) (ss : List Smp) (c : Nat)
    (h : enabled.getD c false = false ∨ ∀ x ∈ ss, x.chan ≠ c) : (group enabled ss c).isEmpty = true := by
  rw [group_eq]
  rcases h with h | h
  · rw [h]; rfl
  · have : ss.filter (·.chan = c) = [] := by
      rw [List.filter_eq_nil_iff]; intro x hx; simpa using h x hx
    simp [this]

theorem exists_of_group_nonempty (enabled : List Bool) (ss : List Smp) (c : Nat)
    (h : (group enabled ss c).isEmpty = false) : enabled.getD c false = true ∧ ∃ x ∈ ss, x.chan = c := by
  by_cases he : enabled.getD c false = true
  · refine ⟨he, ?_⟩
    apply Classical.byContradiction
    intro hne
    have := group_isEmpty_of enabled ss c (Or.inr (fun x hx hc => hne ⟨x, hx, hc⟩))
    rw [this] at h; cases h
  · have := group_isEmpty_of enabled ss c (Or.inl (by simpa using he))
    rw [this] at h; cases h

theorem foldl_putOn (l : List Nat) (g : List Nat) (qs : List (Nat × List (List Nat))) :
    l.foldl (fun acc q => putOn acc q g) qs
      = qs.map (fun e => (e.1, e.2 ++ List.replicate (l.count e.1) g)) := by
  induction l generalizing qs with
  | nil => simp
  | cons a l ih =>
    rw [List.foldl_cons, ih, putOn, List.map_map]
    apply List.map_congr_left
    intro e _
    by_cases h : e.1 = a
    · subst h
      simp [List.replicate_succ]
    · have h' : ¬ a = e.1 := fun x => h x.symm
      simp [h, h']

theorem fanout_eq_map (enabled : List Bool) (subs : List (List Nat)) (ss : List Smp)
    (c k : Nat) (qs : List (Nat × List (List Nat))) :
    fanout enabled subs ss c k qs = qs.map (fun e => (e.1, e.2 ++ extra enabled subs ss c k e.1)) := by
  induction k generalizing c qs with
  | zero => simp [fanout, extra]
  | succ k ih =>
    rw [fanout, ih]
    by_cases hg : (group enabled ss c).isEmpty = true
    · simp [hg, extra]
    · rw [if_neg hg, foldl_putOn, List.map_map]
      apply List.map_congr_left
      intro e _
      simp [extra, hg]

theorem fanout_map_fst (enabled : List Bool) (subs : List (List Nat)) (ss : List Smp)
    (c k : Nat) (qs : List (Nat × List (List Nat))) :
    (fanout enabled subs ss c k qs).map (·.1) = qs.map (·.1) := by
  rw [fanout_eq_map, List.map_map]
  apply List.map_congr_left
  intro e _; rfl

/-- channels whose group is empty or in whose list `q` does not occur contribute nothing -/
theorem extra_eq_nil (enabled : List Bool) (subs : List (List Nat)) (ss : List Smp) (c k q : Nat)
    (h : ∀ c', c ≤ c' → c' < c + k →
      (group enabled ss c').isEmpty = true ∨ (subs.getD c' []).count q = 0) :
    extra enabled subs ss c k q = [] := by
  induction k generalizing c with
  | zero => rfl
  | succ k ih =>
    rw [extra, ih (c + 1) (fun c' h1 h2 => h c' (by omega) (by omega))]
    rcases h c (Nat.le_refl _) (by omega) with h | h
    · simp [h]
    · rw [h]; simp

/-- a queue that occurs exactly once, in the list of channel `c0`, gets exactly the group of `c0` -/
theorem extra_flatten_unique (enabled : List Bool) (subs : List (List Nat)) (ss : List Smp)
    (c k q c0 : Nat)
    (h : ∀ c', c ≤ c' → c' < c + k → (subs.getD c' []).count q = if c' = c0 then 1 else 0) :
    (extra enabled subs ss c k q).flatten
      = if c ≤ c0 ∧ c0 < c + k then group enabled ss c0 else [] := by
  induction k generalizing c with
  | zero =>
    have : ¬ (c ≤ c0 ∧ c0 < c + 0) := by omega
    rw [if_neg this]; rfl
  | succ k ih =>
    rw [extra, List.flatten_append, ih (c + 1) (fun c' h1 h2 => h c' (by omega) (by omega)),
      h c (Nat.le_refl _) (by omega)]
    by_cases hc : c = c0
    · subst hc
      have h1 : ¬ (c + 1 ≤ c ∧ c < c + 1 + k) := by omega
      have h2 : c ≤ c ∧ c < c + (k + 1) := by omega
      rw [if_neg h1, if_pos h2, if_pos rfl]
      by_cases hg : (group enabled ss c).isEmpty = true
      · rw [if_pos hg]
        have : group enabled ss c = [] := by simpa using hg
        rw [this]; rfl
      · rw [if_neg hg]; simp
    · rw [if_neg hc]
      have : (c + 1 ≤ c0 ∧ c0 < c + 1 + k) ↔ (c ≤ c0 ∧ c0 < c + (k + 1)) := by omega
      simp [this]

theorem extra_mem_ne_nil (enabled : List Bool) (subs : List (List Nat)) (ss : List Smp)
    (c k q : Nat) : ∀ g ∈ extra enabled subs ss c k q, g ≠ [] := by
  induction k generalizing c with
  | zero => intro g hg; cases hg
  | succ k ih =>
    intro g hg
    rw [extra, List.mem_append] at hg
    rcases hg with hg | hg
    · by_cases he : (group enabled ss c).isEmpty = true
      · rw [if_pos he] at hg; cases hg
      · rw [if_neg he] at hg
        have := (List.mem_replicate.mp hg).2
        subst this
        intro h0; apply he; rw [h0]; rfl
    · exact ih _ g hg

/-- if every channel has an empty group or no subscriber, the fan-out does nothing -/
theorem fanout_eq_self (enabled : List Bool) (subs : List (List Nat)) (ss : List Smp)
    (c k : Nat) (qs : List (Nat × List (List Nat)))
    (h : ∀ c', (group enabled ss c').isEmpty = true ∨ subs.getD c' [] = []) :
    fanout enabled subs ss c k qs = qs := by
  induction k generalizing c qs with
  | zero => rfl
  | succ k ih =>
    rw [fanout, ih]
    rcases h c with h | h
    · simp [h]
    · rw [h]; simp

/-! ### `step` on a frame -/

theorem step_frame_ok {s s' : St} {fl : Nat} {ss : List Smp} (h : step s (.frame fl ss) = .ok s') :
    ss.any (fun x => x.chan ≥ s.enabled.length) = false ∧
    s' = { s with ovf := if fl % 2 = 1 then s.ovf + 1 else s.ovf,
                  queues := fanout s.enabled s.subs ss 0 s.enabled.length s.queues } := by
  rw [step] at h
  by_cases hg : ss.any (fun x => x.chan ≥ s.enabled.length) = true
  · rw [if_pos hg] at h; cases h
  · rw [if_neg hg] at h
    refine ⟨by simpa using hg, ?_⟩
    injection h with h; exact h.symm

theorem step_frame_of_lt (s : St) (fl : Nat) (ss : List Smp) (h : ∀ x ∈ ss, x.chan < s.enabled.length) :
    step s (.frame fl ss) =
      .ok { s with ovf := if fl % 2 = 1 then s.ovf + 1 else s.ovf,
                   queues := fanout s.enabled s.subs ss 0 s.enabled.length s.queues } := by
  rw [step]
  have hg : ¬ ss.any (fun x => x.chan ≥ s.enabled.length) = true := by
    simp only [List.any_eq_true, decide_eq_true_eq]
    intro ⟨x, hx, hge⟩
    have := h x hx
    omega
  rw [if_neg hg]

/-! ### `received` -/

theorem find?_map_snd (f : Nat → List (List Nat) → List (List Nat)) (q : Nat)
    (qs : List (Nat × List (List Nat))) :
    (qs.map (fun e => (e.1, f e.1 e.2))).find? (·.1 = q)
      = (qs.find? (·.1 = q)).map (fun e => (e.1, f e.1 e.2)) := by
  induction qs with
  | nil => rfl
  | cons e qs ih =>
    rw [List.map_cons, List.find?_cons, List.find?_cons]
    by_cases h : e.1 = q
    · simp [h]
    · simp [h, ih]

/-- what queue `q` holds after a frame: the old content plus the flattened `extra` -/
theorem received_fanout (s s' : St) (ss : List Smp) (q : Nat)
    (h : s'.queues = fanout s.enabled s.subs ss 0 s.enabled.length s.queues) :
    received s' q = match s.queues.find? (·.1 = q) with
      | some e => e.2.flatten ++ (extra s.enabled s.subs ss 0 s.enabled.length q).flatten
      | none => [] := by
  unfold received
  rw [h, fanout_eq_map,
    find?_map_snd (fun i l => l ++ extra s.enabled s.subs ss 0 s.enabled.length i)]
  cases hf : s.queues.find? (·.1 = q) with
  | none => rfl
  | some e =>
    have := List.find?_some hf
    simp at this
    simp [this]

theorem received_fanout_of_nil (s s' : St) (ss : List Smp) (q : Nat)
    (h : s'.queues = fanout s.enabled s.subs ss 0 s.enabled.length s.queues)
    (hx : (extra s.enabled s.subs ss 0 s.enabled.length q).flatten = []) :
    received s' q = received s q := by
  rw [received_fanout s s' ss q h, hx]
  unfold received
  cases s.queues.find? (·.1 = q) <;> simp

theorem received_fanout_of_mem (s s' : St) (ss : List Smp) (q : Nat)
    (h : s'.queues = fanout s.enabled s.subs ss 0 s.enabled.length s.queues)
    (hq : q ∈ s.queues.map (·.1)) :
    received s' q = received s q ++ (extra s.enabled s.subs ss 0 s.enabled.length q).flatten := by
  rw [received_fanout s s' ss q h]
  unfold received
  cases hf : s.queues.find? (·.1 = q) with
  | some e => rfl
  | none =>
    exfalso
    rw [List.find?_eq_none] at hf
    rw [List.mem_map] at hq
    obtain ⟨e, he, rfl⟩ := hq
    simpa using hf e he

/-- a new (empty) queue at the end changes nobody's content -/
theorem received_append_empty (s s' : St) (k q : Nat) (h : s'.queues = s.queues ++ [(k, [])]) :
    received s' q = received s q := by
  unfold received
  rw [h, List.find?_append]
  cases s.queues.find? (·.1 = q) with
  | some e => rfl
  | none =>
    by_cases hk : k = q
    · simp [hk]
    · simp [hk]

theorem received_of_queues_eq (s s' : St) (q : Nat) (h : s'.queues = s.queues) :
    received s' q = received s q := by
  unfold received; rw [h]

/-! ### no empty group is ever put on a queue -/

def GroupsNonempty (s : St) : Prop := ∀ e ∈ s.queues, ∀ g ∈ e.2, g ≠ []

theorem groupsNonempty_init (n : Nat) : GroupsNonempty (St.init n) := by
  intro e he; cases he

theorem groupsNonempty_step {s s' : St} {op : Op} (hs : GroupsNonempty s) (h : step s op = .ok s') :
    GroupsNonempty s' := by
  cases op with
  | frame fl ss =>
    obtain ⟨_, rfl⟩ := step_frame_ok h
    intro e he g hg
    simp only [fanout_eq_map, List.mem_map] at he
    obtain ⟨e0, he0, rfl⟩ := he
    rw [List.mem_append] at hg
    rcases hg with hg | hg
    · exact hs e0 he0 g hg
    · exact extra_mem_ne_nil _ _ _ _ _ _ g hg
  | sub ch =>
    rw [step] at h
    by_cases hc : ch < s.subs.length
    · rw [if_pos hc] at h
      injection h with h; subst h
      intro e he g hg
      simp only [List.mem_append, List.mem_singleton] at he
      rcases he with he | rfl
      · exact hs e he g hg
      · cases hg
    · rw [if_neg hc] at h; cases h
  | unsub k =>
    rw [step] at h
    injection h with h; subst h
    exact hs
  | setEnabled v =>
    rw [step] at h
    by_cases hc : v.length = s.enabled.length
    · rw [if_pos hc] at h
      injection h with h; subst h
      exact hs
    · rw [if_neg hc] at h; cases h

theorem groupsNonempty_run (s : St) (ops : List Op) (hs : GroupsNonempty s) :
    GroupsNonempty (run s ops) := by
  induction ops generalizing s with
  | nil => exact hs
  | cons op r ih =>
    rw [run]
    cases h : step s op with
    | ok s' => exact ih s' (groupsNonempty_step hs h)
    | error e => exact ih s hs

end Fanout
end Nxs
