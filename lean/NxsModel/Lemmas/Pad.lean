/- helper lemmas about write padding and its invisibility to the device-side receiver (C17) -/
import NxsModel.Pad
import NxsModel.Dispatch
import NxsModel.Lemmas.Accept
import NxsModel.Lemmas.Serial
import NxsModel.Spec.Wire
namespace Nxs.Pad
open Nxs Nxs.Spec Nxs.Serial Nxs.Dispatch

attribute [local irreducible] crc16xmodem

/-- `data_align` appends `k < p` zero bytes up to a multiple of `p` -/
theorem dataAlign_spec (p : Nat) (d : Bytes) :
    ∃ k, (p = 0 → k = 0) ∧ (p > 0 → k < p ∧ p ∣ d.length + k) ∧
      dataAlign p d = d ++ List.replicate k 0 := by
  unfold dataAlign
  by_cases hp : p = 0
  · refine ⟨0, fun _ => rfl, fun h => by omega, ?_⟩
    simp [hp]
  · by_cases hm : d.length % p = 0
    · refine ⟨0, fun _ => rfl, fun h => ⟨h, Nat.dvd_of_mod_eq_zero hm⟩, ?_⟩
      simp [hp, hm]
    · have hlt : d.length % p < p := Nat.mod_lt _ (by omega)
      refine ⟨p - d.length % p, fun h => absurd h hp, fun _ => ⟨by omega, ?_⟩, ?_⟩
      · refine ⟨d.length / p + 1, ?_⟩
        have h := Nat.div_add_mod d.length p
        rw [Nat.mul_add, Nat.mul_one]
        generalize p * (d.length / p) = t at h
        omega
      · simp [hp, hm]

/-- the first start byte of `d` is still the first start byte after appending anything -/
theorem hdrFind_append (d z : Bytes) (i : Nat) (h : hdrFind d = some i) :
    hdrFind (d ++ z) = some i ∧ i < d.length := by
  unfold hdrFind at h ⊢
  simp only at h ⊢
  split at h
  next hlt =>
    cases h
    rw [List.findIdx_append, if_pos hlt, if_pos (by rw [List.length_append]; omega)]
    exact ⟨rfl, hlt⟩
  next => cases h

theorem hdrFind_zeros (k : Nat) : hdrFind (List.replicate k (0 : Byte)) = none := by
  unfold hdrFind
  have : (List.replicate k (0 : Byte)).findIdx (· = BitVec.ofNat 8 Gen.Frame.sof)
      = (List.replicate k (0 : Byte)).length := by
    rw [List.findIdx_eq_length]
    intro x hx
    rw [(List.mem_replicate.mp hx).2]
    decide
  simp only [this, Nat.lt_irrefl, if_false]

theorem flen_append (d z : Bytes) (h : 4 ≤ d.length) : flen (d ++ z) = flen d := by
  unfold flen
  rw [List.getD_eq_getElem?_getD, List.getD_eq_getElem?_getD, List.getD_eq_getElem?_getD,
    List.getD_eq_getElem?_getD, List.getElem?_append_left (by omega), List.getElem?_append_left (by omega)]

/-- an accepted frame followed by anything is accepted with the same id and payload -/
theorem Accept_append (d z : Bytes) (fid : Nat) (pl : Bytes) (h : Accept d fid pl) :
    Accept (d ++ z) fid pl := by
  obtain ⟨h1, h2, h3, h4, h5, h6, h7, h8⟩ := h
  unfold Accept
  rw [flen_append d z h1, List.take_append_of_le_length h6,
    List.take_append_of_le_length (by omega : flen d - 2 ≤ d.length)]
  refine ⟨by rw [List.length_append]; omega, ?_, ?_, h4, h5, by rw [List.length_append]; omega, h7, h8⟩
  · rw [List.getElem?_append_left (by omega)]; exact h2
  · rw [List.getD_eq_getElem?_getD, List.getElem?_append_left (by omega), ← List.getD_eq_getElem?_getD]
    exact h3

theorem frameDecode_append (d z : Bytes) (fr : Frame) (h : frameDecode d = .ok fr) :
    frameDecode (d ++ z) = .ok fr :=
  (frameDecode_accept _ _ _).mpr (Accept_append d z _ _ ((frameDecode_accept d fr.fid fr.data).mp h))

/-- whatever the receiver reacts to, it reacts to identically when anything is appended -/
theorem recvHandle_append (w z : Bytes) (h : recvHandle w ≠ .ignored) :
    recvHandle (w ++ z) = recvHandle w := by
  rw [recvHandle_eq] at h
  rw [recvHandle_eq w, recvHandle_eq (w ++ z)]
  cases hf : hdrFind w with
  | none => rw [hf] at h; exact absurd rfl h
  | some i =>
    rw [hf] at h
    obtain ⟨hf', hi⟩ := hdrFind_append w z i hf
    rw [hf']
    simp only at h ⊢
    rw [List.drop_append_of_le_length (by omega)]
    cases hd : frameDecode (w.drop i) with
    | error e => rw [hd] at h; exact absurd rfl h
    | ok fr => rw [frameDecode_append _ z fr hd]

theorem recvHandle_dataAlign (p : Nat) (w : Bytes) (h : recvHandle w ≠ .ignored) :
    recvHandle (dataAlign p w) = recvHandle w := by
  obtain ⟨k, _, _, hk⟩ := dataAlign_spec p w
  rw [hk]
  exact recvHandle_append w _ h

theorem recvHandle_zeros (k : Nat) : recvHandle (List.replicate k (0 : Byte)) = .ignored := by
  rw [recvHandle_eq, hdrFind_zeros]

/-! ### well-formed (wire) frames through the interface and the dispatcher

  (The same facts are proved in `Lemmas/Dummy.lean`, which imports this file; they are repeated here so that
  C17's own theorem about the client's requests does not depend on the simulated-device model.) -/

theorem hdrFind_wire (fid : Nat) (pl : Bytes) : hdrFind (wire fid pl) = some 0 := by
  unfold hdrFind
  have : wire fid pl = (0x55 : Byte) :: ((wire fid pl).drop 1) := rfl
  rw [this]
  simp [List.findIdx_cons, Gen.Frame.sof]

/-- the dispatcher, given a wire frame, hands id and payload to the callback table -/
theorem recvHandle_wire (fid : Nat) (pl : Bytes) (hp : pl.length ≤ 65529) (hf : fid ≤ 8) :
    recvHandle (wire fid pl) = cbHandle fid pl := by
  rw [recvHandle_eq, hdrFind_wire]
  show (match frameDecode ((wire fid pl).drop 0) with
    | .ok fr => cbHandle fr.fid fr.data
    | .error _ => Disp.ignored) = _
  rw [List.drop_zero, frameDecode_wire fid pl hp hf]

theorem cbHandle_ne_ignored (fid : Nat) (pl : Bytes) : cbHandle fid pl ≠ .ignored := by
  unfold cbHandle
  split
  · simp
  · split <;> split <;> simp

theorem recvHandle_wire_ne_ignored (fid : Nat) (pl : Bytes) (hp : pl.length ≤ 65529) (hf : fid ≤ 8) :
    recvHandle (wire fid pl) ≠ .ignored := by
  rw [recvHandle_wire fid pl hp hf]; exact cbHandle_ne_ignored _ _

/-- a wire frame written with any write padding is dispatched exactly like the frame alone -/
theorem recvHandle_wire_align (p fid : Nat) (pl : Bytes) (hp : pl.length ≤ 65529) (hf : fid ≤ 8) :
    recvHandle (dataAlign p (wire fid pl)) = recvHandle (wire fid pl) :=
  recvHandle_dataAlign p _ (recvHandle_wire_ne_ignored fid pl hp hf)

/-! the callback table on the five request ids -/
theorem cb_cmninfo : cbHandle 2 [] = .fired 0 [] := by decide
theorem cb_chinfo (c : Byte) : cbHandle 3 [c] = .fired 1 [c] := by
  simp [cbHandle, Gen.Recv.cbTable, Gen.Ids.idCMNINFO, Gen.Ids.idCHINFO, List.find?]
theorem cb_start (b : Byte) : cbHandle 5 [b] = .fired 4 [b] := by
  simp [cbHandle, Gen.Recv.cbTable, Gen.Ids.idCMNINFO, Gen.Ids.idCHINFO, Gen.Ids.idSTART, List.find?]
theorem cb_enable (pl : Bytes) (h : pl ≠ []) : cbHandle 6 pl = .fired 2 pl := by
  have : pl.length ≠ 0 := by simpa using h
  simp [cbHandle, Gen.Recv.cbTable, Gen.Ids.idCMNINFO, Gen.Ids.idCHINFO, Gen.Ids.idSTART, Gen.Ids.idENABLE, List.find?, this]
theorem cb_div (pl : Bytes) (h : pl ≠ []) : cbHandle 7 pl = .fired 3 pl := by
  have : pl.length ≠ 0 := by simpa using h
  simp [cbHandle, Gen.Recv.cbTable, Gen.Ids.idCMNINFO, Gen.Ids.idCHINFO, Gen.Ids.idSTART, Gen.Ids.idENABLE,
    Gen.Ids.idDIV, List.find?, this]

/-- what the interface hands to `_write` for a request whose builder returned the wire frame `(fid, pl)` that the
    callback table maps to callback `cb`: the frame followed by fewer than `p` zeros up to a multiple of `p`; the
    dispatcher fires `cb` with exactly `pl` on the frame alone and on what was written -/
theorem written_wire (r : ClientReq) (p fid cb : Nat) (pl : Bytes) (hb : r.build = .ok (wire fid pl))
    (hp : pl.length ≤ 65529) (hf : fid ≤ 8) (hcb : cbHandle fid pl = .fired cb pl) :
    ∃ f k, r.build = .ok f ∧ r.written p = .ok (f ++ List.replicate k 0) ∧
      (p = 0 → k = 0) ∧ (p > 0 → k < p ∧ p ∣ f.length + k) ∧
      recvHandle f = .fired cb pl ∧ recvHandle (f ++ List.replicate k 0) = .fired cb pl := by
  obtain ⟨k, h0, h1, hk⟩ := dataAlign_spec p (wire fid pl)
  have hw : recvHandle (wire fid pl) = .fired cb pl := by rw [recvHandle_wire fid pl hp hf, hcb]
  refine ⟨wire fid pl, k, hb, ?_, h0, h1, hw, ?_⟩
  · unfold ClientReq.written; rw [hb]; simp only; rw [hk]
  · rw [← hk, recvHandle_wire_align p fid pl hp hf, hw]

end Nxs.Pad
