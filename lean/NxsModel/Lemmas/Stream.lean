/-
  Lemmas about the stream model (`Stream.lean`) against the hand-written payload specification
  (`Spec/StreamWire.lean`): the decoder on a well-formed payload (C04) and the device-side encoder
  on representable samples (C15).
-/
import NxsModel.Stream
import NxsModel.Spec.StreamWire
import NxsModel.Lemmas.Struct
import NxsModel.Lemmas.StructRT
namespace Nxs.Stream
open Nxs Nxs.Spec.StreamWire Nxs.Gen.Ids Nxs.StructRT

/-- the struct-level value of a sample value -/
def toVal : SVal → Val
  | .int v => .int v
  | .fixed r _ => .int r
  | .text bs => .bytes bs
  | .bytes bs => .bytes bs
  | .f32 w => .f32 w
  | .f64 w => .f64 w
  | .bool b => .bool b

/-! ### spec encoders are what `struct.pack` produces -/

theorem encInt_packU {w : Nat} {v : Int} {bs : Bytes} (h : encInt false w v = some bs) :
    packU false w v = .ok bs := by
  simp only [encInt, Bool.false_eq_true, if_false] at h
  unfold packU
  split at h
  next hv =>
    rw [if_pos hv]
    cases h
    rw [Int.emod_eq_of_lt hv.1 hv.2]
    simp [ordBytes]
  next => cases h

theorem encInt_packS {w : Nat} {v : Int} {bs : Bytes} (h : encInt true w v = some bs) :
    packS false w v = .ok bs := by
  simp only [encInt, if_true] at h
  unfold packS
  split at h
  next hv =>
    rw [if_pos hv]
    cases h
    simp [ordBytes]
  next => cases h

theorem padTo_eq_self {n : Nat} {bs : Bytes} (h : bs.length = n) : padTo n bs = bs := by
  simp [padTo, ← h]

theorem encAtom_packAtom {a : Atom} {v : SVal} {bs : Bytes} (h : encAtom a v = some bs) :
    packAtom false a (toVal v) = .ok bs := by
  obtain ⟨cd, n⟩ := a
  cases cd
  case B | H | I | Q =>
    cases v <;> simp only [encAtom] at h <;>
      first
      | (cases h; done)
      | (simp only [packAtom, toVal, Val.asInt?, Code.size]; exact encInt_packU h)
  case b | h | i | q =>
    cases v <;> simp only [encAtom] at h <;>
      first
      | (cases h; done)
      | (simp only [packAtom, toVal, Val.asInt?, Code.size]; exact encInt_packS h)
  case bool =>
    cases v <;> simp only [encAtom] at h <;> first | (cases h; done) | skip
    next b => cases h; cases b <;> simp [packAtom, toVal, Val.truthy]
  case c =>
    cases v <;> simp only [encAtom] at h <;> first | (cases h; done) | skip
    all_goals
      split at h
      next hl =>
        cases h
        match bs, hl with
        | [x], _ => rfl
      next => cases h
  case s =>
    cases v <;> simp only [encAtom] at h <;> first | (cases h; done) | skip
    all_goals
      split at h
      next hl => cases h; simp [packAtom, toVal, padTo_eq_self hl]
      next => cases h
  case f =>
    cases v <;> simp only [encAtom] at h <;> first | (cases h; done) | skip
    cases h; simp [packAtom, toVal, ordBytes]
  case d =>
    cases v <;> simp only [encAtom] at h <;> first | (cases h; done) | skip
    cases h; simp [packAtom, toVal, ordBytes]

theorem canon_toVal {a : Atom} {v : SVal} {bs : Bytes} (h : encAtom a v = some bs) :
    canon a (toVal v) = toVal v := by
  obtain ⟨cd, n⟩ := a
  cases cd
  case s =>
    cases v <;> simp only [encAtom] at h <;> first | (cases h; done) | skip
    all_goals
      split at h
      next hl => simp [canon, toVal, padTo_eq_self hl]
      next => cases h
  all_goals
    cases v <;> simp only [encAtom] at h <;> first | (cases h; done) | rfl

/-- decoding the bytes of one encoded value gives the value back -/
theorem encAtom_unpack {a : Atom} {v : SVal} {bs : Bytes} (h : encAtom a v = some bs) :
    bs.length = a.size ∧ unpackAtom false a bs = toVal v :=
  ⟨packAtom_length (encAtom_packAtom h),
   by rw [unpackAtom_packAtom (encAtom_packAtom h), canon_toVal h]⟩

/-! ### lists of values -/

theorem encList_cons_some {α β : Type} {enc : α → β → Option Bytes} {a : α} {as : List α} {v : β}
    {vs : List β} {b : Bytes} (h : encList enc (a :: as) (v :: vs) = some b) :
    ∃ x r, enc a v = some x ∧ encList enc as vs = some r ∧ b = x ++ r := by
  simp only [encList] at h
  split at h
  next x r h1 h2 => cases h; exact ⟨x, r, h1, h2, rfl⟩
  next => cases h

theorem encList_cons_of {α β : Type} {enc : α → β → Option Bytes} {a : α} {as : List α} {v : β}
    {vs : List β} {x r : Bytes} (h1 : enc a v = some x) (h2 : encList enc as vs = some r) :
    encList enc (a :: as) (v :: vs) = some (x ++ r) := by
  simp only [encList, h1, h2]

theorem encList_length {α β : Type} {enc : α → β → Option Bytes} {as : List α} {vs : List β}
    {b : Bytes} (h : encList enc as vs = some b) : as.length = vs.length := by
  induction as generalizing vs b with
  | nil => cases vs with
    | nil => rfl
    | cons v vs => simp [encList] at h
  | cons a as ih => cases vs with
    | nil => simp [encList] at h
    | cons v vs =>
      obtain ⟨x, r, _, h2, _⟩ := encList_cons_some h
      simp [ih h2]

theorem encList_imp {α β γ : Type} {f : α → β → Option Bytes} {g : α → γ → Option Bytes} (t : β → γ)
    {as : List α} {vs : List β} {b : Bytes}
    (hfg : ∀ a ∈ as, ∀ v x, f a v = some x → g a (t v) = some x)
    (h : encList f as vs = some b) : encList g as (vs.map t) = some b := by
  induction as generalizing vs b with
  | nil => cases vs with
    | nil => simpa [encList] using h
    | cons v vs => simp [encList] at h
  | cons a as ih => cases vs with
    | nil => simp [encList] at h
    | cons v vs =>
      obtain ⟨x, r, h1, h2, rfl⟩ := encList_cons_some h
      exact encList_cons_of (hfg a (by simp) v x h1)
        (ih (fun a' ha' => hfg a' (by simp [ha'])) h2)

/-- a list of encoded values: what `pack` produces, what `unpack` returns, and its length -/
theorem encList_atoms {as : List Atom} {vs : List SVal} {x : Bytes}
    (h : encList encAtom as vs = some x) :
    packAtoms false as (vs.map toVal) = .ok x ∧ unpackAtoms false as x = .ok (vs.map toVal)
      ∧ x.length = atomsSize as := by
  induction as generalizing vs x with
  | nil => cases vs with
    | nil => simp [encList] at h; subst h; exact ⟨rfl, rfl, rfl⟩
    | cons v vs => simp [encList] at h
  | cons a as ih => cases vs with
    | nil => simp [encList] at h
    | cons v vs =>
      obtain ⟨y, r, h1, h2, rfl⟩ := encList_cons_some h
      obtain ⟨ih1, ih2, ih3⟩ := ih h2
      obtain ⟨hl, hu⟩ := encAtom_unpack h1
      refine ⟨packAtoms_cons_ok (encAtom_packAtom h1) ih1, ?_, ?_⟩
      · rw [unpackAtoms_cons_append hl, ih2, ok_bind, hu]; rfl
      · simp [atomsSize, hl, ih3] at *

theorem encData_some {d : Dsfmt} {k : Nat} {a : Atom} {v : SVal} {b : Bytes}
    (h : encData d k a v = some b) : kindOk d k a v = true ∧ encAtom a v = some b := by
  unfold encData at h
  split at h
  next hk => exact ⟨hk, h⟩
  next => cases h

theorem encList_data {d : Dsfmt} {k : Nat} {as : List Atom} {vs : List SVal} {x : Bytes}
    (h : encList (encData d k) as vs = some x) :
    encList encAtom as vs = some x ∧ ∀ v ∈ vs, ∃ a, kindOk d k a v = true := by
  induction as generalizing vs x with
  | nil => cases vs with
    | nil => exact ⟨by simpa [encList] using h, by simp⟩
    | cons v vs => simp [encList] at h
  | cons a as ih => cases vs with
    | nil => simp [encList] at h
    | cons v vs =>
      obtain ⟨y, r, h1, h2, rfl⟩ := encList_cons_some h
      obtain ⟨hk, he⟩ := encData_some h1
      obtain ⟨ih1, ih2⟩ := ih h2
      refine ⟨encList_cons_of he ih1, ?_⟩
      intro w hw
      rcases List.mem_cons.mp hw with rfl | hw
      · exact ⟨a, hk⟩
      · exact ih2 w hw

/-! ### `_stream_data_get` returns the values of the kind the specification prescribes -/

theorem isFixed_iff (d : Dsfmt) :
    (d.dtype = dtNUM ∧ d.hasScale = true ∧ (¬ Gen.Types.decDividesOnlyScaled = true ∨ d.frac ≠ 0)) ↔
      isFixed d = true := by
  simp [isFixed, Gen.Types.decDividesOnlyScaled, and_assoc]

/-- char data is decoded with `errors="replace"` (F4): needed for "sample content alone never makes decoding
    fail" — with the strict decoder (`decCharReplace = false`) this does not hold and everything below that
    concerns CHAR channels stops checking -/
theorem charReplace : Gen.Types.decCharReplace = true := by decide

theorem streamDataGet_toVal (d : Dsfmt) (vs : List SVal)
    (hk : ∀ v ∈ vs, ∃ a, kindOk d vs.length a v = true) :
    streamDataGet d (vs.map toVal) = .ok vs := by
  unfold streamDataGet streamDataGetP
  rw [List.length_map]
  by_cases hf : isFixed d = true
  · rw [if_pos ((isFixed_iff d).mpr hf), List.map_map]
    have hnum : d.dtype = dtNUM := by
      simp [isFixed] at hf; exact hf.1.1
    congr 1
    conv => rhs; rw [← List.map_id vs]
    apply List.map_congr_left
    intro v hv
    obtain ⟨a, ha⟩ := hk v hv
    cases v <;> simp [kindOk, hf, isText, hnum, dtNUM, dtCHAR] at ha <;> simp [toVal, valToS, ha]
  · rw [if_neg (fun h => hf ((isFixed_iff d).mp h))]
    by_cases ht : d.dtype = dtCHAR ∧ vs.length = 1
    · rw [if_pos ht]
      match vs, ht.2, hk with
      | [v], _, hk =>
        obtain ⟨a, ha⟩ := hk v (by simp)
        cases v <;> simp [kindOk, hf, isText, ht.1] at ha
        simp [toVal, charReplace]
    · rw [if_neg ht, List.map_map]
      congr 1
      conv => rhs; rw [← List.map_id vs]
      apply List.map_congr_left
      intro v hv
      obtain ⟨a, ha⟩ := hk v hv
      have ht' : isText d vs.length = false := by
        simp only [isText]
        by_cases h1 : d.dtype = dtCHAR
        · have : vs.length ≠ 1 := fun h2 => ht ⟨h1, h2⟩
          simp [this]
        · simp [h1]
      cases v <;> simp [kindOk, hf, ht'] at ha <;> simp [toVal, valToS]

/-! ### metadata -/

theorem msfmt_atoms (be : Bool) (mlen : Nat) : Fmt.atoms ⟨be, msfmtGet mlen⟩ = metaAtoms mlen := by
  unfold msfmtGet metaAtoms Gen.Types.metaTable
  by_cases h0 : mlen = 0
  · subst h0; simp [Fmt.atoms]
  by_cases h1 : mlen = 1
  · subst h1; simp [Fmt.atoms, itemAtoms, Code.size]
  by_cases h2 : mlen = 2
  · subst h2; simp [Fmt.atoms, itemAtoms, Code.size]
  by_cases h4 : mlen = 4
  · subst h4; simp [Fmt.atoms, itemAtoms, Code.size]
  by_cases h8 : mlen = 8
  · subst h8; simp [Fmt.atoms, itemAtoms, Code.size]
  have e0 : ¬ 0 = mlen := fun h => h0 h.symm
  have e1 : ¬ 1 = mlen := fun h => h1 h.symm
  have e2 : ¬ 2 = mlen := fun h => h2 h.symm
  have e4 : ¬ 4 = mlen := fun h => h4 h.symm
  have e8 : ¬ 8 = mlen := fun h => h8 h.symm
  simp [List.find?, e0, e1, e2, e4, e8, h1, h2, h4, h8, Fmt.atoms, itemAtoms, Code.size]

theorem metaAtoms_unsigned (mlen : Nat) : ∀ a ∈ metaAtoms mlen, isUnsignedCode a.code = true := by
  intro a ha
  unfold metaAtoms at ha
  repeat' split at ha
  all_goals first
    | (simp at ha; subst ha; rfl)
    | (obtain ⟨_, rfl⟩ := List.mem_replicate.mp ha; rfl)

theorem metaAtoms_size (mlen : Nat) : atomsSize (metaAtoms mlen) = mlen := by
  unfold metaAtoms
  repeat' split
  all_goals first
    | (subst_vars; rfl)
    | skip
  simp [atomsSize, Atom.size, Code.size]

theorem encMeta_encAtom {a : Atom} (ha : isUnsignedCode a.code = true) (m : Int) (x : Bytes)
    (h : encMeta a m = some x) : encAtom a (.int m) = some x := by
  obtain ⟨cd, n⟩ := a
  cases cd <;> simp [isUnsignedCode] at ha <;> simpa [encMeta, encAtom, Code.size] using h

theorem valsToInts_map_int (ms : List Int) : valsToInts (ms.map Val.int) = ms := by
  induction ms with
  | nil => rfl
  | cons m ms ih => simp [valsToInts, ih]

theorem map_toVal_int (ms : List Int) : (ms.map SVal.int).map toVal = ms.map Val.int := by
  simp [List.map_map, Function.comp_def, toVal]

/-- the metadata bytes: what `pack` produces, what `unpack` returns, and their number -/
theorem encList_meta {mlen : Nat} {ms : List Int} {m : Bytes}
    (h : encList encMeta (metaAtoms mlen) ms = some m) :
    packAtoms false (metaAtoms mlen) (ms.map Val.int) = .ok m ∧
      unpackAtoms false (metaAtoms mlen) m = .ok (ms.map Val.int) ∧ m.length = mlen := by
  have h1 := encList_imp SVal.int
    (fun a ha v x hx => encMeta_encAtom (metaAtoms_unsigned mlen a ha) v x hx) h
  obtain ⟨p1, p2, p3⟩ := encList_atoms h1
  rw [map_toVal_int] at p1 p2
  exact ⟨p1, p2, by rw [p3, metaAtoms_size]⟩

/-! ### the generated type table is the hand-written standard table -/

/-- nxslib's type table (`iparse.dsfmt_get`, regenerated from the source on every run) is, row by row, the
    table of NONE and the 18 standard NxScope types written out by hand in `Spec/StreamWire.lean`: same
    ids, widths, signedness (struct letter), fraction bits, kinds and scale representation -/
theorem table_is_standard : Gen.Types.table = standardTable := by decide

/-- hence the model's type lookup is the specification's -/
theorem dsfmtGet_eq (ty : Nat) (user : List UserType) : dsfmtGet ty user = typeGet ty user := by
  unfold dsfmtGet typeGet
  rw [table_is_standard, standardTable, List.find?_map]
  have hf : ((fun r : Gen.Types.Row => decide (r.ty = ty)) ∘ rowOf) = fun t : StdType => decide (t.ty = ty) := rfl
  rw [hf]
  cases stdTypes.find? (fun t => decide (t.ty = ty)) with
  | none => rfl
  | some t => rfl

/-! ### the type table -/

/-- per row: the sample size is the size of the struct code (0 without a code) -/
def rowOk (r : Gen.Types.Row) : Bool :=
  match r.code with
  | none => r.slen = 0
  | some cd => r.slen = cd.size

theorem table_rowOk : ∀ r ∈ Gen.Types.table, rowOk r = true := by decide

theorem dsfmtGet_shape {ty : Nat} {user : List UserType} {d : Dsfmt} (h : dsfmtGet ty user = .ok d) :
    (d.user = false ∧ ((d.items = [] ∧ d.slen = 0) ∨ ∃ cd, d.items = [(1, cd)] ∧ d.slen = cd.size)) ∨
      (d.user = true ∧ d.slen = 1) := by
  unfold dsfmtGet at h
  split at h
  next r hr =>
    have hm := table_rowOk r (List.mem_of_find?_eq_some hr)
    cases h
    left
    refine ⟨rfl, ?_⟩
    unfold rowOk at hm
    cases hc : r.code with
    | none => rw [hc] at hm; left; exact ⟨rfl, by simpa using hm⟩
    | some cd => rw [hc] at hm; right; exact ⟨cd, rfl, by simpa using hm⟩
  next =>
    split at h
    next u hu => cases h; right; exact ⟨rfl, rfl⟩
    next => cases h

theorem itemAtoms_size (n : Nat) (cd : Code) : atomsSize (itemAtoms (n, cd)) = cd.size * n := by
  cases cd <;> simp [itemAtoms, atomsSize, Atom.size, Code.size, Nat.mul_comm]

/-- the decoder's data format is the specification's list of values, `slen * vdim` bytes long -/
theorem dataFmt_spec {ty : Nat} {user : List UserType} {d : Dsfmt} {vdim : Nat}
    (h : dsfmtGet ty user = .ok d) (hdim : dimOk d vdim = true) :
    ∃ f, dataFmt d vdim = .ok f ∧ f.be = false ∧ f.atoms = dataAtoms d vdim ∧
      atomsSize (dataAtoms d vdim) = d.slen * vdim := by
  rcases dsfmtGet_shape h with ⟨hu, hs⟩ | ⟨hu, hs⟩
  · rcases hs with ⟨hi, hl⟩ | ⟨cd, hi, hl⟩
    · have hv : vdim = 0 := by simpa [dimOk, hu, hi] using hdim
      subst hv
      refine ⟨⟨false, []⟩, ?_, rfl, ?_, ?_⟩
      · simp [dataFmt, hi, Gen.Fmt.streamDecBigEndian]
      · simp [dataAtoms, hu, hi, Fmt.atoms]
      · simp [dataAtoms, hu, hi, atomsSize]
    · have hv : 1 ≤ vdim := by simpa [dimOk, hu, hi] using hdim
      have hv0 : vdim ≠ 0 := by omega
      refine ⟨⟨false, [(vdim, cd)]⟩, ?_, rfl, ?_, ?_⟩
      · simp [dataFmt, hi, hu, hv0, Gen.Fmt.streamDecBigEndian]
      · cases cd <;> simp [dataAtoms, hu, hi, Fmt.atoms, itemAtoms]
      · have : dataAtoms d vdim = itemAtoms (vdim, cd) := by
          cases cd <;> simp [dataAtoms, hu, hi, itemAtoms]
        rw [this, itemAtoms_size, hl]
  · have hv : atomsSize (d.items.flatMap itemAtoms) = vdim := by simpa [dimOk, hu] using hdim
    refine ⟨⟨false, d.items⟩, ?_, rfl, ?_, ?_⟩
    · simp [dataFmt, hu, Gen.Fmt.streamDecBigEndian]
    · simp [dataAtoms, hu, Fmt.atoms]
    · simp [dataAtoms, hu, hv, hs]

/-! ### the decoder on a well-formed payload -/

theorem byteOf_toNat {n : Nat} (h : n ≤ 255) : (byteOf n).toNat = n := by
  simp [byteOf]; omega

theorem decodeOne_wire {layout : List Chan} {user : List UserType} {s : Sample} {b : Bytes}
    (rest : Bytes) (h : wireSample layout user s = some b) :
    decodeOne layout user (b ++ rest) = .ok (s, rest) := by
  unfold wireSample at h
  split at h
  next => cases h
  next ch hch =>
    split at h
    next => cases h
    next d hd =>
      rw [← dsfmtGet_eq] at hd
      split at h
      next hc =>
        obtain ⟨hid, hvd, hml, hdt, hdim⟩ := hc
        simp only at h
        split at h
        next x m hx hm =>
          cases h
          obtain ⟨f, hf, hbe, hfa, hsz⟩ := dataFmt_spec hd hdim
          obtain ⟨hx1, hxk⟩ := encList_data hx
          obtain ⟨_, hxu, hxl⟩ := encList_atoms hx1
          obtain ⟨_, hmu, hml'⟩ := encList_meta hm
          have hlen := encList_length hx
          have hnu : ¬ (d.user = true ∧ calcsize ⟨false, d.items⟩ ≠ ch.vdim) := by
            intro ⟨hu, hne⟩
            apply hne
            show atomsSize (d.items.flatMap itemAtoms) = ch.vdim
            simpa [dimOk, hu] using hdim
          have e1 : byteOf s.chan :: (x ++ m) ++ rest = byteOf s.chan :: (x ++ (m ++ rest)) := by simp
          have hoff : d.slen * ch.vdim = x.length := by rw [hxl, hsz]
          rw [e1]
          unfold decodeOne
          simp only [byteOf_toNat hid, hch, hd, ok_bind, if_neg hnu, hf, hoff, List.take_left,
            List.drop_left, ← hml']
          unfold unpack
          rw [hbe, hfa, hxu, ok_bind]
          have hb : Gen.Fmt.streamDecBigEndian = false := rfl
          rw [hlen] at hxk
          rw [streamDataGet_toVal d s.data hxk, ok_bind]
          simp only [msfmt_atoms, hml', hb, hmu, ok_bind, valsToInts_map_int]
          cases s
          simp_all
        next => cases h
      next => cases h

theorem wireSample_ne_nil {layout : List Chan} {user : List UserType} {s : Sample} {b : Bytes}
    (h : wireSample layout user s = some b) : ∃ c t, b = c :: t := by
  unfold wireSample at h
  split at h
  next => cases h
  next =>
    split at h
    next => cases h
    next =>
      split at h
      next =>
        simp only at h
        split at h
        next => cases h; exact ⟨_, _, rfl⟩
        next => cases h
      next => cases h

theorem wireOf_cons_some {layout : List Chan} {user : List UserType} {s : Sample} {ss : List Sample}
    {b : Bytes} (h : wireOf layout user (s :: ss) = some b) :
    ∃ x r, wireSample layout user s = some x ∧ wireOf layout user ss = some r ∧ b = x ++ r := by
  simp only [wireOf] at h
  split at h
  next x r h1 h2 => cases h; exact ⟨x, r, h1, h2, rfl⟩
  next => cases h

theorem wireOf_cons_of {layout : List Chan} {user : List UserType} {s : Sample} {ss : List Sample}
    {x r : Bytes} (h1 : wireSample layout user s = some x) (h2 : wireOf layout user ss = some r) :
    wireOf layout user (s :: ss) = some (x ++ r) := by
  simp only [wireOf, h1, h2]

theorem wireOf_append {layout : List Chan} {user : List UserType} {s1 s2 : List Sample}
    {b1 b2 : Bytes} (h1 : wireOf layout user s1 = some b1) (h2 : wireOf layout user s2 = some b2) :
    wireOf layout user (s1 ++ s2) = some (b1 ++ b2) := by
  induction s1 generalizing b1 with
  | nil => simp [wireOf] at h1; subst h1; simpa using h2
  | cons s ss ih =>
    obtain ⟨x, r, hx, hr, rfl⟩ := wireOf_cons_some h1
    rw [List.cons_append, List.append_assoc]
    exact wireOf_cons_of hx (ih hr)

/-- the sample loop on a well-formed payload body, for any sufficient fuel -/
theorem decodeLoop_wire {layout : List Chan} {user : List UserType} {ss : List Sample} {body : Bytes}
    (fuel : Nat) (h : wireOf layout user ss = some body) (hf : body.length ≤ fuel) :
    decodeLoop layout user fuel body = .ok ss := by
  induction ss generalizing body fuel with
  | nil =>
    simp [wireOf] at h; subst h
    simp [decodeLoop]
  | cons s ss ih =>
    obtain ⟨x, r, hx, hr, rfl⟩ := wireOf_cons_some h
    obtain ⟨c, t, rfl⟩ := wireSample_ne_nil hx
    cases fuel with
    | zero => simp at hf
    | succ fuel =>
      have hr' : r.length ≤ fuel := by simp at hf; omega
      have e : c :: t ++ r = c :: (t ++ r) := rfl
      rw [e, decodeLoop, ← e, decodeOne_wire r hx, ok_bind]
      · simp only [ih fuel hr hr', ok_bind]
      · intro h0; cases h0

theorem streamDecode_wire (layout : List Chan) (user : List UserType) (flags : Byte)
    (ss : List Sample) (body : Bytes) (hw : wireOf layout user ss = some body) :
    streamDecode layout user (flags :: body) = .ok (some (flags.toNat, ss)) := by
  unfold streamDecode
  simp only [decodeLoop_wire body.length hw (Nat.le_refl _), ok_bind]

/-! ### the device-side encoder on representable samples -/

theorem padNul_length_le {n : Nat} {bs : Bytes} (h : (padNul n bs).length = n) : bs.length ≤ n := by
  simp [padNul] at h; omega

theorem padTo_padNul {n : Nat} {bs : Bytes} (h : (padNul n bs).length = n) :
    padTo n bs = padNul n bs := by
  have hl := padNul_length_le h
  simp [padTo, padNul, List.take_of_length_le hl]

theorem encAtom_pad_packAtom {a : Atom} {v : SVal} {bs : Bytes}
    (h : encAtom a (padVal a v) = some bs) : packAtom false a (toVal v) = .ok bs := by
  obtain ⟨cd, n⟩ := a
  by_cases hs : cd = .s
  · subst hs
    cases v <;> simp only [padVal, if_true, encAtom] at h <;> first | (cases h; done) | skip
    all_goals
      split at h
      next hl => cases h; simp [packAtom, toVal, padTo_padNul hl]
      next => cases h
  · have : padVal ⟨cd, n⟩ v = v := by cases v <;> simp [padVal, hs]
    rw [this] at h
    exact encAtom_packAtom h

theorem kindOk_padVal (d : Dsfmt) (k : Nat) (a : Atom) (v : SVal) :
    kindOk d k a (padVal a v) = kindOk d k a v := by
  cases v <;> simp only [padVal] <;> first | rfl | (split <;> rfl)

theorem padVals_length (as : List Atom) (vs : List SVal) : (padVals as vs).length = vs.length := by
  induction as generalizing vs with
  | nil => cases vs <;> rfl
  | cons a as ih => cases vs with
    | nil => rfl
    | cons v vs => simp [padVals, ih]

/-- representable data: the specification bytes of the padded values are what `pack` produces -/
theorem dataRep_spec {d : Dsfmt} {k : Nat} {as : List Atom} {vs : List SVal}
    (h : dataRep d k as vs = true) :
    ∃ x, encList (encData d k) as (padVals as vs) = some x ∧
      packAtoms false as (vs.map toVal) = .ok x ∧ ∀ v ∈ vs, ∃ a, kindOk d k a v = true := by
  induction as generalizing vs with
  | nil => cases vs with
    | nil => exact ⟨[], rfl, rfl, by simp⟩
    | cons v vs => simp [dataRep] at h
  | cons a as ih => cases vs with
    | nil => simp [dataRep] at h
    | cons v vs =>
      simp only [dataRep, Bool.and_eq_true] at h
      obtain ⟨⟨⟨hk, _⟩, he⟩, hr⟩ := h
      obtain ⟨r, ih1, ih2, ih3⟩ := ih hr
      obtain ⟨y, hy⟩ := Option.isSome_iff_exists.mp he
      refine ⟨y ++ r, ?_, packAtoms_cons_ok (encAtom_pad_packAtom hy) ih2, ?_⟩
      · refine encList_cons_of ?_ ih1
        simp [encData, kindOk_padVal, hk, hy]
      · intro w hw
        rcases List.mem_cons.mp hw with rfl | hw
        · exact ⟨a, hk⟩
        · exact ih3 w hw

theorem metaRep_spec {as : List Atom} {ms : List Int} (h : metaRep as ms = true) :
    ∃ m, encList encMeta as ms = some m := by
  induction as generalizing ms with
  | nil => cases ms with
    | nil => exact ⟨[], rfl⟩
    | cons v vs => simp [metaRep] at h
  | cons a as ih => cases ms with
    | nil => simp [metaRep] at h
    | cons v vs =>
      simp only [metaRep, Bool.and_eq_true] at h
      obtain ⟨y, hy⟩ := Option.isSome_iff_exists.mp h.1
      obtain ⟨r, hr⟩ := ih h.2
      exact ⟨y ++ r, encList_cons_of hy hr⟩

theorem mapM'_sToVal {d : Dsfmt} {k : Nat} {vs : List SVal}
    (hk : ∀ v ∈ vs, ∃ a, kindOk d k a v = true) : mapM' (sToVal d) vs = .ok (vs.map toVal) := by
  induction vs with
  | nil => rfl
  | cons v vs ih =>
    have hv : sToVal d v = .ok (toVal v) := by
      obtain ⟨a, ha⟩ := hk v (by simp)
      cases v <;> try rfl
      simp only [kindOk, Bool.and_eq_true, decide_eq_true_eq] at ha
      simp [sToVal, toVal, Gen.Types.encRoundsFixed, ha.2]
    simp only [mapM', hv, ok_bind, ih (fun w hw => hk w (by simp [hw])), List.map_cons]

/-- the struct format items of `_stream_bytes_get` -/
def encItems (d : Dsfmt) (vdim : Nat) : Option (List (Nat × Code)) :=
  if vdim ≠ 0 then
    if ¬ d.user then
      (match d.items with
        | [(1, cd)] => some (Gen.Fmt.streamChanEnc.items ++ [(vdim, cd)])
        | _ => none)
    else some (Gen.Fmt.streamChanEnc.items ++ d.items)
  else some Gen.Fmt.streamChanEnc.items

theorem encItems_spec {ty : Nat} {user : List UserType} {d : Dsfmt} {vdim : Nat}
    (h : dsfmtGet ty user = .ok d) (hdim : dimOk d vdim = true)
    (h0 : vdim ≠ 0 ∨ dataAtoms d vdim = []) :
    ∃ its, encItems d vdim = some its ∧ Fmt.atoms ⟨false, its⟩ = ⟨.B, 1⟩ :: dataAtoms d vdim := by
  have hc : Gen.Fmt.streamChanEnc.items = [(1, .B)] := rfl
  by_cases hv : vdim = 0
  · have ha : dataAtoms d vdim = [] := by
      rcases h0 with h0 | h0
      · exact absurd hv h0
      · exact h0
    refine ⟨[(1, .B)], by simp [encItems, hv, hc], ?_⟩
    rw [ha]; simp [Fmt.atoms, itemAtoms, Code.size]
  · rcases dsfmtGet_shape h with ⟨hu, hs⟩ | ⟨hu, hs⟩
    · rcases hs with ⟨hi, hl⟩ | ⟨cd, hi, hl⟩
      · have : vdim = 0 := by simpa [dimOk, hu, hi] using hdim
        exact absurd this hv
      · refine ⟨[(1, .B), (vdim, cd)], by simp [encItems, hv, hu, hi, hc], ?_⟩
        cases cd <;> simp [dataAtoms, hu, hi, Fmt.atoms, itemAtoms, Code.size]
    · refine ⟨(1, .B) :: d.items, by simp [encItems, hv, hu, hc], ?_⟩
      simp [dataAtoms, hu, Fmt.atoms, itemAtoms, Code.size]

theorem streamBytesGet_eq (d : Dsfmt) (s : Sample) :
    streamBytesGet d s =
      match encItems d s.vdim with
      | none => .error .structError
      | some its =>
        let f : Fmt := ⟨Gen.Fmt.streamChanEnc.be, its⟩
        if d.dtype = dtNUM then
          (mapM' (sToVal d) s.data).bind fun vs => pack f (.int s.chan :: vs)
        else if d.dtype = dtCHAR then
          match s.data with
          | .text bs :: _ => pack f [.int s.chan, .bytes bs]
          | [] => .error .indexError
          | _ => .error .typeError
        else if d.dtype = dtNONE then pack f [.int s.chan]
        else if d.dtype = dtCOMPLEX then
          (mapM' (sToVal d) s.data).bind fun vs => pack f (.int s.chan :: vs)
        else .error .assertion := rfl

theorem repFull_parts {d : Dsfmt} {s : Sample} (h : RepFull d s = true) :
    s.chan ≤ 255 ∧ dimOk d s.vdim = true ∧ (s.vdim ≠ 0 ∨ dataAtoms d s.vdim = []) ∧
      dtypeRule d s = true ∧
      dataRep d (dataAtoms d s.vdim).length (dataAtoms d s.vdim) s.data = true ∧
      metaRep (metaAtoms s.mlen) s.mdata = true := by
  simp only [RepFull, Bool.and_eq_true, Bool.or_eq_true, decide_eq_true_eq, List.isEmpty_iff] at h
  obtain ⟨⟨⟨⟨⟨h1, h2⟩, h3⟩, h4⟩, h5⟩, h6⟩ := h
  exact ⟨h1, h2, h3, h4, h5, h6⟩

/-- one representable sample: the encoder's bytes are the specification's -/
theorem streamBytesGet_rep {ty : Nat} {user : List UserType} {d : Dsfmt} {s : Sample}
    (hd : dsfmtGet ty user = .ok d) (hr : RepFull d s = true) :
    ∃ x m, encList (encData d (dataAtoms d s.vdim).length) (dataAtoms d s.vdim)
          (padVals (dataAtoms d s.vdim) s.data) = some x ∧
      encList encMeta (metaAtoms s.mlen) s.mdata = some m ∧
      streamBytesGet d s = .ok (byteOf s.chan :: x) ∧
      (if (msfmtGet s.mlen).isEmpty then .ok []
        else pack ⟨false, msfmtGet s.mlen⟩ (s.mdata.map Val.int)) = .ok m := by
  obtain ⟨hid, hdim, h0, hrule, hdata, hmeta⟩ := repFull_parts hr
  obtain ⟨x, hx, hpx, hkx⟩ := dataRep_spec hdata
  obtain ⟨m, hm⟩ := metaRep_spec hmeta
  obtain ⟨its, hits, hatoms⟩ := encItems_spec hd hdim h0
  refine ⟨x, m, hx, hm, ?_, ?_⟩
  · have hpack : pack ⟨Gen.Fmt.streamChanEnc.be, its⟩ (.int s.chan :: s.data.map toVal) =
        .ok (byteOf s.chan :: x) := by
      unfold pack
      have hbe : Gen.Fmt.streamChanEnc.be = false := rfl
      rw [hbe]
      show packAtoms false (Fmt.atoms ⟨false, its⟩) _ = _
      rw [hatoms]
      exact packAtoms_cons_ok (packAtom_B false 1 s.chan (by omega)) hpx
    rw [streamBytesGet_eq, hits]
    simp only
    unfold dtypeRule at hrule
    by_cases hnone : d.dtype = dtNONE
    · rw [if_pos hnone] at hrule
      have hdat : s.data = [] := List.isEmpty_iff.mp hrule
      have n1 : ¬ d.dtype = dtNUM := by rw [hnone]; decide
      have n2 : ¬ d.dtype = dtCHAR := by rw [hnone]; decide
      rw [if_neg n1, if_neg n2, if_pos hnone]
      rw [hdat] at hpack
      exact hpack
    · rw [if_neg hnone] at hrule
      by_cases hchar : d.dtype = dtCHAR
      · rw [if_pos hchar] at hrule
        have n1 : ¬ d.dtype = dtNUM := by rw [hchar]; decide
        rw [if_neg n1, if_pos hchar]
        split at hrule
        next bs hdat => rw [hdat] at hpack ⊢; exact hpack
        next => cases hrule
      · rw [if_neg hchar] at hrule
        simp only [Bool.or_eq_true, decide_eq_true_eq] at hrule
        rcases hrule with hnum | hcx
        · rw [if_pos hnum, mapM'_sToVal hkx, ok_bind]; exact hpack
        · have n1 : ¬ d.dtype = dtNUM := by rw [hcx]; decide
          rw [if_neg n1, if_neg hchar, if_neg hnone, if_pos hcx, mapM'_sToVal hkx, ok_bind]
          exact hpack
  · obtain ⟨pm, _, _⟩ := encList_meta hm
    by_cases hE : (msfmtGet s.mlen).isEmpty = true
    · rw [if_pos hE]
      have ha : metaAtoms s.mlen = [] := by
        rw [← msfmt_atoms false, List.isEmpty_iff.mp hE]; rfl
      rw [ha] at hm
      cases hmd : s.mdata with
      | nil => rw [hmd] at hm; simp [encList] at hm; rw [hm]
      | cons v vs => rw [hmd] at hm; simp [encList] at hm
    · rw [if_neg hE]
      unfold pack
      rw [msfmt_atoms]
      exact pm

theorem wireSample_decodedForm {L : List Chan} {user : List UserType} {d : Dsfmt} {s : Sample}
    {x m : Bytes} (hd : dsfmtGet s.dtype user = .ok d) (hr : RepFull d s = true)
    (hL : L[s.chan]? = some ⟨s.dtype, s.vdim, s.mlen⟩)
    (hx : encList (encData d (dataAtoms d s.vdim).length) (dataAtoms d s.vdim)
          (padVals (dataAtoms d s.vdim) s.data) = some x)
    (hm : encList encMeta (metaAtoms s.mlen) s.mdata = some m) :
    wireSample L user (decodedForm user s) = some (byteOf s.chan :: (x ++ m)) := by
  obtain ⟨hid, hdim, _, _, _, _⟩ := repFull_parts hr
  have hd' : typeGet s.dtype user = .ok d := by rw [← dsfmtGet_eq]; exact hd
  have hdf : decodedForm user s =
      { s with dtype := d.dtype, data := padVals (dataAtoms d s.vdim) s.data } := by
    simp only [decodedForm, hd']
  rw [hdf]
  unfold wireSample
  simp only [hL, hd', hx, hm, hid, hdim, and_self, if_true]

/-- the sample loop of the encoder produces the specification payload of the decoded forms -/
theorem encodeSamples_wire {user : List UserType} {L : List Chan} {ss : List Sample}
    (hrep : ∀ s ∈ ss, Representable user s) (hL : LayoutAgrees L ss) :
    ∃ body, encodeSamples user ss = .ok (body, (ss.filter carries).length) ∧
      wireOf L user ((ss.filter carries).map (decodedForm user)) = some body := by
  induction ss with
  | nil => exact ⟨[], rfl, rfl⟩
  | cons s r ih =>
    obtain ⟨body, ihe, ihw⟩ := ih (fun t ht => hrep t (by simp [ht]))
      (fun t ht hc => hL t (by simp [ht]) hc)
    by_cases hc : carries s = true
    · have hskip : ¬ (s.data.isEmpty = true ∧ s.mdata.isEmpty = true) := by
        intro ⟨h1, h2⟩; simp [carries, h1, h2] at hc
      have hrs := hrep s (by simp)
      unfold Representable at hrs
      rw [← dsfmtGet_eq] at hrs
      rcases hrs with hrs | hrs
      · rw [hc] at hrs; cases hrs
      · cases hd : dsfmtGet s.dtype user with
        | error e => rw [hd] at hrs; exact absurd hrs (by simp)
        | ok d =>
          rw [hd] at hrs
          simp only at hrs
          obtain ⟨x, m, hx, hm, hb, hmm⟩ := streamBytesGet_rep hd hrs
          have hw := wireSample_decodedForm hd hrs (hL s (by simp) hc) hx hm
          refine ⟨byteOf s.chan :: (x ++ m) ++ body, ?_, ?_⟩
          · rw [encodeSamples, if_neg hskip, hd, ok_bind, hb, ok_bind, hmm, ok_bind, ihe, ok_bind]
            simp [hc]
          · rw [List.filter_cons, if_pos hc, List.map_cons]
            exact wireOf_cons_of hw ihw
    · have hskip : s.data.isEmpty = true ∧ s.mdata.isEmpty = true := by
        simp [carries] at hc; simp [hc]
      refine ⟨body, ?_, ?_⟩
      · rw [encodeSamples, if_pos hskip, ihe]
        simp [hc]
      · rw [List.filter_cons, if_neg hc]
        exact ihw

theorem packFlags : pack Gen.Fmt.streamFlagsEnc [.int 0] = .ok [0] := by decide +kernel

theorem filter_carries_length_pos {ss : List Sample} (h : ∃ s ∈ ss, carries s = true) :
    (ss.filter carries).length ≠ 0 := by
  obtain ⟨s, hs, hc⟩ := h
  have : s ∈ ss.filter carries := List.mem_filter.mpr ⟨hs, hc⟩
  intro h0
  rw [List.length_eq_zero_iff.mp h0] at this
  cases this

/-- `_stream_data_encode` on representable samples is the flags byte 0 and the specification
    payload of the samples that carry data or metadata -/
theorem streamDataEncode_wire {user : List UserType} {L : List Chan} {ss : List Sample}
    (hrep : ∀ s ∈ ss, Representable user s) (hL : LayoutAgrees L ss)
    (hne : ∃ s ∈ ss, carries s = true) :
    ∃ body, streamDataEncode user ss = .ok (some (0 :: body)) ∧
      wireOf L user ((ss.filter carries).map (decodedForm user)) = some body := by
  obtain ⟨body, he, hw⟩ := encodeSamples_wire hrep hL
  refine ⟨body, ?_, hw⟩
  unfold streamDataEncode
  rw [packFlags, ok_bind, he, ok_bind]
  simp only [if_neg (filter_carries_length_pos hne)]
  rfl

theorem encodeSamples_empty (user : List UserType) {ss : List Sample}
    (h : ∀ s ∈ ss, carries s = false) : encodeSamples user ss = .ok ([], 0) := by
  induction ss with
  | nil => rfl
  | cons s r ih =>
    have hs := h s (by simp)
    have hskip : s.data.isEmpty = true ∧ s.mdata.isEmpty = true := by
      simp [carries] at hs; simp [hs]
    rw [encodeSamples, if_pos hskip]
    exact ih (fun t ht => h t (by simp [ht]))

theorem streamDataEncode_empty (user : List UserType) {ss : List Sample}
    (h : ∀ s ∈ ss, carries s = false) : streamDataEncode user ss = .ok none := by
  unfold streamDataEncode
  rw [packFlags, ok_bind, encodeSamples_empty user h, ok_bind]
  rfl

/-! ### values that exist as Python floats -/

/-- `n` has at most `p` significant bits: the bits below its `p` most significant ones are zero -/
theorem sigBits_iff (p n : Nat) :
    n % 2 ^ (n.log2 + 1 - p) = 0 ↔ ∃ m e : Nat, m < 2 ^ p ∧ n = m * 2 ^ e := by
  constructor
  · intro h
    refine ⟨n / 2 ^ (n.log2 + 1 - p), n.log2 + 1 - p, ?_, ?_⟩
    · apply Nat.div_lt_of_lt_mul
      have h1 : n < 2 ^ (n.log2 + 1) := Nat.lt_log2_self
      have h2 : 2 ^ (n.log2 + 1) ≤ 2 ^ ((n.log2 + 1 - p) + p) :=
        Nat.pow_le_pow_right (by decide) (by omega)
      rw [Nat.pow_add (2 : Nat) (n.log2 + 1 - p) p] at h2
      exact Nat.lt_of_lt_of_le h1 h2
    · exact (Nat.div_mul_cancel (Nat.dvd_of_mod_eq_zero h)).symm
  · rintro ⟨m, e, hm, rfl⟩
    by_cases h0 : m * 2 ^ e = 0
    · rw [h0]; simp
    · have hlt : m * 2 ^ e < 2 ^ (p + e) := by
        rw [Nat.pow_add]
        exact Nat.mul_lt_mul_of_lt_of_le hm (Nat.le_refl _) (Nat.pow_pos (by decide))
      have hl := (Nat.log2_lt h0).mpr hlt
      have hk : (m * 2 ^ e).log2 + 1 - p ≤ e := by omega
      exact Nat.mod_eq_zero_of_dvd (Nat.dvd_trans (Nat.pow_dvd_pow 2 hk) (Nat.dvd_mul_left _ _))

/-- `floatExact raw` says exactly: raw = ± m · 2^e with m < 2^53 — raw is an IEEE binary64 value -/
theorem floatExact_iff (raw : Int) :
    floatExact raw = true ↔ ∃ m e : Nat, m < 2 ^ 53 ∧ raw.natAbs = m * 2 ^ e := by
  unfold floatExact
  rw [decide_eq_true_eq]
  exact sigBits_iff 53 raw.natAbs

end Nxs.Stream
