/-
  Round 7 helper lemmas for C09 (life cycle): histories from ANY world that satisfies the reachable-world invariant,
  histories without a connect on a switched-off handler, redundant connect / disconnect calls inside a history, the
  waiting time of a whole history.  Nothing here changes a model definition.
-/
import NxsModel.Lifecycle
import NxsModel.Lemmas.Lifecycle
namespace Nxs.Lifecycle
open Nxs Nxs.Config

/-! ### histories with answers from any world that satisfies the invariant -/

theorem r7_runA_ginv {n flags : Nat} {desc : Desc} {w : World} (h : GInv n flags desc w) (hist : List (Call × Ans)) :
    GInv n flags desc (runA w hist).1 := by
  induction hist using snoc_induction with
  | nil => exact h
  | snoc l c ih => rw [runA_snoc]; exact step_ginv ih c.1 c.2

/-- an all-acknowledged history from ANY world of the invariant in which — if connected — client and device agree:
    the generalisation of `reach` from the fresh world to every such world (in particular to a switched-off world
    reached through a history with rejected / lost requests) -/
theorem r7_reach_from {n flags : Nat} {desc : Desc} {W : World} (h0 : GInv n flags desc W)
    (hA0 : W.connected = true → AOn flags W) (calls : List Call) :
    GInv n flags desc (run W calls).1 ∧
    ((run W calls).1.connected = true → AOn flags (run W calls).1) ∧
    (badNameIdx n desc = none → Hist (Call.connect ∈ calls) (run W calls).1) := by
  induction calls using snoc_induction with
  | nil =>
    refine ⟨h0, hA0, ?_⟩
    intro _ hm; exact absurd hm List.not_mem_nil
  | snoc l c ih =>
    rw [run_snoc]
    exact ⟨step_ginv ih.1 c {}, a_step ih.1 ih.2.1 c, fun hbn => step_hist ih.1 ih.2.1 l c hbn (ih.2.2 hbn)⟩

/-- a bracketed, all-acknowledged session `connect … disconnect` (anything between) started on a switched-off world
    of the invariant ends switched off with the device stopped and every channel disabled -/
theorem r7_session {n flags : Nat} {desc : Desc} {W : World} (h0 : GInv n flags desc W) (hoff0 : W.connected = false)
    (hbn : badNameIdx n desc = none) (mid : List Call) :
    let w := (run W (.connect :: mid ++ [.disconnect])).1
    Off w ∧ w.devStarted = false ∧ ∀ b ∈ w.dev.en, b = false := by
  intro w
  have hA0 : W.connected = true → AOn flags W := fun hc => absurd (hoff0.symm.trans hc) (by decide)
  have h := (r7_reach_from h0 hA0 (.connect :: mid)).1
  obtain ⟨-, -, hH⟩ := r7_reach_from h0 hA0 (.connect :: mid ++ [.disconnect])
  have hoff : Off w := by
    show Off (run _ (.connect :: mid ++ [.disconnect])).1
    rw [run_snoc]
    rcases h.mode with hoff | hon
    · rw [step_disconnect_idem _ {} hoff.1]; exact hoff
    · exact (g_disconnect h hon {}).2.1
  have hm : Call.connect ∈ (.connect :: mid ++ [.disconnect] : List Call) := by simp
  exact ⟨hoff, hH hbn hm hoff.1⟩

/-! ### histories without a connect on a switched-off handler -/

/-- no call of a history without connect, made on a switched-off handler, reaches the device, starts anything or
    waits: the whole history leaves log, device, clock, interface padding untouched and the handler switched off -/
theorem r7_runA_off (w : World) (hist : List (Call × Ans)) (hc : ∀ c ∈ hist, c.1 ≠ .connect) (h : Off w) :
    Off (runA w hist).1 ∧ (runA w hist).1.log = w.log ∧ (runA w hist).1.dev = w.dev ∧
    (runA w hist).1.devStarted = w.devStarted ∧ (runA w hist).1.time = w.time ∧ (runA w hist).1.flags = w.flags ∧
    (runA w hist).1.desc = w.desc ∧ (runA w hist).1.intfPad = w.intfPad := by
  induction hist generalizing w with
  | nil => exact ⟨h, rfl, rfl, rfl, rfl, rfl, rfl, rfl⟩
  | cons c r ih =>
    rw [runA_cons]
    obtain ⟨s1, s2, s3, s4, s5, s6, s7, s8⟩ := step_off w c.1 c.2 (hc c (List.mem_cons_self ..)) h
    obtain ⟨i1, i2, i3, i4, i5, i6, i7, i8⟩ := ih (step w c.1 c.2).1 (fun x hx => hc x (List.mem_cons_of_mem _ hx)) s1
    exact ⟨i1, i2.trans s2, i3.trans s3, i4.trans s4, i5.trans s5, i6.trans s6, i7.trans s7, i8.trans s8⟩

/-! ### a call that does nothing can be dropped from a history -/

/-- a call that returns `.ok` without changing the world can be dropped from any history: same final world, and the
    results of all the other calls are the same -/
theorem r7_runA_drop (W : World) (pre post : List (Call × Ans)) (c : Call × Ans)
    (h : step (runA W pre).1 c.1 c.2 = ((runA W pre).1, .ok)) :
    (runA W (pre ++ c :: post)).1 = (runA W (pre ++ post)).1 ∧
    (runA W (pre ++ c :: post)).2 = (runA W pre).2 ++ Res.ok :: (runA (runA W pre).1 post).2 ∧
    (runA W (pre ++ post)).2 = (runA W pre).2 ++ (runA (runA W pre).1 post).2 := by
  rw [runA_append, runA_append, runA_cons, h]
  exact ⟨rfl, rfl, rfl⟩

/-! ### the waiting time of a whole history -/

theorem r7_runA_time (w : World) (hist : List (Call × Ans)) : (runA w hist).1.time ≤ w.time + 38 * hist.length := by
  induction hist generalizing w with
  | nil => exact Nat.le_refl _
  | cons c r ih =>
    rw [runA_cons, List.length_cons]
    have h1 := step_bounded w c.1 c.2
    have h2 := ih (step w c.1 c.2).1
    show (runA (step w c.1 c.2).1 r).1.time ≤ _
    omega

theorem r7_commRun_time (w : World) (hist : List (CommCall × Ans)) :
    (commRun w hist).1.time ≤ w.time + 20 * hist.length := by
  induction hist generalizing w with
  | nil => exact Nat.le_refl _
  | cons c r ih =>
    rw [commRun_cons, List.length_cons]
    have h1 := commStep_bounded w c.1 c.2
    have h2 := ih (commStep w c.1 c.2).1
    show (commRun (commStep w c.1 c.2).1 r).1.time ≤ _
    omega

end Nxs.Lifecycle
