/- helper lemmas about the simulated device (`Dummy.lean`) for C14 / C16 -/
import NxsModel.Dummy
import NxsModel.Lemmas.DummyHeap
import NxsModel.Spec.Wire
import NxsModel.Lemmas.Serial
import NxsModel.Lemmas.Accept
import NxsModel.Lemmas.Pad
import NxsModel.Lemmas.Info
import NxsModel.Lemmas.Requests
namespace Nxs.Dummy
open Nxs Nxs.Spec Nxs.Dispatch

attribute [local irreducible] crc16xmodem

/-! ### the dispatcher on well-formed frames -/

theorem hdrFind_wire (fid : Nat) (p : Bytes) : Serial.hdrFind (wire fid p) = some 0 := by
  unfold Serial.hdrFind
  have : wire fid p = (0x55 : Byte) :: ((wire fid p).drop 1) := rfl
  rw [this]
  simp [List.findIdx_cons, Gen.Frame.sof]

theorem recvHandle_wire (fid : Nat) (p : Bytes) (hp : p.length ≤ 65529) (hf : fid ≤ 8) :
    recvHandle (wire fid p) = cbHandle fid p := by
  rw [recvHandle_eq, hdrFind_wire]
  show (match Serial.frameDecode ((wire fid p).drop 0) with
    | .ok fr => cbHandle fr.fid fr.data
    | .error _ => Disp.ignored) = _
  rw [List.drop_zero, Serial.frameDecode_wire fid p hp hf]

theorem cbHandle_ne_ignored (fid : Nat) (p : Bytes) : cbHandle fid p ≠ .ignored := by
  unfold cbHandle
  split
  · simp
  · split <;> split <;> simp

/-- a well-formed frame followed by anything (zero padding in particular) is dispatched like the frame -/
theorem recvHandle_wire_append (fid : Nat) (p z : Bytes) (hp : p.length ≤ 65529) (hf : fid ≤ 8) :
    recvHandle (wire fid p ++ z) = cbHandle fid p := by
  rw [Pad.recvHandle_append _ _ (by rw [recvHandle_wire fid p hp hf]; exact cbHandle_ne_ignored _ _),
    recvHandle_wire fid p hp hf]

theorem recvHandle_wire_align (fid : Nat) (p : Bytes) (pad : Nat) (hp : p.length ≤ 65529) (hf : fid ≤ 8) :
    recvHandle (Pad.dataAlign pad (wire fid p)) = cbHandle fid p := by
  obtain ⟨k, _, _, hk⟩ := Pad.dataAlign_spec pad (wire fid p)
  rw [hk]; exact recvHandle_wire_append fid p _ hp hf

theorem cb_cmninfo : cbHandle 2 [] = .fired 0 [] := by decide
theorem cb_chinfo (c : Byte) : cbHandle 3 [c] = .fired 1 [c] := by
  simp [cbHandle, Gen.Recv.cbTable, Gen.Ids.idCMNINFO, Gen.Ids.idCHINFO, List.find?]
theorem cb_start (b : Byte) : cbHandle 5 [b] = .fired 4 [b] := by
  simp [cbHandle, Gen.Recv.cbTable, Gen.Ids.idCMNINFO, Gen.Ids.idCHINFO, Gen.Ids.idSTART, List.find?]
theorem cb_enable (p : Bytes) (h : p ≠ []) : cbHandle 6 p = .fired 2 p := by
  have : p.length ≠ 0 := by simpa using h
  simp [cbHandle, Gen.Recv.cbTable, Gen.Ids.idCMNINFO, Gen.Ids.idCHINFO, Gen.Ids.idSTART, Gen.Ids.idENABLE, List.find?, this]
theorem cb_div (p : Bytes) (h : p ≠ []) : cbHandle 7 p = .fired 3 p := by
  have : p.length ≠ 0 := by simpa using h
  simp [cbHandle, Gen.Recv.cbTable, Gen.Ids.idCMNINFO, Gen.Ids.idCHINFO, Gen.Ids.idSTART, Gen.Ids.idENABLE,
    Gen.Ids.idDIV, List.find?, this]

/-! ### ACK -/

/-- the four bytes of return code 0 -/
theorem ack0 : Info.ackEncode 0 = .ok (wire 4 [0, 0, 0, 0]) := by
  rw [Info.ackEncode_eq 0 (by omega) (by omega)]; rfl

theorem ackIf_eq (i : Inst) :
    ackIf i true = .ok (if Info.ackSupported i.flags then [wire 4 [0, 0, 0, 0]] else []) := by
  unfold ackIf
  by_cases h : Info.ackSupported i.flags = true
  · simp [h, ack0, Except.map]
  · simp [h]

/-! ### applying decoded vectors -/

theorem applyEn_ok (cs : List Chan) (vs : List Bool) (h : vs.length = cs.length) :
    applyEn cs vs = .ok (List.zipWith (fun c v => { c with en := v }) cs vs) := by
  induction cs generalizing vs with
  | nil => cases vs with
    | nil => rfl
    | cons _ _ => simp at h
  | cons c cs ih =>
    cases vs with
    | nil => simp at h
    | cons v vs =>
      simp only [applyEn, List.zipWith_cons_cons]
      rw [ih vs (by simpa using h)]; rfl

theorem applyDiv_ok (cs : List Chan) (vs : List Int) (h : vs.length = cs.length) :
    applyDiv cs vs = .ok (List.zipWith (fun c v => { c with div := v }) cs vs) := by
  induction cs generalizing vs with
  | nil => cases vs with
    | nil => rfl
    | cons _ _ => simp at h
  | cons c cs ih =>
    cases vs with
    | nil => simp at h
    | cons v vs =>
      simp only [applyDiv, List.zipWith_cons_cons]
      rw [ih vs (by simpa using h)]; rfl

/-- set the enable flags of the channels to `vs`, everything else untouched -/
def withEns (cs : List Chan) (vs : List Bool) : List Chan := List.zipWith (fun c v => { c with en := v }) cs vs
def withDivs (cs : List Chan) (vs : List Int) : List Chan := List.zipWith (fun c v => { c with div := v }) cs vs

theorem ensOf_withEns (cs : List Chan) (vs : List Bool) (h : vs.length = cs.length) : ensOf (withEns cs vs) = vs := by
  induction cs generalizing vs with
  | nil => cases vs <;> simp_all [ensOf, withEns]
  | cons c cs ih =>
    cases vs with
    | nil => simp at h
    | cons v vs =>
      have := ih vs (by simpa using h)
      simp_all [ensOf, withEns]

theorem divsOf_withDivs (cs : List Chan) (vs : List Int) (h : vs.length = cs.length) : divsOf (withDivs cs vs) = vs := by
  induction cs generalizing vs with
  | nil => cases vs <;> simp_all [divsOf, withDivs]
  | cons c cs ih =>
    cases vs with
    | nil => simp at h
    | cons v vs =>
      have := ih vs (by simpa using h)
      simp_all [divsOf, withDivs]


/-! ### one receive step on a well-formed request -/

def byte (n : Nat) : Byte := BitVec.ofNat 8 n
def b2n (b : Bool) : Nat := if b then 1 else 0

/-- the fields a conforming configuration keeps within one byte (what the info frames can carry) -/
structure ChanOk (c : Chan) : Prop where
  type : c.type ≤ 255
  vdim : c.vdim ≤ 255
  div0 : 0 ≤ c.div
  div : c.div ≤ 255
  mlen : c.mlen ≤ 255
  name : c.name.length ≤ 65524

/-- common part: the receive thread takes `wire fid p ++ z` and fires callback `cb` -/
theorem recvStep_fired (cs : List Chan) (i : Inst) (fid cb : Nat) (p z : Bytes) (rest : List Bytes)
    (hp : p.length ≤ 65529) (hf : fid ≤ 8) (hcb : cbHandle fid p = .fired cb p)
    (halive : i.recvThr = .alive) (hq : i.qwrite = (wire fid p ++ z) :: rest) :
    recvStep cs i =
      match callback cs { i with qwrite := rest } cb p with
      | .ok (cs', fl, out) => (cs', { i with qwrite := rest, flag := fl, qread := i.qread ++ out }, none)
      | .error e => (cs, { i with qwrite := rest, recvThr := .dead }, some e) := by
  unfold recvStep
  rw [if_neg (by rw [halive]; simp), hq]
  simp only
  unfold handle
  rw [recvHandle_wire_append fid p z hp hf, hcb]
  rfl

theorem recvStep_cmninfo (cs : List Chan) (i : Inst) (z : Bytes) (rest : List Bytes)
    (h1 : i.chmax ≤ 255) (h2 : i.flags ≤ 255) (h3 : i.rxp ≤ 255)
    (halive : i.recvThr = .alive) (hq : i.qwrite = (wire 2 [] ++ z) :: rest) :
    recvStep cs i = (cs, { i with qwrite := rest, qread := i.qread ++ [wire 2 [byte i.chmax, byte i.flags, byte i.rxp]] }, none) := by
  rw [recvStep_fired cs i 2 0 [] z rest (by simp) (by omega) cb_cmninfo halive hq]
  simp only [callback, Inst.chmax] at *
  rw [Info.cmninfoEncode_eq _ _ _ h1 h2 h3]
  rfl

theorem recvStep_chinfo (cs : List Chan) (i : Inst) (c : Nat) (ch : Chan) (z : Bytes) (rest : List Bytes)
    (hc : c ≤ 255) (hch : cs[c]? = some ch) (hok : ChanOk ch)
    (halive : i.recvThr = .alive) (hq : i.qwrite = (wire 3 [byte c] ++ z) :: rest) :
    recvStep cs i = (cs, { i with qwrite := rest, qread := i.qread ++ [wire 3 ([byte (b2n ch.en), byte ch.type, byte ch.vdim, byte ch.div.toNat, byte ch.mlen] ++ ch.name)] }, none) := by
  rw [recvStep_fired cs i 3 1 [byte c] z rest (by simp) (by omega) (cb_chinfo _) halive hq]
  have hcn : (byte c).toNat = c := by simp [byte]; omega
  simp only [callback, hcn, hch]
  have hd : ch.div = ((ch.div.toNat : Nat) : Int) := (Int.toNat_of_nonneg hok.div0).symm
  have hcfg : ch.cfg = ⟨ch.en, (ch.type : Nat), (ch.vdim : Nat), (ch.div.toNat : Nat), (ch.mlen : Nat), ch.name⟩ := by
    simp only [Chan.cfg]; rw [← hd]
  rw [hcfg, Info.chinfoEncode_eq ch.en ch.type ch.vdim ch.div.toNat ch.mlen ch.name hok.type hok.vdim
    (by have := hok.div; omega) hok.mlen hok.name]
  rfl

theorem recvStep_start (cs : List Chan) (i : Inst) (b : Bool) (z : Bytes) (rest : List Bytes)
    (hg : Gen.Dummy.ackGuardStart = true)
    (halive : i.recvThr = .alive) (hq : i.qwrite = (wire 5 [byte (b2n b)] ++ z) :: rest) :
    recvStep cs i = (cs, { i with qwrite := rest, flag := b, qread := i.qread ++ (if Info.ackSupported i.flags then [wire 4 [0, 0, 0, 0]] else []) }, none) := by
  rw [recvStep_fired cs i 5 4 [byte (b2n b)] z rest (by simp) (by omega) (cb_start _) halive hq]
  simp only [callback, byte, b2n, Requests.frameStartDecode_bit, ok_bind, hg]
  rw [show ackIf { i with qwrite := rest } true = ackIf i true from rfl, ackIf_eq]
  rfl

/-- an enable request whose payload decodes to the vector `ens` -/
theorem recvStep_enable (cs : List Chan) (i : Inst) (p z : Bytes) (rest : List Bytes) (ens : List Bool)
    (hg : Gen.Dummy.ackGuardEnable = true)
    (hp : p.length ≤ 65529) (hne : p ≠ [])
    (hdec : Requests.frameEnableDecode p i.chmax (ensOf cs) = .ok ens) (hlen : ens.length = cs.length)
    (halive : i.recvThr = .alive) (hq : i.qwrite = (wire 6 p ++ z) :: rest) :
    recvStep cs i = (withEns cs ens, { i with qwrite := rest, qread := i.qread ++ (if Info.ackSupported i.flags then [wire 4 [0, 0, 0, 0]] else []) }, none) := by
  rw [recvStep_fired cs i 6 2 p z rest hp (by omega) (cb_enable p hne) halive hq]
  simp only [callback, Inst.chmax] at *
  rw [hdec, ok_bind, applyEn_ok cs ens hlen, ok_bind, hg]
  rw [show ackIf { i with qwrite := rest } true = ackIf i true from rfl, ackIf_eq]
  rfl

theorem recvStep_div (cs : List Chan) (i : Inst) (p z : Bytes) (rest : List Bytes) (ds : List Int)
    (hg : Gen.Dummy.ackGuardDiv = true)
    (hp : p.length ≤ 65529) (hne : p ≠ [])
    (hdec : Requests.frameDivDecode p i.chmax (divsOf cs) = .ok ds) (hlen : ds.length = cs.length)
    (halive : i.recvThr = .alive) (hq : i.qwrite = (wire 7 p ++ z) :: rest) :
    recvStep cs i = (withDivs cs ds, { i with qwrite := rest, qread := i.qread ++ (if Info.ackSupported i.flags then [wire 4 [0, 0, 0, 0]] else []) }, none) := by
  rw [recvStep_fired cs i 7 3 p z rest hp (by omega) (cb_div p hne) halive hq]
  simp only [callback, Inst.chmax] at *
  rw [hdec, ok_bind, applyDiv_ok cs ds hlen, ok_bind, hg]
  rw [show ackIf { i with qwrite := rest } true = ackIf i true from rfl, ackIf_eq]
  rfl

/-- a write the dispatcher ignores: the receive step only consumes it -/
theorem recvStep_ignored (cs : List Chan) (i : Inst) (d : Bytes) (rest : List Bytes)
    (hd : recvHandle d = .ignored) (halive : i.recvThr = .alive) (hq : i.qwrite = d :: rest) :
    recvStep cs i = (cs, { i with qwrite := rest }, none) := by
  unfold recvStep
  rw [if_neg (by rw [halive]; simp), hq]
  simp only
  unfold handle
  rw [hd]


/-! ### the stream thread: closed form of one round / one batch -/

/-- what one round does to a channel object: one `data_get()` when enabled, nothing otherwise -/
def stepChan (c : Chan) : Chan := if c.en then c.dataGet.1 else c

/-- the sample one round takes from channel object `c` at position `idx` -/
def sampleOf (c : Chan) (idx : Nat) : Option Stream.Sample :=
  if c.en then c.dataGet.2.map fun dm => mkSample c idx dm.1 dm.2 else none

def roundSamples : List Chan → Nat → List Stream.Sample
  | [], _ => []
  | c :: cs, k => (sampleOf c k).toList ++ roundSamples cs (k + 1)

theorem roundGet_eq (hg : Gen.Dummy.streamOnlyEnabled = true) (cs : List Chan) (k : Nat) :
    roundGet cs k = (cs.map stepChan, roundSamples cs k) := by
  induction cs generalizing k with
  | nil => rfl
  | cons c cs ih =>
    unfold roundGet
    rw [ih (k + 1)]
    simp only [hg, Bool.not_true, Bool.false_or, List.map_cons, roundSamples, stepChan, sampleOf]
    cases hen : c.en
    · simp
    · simp only [if_true]
      cases hd : c.dataGet with
      | mk c' r =>
        cases r with
        | none => simp
        | some dm => cases dm; simp

theorem dataGet_succ (hg : Gen.Dummy.streamOnlyEnabled = true) (cs : List Chan) (n : Nat) :
    dataGet cs (n + 1) = ((dataGet (cs.map stepChan) n).1, roundSamples cs 0 ++ (dataGet (cs.map stepChan) n).2) := by
  show (let (cs', s) := roundGet cs 0; let (cs'', r) := dataGet cs' n; (cs'', s ++ r)) = _
  rw [roundGet_eq hg]

@[simp] theorem mkSample_chan (c : Chan) (idx : Nat) (d : List PyVal) (m : List Int) :
    (mkSample c idx d m).chan = idx := rfl

theorem sampleOf_chan (c : Chan) (idx : Nat) (s : Stream.Sample) (h : sampleOf c idx = some s) : s.chan = idx := by
  unfold sampleOf at h
  split at h
  · cases hd : c.dataGet.2 with
    | none => rw [hd] at h; cases h
    | some dm => rw [hd] at h; cases h; rfl
  · cases h

theorem roundSamples_chan (cs : List Chan) (k : Nat) (s : Stream.Sample) (h : s ∈ roundSamples cs k) :
    k ≤ s.chan ∧ s.chan < k + cs.length := by
  induction cs generalizing k with
  | nil => cases h
  | cons c cs ih =>
    simp only [roundSamples, List.mem_append, Option.mem_toList] at h
    rcases h with h | h
    · have := sampleOf_chan c k s h
      simp; omega
    · have := ih (k + 1) h
      simp; omega

/-- samples of channel `c` in one round: exactly what its object yields, once -/
theorem roundSamples_filter (cs : List Chan) (k c : Nat) (ch : Chan) (h : cs[c]? = some ch) :
    (roundSamples cs k).filter (fun s => s.chan = k + c) = (sampleOf ch (k + c)).toList := by
  induction cs generalizing k c with
  | nil => cases h
  | cons x xs ih =>
    cases c with
    | zero =>
      simp only [List.getElem?_cons_zero, Option.some.injEq] at h
      subst h
      simp only [roundSamples, List.filter_append, Nat.add_zero]
      have h1 : (roundSamples xs (k + 1)).filter (fun s => s.chan = k) = [] := by
        rw [List.filter_eq_nil_iff]
        intro s hs
        have := (roundSamples_chan xs (k + 1) s hs).1
        simp; omega
      have h2 : (sampleOf x k).toList.filter (fun s => s.chan = k) = (sampleOf x k).toList := by
        rw [List.filter_eq_self]
        intro s hs
        simp only [Option.mem_toList] at hs
        simp [sampleOf_chan x k s hs]
      rw [h1, h2, List.append_nil]
    | succ c =>
      simp only [List.getElem?_cons_succ] at h
      simp only [roundSamples, List.filter_append]
      have h1 : (sampleOf x k).toList.filter (fun s => s.chan = k + (c + 1)) = [] := by
        rw [List.filter_eq_nil_iff]
        intro s hs
        simp only [Option.mem_toList] at hs
        have := sampleOf_chan x k s hs
        simp; omega
      have := ih (k + 1) c h
      rw [show k + 1 + c = k + (c + 1) by omega] at this
      rw [h1, this, List.nil_append]

/-- `n` successive rounds seen from one channel object -/
def chanIter (c : Chan) : Nat → Chan
  | 0 => c
  | n + 1 => chanIter (stepChan c) n

/-- the samples `n` successive rounds take from one channel object at position `idx`: the outputs of its
    function in call order, `None` results left out -/
def chanSamples (c : Chan) (idx : Nat) : Nat → List Stream.Sample
  | 0 => []
  | n + 1 => (sampleOf c idx).toList ++ chanSamples (stepChan c) idx n

theorem dataGet_chan (hg : Gen.Dummy.streamOnlyEnabled = true) (cs : List Chan) (n c : Nat) (ch : Chan)
    (h : cs[c]? = some ch) :
    (dataGet cs n).1[c]? = some (chanIter ch n) ∧
    (dataGet cs n).2.filter (fun s => s.chan = c) = chanSamples ch c n := by
  induction n generalizing cs ch with
  | zero => exact ⟨h, rfl⟩
  | succ n ih =>
    rw [dataGet_succ hg]
    have h' : (cs.map stepChan)[c]? = some (stepChan ch) := by simp [h]
    obtain ⟨i1, i2⟩ := ih (cs.map stepChan) (stepChan ch) h'
    refine ⟨i1, ?_⟩
    simp only [List.filter_append, i2, chanSamples]
    have := roundSamples_filter cs 0 c ch h
    simp only [Nat.zero_add] at this
    rw [this]

theorem dataGet_length (hg : Gen.Dummy.streamOnlyEnabled = true) (cs : List Chan) (n : Nat) :
    (dataGet cs n).1.length = cs.length := by
  induction n generalizing cs with
  | zero => rfl
  | succ n ih => rw [dataGet_succ hg]; simp [ih]

/-- `n` rounds followed by `m` rounds are `n + m` rounds: no loss, no repetition across batches -/
theorem chanSamples_add (c : Chan) (idx n m : Nat) :
    chanSamples c idx (n + m) = chanSamples c idx n ++ chanSamples (chanIter c n) idx m := by
  induction n generalizing c with
  | zero => simp [chanSamples, chanIter]
  | succ n ih =>
    rw [show n + 1 + m = (n + m) + 1 by omega]
    simp only [chanSamples, chanIter, ih, List.append_assoc]

theorem chanIter_add (c : Chan) (n m : Nat) : chanIter c (n + m) = chanIter (chanIter c n) m := by
  induction n generalizing c with
  | zero => simp [chanIter]
  | succ n ih =>
    rw [show n + 1 + m = (n + m) + 1 by omega]
    simp only [chanIter, ih]

/-- a disabled channel object is not touched and yields nothing -/
theorem chanIter_disabled (c : Chan) (n : Nat) (h : c.en = false) : chanIter c n = c := by
  induction n with
  | zero => rfl
  | succ n ih => simp only [chanIter, stepChan, h]; exact ih

theorem chanSamples_disabled (c : Chan) (idx n : Nat) (h : c.en = false) : chanSamples c idx n = [] := by
  induction n with
  | zero => rfl
  | succ n ih =>
    simp only [chanSamples, stepChan, sampleOf, h]
    simpa using ih

/-- `data_get` changes only the function state and the call counter -/
theorem dataGet_fields (c : Chan) :
    c.dataGet.1.en = c.en ∧ c.dataGet.1.type = c.type ∧ c.dataGet.1.vdim = c.vdim ∧ c.dataGet.1.div = c.div ∧
    c.dataGet.1.mlen = c.mlen ∧ c.dataGet.1.name = c.name ∧ c.dataGet.1.gen = c.gen := by
  unfold Chan.dataGet
  cases hgen : c.gen with
  | none => simp [hgen]
  | some k => simp

theorem stepChan_fields (c : Chan) :
    (stepChan c).en = c.en ∧ (stepChan c).type = c.type ∧ (stepChan c).vdim = c.vdim ∧ (stepChan c).div = c.div ∧
    (stepChan c).mlen = c.mlen ∧ (stepChan c).name = c.name ∧ (stepChan c).gen = c.gen := by
  unfold stepChan
  split
  · exact dataGet_fields c
  · simp

theorem ensOf_dataGet (hg : Gen.Dummy.streamOnlyEnabled = true) (cs : List Chan) (n : Nat) :
    ensOf (dataGet cs n).1 = ensOf cs := by
  induction n generalizing cs with
  | zero => rfl
  | succ n ih =>
    rw [dataGet_succ hg, ih]
    simp only [ensOf, List.map_map]
    apply List.map_congr_left
    intro c _
    exact (stepChan_fields c).1

/-- every sample of a batch belongs to a channel that is enabled -/
theorem dataGet_enabled (hg : Gen.Dummy.streamOnlyEnabled = true) (cs : List Chan) (n : Nat) (s : Stream.Sample)
    (h : s ∈ (dataGet cs n).2) : (ensOf cs)[s.chan]? = some true := by
  cases hc : cs[s.chan]? with
  | none =>
    -- no such channel: the filter on this id is empty
    exfalso
    induction n generalizing cs with
    | zero => cases h
    | succ n ih =>
      rw [dataGet_succ hg] at h
      rcases List.mem_append.mp h with h | h
      · have := (roundSamples_chan cs 0 s h).2
        rw [List.getElem?_eq_none_iff] at hc
        omega
      · exact ih (cs.map stepChan) h (by simpa using hc)
  | some ch =>
    have hf := (dataGet_chan hg cs n s.chan ch hc).2
    cases hen : ch.en with
    | true => simp [ensOf, hc, hen]
    | false =>
      rw [chanSamples_disabled ch s.chan n hen] at hf
      have : s ∈ (dataGet cs n).2.filter (fun t => t.chan = s.chan) := by
        simp [List.mem_filter, h]
      rw [hf] at this
      cases this


/-! ### invariants of the stream thread over the channel objects -/

/-- the channel objects after a batch: every object after `n` rounds of its own -/
theorem dataGet_fst (hg : Gen.Dummy.streamOnlyEnabled = true) (cs : List Chan) (n : Nat) :
    (dataGet cs n).1 = cs.map fun c => chanIter c n := by
  induction n generalizing cs with
  | zero => simp [dataGet, chanIter]
  | succ n ih =>
    rw [dataGet_succ hg]
    simp only [ih, List.map_map]
    rfl

theorem chanIter_fields (c : Chan) (n : Nat) :
    (chanIter c n).en = c.en ∧ (chanIter c n).type = c.type ∧ (chanIter c n).vdim = c.vdim ∧ (chanIter c n).div = c.div ∧
    (chanIter c n).mlen = c.mlen ∧ (chanIter c n).name = c.name ∧ (chanIter c n).gen = c.gen := by
  induction n generalizing c with
  | zero => simp [chanIter]
  | succ n ih =>
    obtain ⟨a1, a2, a3, a4, a5, a6, a7⟩ := stepChan_fields c
    obtain ⟨b1, b2, b3, b4, b5, b6, b7⟩ := ih (stepChan c)
    simp only [chanIter]
    exact ⟨b1.trans a1, b2.trans a2, b3.trans a3, b4.trans a4, b5.trans a5, b6.trans a6, b7.trans a7⟩

theorem ChanOk.of_fields {c d : Chan} (h : ChanOk c) (h1 : d.type = c.type) (h2 : d.vdim = c.vdim) (h3 : d.div = c.div)
    (h4 : d.mlen = c.mlen) (h5 : d.name = c.name) : ChanOk d :=
  ⟨by rw [h1]; exact h.type, by rw [h2]; exact h.vdim, by rw [h3]; exact h.div0, by rw [h3]; exact h.div,
   by rw [h4]; exact h.mlen, by rw [h5]; exact h.name⟩

theorem ChanOk.chanIter {c : Chan} (h : ChanOk c) (n : Nat) : ChanOk (chanIter c n) := by
  obtain ⟨_, a2, a3, a4, a5, a6, _⟩ := chanIter_fields c n
  exact h.of_fields a2 a3 a4 a5 a6

/-- every round is one more `data_get()` call on an enabled channel with a function attached -/
theorem chanIter_calls (c : Chan) (n k : Nat) (hen : c.en = true) (hg : c.gen = some k) : (chanIter c n).calls = c.calls + n := by
  induction n generalizing c with
  | zero => rfl
  | succ n ih =>
    have hs : stepChan c = c.dataGet.1 := by simp [stepChan, hen]
    obtain ⟨f1, _, _, _, _, _, f7⟩ := stepChan_fields c
    have hcalls : (stepChan c).calls = c.calls + 1 := by
      rw [hs]; unfold Chan.dataGet; rw [hg]
    simp only [chanIter]
    rw [ih (stepChan c) (by rw [f1]; exact hen) (by rw [f7]; exact hg), hcalls]
    omega

/-- a batch keeps every channel's description within the info frames -/
theorem chanOk_dataGet (hg : Gen.Dummy.streamOnlyEnabled = true) (cs : List Chan) (n : Nat) (h : ∀ c ∈ cs, ChanOk c) :
    ∀ c ∈ (dataGet cs n).1, ChanOk c := by
  rw [dataGet_fst hg]
  intro c hc
  obtain ⟨c0, h0, rfl⟩ := List.mem_map.mp hc
  exact (h c0 h0).chanIter n

theorem chanOk_withEns (cs : List Chan) (vs : List Bool) (h : ∀ c ∈ cs, ChanOk c) : ∀ c ∈ withEns cs vs, ChanOk c := by
  induction cs generalizing vs with
  | nil => intro c hc; simp [withEns] at hc
  | cons x xs ih =>
    cases vs with
    | nil => intro c hc; simp [withEns] at hc
    | cons v vs =>
      intro c hc
      simp only [withEns, List.zipWith_cons_cons, List.mem_cons] at hc
      rcases hc with rfl | hc
      · exact (h x (by simp)).of_fields rfl rfl rfl rfl rfl
      · exact ih vs (fun c hc => h c (by simp [hc])) c hc

theorem chanOk_withDivs (cs : List Chan) (vs : List Int) (h : ∀ c ∈ cs, ChanOk c) (hv : ∀ v ∈ vs, 0 ≤ v ∧ v ≤ 255) :
    ∀ c ∈ withDivs cs vs, ChanOk c := by
  induction cs generalizing vs with
  | nil => intro c hc; simp [withDivs] at hc
  | cons x xs ih =>
    cases vs with
    | nil => intro c hc; simp [withDivs] at hc
    | cons v vs =>
      intro c hc
      simp only [withDivs, List.zipWith_cons_cons, List.mem_cons] at hc
      rcases hc with rfl | hc
      · have hx := h x (by simp)
        have := hv v (by simp)
        exact ⟨hx.type, hx.vdim, this.1, this.2, hx.mlen, hx.name⟩
      · exact ih vs (fun c hc => h c (by simp [hc])) (fun v hv' => hv v (by simp [hv'])) c hc

/-- the receive thread never touches the stream thread's state -/
theorem handle_streamThr (cs : List Chan) (i : Inst) (d : Bytes) : (handle cs i d).2.1.streamThr = i.streamThr := by
  unfold handle
  split
  · rfl
  · rfl
  · split <;> rfl

theorem recvStep_streamThr (cs : List Chan) (i : Inst) : (recvStep cs i).2.1.streamThr = i.streamThr := by
  unfold recvStep
  split
  · rfl
  · split
    · rfl
    · exact handle_streamThr cs _ _


/-! ### what set requests leave alone -/

/-- everything of a channel object except enable and divider -/
def Chan.frozen (c : Chan) : Nat × Nat × Nat × Bytes × Option Nat × Int × Int × Nat :=
  (c.type, c.vdim, c.mlen, c.name, c.gen, c.cntr, c.sign, c.calls)

theorem withEns_length (cs : List Chan) (vs : List Bool) (h : vs.length = cs.length) : (withEns cs vs).length = cs.length := by
  simp [withEns, h]

theorem withDivs_length (cs : List Chan) (vs : List Int) (h : vs.length = cs.length) : (withDivs cs vs).length = cs.length := by
  simp [withDivs, h]

theorem withEns_get (cs : List Chan) (vs : List Bool) (k : Nat) (c : Chan) (v : Bool) (hc : cs[k]? = some c)
    (hv : vs[k]? = some v) : (withEns cs vs)[k]? = some { c with en := v } := by
  simp [withEns, List.getElem?_zipWith, hc, hv]

theorem withDivs_get (cs : List Chan) (vs : List Int) (k : Nat) (c : Chan) (v : Int) (hc : cs[k]? = some c)
    (hv : vs[k]? = some v) : (withDivs cs vs)[k]? = some { c with div := v } := by
  simp [withDivs, List.getElem?_zipWith, hc, hv]

theorem divsOf_withEns (cs : List Chan) (vs : List Bool) (h : vs.length = cs.length) : divsOf (withEns cs vs) = divsOf cs := by
  induction cs generalizing vs with
  | nil => cases vs <;> simp_all [divsOf, withEns]
  | cons c cs ih =>
    cases vs with
    | nil => simp at h
    | cons v vs =>
      have := ih vs (by simpa using h)
      simp_all [divsOf, withEns]

theorem ensOf_withDivs (cs : List Chan) (vs : List Int) (h : vs.length = cs.length) : ensOf (withDivs cs vs) = ensOf cs := by
  induction cs generalizing vs with
  | nil => cases vs <;> simp_all [ensOf, withDivs]
  | cons c cs ih =>
    cases vs with
    | nil => simp at h
    | cons v vs =>
      have := ih vs (by simpa using h)
      simp_all [ensOf, withDivs]

theorem frozen_withEns (cs : List Chan) (vs : List Bool) (h : vs.length = cs.length) :
    (withEns cs vs).map Chan.frozen = cs.map Chan.frozen := by
  induction cs generalizing vs with
  | nil => cases vs <;> simp_all [withEns]
  | cons c cs ih =>
    cases vs with
    | nil => simp at h
    | cons v vs =>
      have := ih vs (by simpa using h)
      simp_all [withEns, Chan.frozen]

theorem frozen_withDivs (cs : List Chan) (vs : List Int) (h : vs.length = cs.length) :
    (withDivs cs vs).map Chan.frozen = cs.map Chan.frozen := by
  induction cs generalizing vs with
  | nil => cases vs <;> simp_all [withDivs]
  | cons c cs ih =>
    cases vs with
    | nil => simp at h
    | cons v vs =>
      have := ih vs (by simpa using h)
      simp_all [withDivs, Chan.frozen]

/-! ### samples of a channel are the outputs of its function, in call order -/

theorem mkSample_congr (c d : Chan) (h1 : c.type = d.type) (h2 : c.vdim = d.vdim) (h3 : c.mlen = d.mlen) :
    mkSample c = mkSample d := by
  funext idx data m
  simp [mkSample, h1, h2, h3]

theorem chanSamples_outputs (c : Chan) (idx n : Nat) (hen : c.en = true) :
    chanSamples c idx n = (c.outputs n).filterMap fun o => o.map fun dm => mkSample c idx dm.1 dm.2 := by
  induction n generalizing c with
  | zero => rfl
  | succ n ih =>
    have hs : stepChan c = c.dataGet.1 := by simp [stepChan, hen]
    obtain ⟨f1, f2, f3, _, f5, _, _⟩ := dataGet_fields c
    simp only [chanSamples, Chan.outputs, List.filterMap_cons, hs]
    rw [ih c.dataGet.1 (by rw [f1]; exact hen), mkSample_congr c.dataGet.1 c f2 f3 f5]
    simp only [sampleOf, hen, if_true]
    cases c.dataGet.2 <;> simp


/-! ### the stream step and the frame it queues -/

/-- one batch of `snum` rounds fits a frame payload (≤ 65 529 bytes) -/
def fitsPayload : Except Err (Option Bytes) → Prop
  | .ok (some p) => p.length ≤ 65529
  | _ => True

instance (r : Except Err (Option Bytes)) : Decidable (fitsPayload r) := by
  unfold fitsPayload; split <;> infer_instance

structure BatchFits (cs : List Chan) (snum : Nat) : Prop where
  fits : fitsPayload (Stream.streamDataEncode [] (dataGet cs snum).2)

instance (cs : List Chan) (snum : Nat) : Decidable (BatchFits cs snum) :=
  decidable_of_iff (fitsPayload (Stream.streamDataEncode [] (dataGet cs snum).2)) ⟨BatchFits.mk, BatchFits.fits⟩



/-- the default device with every channel enabled -/
def defaultAllEnabled : List Chan := defaultObjs.map fun c => { c with en := true }

/-- F17's device: four enabled 64-dimensional DOUBLE channels with a user-defined vector function -/
def f17Device : List Chan := List.replicate 4 ⟨true, 11, 64, 0, 0, [], some 10, 0, 1, 0⟩

theorem produce_eq (cs : List Chan) (i : Inst) :
    produce cs i =
      match Stream.frameStreamEncode [] (dataGet cs i.snum).2 with
      | .ok none => ((dataGet cs i.snum).1, i, none)
      | .ok (some f) => ((dataGet cs i.snum).1, { i with qread := i.qread ++ [f] }, none)
      | .error e => ((dataGet cs i.snum).1, { i with streamThr := .dead }, some e) := rfl

theorem frameStreamEncode_some (ss : List Stream.Sample) (p : Bytes) (h : Stream.streamDataEncode [] ss = .ok (some p))
    (hp : p.length ≤ 65529) : Stream.frameStreamEncode [] ss = .ok (some (wire 1 p)) := by
  unfold Stream.frameStreamEncode
  rw [h, ok_bind]
  have : Gen.Ids.idSTREAM = 1 := rfl
  simp only
  rw [this, Serial.frameCreate_eq 1 p hp (by omega), ok_bind]

/-- `frame_create` refuses a payload that does not fit the 16-bit length field: `struct.error` -/
theorem frameCreate_oversize (p : Bytes) (hp : p.length > 65529) :
    Serial.frameCreate 1 (some p) = .error .structError := by
  unfold Serial.frameCreate
  rw [if_neg (by simp [Gen.Frame.fidMax])]
  show Serial.frameCreateBody 1 p = _
  unfold Serial.frameCreateBody
  have : pack Gen.Frame.hdrFmtCreate [.int Gen.Frame.sof, .int ((Gen.Frame.baseLen + p.length : Nat) : Int), .int (1 : Nat)]
      = .error .structError := by
    unfold pack
    rw [Serial.hdrFmtCreate_atoms]
    have hbe : Gen.Frame.hdrFmtCreate.be = false := rfl
    rw [hbe]
    exact packAtoms_cons_err2 (packAtom_B false 1 Gen.Frame.sof (by decide))
      (packAtoms_cons_err1 (packAtom_H_err false 2 _ (by simp [Gen.Frame.baseLen]; omega)))
  rw [this]
  rfl

theorem frameStreamEncode_oversize (ss : List Stream.Sample) (p : Bytes) (h : Stream.streamDataEncode [] ss = .ok (some p))
    (hp : p.length > 65529) : Stream.frameStreamEncode [] ss = .error .structError := by
  unfold Stream.frameStreamEncode
  rw [h, ok_bind]
  have : Gen.Ids.idSTREAM = 1 := rfl
  simp only
  rw [this, frameCreate_oversize p hp]
  rfl

theorem frameStreamEncode_none (ss : List Stream.Sample) (h : Stream.streamDataEncode [] ss = .ok none) :
    Stream.frameStreamEncode [] ss = .ok none := by
  unfold Stream.frameStreamEncode
  rw [h, ok_bind]

theorem frameStreamEncode_err (ss : List Stream.Sample) (e : Err) (h : Stream.streamDataEncode [] ss = .error e) :
    Stream.frameStreamEncode [] ss = .error e := by
  unfold Stream.frameStreamEncode
  rw [h]; rfl

end Nxs.Dummy
