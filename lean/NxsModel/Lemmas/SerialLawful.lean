/-
  The built-in serial codec honours the frame interface: `LawfulCodec Serial.codec`.
-/
import NxsModel.Codec
import NxsModel.Lemmas.Accept
namespace Nxs.Serial
open Nxs Nxs.Spec Gen.Frame

attribute [local irreducible] crc16xmodem

theorem hdrDecode_take (d : Bytes) (h : 4 ≤ d.length) : hdrDecode d = hdrDecode (d.take 4) := by
  match d, h with
  | a :: b :: c :: e :: rest, _ =>
    show hdrDecode (a :: b :: c :: e :: rest) = hdrDecode (a :: b :: c :: e :: [])
    rw [hdrDecode_cons, hdrDecode_cons]

theorem hdrDecode_ok_sof (d : Bytes) (h : Hdr) (hd : hdrDecode d = .ok h) : d.head? = some 0x55 := by
  match d with
  | [] | [_] | [_, _] | [_, _, _] =>
    rw [hdrDecode_short _ (by simp)] at hd; cases hd
  | a :: b :: c :: e :: rest =>
    rw [hdrDecode_cons] at hd
    by_cases ha : a = 0x55
    · simp [ha]
    · rw [if_pos ha] at hd; cases hd

theorem frameDecode_iff' (d : Bytes) (fr : Frame) :
    frameDecode d = .ok fr ↔
      ∃ h, hdrDecode d = .ok h ∧ 4 + 2 ≤ h.flen ∧ h.flen ≤ d.length ∧
        footValidate (d.take h.flen) = true ∧ fr = ⟨h.fid, slice d 4 (h.flen - 2)⟩ := by
  cases hh : hdrDecode d with
  | error e =>
    rw [frameDecode_of_hdr_err _ _ hh]
    constructor
    · intro h; cases h
    · rintro ⟨h, h1, _⟩; cases h1
  | ok h =>
    rw [frameDecode_of_hdr _ _ hh]
    constructor
    · intro hx
      by_cases h6 : h.flen < 6
      · rw [if_pos h6] at hx; cases hx
      · rw [if_neg h6] at hx
        by_cases hl : h.flen > d.length
        · rw [if_pos hl] at hx; cases hx
        · rw [if_neg hl] at hx
          by_cases hc : crc16xmodem (d.take h.flen) ≠ 0
          · rw [if_pos hc] at hx; cases hx
          · rw [if_neg hc] at hx
            cases hx
            refine ⟨h, rfl, by omega, by omega, ?_, rfl⟩
            rw [footValidate_eq]
            simpa using hc
    · rintro ⟨h', h1, h2, h3, h4, h5⟩
      cases h1
      rw [footValidate_eq] at h4
      rw [if_neg (by omega), if_neg (by omega), if_neg (by simpa using h4), h5]

theorem codec_lawful : LawfulCodec codec where
  hdrLen_pos := by show 1 ≤ hdrLen; decide
  hdrFind_eq := fun _ => rfl
  hdrDecode_short := fun d h => ⟨.hdr, hdrDecode_short d h⟩
  hdrDecode_prefix := fun d h => hdrDecode_take d h
  hdrDecode_sof := fun d h hd => hdrDecode_ok_sof d h hd
  frameDecode_iff := fun d fr => frameDecode_iff' d fr
  frameCreate_decode := by
    intro fid p f hcr h8
    show frameDecode f = .ok ⟨fid, p⟩ ∧ ∃ h, hdrDecode f = .ok h ∧ h.flen = f.length
    have hcr' : frameCreate fid (some p) = .ok f := hcr
    have hp : p.length ≤ 65529 := by
      apply Nat.le_of_not_lt
      intro hgt
      obtain ⟨e, he⟩ := frameCreate_refuses fid p hgt
      rw [he] at hcr'; cases hcr'
    rw [frameCreate_eq fid p hp (by omega)] at hcr'
    cases hcr'
    have hdec := frameDecode_wire fid p hp h8
    refine ⟨hdec, ?_⟩
    obtain ⟨h, h1, h2, h3, h4, h5⟩ := (frameDecode_iff' _ _).mp hdec
    refine ⟨h, h1, ?_⟩
    have hlen : (wire fid p).length = p.length + 6 := by simp [wire, wirePrefix]
    have hpl : (slice (wire fid p) 4 (h.flen - 2)).length = p.length := by
      have := congrArg Frame.data h5
      simp only at this
      rw [← this]
    simp [slice] at hpl
    omega

end Nxs.Serial
