/-
  R7Built (round 7) — whatever a client request builder RETURNS is a well-formed wire frame, with no
  hypothesis on the arguments (the builders either refuse or emit `wire fid payload`).  Used by C05
  (`session_padding_invisible`, over ALL asks) and C17 (`any_request_padding_invisible`, over ALL
  `ClientReq`, also outside `Valid`).
-/
import NxsModel.Lemmas.Requests
import NxsModel.ReqSession
namespace Nxs.R7
open Nxs Nxs.Spec Nxs.Requests
open Nxs.Pad (ClientReq)

/-- `f` is a wire frame of one of the request ids with a payload that fits -/
def Built (f : Bytes) : Prop := ∃ fid pl, f = wire fid pl ∧ pl.length ≤ 65529 ∧ fid ≤ 8

/-- whatever `frame_create` returns is the wire frame of a payload that fits -/
theorem frameCreate_ok_wire (fid : Nat) (p f : Bytes) (hf : fid ≤ 255)
    (h : Serial.frameCreate fid (some p) = .ok f) : f = wire fid p ∧ p.length ≤ 65529 := by
  by_cases hp : p.length ≤ 65529
  · rw [Serial.frameCreate_eq fid p hp hf] at h; exact ⟨(Except.ok.inj h).symm, hp⟩
  · obtain ⟨e, he⟩ := Serial.frameCreate_refuses fid p (by omega)
    rw [he] at h; cases h

theorem created_built (fid : Nat) (p f : Bytes) (hf : fid ≤ 8)
    (h : Serial.frameCreate fid (some p) = .ok f) : Built f := by
  obtain ⟨h1, h2⟩ := frameCreate_ok_wire fid p f (by omega) h
  exact ⟨fid, p, h1, h2, hf⟩

theorem bind_created (x : Except Err Bytes) (fid : Nat) (g : Bytes → Bytes) (f : Bytes) (hf : fid ≤ 8)
    (h : (x.bind fun b => Serial.frameCreate fid (some (g b))) = .ok f) : Built f := by
  cases x with
  | error e => cases h
  | ok b => exact created_built fid (g b) f hf h

theorem frameSetSingle_built (id : Nat) (data : Bytes) (chan : Int) (f : Bytes) (hid : id ≤ 8)
    (h : frameSetSingle id data chan = .ok f) : Built f := by
  unfold frameSetSingle at h
  split at h
  · cases h
  · exact bind_created _ id (· ++ data) f hid h

theorem frameSetAll_built (id : Nat) (data : Bytes) (f : Bytes) (hid : id ≤ 8)
    (h : frameSetAll id data = .ok f) : Built f := by
  unfold frameSetAll at h
  split at h
  · cases h
  · exact bind_created _ id (· ++ data) f hid h

theorem frameSetBulk_built (id : Nat) (data : Bytes) (f : Bytes) (hid : id ≤ 8)
    (h : frameSetBulk id data = .ok f) : Built f := by
  unfold frameSetBulk at h
  split at h
  · cases h
  · exact bind_created _ id (· ++ data) f hid h

theorem frameEnable_built (req : SetReq Bool) (n : Nat) (f : Bytes) (h : frameEnable req n = .ok f) :
    Built f := by
  unfold frameEnable at h
  cases req with
  | single chan v => exact frameSetSingle_built _ _ _ f (by decide) h
  | vec vs =>
    simp only at h
    split at h
    · cases vs with
      | nil => cases h
      | cons v r => exact frameSetAll_built _ _ f (by decide) h
    · cases hb : enBulk vs n 0 with
      | error e => rw [hb] at h; cases h
      | ok d => rw [hb, ok_bind] at h; exact frameSetBulk_built _ _ f (by decide) h

theorem frameDiv_built (req : SetReq Int) (n : Nat) (f : Bytes) (h : frameDiv req n = .ok f) :
    Built f := by
  unfold frameDiv at h
  cases req with
  | single chan v =>
    simp only at h
    cases hb : byteOf v with
    | error e => rw [hb] at h; cases h
    | ok b => rw [hb, ok_bind] at h; exact frameSetSingle_built _ _ _ f (by decide) h
  | vec vs =>
    simp only at h
    split at h
    · cases vs with
      | nil => cases h
      | cons v r =>
        simp only at h
        cases hb : byteOf v with
        | error e => rw [hb] at h; cases h
        | ok b => rw [hb, ok_bind] at h; exact frameSetAll_built _ _ f (by decide) h
    · cases hb : divBulk vs n 0 with
      | error e => rw [hb] at h; cases h
      | ok d => rw [hb, ok_bind] at h; exact frameSetBulk_built _ _ f (by decide) h

/-- every request builder of the client, ANY arguments: what it returns (if it returns) is a wire frame -/
theorem clientReq_built (r : ClientReq) (f : Bytes) (h : r.build = .ok f) : Built f := by
  cases r with
  | start b =>
    have h' : ((pack Gen.Fmt.start [.bool b]).bind fun x => Serial.frameCreate 5 (some (id x))) = .ok f := h
    exact bind_created _ 5 id f (by decide) h'
  | cmninfo =>
    have h' : Serial.frameCreate 2 (some []) = .ok f := h
    exact created_built 2 [] f (by decide) h'
  | chinfo c =>
    have h' : ((pack Gen.Fmt.chinfoReq [.int (c : Int)]).bind fun x => Serial.frameCreate 3 (some (id x))) = .ok f := h
    exact bind_created _ 3 id f (by decide) h'
  | enSingle n c v => exact frameEnable_built (.single c v) n f h
  | enVec n vs => exact frameEnable_built (.vec vs) n f h
  | divSingle n c v => exact frameDiv_built (.single c v) n f h
  | divVec n vs => exact frameDiv_built (.vec (vs.map Int.ofNat)) n f h

theorem ask_built (n : Nat) (a : Ask) (f : Bytes) (h : a.build n = .ok f) : Built f := by
  cases a with
  | enOne c v => exact frameEnable_built (.single c v) n f h
  | enVec vs => exact frameEnable_built (.vec vs) n f h
  | divOne c v => exact frameDiv_built (.single c v) n f h
  | divVec vs => exact frameDiv_built (.vec (vs.map Int.ofNat)) n f h

/-- the dispatcher reacts to a built frame (it never ignores it) … -/
theorem built_not_ignored (f : Bytes) (h : Built f) : Dispatch.recvHandle f ≠ .ignored := by
  obtain ⟨fid, pl, rfl, hp, hf⟩ := h
  exact Pad.recvHandle_wire_ne_ignored fid pl hp hf

/-- … and reacts to it alike under every write padding -/
theorem built_align (p : Nat) (f : Bytes) (h : Built f) :
    Dispatch.recvHandle (Pad.dataAlign p f) = Dispatch.recvHandle f :=
  Pad.recvHandle_dataAlign p f (built_not_ignored f h)

/-- a built frame is its payload + 6 bytes long and starts with the start byte -/
theorem built_length (f : Bytes) (h : Built f) : 6 ≤ f.length ∧ f.length ≤ 65535 := by
  obtain ⟨fid, pl, rfl, hp, _⟩ := h
  rw [Serial.wire_length]; omega

end Nxs.R7
