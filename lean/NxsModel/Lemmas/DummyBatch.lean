/- the two evaluated facts about batch sizes (C14): kernel evaluation of whole batches, in their own module -/
import NxsModel.Lemmas.Dummy
namespace Nxs.Dummy
open Nxs

/-- `BatchFits` holds for the default device with every channel enabled and the default batch size -/
theorem default_fits : BatchFits defaultAllEnabled Gen.Dummy.defaultSnum := by
  decide +kernel

/-- F17: four enabled 64-dimensional DOUBLE channels (a user-defined vector function) and batch size 100: the batch
    of 205 201 bytes does not fit a frame payload -/
theorem f17_not_fits : ¬ BatchFits f17Device 100 := by
  decide +kernel

end Nxs.Dummy
