/- helper lemmas about the struct interpreter -/
import NxsModel.Struct
namespace Nxs

theorem ok_bind {α β : Type} (a : α) (f : α → Except Err β) : (Except.ok a).bind f = f a := rfl

theorem packAtoms_cons_ok {be a v as vs x r} (h1 : packAtom be a v = .ok x)
    (h2 : packAtoms be as vs = .ok r) : packAtoms be (a :: as) (v :: vs) = .ok (x ++ r) := by
  simp [packAtoms, h1, h2, bind, Except.bind, pure, Except.pure]

theorem packAtoms_cons_err1 {be a v as vs e} (h1 : packAtom be a v = .error e) :
    packAtoms be (a :: as) (v :: vs) = .error e := by
  simp [packAtoms, h1, bind, Except.bind]

theorem packAtoms_cons_err2 {be a v as vs x e} (h1 : packAtom be a v = .ok x)
    (h2 : packAtoms be as vs = .error e) : packAtoms be (a :: as) (v :: vs) = .error e := by
  simp [packAtoms, h1, h2, bind, Except.bind]

theorem packAtom_B (be : Bool) (n v : Nat) (h : v < 256) :
    packAtom be ⟨.B, n⟩ (.int v) = .ok [BitVec.ofNat 8 v] := by
  have a : (v : Int) < 256 := by omega
  cases be <;> simp [packAtom, Val.asInt?, packU, Code.size, ordBytes, beBytes, leBytes, a]

theorem packAtom_B_err (be : Bool) (n : Nat) (v : Int) (h : v < 0 ∨ 256 ≤ v) :
    packAtom be ⟨.B, n⟩ (.int v) = .error .structError := by
  have a : ¬ (0 ≤ v ∧ v < 256) := by omega
  simp [packAtom, Val.asInt?, packU, Code.size, a]

theorem packAtom_H_le (n v : Nat) (h : v < 65536) :
    packAtom false ⟨.H, n⟩ (.int v) = .ok [BitVec.ofNat 8 v, BitVec.ofNat 8 (v / 256)] := by
  have a : (v : Int) < 65536 := by omega
  simp [packAtom, Val.asInt?, packU, Code.size, ordBytes, leBytes, a]

theorem packAtom_H_be (n v : Nat) (h : v < 65536) :
    packAtom true ⟨.H, n⟩ (.int v) = .ok [BitVec.ofNat 8 (v / 256), BitVec.ofNat 8 v] := by
  have a : (v : Int) < 65536 := by omega
  simp [packAtom, Val.asInt?, packU, Code.size, ordBytes, beBytes, leBytes, a]

theorem packAtom_H_err (be : Bool) (n : Nat) (v : Int) (h : v < 0 ∨ 65536 ≤ v) :
    packAtom be ⟨.H, n⟩ (.int v) = .error .structError := by
  have a : ¬ (0 ≤ v ∧ v < 65536) := by omega
  simp [packAtom, Val.asInt?, packU, Code.size, a]

theorem unpackAtoms_cons {be a as} {bs : Bytes} (h : a.size ≤ bs.length) :
    unpackAtoms be (a :: as) bs =
      (unpackAtoms be as (bs.drop a.size)).bind fun r => .ok (unpackAtom be a (bs.take a.size) :: r) := by
  have : ¬ bs.length < a.size := by omega
  simp [unpackAtoms, this, bind, pure, Except.pure]

theorem unpackAtoms_short {be a as} {bs : Bytes} (h : bs.length < a.size) :
    unpackAtoms be (a :: as) bs = .error .structError := by
  simp [unpackAtoms, h]

theorem unpackAtom_B (be : Bool) (n : Nat) (x : Byte) : unpackAtom be ⟨.B, n⟩ [x] = .int x.toNat := by
  cases be <;> simp [unpackAtom, unpackU, ordNat, beNat, leNat]

theorem unpackAtom_H_le (n : Nat) (x y : Byte) :
    unpackAtom false ⟨.H, n⟩ [x, y] = .int (x.toNat + 256 * y.toNat : Nat) := by
  simp [unpackAtom, unpackU, ordNat, leNat]

theorem unpackAtom_H_be (n : Nat) (x y : Byte) :
    unpackAtom true ⟨.H, n⟩ [x, y] = .int (y.toNat + 256 * x.toNat : Nat) := by
  simp [unpackAtom, unpackU, ordNat, beNat, leNat]

end Nxs
