/-
  Round 7 (C16): the STATE of an instance after an interleaved history (not only what it lets a client observe) is
  the state its own ops alone produce; a custom device created late.
-/
import NxsModel.Lemmas.DummyHeap
namespace Nxs.Dummy

theorem World.run_cons (w : World) (k : Nat) (op : Op) (rest : List (Nat × Op)) :
    (w.run ((k, op) :: rest)).1 = ((w.step k op).1.run rest).1 := rfl

theorem run_cons_fst (cs : List Chan) (i : Inst) (op : Op) (rest : List Op) :
    (run cs i (op :: rest)).1 = (run (step cs i op).1 (step cs i op).2.1 rest).1 ∧
    (run cs i (op :: rest)).2.1 = (run (step cs i op).1 (step cs i op).2.1 rest).2.1 := ⟨rfl, rfl⟩

/-- **frame rule for states**, interleaved histories: after ANY interleaving of ops on any instances, instance `j`
    and its channel objects are in the state the history of its OWN ops on its own channel objects leaves them in -/
theorem World.run_local_state (w : World) (hs : w.Sep) (j : Nat) (h : List (Nat × Op)) (ij : Inst)
    (hj : w.insts[j]? = some ij) :
    (w.run h).1.insts[j]? = some (Dummy.run (gather w.heap ij.addrs) ij (projOps j h)).2.1 ∧
    gather (w.run h).1.heap ij.addrs = (Dummy.run (gather w.heap ij.addrs) ij (projOps j h)).1 := by
  induction h generalizing w ij with
  | nil => exact ⟨hj, rfl⟩
  | cons p rest ih =>
    obtain ⟨k, op⟩ := p
    have hs' := w.step_sep k op hs
    rw [World.run_cons]
    by_cases hk : k = j
    · subst hk
      have hok := hs.ok k ij hj
      obtain ⟨h1, h2, h3, h4⟩ := w.step_local k op ij hj hok
      have hkeep := step_keeps (gather w.heap ij.addrs) ij op
      have := ih (w.step k op).1 hs' _ h2
      rw [hkeep.2, h3] at this
      have hp : projOps k ((k, op) :: rest) = op :: projOps k rest := by simp [projOps]
      rw [hp, (run_cons_fst _ _ _ _).1, (run_cons_fst _ _ _ _).2]
      exact this
    · have hf := w.step_frame j k op ij (fun e => hk e.symm) hj (fun ik hik => hs.disj k j ik ij hk hik hj)
      have := ih (w.step k op).1 hs' ij hf.1
      rw [hf.2] at this
      have hp : projOps j ((k, op) :: rest) = projOps j rest := by simp [projOps, hk]
      rw [hp]
      exact this

theorem projOps_map_self (j : Nat) (ops : List Op) : projOps j (ops.map fun op => (j, op)) = ops := by
  induction ops with
  | nil => rfl
  | cons op ops ih => simp [projOps] at ih ⊢; exact ih

end Nxs.Dummy
