/-
  Lemmas for C03, part 2: the receive machine (`fill`, `readHdr`, `fillFrame`, `readFrame`,
  `runLoop`) refines `scan`.  Measure: `mu buf rs = |buf| + Σ (|chunk| + 1)`.  Every invocation of
  `readFrame` keeps "frames delivered ++ scan of what is left" invariant and decreases the measure,
  except when the script is exhausted and nothing changed, in which case `scan` is waiting too.
-/
import NxsModel.Lemmas.Reasm
import NxsModel.Route
namespace Nxs
namespace Reasm
open Serial (Hdr Frame)

/-- the termination measure: bytes in the buffer + (bytes + 1) per scripted read -/
def mu (b : Bytes) (rs : List Bytes) : Nat := b.length + scriptSize rs

@[simp] theorem scriptSize_nil : scriptSize [] = 0 := rfl
@[simp] theorem scriptSize_cons (r : Bytes) (rs : List Bytes) :
    scriptSize (r :: rs) = r.length + 1 + scriptSize rs := by
  simp [scriptSize]

/-! ### `fill` / `fillFrame` -/

theorem fill_spec (n : Nat) : ∀ (fuel : Nat) (b : Bytes) (rs : List Bytes) (o : Option Bytes) (b' : Bytes)
    (rs' : List Bytes), scriptSize rs < fuel → fill n fuel b rs = (o, b', rs') →
    b' ++ rs'.flatten = b ++ rs.flatten ∧ (∃ m, b' = b ++ m) ∧
    (o = none → b'.length < n) ∧ (∀ x, o = some x → x = b' ∧ n ≤ b'.length) ∧
    (mu b' rs' < mu b rs ∨ (b' = b ∧ rs' = rs ∧ (o = none → rs = []))) := by
  intro fuel
  induction fuel with
  | zero => intro b rs o b' rs' hf; omega
  | succ fuel ih =>
    intro b rs o b' rs' hf h
    rw [fill] at h
    by_cases hb : b.length < n
    · rw [if_pos hb] at h
      cases rs with
      | nil =>
        simp only [readNext, List.isEmpty_nil, if_true, Prod.mk.injEq] at h
        obtain ⟨rfl, rfl, rfl⟩ := h
        exact ⟨rfl, ⟨[], by simp⟩, fun _ => hb, fun x hx => (by cases hx), Or.inr ⟨rfl, rfl, fun _ => rfl⟩⟩
      | cons r rs1 =>
        by_cases hr : r.isEmpty = true
        · simp only [readNext, hr, if_true, Prod.mk.injEq] at h
          obtain ⟨rfl, rfl, rfl⟩ := h
          have hr' : r = [] := List.isEmpty_iff.mp hr
          subst hr'
          refine ⟨by simp, ⟨[], by simp⟩, fun _ => hb, fun x hx => (by cases hx), Or.inl ?_⟩
          simp [mu]
        · simp only [readNext, hr] at h
          have hfu : scriptSize rs1 < fuel := by simp at hf; omega
          obtain ⟨h1, ⟨m, h2⟩, h3, h4, h5⟩ := ih (b ++ r) rs1 o b' rs' hfu h
          refine ⟨by rw [h1]; simp, ⟨r ++ m, by rw [h2]; simp⟩, h3, h4, Or.inl ?_⟩
          have : mu b' rs' ≤ mu (b ++ r) rs1 := by
            rcases h5 with h5 | ⟨h5, h6, _⟩
            · omega
            · rw [h5, h6]; omega
          simp [mu] at this ⊢
          omega
    · rw [if_neg hb] at h
      simp only [Prod.mk.injEq] at h
      obtain ⟨rfl, rfl, rfl⟩ := h
      refine ⟨rfl, ⟨[], by simp⟩, fun h => (by cases h), fun x hx => ?_, Or.inr ⟨rfl, rfl, fun h => (by cases h)⟩⟩
      cases hx
      exact ⟨rfl, by omega⟩

theorem fillFrame_eq_fill (n : Nat) : ∀ (fuel : Nat) (b : Bytes) (rs : List Bytes),
    fillFrame n fuel b rs = ((fill n fuel b rs).2.1, (fill n fuel b rs).2.2) := by
  intro fuel
  induction fuel with
  | zero => intro b rs; rfl
  | succ fuel ih =>
    intro b rs
    rw [fillFrame, fill]
    by_cases hb : b.length < n
    · rw [if_pos hb, if_pos hb]
      cases rs with
      | nil => simp [readNext]
      | cons r rs1 =>
        by_cases hr : r.isEmpty = true
        · simp only [readNext, hr, if_true]
        · simp only [readNext, hr]; exact ih _ _
    · rw [if_neg hb, if_neg hb]

/-! ### `readHdr` -/

/-- what one call of `_read_hdr` guarantees, relative to the state `(buf, rs)` it started from.
    `none` = returned to the thread loop without a header: the scan of what is left is unchanged and
    either the measure decreased (an empty read, no start byte, or — since the F20 repair — an
    undecodable header with one byte dropped) or nothing at all happened on an exhausted script -/
def HdrPost (c : Codec) (buf : Bytes) (rs : List Bytes) (r : HdrRes) : Prop :=
  match r.hdr with
  | none =>
    scan c (buf ++ rs.flatten) = scan c (r.buf ++ r.reads.flatten) ∧
      (mu r.buf r.reads < mu buf rs ∨ (rs = [] ∧ r.reads = [] ∧ r.buf = buf ∧ scan c buf = []))
  | some (h, bb) =>
    c.hdrDecode bb = .ok h ∧ c.hdrLen ≤ bb.length ∧
      scan c (buf ++ rs.flatten) = scan c (bb ++ r.reads.flatten) ∧
      (mu bb r.reads < mu buf rs ∨ (bb = buf ∧ r.reads = rs))

theorem HdrPost_step {c : Codec} {buf b1 : Bytes} {rs rs1 : List Bytes} {r : HdrRes}
    (hs : scan c (buf ++ rs.flatten) = scan c (b1 ++ rs1.flatten)) (hm : mu b1 rs1 < mu buf rs)
    (hp : HdrPost c b1 rs1 r) : HdrPost c buf rs r := by
  unfold HdrPost at hp ⊢
  rcases hr : r.hdr with _ | ⟨h, bb⟩
  · rw [hr] at hp
    simp only at hp ⊢
    obtain ⟨h1, h2⟩ := hp
    refine ⟨hs.trans h1, Or.inl ?_⟩
    rcases h2 with h2 | ⟨_, h3, h4, _⟩
    · omega
    · rw [h3, h4] at *
      simp [mu] at hm ⊢
      omega
  · rw [hr] at hp
    simp only at hp ⊢
    obtain ⟨h1, h2, h3, h4⟩ := hp
    refine ⟨h1, h2, hs.trans h3, Or.inl ?_⟩
    rcases h4 with h4 | ⟨h4, h5⟩
    · omega
    · rw [h4, h5]; exact hm

section Laws
variable {c : Codec} (hc : LawfulCodec c)
include hc

theorem readHdr_spec : ∀ (fuel : Nat) (buf : Bytes) (rs : List Bytes), mu buf rs < fuel →
    HdrPost c buf rs (readHdr c fuel buf rs) := by
  intro fuel
  induction fuel with
  | zero => intro buf rs h; omega
  | succ fuel ih =>
    intro buf rs hfu
    have hpos := hc.hdrLen_pos
    rw [readHdr]
    rcases hfill : fill c.hdrLen (fuel + 1) buf rs with ⟨fo, fb, frs⟩
    have hsz : scriptSize rs < fuel + 1 := by simp [mu] at hfu; omega
    obtain ⟨h1, _, h3, h4, h5⟩ := fill_spec c.hdrLen (fuel + 1) buf rs fo fb frs hsz hfill
    have hmu : mu fb frs ≤ mu buf rs := by
      rcases h5 with h5 | ⟨h5, h6, _⟩
      · omega
      · rw [h5, h6]; omega
    cases fo with
    | none =>
      simp only
      unfold HdrPost
      simp only
      refine ⟨by rw [h1], ?_⟩
      rcases h5 with h5 | ⟨h5, h6, h7⟩
      · exact Or.inl h5
      · have hrs := h7 rfl
        subst hrs
        refine Or.inr ⟨rfl, h6, h5, ?_⟩
        apply scan_short hc
        rw [← h5]; exact h3 rfl
    | some x =>
      obtain ⟨hx, hlen⟩ := h4 x rfl
      subst hx
      simp only
      cases hfind : c.hdrFind x with
      | none =>
        simp only
        unfold HdrPost
        simp only
        rw [hc.hdrFind_eq] at hfind
        refine ⟨?_, Or.inl ?_⟩
        · rw [← h1, scan_skip hc x _ (findByte_none hfind)]; simp
        · simp [mu] at hmu ⊢; omega
      | some i =>
        simp only
        rw [hc.hdrFind_eq] at hfind
        obtain ⟨hpre, t, ht⟩ := findByte_some hfind
        have hsplit : x ++ frs.flatten = x.take i ++ (x.drop i ++ frs.flatten) := by
          rw [← List.append_assoc, List.take_append_drop]
        have hscan : scan c (buf ++ rs.flatten) = scan c (x.drop i ++ frs.flatten) := by
          rw [← h1, hsplit, scan_skip hc _ _ hpre]
        have hfind0 : ∀ m, c.hdrFind (x.drop i ++ m) = some 0 := by
          intro m; rw [hc.hdrFind_eq, ht, List.cons_append, findByte_cons_self]
        have hdl : (x.drop i).length = x.length - i := by simp
        by_cases hshort : (x.drop i).length < c.hdrLen
        · rw [if_pos hshort]
          have hmu1 : mu (x.drop i) frs < mu buf rs := by
            simp [mu] at hmu ⊢; omega
          exact HdrPost_step hscan hmu1 (ih _ _ (by omega))
        · rw [if_neg hshort]
          cases hdec : c.hdrDecode (x.drop i) with
          | error e =>
            simp only
            have hne : x.drop i ≠ [] := by rw [ht]; simp
            have hmu1 : mu ((x.drop i).drop 1) frs < mu buf rs := by
              simp [mu] at hmu ⊢; omega
            -- F20 repair: the bad-header branch returns (one byte dropped) instead of looping;
            -- the `none` post-condition "same scan, smaller measure" covers it directly
            unfold HdrPost
            simp only
            refine ⟨?_, Or.inl hmu1⟩
            rw [hscan, scan_badhdr hc _ e (hfind0 _) (by simp; omega)
              (by rw [hdrDecode_append hc _ (by omega)]; exact hdec)]
            rw [ht]; simp
          | ok h =>
            simp only
            unfold HdrPost
            simp only
            refine ⟨hdec, by omega, hscan, ?_⟩
            rcases h5 with h5 | ⟨h5, h6, _⟩
            · left; simp [mu] at h5 ⊢; omega
            · by_cases hi : i = 0
              · right; subst hi; simp [h5, h6]
              · left; rw [← h5, ← h6]; simp [mu]; omega

/-! ### `readFrame` -/

/-- what one invocation of the receive-thread body guarantees -/
def FramePost (c : Codec) (buf : Bytes) (rs : List Bytes) (r : Option Frame × Bytes × List Bytes) : Prop :=
  scan c (buf ++ rs.flatten) = r.1.toList ++ scan c (r.2.1 ++ r.2.2.flatten) ∧
    (mu r.2.1 r.2.2 < mu buf rs ∨ (r.1 = none ∧ rs = [] ∧ r.2.2 = [] ∧ r.2.1 = buf ∧ scan c buf = []))

theorem readFrame_spec (fuel : Nat) (buf : Bytes) (rs : List Bytes) (hfu : mu buf rs < fuel) :
    FramePost c buf rs (readFrame c fuel buf rs) := by
  have hpos := hc.hdrLen_pos
  have hpost := readHdr_spec hc fuel buf rs hfu
  unfold readFrame
  rcases hr : readHdr c fuel buf rs with ⟨ho, hb, hrs⟩
  rw [hr] at hpost
  unfold HdrPost at hpost
  rcases ho with _ | ⟨h, bb⟩
  · simp only at hpost ⊢
    unfold FramePost
    simp only [Option.toList_none, List.nil_append]
    refine ⟨hpost.1, ?_⟩
    rcases hpost.2 with h2 | ⟨h2, h3, h4, h5⟩
    · exact Or.inl h2
    · exact Or.inr ⟨trivial, h2, h3, h4, h5⟩
  · simp only at hpost ⊢
    obtain ⟨hdec, hlen, hscan, hmu⟩ := hpost
    have hmu' : mu bb hrs ≤ mu buf rs := by
      rcases hmu with hmu | ⟨h1, h2⟩
      · omega
      · rw [h1, h2]; omega
    rw [fillFrame_eq_fill]
    rcases hfill : fill h.flen fuel bb hrs with ⟨fo, b2, rs2⟩
    have hsz : scriptSize hrs < fuel := by simp [mu] at hmu' hfu; omega
    obtain ⟨h1, ⟨m, h2⟩, h3, h4, h5⟩ := fill_spec h.flen fuel bb hrs fo b2 rs2 hsz hfill
    have hmu2 : mu b2 rs2 ≤ mu bb hrs := by
      rcases h5 with h5 | ⟨h5, h6, _⟩
      · omega
      · rw [h5, h6]; omega
    simp only
    have hdec2 : ∀ m', c.hdrDecode (b2 ++ m') = .ok h := by
      intro m'
      rw [h2, List.append_assoc, hdrDecode_append hc _ hlen]; exact hdec
    have hb2len : c.hdrLen ≤ b2.length := by rw [h2]; simp; omega
    have hscan2 : scan c (buf ++ rs.flatten) = scan c (b2 ++ rs2.flatten) := by rw [hscan, h1]
    by_cases hshort : b2.length < h.flen
    · rw [if_pos hshort]
      unfold FramePost
      simp only [Option.toList_none, List.nil_append]
      refine ⟨hscan2, ?_⟩
      have hfo : fo = none := by
        cases fo with
        | none => rfl
        | some x => have := (h4 x rfl).2; omega
      rcases h5 with h5 | ⟨h5, h6, h7⟩
      · left; omega
      · have hrs0 := h7 hfo
        rcases hmu with hmu | ⟨h8, h9⟩
        · left; rw [h5, h6]; exact hmu
        · right
          subst h5 h6 h8 h9
          subst hrs0
          refine ⟨trivial, rfl, rfl, rfl, ?_⟩
          exact scan_wait hc _ h hdec hshort
    · rw [if_neg hshort]
      have htake : ∀ m', (b2 ++ m').take h.flen = b2.take h.flen := by
        intro m'; rw [List.take_append_of_le_length (by omega)]
      cases hfd : c.frameDecode (b2.take h.flen) with
      | error e =>
        simp only
        unfold FramePost
        simp only [Option.toList_none, List.nil_append]
        refine ⟨?_, Or.inl ?_⟩
        · rw [hscan2, scan_badframe hc _ h e (hdec2 _) (by simp; omega) (by rw [htake]; exact hfd)]
          cases b2 with
          | nil => simp at hb2len; omega
          | cons y t => simp
        · simp [mu] at hmu2 hmu' ⊢; omega
      | ok fr =>
        simp only
        unfold FramePost
        simp only [Option.toList_some]
        have hfl := frameDecode_take_len hc hfd
        refine ⟨?_, Or.inl ?_⟩
        · rw [hscan2, scan_frame hc _ h fr (hdec2 _) (by simp; omega) (by rw [htake]; exact hfd)]
          rw [List.drop_append_of_le_length (by omega)]
          rfl
        · simp [mu] at hmu2 hmu' ⊢; omega

/-! ### `runLoop` -/

theorem runLoop_spec : ∀ (fuel : Nat) (buf : Bytes) (rs : List Bytes), mu buf rs < fuel →
    runLoop c fuel buf rs = scan c (buf ++ rs.flatten) := by
  intro fuel
  induction fuel with
  | zero => intro buf rs h; omega
  | succ fuel ih =>
    intro buf rs hfu
    have hpost := readFrame_spec hc (fuelFor buf rs) buf rs (by simp [fuelFor, mu])
    rw [runLoop]
    rcases hr : readFrame c (fuelFor buf rs) buf rs with ⟨o, b', rs'⟩
    rw [hr] at hpost
    unfold FramePost at hpost
    simp only at hpost ⊢
    obtain ⟨hscan, hmu⟩ := hpost
    cases o with
    | some fr =>
      simp only
      rcases hmu with hmu | ⟨h, _⟩
      · rw [ih _ _ (by omega), hscan]; rfl
      · cases h
    | none =>
      simp only
      by_cases hstop : rs'.isEmpty = true ∧ rs.isEmpty = true ∧ b' = buf
      · rw [if_pos hstop]
        obtain ⟨e1, e2, e3⟩ := hstop
        have e1' := List.isEmpty_iff.mp e1
        have e2' := List.isEmpty_iff.mp e2
        subst e1' e2' e3
        rcases hmu with hmu | ⟨_, _, _, _, h⟩
        · omega
        · simpa using h.symm
      · rw [if_neg hstop]
        rcases hmu with hmu | ⟨_, h1, h2, h3, _⟩
        · rw [ih _ _ (by omega), hscan]; rfl
        · exfalso; apply hstop; simp [h1, h2, h3]

theorem run_eq_scan (chunks : List Bytes) : run c chunks = scan c chunks.flatten := by
  unfold run
  rw [runLoop_spec hc _ _ _ (by simp [mu]; omega)]
  rfl


/-- the machine on a continued script: what it delivers for the reads `cs₁` followed by the reads `cs₂` is
    what it delivered for `cs₁`, then the scan of (the candidate it was waiting on ++ the new bytes) -/
theorem run_resume (cs₁ cs₂ : List Bytes) :
    run c (cs₁ ++ cs₂) = run c cs₁ ++ scan c (scanRest c cs₁.flatten ++ cs₂.flatten) := by
  rw [run_eq_scan hc, run_eq_scan hc, List.flatten_append, scan_resume hc]

end Laws

/-! ### routing of the delivered frames (`_recv_thread`) -/

/-- the receive thread drops exactly the ACK frames that arrive while no device is known -/
def droppedAck (hasDev : Bool) (f : Frame) : Bool := !hasDev && decide (f.fid = Gen.Ids.idACK)

theorem queues_eq_filter (hasDev : Bool) (frs : List Frame) :
    (Route.queues hasDev frs).2 = frs.filter (fun f => decide (f.fid = Gen.Ids.idSTREAM)) ∧
    (Route.queues hasDev frs).1 =
      frs.filter (fun f => !decide (f.fid = Gen.Ids.idSTREAM) && !droppedAck hasDev f) := by
  have hne : Gen.Ids.idACK ≠ Gen.Ids.idSTREAM := by decide
  induction frs with
  | nil => simp [Route.queues]
  | cons fr r ih =>
    obtain ⟨ih1, ih2⟩ := ih
    have hq : Route.queues hasDev (fr :: r) =
        (match Route.dest hasDev fr with
          | .stream => ((Route.queues hasDev r).1, fr :: (Route.queues hasDev r).2)
          | .resp => (fr :: (Route.queues hasDev r).1, (Route.queues hasDev r).2)
          | .dropped => ((Route.queues hasDev r).1, (Route.queues hasDev r).2)) := rfl
    rw [hq]
    by_cases h1 : fr.fid = Gen.Ids.idSTREAM
    · have hd : Route.dest hasDev fr = .stream := by simp [Route.dest, h1]
      rw [hd]
      simp [h1, ih1, ih2]
    · by_cases h2 : hasDev = false ∧ fr.fid = Gen.Ids.idACK
      · have hd : Route.dest hasDev fr = .dropped := by simp [Route.dest, h2.1, h2.2, hne]
        rw [hd]
        obtain ⟨ha, hb⟩ := h2
        subst ha
        simp [hb, hne, ih1, ih2, droppedAck]
      · have hd : Route.dest hasDev fr = .resp := by
          simp only [Route.dest, h1, if_false]
          cases hasDev <;> simp_all
        rw [hd]
        have : droppedAck hasDev fr = false := by
          unfold droppedAck
          cases hasDev <;> simp_all
        simp [h1, this, ih1, ih2]

/-- nothing is invented, lost or duplicated by the routing: the two queues together hold, up to the
    interleaving, exactly the delivered frames that are not dropped ACKs -/
theorem queues_perm (hasDev : Bool) (frs : List Frame) :
    ((Route.queues hasDev frs).1 ++ (Route.queues hasDev frs).2).Perm
      (frs.filter (fun f => !droppedAck hasDev f)) := by
  obtain ⟨h2, h1⟩ := queues_eq_filter hasDev frs
  rw [h1, h2]
  clear h1 h2
  have hne : Gen.Ids.idACK ≠ Gen.Ids.idSTREAM := by decide
  induction frs with
  | nil => simp
  | cons fr r ih =>
    by_cases hs : fr.fid = Gen.Ids.idSTREAM
    · have hd : droppedAck hasDev fr = false := by
        unfold droppedAck; rw [hs]; simp [Ne.symm hne]
      simp only [List.filter_cons, hs, decide_true, Bool.not_true, Bool.false_and, hd, Bool.not_false]
      simp only [Bool.false_eq_true, if_false, if_true]
      exact (List.perm_middle).trans (List.Perm.cons _ ih)
    · by_cases hd : droppedAck hasDev fr = true
      · simp only [List.filter_cons, hs, decide_false, hd, Bool.not_true, Bool.and_false]
        simpa using ih
      · have hd' : droppedAck hasDev fr = false := by simpa using hd
        simp only [List.filter_cons, hs, decide_false, hd', Bool.not_false, Bool.and_self]
        simp only [Bool.false_eq_true, if_false, if_true, List.cons_append]
        exact List.Perm.cons _ ih

end Reasm
end Nxs
