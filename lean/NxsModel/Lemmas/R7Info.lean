/-
  R7Info (round 7) — lemmas for the C06 additions: the shape of every frame the client's decoders accept
  (bounds on what the client can ever learn), injectivity of the configuration → description map, and
  the collecting discipline of `_devinfo_get` (everything before the last common-info answer is forgotten).
-/
import NxsModel.Lemmas.Info
namespace Nxs.Info
open Nxs Nxs.Spec Gen.Ids

/-- every CHINFO frame the client's decoder accepts has id 3, at least five bytes, a well-formed name field, and
    the result is read off those bytes -/
theorem chinfoDecode_some_shape (fr : Serial.Frame) (ci : ChanInfo) (h : chinfoDecode fr = .ok (some ci)) :
    ∃ a b c d e s, fr = ⟨3, [a, b, c, d, e] ++ s⟩ ∧ validUtf8 s = true ∧
      ci = ⟨a ≠ 0, b.toNat, c.toNat, d.toNat, e.toNat, cstr s⟩ := by
  obtain ⟨fid, data⟩ := fr
  by_cases hf : fid = 3
  · subst hf
    match data with
    | a :: b :: c :: d :: e :: s =>
      have h5 := chinfoDecode_five a b c d e s
      have hd : (a :: b :: c :: d :: e :: s) = [a, b, c, d, e] ++ s := rfl
      rw [hd, h5] at h
      by_cases hv : validUtf8 s = true
      · rw [if_pos hv] at h
        have := Except.ok.inj h
        exact ⟨a, b, c, d, e, s, by rw [hd], hv, (Option.some.inj this).symm⟩
      · rw [if_neg hv] at h; cases h
    | [] | [_] | [_, _] | [_, _, _] | [_, _, _, _] =>
      exfalso
      unfold chinfoDecode at h
      rw [if_neg (by simp [idCHINFO]), if_pos (by simp)] at h
      cases h
  · exfalso
    rw [(wrong_kind fid data).2.1 hf] at h
    cases h

theorem cstr_no_zero : ∀ (s : Bytes) (b : Byte), b ∈ cstr s → b ≠ 0
  | [], b, h => by simp [cstr] at h
  | x :: xs, b, h => by
    unfold cstr at h
    rw [List.takeWhile_cons] at h
    by_cases hx : x = 0
    · subst hx; simp at h
    · have hd : decide (x ≠ 0) = true := decide_eq_true hx
      rw [hd, if_pos rfl, List.mem_cons] at h
      rcases h with rfl | h
      · exact hx
      · exact cstr_no_zero xs b h

/-- cutting a well-formed field at the first NUL leaves a well-formed, NUL-free name no longer than the field -/
theorem cstr_props (s : Bytes) (hv : validUtf8 s = true) :
    validUtf8 (cstr s) = true ∧ (∀ b ∈ cstr s, b ≠ 0) ∧ (cstr s).length ≤ s.length := by
  refine ⟨?_, ?_, ?_⟩
  · obtain ⟨cs, hcs⟩ := (validUtf8_iff_encoding s).mp hv
    exact utf8Encode_valid _ _ (cstr_utf8Encode cs s hcs)
  · exact cstr_no_zero s
  · exact (List.takeWhile_sublist _).length_le

/-- every CMNINFO frame the client's decoder accepts has id 2 and at least three bytes; the result is its first
    three bytes -/
theorem cmninfoDecode_some_shape (fr : Serial.Frame) (t : Nat × Nat × Nat) (h : cmninfoDecode fr = .ok (some t)) :
    ∃ a b c rest, fr = ⟨2, a :: b :: c :: rest⟩ ∧ t = ((a : Byte).toNat, (b : Byte).toNat, (c : Byte).toNat) := by
  obtain ⟨fid, data⟩ := fr
  by_cases hf : fid = 2
  · subst hf
    match data with
    | a :: b :: c :: rest =>
      refine ⟨a, b, c, rest, rfl, ?_⟩
      unfold cmninfoDecode at h
      rw [if_neg (by simp [idCMNINFO])] at h
      have hs : slice (⟨2, a :: b :: c :: rest⟩ : Serial.Frame).data 0 3 = [a, b, c] := by simp [slice]
      rw [hs, unpack_cmninfoDec] at h
      simp only [Int.toNat_natCast] at h
      exact (Option.some.inj (Except.ok.inj h)).symm
    | [] | [_] | [_, _] =>
      exfalso
      unfold cmninfoDecode at h
      rw [if_neg (by simp [idCMNINFO])] at h
      simp [slice, unpack, cmninfoDec_atoms, unpackAtoms, Atom.size, Code.size] at h <;> cases h
  · exfalso
    rw [(wrong_kind fid data).1 hf] at h
    cases h

end Nxs.Info

namespace Nxs.Describe
open Nxs Nxs.Info Nxs.Handshake

theorem toInfo_inj (a b : ChanCfg) (ha : ChanOk a) (hb : ChanOk b) (h : toInfo a = toInfo b) : a = b := by
  obtain ⟨en, ty, vdim, div, mlen, name⟩ := a
  obtain ⟨en', ty', vdim', div', mlen', name'⟩ := b
  obtain ⟨⟨t0, _⟩, ⟨v0, _⟩, ⟨d0, _⟩, ⟨m0, _⟩, _, _, _⟩ := ha
  obtain ⟨⟨t0', _⟩, ⟨v0', _⟩, ⟨d0', _⟩, ⟨m0', _⟩, _, _, _⟩ := hb
  simp only at t0 v0 d0 m0 t0' v0' d0' m0'
  simp only [toInfo, ChanInfo.mk.injEq] at h
  obtain ⟨h1, h2, h3, h4, h5, h6⟩ := h
  have e2 : ty = ty' := by omega
  have e3 : vdim = vdim' := by omega
  have e4 : div = div' := by omega
  have e5 : mlen = mlen' := by omega
  subst h1 e2 e3 e4 e5 h6
  rfl

theorem clientView_inj : ∀ (cs cs' : List ChanCfg) (i : Nat), (∀ ch ∈ cs, ChanOk ch) → (∀ ch ∈ cs', ChanOk ch) →
    clientView cs i = clientView cs' i → cs = cs'
  | [], [], _, _, _, _ => rfl
  | [], _ :: _, _, _, _, h => by simp [clientView] at h
  | _ :: _, [], _, _, _, h => by simp [clientView] at h
  | c :: cs, c' :: cs', i, h1, h2, h => by
    simp only [clientView, List.cons.injEq, ClientChan.mk.injEq, true_and] at h
    rw [toInfo_inj c c' (h1 c (by simp)) (h2 c' (by simp)) h.1,
      clientView_inj cs cs' (i + 1) (fun x hx => h1 x (by simp [hx])) (fun x hx => h2 x (by simp [hx])) h.2]

/-- against a conforming device every request is answered decodably: reading the answers never raises -/
theorem absorb_total (c : DevCfg) (h : CfgOk c) (st : Collected) (r : Req) : ∃ st', absorb c st r = .ok st' := by
  cases r with
  | stop => exact ⟨st, rfl⟩
  | padding n => exact ⟨st, rfl⟩
  | cmninfo => exact ⟨_, absorb_cmninfo c h st⟩
  | chinfo i =>
    cases hi : c.chans[i]? with
    | some ch => exact ⟨_, absorb_chinfo c st i ch hi (h.chans ch (List.mem_of_getElem? hi))⟩
    | none => exact ⟨st, by unfold absorb respond; simp only [hi, Option.map_none]⟩

theorem absorbAll_total (c : DevCfg) (h : CfgOk c) : ∀ (rs : List Req) (st : Collected),
    ∃ st', absorbAll c st rs = .ok st'
  | [], st => ⟨st, rfl⟩
  | r :: rs, st => by
    obtain ⟨st1, h1⟩ := absorb_total c h st r
    obtain ⟨st2, h2⟩ := absorbAll_total c h rs st1
    exact ⟨st2, by simp only [absorbAll, h1, ok_bind, h2]⟩

/-- a common-info answer restarts the collection: what was collected before plays no part afterwards -/
theorem absorbAll_info_reset (c : DevCfg) (h : CfgOk c) (padding : Nat) (st st' : Collected) :
    absorbAll c st (infoRequests c.desc padding) = absorbAll c st' (infoRequests c.desc padding) := by
  show absorbAll c st (Req.cmninfo :: _) = absorbAll c st' (Req.cmninfo :: _)
  simp only [absorbAll, absorb_cmninfo c h, ok_bind]

end Nxs.Describe
