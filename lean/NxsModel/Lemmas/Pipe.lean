/- helper lemmas about the serial-port pipe model (C18) -/
import NxsModel.Pipe
namespace Nxs.Pipe
open Nxs

/-! ### unfolding `run` -/

theorem run_nil (pt : Port) (s : State) : run pt s [] = (s, []) := rfl

theorem run_cons (pt : Port) (s : State) (op : Op) (ops : List Op) :
    run pt s (op :: ops) =
      ((run pt (step pt s op).1 ops).1, (step pt s op).2 :: (run pt (step pt s op).1 ops).2) := rfl

theorem run_append (pt : Port) (s : State) (a b : List Op) :
    run pt s (a ++ b) =
      ((run pt (run pt s a).1 b).1, (run pt s a).2 ++ (run pt (run pt s a).1 b).2) := by
  induction a generalizing s with
  | nil => rfl
  | cons op a ih => rw [List.cons_append, run_cons, ih, run_cons]; rfl

theorem clientGot_cons (o : Obs) (os : List Obs) : clientGot (o :: os) = clientGot [o] ++ clientGot os := by
  cases o <;> simp [clientGot]

theorem peerGot_cons (o : Obs) (os : List Obs) : peerGot (o :: os) = peerGot [o] ++ peerGot os := by
  cases o <;> simp [peerGot]

theorem peerSent_cons (op : Op) (ops : List Op) : peerSent (op :: ops) = peerSent [op] ++ peerSent ops := by
  cases op <;> simp [peerSent]

/-! ### the loop of `drop_all` -/

/-- `drop_all` neither invents nor loses bytes: dropped ++ still waiting = what was waiting -/
theorem dropLoop_conserve (pt : Port) : ∀ (fuel c : Nat) (w acc : Bytes) (bl : Bool),
    (dropLoop pt fuel c w acc bl).1 ++ (dropLoop pt fuel c w acc bl).2.1 = acc ++ w := by
  intro fuel
  induction fuel with
  | zero => intro c w acc bl; rfl
  | succ fuel ih =>
    intro c w acc bl
    cases c with
    | zero => rfl
    | succ c =>
      simp only [dropLoop]
      split
      · exact ih ..
      · rw [ih, List.append_assoc, List.take_append_drop]

/-- with a lawful port and at least one poll, `drop_all` on a quiet line takes everything that is
    waiting and never waits for the timeout -/
theorem dropLoop_drains (pt : Port) (hl : pt.Lawful) : ∀ (fuel c : Nat) (w acc : Bytes) (bl : Bool),
    w.length + (c + 1) ≤ fuel → dropLoop pt fuel (c + 1) w acc bl = (acc ++ w, [], bl) := by
  intro fuel
  induction fuel with
  | zero => intro c w acc bl h; omega
  | succ fuel ih =>
    intro c w acc bl h
    have hle := hl.le w.length
    have hbl : (bl || decide (w.length < pt.readCount w.length)) = bl := by
      simp [Nat.not_lt.mpr hle]
    simp only [dropLoop]
    rw [hbl]
    cases w with
    | nil =>
      have h0 : pt.readCount ([] : Bytes).length = 0 := by simpa using hle
      rw [h0]
      simp only [List.take_nil, List.isEmpty_nil, if_true]
      cases c with
      | zero => cases fuel <;> simp [dropLoop]
      | succ c => rw [ih c [] acc bl (by simp at h ⊢; omega)]
    | cons x w =>
      have hpos := hl.pos (x :: w).length (by simp)
      have hne : ((x :: w).take (pt.readCount (x :: w).length)).isEmpty = false := by
        cases hn : pt.readCount (x :: w).length with
        | zero => omega
        | succ n => rfl
      rw [hne]
      simp only [Bool.false_eq_true, if_false]
      rw [ih c _ _ bl (by simp only [List.length_drop]; simp only [List.length_cons] at h hpos ⊢; omega),
        List.append_assoc, List.take_append_drop]

/-! ### conservation, one step -/

theorem step_rx (pt : Port) (s : State) (op : Op) :
    clientGot [(step pt s op).2] ++ (step pt s op).1.rxWaiting ++ (step pt s op).1.rxFlight
      = s.rxWaiting ++ s.rxFlight ++ peerSent [op] := by
  cases op with
  | dropAll =>
    have h := dropLoop_conserve pt (s.rxWaiting.length + pt.dropPolls) pt.dropPolls s.rxWaiting [] false
    simp only [step, clientGot, peerSent, List.append_nil]
    rw [h]; rfl
  | read => simp [step, clientGot, peerSent]
  | osDeliver k =>
    simp only [step, clientGot, peerSent, List.append_nil, List.nil_append, List.append_assoc,
      List.take_append_drop]
  | _ => simp [step, clientGot, peerSent]

theorem step_tx (pt : Port) (s : State) (op : Op) :
    peerGot [(step pt s op).2] ++ (step pt s op).1.txWaiting ++ (step pt s op).1.txFlight
      = s.txWaiting ++ s.txFlight ++ (alignedWrites s.pad [op]).flatten := by
  cases op with
  | dropAll => simp [step, peerGot, alignedWrites]
  | osDeliverTx k =>
    simp only [step, peerGot, alignedWrites, List.flatten_nil, List.append_nil, List.nil_append,
      List.append_assoc, List.take_append_drop]
  | _ => simp [step, peerGot, alignedWrites]

/-- the padding after a step -/
theorem alignedWrites_cons (p : Nat) (pt : Port) (s : State) (op : Op) (ops : List Op) (hp : s.pad = p) :
    alignedWrites p (op :: ops) = alignedWrites p [op] ++ alignedWrites (step pt s op).1.pad ops := by
  subst hp
  cases op <;> simp [alignedWrites, step]

/-! ### conservation, whole histories -/

/-- client direction: what the client took ++ what is waiting ++ what is in flight is always what
    was there at the start followed by everything the other end sent -/
theorem run_rx (pt : Port) (s : State) (ops : List Op) :
    clientGot (run pt s ops).2 ++ (run pt s ops).1.rxWaiting ++ (run pt s ops).1.rxFlight
      = s.rxWaiting ++ s.rxFlight ++ peerSent ops := by
  induction ops generalizing s with
  | nil => simp [run_nil, clientGot, peerSent]
  | cons op ops ih =>
    rw [run_cons, clientGot_cons, peerSent_cons]
    simp only
    rw [List.append_assoc, List.append_assoc, ← List.append_assoc (clientGot (run pt _ ops).2), ih,
      ← List.append_assoc, ← List.append_assoc, step_rx, List.append_assoc]

/-- other direction: what the other end took ++ what waits there ++ what is in flight is what was
    there at the start followed by the aligned writes -/
theorem run_tx (pt : Port) (s : State) (ops : List Op) :
    peerGot (run pt s ops).2 ++ (run pt s ops).1.txWaiting ++ (run pt s ops).1.txFlight
      = s.txWaiting ++ s.txFlight ++ (alignedWrites s.pad ops).flatten := by
  induction ops generalizing s with
  | nil => simp [run_nil, peerGot, alignedWrites]
  | cons op ops ih =>
    rw [run_cons, peerGot_cons, alignedWrites_cons s.pad pt s op ops rfl, List.flatten_append]
    simp only
    rw [List.append_assoc, List.append_assoc, ← List.append_assoc (peerGot (run pt _ ops).2), ih,
      ← List.append_assoc, ← List.append_assoc, step_tx, List.append_assoc]

/-- without a change of padding every write is aligned with the initial padding -/
theorem alignedWrites_fixed (p : Nat) (ops : List Op) (h : ∀ q, Op.setPad q ∉ ops) :
    alignedWrites p ops = (writes ops).map (Pad.dataAlign p) := by
  induction ops with
  | nil => rfl
  | cons op ops ih =>
    have ih' := ih (fun q hq => h q (List.mem_cons_of_mem _ hq))
    cases op with
    | setPad q => exact absurd (List.mem_cons_self) (h q)
    | write d => simp [alignedWrites, writes, ih']
    | _ => simpa [alignedWrites, writes] using ih'

/-- without `drop_all` the client's bytes are exactly the results of its reads -/
theorem readChunks_flatten (pt : Port) (s : State) (ops : List Op) (h : Op.dropAll ∉ ops) :
    (readChunks (run pt s ops).2).flatten = clientGot (run pt s ops).2 := by
  induction ops generalizing s with
  | nil => rfl
  | cons op ops ih =>
    have ih' := ih (step pt s op).1 (fun hq => h (List.mem_cons_of_mem _ hq))
    rw [run_cons]
    simp only
    cases op with
    | dropAll => exact absurd (List.mem_cons_self) h
    | read => simp only [step, readChunks, clientGot, List.flatten_cons] at ih' ⊢; rw [ih']
    | readError => simp only [step, readChunks, clientGot, List.flatten_cons] at ih' ⊢; rw [ih']
    | _ => simpa [step, readChunks, clientGot] using ih'

/-! ### blocking -/

theorem anyBlocked_cons (o : Obs) (os : List Obs) : anyBlocked (o :: os) = (anyBlocked [o] || anyBlocked os) := by
  cases o <;> simp [anyBlocked]

/-- the reads of `drop_all` never wait on a lawful port -/
theorem dropLoop_not_blocked (pt : Port) (hl : pt.Lawful) : ∀ (fuel c : Nat) (w acc : Bytes),
    (dropLoop pt fuel c w acc false).2.2 = false := by
  intro fuel
  induction fuel with
  | zero => intro c w acc; rfl
  | succ fuel ih =>
    intro c w acc
    cases c with
    | zero => rfl
    | succ c =>
      have hbl : (false || decide (w.length < pt.readCount w.length)) = false := by
        simp [Nat.not_lt.mpr (hl.le w.length)]
      simp only [dropLoop]
      rw [hbl]
      split
      · exact ih ..
      · exact ih ..

theorem step_not_blocked (pt : Port) (hl : pt.Lawful) (s : State) (op : Op) :
    anyBlocked [(step pt s op).2] = false := by
  cases op with
  | read => simp [step, anyBlocked, Nat.not_lt.mpr (hl.le s.rxWaiting.length)]
  | dropAll =>
    simp only [step, anyBlocked, Bool.or_false]
    exact dropLoop_not_blocked pt hl ..
  | _ => simp [step, anyBlocked]

theorem run_not_blocked (pt : Port) (hl : pt.Lawful) (s : State) (ops : List Op) :
    anyBlocked (run pt s ops).2 = false := by
  induction ops generalizing s with
  | nil => rfl
  | cons op ops ih => rw [run_cons, anyBlocked_cons, step_not_blocked pt hl, ih]; rfl

/-! ### the line settings -/

/-- an 8N1 line without flow control hands over every byte value unchanged -/
theorem Line.carry_of_is8N1 (l : Line) (h : l.is8N1 = true) (b : Nat) (hb : b < 256) : l.carry b = some b := by
  simp only [Line.is8N1, Bool.and_eq_true, beq_iff_eq, Bool.not_eq_eq_eq_not, Bool.not_true] at h
  obtain ⟨⟨⟨⟨⟨h8, _⟩, _⟩, hx⟩, _⟩, _⟩ := h
  simp only [Line.carry, hx, h8, Bool.false_and, Bool.false_eq_true, if_false]
  congr 1
  exact Nat.mod_eq_of_lt hb

/-- exactly the lines with at least 8 data bits and without software flow control hand over all 256 byte
    values unchanged (fewer data bits lose the top bit of 0xff, XON/XOFF swallows 0x11 and 0x13) -/
theorem Line.carry_all_iff (l : Line) :
    (∀ b, b < 256 → l.carry b = some b) ↔ (8 ≤ l.dataBits ∧ l.xonxoff = false) := by
  constructor
  · intro h
    have hx : l.xonxoff = false := by
      cases hxx : l.xonxoff with
      | false => rfl
      | true =>
        have := h 0x11 (by decide)
        simp [Line.carry, hxx] at this
    refine ⟨?_, hx⟩
    have h255 := h 255 (by decide)
    simp only [Line.carry, hx, Bool.false_and, Bool.false_eq_true, if_false, Option.some.injEq] at h255
    apply Decidable.byContradiction
    intro hlt
    have hk : l.dataBits ≤ 7 := by omega
    have : 2 ^ l.dataBits ≤ 2 ^ 7 := Nat.pow_le_pow_right (by decide) hk
    have hpos : 0 < 2 ^ l.dataBits := Nat.pow_pos (by decide)
    have := Nat.mod_lt 255 hpos
    omega
  · rintro ⟨h8, hx⟩ b hb
    simp only [Line.carry, hx, Bool.false_and, Bool.false_eq_true, if_false]
    congr 1
    apply Nat.mod_eq_of_lt
    have : 2 ^ 8 ≤ 2 ^ l.dataBits := Nat.pow_le_pow_right (by decide) h8
    omega

/-- a write that fits into the free room of the OS buffer plus what the line takes within the write
    timeout is handed over whole -/
theorem writeAccepted_of_le (room rate t n : Nat) (h : n ≤ room + rate * t) :
    writeAccepted room rate (some t) n = n := by
  simp only [writeAccepted]; omega

/-- a longer one is cut (and, for `t > 0`, pyserial raises `SerialTimeoutException`) -/
theorem writeAccepted_of_gt (room rate t n : Nat) (h : room + rate * t < n) :
    writeAccepted room rate (some t) n = room + rate * t := by
  simp only [writeAccepted]; omega

/-- `data_align` adds fewer than `p` bytes -/
theorem dataAlign_length_le (p : Nat) (d : Bytes) : (Pad.dataAlign p d).length ≤ d.length + (p - 1) := by
  unfold Pad.dataAlign
  by_cases hp : p = 0
  · simp [hp]
  · by_cases hm : d.length % p = 0
    · simp [hp, hm]
    · have : 0 < d.length % p := Nat.pos_of_ne_zero hm
      simp only [ne_eq, hp, not_false_eq_true, if_true, hm, List.length_append, List.length_replicate]
      omega

/-- the port interface of the working tree is lawful: the size it asks for is never more than what
    is waiting, and never zero when something is waiting -/
theorem Port.real_lawful : Port.real.Lawful where
  le := fun w => by
    show Gen.SerialIntf.readCount w ≤ w
    unfold Gen.SerialIntf.readCount
    first | omega | (split <;> omega)
  pos := fun w h => by
    show 0 < Gen.SerialIntf.readCount w
    unfold Gen.SerialIntf.readCount
    first | omega | (split <;> omega)

end Nxs.Pipe
