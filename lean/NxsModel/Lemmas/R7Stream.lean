/-
  Round 7 lemmas for C04 / C15: the size of a well-formed sample on the wire, the length of a payload as the
  sum of its sample sizes, unique decodability (a well-formed payload determines its samples; a well-formed
  sample is self-delimiting), splitting a payload of a concatenated sample list, and independence of the
  channels a payload does not mention.
-/
import NxsModel.Lemmas.Stream
namespace Nxs.Stream
open Nxs Nxs.Spec.StreamWire Nxs.Gen.Ids

/-- bytes one sample of channel `chan` takes on the wire according to the layout alone: channel id byte +
    `vdim` values of the type's size + `mlen` metadata bytes (0 for a channel / type that does not exist) -/
def sampleSize (layout : List Chan) (user : List UserType) (chan : Nat) : Nat :=
  match layout[chan]? with
  | none => 0
  | some ch =>
    match typeGet ch.dtype user with
    | .error _ => 0
    | .ok d => 1 + d.slen * ch.vdim + ch.mlen

/-- a well-formed sample occupies exactly `sampleSize` bytes: 1 + size × vdim + mlen -/
theorem wireSample_length {layout : List Chan} {user : List UserType} {s : Sample} {b : Bytes}
    (h : wireSample layout user s = some b) : b.length = sampleSize layout user s.chan := by
  unfold wireSample at h
  unfold sampleSize
  split at h
  next => cases h
  next ch hch =>
    split at h
    next => cases h
    next d hd =>
      simp only [hch, hd]
      rw [← dsfmtGet_eq] at hd
      split at h
      next hc =>
        obtain ⟨hid, hvd, hml, hdt, hdim⟩ := hc
        simp only at h
        split at h
        next x m hx hm =>
          cases h
          obtain ⟨f, hf, hbe, hfa, hsz⟩ := dataFmt_spec hd hdim
          obtain ⟨hx1, hxk⟩ := encList_data hx
          obtain ⟨_, hxu, hxl⟩ := encList_atoms hx1
          obtain ⟨_, hmu, hml'⟩ := encList_meta hm
          simp only [List.length_cons, List.length_append, hxl, hsz, hml']
          omega
        next => cases h
      next => cases h

/-- the payload body of a sample list is as long as the sum of its sample sizes -/
theorem wireOf_length {layout : List Chan} {user : List UserType} {ss : List Sample} {body : Bytes}
    (h : wireOf layout user ss = some body) :
    body.length = (ss.map (fun s => sampleSize layout user s.chan)).sum := by
  induction ss generalizing body with
  | nil => simp [wireOf] at h; subst h; rfl
  | cons s ss ih =>
    obtain ⟨x, r, hx, hr, rfl⟩ := wireOf_cons_some h
    simp only [List.length_append, List.map_cons, List.sum_cons, wireSample_length hx, ih hr]

/-- a well-formed sample is self-delimiting: the bytes that start with it determine it and what follows -/
theorem wireSample_self_delimiting {layout : List Chan} {user : List UserType} {s₁ s₂ : Sample}
    {b₁ b₂ r₁ r₂ : Bytes} (h₁ : wireSample layout user s₁ = some b₁) (h₂ : wireSample layout user s₂ = some b₂)
    (h : b₁ ++ r₁ = b₂ ++ r₂) : s₁ = s₂ ∧ b₁ = b₂ ∧ r₁ = r₂ := by
  have d1 := decodeOne_wire r₁ h₁
  have d2 := decodeOne_wire r₂ h₂
  rw [h, d2] at d1
  have := Except.ok.inj d1
  injection this with ha hb
  subst ha; subst hb
  rw [h₁] at h₂
  exact ⟨rfl, Option.some.inj h₂, rfl⟩

/-- unique decodability: a payload body is the encoding of at most one sample list -/
theorem wireOf_injective {layout : List Chan} {user : List UserType} {ss₁ ss₂ : List Sample} {body : Bytes}
    (h₁ : wireOf layout user ss₁ = some body) (h₂ : wireOf layout user ss₂ = some body) : ss₁ = ss₂ := by
  have d1 := streamDecode_wire layout user 0 ss₁ body h₁
  have d2 := streamDecode_wire layout user 0 ss₂ body h₂
  rw [d1] at d2
  have := Except.ok.inj d2
  injection this with h3
  injection h3 with _ h4

/-- the payload of a concatenation splits: both parts are well-formed and the body is their concatenation -/
theorem wireOf_append_inv {layout : List Chan} {user : List UserType} {s1 s2 : List Sample} {b : Bytes}
    (h : wireOf layout user (s1 ++ s2) = some b) :
    ∃ b1 b2, wireOf layout user s1 = some b1 ∧ wireOf layout user s2 = some b2 ∧ b = b1 ++ b2 := by
  induction s1 generalizing b with
  | nil => exact ⟨[], b, rfl, by simpa using h, rfl⟩
  | cons s ss ih =>
    rw [List.cons_append] at h
    obtain ⟨x, r, hx, hr, rfl⟩ := wireOf_cons_some h
    obtain ⟨b1, b2, h1, h2, rfl⟩ := ih hr
    exact ⟨x ++ b1, b2, wireOf_cons_of hx h1, h2, by simp⟩

/-- channels the samples do not mention play no role: two layouts that agree on the channels of `ss` give the
    same payload (or both none) -/
theorem wireOf_layout_congr {L L' : List Chan} {user : List UserType} {ss : List Sample}
    (h : ∀ s ∈ ss, L[s.chan]? = L'[s.chan]?) : wireOf L user ss = wireOf L' user ss := by
  induction ss with
  | nil => rfl
  | cons s ss ih =>
    have h1 : wireSample L user s = wireSample L' user s := by
      unfold wireSample
      rw [h s (by simp)]
    simp only [wireOf, h1, ih (fun t ht => h t (by simp [ht]))]

/-! ### malformed payloads: a truncated sample, an unknown channel -/

theorem error_bind {α β : Type} (e : Err) (f : α → Except Err β) : (Except.error e : Except Err α).bind f = .error e := rfl

/-- `struct.unpack` on fewer bytes than the format needs raises `struct.error` -/
theorem unpackAtoms_too_short (be : Bool) : ∀ (as : List Atom) (bs : Bytes), bs.length < atomsSize as →
    unpackAtoms be as bs = .error .structError := by
  intro as
  induction as with
  | nil => intro bs h; simp [atomsSize] at h
  | cons a as ih =>
    intro bs h
    by_cases hs : bs.length < a.size
    · exact unpackAtoms_short hs
    · rw [unpackAtoms_cons (by omega), ih (bs.drop a.size) (by
        simp only [atomsSize, List.map_cons, List.sum_cons] at h
        simp only [atomsSize, List.length_drop]
        omega)]
      rfl

/-- a well-formed sample cut short anywhere behind its channel byte makes the per-sample step fail with
    `struct.error` — it never yields a sample -/
theorem decodeOne_truncated {layout : List Chan} {user : List UserType} {s : Sample} {b : Bytes} (k : Nat)
    (h : wireSample layout user s = some b) (hk1 : 1 ≤ k) (hk : k < b.length) :
    decodeOne layout user (b.take k) = .error .structError := by
  unfold wireSample at h
  split at h
  next => cases h
  next ch hch =>
    split at h
    next => cases h
    next d hd =>
      rw [← dsfmtGet_eq] at hd
      split at h
      next hc =>
        obtain ⟨hid, hvd, hml, hdt, hdim⟩ := hc
        simp only at h
        split at h
        next x m hx hm =>
          cases h
          obtain ⟨f, hf, hbe, hfa, hsz⟩ := dataFmt_spec hd hdim
          obtain ⟨hx1, hxk⟩ := encList_data hx
          obtain ⟨_, hxu, hxl⟩ := encList_atoms hx1
          obtain ⟨_, hmu, hml'⟩ := encList_meta hm
          have hlen := encList_length hx
          have hnu : ¬ (d.user = true ∧ calcsize ⟨false, d.items⟩ ≠ ch.vdim) := by
            intro ⟨hu, hne⟩
            apply hne
            show atomsSize (d.items.flatMap itemAtoms) = ch.vdim
            simpa [dimOk, hu] using hdim
          have hoff : d.slen * ch.vdim = x.length := by rw [hxl, hsz]
          obtain ⟨j, rfl⟩ : ∃ j, k = j + 1 := ⟨k - 1, by omega⟩
          simp only [List.length_cons, List.length_append] at hk
          rw [List.take_succ_cons]
          unfold decodeOne
          simp only [byteOf_toNat hid, hch, hd, ok_bind, if_neg hnu, hf, hoff]
          by_cases hj : j < x.length
          · have e1 : ((x ++ m).take j).take x.length = x.take j := by
              rw [List.take_take, Nat.min_eq_right (by omega), List.take_append_of_le_length (by omega)]
            rw [e1]
            unfold unpack
            rw [hbe, hfa, unpackAtoms_too_short _ _ _ (by rw [← hxl, List.length_take]; omega)]
            rfl
          · have e1 : ((x ++ m).take j).take x.length = x := by
              rw [List.take_take, Nat.min_eq_left (by omega), List.take_left]
            have e2 : ((x ++ m).take j).drop x.length = m.take (j - x.length) := by
              rw [List.take_append, List.take_of_length_le (by omega), List.drop_left]
            rw [e1, e2]
            unfold unpack
            rw [hbe, hfa, hxu, ok_bind]
            rw [hlen] at hxk
            rw [streamDataGet_toVal d s.data hxk, ok_bind]
            simp only [msfmt_atoms]
            rw [unpackAtoms_too_short _ _ _ (by
              rw [metaAtoms_size, List.length_take, List.length_take]; omega)]
            rfl
        next => cases h
      next => cases h

/-- the sample loop: well-formed samples followed by bytes on which the per-sample step fails — the whole loop
    fails with that error, the samples decoded so far are not returned -/
theorem decodeLoop_wire_then_error {layout : List Chan} {user : List UserType} {ss : List Sample} {body t : Bytes}
    {e : Err} (fuel : Nat) (h : wireOf layout user ss = some body) (hf : (body ++ t).length ≤ fuel)
    (ht : t ≠ []) (he : decodeOne layout user t = .error e) :
    decodeLoop layout user fuel (body ++ t) = .error e := by
  induction ss generalizing body fuel with
  | nil =>
    simp [wireOf] at h; subst h
    obtain ⟨c, t', rfl⟩ : ∃ c t', t = c :: t' := by
      cases t with
      | nil => exact absurd rfl ht
      | cons c t' => exact ⟨c, t', rfl⟩
    cases fuel with
    | zero => simp at hf
    | succ fuel =>
      rw [List.nil_append, decodeLoop, he]
      · rfl
      · intro h0; cases h0
  | cons s ss ih =>
    obtain ⟨x, r, hx, hr, rfl⟩ := wireOf_cons_some h
    obtain ⟨c, u, rfl⟩ := wireSample_ne_nil hx
    cases fuel with
    | zero => simp at hf
    | succ fuel =>
      have hr' : (r ++ t).length ≤ fuel := by simp at hf ⊢; omega
      have e1 : (c :: u ++ r) ++ t = c :: (u ++ (r ++ t)) := by simp
      have e2 : c :: (u ++ (r ++ t)) = (c :: u) ++ (r ++ t) := rfl
      rw [e1, decodeLoop, e2, decodeOne_wire (r ++ t) hx, ok_bind]
      · simp only [ih fuel hr hr']
        rfl
      · intro h0; cases h0

/-- the per-sample step on a channel byte the layout does not know: the `assert` on the channel lookup -/
theorem decodeOne_unknown {layout : List Chan} {user : List UserType} (cid : Byte) (r : Bytes)
    (h : layout[cid.toNat]? = none) : decodeOne layout user (cid :: r) = .error .assertion := by
  unfold decodeOne
  simp only [h]

end Nxs.Stream
