/- helper lemmas for C14: junk (padding, noise, CRC-damaged requests) stays junk when it is written through a padded
   interface — `Pad.dataAlign` appends zeros, the dispatcher looks at the declared length only -/
import NxsModel.Lemmas.Pad
import NxsModel.Props.C02
namespace Nxs.Pad
open Nxs Nxs.Spec Nxs.Serial Nxs.Dispatch

attribute [local irreducible] crc16xmodem

/-- no start byte in `a`, none in `b`: none in `a ++ b` -/
theorem hdrFind_append_none (a b : Bytes) (ha : hdrFind a = none) (hb : hdrFind b = none) : hdrFind (a ++ b) = none := by
  unfold hdrFind at ha hb ⊢
  simp only at ha hb ⊢
  have h1 : ¬ a.findIdx (· = BitVec.ofNat 8 Gen.Frame.sof) < a.length := by
    intro h; rw [if_pos h] at ha; cases ha
  have h2 : ¬ b.findIdx (· = BitVec.ofNat 8 Gen.Frame.sof) < b.length := by
    intro h; rw [if_pos h] at hb; cases hb
  rw [List.findIdx_append, if_neg h1, if_neg (by rw [List.length_append]; omega)]

/-- acceptance looks at the declared length only: if a string that is exactly as long as it declares, followed by
    anything, is accepted, the string alone is accepted (same id, same payload) -/
theorem Accept_of_append (d z : Bytes) (fid : Nat) (pl : Bytes) (h4 : 4 ≤ d.length) (hexact : d.length = flen d)
    (h : Accept (d ++ z) fid pl) : Accept d fid pl := by
  obtain ⟨_, a2, a3, a4, a5, _, a7, a8⟩ := h
  rw [flen_append d z h4] at a5 a7 a8
  rw [List.take_append_of_le_length (by omega)] at a7
  rw [List.take_append_of_le_length (by omega : flen d - 2 ≤ d.length)] at a8
  refine ⟨h4, ?_, ?_, a4, a5, by omega, a7, a8⟩
  · rw [List.getElem?_append_left (by omega)] at a2; exact a2
  · rw [List.getD_eq_getElem?_getD, List.getElem?_append_left (by omega), ← List.getD_eq_getElem?_getD] at a3
    exact a3

/-- **a CRC-damaged request followed by ANY bytes is ignored** (hypotheses: those of `C02.dispatcher_ignores_corrupted`).
    The length field is intact, so the dispatcher checks the CRC over exactly the damaged frame; what follows the
    declared length is never looked at. -/
theorem recvHandle_corrupted_append (w e : Bytes) (fid : Nat) (pl : Bytes)
    (hw : Serial.frameDecode w = .ok ⟨fid, pl⟩) (hexact : w.length = flen w) (hlen : w.length ≤ 4095)
    (hl : e.length = w.length) (h1 : e.getD 1 0 = 0) (h2 : e.getD 2 0 = 0)
    (hclass : weight e = 1 ∨ weight e = 2 ∨ weight e % 2 = 1 ∨
      (weight e ≠ 0 ∧ lastSet e - firstSet e < 16))
    (hsof : Serial.hdrFind (xorBytes w e) = some 0) (z : Bytes) :
    Dispatch.recvHandle (xorBytes w e ++ z) = .ignored := by
  obtain ⟨hf, _⟩ := hdrFind_append (xorBytes w e) z 0 hsof
  rw [recvHandle_eq, hf]
  show (match frameDecode ((xorBytes w e ++ z).drop 0) with
    | .ok fr => cbHandle fr.fid fr.data
    | .error _ => Disp.ignored) = _
  rw [List.drop_zero]
  cases hd : frameDecode (xorBytes w e ++ z) with
  | error _ => rfl
  | ok fr =>
    exfalso
    have ha := (frameDecode_accept _ fr.fid fr.data).mp hd
    obtain ⟨w1, _, _, _, _, _, _, _⟩ := (frameDecode_accept w fid pl).mp hw
    have hxl : (xorBytes w e).length = w.length := by simp [xorBytes, hl]
    have hfx : flen (xorBytes w e) = flen w := C02.flen_xor w e hl (by omega) h1 h2
    have hx := Accept_of_append (xorBytes w e) z fr.fid fr.data (by omega) (by omega) ha
    exact C02.corrupted_rejected w e fid pl hw hexact hlen hl h1 h2 hclass fr.fid fr.data
      ((frameDecode_accept _ _ _).mpr hx)

/-- noise without a start byte followed by zeros is ignored -/
theorem recvHandle_noise_append_zeros (d : Bytes) (k : Nat) (hn : Serial.hdrFind d = none) :
    Dispatch.recvHandle (d ++ List.replicate k 0) = .ignored := by
  rw [recvHandle_eq, hdrFind_append_none d _ hn (hdrFind_zeros k)]

/-! ### the three junk classes through any write padding -/

/-- a CRC-damaged request written through an interface with write padding `p` is ignored -/
theorem recvHandle_corrupted_dataAlign (p : Nat) (w e : Bytes) (fid : Nat) (pl : Bytes)
    (hw : Serial.frameDecode w = .ok ⟨fid, pl⟩) (hexact : w.length = flen w) (hlen : w.length ≤ 4095)
    (hl : e.length = w.length) (h1 : e.getD 1 0 = 0) (h2 : e.getD 2 0 = 0)
    (hclass : weight e = 1 ∨ weight e = 2 ∨ weight e % 2 = 1 ∨
      (weight e ≠ 0 ∧ lastSet e - firstSet e < 16))
    (hsof : Serial.hdrFind (xorBytes w e) = some 0) :
    Dispatch.recvHandle (dataAlign p (xorBytes w e)) = .ignored := by
  obtain ⟨k, _, _, hk⟩ := dataAlign_spec p (xorBytes w e)
  rw [hk]
  exact recvHandle_corrupted_append w e fid pl hw hexact hlen hl h1 h2 hclass hsof _

/-- noise without a start byte written through an interface with write padding `p` is ignored -/
theorem recvHandle_noise_dataAlign (p : Nat) (d : Bytes) (hn : Serial.hdrFind d = none) :
    Dispatch.recvHandle (dataAlign p d) = .ignored := by
  obtain ⟨k, _, _, hk⟩ := dataAlign_spec p d
  rw [hk]
  exact recvHandle_noise_append_zeros d k hn

/-- a padding-only write through an interface with write padding `p` is ignored (zeros followed by zeros) -/
theorem recvHandle_zeros_dataAlign (p k : Nat) :
    Dispatch.recvHandle (dataAlign p (List.replicate k 0)) = .ignored :=
  recvHandle_noise_dataAlign p _ (hdrFind_zeros k)

end Nxs.Pad
