/-
  R7DevRecords (round 7, C19) — lemmas about `DevRecords.lean`: the invariant of the records of one device under
  every history of application assignments and library updates.
-/
import NxsModel.DevRecords
import NxsModel.Lemmas.Record
namespace Nxs.DevRecords
open Nxs Record

theorem ok_bind' {α β : Type} (a : α) (f : α → Except Err β) : (Except.ok a).bind f = f a := rfl

/-- two constructor-argument functions that agree on every identifying field -/
def IdEq (a b : String → Record.Val) : Prop := ∀ k, k ≠ "en" → k ≠ "div" → a k = b k

/-- `r` is a freshly-constructed-looking (sealed) channel record with the identifying arguments and type byte `c` -/
def RecOf (c : (String → Record.Val) × Nat) (r : Dict) : Prop := ∃ a, IdEq a c.1 ∧ r = chanClosed a c.2

/-- channel record `j` is such a record of constructor arguments `j`, for every `j` -/
def Shape : List ((String → Record.Val) × Nat) → List Dict → Prop
  | [], [] => True
  | c :: cs, r :: rs => RecOf c r ∧ Shape cs rs
  | _, _ => False

theorem recOf_step (c : (String → Record.Val) × Nat) (r : Dict) (s : Step) (h : RecOf c r) :
    RecOf c (s.run Gen.Record.chanAllow r).1 := by
  obtain ⟨a, ha, rfl⟩ := h
  have e : (s.run Gen.Record.chanAllow (chanClosed a c.2)).1 = runHistory Gen.Record.chanAllow (chanClosed a c.2) [s] := rfl
  rw [e, chan_history_closed]
  exact ⟨_, fun k h1 h2 => (argsAfter_ident a [s] k h1 h2).trans (ha k h1 h2), rfl⟩

theorem shape_length : ∀ (cs : List ((String → Record.Val) × Nat)) (l : List Dict), Shape cs l → l.length = cs.length
  | [], [], _ => rfl
  | [], _ :: _, h => by simp [Shape] at h
  | _ :: _, [], h => by simp [Shape] at h
  | _ :: cs, _ :: rs, h => by simp [shape_length cs rs h.2]

theorem shape_get : ∀ (cs : List ((String → Record.Val) × Nat)) (l : List Dict) (i : Nat) (r : Dict),
    Shape cs l → l[i]? = some r → ∃ c, cs[i]? = some c ∧ RecOf c r
  | [], [], _, _, _, h => by simp at h
  | [], _ :: _, _, _, h, _ => by simp [Shape] at h
  | _ :: _, [], _, _, h, _ => by simp [Shape] at h
  | c :: _, r0 :: _, 0, r, hs, h => by
    simp only [List.getElem?_cons_zero, Option.some.injEq] at h
    subst h; exact ⟨c, rfl, hs.1⟩
  | _ :: cs, _ :: rs, i + 1, r, hs, h => by
    simp only [List.getElem?_cons_succ] at h ⊢
    exact shape_get cs rs i r hs.2 h

theorem shape_set : ∀ (cs : List ((String → Record.Val) × Nat)) (l : List Dict) (i : Nat) (x : Dict),
    Shape cs l → (∀ c, cs[i]? = some c → RecOf c x) → Shape cs (l.set i x)
  | [], [], _, _, _, _ => by simp [Shape]
  | [], _ :: _, _, _, h, _ => by simp [Shape] at h
  | _ :: _, [], _, _, h, _ => by simp [Shape] at h
  | c :: _, _ :: _, 0, x, hs, hx => by
    simp only [List.set_cons_zero]
    exact ⟨hx c rfl, hs.2⟩
  | _ :: cs, _ :: rs, i + 1, x, hs, hx => by
    simp only [List.set_cons_succ]
    exact ⟨hs.1, shape_set cs rs i x hs.2 (fun c hc => hx c (by simpa using hc))⟩

/-- the library's update loop on such records: never raises, stores exactly the vector, touches nothing else, and
    keeps every record a record of its constructor arguments -/
theorem shape_update (field : String) (hf : field = "en" ∨ field = "div") :
    ∀ (cs : List ((String → Record.Val) × Nat)) (l : List Dict) (vs : List Record.Val), Shape cs l →
      vs.length = l.length →
      ∃ l', updateLoop field l vs = .ok l' ∧ Shape cs l' ∧ l'.map (·.get? field) = vs.map some ∧
        ∀ k, k ≠ field → l'.map (·.get? k) = l.map (·.get? k)
  | [], [], [], _, _ => ⟨[], rfl, trivial, rfl, fun _ _ => rfl⟩
  | [], [], _ :: _, _, hl => by simp at hl
  | [], _ :: _, _, hs, _ => by simp [Shape] at hs
  | _ :: _, [], _, hs, _ => by simp [Shape] at hs
  | _ :: _, _ :: _, [], _, hl => by simp at hl
  | c :: cs, r :: rs, v :: vs, hs, hl => by
    obtain ⟨⟨a, ha, rfl⟩, hs'⟩ := hs
    obtain ⟨d', h1, h2, h3⟩ := Record.chan_en_div_assignable a c.2 _ field v (mkChan_eq a c.2) hf
    obtain ⟨l', e1, e2, e3, e4⟩ := shape_update field hf cs rs vs hs' (by simpa using hl)
    refine ⟨d' :: l', ?_, ⟨?_, e2⟩, ?_, ?_⟩
    · simp only [updateLoop, h1, ok_bind', e1]
    · have : d' = ((Step.assign field v).run Gen.Record.chanAllow (chanClosed a c.2)).1 := by
        simp only [Step.run, h1]
      rw [this]; exact recOf_step c _ _ ⟨a, ha, rfl⟩
    · simp only [List.map_cons, h2, e3]
    · intro k hk; simp only [List.map_cons, h3 k hk, e4 k hk]

/-- the invariant: the device record is the constructed one, every channel record is a record of its arguments -/
def Inv (dargs : String → Record.Val) (flags : Nat) (cs : List ((String → Record.Val) × Nat)) (d : Dev) : Prop :=
  d.data = devClosed dargs flags ∧ Shape cs d.chans

theorem lib_inv (field : String) (hf : field = "en" ∨ field = "div") (dargs : String → Record.Val) (flags : Nat)
    (cs : List ((String → Record.Val) × Nat)) (d : Dev) (vs : List Record.Val) (h : Inv dargs flags cs d) :
    (vs.length = d.chans.length → ∃ d', channelsUpdate field d vs = .ok d' ∧ Inv dargs flags cs d' ∧
      d'.chans.map (·.get? field) = vs.map some ∧ ∀ k, k ≠ field → d'.chans.map (·.get? k) = d.chans.map (·.get? k)) ∧
    (vs.length ≠ d.chans.length → channelsUpdate field d vs = .error .assertion) := by
  refine ⟨fun hl => ?_, fun hl => by unfold channelsUpdate; rw [if_pos hl]⟩
  obtain ⟨l', e1, e2, e3, e4⟩ := shape_update field hf cs d.chans vs h.2 hl
  refine ⟨{ d with chans := l' }, ?_, ⟨h.1, e2⟩, e3, e4⟩
  unfold channelsUpdate
  rw [if_neg (by omega), e1, ok_bind']

theorem step_inv (dargs : String → Record.Val) (flags : Nat) (cs : List ((String → Record.Val) × Nat)) (d : Dev)
    (s : DStep) (h : Inv dargs flags cs d) : Inv dargs flags cs (s.run d).1 := by
  obtain ⟨hd, hs⟩ := h
  cases s with
  | chan i k v =>
    simp only [DStep.run]
    cases hi : d.chans[i]? with
    | none => exact ⟨hd, hs⟩
    | some c =>
      refine ⟨hd, shape_set cs d.chans i _ hs ?_⟩
      intro c0 hc0
      obtain ⟨c1, hc1, hr⟩ := shape_get cs d.chans i c hs hi
      rw [hc0] at hc1
      cases hc1
      exact recOf_step _ _ _ hr
  | dev k v =>
    simp only [DStep.run]
    refine ⟨?_, hs⟩
    rw [hd, step_dev]
  | libEn vs =>
    simp only [DStep.run]
    by_cases hl : vs.length = d.chans.length
    · obtain ⟨d', e, hi, _⟩ := (lib_inv "en" (Or.inl rfl) dargs flags cs d vs ⟨hd, hs⟩).1 hl
      rw [e]; exact hi
    · rw [(lib_inv "en" (Or.inl rfl) dargs flags cs d vs ⟨hd, hs⟩).2 hl]; exact ⟨hd, hs⟩
  | libDiv vs =>
    simp only [DStep.run]
    by_cases hl : vs.length = d.chans.length
    · obtain ⟨d', e, hi, _⟩ := (lib_inv "div" (Or.inr rfl) dargs flags cs d vs ⟨hd, hs⟩).1 hl
      rw [e]; exact hi
    · rw [(lib_inv "div" (Or.inr rfl) dargs flags cs d vs ⟨hd, hs⟩).2 hl]; exact ⟨hd, hs⟩

theorem run_inv (dargs : String → Record.Val) (flags : Nat) (cs : List ((String → Record.Val) × Nat)) :
    ∀ (h : List DStep) (d : Dev), Inv dargs flags cs d → Inv dargs flags cs (runDev d h)
  | [], _, hi => hi
  | s :: r, d, hi => run_inv dargs flags cs r (s.run d).1 (step_inv dargs flags cs d s hi)

theorem mkChans_eq : ∀ (cs : List ((String → Record.Val) × Nat)),
    mkChans cs = .ok (cs.map fun c => chanClosed c.1 c.2)
  | [] => rfl
  | c :: cs => by simp only [mkChans, mkChan_eq, ok_bind', mkChans_eq cs, List.map_cons]

theorem shape_fresh : ∀ (cs : List ((String → Record.Val) × Nat)), Shape cs (cs.map fun c => chanClosed c.1 c.2)
  | [] => trivial
  | c :: cs => ⟨⟨c.1, fun _ _ _ => rfl, rfl⟩, shape_fresh cs⟩

theorem mk_inv (dargs : String → Record.Val) (flags : Nat) (cs : List ((String → Record.Val) × Nat)) (d : Dev)
    (h : mkDevRecords dargs flags cs = .ok d) : Inv dargs flags cs d := by
  unfold mkDevRecords at h
  rw [mkDev_eq, ok_bind', mkChans_eq, ok_bind'] at h
  cases h
  exact ⟨rfl, shape_fresh cs⟩

/-- what the invariant says about one record: sealed, same attribute names in the same order, every attribute
    other than en / div at the value construction gave it -/
theorem recOf_fields (c : (String → Record.Val) × Nat) (r : Dict) (h : RecOf c r) :
    initDone r = true ∧ r.keys = (chanClosed c.1 c.2).keys ∧
    ∀ k, k ≠ "en" → k ≠ "div" → r.get? k = (chanClosed c.1 c.2).get? k := by
  obtain ⟨a, ha, rfl⟩ := h
  refine ⟨initDone_chanClosed _ _, rfl, ?_⟩
  intro k h1 h2
  have e1 : ¬ "en" = k := fun e => h1 e.symm
  have e2 : ¬ "div" = k := fun e => h2 e.symm
  have hc := ha "chan" (by decide) (by decide)
  have hv := ha "vdim" (by decide) (by decide)
  have hn := ha "name" (by decide) (by decide)
  have hm := ha "mlen" (by decide) (by decide)
  simp [chanClosed, get?_cons, e1, e2, hc, hv, hn, hm]

/-- assignments to the records of two DIFFERENT channels commute, on any device state whatsoever -/
theorem chan_steps_commute (d : Dev) (i j : Nat) (hij : i ≠ j) (k k' : String) (v w : Record.Val) :
    runDev d [.chan i k v, .chan j k' w] = runDev d [.chan j k' w, .chan i k v] := by
  have hji : j ≠ i := fun e => hij e.symm
  simp only [runDev, List.foldl_cons, List.foldl_nil, DStep.run]
  cases hi : d.chans[i]? with
  | none =>
    cases hj : d.chans[j]? with
    | none => simp [hi]
    | some cj => simp [hi, List.getElem?_set_ne hji]
  | some ci =>
    cases hj : d.chans[j]? with
    | none => simp [hi, hj, List.getElem?_set_ne hij]
    | some cj => simp [hi, hj, List.getElem?_set_ne hij, List.getElem?_set_ne hji, List.set_comm _ _ hij]

end Nxs.DevRecords
