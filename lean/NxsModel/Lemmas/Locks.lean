/-
  Lemmas for C12: maximal elements of lists, interleavings, the invariants of the configuration
  machine at lock granularity (`LockSteps`).
-/
import NxsModel.Locks
import NxsModel.LockSteps
import NxsModel.Lemmas.Config
namespace Nxs
namespace LocksLemmas
open Locks LockSteps Config

/-! ### a non-empty list has an element of maximal measure -/

theorem exists_max {α : Type} (f : α → Nat) (l : List α) (h : l ≠ []) :
    ∃ a ∈ l, ∀ b ∈ l, f b ≤ f a := by
  induction l with
  | nil => exact absurd rfl h
  | cons x r ih =>
    by_cases hr : r = []
    · subst hr
      refine ⟨x, List.mem_cons_self .., fun b hb => ?_⟩
      rcases List.mem_cons.mp hb with rfl | hb
      · exact Nat.le_refl _
      · nomatch hb
    · obtain ⟨a, ha, hmax⟩ := ih hr
      by_cases hxa : f a ≤ f x
      · refine ⟨x, List.mem_cons_self .., fun b hb => ?_⟩
        rcases List.mem_cons.mp hb with rfl | hb
        · exact Nat.le_refl _
        · exact Nat.le_trans (hmax b hb) hxa
      · refine ⟨a, List.mem_cons_of_mem _ ha, fun b hb => ?_⟩
        rcases List.mem_cons.mp hb with rfl | hb
        · omega
        · exact hmax b hb

/-- rank of the lock a thread waits for (0 if it does not wait) -/
def waitRank {L : Type} (rank : L → Nat) (t : Thr L) : Nat :=
  match t.waits with
  | some l => rank l
  | none => 0

/-- the core of the no-deadlock argument: in a deadlocked set take a thread waiting for a lock of
    maximal rank; its holder is in the set, waits too, for a lock of at most that rank, but holds a
    lock of exactly that rank — against the ordering discipline -/
theorem ordered_not_deadlocked {L : Type} (rank : L → Nat) (S : List (Thr L))
    (hord : ∀ t ∈ S, Ordered rank t) : ¬ Deadlocked S := by
  intro ⟨hne, hdl⟩
  obtain ⟨t, ht, hmax⟩ := exists_max (waitRank rank) S hne
  obtain ⟨l, hl, u, hu, hlu⟩ := hdl t ht
  obtain ⟨l', hl', -⟩ := hdl u hu
  have h1 : rank l < rank l' := hord u hu l' hl' l hlu
  have h2 : waitRank rank u ≤ waitRank rank t := hmax u hu
  simp only [waitRank, hl, hl'] at h2
  omega

/-! ### interleavings -/

/-- `Interleaving ts m`: `m` is a merge of the lists `ts` (each list's own order is kept) -/
inductive Interleaving {α : Type} : List (List α) → List α → Prop where
  | done {ts : List (List α)} : (∀ t ∈ ts, t = []) → Interleaving ts []
  | step {pre post : List (List α)} {t : List α} {a : α} {m : List α} :
      Interleaving (pre ++ t :: post) m → Interleaving (pre ++ (a :: t) :: post) (a :: m)

theorem mem_mid {α : Type} {pre post : List (List α)} {t x : List α} :
    x ∈ pre ++ t :: post ↔ x ∈ pre ∨ x = t ∨ x ∈ post := by
  simp [List.mem_append, List.mem_cons]

theorem Interleaving.nil_inv {α : Type} {ts : List (List α)} {m : List α} (h : Interleaving ts m) (hm : m = []) :
    ∀ t ∈ ts, t = [] := by
  cases h with
  | done hall => exact hall
  | step _ => nomatch hm

/-- every element of a merge comes from one of the lists -/
theorem Interleaving.mem {α : Type} {ts : List (List α)} {m : List α} (h : Interleaving ts m) :
    ∀ x ∈ m, ∃ t ∈ ts, x ∈ t := by
  induction h with
  | done _ => intro x hx; nomatch hx
  | @step pre post t a m _ ih =>
    intro x hx
    rcases List.mem_cons.mp hx with rfl | hx
    · exact ⟨x :: t, mem_mid.mpr (Or.inr (Or.inl rfl)), List.mem_cons_self ..⟩
    · obtain ⟨t', ht', hxt⟩ := ih x hx
      rcases mem_mid.mp ht' with h1 | rfl | h3
      · exact ⟨t', mem_mid.mpr (Or.inl h1), hxt⟩
      · exact ⟨a :: t', mem_mid.mpr (Or.inr (Or.inl rfl)), List.mem_cons_of_mem _ hxt⟩
      · exact ⟨t', mem_mid.mpr (Or.inr (Or.inr h3)), hxt⟩

/-- a property of all elements of all lists holds for all elements of a merge -/
theorem Interleaving.forall {α : Type} {ts : List (List α)} {m : List α} (h : Interleaving ts m)
    (P : α → Prop) (hP : ∀ t ∈ ts, ∀ x ∈ t, P x) : ∀ x ∈ m, P x := by
  intro x hx
  obtain ⟨t, ht, hxt⟩ := h.mem x hx
  exact hP t ht x hxt

/-- if every non-empty list ends with `w`, a non-empty merge ends with `w` -/
theorem Interleaving.getLast {α : Type} {ts : List (List α)} {m : List α} (h : Interleaving ts m) (w : α)
    (hw : ∀ t ∈ ts, t ≠ [] → t.getLast? = some w) (hm : m ≠ []) : m.getLast? = some w := by
  induction h with
  | done _ => exact absurd rfl hm
  | @step pre post t a m hI ih =>
    have hw' : ∀ x ∈ pre ++ t :: post, x ≠ [] → x.getLast? = some w := by
      intro x hx hne
      rcases mem_mid.mp hx with h1 | rfl | h3
      · exact hw x (mem_mid.mpr (Or.inl h1)) hne
      · have := hw (a :: x) (mem_mid.mpr (Or.inr (Or.inl rfl))) (List.cons_ne_nil _ _)
        cases x with
        | nil => exact absurd rfl hne
        | cons b r => simpa [List.getLast?_cons_cons] using this
      · exact hw x (mem_mid.mpr (Or.inr (Or.inr h3))) hne
    by_cases hmn : m = []
    · subst hmn
      -- the merge of the rest is empty, so every remaining list is empty; `a` is the last of its list
      have ht : t = [] := hI.nil_inv rfl t (mem_mid.mpr (Or.inr (Or.inl rfl)))
      subst ht
      exact hw [a] (mem_mid.mpr (Or.inr (Or.inl rfl))) (List.cons_ne_nil _ _)
    · have := ih hw' hmn
      cases m with
      | nil => exact absurd rfl hmn
      | cons b r => simpa [List.getLast?_cons_cons] using this

/-- a non-empty list among `ts` makes every merge non-empty -/
theorem Interleaving.ne_nil {α : Type} {ts : List (List α)} {m : List α} (h : Interleaving ts m)
    (hne : ∃ t ∈ ts, t ≠ []) : m ≠ [] := by
  cases h with
  | done hall => obtain ⟨t, ht, hn⟩ := hne; exact absurd (hall t ht) hn
  | step _ => exact List.cons_ne_nil _ _

theorem getLast?_eq_append {α : Type} {l : List α} {w : α} (h : l.getLast? = some w) :
    ∃ init, l = init ++ [w] := by
  induction l with
  | nil => simp at h
  | cons x r ih =>
    cases r with
    | nil =>
      simp at h
      exact ⟨[], by simp [h]⟩
    | cons y r' =>
      rw [List.getLast?_cons_cons] at h
      obtain ⟨init, hi⟩ := ih h
      exact ⟨x :: init, by rw [hi]; rfl⟩

/-! ### the configuration machine at lock granularity -/

/-- a lock-level step all of whose requests are acknowledged -/
def Acked : AOp → Prop
  | .wDiv o => o = .ack
  | .wEn o => o = .ack
  | _ => True

theorem arun_cons (c : Client) (d : Device) (op : AOp) (r : List AOp) :
    arun c d (op :: r) = ((arun (astep c d op).1 (astep c d op).2.1 r).1,
      (arun (astep c d op).1 (astep c d op).2.1 r).2.1,
      (astep c d op).2.2 :: (arun (astep c d op).1 (astep c d op).2.1 r).2.2) := rfl

theorem arun_append (c : Client) (d : Device) (ops ops' : List AOp) :
    arun c d (ops ++ ops') =
      ((arun (arun c d ops).1 (arun c d ops).2.1 ops').1, (arun (arun c d ops).1 (arun c d ops).2.1 ops').2.1,
       (arun c d ops).2.2 ++ (arun (arun c d ops).1 (arun c d ops).2.1 ops').2.2) := by
  induction ops generalizing c d with
  | nil => rfl
  | cons op r ih => rw [List.cons_append, arun_cons, arun_cons, ih]; rfl

/-- the enable half of an acknowledged write keeps the invariants of an acknowledged history -/
theorem ackState_wEn {ds : Bool} {dv0 : List Int} {c : Client} {d : Device} (h : AckState ds dv0 c d) :
    AckState ds dv0 (writeEnable c d .ack).1 (writeEnable c d .ack).2.1 := by
  by_cases hn : c.n = 0
  · rw [writeEnable_zero h.inv hn .ack]; exact h
  obtain ⟨e1, e2⟩ := writeEnable_ack h.inv hn h.dEn
  rw [e1, e2]
  have hi : Inv (enAck c) { d with en := c.enNew } := (h.inv.enAck).devEn c.enNew h.inv.lEnNew
  exact ⟨hi, fun _ => rfl, h.dDiv, rfl, h.sDiv, h.divS, h.dev⟩

/-- the divider half -/
theorem ackState_wDiv {ds : Bool} {dv0 : List Int} {c : Client} {d : Device} (h : AckState ds dv0 c d)
    (hs : c.divSupported = true) :
    AckState ds dv0 (writeDiv c d .ack).1 (writeDiv c d .ack).2.1 := by
  by_cases hn : c.n = 0
  · rw [writeDiv_zero h.inv hn .ack]; exact h
  obtain ⟨e1, e2⟩ := writeDiv_ack h.inv hn h.dDiv
  rw [e1, e2]
  have hi : Inv (divAck c) { d with div := c.divNew } := (h.inv.divAck).devDiv c.divNew h.inv.lDivNew
  refine ⟨hi, h.dEn, fun _ => rfl, h.sEn, rfl, h.divS, fun e => ?_⟩
  rw [← h.divS, hs] at e
  exact Bool.noConfusion e

theorem ackState_astep {ds : Bool} {dv0 : List Int} {c : Client} {d : Device} (h : AckState ds dv0 c d)
    (op : AOp) (ha : Acked op) : AckState ds dv0 (astep c d op).1 (astep c d op).2.1 := by
  cases op with
  | enable cs => exact h.step (.enable cs) trivial
  | disable cs => exact h.step (.disable cs) trivial
  | divider cs v => exact h.step (.divider cs v) trivial
  | wDiv o =>
    have ho : o = .ack := ha
    subst ho
    show AckState ds dv0 (if c.divSupported then writeDiv c d .ack else (c, d, {})).1
      (if c.divSupported then writeDiv c d .ack else (c, d, {})).2.1
    cases hs : c.divSupported with
    | true => exact ackState_wDiv h hs
    | false => exact h
  | wEn o =>
    have ho : o = .ack := ha
    subst ho
    exact ackState_wEn h
  | query => exact h

theorem arun_ackState {ds : Bool} {dv0 : List Int} {c : Client} {d : Device} (h : AckState ds dv0 c d)
    (ops : List AOp) (ha : ∀ op ∈ ops, Acked op) :
    AckState ds dv0 (arun c d ops).1 (arun c d ops).2.1 := by
  induction ops generalizing c d with
  | nil => exact h
  | cons op r ih =>
    rw [arun_cons]
    exact ih (ackState_astep h op (ha op (List.mem_cons_self ..))) (fun op' hm => ha op' (List.mem_cons_of_mem _ hm))

/-- what a client in an acknowledged history reports is what the device holds -/
theorem ackState_reported {ds : Bool} {dv0 : List Int} {c : Client} {d : Device} (h : AckState ds dv0 c d) :
    c.enNow = d.en ∧ c.copyEn = d.en ∧ c.divNow = d.div ∧ c.copyDiv = d.div := by
  have h1 := h.dEn h.sEn
  have h2 := h.dDiv h.sDiv
  exact ⟨h1.symm, h.inv.cpEn.trans h1.symm, h2.symm, h.inv.cpDiv.trans h2.symm⟩

/-! ### the two halves of a write run back to back are the `Config` write -/

theorem astep_write {c : Client} {d : Device} (hI : Inv c d) (a b : Outcome) :
    (arun c d (writeBlock c.n c.divSupported a b)).1 = (step c d (.write a b)).1 ∧
    (arun c d (writeBlock c.n c.divSupported a b)).2.1 = (step c d (.write a b)).2.1 := by
  show _ = (channelsWrite c d a b).1 ∧ _ = (channelsWrite c d a b).2.1
  by_cases hn : c.n = 0
  · -- no channels: the write does nothing and takes no lock at all — the block list is empty
    rw [channelsWrite_zero c d a b hn]
    simp only [writeBlock, hn, if_true, arun]
    exact ⟨trivial, trivial⟩
  cases hs : c.divSupported with
  | false =>
    rw [channelsWrite_nodiv c d a b hn hs]
    simp only [writeBlock, hn, if_false]
    exact ⟨rfl, rfl⟩
  | true =>
    obtain ⟨f, dv', -, -, -, heq⟩ := writeDiv_char hI hn a
    have hne : (writeDiv c d a).2.2.err = none := by rw [heq]
    rw [channelsWrite_div_ok c d a b hn hs hne]
    simp only [writeBlock, hn, if_false, if_true, arun, astep, hs]
    exact ⟨trivial, trivial⟩

/-! ### final state: every thread ends with a write block -/

def isDivSetter : AOp → Bool
  | .divider _ _ => true
  | _ => false

def isEnSetter : AOp → Bool
  | .enable _ => true
  | .disable _ => true
  | _ => false

def isWDiv : AOp → Bool
  | .wDiv _ => true
  | _ => false

def isWEn : AOp → Bool
  | .wEn _ => true
  | _ => false

/-- suffix-closed: every divider setter of the list is followed by a divider write -/
def DivClosed : List AOp → Prop
  | [] => True
  | a :: r => (isDivSetter a = true → ∃ x ∈ r, isWDiv x = true) ∧ DivClosed r

/-- the enable part of the state is synchronised -/
def EnSynced (c : Client) (d : Device) : Prop := d.en = c.enNew ∧ c.enNow = c.enNew ∧ c.copyEn = c.enNew
def DivSynced (c : Client) (d : Device) : Prop := d.div = c.divNew ∧ c.divNow = c.divNew ∧ c.copyDiv = c.divNew

/-- without channels everything is (vacuously) synchronised -/
theorem enSynced_zero {c : Client} {d : Device} (hI : Inv c d) (h0 : c.n = 0) : EnSynced c d := by
  obtain ⟨e1, e2, -, -, e5, -, e7, -⟩ := hI.nil h0
  exact ⟨e5.trans e2.symm, e1.trans e2.symm, e7.trans e2.symm⟩

theorem divSynced_zero {c : Client} {d : Device} (hI : Inv c d) (h0 : c.n = 0) : DivSynced c d := by
  obtain ⟨-, -, e3, e4, -, e6, -, e8⟩ := hI.nil h0
  exact ⟨e6.trans e4.symm, e3.trans e4.symm, e8.trans e4.symm⟩

/-- steps that are not enable setters keep the enable part synchronised -/
theorem enSynced_astep {ds : Bool} {dv0 : List Int} {c : Client} {d : Device} (hS : AckState ds dv0 c d)
    (h : EnSynced c d) (op : AOp) (ha : Acked op) (hn : isEnSetter op = false) :
    EnSynced (astep c d op).1 (astep c d op).2.1 := by
  cases op with
  | enable cs => exact absurd hn (by simp [isEnSetter])
  | disable cs => exact absurd hn (by simp [isEnSetter])
  | divider cs v =>
    obtain ⟨e', v', h1, h2, -⟩ := step_setter c d (.divider cs v) (fun a b e => nomatch e)
    have he : e' = c.enNew := by
      have := congrArg Client.enNew h1
      rw [step_divider] at this
      split at this <;> exact this.symm
    show EnSynced (step c d (.divider cs v)).1 (step c d (.divider cs v)).2.1
    rw [h1, h2, he]
    exact h
  | wDiv o =>
    have ho : o = .ack := ha
    subst ho
    show EnSynced (if c.divSupported then writeDiv c d .ack else (c, d, {})).1
      (if c.divSupported then writeDiv c d .ack else (c, d, {})).2.1
    cases hs : c.divSupported with
    | false => exact h
    | true =>
      show EnSynced (writeDiv c d .ack).1 (writeDiv c d .ack).2.1
      by_cases h0 : c.n = 0
      · rw [writeDiv_zero hS.inv h0 .ack]; exact h
      obtain ⟨e1, e2⟩ := writeDiv_ack hS.inv h0 hS.dDiv
      rw [e1, e2]
      exact h
  | wEn o =>
    have ho : o = .ack := ha
    subst ho
    show EnSynced (writeEnable c d .ack).1 (writeEnable c d .ack).2.1
    by_cases h0 : c.n = 0
    · rw [writeEnable_zero hS.inv h0 .ack]; exact h
    obtain ⟨e1, e2⟩ := writeEnable_ack hS.inv h0 hS.dEn
    rw [e1, e2]
    exact ⟨rfl, rfl, rfl⟩
  | query => exact h

/-- an acknowledged enable half synchronises the enable part -/
theorem wEn_synced {ds : Bool} {dv0 : List Int} {c : Client} {d : Device} (hS : AckState ds dv0 c d) :
    EnSynced (astep c d (.wEn .ack)).1 (astep c d (.wEn .ack)).2.1 := by
  show EnSynced (writeEnable c d .ack).1 (writeEnable c d .ack).2.1
  by_cases h0 : c.n = 0
  · rw [writeEnable_zero hS.inv h0 .ack]; exact enSynced_zero hS.inv h0
  obtain ⟨e1, e2⟩ := writeEnable_ack hS.inv h0 hS.dEn
  rw [e1, e2]
  exact ⟨rfl, rfl, rfl⟩

theorem wDiv_synced {ds : Bool} {dv0 : List Int} {c : Client} {d : Device} (hS : AckState ds dv0 c d)
    (hs : c.divSupported = true) :
    DivSynced (astep c d (.wDiv .ack)).1 (astep c d (.wDiv .ack)).2.1 := by
  show DivSynced (if c.divSupported then writeDiv c d .ack else (c, d, {})).1
    (if c.divSupported then writeDiv c d .ack else (c, d, {})).2.1
  rw [hs]
  show DivSynced (writeDiv c d .ack).1 (writeDiv c d .ack).2.1
  by_cases h0 : c.n = 0
  · rw [writeDiv_zero hS.inv h0 .ack]; exact divSynced_zero hS.inv h0
  obtain ⟨e1, e2⟩ := writeDiv_ack hS.inv h0 hS.dDiv
  rw [e1, e2]
  exact ⟨rfl, rfl, rfl⟩

/-- steps that are neither divider setters nor divider writes keep the divider part -/
theorem divSynced_astep {ds : Bool} {dv0 : List Int} {c : Client} {d : Device} (hS : AckState ds dv0 c d)
    (h : DivSynced c d) (op : AOp) (ha : Acked op) (hn : isDivSetter op = false) (hs : c.divSupported = true) :
    DivSynced (astep c d op).1 (astep c d op).2.1 := by
  cases op with
  | enable cs =>
    show DivSynced (step c d (.enable cs)).1 (step c d (.enable cs)).2.1
    exact h
  | disable cs =>
    show DivSynced (step c d (.disable cs)).1 (step c d (.disable cs)).2.1
    exact h
  | divider cs v => exact absurd hn (by simp [isDivSetter])
  | wDiv o =>
    have ho : o = .ack := ha
    subst ho
    exact wDiv_synced hS hs
  | wEn o =>
    have ho : o = .ack := ha
    subst ho
    show DivSynced (writeEnable c d .ack).1 (writeEnable c d .ack).2.1
    by_cases h0 : c.n = 0
    · rw [writeEnable_zero hS.inv h0 .ack]; exact h
    obtain ⟨e1, e2⟩ := writeEnable_ack hS.inv h0 hS.dEn
    rw [e1, e2]
    exact h
  | query => exact h

theorem astep_divSupported {ds : Bool} {dv0 : List Int} {c : Client} {d : Device} (hS : AckState ds dv0 c d)
    (op : AOp) (ha : Acked op) : (astep c d op).1.divSupported = c.divSupported :=
  (ackState_astep hS op ha).divS.trans hS.divS.symm

/-- enable part: while some thread still has steps, or the state is already synchronised, a merge of
    threads that all end with an acknowledged enable half ends synchronised -/
theorem final_en {ds : Bool} {dv0 : List Int} {ts : List (List AOp)} {m : List AOp} (hI : Interleaving ts m) :
    ∀ {c : Client} {d : Device}, AckState ds dv0 c d →
    (∀ t ∈ ts, ∀ x ∈ t, Acked x) →
    (∀ t ∈ ts, t ≠ [] → t.getLast? = some (.wEn .ack)) →
    ((∃ t ∈ ts, t ≠ []) ∨ EnSynced c d) →
    EnSynced (arun c d m).1 (arun c d m).2.1 := by
  induction hI with
  | done hall =>
    intro c d _ _ _ hor
    rcases hor with ⟨t, ht, hn⟩ | h
    · exact absurd (hall t ht) hn
    · exact h
  | @step pre post t a m _ ih =>
    intro c d hS hack hlast _
    have hmem : (a :: t) ∈ pre ++ (a :: t) :: post := mem_mid.mpr (Or.inr (Or.inl rfl))
    have ha : Acked a := hack _ hmem a (List.mem_cons_self ..)
    have hack' : ∀ x ∈ pre ++ t :: post, ∀ y ∈ x, Acked y := by
      intro x hx y hy
      rcases mem_mid.mp hx with h1 | rfl | h3
      · exact hack x (mem_mid.mpr (Or.inl h1)) y hy
      · exact hack (a :: x) hmem y (List.mem_cons_of_mem _ hy)
      · exact hack x (mem_mid.mpr (Or.inr (Or.inr h3))) y hy
    have hlast' : ∀ x ∈ pre ++ t :: post, x ≠ [] → x.getLast? = some (.wEn .ack) := by
      intro x hx hne
      rcases mem_mid.mp hx with h1 | rfl | h3
      · exact hlast x (mem_mid.mpr (Or.inl h1)) hne
      · have := hlast (a :: x) hmem (List.cons_ne_nil _ _)
        cases x with
        | nil => exact absurd rfl hne
        | cons b r => simpa [List.getLast?_cons_cons] using this
      · exact hlast x (mem_mid.mpr (Or.inr (Or.inr h3))) hne
    rw [arun_cons]
    refine ih (ackState_astep hS a ha) hack' hlast' ?_
    by_cases ht : t = []
    · subst ht
      have h1 := hlast [a] hmem (List.cons_ne_nil _ _)
      have h2 : a = .wEn .ack := by simpa using h1
      subst h2
      exact Or.inr (wEn_synced hS)
    · exact Or.inl ⟨t, mem_mid.mpr (Or.inr (Or.inl rfl)), ht⟩

/-- divider part (device with divider support): while some thread still has a divider write ahead, or
    the state is already synchronised, a merge of `DivClosed` threads ends synchronised -/
theorem final_div {dv0 : List Int} {ts : List (List AOp)} {m : List AOp} (hI : Interleaving ts m) :
    ∀ {c : Client} {d : Device}, AckState true dv0 c d →
    (∀ t ∈ ts, ∀ x ∈ t, Acked x) →
    (∀ t ∈ ts, DivClosed t) →
    ((∃ t ∈ ts, ∃ x ∈ t, isWDiv x = true) ∨ DivSynced c d) →
    DivSynced (arun c d m).1 (arun c d m).2.1 := by
  induction hI with
  | done hall =>
    intro c d _ _ _ hor
    rcases hor with ⟨t, ht, x, hx, -⟩ | h
    · rw [hall t ht] at hx; nomatch hx
    · exact h
  | @step pre post t a m _ ih =>
    intro c d hS hack hcl hor
    have hmem : (a :: t) ∈ pre ++ (a :: t) :: post := mem_mid.mpr (Or.inr (Or.inl rfl))
    have hmem' : t ∈ pre ++ t :: post := mem_mid.mpr (Or.inr (Or.inl rfl))
    have ha : Acked a := hack _ hmem a (List.mem_cons_self ..)
    have hack' : ∀ x ∈ pre ++ t :: post, ∀ y ∈ x, Acked y := by
      intro x hx y hy
      rcases mem_mid.mp hx with h1 | rfl | h3
      · exact hack x (mem_mid.mpr (Or.inl h1)) y hy
      · exact hack (a :: x) hmem y (List.mem_cons_of_mem _ hy)
      · exact hack x (mem_mid.mpr (Or.inr (Or.inr h3))) y hy
    have hcl' : ∀ x ∈ pre ++ t :: post, DivClosed x := by
      intro x hx
      rcases mem_mid.mp hx with h1 | rfl | h3
      · exact hcl x (mem_mid.mpr (Or.inl h1))
      · exact (hcl (a :: x) hmem).2
      · exact hcl x (mem_mid.mpr (Or.inr (Or.inr h3)))
    have hds : c.divSupported = true := hS.divS
    rw [arun_cons]
    refine ih (ackState_astep hS a ha) hack' hcl' ?_
    -- does `a` leave a divider write ahead, or the state synchronised?
    by_cases hsd : isDivSetter a = true
    · obtain ⟨x, hx, hw⟩ := (hcl (a :: t) hmem).1 hsd
      exact Or.inl ⟨t, hmem', x, hx, hw⟩
    · have hsd' : isDivSetter a = false := by cases h : isDivSetter a <;> simp_all
      by_cases hwd : isWDiv a = true
      · have : ∃ o, a = .wDiv o := by
          cases a with
          | wDiv o => exact ⟨o, rfl⟩
          | _ => simp [isWDiv] at hwd
        obtain ⟨o, rfl⟩ := this
        have ho : o = .ack := ha
        subst ho
        exact Or.inr (wDiv_synced hS hds)
      · rcases hor with ⟨t', ht', x, hx, hw⟩ | h
        · rcases mem_mid.mp ht' with h1 | rfl | h3
          · exact Or.inl ⟨t', mem_mid.mpr (Or.inl h1), x, hx, hw⟩
          · rcases List.mem_cons.mp hx with rfl | hx'
            · exact absurd hw hwd
            · exact Or.inl ⟨t, hmem', x, hx', hw⟩
          · exact Or.inl ⟨t', mem_mid.mpr (Or.inr (Or.inr h3)), x, hx, hw⟩
        · exact Or.inr (divSynced_astep hS h a ha hsd' hds)

/-- a thread program that ends with the two acknowledged halves of a write is `DivClosed` -/
theorem divClosed_append (init : List AOp) : DivClosed (init ++ [.wDiv .ack, .wEn .ack]) := by
  induction init with
  | nil => exact ⟨fun h => absurd h (by decide), fun h => absurd h (by decide), trivial⟩
  | cons a r ih =>
    refine ⟨fun _ => ⟨.wDiv .ack, ?_, rfl⟩, ih⟩
    exact List.mem_append_right _ (List.mem_cons_self ..)

theorem getLast?_append_wEn (init : List AOp) (x : List AOp) (w : AOp) :
    (init ++ (x ++ [w])).getLast? = some w := by
  rw [← List.append_assoc]
  exact List.getLast?_concat ..

/-! ### final state under the weaker condition: in the merge, every setter is followed by a write -/

/-- every enable setter of the list is followed (later in the list) by an enable write — equivalently, the
    LAST enable setter is -/
def EnClosed : List AOp → Prop
  | [] => True
  | a :: r => (isEnSetter a = true → ∃ x ∈ r, isWEn x = true) ∧ EnClosed r

/-- a list whose last enable setter is followed by an enable write is `EnClosed` -/
theorem enClosed_intro (pre post : List AOp) (w : AOp) (hw : isWEn w = true)
    (hpost : ∀ x ∈ post, isEnSetter x = false) : EnClosed (pre ++ w :: post) := by
  induction pre with
  | nil =>
    refine ⟨fun h => ?_, ?_⟩
    · cases w <;> simp [isWEn, isEnSetter] at hw h
    · clear hw
      induction post with
      | nil => trivial
      | cons b r ih =>
        refine ⟨fun h => ?_, ih (fun x hx => hpost x (List.mem_cons_of_mem _ hx))⟩
        rw [hpost b (List.mem_cons_self ..)] at h
        exact Bool.noConfusion h
  | cons a r ih => exact ⟨fun _ => ⟨w, by simp, hw⟩, ih⟩

theorem divClosed_intro (pre post : List AOp) (w : AOp) (hw : isWDiv w = true)
    (hpost : ∀ x ∈ post, isDivSetter x = false) : DivClosed (pre ++ w :: post) := by
  induction pre with
  | nil =>
    refine ⟨fun h => ?_, ?_⟩
    · cases w <;> simp [isWDiv, isDivSetter] at hw h
    · clear hw
      induction post with
      | nil => trivial
      | cons b r ih =>
        refine ⟨fun h => ?_, ih (fun x hx => hpost x (List.mem_cons_of_mem _ hx))⟩
        rw [hpost b (List.mem_cons_self ..)] at h
        exact Bool.noConfusion h
  | cons a r ih => exact ⟨fun _ => ⟨w, by simp, hw⟩, ih⟩

/-- a list without enable setters is `EnClosed` -/
theorem enClosed_of_no_setter (l : List AOp) (h : ∀ x ∈ l, isEnSetter x = false) : EnClosed l := by
  induction l with
  | nil => trivial
  | cons a r ih =>
    refine ⟨fun hs => ?_, ih (fun x hx => h x (List.mem_cons_of_mem _ hx))⟩
    rw [h a (List.mem_cons_self ..)] at hs
    exact Bool.noConfusion hs

theorem divClosed_of_no_setter (l : List AOp) (h : ∀ x ∈ l, isDivSetter x = false) : DivClosed l := by
  induction l with
  | nil => trivial
  | cons a r ih =>
    refine ⟨fun hs => ?_, ih (fun x hx => h x (List.mem_cons_of_mem _ hx))⟩
    rw [h a (List.mem_cons_self ..)] at hs
    exact Bool.noConfusion hs

/-- an acknowledged enable half synchronises the enable part (any `Acked` step that is an enable write) -/
theorem isWEn_synced {ds : Bool} {dv0 : List Int} {c : Client} {d : Device} (hS : AckState ds dv0 c d)
    (a : AOp) (ha : Acked a) (hw : isWEn a = true) : EnSynced (astep c d a).1 (astep c d a).2.1 := by
  cases a with
  | wEn o =>
    have ho : o = .ack := ha
    subst ho
    exact wEn_synced hS
  | _ => simp [isWEn] at hw

/-- enable part, one list: if every enable setter is followed by an (acknowledged) enable write, and either
    an enable write is still ahead or the state is synchronised already, the run ends synchronised -/
theorem final_en_closed {ds : Bool} {dv0 : List Int} (m : List AOp) :
    ∀ {c : Client} {d : Device}, AckState ds dv0 c d → (∀ x ∈ m, Acked x) → EnClosed m →
    ((∃ x ∈ m, isWEn x = true) ∨ EnSynced c d) →
    EnSynced (arun c d m).1 (arun c d m).2.1 := by
  induction m with
  | nil =>
    intro c d _ _ _ hor
    rcases hor with ⟨x, hx, -⟩ | h
    · nomatch hx
    · exact h
  | cons a r ih =>
    intro c d hS hack hcl hor
    have ha : Acked a := hack a (List.mem_cons_self ..)
    rw [arun_cons]
    refine ih (ackState_astep hS a ha) (fun x hx => hack x (List.mem_cons_of_mem _ hx)) hcl.2 ?_
    by_cases hse : isEnSetter a = true
    · exact Or.inl (hcl.1 hse)
    · have hse' : isEnSetter a = false := by cases h : isEnSetter a <;> simp_all
      by_cases hw : isWEn a = true
      · exact Or.inr (isWEn_synced hS a ha hw)
      · rcases hor with ⟨x, hx, hxw⟩ | h
        · rcases List.mem_cons.mp hx with rfl | hx'
          · exact absurd hxw hw
          · exact Or.inl ⟨x, hx', hxw⟩
        · exact Or.inr (enSynced_astep hS h a ha hse')

/-- divider part, one list (device with divider support) -/
theorem final_div_closed {dv0 : List Int} (m : List AOp) :
    ∀ {c : Client} {d : Device}, AckState true dv0 c d → (∀ x ∈ m, Acked x) → DivClosed m →
    ((∃ x ∈ m, isWDiv x = true) ∨ DivSynced c d) →
    DivSynced (arun c d m).1 (arun c d m).2.1 := by
  induction m with
  | nil =>
    intro c d _ _ _ hor
    rcases hor with ⟨x, hx, -⟩ | h
    · nomatch hx
    · exact h
  | cons a r ih =>
    intro c d hS hack hcl hor
    have ha : Acked a := hack a (List.mem_cons_self ..)
    have hds : c.divSupported = true := hS.divS
    rw [arun_cons]
    refine ih (ackState_astep hS a ha) (fun x hx => hack x (List.mem_cons_of_mem _ hx)) hcl.2 ?_
    by_cases hsd : isDivSetter a = true
    · exact Or.inl (hcl.1 hsd)
    · have hsd' : isDivSetter a = false := by cases h : isDivSetter a <;> simp_all
      by_cases hwd : isWDiv a = true
      · have : ∃ o, a = .wDiv o := by
          cases a with
          | wDiv o => exact ⟨o, rfl⟩
          | _ => simp [isWDiv] at hwd
        obtain ⟨o, rfl⟩ := this
        have ho : o = .ack := ha
        subst ho
        exact Or.inr (wDiv_synced hS hds)
      · rcases hor with ⟨x, hx, hxw⟩ | h
        · rcases List.mem_cons.mp hx with rfl | hx'
          · exact absurd hxw hwd
          · exact Or.inl ⟨x, hx', hxw⟩
        · exact Or.inr (divSynced_astep hS h a ha hsd' hds)

/-- the state right after connect is synchronised -/
theorem init_enSynced (d0 : Device) (flags : Nat) : EnSynced (Client.init d0 flags) d0 := ⟨rfl, rfl, rfl⟩
theorem init_divSynced (d0 : Device) (flags : Nat) : DivSynced (Client.init d0 flags) d0 := ⟨rfl, rfl, rfl⟩

/-! ### the number of channels never changes -/

theorem astep_n (c : Client) (d : Device) (op : AOp) : (astep c d op).1.n = c.n := by
  cases op with
  | enable cs => rfl
  | disable cs => rfl
  | divider cs v =>
    show (step c d (.divider cs v)).1.n = c.n
    rw [step_divider]; split <;> rfl
  | wDiv o =>
    show (if c.divSupported then writeDiv c d o else (c, d, {})).1.n = c.n
    split
    · exact (writeDiv_frame c d o).n
    · rfl
  | wEn o => exact (writeEnable_frame c d o).n
  | query => rfl

theorem arun_n (c : Client) (d : Device) (ops : List AOp) : (arun c d ops).1.n = c.n := by
  induction ops generalizing c d with
  | nil => rfl
  | cons op r ih => rw [arun_cons]; exact (ih _ _).trans (astep_n c d op)

/-! ### any outcome (NACK, lost request, lost ACK; devices without ACK support): nothing raises, every
    critical section is bounded, and on a device with ACK support the view is right unless in doubt -/

theorem astep_inv {c : Client} {d : Device} (hI : Inv c d) (op : AOp) : Inv (astep c d op).1 (astep c d op).2.1 := by
  cases op with
  | enable cs => exact step_inv hI (.enable cs)
  | disable cs => exact step_inv hI (.disable cs)
  | divider cs v => exact step_inv hI (.divider cs v)
  | wDiv o =>
    show Inv (if c.divSupported then writeDiv c d o else (c, d, {})).1 (if c.divSupported then writeDiv c d o else (c, d, {})).2.1
    split
    · exact writeDiv_inv hI o
    · exact hI
  | wEn o => exact writeEnable_inv hI o
  | query => exact hI

theorem arun_inv {c : Client} {d : Device} (hI : Inv c d) (ops : List AOp) : Inv (arun c d ops).1 (arun c d ops).2.1 := by
  induction ops generalizing c d with
  | nil => exact hI
  | cons op r ih => rw [arun_cons]; exact ih (astep_inv hI op)

/-- a critical section of the channels lock lasts at most one ACK timeout (virtual time, tenths of a second),
    whatever the device does -/
theorem astep_time (c : Client) (d : Device) (op : AOp) : (astep c d op).2.2.time ≤ 10 := by
  cases op with
  | enable cs => exact Nat.zero_le _
  | disable cs => exact Nat.zero_le _
  | divider cs v =>
    show (step c d (.divider cs v)).2.2.time ≤ 10
    rw [step_divider]; split <;> exact Nat.zero_le _
  | wDiv o =>
    show (if c.divSupported then writeDiv c d o else (c, d, {})).2.2.time ≤ 10
    split
    · exact writeDiv_time c d o
    · exact Nat.zero_le _
  | wEn o => exact writeEnable_time c d o
  | query => exact Nat.zero_le _

theorem setMany_noerr {α : Type} (vec : List α) (cs : List Nat) (v : α) (h : ∀ c ∈ cs, c < vec.length) :
    (setMany vec cs v).2 = none := by
  induction cs generalizing vec with
  | nil => rfl
  | cons c r ih =>
    have hc : c < vec.length := h c (List.mem_cons_self ..)
    unfold setMany
    rw [if_pos hc]
    exact ih _ (fun x hx => by rw [List.length_set]; exact h x (List.mem_cons_of_mem _ hx))

/-- a call the application is allowed to make on a device with `n` channels: channel numbers in range,
    divider values 8-bit; a write half only occurs on a device with channels (`writeBlock`) -/
def WellOp (n : Nat) : AOp → Prop
  | .enable cs => ∀ c ∈ cs, c < n
  | .disable cs => ∀ c ∈ cs, c < n
  | .divider cs v => (∀ c ∈ cs, c < n) ∧ 0 ≤ v ∧ v ≤ 255
  | .wDiv _ => n ≠ 0
  | .wEn _ => n ≠ 0
  | .query => True

/-- no exception, whatever the device answers -/
theorem astep_noerr {c : Client} {d : Device} (hI : Inv c d) (op : AOp) (hw : WellOp c.n op) :
    (astep c d op).2.2.err = none := by
  cases op with
  | enable cs =>
    show (setMany c.enNew cs true).2 = none
    exact setMany_noerr _ _ _ (fun x hx => by rw [hI.lEnNew]; exact hw x hx)
  | disable cs =>
    show (setMany c.enNew cs false).2 = none
    exact setMany_noerr _ _ _ (fun x hx => by rw [hI.lEnNew]; exact hw x hx)
  | divider cs v =>
    show (step c d (.divider cs v)).2.2.err = none
    have hv : ¬ (v < 0 ∨ v > 255) := by have := hw.2; omega
    rw [step_divider, if_neg hv]
    exact setMany_noerr _ _ _ (fun x hx => by rw [hI.lDivNew]; exact hw.1 x hx)
  | wDiv o =>
    show (if c.divSupported then writeDiv c d o else (c, d, {})).2.2.err = none
    split
    · exact (writeDiv_out hI hw o).1
    · rfl
  | wEn o => exact (writeEnable_out hI hw o).1
  | query => rfl

theorem arun_safe {c : Client} {d : Device} (hI : Inv c d) (ops : List AOp) (hw : ∀ op ∈ ops, WellOp c.n op) :
    ∀ o ∈ (arun c d ops).2.2, o.err = none ∧ o.time ≤ 10 := by
  induction ops generalizing c d with
  | nil => intro o ho; nomatch ho
  | cons op r ih =>
    rw [arun_cons]
    intro o ho
    rcases List.mem_cons.mp ho with rfl | ho
    · exact ⟨astep_noerr hI op (hw op (List.mem_cons_self ..)), astep_time c d op⟩
    · refine ih (astep_inv hI op) (fun op' hm => ?_) o ho
      rw [astep_n]
      exact hw op' (List.mem_cons_of_mem _ hm)

/-- the invariants of any history against a device with ACK support survive every lock-level step,
    whatever its outcome -/
theorem doubtState_astep {ds : Bool} {c : Client} {d : Device} (h : DoubtState ds c d) (op : AOp) :
    DoubtState ds (astep c d op).1 (astep c d op).2.1 := by
  cases op with
  | enable cs => exact h.step (.enable cs)
  | disable cs => exact h.step (.disable cs)
  | divider cs v => exact h.step (.divider cs v)
  | wDiv o =>
    show DoubtState ds (if c.divSupported then writeDiv c d o else (c, d, {})).1
      (if c.divSupported then writeDiv c d o else (c, d, {})).2.1
    split
    · have hF := writeDiv_frame c d o
      exact ⟨writeDiv_inv h.inv o, h.dEn.of_divFrame hF, writeDiv_doubt h.inv h.dDiv o (Or.inl h.ackS),
        hF.ackS.trans h.ackS, hF.divS.trans h.divS⟩
    · exact h
  | wEn o =>
    have hF := writeEnable_frame c d o
    exact ⟨writeEnable_inv h.inv o, writeEnable_doubt h.inv h.dEn o (Or.inl h.ackS), h.dDiv.of_enFrame hF,
      hF.ackS.trans h.ackS, hF.divS.trans h.divS⟩
  | query => exact h

theorem arun_doubtState {ds : Bool} {c : Client} {d : Device} (h : DoubtState ds c d) (ops : List AOp) :
    DoubtState ds (arun c d ops).1 (arun c d ops).2.1 := by
  induction ops generalizing c d with
  | nil => exact h
  | cons op r ih => rw [arun_cons]; exact ih (doubtState_astep h op)

/-! ### the set-all calls, run back to back, are the atomic ops of the configuration machine -/

theorem set_prefix {α : Type} (l : List α) (k : Nat) (v : α) (hk : k < l.length) :
    (List.replicate k v ++ l.drop k).set k v = List.replicate (k + 1) v ++ l.drop (k + 1) := by
  rw [List.set_append_right _ _ (by simp)]
  simp only [List.length_replicate, Nat.sub_self]
  rw [List.drop_eq_getElem_cons hk, List.set_cons_zero, List.replicate_succ', List.append_assoc]
  rfl

/-- the first `k` one-channel blocks of a set-all call (`mk i` sets channel `i` of the requested enable vector to `v`) -/
theorem arun_setall_prefix (mk : Nat → AOp) (v : Bool)
    (hmk : ∀ (c : Client) (d : Device) (i : Nat),
      (astep c d (mk i)).1 = { c with enNew := (setMany c.enNew [i] v).1 } ∧ (astep c d (mk i)).2.1 = d)
    (c : Client) (d : Device) (k : Nat) (hk : k ≤ c.enNew.length) :
    (arun c d ((List.range k).map mk)).1 = { c with enNew := List.replicate k v ++ c.enNew.drop k } ∧
    (arun c d ((List.range k).map mk)).2.1 = d := by
  induction k with
  | zero => exact ⟨by simp [arun], rfl⟩
  | succ k ih =>
    obtain ⟨h1, h2⟩ := ih (Nat.le_of_succ_le hk)
    rw [List.range_succ, List.map_append, arun_append]
    dsimp only
    rw [h1, h2]
    have hlt : k < (List.replicate k v ++ c.enNew.drop k).length := by
      simp only [List.length_append, List.length_replicate, List.length_drop]; omega
    show (arun _ d [mk k]).1 = _ ∧ (arun _ d [mk k]).2.1 = d
    rw [arun_cons]
    obtain ⟨e1, e2⟩ := hmk { c with enNew := List.replicate k v ++ c.enNew.drop k } d k
    refine ⟨?_, by rw [e2]; rfl⟩
    rw [e1, e2]
    show ({ c with enNew := (setMany (List.replicate k v ++ c.enNew.drop k) [k] v).1 } : Client) = _
    simp only [setMany, hlt, if_true]
    congr 1
    exact set_prefix c.enNew k v (by omega)

/-- run back to back, the blocks of `ch_enable_all` / `ch_disable_all` / `channels_default_cfg` are the atomic
    `enableAll` / `disableAll` / `defaultCfg` of the configuration machine of C07 -/
theorem setall_blocks_refine {c : Client} {d : Device} (hI : Inv c d) :
    ((arun c d (enableAllBlock c.n)).1 = (step c d .enableAll).1 ∧ (arun c d (enableAllBlock c.n)).2.1 = d) ∧
    ((arun c d (disableAllBlock c.n)).1 = (step c d .disableAll).1 ∧ (arun c d (disableAllBlock c.n)).2.1 = d) := by
  have hn : c.n ≤ c.enNew.length := by rw [hI.lEnNew]; exact Nat.le_refl _
  have hd : c.enNew.drop c.n = [] := by rw [← hI.lEnNew]; exact List.drop_length
  obtain ⟨a1, a2⟩ := arun_setall_prefix (fun i => .enable [i]) true (fun _ _ _ => ⟨rfl, rfl⟩) c d c.n hn
  obtain ⟨b1, b2⟩ := arun_setall_prefix (fun i => .disable [i]) false (fun _ _ _ => ⟨rfl, rfl⟩) c d c.n hn
  refine ⟨⟨?_, a2⟩, ⟨?_, b2⟩⟩
  · show (arun c d ((List.range c.n).map fun i => AOp.enable [i])).1 = _
    have hl : List.replicate c.n true = List.replicate c.enNew.length true := by rw [hI.lEnNew]
    rw [a1, hd, List.append_nil, hl]; rfl
  · show (arun c d ((List.range c.n).map fun i => AOp.disable [i])).1 = _
    have hl : List.replicate c.n false = List.replicate c.enNew.length false := by rw [hI.lEnNew]
    rw [b1, hd, List.append_nil, hl]; rfl

theorem setMany_append_ok {α : Type} (vec w : List α) (a b : List Nat) (v : α) (h : setMany vec a v = (w, none)) :
    setMany vec (a ++ b) v = setMany w b v := by
  induction a generalizing vec with
  | nil =>
    have : vec = w := congrArg Prod.fst h
    rw [List.nil_append, this]
  | cons x r ih =>
    unfold setMany at h
    rw [List.cons_append]
    have e : setMany vec (x :: (r ++ b)) v =
        if x < vec.length then setMany (vec.set x v) (r ++ b) v else (vec, some .indexError) := rfl
    rw [e]
    by_cases hx : x < vec.length
    · rw [if_pos hx] at h ⊢
      exact ih _ h
    · rw [if_neg hx] at h
      exact absurd (congrArg Prod.snd h) (by simp)

theorem setMany_range {α : Type} (vec : List α) (v : α) (k : Nat) (hk : k ≤ vec.length) :
    setMany vec (List.range k) v = (List.replicate k v ++ vec.drop k, none) := by
  induction k with
  | zero => simp [setMany]
  | succ k ih =>
    rw [List.range_succ, setMany_append_ok vec _ _ _ v (ih (Nat.le_of_succ_le hk))]
    have hlt : k < (List.replicate k v ++ vec.drop k).length := by
      simp only [List.length_append, List.length_replicate, List.length_drop]; omega
    simp only [setMany, hlt, if_true]
    rw [set_prefix vec k v (by omega)]

theorem defaultCfg_blocks_refine {c : Client} {d : Device} (hI : Inv c d) :
    (arun c d (defaultCfgBlock c.n)).1 = (step c d .defaultCfg).1 ∧ (arun c d (defaultCfgBlock c.n)).2.1 = d := by
  obtain ⟨-, ⟨b1, b2⟩⟩ := setall_blocks_refine hI
  unfold defaultCfgBlock
  rw [arun_append]
  dsimp only
  rw [b1, b2]
  have hr : setMany c.divNew (List.range c.n) 0 = (List.replicate c.divNew.length 0, none) := by
    have := setMany_range c.divNew (0 : Int) c.n (by rw [hI.lDivNew]; exact Nat.le_refl _)
    rw [this, ← hI.lDivNew, List.drop_length, List.append_nil]
  refine ⟨?_, ?_⟩
  · show (step (step c d .disableAll).1 d (.divider (List.range c.n) 0)).1 = _
    rw [step_divider, if_neg (by omega)]
    show ({ (step c d .disableAll).1 with divNew := (setMany c.divNew (List.range c.n) 0).1 } : Client) = _
    rw [hr]; rfl
  · show (step (step c d .disableAll).1 d (.divider (List.range c.n) 0)).2.1 = d
    rw [step_divider, if_neg (by omega)]


end LocksLemmas
end Nxs
