/-
  Error-detection theorems of CRC-16/XMODEM (property C02).

  `w` is a received-valid frame (residue zero), `e` an error pattern of the same length.
  By linearity (`crc16xmodem_xor`) the corrupted frame has residue `crc16xmodem e`, which is
  `x^16 · e(x)` modulo the generator; it is shown non-zero for
    * one or two flipped bits (frames up to 4095 bytes; the order of x is 32767),
    * any odd number of flipped bits (the generator has an even number of terms),
    * any burst confined to 16 consecutive bits (degree argument).
-/
import NxsModel.Lemmas.CrcLinear
import NxsModel.Lemmas.CrcOrder
namespace Nxs

/-! ### decomposition of bit lists -/

theorem split_first (l : List Bool) (h : l.count true ≠ 0) :
    ∃ rest, l = List.replicate (l.findIdx (· = true)) false ++ true :: rest := by
  induction l with
  | nil => simp at h
  | cons b t ih =>
    cases b
    · have h' : t.count true ≠ 0 := by simpa using h
      obtain ⟨rest, hr⟩ := ih h'
      refine ⟨rest, ?_⟩
      have hf : (false :: t).findIdx (· = true) = t.findIdx (· = true) + 1 := by
        simp [List.findIdx_cons]
      rw [hf, List.replicate_succ, List.cons_append, ← hr]
    · exact ⟨t, by simp [List.findIdx_cons]⟩

theorem eq_replicate_of_count (l : List Bool) (h : l.count true = 0) :
    l = List.replicate l.length false := by
  rw [List.eq_replicate_iff]
  refine ⟨rfl, ?_⟩
  intro b hb
  cases b
  · rfl
  · exact absurd hb (List.count_eq_zero.1 h)

/-- a set bit at index `i` is not after the "last set" index -/
theorem le_lastIdx (l : List Bool) (i : Nat) (hi : i < l.length) (h : l[i] = true) :
    i ≤ l.length - 1 - l.reverse.findIdx (· = true) := by
  have hj : l.length - 1 - i < l.reverse.length := by rw [List.length_reverse]; omega
  have hrev : l.reverse[l.length - 1 - i] = true := by
    rw [List.getElem_reverse]
    have : l.length - 1 - (l.length - 1 - i) = i := by omega
    simp only [this, h]
  have : l.reverse.findIdx (· = true) ≤ l.length - 1 - i := by
    apply Nat.le_of_not_lt
    intro hlt
    have := List.not_of_lt_findIdx hlt
    simp [hrev] at this
  omega

/-! ### remainders of the pattern classes -/

theorem zero_xor16 (x : BitVec 16) : (0 : BitVec 16) ^^^ x = x := by simp

theorem shiftIn_zero_true : shiftIn 0 true = 1 := by decide

/-- leading zero bits do not matter; the first set bit loads the register with `1` -/
theorem rem_zero_split (a : Nat) (rest : List Bool) :
    rem 0 (List.replicate a false ++ true :: rest) = rem 1 rest := by
  rw [rem_append, rem_replicate_false, Tpow_zero, rem_cons, shiftIn_zero_true]

theorem one_ne_zero16 : (1 : BitVec 16) ≠ 0 := by decide

theorem rem_ne_zero_of_count_one (l : List Bool) (h : l.count true = 1) : rem 0 l ≠ 0 := by
  obtain ⟨rest, hr⟩ := split_first l (by omega)
  have hc : rest.count true = 0 := by
    rw [hr] at h
    simp [List.count_append, List.count_replicate] at h
    exact h
  rw [hr, rem_zero_split, eq_replicate_of_count rest hc, rem_replicate_false]
  exact Tpow_ne_zero _ one_ne_zero16

theorem rem_ne_zero_of_count_two (l : List Bool) (h : l.count true = 2) (hl : l.length ≤ 32767) :
    rem 0 l ≠ 0 := by
  obtain ⟨rest, hr⟩ := split_first l (by omega)
  have hc : rest.count true = 1 := by
    rw [hr] at h
    simp [List.count_append, List.count_replicate] at h
    exact h
  obtain ⟨rest2, hr2⟩ := split_first rest (by omega)
  have hc2 : rest2.count true = 0 := by
    rw [hr2] at hc
    simp [List.count_append, List.count_replicate] at hc
    exact hc
  generalize l.findIdx (· = true) = a at hr
  generalize rest.findIdx (· = true) = k at hr2
  have hlen : a + 1 + (k + 1 + rest2.length) = l.length := by
    rw [hr, hr2]; simp; omega
  rw [hr, rem_zero_split, hr2, rem_append, rem_replicate_false, rem_cons,
    eq_replicate_of_count rest2 hc2, rem_replicate_false]
  apply Tpow_ne_zero
  unfold shiftIn
  rw [← Tpow_succ', if_pos rfl]
  intro h0
  exact Tpow_one_ne_one (k + 1) (by omega) (by omega) (BitVec.xor_eq_zero_iff.1 h0)

theorem rem_ne_zero_of_odd (l : List Bool) (h : l.count true % 2 = 1) : rem 0 l ≠ 0 := by
  intro h0
  have := par_rem 0 l
  rw [h0] at this
  simp [par_consts, h] at this

/-- while the register is below `2^k` (k ≤ 15) no reduction happens: it stays non-zero -/
theorem shiftIn_small (r : BitVec 16) (k : Nat) (hk : k ≤ 15) (h0 : r ≠ 0) (h1 : r.toNat < 2 ^ k)
    (b : Bool) : shiftIn r b ≠ 0 ∧ (shiftIn r b).toNat < 2 ^ (k + 1) := by
  have hp : 2 ^ k ≤ 2 ^ 15 := Nat.pow_le_pow_right (by omega) hk
  have hT : (T r).toNat = 2 * r.toNat := by
    rw [T_toNat]
    have : r.toNat / 32768 = 0 := by omega
    rw [this, Nat.mul_zero, Nat.xor_zero]
    omega
  have hr0 : r.toNat ≠ 0 := fun h => h0 (BitVec.eq_of_toNat_eq h)
  have hpk : 2 ^ (k + 1) = 2 * 2 ^ k := by rw [Nat.pow_succ]; omega
  have hk1 : 1 < 2 ^ (k + 1) := by
    have : 0 < 2 ^ k := Nat.two_pow_pos k
    omega
  unfold shiftIn
  constructor
  · intro h
    have h2 := congrArg BitVec.toNat (BitVec.xor_eq_zero_iff.1 h)
    rw [hT] at h2
    cases b
    · have : ((if false = true then 1 else 0 : BitVec 16)).toNat = 0 := rfl
      omega
    · have : ((if true = true then 1 else 0 : BitVec 16)).toNat = 1 := rfl
      omega
  · rw [BitVec.toNat_xor, hT]
    apply Nat.xor_lt_two_pow
    · omega
    · cases b
      · have : ((if false = true then 1 else 0 : BitVec 16)).toNat = 0 := rfl
        omega
      · have : ((if true = true then 1 else 0 : BitVec 16)).toNat = 1 := rfl
        omega

theorem rem_small (s : List Bool) (r : BitVec 16) (k : Nat) (hk : k + s.length ≤ 16)
    (h0 : r ≠ 0) (h1 : r.toNat < 2 ^ k) : rem r s ≠ 0 := by
  induction s generalizing r k with
  | nil => exact h0
  | cons b s ih =>
    rw [List.length_cons] at hk
    have := shiftIn_small r k (by omega) h0 h1 b
    rw [rem_cons]
    exact ih (shiftIn r b) (k + 1) (by omega) this.1 this.2

theorem rem_ne_zero_of_burst (l : List Bool) (h : l.count true ≠ 0)
    (hb : l.length - 1 - l.reverse.findIdx (· = true) - l.findIdx (· = true) < 16) :
    rem 0 l ≠ 0 := by
  obtain ⟨rest, hr⟩ := split_first l h
  have hlast := le_lastIdx l
  generalize l.length - 1 - l.reverse.findIdx (· = true) = last at hb hlast
  generalize l.findIdx (· = true) = a at hr hb
  -- every set bit of `rest` is among its first 15 positions
  have key : ∀ n (hn : n < rest.length), rest[n] = true → n < 15 := by
    intro n hn ht
    have hi : a + 1 + n < l.length := by rw [hr]; simp; omega
    have hget : l[a + 1 + n] = true := by
      have h1 : l[a + 1 + n]? = rest[n]? := by
        rw [hr, List.getElem?_append_right (by simp; omega)]
        have : a + 1 + n - (List.replicate a false).length = n + 1 := by simp; omega
        rw [this, List.getElem?_cons_succ]
      rw [List.getElem?_eq_getElem hi, List.getElem?_eq_getElem hn, ht] at h1
      exact Option.some.inj h1
    have := hlast _ hi hget
    omega
  have htail : rest.drop 15 = List.replicate (rest.drop 15).length false := by
    rw [List.eq_replicate_iff]
    refine ⟨rfl, ?_⟩
    intro b hb
    cases b
    · rfl
    · obtain ⟨j, hj, hjb⟩ := List.mem_iff_getElem.1 hb
      rw [List.getElem_drop] at hjb
      have := key _ _ hjb
      omega
  rw [hr, rem_zero_split, ← List.take_append_drop 15 rest, rem_append, htail, rem_replicate_false]
  apply Tpow_ne_zero
  apply rem_small _ 1 1 _ one_ne_zero16 (by decide)
  rw [List.length_take]
  omega

/-! ### the three detection theorems -/

theorem crc16xmodem_xor_ne_zero (w e : Bytes) (hw : crc16xmodem w = 0) (hl : e.length = w.length)
    (h : rem 0 (bitsOf e) ≠ 0) : crc16xmodem (xorBytes w e) ≠ 0 := by
  rw [crc16xmodem_xor w e hl, hw, zero_xor16]
  intro h0
  exact h ((crc16xmodem_eq_zero_iff e).1 h0)

/-- every single-bit and double-bit error in a frame of at most 4095 bytes is detected -/
theorem detect_single_double (w e : Bytes) (hw : crc16xmodem w = 0) (hl : e.length = w.length)
    (hlen : w.length ≤ 4095) (he : weight e = 1 ∨ weight e = 2) :
    crc16xmodem (xorBytes w e) ≠ 0 := by
  apply crc16xmodem_xor_ne_zero w e hw hl
  unfold weight at he
  cases he with
  | inl h1 => exact rem_ne_zero_of_count_one _ h1
  | inr h2 =>
    apply rem_ne_zero_of_count_two _ h2
    rw [bitsOf_length]
    omega

/-- every error with an odd number of flipped bits is detected -/
theorem detect_odd (w e : Bytes) (hw : crc16xmodem w = 0) (hl : e.length = w.length)
    (he : weight e % 2 = 1) : crc16xmodem (xorBytes w e) ≠ 0 := by
  apply crc16xmodem_xor_ne_zero w e hw hl
  exact rem_ne_zero_of_odd _ he

/-- every error burst confined to 16 consecutive bits is detected -/
theorem detect_burst (w e : Bytes) (hw : crc16xmodem w = 0) (hl : e.length = w.length)
    (he : weight e ≠ 0) (hb : lastSet e - firstSet e < 16) : crc16xmodem (xorBytes w e) ≠ 0 := by
  apply crc16xmodem_xor_ne_zero w e hw hl
  exact rem_ne_zero_of_burst _ he hb

/-! ### non-vacuity: concrete frames and error patterns meeting the hypotheses -/

/-- "123456789" followed by its CRC 0x31C3 -/
def exFrame : Bytes := [0x31, 0x32, 0x33, 0x34, 0x35, 0x36, 0x37, 0x38, 0x39, 0x31, 0xC3]

example : crc16xmodem exFrame = 0 := by decide +kernel

/-- single-bit error -/
example : let e : Bytes := [0, 0, 0x10, 0, 0, 0, 0, 0, 0, 0, 0]
    crc16xmodem exFrame = 0 ∧ e.length = exFrame.length ∧ exFrame.length ≤ 4095 ∧
      (weight e = 1 ∨ weight e = 2) ∧ crc16xmodem (xorBytes exFrame e) ≠ 0 := by decide +kernel

/-- double-bit error -/
example : let e : Bytes := [0, 0x80, 0, 0, 0, 0, 0, 0, 0, 0, 0x01]
    crc16xmodem exFrame = 0 ∧ e.length = exFrame.length ∧ exFrame.length ≤ 4095 ∧
      (weight e = 1 ∨ weight e = 2) ∧ crc16xmodem (xorBytes exFrame e) ≠ 0 := by decide +kernel

/-- odd number (5) of flipped bits -/
example : let e : Bytes := [0x01, 0, 0x03, 0, 0, 0, 0x80, 0, 0, 0x40, 0]
    crc16xmodem exFrame = 0 ∧ e.length = exFrame.length ∧ weight e % 2 = 1 ∧
      crc16xmodem (xorBytes exFrame e) ≠ 0 := by decide +kernel

/-- a 16-bit burst straddling three bytes (first set bit 21, last set bit 36) -/
example : let e : Bytes := [0, 0, 0x05, 0xA7, 0x98, 0, 0, 0, 0, 0, 0]
    crc16xmodem exFrame = 0 ∧ e.length = exFrame.length ∧ weight e ≠ 0 ∧
      firstSet e = 21 ∧ lastSet e = 36 ∧ lastSet e - firstSet e < 16 ∧
      crc16xmodem (xorBytes exFrame e) ≠ 0 := by decide +kernel

end Nxs
