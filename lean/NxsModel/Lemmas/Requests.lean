/- helper lemmas about the request builders and the device-side request decoders (C05) -/
import NxsModel.Requests
import NxsModel.Spec.Wire
import NxsModel.Lemmas.Serial
import NxsModel.Lemmas.Accept
import NxsModel.Lemmas.Pad
namespace Nxs.Requests
open Nxs Nxs.Spec Gen.Ids

attribute [local irreducible] crc16xmodem

/-! ### small format facts -/

theorem setData_atoms : Gen.Fmt.setData.atoms = [⟨.B, 1⟩, ⟨.B, 1⟩] := by
  simp [Gen.Fmt.setData, Fmt.atoms, itemAtoms, Code.size]

theorem start_atoms : Gen.Fmt.start.atoms = [⟨.bool, 1⟩] := by
  simp [Gen.Fmt.start, Fmt.atoms, itemAtoms, Code.size]

theorem chinfoReq_atoms : Gen.Fmt.chinfoReq.atoms = [⟨.B, 1⟩] := by
  simp [Gen.Fmt.chinfoReq, Fmt.atoms, itemAtoms, Code.size]

theorem packAtom_bool (be : Bool) (n : Nat) (b : Bool) :
    packAtom be ⟨.bool, n⟩ (.bool b) = .ok [if b then 1 else 0] := by
  cases b <;> rfl

theorem bit_eq (b : Bool) : (if b then 1 else 0 : Byte) = BitVec.ofNat 8 (if b then 1 else 0) := by
  cases b <;> rfl

theorem bit_ne_zero (b : Bool) : decide (BitVec.ofNat 8 (if b then 1 else 0) ≠ (0 : Byte)) = b := by
  cases b <;> decide

theorem byte_toNat (c : Nat) (h : c ≤ 255) : (BitVec.ofNat 8 c).toNat = c := by
  simp; omega

theorem packStart (b : Bool) : pack Gen.Fmt.start [.bool b] = .ok [BitVec.ofNat 8 (if b then 1 else 0)] := by
  unfold pack
  rw [start_atoms, ← bit_eq]
  exact packAtoms_cons_ok (packAtom_bool _ 1 b) rfl

theorem packChinfoReq (c : Nat) (hc : c ≤ 255) :
    pack Gen.Fmt.chinfoReq [.int (c : Int)] = .ok [BitVec.ofNat 8 c] := by
  unfold pack
  rw [chinfoReq_atoms]
  exact packAtoms_cons_ok (packAtom_B _ 1 c (by omega)) rfl

theorem frameSetData_ok (flags c : Nat) (hf : flags ≤ 255) (hc : c ≤ 255) :
    frameSetData flags (c : Int) = .ok [BitVec.ofNat 8 flags, BitVec.ofNat 8 c] := by
  unfold frameSetData pack
  rw [setData_atoms]
  exact packAtoms_cons_ok (packAtom_B _ 1 flags (by omega))
    (packAtoms_cons_ok (packAtom_B _ 1 c (by omega)) rfl)

theorem byteOf_nat (v : Nat) (hv : v ≤ 255) : byteOf (v : Int) = .ok [BitVec.ofNat 8 v] := by
  have : (0 : Int) ≤ v ∧ (v : Int) < 256 := by omega
  unfold byteOf
  rw [if_pos this, Int.toNat_natCast]

/-! ### builders -/

theorem frameStart_eq (b : Bool) :
    frameStart b = .ok (wire 5 [BitVec.ofNat 8 (if b then 1 else 0)]) := by
  unfold frameStart
  rw [packStart, ok_bind]
  exact Serial.frameCreate_eq 5 _ (by simp) (by omega)

theorem frameCmninfo_eq : frameCmninfo = .ok (wire 2 []) :=
  Serial.frameCreate_eq 2 [] (by simp) (by omega)

theorem frameChinfo_eq (c : Nat) (hc : c ≤ 255) :
    frameChinfo (c : Int) = .ok (wire 3 [BitVec.ofNat 8 c]) := by
  unfold frameChinfo
  rw [packChinfoReq c hc, ok_bind]
  exact Serial.frameCreate_eq 3 _ (by simp) (by omega)

theorem frameSetSingle_eq (id c : Nat) (x : Byte) (hid : id ≤ 255) (hc : c ≤ 255) :
    frameSetSingle id [x] (c : Int) = .ok (wire id [0, BitVec.ofNat 8 c, x]) := by
  unfold frameSetSingle
  rw [if_neg (by simp)]
  have : Gen.Fmt.flagSingle = 0 := rfl
  rw [this, frameSetData_ok 0 c (by omega) hc, ok_bind]
  exact Serial.frameCreate_eq id _ (by simp) hid

theorem frameSetAll_eq (id : Nat) (x : Byte) (hid : id ≤ 255) :
    frameSetAll id [x] = .ok (wire id [2, 0, x]) := by
  unfold frameSetAll
  rw [if_neg (by simp)]
  have : Gen.Fmt.flagAll = 2 := rfl
  rw [this]
  have := frameSetData_ok 2 0 (by omega) (by omega)
  rw [show ((0 : Nat) : Int) = 0 from rfl] at this
  rw [this, ok_bind]
  exact Serial.frameCreate_eq id _ (by simp) hid

theorem frameSetBulk_eq (id : Nat) (d : Bytes) (hid : id ≤ 255) (h1 : 1 ≤ d.length) (hd : d.length ≤ 255) :
    frameSetBulk id d = .ok (wire id (1 :: 0 :: d)) := by
  unfold frameSetBulk
  rw [if_neg (by omega)]
  have : Gen.Fmt.flagBulk = 1 := rfl
  rw [this]
  have := frameSetData_ok 1 0 (by omega) (by omega)
  rw [show ((0 : Nat) : Int) = 0 from rfl] at this
  rw [this, ok_bind]
  exact Serial.frameCreate_eq id _ (by simp; omega) hid

theorem frameEnable_single (n c : Nat) (v : Bool) (hc : c < n) (hn : n ≤ 255) :
    frameEnable (.single c v) n =
      .ok (wire 6 [0, BitVec.ofNat 8 c, BitVec.ofNat 8 (if v then 1 else 0)]) := by
  unfold frameEnable
  rw [← bit_eq]
  exact frameSetSingle_eq 6 c _ (by omega) (by omega)

theorem frameDiv_single (n c v : Nat) (hc : c < n) (hn : n ≤ 255) (hv : v ≤ 255) :
    frameDiv (.single c v) n = .ok (wire 7 [0, BitVec.ofNat 8 c, BitVec.ofNat 8 v]) := by
  unfold frameDiv
  simp only
  rw [byteOf_nat v hv, ok_bind]
  exact frameSetSingle_eq 7 c _ (by omega) (by omega)

theorem enBulk_eq (vs : List Bool) (k c : Nat) (h : c + k ≤ vs.length) :
    enBulk vs k c = .ok (((vs.drop c).take k).map fun v => BitVec.ofNat 8 (if v then 1 else 0)) := by
  induction k generalizing c with
  | zero => simp [enBulk]
  | succ k ih =>
    have hc : c < vs.length := by omega
    unfold enBulk
    rw [List.getElem?_eq_getElem hc]
    simp only
    rw [ih (c + 1) (by omega), ok_bind, List.drop_eq_getElem_cons hc, List.take_succ_cons,
      List.map_cons, bit_eq]

theorem divBulk_eq (vs : List Nat) (k c : Nat) (h : c + k ≤ vs.length) (hv : ∀ v ∈ vs, v ≤ 255) :
    divBulk (vs.map Int.ofNat) k c = .ok (((vs.drop c).take k).map fun v => BitVec.ofNat 8 v) := by
  induction k generalizing c with
  | zero => simp [divBulk]
  | succ k ih =>
    have hc : c < vs.length := by omega
    have hc' : c < (vs.map Int.ofNat).length := by simpa using hc
    unfold divBulk
    rw [List.getElem?_eq_getElem hc']
    simp only [List.getElem_map, Int.ofNat_eq_natCast]
    rw [byteOf_nat _ (hv _ (List.getElem_mem hc)), ok_bind, ih (c + 1) (by omega), ok_bind,
      List.drop_eq_getElem_cons hc, List.take_succ_cons, List.map_cons]
    rfl

theorem allSame_map {α β : Type} [DecidableEq α] [DecidableEq β] (f : α → β)
    (hf : ∀ a b, f a = f b → a = b) (vs : List α) : allSame (vs.map f) = allSame vs := by
  cases vs with
  | nil => rfl
  | cons x xs =>
    simp only [List.map_cons, allSame, List.all_map]
    congr 1
    funext y
    simp only [Function.comp]
    rw [Bool.eq_iff_iff]
    simp only [decide_eq_true_eq]
    exact ⟨hf _ _, fun h => by rw [h]⟩

/-- full-vector enable request, all entries equal: the ALL form -/
theorem frameEnable_vec_all (n : Nat) (v : Bool) (vs : List Bool) (hl : (v :: vs).length = n)
    (hs : allSame (v :: vs) = true) :
    frameEnable (.vec (v :: vs)) n = .ok (wire 6 [2, 0, BitVec.ofNat 8 (if v then 1 else 0)]) := by
  unfold frameEnable
  simp only
  rw [if_pos ⟨hl, hs⟩, ← bit_eq]
  exact frameSetAll_eq 6 _ (by omega)

/-- full-vector enable request, not all equal: the BULK form -/
theorem frameEnable_vec_bulk (n : Nat) (vs : List Bool) (hl : vs.length = n) (h1 : 1 ≤ n) (hn : n ≤ 255)
    (hs : allSame vs = false) :
    frameEnable (.vec vs) n =
      .ok (wire 6 (1 :: 0 :: vs.map fun v => BitVec.ofNat 8 (if v then 1 else 0))) := by
  unfold frameEnable
  simp only
  rw [if_neg (by simp [hs]), enBulk_eq vs n 0 (by omega), ok_bind]
  simp only [List.drop_zero, ← hl, List.take_length]
  exact frameSetBulk_eq 6 _ (by omega) (by simp; omega) (by simp; omega)

theorem frameDiv_vec_all (n v : Nat) (vs : List Nat) (hl : (v :: vs).length = n) (hv : v ≤ 255)
    (hs : allSame (v :: vs) = true) :
    frameDiv (.vec ((v :: vs).map Int.ofNat)) n = .ok (wire 7 [2, 0, BitVec.ofNat 8 v]) := by
  have hs' : allSame ((v :: vs).map Int.ofNat) = true := by
    rw [allSame_map Int.ofNat (fun a b h => Int.ofNat.inj h)]; exact hs
  have hl' : ((v :: vs).map Int.ofNat).length = n := by simpa using hl
  unfold frameDiv
  simp only
  rw [if_pos ⟨hl', hs'⟩]
  simp only [List.map_cons, Int.ofNat_eq_natCast]
  rw [byteOf_nat v hv, ok_bind]
  exact frameSetAll_eq 7 _ (by omega)

theorem frameDiv_vec_bulk (n : Nat) (vs : List Nat) (hl : vs.length = n) (h1 : 1 ≤ n) (hn : n ≤ 255)
    (hv : ∀ v ∈ vs, v ≤ 255) (hs : allSame vs = false) :
    frameDiv (.vec (vs.map Int.ofNat)) n = .ok (wire 7 (1 :: 0 :: vs.map fun v => BitVec.ofNat 8 v)) := by
  have hs' : allSame (vs.map Int.ofNat) = false := by
    rw [allSame_map Int.ofNat (fun a b h => Int.ofNat.inj h)]; exact hs
  unfold frameDiv
  simp only
  rw [if_neg (by simp [hs']), divBulk_eq vs n 0 (by omega) hv, ok_bind]
  simp only [List.drop_zero, ← hl, List.take_length]
  exact frameSetBulk_eq 7 _ (by omega) (by simp; omega) (by simp; omega)

/-! ### device-side decoders -/

theorem unpackAtom_bool (be : Bool) (n : Nat) (x : Byte) :
    unpackAtom be ⟨.bool, n⟩ [x] = .bool (decide (x ≠ 0)) := by
  simp [unpackAtom]

theorem unpack_rep_bool (be : Bool) (n : Nat) (bs : Bytes) (h : bs.length = n) :
    unpackAtoms be (List.replicate n ⟨.bool, 1⟩) bs = .ok (bs.map fun b => .bool (decide (b ≠ 0))) := by
  induction bs generalizing n with
  | nil => subst h; rfl
  | cons b bs ih =>
    subst h
    rw [List.length_cons, List.replicate_succ, unpackAtoms_cons (by simp [Atom.size, Code.size])]
    simp only [Atom.size, Code.size, if_neg (show ¬ Code.bool = Code.s by decide), List.drop_succ_cons,
      List.drop_zero, List.take_succ_cons, List.take_zero]
    rw [ih _ rfl, ok_bind, unpackAtom_bool]
    rfl

theorem unpack_rep_B (be : Bool) (n : Nat) (bs : Bytes) (h : bs.length = n) :
    unpackAtoms be (List.replicate n ⟨.B, 1⟩) bs = .ok (bs.map fun b => .int (b.toNat : Int)) := by
  induction bs generalizing n with
  | nil => subst h; rfl
  | cons b bs ih =>
    subst h
    rw [List.length_cons, List.replicate_succ, unpackAtoms_cons (by simp [Atom.size, Code.size])]
    simp only [Atom.size, Code.size, if_neg (show ¬ Code.B = Code.s by decide), List.drop_succ_cons,
      List.drop_zero, List.take_succ_cons, List.take_zero]
    rw [ih _ rfl, ok_bind, unpackAtom_B]
    rfl

theorem valsBool_map (bs : Bytes) (f : Byte → Bool) :
    valsBool (bs.map fun b => .bool (f b)) = some (bs.map f) := by
  induction bs with
  | nil => rfl
  | cons b bs ih => simp [valsBool, ih]

theorem valsInt_map (bs : Bytes) (f : Byte → Int) :
    valsInt (bs.map fun b => .int (f b)) = some (bs.map f) := by
  induction bs with
  | nil => rfl
  | cons b bs ih => simp [valsInt, ih]

theorem unpack_bool1 (f : Fmt) (hf : f.atoms = [⟨.bool, 1⟩]) (x : Byte) :
    unpack f [x] = .ok [.bool (decide (x ≠ 0))] := by
  unfold unpack
  rw [hf]
  exact unpack_rep_bool f.be 1 [x] rfl

theorem unpack_B1 (f : Fmt) (hf : f.atoms = [⟨.B, 1⟩]) (x : Byte) :
    unpack f [x] = .ok [.int (x.toNat : Int)] := by
  unfold unpack
  rw [hf]
  exact unpack_rep_B f.be 1 [x] rfl

theorem frameStartDecode_eq (x : Byte) : frameStartDecode [x] = .ok (decide (x ≠ 0)) := by
  unfold frameStartDecode
  have : slice [x] 0 1 = [x] := rfl
  rw [this, unpack_bool1 _ (by simp [Gen.Fmt.startDec, Fmt.atoms, itemAtoms, Code.size])]

theorem frameStartDecode_bit (b : Bool) :
    frameStartDecode [BitVec.ofNat 8 (if b then 1 else 0)] = .ok b := by
  rw [frameStartDecode_eq, bit_ne_zero]

theorem frameSetDecode_eq (a b : Byte) (rest : Bytes) :
    frameSetDecode (slice (a :: b :: rest) 0 2) = .ok (a.toNat, b.toNat) := by
  unfold frameSetDecode
  have : slice (a :: b :: rest) 0 2 = [a, b] := by simp [slice]
  rw [this]
  have h2 : unpack Gen.Fmt.setDec [a, b] = .ok [.int (a.toNat : Int), .int (b.toNat : Int)] := by
    unfold unpack
    have : Gen.Fmt.setDec.atoms = List.replicate 2 ⟨.B, 1⟩ := by
      simp [Gen.Fmt.setDec, Fmt.atoms, itemAtoms, Code.size]
    rw [this]
    exact unpack_rep_B _ 2 [a, b] rfl
  rw [h2]
  simp

theorem enBulkDec_atoms (n : Nat) : (Gen.Fmt.enBulkDec n).atoms = List.replicate n ⟨.bool, 1⟩ := by
  simp [Gen.Fmt.enBulkDec, Fmt.atoms, itemAtoms, Code.size]

theorem divBulkDec_atoms (n : Nat) : (Gen.Fmt.divBulkDec n).atoms = List.replicate n ⟨.B, 1⟩ := by
  simp [Gen.Fmt.divBulkDec, Fmt.atoms, itemAtoms, Code.size]

theorem slice_tail1 (a b x : Byte) : slice [a, b, x] 2 3 = [x] := rfl

theorem slice_bulk (a b : Byte) (bs : Bytes) (n : Nat) (h : bs.length = n) :
    slice (a :: b :: bs) 2 (2 + n) = bs := by
  subst h
  simp [slice, Nat.add_comm 2]

/-- SINGLE form: set channel `ch` to `x ≠ 0` -/
theorem frameEnableDecode_single (ch x : Byte) (n : Nat) (cur : List Bool) :
    frameEnableDecode [0, ch, x] n cur = setAt cur ch.toNat (decide (x ≠ 0)) := by
  unfold frameEnableDecode
  rw [frameSetDecode_eq, ok_bind]
  simp only
  rw [if_neg (by decide), if_pos (by decide), slice_tail1,
    unpack_bool1 _ (by simp [Gen.Fmt.enSingleDec, Fmt.atoms, itemAtoms, Code.size]), ok_bind]

/-- ALL form -/
theorem frameEnableDecode_all (ch x : Byte) (n : Nat) (cur : List Bool) :
    frameEnableDecode [2, ch, x] n cur = .ok (List.replicate n (decide (x ≠ 0))) := by
  unfold frameEnableDecode
  rw [frameSetDecode_eq, ok_bind]
  simp only
  rw [if_neg (by decide), if_neg (by decide), if_pos (by decide), slice_tail1,
    unpack_bool1 _ (by simp [Gen.Fmt.enAllDec, Fmt.atoms, itemAtoms, Code.size]), ok_bind]

/-- BULK form -/
theorem frameEnableDecode_bulk (ch : Byte) (bs : Bytes) (n : Nat) (cur : List Bool) (h : bs.length = n) :
    frameEnableDecode (1 :: ch :: bs) n cur = .ok (bs.map fun b => decide (b ≠ 0)) := by
  unfold frameEnableDecode
  rw [frameSetDecode_eq, ok_bind]
  simp only
  rw [if_pos (by decide), slice_bulk _ _ _ _ h]
  unfold unpack
  rw [enBulkDec_atoms, unpack_rep_bool _ n bs h, ok_bind, valsBool_map]

theorem frameDivDecode_single (ch x : Byte) (n : Nat) (cur : List Int) :
    frameDivDecode [0, ch, x] n cur = setAt cur ch.toNat (x.toNat : Int) := by
  unfold frameDivDecode
  rw [frameSetDecode_eq, ok_bind]
  simp only
  rw [if_neg (by decide), if_pos (by decide), slice_tail1,
    unpack_B1 _ (by simp [Gen.Fmt.divSingleDec, Fmt.atoms, itemAtoms, Code.size]), ok_bind]

theorem frameDivDecode_all (ch x : Byte) (n : Nat) (cur : List Int) :
    frameDivDecode [2, ch, x] n cur = .ok (List.replicate n (x.toNat : Int)) := by
  unfold frameDivDecode
  rw [frameSetDecode_eq, ok_bind]
  simp only
  rw [if_neg (by decide), if_neg (by decide), if_pos (by decide), slice_tail1,
    unpack_B1 _ (by simp [Gen.Fmt.divAllDec, Fmt.atoms, itemAtoms, Code.size]), ok_bind]

theorem frameDivDecode_bulk (ch : Byte) (bs : Bytes) (n : Nat) (cur : List Int) (h : bs.length = n) :
    frameDivDecode (1 :: ch :: bs) n cur = .ok (bs.map fun b => (b.toNat : Int)) := by
  unfold frameDivDecode
  rw [frameSetDecode_eq, ok_bind]
  simp only
  rw [if_pos (by decide), slice_bulk _ _ _ _ h]
  unfold unpack
  rw [divBulkDec_atoms, unpack_rep_B _ n bs h, ok_bind, valsInt_map]

/-! ### decoders on the NxScope encodings -/

theorem enDecode_single (n c : Nat) (v : Bool) (cur : List Bool) (hcur : cur.length = n) (hc : c < n)
    (hn : n ≤ 255) :
    frameEnableDecode [0, BitVec.ofNat 8 c, BitVec.ofNat 8 (if v then 1 else 0)] n cur = .ok (cur.set c v) := by
  rw [frameEnableDecode_single, bit_ne_zero, byte_toNat c (by omega)]
  unfold setAt
  rw [if_pos (by omega)]

theorem enDecode_all (n : Nat) (v : Bool) (cur : List Bool) :
    frameEnableDecode [2, 0, BitVec.ofNat 8 (if v then 1 else 0)] n cur = .ok (List.replicate n v) := by
  rw [frameEnableDecode_all, bit_ne_zero]

theorem enDecode_bulk (n : Nat) (vs cur : List Bool) (hl : vs.length = n) :
    frameEnableDecode (1 :: 0 :: vs.map fun v => BitVec.ofNat 8 (if v then 1 else 0)) n cur = .ok vs := by
  rw [frameEnableDecode_bulk _ _ n cur (by simpa using hl), List.map_map]
  congr 1
  conv => rhs; rw [← List.map_id vs]
  apply List.map_congr_left
  intro v _
  exact bit_ne_zero v

theorem divDecode_single (n c v : Nat) (cur : List Int) (hcur : cur.length = n) (hc : c < n)
    (hn : n ≤ 255) (hv : v ≤ 255) :
    frameDivDecode [0, BitVec.ofNat 8 c, BitVec.ofNat 8 v] n cur = .ok (cur.set c (v : Int)) := by
  rw [frameDivDecode_single, byte_toNat c (by omega), byte_toNat v hv]
  unfold setAt
  rw [if_pos (by omega)]

theorem divDecode_all (n v : Nat) (cur : List Int) (hv : v ≤ 255) :
    frameDivDecode [2, 0, BitVec.ofNat 8 v] n cur = .ok (List.replicate n (v : Int)) := by
  rw [frameDivDecode_all, byte_toNat v hv]

theorem divDecode_bulk (n : Nat) (vs : List Nat) (cur : List Int) (hl : vs.length = n)
    (hv : ∀ v ∈ vs, v ≤ 255) :
    frameDivDecode (1 :: 0 :: vs.map fun v => BitVec.ofNat 8 v) n cur = .ok (vs.map Int.ofNat) := by
  rw [frameDivDecode_bulk _ _ n cur (by simpa using hl), List.map_map]
  congr 1
  apply List.map_congr_left
  intro v hm
  simp only [Function.comp, byte_toNat v (hv v hm), Int.ofNat_eq_natCast]

/-- when every entry equals the first, the vector is `replicate` of it -/
theorem allSame_eq_replicate {α : Type} [DecidableEq α] (v : α) (vs : List α)
    (h : allSame (v :: vs) = true) : v :: vs = List.replicate (vs.length + 1) v := by
  simp only [allSame, List.all_eq_true, decide_eq_true_eq] at h
  rw [List.replicate_succ]
  congr 1
  exact List.eq_replicate_iff.mpr ⟨rfl, h⟩

/-! ### through the frame layer and the dispatcher (for the `request_reaches_decoder_*` theorems of C05) -/

/-- a wire frame starts with the start byte -/
theorem req_hdrFind_wire (fid : Nat) (p : Bytes) : Serial.hdrFind (wire fid p) = some 0 := by
  unfold Serial.hdrFind
  have : wire fid p = (0x55 : Byte) :: ((wire fid p).drop 1) := rfl
  rw [this]
  simp [List.findIdx_cons, Gen.Frame.sof]

/-- the dispatcher, given a wire frame, hands id and payload to the callback table -/
theorem req_recvHandle_wire (fid : Nat) (p : Bytes) (hp : p.length ≤ 65529) (hf : fid ≤ 8) :
    Dispatch.recvHandle (wire fid p) = Dispatch.cbHandle fid p := by
  rw [Dispatch.recvHandle_eq, req_hdrFind_wire]
  show (match Serial.frameDecode ((wire fid p).drop 0) with
    | .ok fr => Dispatch.cbHandle fr.fid fr.data
    | .error _ => Dispatch.Disp.ignored) = _
  rw [List.drop_zero, Serial.frameDecode_wire fid p hp hf]

/-- … also when the interface appended its write padding -/
theorem req_recvHandle_aligned (pad fid cb : Nat) (p : Bytes) (hp : p.length ≤ 65529) (hf : fid ≤ 8)
    (hcb : Dispatch.cbHandle fid p = .fired cb p) :
    Dispatch.recvHandle (Pad.dataAlign pad (wire fid p)) = .fired cb p := by
  have h := req_recvHandle_wire fid p hp hf
  rw [hcb] at h
  rw [Pad.recvHandle_dataAlign pad _ (by rw [h]; exact fun h' => nomatch h'), h]

theorem req_cb_cmninfo : Dispatch.cbHandle 2 [] = .fired 0 [] := by decide
theorem req_cb_chinfo (c : Byte) : Dispatch.cbHandle 3 [c] = .fired 1 [c] := by
  simp [Dispatch.cbHandle, Gen.Recv.cbTable, Gen.Ids.idCMNINFO, Gen.Ids.idCHINFO, List.find?]
theorem req_cb_start (b : Byte) : Dispatch.cbHandle 5 [b] = .fired 4 [b] := by
  simp [Dispatch.cbHandle, Gen.Recv.cbTable, Gen.Ids.idCMNINFO, Gen.Ids.idCHINFO, Gen.Ids.idSTART, List.find?]
theorem req_cb_enable (p : Bytes) (h : p ≠ []) : Dispatch.cbHandle 6 p = .fired 2 p := by
  have : p.length ≠ 0 := by simpa using h
  simp [Dispatch.cbHandle, Gen.Recv.cbTable, Gen.Ids.idCMNINFO, Gen.Ids.idCHINFO, Gen.Ids.idSTART, Gen.Ids.idENABLE,
    List.find?, this]
theorem req_cb_div (p : Bytes) (h : p ≠ []) : Dispatch.cbHandle 7 p = .fired 3 p := by
  have : p.length ≠ 0 := by simpa using h
  simp [Dispatch.cbHandle, Gen.Recv.cbTable, Gen.Ids.idCMNINFO, Gen.Ids.idCHINFO, Gen.Ids.idSTART, Gen.Ids.idENABLE,
    Gen.Ids.idDIV, List.find?, this]

/-- storing a decoded vector of the device's length by per-channel writes makes it the state -/
theorem storeVec_full {α : Type} (cur decoded : List α) (h : decoded.length = cur.length) :
    storeVec cur decoded = decoded := by
  unfold storeVec
  rw [← h, List.take_length, List.drop_eq_nil_of_le (by omega), List.append_nil]

end Nxs.Requests
