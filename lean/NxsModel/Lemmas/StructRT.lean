/-
  Generic round-trip lemmas for the struct interpreter: `unpack ∘ pack` per code / width, for
  single atoms and for atom lists (both byte orders).
-/
import NxsModel.Struct
import NxsModel.Lemmas.Struct
namespace Nxs.StructRT
open Nxs

/-! ### integers -/

theorem pow256_pos (w : Nat) : 0 < 256 ^ w := Nat.pow_pos (by decide)

theorem pow256_even (w : Nat) (hw : 1 ≤ w) : 256 ^ w = 2 * (256 ^ w / 2) := by
  obtain ⟨k, rfl⟩ : ∃ k, w = k + 1 := ⟨w - 1, by omega⟩
  rw [Nat.pow_succ]; omega

theorem cast_pow256 (w : Nat) : ((256 : Int) ^ w) = ((256 ^ w : Nat) : Int) := by simp

/-- the two's complement residue of an in-range signed value -/
theorem emod_signed (v : Int) (M : Nat) (hlo : -(M : Int) ≤ v) (hhi : v < M) :
    (v % (M : Int)).toNat = if 0 ≤ v then v.toNat else (v + M).toNat := by
  by_cases h0 : 0 ≤ v
  · rw [if_pos h0, Int.emod_eq_of_lt h0 hhi]
  · rw [if_neg h0]
    have : v % (M : Int) = (v + M) % (M : Int) := by rw [Int.add_emod_right]
    rw [this, Int.emod_eq_of_lt (by omega) (by omega)]

theorem unpackS_packS {be : Bool} {w : Nat} {v : Int} {bs : Bytes} (hw : 1 ≤ w)
    (h : packS be w v = .ok bs) : unpackS be bs = v := by
  unfold packS at h; split at h
  next hv =>
    cases h
    have hpos := pow256_pos w
    have hev := pow256_even w hw
    have hc := cast_pow256 w
    simp only [unpackS, ordNat_ordBytes, ordBytes_length]
    rw [hc] at hv ⊢
    generalize 256 ^ w = M at *
    have hdiv : ((M : Int) / 2) = ((M / 2 : Nat) : Int) := by omega
    rw [hdiv] at hv
    rw [emod_signed v M (by omega) (by omega)]
    by_cases h0 : 0 ≤ v
    · rw [if_pos h0]
      have h1 : v.toNat < M := by omega
      rw [Nat.mod_eq_of_lt h1]
      have h2 : v.toNat < M / 2 := by omega
      rw [if_pos h2]; omega
    · rw [if_neg h0]
      have h1 : (v + M).toNat < M := by omega
      rw [Nat.mod_eq_of_lt h1]
      have h2 : ¬ (v + M).toNat < M / 2 := by omega
      rw [if_neg h2]; omega
  next => cases h

theorem code_size_pos (cd : Code) : 1 ≤ cd.size := by cases cd <;> simp [Code.size]

/-! ### one atom -/

/-- what `unpack` returns for a packed value: integers and bools are normalised, an `s` field is
    truncated / NUL padded to its length -/
def canon (a : Atom) (v : Val) : Val :=
  match a.code with
  | .B | .H | .I | .Q | .b | .h | .i | .q => .int ((v.asInt?).getD 0)
  | .bool => .bool v.truthy
  | .s => (match v with | .bytes bs => .bytes (padTo a.n bs) | _ => v)
  | .c | .f | .d => v

theorem packAtom_length {be : Bool} {a : Atom} {v : Val} {bs : Bytes}
    (h : packAtom be a v = .ok bs) : bs.length = a.size := by
  obtain ⟨cd, n⟩ := a
  cases cd <;> simp only [packAtom] at h <;> simp only [Atom.size, Code.size] <;>
    first
    | (split at h
       · first
         | exact (by simpa [Code.size] using packU_length h)
         | exact (by simpa [Code.size] using packS_length h)
         | (cases h; simp)
       · cases h)
    | (cases h; simp)

theorem ofNat_ordNat_ordBytes32 (be : Bool) (w : BitVec 32) :
    BitVec.ofNat 32 (ordNat be (ordBytes be 4 w.toNat)) = w := by
  rw [ordNat_ordBytes]
  apply BitVec.eq_of_toNat_eq
  have := w.isLt
  simp only [BitVec.toNat_ofNat]
  omega

theorem ofNat_ordNat_ordBytes64 (be : Bool) (w : BitVec 64) :
    BitVec.ofNat 64 (ordNat be (ordBytes be 8 w.toNat)) = w := by
  rw [ordNat_ordBytes]
  apply BitVec.eq_of_toNat_eq
  have := w.isLt
  simp only [BitVec.toNat_ofNat]
  omega

theorem unpackAtom_packU {be : Bool} {a : Atom} {v : Val} {bs : Bytes}
    (hc : a.code = .B ∨ a.code = .H ∨ a.code = .I ∨ a.code = .Q)
    (h : packAtom be a v = .ok bs) : unpackAtom be a bs = .int ((v.asInt?).getD 0) := by
  obtain ⟨cd, n⟩ := a
  rcases hc with hc | hc | hc | hc <;> simp only at hc <;> subst hc <;>
    simp only [packAtom, unpackAtom] at h ⊢ <;>
    (split at h
     · next i hi => rw [unpackU_packU h, hi]; rfl
     · cases h)

theorem unpackAtom_packS {be : Bool} {a : Atom} {v : Val} {bs : Bytes}
    (hc : a.code = .b ∨ a.code = .h ∨ a.code = .i ∨ a.code = .q)
    (h : packAtom be a v = .ok bs) : unpackAtom be a bs = .int ((v.asInt?).getD 0) := by
  obtain ⟨cd, n⟩ := a
  rcases hc with hc | hc | hc | hc <;> simp only at hc <;> subst hc <;>
    simp only [packAtom, unpackAtom] at h ⊢ <;>
    (split at h
     · next i hi => rw [unpackS_packS (code_size_pos _) h, hi]; rfl
     · cases h)

/-- `unpack ∘ pack` on one atom, every code, both byte orders -/
theorem unpackAtom_packAtom {be : Bool} {a : Atom} {v : Val} {bs : Bytes}
    (h : packAtom be a v = .ok bs) : unpackAtom be a bs = canon a v := by
  obtain ⟨cd, n⟩ := a
  cases cd
  case B => exact unpackAtom_packU (by simp) h
  case H => exact unpackAtom_packU (by simp) h
  case I => exact unpackAtom_packU (by simp) h
  case Q => exact unpackAtom_packU (by simp) h
  case b => exact unpackAtom_packS (by simp) h
  case h => exact unpackAtom_packS (by simp) h
  case i => exact unpackAtom_packS (by simp) h
  case q => exact unpackAtom_packS (by simp) h
  case bool =>
    simp only [packAtom] at h
    cases h
    simp only [unpackAtom, canon]
    cases v.truthy <;> simp
  case c =>
    simp only [packAtom] at h
    split at h
    · cases h; rfl
    · cases h
  case s =>
    simp only [packAtom] at h
    split at h
    · cases h; rfl
    · cases h
  case f =>
    simp only [packAtom] at h
    split at h
    · cases h; simp only [unpackAtom, canon, ofNat_ordNat_ordBytes32]
    · cases h
  case d =>
    simp only [packAtom] at h
    split at h
    · cases h; simp only [unpackAtom, canon, ofNat_ordNat_ordBytes64]
    · cases h

/-! ### atom lists -/

def canons : List Atom → List Val → List Val
  | a :: as, v :: vs => canon a v :: canons as vs
  | _, _ => []

theorem unpackAtoms_nil (be : Bool) : unpackAtoms be [] [] = .ok [] := rfl

/-- decoding `x ++ rest` where `x` is exactly the first atom -/
theorem unpackAtoms_cons_append {be : Bool} {a : Atom} {as : List Atom} {x rest : Bytes}
    (hx : x.length = a.size) :
    unpackAtoms be (a :: as) (x ++ rest) =
      (unpackAtoms be as rest).bind fun r => .ok (unpackAtom be a x :: r) := by
  rw [unpackAtoms_cons (by simp; omega)]
  rw [← hx, List.drop_left, List.take_left]

theorem packAtoms_length {be : Bool} {as : List Atom} {vs : List Val} {bs : Bytes}
    (h : packAtoms be as vs = .ok bs) : bs.length = atomsSize as := by
  induction as generalizing vs bs with
  | nil =>
    cases vs with
    | nil => simp [packAtoms] at h; subst h; rfl
    | cons v vs => simp [packAtoms] at h
  | cons a as ih =>
    cases vs with
    | nil => simp [packAtoms] at h
    | cons v vs =>
      cases h1 : packAtom be a v with
      | error e => rw [packAtoms_cons_err1 h1] at h; cases h
      | ok x =>
        cases h2 : packAtoms be as vs with
        | error e => rw [packAtoms_cons_err2 h1 h2] at h; cases h
        | ok r =>
          rw [packAtoms_cons_ok h1 h2] at h; cases h
          simp [atomsSize, packAtom_length h1, ih h2]

/-- `unpack ∘ pack` on atom lists -/
theorem unpackAtoms_packAtoms {be : Bool} {as : List Atom} {vs : List Val} {bs : Bytes}
    (h : packAtoms be as vs = .ok bs) : unpackAtoms be as bs = .ok (canons as vs) := by
  induction as generalizing vs bs with
  | nil =>
    cases vs with
    | nil => simp [packAtoms] at h; subst h; rfl
    | cons v vs => simp [packAtoms] at h
  | cons a as ih =>
    cases vs with
    | nil => simp [packAtoms] at h
    | cons v vs =>
      cases h1 : packAtom be a v with
      | error e => rw [packAtoms_cons_err1 h1] at h; cases h
      | ok x =>
        cases h2 : packAtoms be as vs with
        | error e => rw [packAtoms_cons_err2 h1 h2] at h; cases h
        | ok r =>
          rw [packAtoms_cons_ok h1 h2] at h; cases h
          rw [unpackAtoms_cons_append (packAtom_length h1), ih h2, ok_bind,
            unpackAtom_packAtom h1]
          rfl

/-- `struct.unpack(fmt, struct.pack(fmt, *vs))` -/
theorem unpack_pack {f : Fmt} {vs : List Val} {bs : Bytes} (h : pack f vs = .ok bs) :
    unpack f bs = .ok (canons f.atoms vs) := unpackAtoms_packAtoms h

theorem pack_length {f : Fmt} {vs : List Val} {bs : Bytes} (h : pack f vs = .ok bs) :
    bs.length = calcsize f := packAtoms_length h

end Nxs.StructRT
