/-
  Lemmas for the codec-generic session theorems of C20 (Props/C20.lean, section "complete client
  session"): the request / response builders of `Generic.lean` frame exactly the NxScope payloads of
  C05 / C06 / C15 with `c.frameCreate`, and a frame created by a lawful codec
    * written with any write padding reaches the device-side callback with its payload (C17 ∘ C02, generic),
    * received under any chunking, between other valid frames, is delivered once, in place (C03, generic).
  Only `LawfulCodec.frameCreate_decode`, `run_eq_scan` / `back_to_back_run`, `recvHandleWith_eq` /
  `recvHandleWith_append` are used about the codec; everything else is payload-level (C05, C06, C15).
-/
import NxsModel.Generic
import NxsModel.Lemmas.ClientReq
import NxsModel.Lemmas.Family
import NxsModel.Lemmas.Info
import NxsModel.Lemmas.Stream
import NxsModel.Lemmas.SerialLawful
import NxsModel.Props.C03
import NxsModel.Props.C15
namespace Nxs.Generic
open Nxs Nxs.Spec Nxs.Spec.StreamWire Gen.Ids
open Nxs.Serial (Hdr Frame)
open Nxs.Dispatch (Disp recvHandleWith cbHandle)
open Nxs.Requests (SetReq allSame)
open Nxs.Pad (ClientReq)

/-! ## 1. the builders frame the NxScope payload with `c.frameCreate` -/

section builders
variable (c : Codec)

theorem frameStart_eq (b : Bool) :
    frameStart c b = c.frameCreate 5 (some [BitVec.ofNat 8 (if b then 1 else 0)]) := by
  unfold frameStart
  rw [Requests.packStart, ok_bind]
  rfl

theorem frameChinfo_eq (ch : Nat) (hc : ch ≤ 255) :
    frameChinfo c (ch : Int) = c.frameCreate 3 (some [BitVec.ofNat 8 ch]) := by
  unfold frameChinfo
  rw [Requests.packChinfoReq ch hc, ok_bind]
  rfl

theorem frameSetSingle_eq (id ch : Nat) (x : Byte) (hc : ch ≤ 255) :
    frameSetSingle c id [x] (ch : Int) = c.frameCreate id (some [0, BitVec.ofNat 8 ch, x]) := by
  unfold frameSetSingle
  rw [if_neg (by simp)]
  have : Gen.Fmt.flagSingle = 0 := rfl
  rw [this, Requests.frameSetData_ok 0 ch (by omega) hc, ok_bind]
  rfl

theorem frameSetAll_eq (id : Nat) (x : Byte) :
    frameSetAll c id [x] = c.frameCreate id (some [2, 0, x]) := by
  unfold frameSetAll
  rw [if_neg (by simp)]
  have : Gen.Fmt.flagAll = 2 := rfl
  rw [this]
  have := Requests.frameSetData_ok 2 0 (by omega) (by omega)
  rw [show ((0 : Nat) : Int) = 0 from rfl] at this
  rw [this, ok_bind]
  rfl

theorem frameSetBulk_eq (id : Nat) (d : Bytes) (h1 : 1 ≤ d.length) :
    frameSetBulk c id d = c.frameCreate id (some (1 :: 0 :: d)) := by
  unfold frameSetBulk
  rw [if_neg (by omega)]
  have : Gen.Fmt.flagBulk = 1 := rfl
  rw [this]
  have := Requests.frameSetData_ok 1 0 (by omega) (by omega)
  rw [show ((0 : Nat) : Int) = 0 from rfl] at this
  rw [this, ok_bind]
  rfl

theorem frameEnable_single (n ch : Nat) (v : Bool) (hc : ch < n) (hn : n ≤ 255) :
    frameEnable c (.single ch v) n = c.frameCreate 6 (some (C05.specSingle ch (C05.b2n v))) := by
  show frameSetSingle c 6 [if v then 1 else 0] ch = _
  rw [Requests.bit_eq]
  exact frameSetSingle_eq c 6 ch _ (by omega)

theorem frameDiv_single (n ch v : Nat) (hc : ch < n) (hn : n ≤ 255) (hv : v ≤ 255) :
    frameDiv c (.single ch v) n = c.frameCreate 7 (some (C05.specSingle ch v)) := by
  unfold frameDiv
  simp only
  rw [Requests.byteOf_nat v hv, ok_bind]
  exact frameSetSingle_eq c 7 ch _ (by omega)

theorem frameEnable_vec (n : Nat) (vs : List Bool) (hl : vs.length = n) (h1 : 1 ≤ n) :
    frameEnable c (.vec vs) n = c.frameCreate 6 (some (C05.specVec (vs.map C05.b2n))) := by
  match vs, hl with
  | [], hl => simp at hl; omega
  | v :: vs, hl =>
    have hsv : C05.specVec ((v :: vs).map C05.b2n) = if allSame ((v :: vs).map C05.b2n) then C05.specAll (C05.b2n v)
        else C05.specBulk ((v :: vs).map C05.b2n) := rfl
    rw [hsv, Requests.allSame_map C05.b2n (fun a b h => by cases a <;> cases b <;> first | rfl | cases h)]
    unfold frameEnable
    simp only
    by_cases hs : allSame (v :: vs) = true
    · rw [if_pos hs, if_pos ⟨hl, hs⟩, Requests.bit_eq]
      exact frameSetAll_eq c 6 _
    · rw [if_neg hs, if_neg (by simp [hs]), Requests.enBulk_eq (v :: vs) n 0 (by omega), ok_bind]
      simp only [List.drop_zero, ← hl, List.take_length]
      refine (frameSetBulk_eq c 6 _ (by simp)).trans ?_
      rw [C05.specBulk, List.map_map]
      rfl

theorem frameDiv_vec (n : Nat) (vs : List Nat) (hl : vs.length = n) (h1 : 1 ≤ n) (hv : ∀ v ∈ vs, v ≤ 255) :
    frameDiv c (.vec (vs.map Int.ofNat)) n = c.frameCreate 7 (some (C05.specVec vs)) := by
  match vs, hl, hv with
  | [], hl, _ => simp at hl; omega
  | v :: vs, hl, hv =>
    have hsv : C05.specVec (v :: vs) = if allSame (v :: vs) then C05.specAll v else C05.specBulk (v :: vs) := rfl
    have hl' : ((v :: vs).map Int.ofNat).length = n := by simpa using hl
    have hall : allSame ((v :: vs).map Int.ofNat) = allSame (v :: vs) :=
      Requests.allSame_map Int.ofNat (fun a b h => Int.ofNat.inj h) _
    unfold frameDiv
    simp only
    by_cases hs : allSame (v :: vs) = true
    · rw [hsv, if_pos hs, if_pos ⟨hl', by rw [hall]; exact hs⟩]
      simp only [List.map_cons, Int.ofNat_eq_natCast]
      rw [Requests.byteOf_nat v (hv v (by simp)), ok_bind]
      exact frameSetAll_eq c 7 _
    · rw [hsv, if_neg hs, if_neg (by rw [hall]; simp [hs]), Requests.divBulk_eq (v :: vs) n 0 (by omega) hv, ok_bind]
      simp only [List.drop_zero, ← hl, List.take_length]
      exact frameSetBulk_eq c 7 _ (by simp)

/-- **C05, for every codec**: whatever the codec, the builder called for a request under C05's hypotheses
    frames exactly the NxScope payload of that request under the request's frame id — the builder
    succeeds iff the codec's `frame_create` does, and with the same bytes.  (`hn`: the codec treats the
    `None` payload of `frame_cmninfo` as empty.) -/
theorem buildWith_eq (hn : c.NoneEmpty) (r : ClientReq) (hr : r.Valid) :
    r.buildWith c = c.frameCreate r.fid (some r.payload) := by
  cases r with
  | start b => exact frameStart_eq c b
  | cmninfo => exact hn 2
  | chinfo ch => exact frameChinfo_eq c ch hr
  | enSingle n ch v => exact frameEnable_single c n ch v hr.1 hr.2
  | enVec n vs => exact frameEnable_vec c n vs hr.1 hr.2.1
  | divSingle n ch v => exact frameDiv_single c n ch v hr.1 hr.2.1 hr.2.2
  | divVec n vs => exact frameDiv_vec c n vs hr.1 hr.2.1 hr.2.2.2

end builders

/-! ### payload facts about `ClientReq` (codec-independent) -/

theorem fid_le (r : ClientReq) : r.fid ≤ 8 := by cases r <;> simp [ClientReq.fid]

theorem specVec_ne_nil (vs : List Nat) (h : vs ≠ []) : C05.specVec vs ≠ [] := by
  intro h0
  have := Compose.specVec_length vs h
  rw [h0] at this
  simp at this

/-- the payload of a valid request is short: at most 2 + 255 bytes -/
theorem payload_length_le (r : ClientReq) (hr : r.Valid) : r.payload.length ≤ 257 := by
  cases r with
  | start b => simp [ClientReq.payload]
  | cmninfo => simp [ClientReq.payload]
  | chinfo ch => simp [ClientReq.payload]
  | enSingle n ch v => simp [ClientReq.payload, C05.specSingle]
  | divSingle n ch v => simp [ClientReq.payload, C05.specSingle]
  | enVec n vs =>
    have hne : vs.map C05.b2n ≠ [] := by
      intro h; rw [List.map_eq_nil_iff] at h; subst h; have := hr.1; have := hr.2.1; simp at *; omega
    have := Compose.specVec_length _ hne
    rw [List.length_map] at this
    have h1 := hr.1; have h2 := hr.2.2
    simp only [ClientReq.payload]; omega
  | divVec n vs =>
    have hne : vs ≠ [] := by intro h; subst h; have := hr.1; have := hr.2.1; simp at *; omega
    have := Compose.specVec_length _ hne
    have h1 := hr.1; have h2 := hr.2.2.1
    simp only [ClientReq.payload]; omega

theorem cb_cmninfo : cbHandle 2 [] = .fired 0 [] := by decide
theorem cb_chinfo (x : Byte) : cbHandle 3 [x] = .fired 1 [x] := by
  simp [cbHandle, Gen.Recv.cbTable, Gen.Ids.idCMNINFO, Gen.Ids.idCHINFO, List.find?]
theorem cb_start (b : Byte) : cbHandle 5 [b] = .fired 4 [b] := by
  simp [cbHandle, Gen.Recv.cbTable, Gen.Ids.idCMNINFO, Gen.Ids.idCHINFO, Gen.Ids.idSTART, List.find?]
theorem cb_enable (p : Bytes) (h : p ≠ []) : cbHandle 6 p = .fired 2 p := by
  have : p.length ≠ 0 := by simpa using h
  simp [cbHandle, Gen.Recv.cbTable, Gen.Ids.idCMNINFO, Gen.Ids.idCHINFO, Gen.Ids.idSTART, Gen.Ids.idENABLE,
    List.find?, this]
theorem cb_div (p : Bytes) (h : p ≠ []) : cbHandle 7 p = .fired 3 p := by
  have : p.length ≠ 0 := by simpa using h
  simp [cbHandle, Gen.Recv.cbTable, Gen.Ids.idCMNINFO, Gen.Ids.idCHINFO, Gen.Ids.idSTART, Gen.Ids.idENABLE,
    Gen.Ids.idDIV, List.find?, this]

/-- the callback table (regenerated from `_recv_cb_handle`) sends the request's id and payload to the
    request's callback: the length assertions of `_recv_cb_*` hold for every valid request -/
theorem cb_of (r : ClientReq) (hr : r.Valid) : cbHandle r.fid r.payload = .fired r.cb r.payload := by
  cases r with
  | start b => exact cb_start _
  | cmninfo => exact cb_cmninfo
  | chinfo ch => exact cb_chinfo _
  | enSingle n ch v => exact cb_enable _ (by simp [ClientReq.payload, C05.specSingle])
  | divSingle n ch v => exact cb_div _ (by simp [ClientReq.payload, C05.specSingle])
  | enVec n vs =>
    refine cb_enable _ (specVec_ne_nil _ ?_)
    intro h; rw [List.map_eq_nil_iff] at h; subst h; have := hr.1; simp at this; have := hr.2.1; omega
  | divVec n vs =>
    refine cb_div _ (specVec_ne_nil _ ?_)
    intro h; subst h; have := hr.1; simp at this; have := hr.2.1; omega

/-! ## 2. a created frame at the device-side dispatcher (C17 ∘ C02 for every lawful codec) -/

section dispatch
variable {c : Codec} (hc : LawfulCodec c)
include hc

/-- a frame built by `frame_create` of the codec is dispatched on exactly (id, payload), whatever
    start-byte-free bytes precede it and whatever follows it -/
theorem created_dispatched (fid : Nat) (p f pre post : Bytes)
    (hcr : c.frameCreate fid (some p) = .ok f) (hid : fid ≤ 8) (hpre : ∀ b ∈ pre, b ≠ c.sof) :
    recvHandleWith c (pre ++ f ++ post) = cbHandle fid p := by
  obtain ⟨hdec, h, hh, _⟩ := hc.frameCreate_decode fid p f hcr hid
  have hf0 : c.hdrFind f = some 0 := Reasm.hdrFind_of_hdr hc hh
  rw [Dispatch.recvHandleWith_eq hc, hc.hdrFind_eq, List.append_assoc,
    findByte_append_of_not_mem c.sof pre (f ++ post) hpre]
  have hf1 : findByte c.sof (f ++ post) = some 0 := by
    rw [hc.hdrFind_eq] at hf0
    cases f with
    | nil => simp [findByte] at hf0
    | cons x xs =>
      have := findByte_some hf0
      simp at this
      rw [List.cons_append, this, findByte_cons_self]
  rw [hf1]
  simp only [Option.map]
  have e : (pre ++ (f ++ post)).drop (0 + pre.length) = f ++ post := by simp
  rw [e, Dispatch.frameDecode_append hc f post _ hdec]

/-- … hence, written through the interface with any write padding, it fires the callback the table
    selects, with exactly the payload -/
theorem created_reaches_callback (pad fid cb : Nat) (pl f : Bytes)
    (hcr : c.frameCreate fid (some pl) = .ok f) (hf : fid ≤ 8) (hcb : cbHandle fid pl = .fired cb pl) :
    recvHandleWith c (Pad.dataAlign pad f) = .fired cb pl := by
  obtain ⟨k, _, _, hk⟩ := Pad.dataAlign_spec pad f
  have := created_dispatched hc fid pl f [] (List.replicate k 0) hcr hf (by simp)
  rw [List.nil_append] at this
  rw [hk, this, hcb]

/-- **request → callback, for every lawful codec**: whatever `Parser(frame=cls)` built for a valid
    request, written with any write padding, fires at `ParseRecv(cb, frame=cls)` exactly the matching
    callback with exactly the NxScope payload -/
theorem request_reaches_callback (hn : c.NoneEmpty) (r : ClientReq) (hr : r.Valid) (pad : Nat) (f : Bytes)
    (hb : r.buildWith c = .ok f) :
    recvHandleWith c (Pad.dataAlign pad f) = .fired r.cb r.payload := by
  rw [buildWith_eq c hn r hr] at hb
  exact created_reaches_callback hc pad r.fid r.cb r.payload f hb (fid_le r) (cb_of r hr)

end dispatch

/-! ## 3. a created frame on the client receive path (C03 for every lawful codec) -/

/-- frames that are valid back-to-back frames in the sense of C03: each decodes to its second
    component and its header declares exactly its length -/
def ValidFrames (c : Codec) (fs : List (Bytes × Frame)) : Prop :=
  ∀ q ∈ fs, c.frameDecode q.1 = .ok q.2 ∧ ∃ h, c.hdrDecode q.1 = .ok h ∧ h.flen = q.1.length

theorem validFrames_nil (c : Codec) : ValidFrames c [] := fun _ hq => absurd hq List.not_mem_nil

/-- the concatenated bytes of a list of frames -/
def wireOfFrames (fs : List (Bytes × Frame)) : Bytes := (fs.map (·.1)).flatten

section reasm
variable {c : Codec} (hc : LawfulCodec c)
include hc

/-- a frame created by the codec, sent between other valid frames (`before`, `after`), is delivered
    once, in place, with exactly its id and payload, under every chunking of the byte stream -/
theorem created_between (fid : Nat) (p f : Bytes) (hcr : c.frameCreate fid (some p) = .ok f) (hid : fid ≤ 8)
    (before after : List (Bytes × Frame)) (hb : ValidFrames c before) (ha : ValidFrames c after)
    (chunks : List Bytes) (hch : chunks.flatten = wireOfFrames before ++ f ++ wireOfFrames after) :
    Reasm.run c chunks = before.map (·.2) ++ ⟨fid, p⟩ :: after.map (·.2) := by
  obtain ⟨h1, h2⟩ := hc.frameCreate_decode fid p f hcr hid
  have hv : ∀ q ∈ before ++ (f, (⟨fid, p⟩ : Frame)) :: after,
      c.frameDecode q.1 = .ok q.2 ∧ ∃ h, c.hdrDecode q.1 = .ok h ∧ h.flen = q.1.length := by
    intro q hq
    rcases List.mem_append.mp hq with hq | hq
    · exact hb q hq
    · rcases List.mem_cons.mp hq with rfl | hq
      · exact ⟨h1, h2⟩
      · exact ha q hq
  have := C03.back_to_back_run c hc (before ++ (f, ⟨fid, p⟩) :: after) chunks hv (by
    rw [hch]; simp [wireOfFrames])
  rw [this]
  simp

/-- the frame alone -/
theorem created_alone (fid : Nat) (p f : Bytes) (hcr : c.frameCreate fid (some p) = .ok f) (hid : fid ≤ 8)
    (chunks : List Bytes) (hch : chunks.flatten = f) : Reasm.run c chunks = [⟨fid, p⟩] := by
  have := created_between hc fid p f hcr hid [] [] (validFrames_nil c) (validFrames_nil c) chunks
    (by simp [wireOfFrames, hch])
  simpa using this

end reasm

/-! ## 4. device responses: what the client learns is the device's configuration (C06, generic) -/

section responses
variable {c : Codec} (hc : LawfulCodec c)
include hc

/-- common info: whatever `ParseRecv(cb, frame=cls).frame_cmninfo_encode` returned for one-byte values
    `(chmax, flags, rxpadding)` is, between any other valid frames and under any chunking of the reads,
    delivered by the client receive path as one frame that `frame_cmninfo_decode` decodes to exactly these
    three values -/
theorem cmninfo_response (chmax flags rxp : Nat) (h1 : chmax ≤ 255) (h2 : flags ≤ 255) (h3 : rxp ≤ 255)
    (ans : Bytes) (he : cmninfoEncode c chmax flags rxp = .ok ans)
    (before after : List (Bytes × Frame)) (hb : ValidFrames c before) (ha : ValidFrames c after)
    (chunks : List Bytes) (hch : chunks.flatten = wireOfFrames before ++ ans ++ wireOfFrames after) :
    ∃ fr : Frame, Reasm.run c chunks = before.map (·.2) ++ fr :: after.map (·.2) ∧
      Info.cmninfoDecode fr = .ok (some (chmax, flags, rxp)) := by
  unfold cmninfoEncode at he
  rw [Info.cmninfoData_eq chmax flags rxp h1 h2 h3, ok_bind] at he
  refine ⟨_, created_between hc 2 _ ans he (by omega) before after hb ha chunks hch, ?_⟩
  rw [Info.cmninfoDecode_three, Info.ofNat8_toNat _ h1, Info.ofNat8_toNat _ h2, Info.ofNat8_toNat _ h3]

/-- channel info: the same for a configuration `⟨en, type, vdim, div, mlen, name⟩` (C06's hypotheses: one-byte
    fields, the name is the UTF-8 encoding of a text without NUL;
    that the name fits a frame is part of `he`: the codec did create the frame) -/
theorem chinfo_response (en : Bool) (ty vdim div mlen : Nat) (name : Bytes)
    (ht : ty ≤ 255) (hv : vdim ≤ 255) (hd : div ≤ 255) (hm : mlen ≤ 255) (hnul : ∀ b ∈ name, b ≠ 0)
    (hutf : Info.validUtf8 name = true)
    (ans : Bytes) (he : chinfoEncode c ⟨en, ty, vdim, div, mlen, name⟩ = .ok ans)
    (before after : List (Bytes × Frame)) (hb : ValidFrames c before) (ha : ValidFrames c after)
    (chunks : List Bytes) (hch : chunks.flatten = wireOfFrames before ++ ans ++ wireOfFrames after) :
    ∃ fr : Frame, Reasm.run c chunks = before.map (·.2) ++ fr :: after.map (·.2) ∧
      Info.chinfoDecode fr = .ok (some ⟨en, ty, vdim, div, mlen, name⟩) := by
  unfold chinfoEncode at he
  rw [Info.chinfoData_eq en ty vdim div mlen name ht hv hd hm, ok_bind] at he
  refine ⟨_, created_between hc 3 _ ans he (by omega) before after hb ha chunks hch, ?_⟩
  rw [Info.chinfoDecode_valid _ _ _ _ _ _ hutf, Info.cstr_no_nul name hnul, Info.ofNat8_toNat _ ht, Info.ofNat8_toNat _ hv,
    Info.ofNat8_toNat _ hd, Info.ofNat8_toNat _ hm]
  cases en <;> rfl

/-- ACK: the return code `r` (32-bit) the device acknowledges with arrives as success exactly when it is 0 -/
theorem ack_response (r : Int) (hlo : -2147483648 ≤ r) (hhi : r ≤ 2147483647)
    (ans : Bytes) (he : ackEncode c r = .ok ans)
    (before after : List (Bytes × Frame)) (hb : ValidFrames c before) (ha : ValidFrames c after)
    (chunks : List Bytes) (hch : chunks.flatten = wireOfFrames before ++ ans ++ wireOfFrames after) :
    ∃ fr : Frame, Reasm.run c chunks = before.map (·.2) ++ fr :: after.map (·.2) ∧
      Info.ackDecode fr = .ok (some (if r = 0 then (true, 0) else (false, r))) := by
  have hdata : Info.ackData r = .ok (leBytes 4 (r % 4294967296).toNat) := by
    unfold Info.ackData pack
    have hbe : Gen.Fmt.ackEnc.be = false := rfl
    rw [Info.ackEnc_atoms, hbe, packAtoms_cons_ok (Info.packAtom_i_le 4 r hlo hhi) rfl, List.append_nil]
  unfold ackEncode at he
  rw [hdata, ok_bind] at he
  refine ⟨_, created_between hc 4 _ ans he (by omega) before after hb ha chunks hch, ?_⟩
  rw [Info.ackDecode_four _ (by simp), Info.unpackS_i32le r hlo hhi]

end responses

/-! ## 5. the stream: device encoder → link → reassembly → client decoder (C15 ∘ C03, generic) -/

open Nxs.Stream (Sample Chan UserType)

/-- what the client must obtain for a batch: flags 0 and the samples that carry data or metadata,
    in the client's representation, in device order -/
def expected (user : List UserType) (b : List Sample) : Except Err (Option (Nat × List Sample)) :=
  .ok (some (0, (b.filter carries).map (decodedForm user)))

/-- glue: a frame produced by `frame_stream_encode` is `frame_create STREAM` of the stream payload -/
theorem encode_inv (c : Codec) (user : List UserType) (ss : List Sample) (f : Bytes)
    (h : frameStreamEncode c user ss = .ok (some f)) :
    ∃ p, Stream.streamDataEncode user ss = .ok (some p) ∧ c.frameCreate 1 (some p) = .ok f := by
  unfold frameStreamEncode at h
  cases hd : Stream.streamDataEncode user ss with
  | error e => rw [hd] at h; cases h
  | ok o =>
    rw [hd, ok_bind] at h
    cases o with
    | none => cases h
    | some p =>
      refine ⟨p, rfl, ?_⟩
      have hid : Gen.Ids.idSTREAM = 1 := rfl
      simp only [hid, frameWith] at h
      cases hc : c.frameCreate 1 (some p) with
      | error e => rw [hc] at h; cases h
      | ok f' => rw [hc, ok_bind] at h; cases h; rfl

section stream
variable {c : Codec} (hc : LawfulCodec c)
include hc

/-- C15 ∘ `frameCreate_decode`: the frame of one batch is a valid back-to-back frame in the sense of
    C03, and the frame it decodes to yields the batch -/
theorem batch_frame (user : List UserType) (L : List Chan) (b : List Sample) (f : Bytes)
    (hrep : ∀ s ∈ b, Representable user s) (hL : LayoutAgrees L b) (hne : ∃ s ∈ b, carries s = true)
    (he : frameStreamEncode c user b = .ok (some f)) :
    ∃ fr, c.frameDecode f = .ok fr ∧ (∃ h, c.hdrDecode f = .ok h ∧ h.flen = f.length) ∧
      Stream.frameStreamDecode L user fr = expected user b := by
  obtain ⟨p, hp, hcr⟩ := encode_inv c user b f he
  obtain ⟨p', hp', hd⟩ := C15.stream_roundtrip user L b hrep hL hne
  have hpp : p' = p := by
    have := hp'.symm.trans hp
    injection this with this
    injection this
  subst hpp
  obtain ⟨h1, h2⟩ := hc.frameCreate_decode 1 p' f hcr (by omega)
  refine ⟨⟨1, p'⟩, h1, h2, ?_⟩
  unfold Stream.frameStreamDecode
  rw [if_neg (by simp [Gen.Ids.idSTREAM])]
  exact hd

theorem batches_frames (user : List UserType) (L : List Chan) (bs : List (List Sample)) (fs : List Bytes)
    (hrep : ∀ b ∈ bs, ∀ s ∈ b, Representable user s) (hL : ∀ b ∈ bs, LayoutAgrees L b)
    (hne : ∀ b ∈ bs, ∃ s ∈ b, carries s = true)
    (hfs : bs.map (frameStreamEncode c user) = fs.map fun f => .ok (some f)) :
    ∃ fps : List (Bytes × Frame), fps.map (·.1) = fs ∧ ValidFrames c fps ∧
      (fps.map (·.2)).map (Stream.frameStreamDecode L user) = bs.map (expected user) := by
  induction bs generalizing fs with
  | nil =>
    cases fs with
    | nil => exact ⟨[], rfl, validFrames_nil c, rfl⟩
    | cons _ _ => simp at hfs
  | cons b bs ih =>
    cases fs with
    | nil => simp at hfs
    | cons f fs =>
      simp only [List.map_cons, List.cons.injEq] at hfs
      obtain ⟨fr, h1, h2, h3⟩ := batch_frame hc user L b f (hrep b (by simp)) (hL b (by simp))
        (hne b (by simp)) hfs.1
      obtain ⟨fps, g1, g2, g3⟩ := ih fs (fun b' hb => hrep b' (by simp [hb]))
        (fun b' hb => hL b' (by simp [hb])) (fun b' hb => hne b' (by simp [hb])) hfs.2
      refine ⟨(f, fr) :: fps, by simp [g1], ?_, by simp [h3, g3]⟩
      intro x hx
      rcases List.mem_cons.mp hx with rfl | hx
      · exact ⟨h1, h2⟩
      · exact g2 x hx

/-- **stream pipeline, for every lawful codec**: the device encodes the batches `bs` with
    `ParseRecv(cb, frame=cls).frame_stream_encode` (frame `fᵢ` for batch `bᵢ` — that the codec could
    frame them is `hfs`), the bytes travel over a link that cuts them into arbitrary reads, the client
    receive path with `Parser(frame=cls)` reassembles and `frame_stream_decode` decodes: the client
    obtains, frame by frame, exactly the samples of each batch that carry data or metadata -/
theorem stream_pipeline (user : List UserType) (L : List Chan) (bs : List (List Sample)) (fs : List Bytes)
    (chunks : List Bytes)
    (hrep : ∀ b ∈ bs, ∀ s ∈ b, Representable user s) (hL : ∀ b ∈ bs, LayoutAgrees L b)
    (hne : ∀ b ∈ bs, ∃ s ∈ b, carries s = true)
    (hfs : bs.map (frameStreamEncode c user) = fs.map fun f => .ok (some f))
    (hch : chunks.flatten = fs.flatten) :
    (Reasm.run c chunks).map (Stream.frameStreamDecode L user) = bs.map (expected user) := by
  obtain ⟨fps, g1, g2, g3⟩ := batches_frames hc user L bs fs hrep hL hne hfs
  rw [C03.back_to_back_run c hc fps chunks g2 (by rw [hch, g1]), g3]

end stream

/-! ## 6. the built-in codec: `frameWith Serial.codec` is the NxScope wire frame -/

/-- with the built-in codec `frameWith` is C01's wire frame: the generic theorems at `Serial.codec`
    speak about the same bytes as the theorems of `Props/E2E.lean` -/
theorem serial_frameWith_eq_wire (fid : Nat) (p : Bytes) (hp : p.length ≤ 65529) (hf : fid ≤ 255) :
    frameWith Serial.codec fid p = .ok (wire fid p) := by
  rw [serial_frameWith]
  exact Serial.frameCreate_eq fid p hp hf

theorem serial_noneEmpty : Serial.codec.NoneEmpty := fun _ => rfl

/-- E2E `request_reaches_callback`, obtained as the `Serial.codec` instance of the generic theorem -/
theorem serial_request_reaches_callback (r : ClientReq) (hr : r.Valid) (pad : Nat) :
    ∃ f, r.build = .ok f ∧ Dispatch.recvHandle (Pad.dataAlign pad f) = .fired r.cb r.payload := by
  have hb : r.buildWith Serial.codec = .ok (wire r.fid r.payload) := by
    rw [buildWith_eq Serial.codec serial_noneEmpty r hr]
    exact serial_frameWith_eq_wire r.fid r.payload (by have := payload_length_le r hr; omega)
      (by have := fid_le r; omega)
  refine ⟨_, by rw [← ClientReq.buildWith_serial]; exact hb, ?_⟩
  rw [Dispatch.recvHandle_eq_with]
  exact request_reaches_callback Serial.codec_lawful serial_noneEmpty r hr pad _ hb

/-! ## 7. the family -/

theorem family_noneEmpty (p : Family.Params) : (Family.codec p).NoneEmpty := fun _ => rfl

/-- a family member frames every payload that fits its length field (ids 0..255) -/
theorem family_create_ok (p : Family.Params) (fid : Nat) (pl : Bytes) (hfid : fid ≤ 255)
    (hfit : Family.fits p.fields (Family.hdrLen p + pl.length + p.foot.len) = true) :
    ∃ f, (Family.codec p).frameCreate fid (some pl) = .ok f := by
  refine ⟨Family.body p fid pl ++ Family.check p.foot (Family.body p fid pl), ?_⟩
  show Family.frameCreate p fid (some pl) = _
  unfold Family.frameCreate
  rw [if_neg (by omega)]
  simp only [Option.getD_some, hfit, Bool.not_true, Bool.false_eq_true, if_false]

/-- a total length below 256 fits every admissible length field (1..4 bytes) -/
theorem fits_of_lt_256 : ∀ (fs : List Family.Field) (v : Nat), v < 256 → fs.all Family.Field.ok = true →
    Family.fits fs v = true := by
  intro fs
  induction fs with
  | nil => intro v _ _; rfl
  | cons f fs ih =>
    intro v hv hok
    simp only [List.all_cons, Bool.and_eq_true] at hok
    cases f with
    | len n be =>
      simp only [Family.Field.ok, Bool.and_eq_true, decide_eq_true_eq] at hok
      simp only [Family.fits, Bool.and_eq_true, decide_eq_true_eq]
      refine ⟨?_, ih v hv hok.2⟩
      have : 256 ^ 1 ≤ 256 ^ n := Nat.pow_le_pow_right (by omega) hok.1.1
      omega
    | fid => exact ih v hv hok.2
    | fill b => exact ih v hv hok.2

/-- every valid family member frames every payload of up to 243 bytes (header ≤ 8, footer ≤ 4) -/
theorem family_create_small (p : Family.Params) (hp : p.valid) (fid : Nat) (pl : Bytes) (hfid : fid ≤ 255)
    (hpl : pl.length ≤ 243) : ∃ f, (Family.codec p).frameCreate fid (some pl) = .ok f := by
  obtain ⟨_, _, hok, _, h8, hf⟩ := hp
  have hfl : p.foot.len ≤ 4 := by
    cases hfo : p.foot with
    | xor => simp [Family.Foot.len]
    | sum k be => rw [hfo] at hf; simp [Family.Foot.ok] at hf; simp [Family.Foot.len]; omega
    | crc32 be => simp [Family.Foot.len]
  exact family_create_ok p fid pl hfid (fits_of_lt_256 _ _ (by omega) hok)

end Nxs.Generic
