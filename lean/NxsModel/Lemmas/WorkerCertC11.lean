/-
  C13 certificate of the product "model × history counters" (`Worker.lean`: `RC`, `certifiedC`) for the
  callback configuration init=true, final=true (own module: the four kernel evaluations run in parallel and
  rebuild only when `Gen/Thread.lean` changes): the computed set `RC c` contains the initial state, is
  closed under `stepC`, and in every state of it in which a `thread_stop` call made on a started worker is
  about to return, init and final have each been called exactly once (zero times if absent) in that run.
-/
import NxsModel.Worker
namespace Nxs.Worker

theorem certC_tt : certifiedC ⟨true, true⟩ (RC ⟨true, true⟩) = true := by decide +kernel

end Nxs.Worker
