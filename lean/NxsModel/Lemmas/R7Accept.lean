/-
  Round 7 (C02): the footer of an accepted frame is determined by the bytes before it, hence every
  accepted byte string IS an emitted frame (`Spec.wire`) followed by bytes the decoder never looks at.
  Route: linearity of the register (`crcReg_xor`) reduces "two footers with residue 0" to "a two-byte
  string with CRC 0", and a 16-bit string is a burst of at most 16 bits (`rem_ne_zero_of_burst`).
-/
import NxsModel.Lemmas.Accept
import NxsModel.Lemmas.CrcDetect
namespace Nxs
open Nxs.Spec

theorem byteBits_count_zero_fin :
    ∀ n : Fin 256, (byteBits (BitVec.ofFin n)).count true = 0 → BitVec.ofFin n = (0 : Byte) := by
  decide +kernel

theorem byteBits_count_zero (x : Byte) (h : (byteBits x).count true = 0) : x = 0 :=
  byteBits_count_zero_fin x.toFin h

/-- a two-byte string with CRC 0 is the zero string -/
theorem crc16xmodem_pair_zero (x y : Byte) (h : crc16xmodem [x, y] = 0) : x = 0 ∧ y = 0 := by
  rw [crc16xmodem_eq_zero_iff] at h
  have hb : bitsOf [x, y] = byteBits x ++ byteBits y := by simp [bitsOf]
  by_cases hc : (bitsOf [x, y]).count true = 0
  · rw [hb, List.count_append] at hc
    exact ⟨byteBits_count_zero x (by omega), byteBits_count_zero y (by omega)⟩
  · exfalso
    refine rem_ne_zero_of_burst _ hc ?_ h
    have : (bitsOf [x, y]).length = 16 := by rw [bitsOf_length]; rfl
    omega

/-- **footer uniqueness**: if `m` followed by two bytes has CRC residue 0, the two bytes are the
    big-endian CRC of `m` — for every `m` (no length bound) -/
theorem footer_unique (m : Bytes) (a b : Byte) (h : crc16xmodem (m ++ [a, b]) = 0) :
    a = hiByte (crc16xmodem m) ∧ b = loByte (crc16xmodem m) := by
  unfold crc16xmodem at h ⊢
  rw [crcReg_append] at h
  generalize crcReg 0x1021 0 m = c at h ⊢
  have hx : xorBytes [hiByte c, loByte c] [a ^^^ hiByte c, b ^^^ loByte c] = [a, b] := by
    have hc8 : ∀ p x : Byte, p ^^^ (x ^^^ p) = x := by
      intro p x; rw [BitVec.xor_comm x, ← BitVec.xor_assoc, BitVec.xor_self, BitVec.zero_xor]
    simp [xorBytes, hc8]
  have key := crcReg_xor 0x1021 [hiByte c, loByte c] [a ^^^ hiByte c, b ^^^ loByte c] rfl c 0
  have hc0 : c ^^^ 0 = c := by simp
  rw [hc0, hx, crc_residue_reg, h] at key
  have h2 : crc16xmodem [a ^^^ hiByte c, b ^^^ loByte c] = 0 := by
    unfold crc16xmodem; simpa using key.symm
  obtain ⟨h3, h4⟩ := crc16xmodem_pair_zero _ _ h2
  exact ⟨BitVec.xor_eq_zero_iff.1 h3, BitVec.xor_eq_zero_iff.1 h4⟩

attribute [local irreducible] crc16xmodem

/-- every accepted byte string is the emitted frame of its (id, payload) followed by the bytes beyond the
    declared length -/
theorem Accept_is_wire (d : Bytes) (fid : Nat) (pl : Bytes) (h : Accept d fid pl) :
    d = wire fid pl ++ d.drop (flen d) ∧ flen d = pl.length + 6 := by
  obtain ⟨h4, _, _, _, _, _, _, _⟩ := id h
  match d, h4 with
  | a :: b :: c :: e :: rest, _ =>
    have hf : flen (a :: b :: c :: e :: rest) = b.toNat + 256 * c.toNat := by simp [flen]
    rw [Serial.Accept_cons] at h
    rw [hf]
    obtain ⟨ha, he, h8, h6, hl, hc, hp⟩ := h
    obtain ⟨k, hk⟩ : ∃ k, b.toNat + 256 * c.toNat = k + 6 := ⟨b.toNat + 256 * c.toNat - 6, by omega⟩
    rw [hk] at hl hc hp ⊢
    have hrl : k + 2 ≤ rest.length := by simp at hl; omega
    have hpl : pl = rest.take k := by
      rw [hp]; simp
    have hplen : pl.length = k := by rw [hpl, List.length_take]; omega
    have htail : ∃ x y, (rest.drop k).take 2 = [x, y] := by
      have : ((rest.drop k).take 2).length = 2 := by simp; omega
      match hq : (rest.drop k).take 2, this with
      | [x, y], _ => exact ⟨x, y, rfl⟩
    obtain ⟨x, y, hxy⟩ := htail
    have htk : rest.take (k + 2) = pl ++ [x, y] := by
      rw [List.take_add, ← hpl, hxy]
    have hT : (a :: b :: c :: e :: rest).take (k + 6) = (a :: b :: c :: e :: pl) ++ [x, y] := by
      show a :: b :: c :: e :: rest.take (k + 2) = _
      rw [htk]; rfl
    rw [hT] at hc
    obtain ⟨hx, hy⟩ := footer_unique _ _ _ hc
    have hb : b = BitVec.ofNat 8 (pl.length + 6) := by
      apply BitVec.eq_of_toNat_eq; simp; omega
    have hcc : c = BitVec.ofNat 8 ((pl.length + 6) / 256) := by
      apply BitVec.eq_of_toNat_eq; simp; omega
    have hee : e = BitVec.ofNat 8 fid := by
      apply BitVec.eq_of_toNat_eq; simp; omega
    have hpre : a :: b :: c :: e :: pl = wirePrefix fid pl := by
      rw [ha, hb, hcc, hee]; rfl
    refine ⟨?_, by omega⟩
    rw [Serial.wire_eq, ← hiByte_eq, ← loByte_eq, ← hpre, ← hx, ← hy, ← hT]
    exact (List.take_append_drop _ _).symm

end Nxs
