/-
  Info: device-side encoders of the common-info / channel-info / ACK responses
  (`ParseRecv.frame_cmninfo_encode/frame_chinfo_encode/frame_ack_encode`), the client-side
  decoders (`Parser.frame_cmninfo_decode/frame_chinfo_decode/frame_ack_decode`) and the derived
  attributes of `DDeviceChannelData` / `DDeviceData` (masks from `Gen.Record`).
  Names are byte strings on the wire.  The client decodes the WHOLE name field as strict UTF-8
  (`_str.decode()`, CPython's default codec and error handler) before it cuts at the first NUL:
  `validUtf8` is that decoder's acceptance condition, a field that is not well-formed UTF-8 makes
  the decoder raise `UnicodeDecodeError` (`Err.unicodeError`), wherever the bad bytes are.
  The device side encodes a text (`bytes(name, "utf-8")`): `utf8Encode` on code points.
-/
import NxsModel.Serial
import NxsModel.Gen.Fmt
import NxsModel.Gen.Record
namespace Nxs
namespace Info
open Gen.Ids

/-- the configurable part of a channel description -/
structure ChanCfg where
  en : Bool
  type : Int        -- the 8-bit type byte `_type`
  vdim : Int
  div : Int
  mlen : Int
  name : Bytes      -- UTF-8 bytes of the name
  deriving DecidableEq, Repr

/-- derived attributes (`DDeviceChannelData.__post_init__`) -/
def dtypeOf (t : Nat) : Nat := t &&& Gen.Record.dtypeMask
def criticalOf (t : Nat) : Bool := (t &&& Gen.Record.criticalMask) ≠ 0
def typeResOf (t : Nat) : Nat := t &&& Gen.Record.typeResMask
def isValidOf (t : Nat) : Bool := dtypeOf t ≠ Gen.Record.undefType
def isNumericalOf (t : Nat) : Bool := !(Gen.Record.nonNumerical.contains (dtypeOf t))
def divSupported (flags : Nat) : Bool := (flags &&& Gen.Record.divFlag) ≠ 0
def ackSupported (flags : Nat) : Bool := (flags &&& Gen.Record.ackFlag) ≠ 0

/-! ### UTF-8 (CPython's strict decoder / encoder) -/

/-- continuation byte `10xxxxxx` -/
def isCont (b : Byte) : Bool := 0x80 ≤ b.toNat && b.toNat ≤ 0xBF

/-- does the strict UTF-8 decoder (`bytes.decode()`) accept the byte string?  Well-formed UTF-8
    (Unicode table 3-7): no overlong forms (`C0`, `C1`, `E0 80..9F`, `F0 80..8F`), no surrogates
    (`ED A0..BF`), nothing above U+10FFFF (`F4 90..`, `F5..FF`), no truncated sequence, no stray
    continuation byte. -/
def validUtf8 : Bytes → Bool
  | [] => true
  | b0 :: rest =>
    let v := b0.toNat
    if v < 0x80 then validUtf8 rest
    else if v < 0xC2 then false
    else if v < 0xE0 then
      match rest with
      | b1 :: r => isCont b1 && validUtf8 r
      | _ => false
    else if v < 0xF0 then
      match rest with
      | b1 :: b2 :: r =>
        isCont b1 && isCont b2 && (v != 0xE0 || 0xA0 ≤ b1.toNat) && (v != 0xED || b1.toNat < 0xA0)
          && validUtf8 r
      | _ => false
    else if v < 0xF5 then
      match rest with
      | b1 :: b2 :: b3 :: r =>
        isCont b1 && isCont b2 && isCont b3 && (v != 0xF0 || 0x90 ≤ b1.toNat)
          && (v != 0xF4 || b1.toNat < 0x90) && validUtf8 r
      | _ => false
    else false

/-- is the number a Unicode scalar value (what a Python `str` element that can be encoded is)? -/
def isScalar (c : Nat) : Bool := c < 0xD800 || (0xE000 ≤ c && c < 0x110000)

/-- the UTF-8 bytes of one scalar value -/
def utf8Char (c : Nat) : Bytes :=
  if c < 0x80 then [BitVec.ofNat 8 c]
  else if c < 0x800 then [BitVec.ofNat 8 (0xC0 + c / 64), BitVec.ofNat 8 (0x80 + c % 64)]
  else if c < 0x10000 then
    [BitVec.ofNat 8 (0xE0 + c / 4096), BitVec.ofNat 8 (0x80 + c / 64 % 64), BitVec.ofNat 8 (0x80 + c % 64)]
  else
    [BitVec.ofNat 8 (0xF0 + c / 262144), BitVec.ofNat 8 (0x80 + c / 4096 % 64),
     BitVec.ofNat 8 (0x80 + c / 64 % 64), BitVec.ofNat 8 (0x80 + c % 64)]

/-- `bytes(text, "utf-8")` of a text given by its code points; a lone surrogate (or a number that
    is no code point) cannot be encoded: `UnicodeEncodeError` -/
def utf8Encode : List Nat → Except Err Bytes
  | [] => .ok []
  | c :: cs =>
    if isScalar c then (utf8Encode cs).bind fun r => .ok (utf8Char c ++ r) else .error .unicodeError

/-! ### device side -/

def cmninfoData (chmax flags rxpadding : Int) : Except Err Bytes :=
  pack Gen.Fmt.cmninfoEnc [.int chmax, .int flags, .int rxpadding]

def cmninfoEncode (chmax flags rxpadding : Int) : Except Err Bytes :=
  (cmninfoData chmax flags rxpadding).bind fun b => Serial.frameCreate idCMNINFO (some b)

def chinfoData (c : ChanCfg) : Except Err Bytes :=
  pack (Gen.Fmt.chinfoEnc c.name.length)
    [.bool c.en, .int c.type, .int c.vdim, .int c.div, .int c.mlen, .bytes c.name]

def chinfoEncode (c : ChanCfg) : Except Err Bytes :=
  (chinfoData c).bind fun b => Serial.frameCreate idCHINFO (some b)

/-- the encoder as the device calls it: the name is a text (code points) -/
def chinfoEncodeText (en : Bool) (type vdim div mlen : Int) (text : List Nat) : Except Err Bytes :=
  (utf8Encode text).bind fun name => chinfoEncode ⟨en, type, vdim, div, mlen, name⟩

def ackData (r : Int) : Except Err Bytes := pack Gen.Fmt.ackEnc [.int r]

def ackEncode (r : Int) : Except Err Bytes :=
  (ackData r).bind fun b => Serial.frameCreate idACK (some b)

/-! ### client side -/

/-- `Parser.frame_cmninfo_decode`: `none` when the frame is not a CMNINFO frame -/
def cmninfoDecode (fr : Serial.Frame) : Except Err (Option (Nat × Nat × Nat)) :=
  if fr.fid ≠ idCMNINFO then .ok none
  else
    match unpack Gen.Fmt.cmninfoDec (slice fr.data 0 3) with
    | .ok [.int a, .int b, .int c] => .ok (some (a.toNat, b.toNat, c.toNat))
    | .ok _ => .error .structError
    | .error e => .error e

/-- text up to the first NUL: `.split("\x00")[0]`, on the UTF-8 bytes (in well-formed UTF-8 the
    byte 0 occurs only as the encoding of U+0000) -/
def cstr (bs : Bytes) : Bytes := bs.takeWhile (· ≠ 0)

/-- what the client learns about a channel: `DeviceChannel(chan, _type, vdim, name, bool(en), div, mlen)` -/
structure ChanInfo where
  en : Bool
  type : Nat
  vdim : Nat
  div : Nat
  mlen : Nat
  name : Bytes
  deriving DecidableEq, Repr

/-- `Parser.frame_chinfo_decode` -/
def chinfoDecode (fr : Serial.Frame) : Except Err (Option ChanInfo) :=
  if fr.fid ≠ idCHINFO then .ok none
  else if fr.data.length < 5 then .error .structError     -- f"BBBBB{-k}s" is a bad format
  else
    match unpack (Gen.Fmt.chinfoDec (fr.data.length - 5)) fr.data with
    | .ok [.int en, .int ty, .int vdim, .int div, .int mlen, .bytes s] =>
      -- `_str.decode()` of the whole field comes first: UnicodeDecodeError also for bytes after a NUL
      if validUtf8 s then .ok (some ⟨en ≠ 0, ty.toNat, vdim.toNat, div.toNat, mlen.toNat, cstr s⟩)
      else .error .unicodeError
    | .ok _ => .error .structError
    | .error e => .error e

/-- `Parser.frame_ack_decode`: (state, retcode) -/
def ackDecode (fr : Serial.Frame) : Except Err (Option (Bool × Int)) :=
  if fr.fid ≠ idACK then .ok none
  else
    match unpack Gen.Fmt.ackDec fr.data with
    | .ok [.int r] => .ok (some (if r = 0 then (true, 0) else (false, r)))
    | .ok _ => .error .structError
    | .error e => .error e

end Info
end Nxs
