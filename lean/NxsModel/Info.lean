/-
  Info: device-side encoders of the common-info / channel-info / ACK responses
  (`ParseRecv.frame_cmninfo_encode/frame_chinfo_encode/frame_ack_encode`), the client-side
  decoders (`Parser.frame_cmninfo_decode/frame_chinfo_decode/frame_ack_decode`) and the derived
  attributes of `DDeviceChannelData` / `DDeviceData` (masks from `Gen.Record`).
  Names are byte strings (UTF-8 of the text); the harness does the text conversion.
-/
import NxsModel.Serial
import NxsModel.Gen.Fmt
import NxsModel.Gen.Record
namespace Nxs
namespace Info
open Gen.Ids

/-- the configurable part of a channel description -/
structure ChanCfg where
  en : Bool
  type : Int        -- the 8-bit type byte `_type`
  vdim : Int
  div : Int
  mlen : Int
  name : Bytes      -- UTF-8 bytes of the name
  deriving DecidableEq, Repr

/-- derived attributes (`DDeviceChannelData.__post_init__`) -/
def dtypeOf (t : Nat) : Nat := t &&& Gen.Record.dtypeMask
def criticalOf (t : Nat) : Bool := (t &&& Gen.Record.criticalMask) ≠ 0
def typeResOf (t : Nat) : Nat := t &&& Gen.Record.typeResMask
def isValidOf (t : Nat) : Bool := dtypeOf t ≠ Gen.Record.undefType
def isNumericalOf (t : Nat) : Bool := !(Gen.Record.nonNumerical.contains (dtypeOf t))
def divSupported (flags : Nat) : Bool := (flags &&& Gen.Record.divFlag) ≠ 0
def ackSupported (flags : Nat) : Bool := (flags &&& Gen.Record.ackFlag) ≠ 0

/-! ### device side -/

def cmninfoData (chmax flags rxpadding : Int) : Except Err Bytes :=
  pack Gen.Fmt.cmninfoEnc [.int chmax, .int flags, .int rxpadding]

def cmninfoEncode (chmax flags rxpadding : Int) : Except Err Bytes :=
  (cmninfoData chmax flags rxpadding).bind fun b => Serial.frameCreate idCMNINFO (some b)

def chinfoData (c : ChanCfg) : Except Err Bytes :=
  pack (Gen.Fmt.chinfoEnc c.name.length)
    [.bool c.en, .int c.type, .int c.vdim, .int c.div, .int c.mlen, .bytes c.name]

def chinfoEncode (c : ChanCfg) : Except Err Bytes :=
  (chinfoData c).bind fun b => Serial.frameCreate idCHINFO (some b)

def ackData (r : Int) : Except Err Bytes := pack Gen.Fmt.ackEnc [.int r]

def ackEncode (r : Int) : Except Err Bytes :=
  (ackData r).bind fun b => Serial.frameCreate idACK (some b)

/-! ### client side -/

/-- `Parser.frame_cmninfo_decode`: `none` when the frame is not a CMNINFO frame -/
def cmninfoDecode (fr : Serial.Frame) : Except Err (Option (Nat × Nat × Nat)) :=
  if fr.fid ≠ idCMNINFO then .ok none
  else
    match unpack Gen.Fmt.cmninfoDec (slice fr.data 0 3) with
    | .ok [.int a, .int b, .int c] => .ok (some (a.toNat, b.toNat, c.toNat))
    | .ok _ => .error .structError
    | .error e => .error e

/-- text up to the first NUL: `_str.decode().split("\x00")[0]` on bytes -/
def cstr (bs : Bytes) : Bytes := bs.takeWhile (· ≠ 0)

/-- what the client learns about a channel: `DeviceChannel(chan, _type, vdim, name, bool(en), div, mlen)` -/
structure ChanInfo where
  en : Bool
  type : Nat
  vdim : Nat
  div : Nat
  mlen : Nat
  name : Bytes
  deriving DecidableEq, Repr

/-- `Parser.frame_chinfo_decode` -/
def chinfoDecode (fr : Serial.Frame) : Except Err (Option ChanInfo) :=
  if fr.fid ≠ idCHINFO then .ok none
  else if fr.data.length < 5 then .error .structError     -- f"BBBBB{-k}s" is a bad format
  else
    match unpack (Gen.Fmt.chinfoDec (fr.data.length - 5)) fr.data with
    | .ok [.int en, .int ty, .int vdim, .int div, .int mlen, .bytes s] =>
      .ok (some ⟨en ≠ 0, ty.toNat, vdim.toNat, div.toNat, mlen.toNat, cstr s⟩)
    | .ok _ => .error .structError
    | .error e => .error e

/-- `Parser.frame_ack_decode`: (state, retcode) -/
def ackDecode (fr : Serial.Frame) : Except Err (Option (Bool × Int)) :=
  if fr.fid ≠ idACK then .ok none
  else
    match unpack Gen.Fmt.ackDec fr.data with
    | .ok [.int r] => .ok (some (if r = 0 then (true, 0) else (false, r)))
    | .ok _ => .error .structError
    | .error e => .error e

end Info
end Nxs
