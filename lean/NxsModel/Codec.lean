/-
  Codec: the frame interface (`proto/iframe.py: ICommFrame`) as a structure, and what it means for
  a codec to honour that interface (`LawfulCodec`).  The client receive path (comm.py) and the
  device-side dispatcher (parserecv.py) use a codec only through these fields.
-/
import NxsModel.Serial
namespace Nxs

structure Codec where
  sof : Byte
  hdrLen : Nat
  footLen : Nat
  hdrFind : Bytes → Option Nat
  hdrDecode : Bytes → Except Err Serial.Hdr
  footValidate : Bytes → Bool
  frameDecode : Bytes → Except Err Serial.Frame
  frameCreate : Nat → Option Bytes → Except Err Bytes

/-- index of the first occurrence of `b` -/
def findByte (b : Byte) (d : Bytes) : Option Nat :=
  let i := d.findIdx (· = b)
  if i < d.length then some i else none

/-- what "honours the frame interface" means (DESIGN.md section 5/C20).
    The laws speak about success and failure only, never about WHICH error a codec reports: the interface's
    `EParseError` has NOERR / ERR / HDR / FOOT and a codec may report any rejection with any of the three
    non-NOERR codes (`hdrDecode_short` says `∃ e`, `frameDecode_iff` characterises `.ok`).  Accordingly the
    client / device models (`Reasm.run c`, `recvHandleWith c`) branch on `.ok` / `.error _` only — the model of
    `err is not EParseError.NOERR` — and no further error kind is needed in `Err` for codecs that use the
    generic `ERR` (the check runs such codecs: harness/famcodec.py, realisations `e` / `E`). -/
structure LawfulCodec (c : Codec) : Prop where
  hdrLen_pos : 1 ≤ c.hdrLen
  /-- `hdr_find` = index of the first start byte -/
  hdrFind_eq : ∀ d, c.hdrFind d = findByte c.sof d
  /-- `hdr_decode` fails on fewer than `hdr_len` bytes … -/
  hdrDecode_short : ∀ d, d.length < c.hdrLen → ∃ e, c.hdrDecode d = .error e
  /-- … and reads only the first `hdr_len` bytes -/
  hdrDecode_prefix : ∀ d, c.hdrLen ≤ d.length → c.hdrDecode d = c.hdrDecode (d.take c.hdrLen)
  /-- a decodable header starts with the start byte -/
  hdrDecode_sof : ∀ d h, c.hdrDecode d = .ok h → d.head? = some c.sof
  /-- `frame_decode d` succeeds iff the header decodes, hdr+foot ≤ flen ≤ |d| and the footer over
      exactly `flen` bytes validates; the payload is the slice between header and footer -/
  frameDecode_iff : ∀ d fr, c.frameDecode d = .ok fr ↔
    ∃ h, c.hdrDecode d = .ok h ∧ c.hdrLen + c.footLen ≤ h.flen ∧ h.flen ≤ d.length ∧
      c.footValidate (d.take h.flen) = true ∧ fr = ⟨h.fid, slice d c.hdrLen (h.flen - c.footLen)⟩
  /-- decode ∘ create = id, and the created frame declares its own total length (for the frame ids
      the decoder knows: `frame_create` also packs ids 9..255, whose header `hdr_decode` rejects) -/
  frameCreate_decode : ∀ fid p f, c.frameCreate fid (some p) = .ok f → fid ≤ 8 →
    c.frameDecode f = .ok ⟨fid, p⟩ ∧ ∃ h, c.hdrDecode f = .ok h ∧ h.flen = f.length

/-- `frame_create(fid, None)` is `frame_create(fid, b"")`: the optional payload of the interface
    (`data: bytes | None`) adds no bytes when absent.  Not part of `LawfulCodec` (which speaks about
    decoding and about created frames with a payload); needed only where the library itself passes
    `None` — `Parser.frame_cmninfo`. -/
def Codec.NoneEmpty (c : Codec) : Prop := ∀ fid, c.frameCreate fid none = c.frameCreate fid (some [])

namespace Serial
/-- the built-in NxScope serial codec -/
def codec : Codec :=
  { sof := BitVec.ofNat 8 Gen.Frame.sof, hdrLen := Gen.Frame.hdrLen, footLen := Gen.Frame.footLen,
    hdrFind := hdrFind, hdrDecode := hdrDecode, footValidate := footValidate,
    frameDecode := frameDecode, frameCreate := frameCreate }
end Serial

end Nxs
