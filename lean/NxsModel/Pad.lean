/-
  Pad: model of `CommInterfaceCommon.data_align` / `write` (intf/iintf.py), and of the composition
  `intf.write(parser.frame_xxx(...))` for every request the client can issue (proto/parse.py builders,
  modelled in `Requests.lean`).
-/
import NxsModel.Bytes
import NxsModel.Requests
namespace Nxs
namespace Pad

/-- `data_align` with `_write_padding = p` -/
def dataAlign (p : Nat) (d : Bytes) : Bytes :=
  if p ≠ 0 then
    let m := d.length % p
    if m ≠ 0 then d ++ List.replicate (p - m) 0 else d
  else d

/-- every request the client can issue (`n` is the channel count the client learned, `chmax`):
    `frame_start(b)`, `frame_cmninfo()`, `frame_chinfo(c)`, `frame_enable((c, v), n)`, `frame_enable(vs, n)`,
    `frame_div((c, v), n)`, `frame_div(vs, n)` (the vector forms choose ALL or BULK themselves) -/
inductive ClientReq where
  | start (b : Bool)
  | cmninfo
  | chinfo (c : Nat)
  | enSingle (n c : Nat) (v : Bool)
  | enVec (n : Nat) (vs : List Bool)
  | divSingle (n c v : Nat)
  | divVec (n : Nat) (vs : List Nat)
  deriving Repr, DecidableEq

/-- the `Parser` builder that is called for the request -/
def ClientReq.build : ClientReq → Except Err Bytes
  | .start b => Requests.frameStart b
  | .cmninfo => Requests.frameCmninfo
  | .chinfo c => Requests.frameChinfo c
  | .enSingle n c v => Requests.frameEnable (.single c v) n
  | .enVec n vs => Requests.frameEnable (.vec vs) n
  | .divSingle n c v => Requests.frameDiv (.single c v) n
  | .divVec n vs => Requests.frameDiv (.vec (vs.map Int.ofNat)) n

/-- `intf.write_padding = p; intf.write(parser.frame_xxx(…))`: the bytes handed to the interface-specific
    `_write` (nothing is written when the builder raises).  Neither the `Parser` nor the interface keeps
    anything from earlier requests or paddings, so a history of writes is the list of these. -/
def ClientReq.written (p : Nat) (r : ClientReq) : Except Err Bytes :=
  match r.build with
  | .ok f => .ok (dataAlign p f)
  | .error e => .error e

end Pad
end Nxs
