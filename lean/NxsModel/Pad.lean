/-
  Pad: model of `CommInterfaceCommon.data_align` / `write` (intf/iintf.py).
-/
import NxsModel.Bytes
namespace Nxs
namespace Pad

/-- `data_align` with `_write_padding = p` -/
def dataAlign (p : Nat) (d : Bytes) : Bytes :=
  if p ≠ 0 then
    let m := d.length % p
    if m ≠ 0 then d ++ List.replicate (p - m) 0 else d
  else d

end Pad
end Nxs
