/-
  Config: the buffered channel-configuration machine of `CommHandler` (comm.py: ch_enable /
  ch_disable / ch_divider / channels_default_cfg / ch_enable_all / ch_disable_all /
  channels_write → _nxslib_channels_div / _nxslib_channels_enable, _get_ack) together with an
  abstract device that reacts to the *bytes* the client emits (frame → payload → set-request
  semantics), and a per-request device behaviour (ack / nack / applied-but-ACK-lost / lost).
  Time is virtual, in tenths of a second (an ACK timeout costs 10).
-/
import NxsModel.Requests
import NxsModel.Info
import NxsModel.Gen.Comm
namespace Nxs
namespace Config
open Requests

/-- what the device does with one request -/
inductive Outcome where
  | ack
  | nack (r : Int)         -- rejected with a non-zero code, state unchanged
  | appliedAckLost         -- applied, acknowledgement lost
  | lost                   -- request lost
  deriving DecidableEq, Repr

/-- `DCommChannelsData` + the client's copy of the device description + capability flags -/
structure Client where
  n : Nat
  enNow : List Bool
  enNew : List Bool
  divNow : List Int
  divNew : List Int
  enResync : Bool
  divResync : Bool
  copyEn : List Bool        -- `dev.channels_en` of the client's Device object
  copyDiv : List Int
  divSupported : Bool
  ackSupported : Bool
  deriving DecidableEq, Repr

/-- the device: per-channel enable and divider state -/
structure Device where
  en : List Bool
  div : List Int
  deriving DecidableEq, Repr

/-- state right after a successful connect to device `d` (`_channels_init`) -/
def Client.init (d : Device) (flags : Nat) : Client :=
  { n := d.en.length, enNow := d.en, enNew := d.en, divNow := d.div, divNew := d.div,
    enResync := false, divResync := false, copyEn := d.en, copyDiv := d.div,
    divSupported := Info.divSupported flags, ackSupported := Info.ackSupported flags }

/-- `for chan in chans: vec[chan] = v` with Python list indexing restricted to 0 ≤ chan < len
    (IndexError otherwise, earlier assignments kept) -/
def setMany (vec : List α) (chans : List Nat) (v : α) : List α × Option Err :=
  match chans with
  | [] => (vec, none)
  | c :: r => if c < vec.length then setMany (vec.set c v) r v else (vec, some .indexError)

/-- indices where two vectors differ (`j` = count, `k` = last) -/
def diffIdx [DecidableEq α] (new now : List α) : List Nat :=
  (List.range now.length).filter fun i => new[i]? ≠ now[i]?

/-- the request `_nxslib_channels_enable` builds -/
def enRequest (c : Client) : SetReq Bool :=
  match diffIdx c.enNew c.enNow with
  | [k] => if c.enResync then .vec c.enNew else .single k (c.enNew.getD k false)
  | _ => .vec c.enNew

def divRequest (c : Client) : SetReq Int :=
  match diffIdx c.divNew c.divNow with
  | [k] => if c.divResync then .vec c.divNew else .single k (c.divNew.getD k 0)
  | _ => .vec c.divNew

/-- payload of a frame the client emitted (between header and footer) -/
def payloadOf (f : Bytes) : Bytes := slice f 4 (f.length - 2)

/-- device reaction to an enable frame: a conforming device applies the decoded set request -/
def devApplyEn (d : Device) (frame : Bytes) : Device :=
  match frameEnableDecode (payloadOf frame) d.en.length d.en with
  | .ok v => { d with en := v }
  | .error _ => d

def devApplyDiv (d : Device) (frame : Bytes) : Device :=
  match frameDivDecode (payloadOf frame) d.div.length d.div with
  | .ok v => { d with div := v }
  | .error _ => d

/-- does the client see a positive acknowledgement? (`_get_ack`) and what does waiting cost -/
def ackSeen (c : Client) (o : Outcome) (timeout : Nat) : Bool × Nat :=
  if !c.ackSupported then (true, 0)
  else match o with
    | .ack => (true, 0)
    | .nack _ => (false, 0)
    | .appliedAckLost => (false, timeout)
    | .lost => (false, timeout)

def applies : Outcome → Bool
  | .ack | .appliedAckLost => true
  | _ => false

structure StepOut where
  sent : List Bytes := []
  time : Nat := 0
  err : Option Err := none
  deriving Repr

/-- `_nxslib_channels_enable` against a device answering with `o` -/
def writeEnable (c : Client) (d : Device) (o : Outcome) : Client × Device × StepOut :=
  match frameEnable (enRequest c) c.n with
  | .error e => (c, d, { err := some e })
  | .ok f =>
    let d' := if applies o then devApplyEn d f else d
    let (seen, t) := ackSeen c o Gen.Comm.ackTimeoutEnable
    if seen then
      ({ c with enResync := false, enNow := c.enNew, copyEn := c.enNew }, d', { sent := [f], time := t })
    else ({ c with enResync := true }, d', { sent := [f], time := t })

def writeDiv (c : Client) (d : Device) (o : Outcome) : Client × Device × StepOut :=
  match frameDiv (divRequest c) c.n with
  | .error e => (c, d, { err := some e })
  | .ok f =>
    let d' := if applies o then devApplyDiv d f else d
    let (seen, t) := ackSeen c o Gen.Comm.ackTimeoutDiv
    if seen then
      ({ c with divResync := false, divNow := c.divNew, copyDiv := c.divNew }, d', { sent := [f], time := t })
    else ({ c with divResync := true }, d', { sent := [f], time := t })

/-- `channels_write`: nothing for a device without channels (`chmax == 0`, F18: the request builders cannot
    express an empty vector); otherwise the divider request (only if the device advertises divider support),
    then the enable request -/
def channelsWrite (c : Client) (d : Device) (oDiv oEn : Outcome) : Client × Device × StepOut :=
  if c.n = 0 then (c, d, {})
  else if c.divSupported then
    let (c1, d1, s1) := writeDiv c d oDiv
    match s1.err with
    | some _ => (c1, d1, s1)
    | none =>
      let (c2, d2, s2) := writeEnable c1 d1 oEn
      (c2, d2, { sent := s1.sent ++ s2.sent, time := s1.time + s2.time, err := s2.err })
  else writeEnable c d oEn

inductive Op where
  | enable (cs : List Nat)
  | disable (cs : List Nat)
  | divider (cs : List Nat) (v : Int)
  | defaultCfg
  | enableAll
  | disableAll
  | write (oDiv oEn : Outcome)
  deriving Repr

def step (c : Client) (d : Device) : Op → Client × Device × StepOut
  | .enable cs =>
    let (v, e) := setMany c.enNew cs true
    ({ c with enNew := v }, d, { err := e })
  | .disable cs =>
    let (v, e) := setMany c.enNew cs false
    ({ c with enNew := v }, d, { err := e })
  | .divider cs v =>
    if v < 0 ∨ v > 255 then (c, d, { err := some .valueError })
    else
      let (w, e) := setMany c.divNew cs v
      ({ c with divNew := w }, d, { err := e })
  | .defaultCfg =>
    ({ c with enNew := List.replicate c.enNew.length false, divNew := List.replicate c.divNew.length 0 }, d, {})
  | .enableAll => ({ c with enNew := List.replicate c.enNew.length true }, d, {})
  | .disableAll => ({ c with enNew := List.replicate c.enNew.length false }, d, {})
  | .write oDiv oEn => channelsWrite c d oDiv oEn

/-- run a history; collects the per-op outputs -/
def run (c : Client) (d : Device) : List Op → Client × Device × List StepOut
  | [] => (c, d, [])
  | op :: r =>
    let (c1, d1, o) := step c d op
    let (c2, d2, os) := run c1 d1 r
    (c2, d2, o :: os)

end Config
end Nxs
