/-
  Describe: what the client knows about the device after `connect()` — the composition of the
  handshake model (`Handshake.lean`: which requests `CommHandler._start / _devinfo_get` sends, in
  which order, against a link that answers per `Resp`) with the info codecs (`Info.lean`).

  `Handshake.DevDesc` carries only what the control flow of the handshake depends on (channel
  count, flags, rx padding) and treats a conforming answer (`Resp.ok`) abstractly.  Here the
  conforming answer is made concrete: the device holds a full configuration `DevCfg`, answers a
  request with the bytes of its encoder (`ParseRecv.frame_cmninfo_encode / frame_chinfo_encode`),
  and the client runs the bytes through `frame_decode` and its decoder and collects
  `Device(chmax, flags, rxpadding, channels)` exactly as `_devinfo_get` does:
  `channels` restarts empty with every common-info answer, channel `i` is appended with id `i`.
-/
import NxsModel.Handshake
import NxsModel.Info
namespace Nxs
namespace Describe
open Info Handshake

/-- a device configuration; the channel count is `chans.length` -/
structure DevCfg where
  flags : Nat
  rxpadding : Nat
  chans : List ChanCfg
  deriving DecidableEq, Repr

/-- the part of the configuration the control flow of the handshake depends on -/
def DevCfg.desc (c : DevCfg) : DevDesc := ⟨c.chans.length, c.flags, c.rxpadding⟩

/-- the conforming device's answer to a request: the bytes of its encoder (`none`: this request
    has no answer — stop, the padding trigger write, a channel the device does not have) -/
def respond (c : DevCfg) : Req → Option (Except Err Bytes)
  | .cmninfo => some (cmninfoEncode c.chans.length c.flags c.rxpadding)
  | .chinfo i => (c.chans[i]?).map chinfoEncode
  | .stop => none
  | .padding _ => none

/-- a channel as the client holds it: `DeviceChannel(chan = i, …)` -/
structure ClientChan where
  chan : Nat
  info : ChanInfo
  deriving DecidableEq, Repr

/-- what `_devinfo_get` has collected so far: `frame` (common info) and `channels` -/
structure Collected where
  cmn : Option (Nat × Nat × Nat) := none
  chans : List ClientChan := []
  deriving DecidableEq, Repr

/-- the client reads the device's answer to one request it sent -/
def absorb (c : DevCfg) (st : Collected) (r : Req) : Except Err Collected :=
  match r, respond c r with
  | .cmninfo, some resp =>
    (resp.bind Serial.frameDecode).bind fun fr => (cmninfoDecode fr).bind fun o =>
      match o with
      | some t => .ok { cmn := some t, chans := [] }
      | none => .ok st
  | .chinfo i, some resp =>
    (resp.bind Serial.frameDecode).bind fun fr => (chinfoDecode fr).bind fun o =>
      match o with
      | some ci => .ok { st with chans := st.chans ++ [⟨i, ci⟩] }
      | none => .ok st
  | _, _ => .ok st

def absorbAll (c : DevCfg) : Collected → List Req → Except Err Collected
  | st, [] => .ok st
  | st, r :: rs => (absorb c st r).bind fun st' => absorbAll c st' rs

/-- `Device(chmax, flags, rxpadding, channels)` with its derived attributes -/
structure ClientDev where
  chmax : Nat
  flags : Nat
  rxpadding : Nat
  divSupported : Bool
  ackSupported : Bool
  chans : List ClientChan
  deriving DecidableEq, Repr

/-- `Device.__init__`: `assert len(channels) == chmax` -/
def mkDevice (st : Collected) : Except Err ClientDev :=
  match st.cmn with
  | none => .error .assertion
  | some (n, fl, rxp) =>
    if st.chans.length = n then .ok ⟨n, fl, rxp, divSupported fl, ackSupported fl, st.chans⟩
    else .error .assertion

/-- the description the client ends up with after a `connect()` in which the link answers
    per `script`/`dflt`: the requests are those of the handshake model, every answered request
    is answered with the device's encoder and read with the client's decoder -/
def describe (c : DevCfg) (sent : List Req) : Except Err ClientDev :=
  (absorbAll c {} sent).bind mkDevice

/-- `connect()` against the conforming device: outcome of the handshake model and the description -/
def connectDescribe (c : DevCfg) : Outcome × Except Err ClientDev :=
  let r := connect c.desc [] .ok
  (r.outcome, describe c r.sent)

end Describe
end Nxs
