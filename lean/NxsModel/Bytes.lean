/-
  Bytes: the byte-string vocabulary of the model.
  A byte is `BitVec 8`, a byte string is a `List` of them.  Integers are (de)composed
  little-endian (`leBytes`/`leNat`) or big-endian (`beBytes`/`beNat`).
  No Mathlib; core only.
-/
namespace Nxs

abbrev Byte := BitVec 8
abbrev Bytes := List Byte

/-- The errors the model can produce: what CPython raises, or the library's own codes. -/
inductive Err where
  | structError | assertion | valueError | keyError | indexError | unicodeError
  | typeError | overflowError | hdr | foot | timeout | unbound | attributeError
  deriving DecidableEq, Repr, Inhabited

deriving instance DecidableEq for Except

def Err.name : Err → String
  | .structError => "struct" | .assertion => "assert" | .valueError => "value"
  | .keyError => "key" | .indexError => "index" | .unicodeError => "unicode"
  | .typeError => "type" | .overflowError => "overflow" | .hdr => "HDR" | .foot => "FOOT"
  | .timeout => "timeout" | .unbound => "unbound" | .attributeError => "attr"

/-- `n` bytes, least significant first, of `v mod 256^n`. -/
def leBytes : Nat → Nat → Bytes
  | 0, _ => []
  | n + 1, v => BitVec.ofNat 8 v :: leBytes n (v / 256)

/-- Little-endian value of a byte string. -/
def leNat : Bytes → Nat
  | [] => 0
  | b :: bs => b.toNat + 256 * leNat bs

def beBytes (n v : Nat) : Bytes := (leBytes n v).reverse
def beNat (bs : Bytes) : Nat := leNat bs.reverse

/-- order-parametric versions: `be = true` is big-endian -/
def ordBytes (be : Bool) (n v : Nat) : Bytes := if be then beBytes n v else leBytes n v
def ordNat (be : Bool) (bs : Bytes) : Nat := if be then beNat bs else leNat bs

@[simp] theorem leBytes_length (n v : Nat) : (leBytes n v).length = n := by
  induction n generalizing v with
  | zero => rfl
  | succ n ih => simp [leBytes, ih]

@[simp] theorem beBytes_length (n v : Nat) : (beBytes n v).length = n := by
  simp [beBytes]

@[simp] theorem ordBytes_length (be : Bool) (n v : Nat) : (ordBytes be n v).length = n := by
  unfold ordBytes; split <;> simp

theorem leNat_lt (bs : Bytes) : leNat bs < 256 ^ bs.length := by
  induction bs with
  | nil => simp [leNat]
  | cons b bs ih =>
    simp only [leNat, List.length_cons, Nat.pow_succ]
    have := b.isLt
    omega

theorem leNat_leBytes (n v : Nat) : leNat (leBytes n v) = v % 256 ^ n := by
  induction n generalizing v with
  | zero => simp [leBytes, leNat, Nat.mod_one]
  | succ n ih =>
    simp only [leBytes, leNat, ih, BitVec.toNat_ofNat, Nat.pow_succ]
    have h1 : v % (256 ^ n * 256) = v % 256 + 256 * ((v / 256) % 256 ^ n) := by
      rw [Nat.mul_comm (256 ^ n) 256, Nat.mod_mul]
    omega

theorem leBytes_leNat (bs : Bytes) : leBytes bs.length (leNat bs) = bs := by
  induction bs with
  | nil => rfl
  | cons b bs ih =>
    simp only [List.length_cons, leBytes, leNat]
    have hb := b.isLt
    have h1 : (b.toNat + 256 * leNat bs) / 256 = leNat bs := by omega
    rw [h1, ih]
    congr 1
    apply BitVec.eq_of_toNat_eq
    simp [BitVec.toNat_ofNat]
    omega

theorem beNat_beBytes (n v : Nat) : beNat (beBytes n v) = v % 256 ^ n := by
  simp [beNat, beBytes, leNat_leBytes]

theorem beBytes_beNat (bs : Bytes) : beBytes bs.length (beNat bs) = bs := by
  have := leBytes_leNat bs.reverse
  simp only [List.length_reverse] at this
  simp [beBytes, beNat, this]

theorem ordNat_ordBytes (be : Bool) (n v : Nat) : ordNat be (ordBytes be n v) = v % 256 ^ n := by
  cases be <;> simp [ordNat, ordBytes, leNat_leBytes, beNat_beBytes]

theorem ordBytes_ordNat (be : Bool) (bs : Bytes) : ordBytes be bs.length (ordNat be bs) = bs := by
  cases be <;> simp [ordNat, ordBytes, leBytes_leNat, beBytes_beNat]

theorem ordNat_lt (be : Bool) (bs : Bytes) : ordNat be bs < 256 ^ bs.length := by
  cases be
  · simpa [ordNat] using leNat_lt bs
  · have := leNat_lt bs.reverse
    simpa [ordNat, beNat] using this

/-- Python slice `d[a:b]` for `0 ≤ a`, `0 ≤ b` (clamped). -/
def slice (d : List α) (a b : Nat) : List α := (d.take b).drop a

/-- hexadecimal rendering, for the line protocol -/
def hexDigit (n : Nat) : Char :=
  if n < 10 then Char.ofNat (48 + n) else Char.ofNat (87 + n)

def Bytes.toHex (bs : Bytes) : String :=
  String.ofList (bs.foldr (fun b acc => hexDigit (b.toNat / 16) :: hexDigit (b.toNat % 16) :: acc) [])

def hexVal (c : Char) : Option Nat :=
  if '0' ≤ c ∧ c ≤ '9' then some (c.toNat - 48)
  else if 'a' ≤ c ∧ c ≤ 'f' then some (c.toNat - 87)
  else if 'A' ≤ c ∧ c ≤ 'F' then some (c.toNat - 55)
  else none

def Bytes.ofHexChars : List Char → Option Bytes
  | [] => some []
  | [_] => none
  | a :: b :: rest => do
    let x ← hexVal a
    let y ← hexVal b
    let r ← Bytes.ofHexChars rest
    pure (BitVec.ofNat 8 (16 * x + y) :: r)

/-- `-` stands for the empty string in the line protocol -/
def Bytes.ofHex (s : String) : Option Bytes :=
  if s = "-" then some [] else Bytes.ofHexChars s.toList

def Bytes.hex (bs : Bytes) : String := if bs.isEmpty then "-" else bs.toHex

end Nxs
