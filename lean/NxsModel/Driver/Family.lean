/-
  Driver ops for the parameterised codec family (C20).  The first argument is the codec, written as
      sof=<hh>;hdr=S,<field>,…;foot=<kind>
    field : L1 | L2le | L2be | L3le | L3be | L4le | L4be | I | F (filler 0x00) | F<hh> (filler byte hh)      — `S` must come first
    kind  : xor | sum1 | sum<k>le | sum<k>be (k = 2..4) | crc32le | crc32be
  e.g. `sof=aa;hdr=S,L2be,I,F;foot=crc32le`.  Records that are not `Params.valid` answer `bad-op`.

    fam <P> info                          -> ok <hdrLen> <footLen>
    fam <P> create <fid> <hex|none>       -> ok <hex> | err <name>
    fam <P> decode <hex>                  -> ok <fid> <hex> | err HDR|FOOT
    fam <P> hdr <hex>                     -> ok <fid> <flen> | err HDR
    fam <P> foot <hex>                    -> ok 0|1
    fam <P> find <hex>                    -> ok <index | -1>
    fam <P> reasm run <chunk,chunk,…>     -> frames `fid:hex` joined by `,`   (Reasm.run (codec P))
    fam <P> reasm scan <hex>
    fam <P> recv handle <hex>             -> ignored | fired <cb> <hex> | raised <err>   (recvHandleWith (codec P))
  the library's builders with this codec (`Generic.lean`: payload from the message codecs, framing from the codec):
    fam <P> reqstart <0|1> | reqcmninfo | reqchinfo <chan>
    fam <P> reqen s <chmax> <chan> <0|1>  | reqen v <chmax> <bits>         (Parser.frame_enable, tuple / list form)
    fam <P> reqdiv s <chmax> <chan> <div> | reqdiv v <chmax> <d,d,…>       (Parser.frame_div)
    fam <P> ackenc <r> | cmnenc <chmax> <flags> <rxpadding> | chienc <en> <type> <vdim> <div> <mlen> <name hex>
    fam <P> streamenc <user> <samples>    -> ok <hex> | ok none | err <name>    (ParseRecv.frame_stream_encode)
  <P> may be `serial` (the built-in codec, through the same generic definitions), and may carry a fourth part
  `;impl=<letters>` naming how the harness realises the member in Python (s: as a subclass of another concrete
  codec class; e / E: some / all rejections reported with the generic EParseError.ERR).  The model of the
  member is the same; with e / E the error KIND of `decode` / `hdr` is printed as `REJ` on both sides (the
  interface laws are about success / failure, not about which error code a codec picks).
-/
import NxsModel.Info
import NxsModel.Gen.Fmt
import NxsModel.Driver.Basic
import NxsModel.Driver.Reasm
import NxsModel.Family
import NxsModel.Dispatch
import NxsModel.Generic
import NxsModel.Driver.Stream
namespace Nxs.Driver
open Nxs

def famField (s : String) : Option Family.Field :=
  if s = "I" then some .fid
  else if s = "L1" then some (.len 1 false)
  else if s = "L2le" then some (.len 2 false)
  else if s = "L2be" then some (.len 2 true)
  else if s = "L3le" then some (.len 3 false)
  else if s = "L3be" then some (.len 3 true)
  else if s = "L4le" then some (.len 4 false)
  else if s = "L4be" then some (.len 4 true)
  else if s = "F" then some (.fill 0)
  else
    match s.toList with
    | 'F' :: a :: b :: [] =>
      match Bytes.ofHexChars [a, b] with
      | some [x] => some (.fill x)
      | _ => none
    | _ => none

def famFoot (s : String) : Option Family.Foot :=
  if s = "xor" then some .xor
  else if s = "sum1" then some (.sum 1 false)
  else if s = "sum2le" then some (.sum 2 false)
  else if s = "sum2be" then some (.sum 2 true)
  else if s = "sum3le" then some (.sum 3 false)
  else if s = "sum3be" then some (.sum 3 true)
  else if s = "sum4le" then some (.sum 4 false)
  else if s = "sum4be" then some (.sum 4 true)
  else if s = "crc32le" then some (.crc32 false)
  else if s = "crc32be" then some (.crc32 true)
  else none

/-- parse the textual codec description; `none` unless well-formed and `valid` -/
def famParams3 (a b c : String) : Option Family.Params :=
  match a.splitOn "=", b.splitOn "=", c.splitOn "=" with
  | ["sof", x], ["hdr", y], ["foot", z] => do
    let sof ← match Bytes.ofHexChars x.toList with
      | some [v] => some v
      | _ => none
    let fields ← match y.splitOn "," with
      | "S" :: fs => fs.mapM famField
      | _ => none
    let foot ← famFoot z
    let p : Family.Params := ⟨sof, fields, foot⟩
    if p.valid then some p else none
  | _, _, _ => none

/-- (member, error kinds are canonicalised) -/
def famParams (s : String) : Option (Family.Params × Bool) :=
  match s.splitOn ";" with
  | [a, b, c] => (famParams3 a b c).map fun p => (p, false)
  | [a, b, c, d] =>
    match d.splitOn "=" with
    | ["impl", fl] => (famParams3 a b c).map fun p => (p, fl.toList.any fun ch => ch = 'e' ∨ ch = 'E')
    | _ => none
  | _ => none

def dispStr : Dispatch.Disp → String
  | .ignored => "ignored"
  | .fired cb p => s!"fired {Dispatch.cbName cb} {p.hex}"
  | .raised e => s!"raised {e.name}"

/-- `err <kind>`, or `err REJ` when the Python realisation is free in its choice of the error code -/
def showDec (canon : Bool) (f : α → String) : Except Err α → String
  | .ok a => "ok " ++ f a
  | .error e => if canon then "err REJ" else "err " ++ e.name

def famBitsArg (s : String) : Option (List Bool) :=
  if s = "-" then some [] else s.toList.mapM fun ch => if ch = '1' then some true else if ch = '0' then some false else none

def famIntsArg (s : String) : Option (List Int) :=
  if s = "-" then some [] else (s.splitOn ",").mapM (·.toInt?)

/-- the ops of one codec; everything goes through the fields of `c` and the generic builders -/
def codecOp (c : Codec) (canon : Bool) : List String → Option String
  | ["info"] => some s!"ok {c.hdrLen} {c.footLen}"
  | ["create", fid, pl] => do
    let f ← natArg fid
    let d ← if pl = "none" then some none else (hexArg pl).map some
    pure (showExcept Bytes.hex (c.frameCreate f d))
  | ["decode", h] => do
    let d ← hexArg h
    pure (showDec canon (fun fr => s!"{fr.fid} {fr.data.hex}") (c.frameDecode d))
  | ["hdr", h] => do
    let d ← hexArg h
    pure (showDec canon (fun x => s!"{x.fid} {x.flen}") (c.hdrDecode d))
  | ["foot", h] => do
    let d ← hexArg h
    pure s!"ok {boolStr (c.footValidate d)}"
  | ["find", h] => do
    let d ← hexArg h
    pure (match c.hdrFind d with | some i => s!"ok {i}" | none => "ok -1")
  -- client side: Parser(frame=cls)
  | ["reqstart", b] => do
    let b ← natArg b
    pure (showExcept Bytes.hex (Generic.frameStart c (b ≠ 0)))
  | ["reqcmninfo"] => pure (showExcept Bytes.hex (Generic.frameCmninfo c))
  | ["reqchinfo", ch] => do
    let ch ← intArg ch
    pure (showExcept Bytes.hex (Generic.frameChinfo c ch))
  | ["reqen", "s", n, ch, v] => do
    let n ← natArg n; let ch ← intArg ch; let v ← natArg v
    pure (showExcept Bytes.hex (Generic.frameEnable c (.single ch (v ≠ 0)) n))
  | ["reqen", "v", n, bits] => do
    let n ← natArg n; let vs ← famBitsArg bits
    pure (showExcept Bytes.hex (Generic.frameEnable c (.vec vs) n))
  | ["reqdiv", "s", n, ch, v] => do
    let n ← natArg n; let ch ← intArg ch; let v ← intArg v
    pure (showExcept Bytes.hex (Generic.frameDiv c (.single ch v) n))
  | ["reqdiv", "v", n, ds] => do
    let n ← natArg n; let vs ← famIntsArg ds
    pure (showExcept Bytes.hex (Generic.frameDiv c (.vec vs) n))
  -- device side: ParseRecv(cb, frame=cls)
  | ["ackenc", r] => do
    let r ← intArg r
    pure (showExcept Bytes.hex (Generic.ackEncode c r))
  | ["cmnenc", a, b, x] => do
    let a ← intArg a; let b ← intArg b; let x ← intArg x
    pure (showExcept Bytes.hex (Generic.cmninfoEncode c a b x))
  | ["chienc", en, ty, vdim, div, mlen, name] => do
    let en ← natArg en; let ty ← intArg ty; let vdim ← intArg vdim; let div ← intArg div; let mlen ← intArg mlen
    let name ← hexArg name
    pure (showExcept Bytes.hex (Generic.chinfoEncode c ⟨en ≠ 0, ty, vdim, div, mlen, name⟩))
  | ["streamenc", user, samples] => do
    let u ← userArg user; let ss ← samplesArg samples
    pure (showExcept (fun o => match o with
      | none => "none"
      | some b => b.hex) (Generic.frameStreamEncode c u ss))
  | "reasm" :: rest => reasmOpWith c rest
  | ["recv", "handle", h] => do
    let d ← hexArg h
    pure (dispStr (Dispatch.recvHandleWith c d))
  | _ => none

def famOp : List String → Option String
  | "serial" :: rest => codecOp Serial.codec false rest
  | ps :: rest => do
    let (p, canon) ← famParams ps
    codecOp (Family.codec p) canon rest
  | _ => none

end Nxs.Driver
