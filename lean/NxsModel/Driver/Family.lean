/-
  Driver ops for the parameterised codec family (C20).  The first argument is the codec, written as
      sof=<hh>;hdr=S,<field>,…;foot=<kind>
    field : L1 | L2le | L2be | L3le | L3be | L4le | L4be | I | F (filler 0x00) | F<hh> (filler byte hh)      — `S` must come first
    kind  : xor | sum1 | sum<k>le | sum<k>be (k = 2..4) | crc32le | crc32be
  e.g. `sof=aa;hdr=S,L2be,I,F;foot=crc32le`.  Records that are not `Params.valid` answer `bad-op`.

    fam <P> info                          -> ok <hdrLen> <footLen>
    fam <P> create <fid> <hex|none>       -> ok <hex> | err <name>
    fam <P> decode <hex>                  -> ok <fid> <hex> | err HDR|FOOT
    fam <P> hdr <hex>                     -> ok <fid> <flen> | err HDR
    fam <P> foot <hex>                    -> ok 0|1
    fam <P> find <hex>                    -> ok <index | -1>
    fam <P> reasm run <chunk,chunk,…>     -> frames `fid:hex` joined by `,`   (Reasm.run (codec P))
    fam <P> reasm scan <hex>
    fam <P> recv handle <hex>             -> ignored | fired <cb> <hex> | raised <err>   (recvHandleWith (codec P))
-/
import NxsModel.Info
import NxsModel.Gen.Fmt
import NxsModel.Driver.Basic
import NxsModel.Driver.Reasm
import NxsModel.Family
import NxsModel.Dispatch
namespace Nxs.Driver
open Nxs

def famField (s : String) : Option Family.Field :=
  if s = "I" then some .fid
  else if s = "L1" then some (.len 1 false)
  else if s = "L2le" then some (.len 2 false)
  else if s = "L2be" then some (.len 2 true)
  else if s = "L3le" then some (.len 3 false)
  else if s = "L3be" then some (.len 3 true)
  else if s = "L4le" then some (.len 4 false)
  else if s = "L4be" then some (.len 4 true)
  else if s = "F" then some (.fill 0)
  else
    match s.toList with
    | 'F' :: a :: b :: [] =>
      match Bytes.ofHexChars [a, b] with
      | some [x] => some (.fill x)
      | _ => none
    | _ => none

def famFoot (s : String) : Option Family.Foot :=
  if s = "xor" then some .xor
  else if s = "sum1" then some (.sum 1 false)
  else if s = "sum2le" then some (.sum 2 false)
  else if s = "sum2be" then some (.sum 2 true)
  else if s = "sum3le" then some (.sum 3 false)
  else if s = "sum3be" then some (.sum 3 true)
  else if s = "sum4le" then some (.sum 4 false)
  else if s = "sum4be" then some (.sum 4 true)
  else if s = "crc32le" then some (.crc32 false)
  else if s = "crc32be" then some (.crc32 true)
  else none

/-- parse the textual codec description; `none` unless well-formed and `valid` -/
def famParams (s : String) : Option Family.Params :=
  match s.splitOn ";" with
  | [a, b, c] =>
    match a.splitOn "=", b.splitOn "=", c.splitOn "=" with
    | ["sof", x], ["hdr", y], ["foot", z] => do
      let sof ← match Bytes.ofHexChars x.toList with
        | some [v] => some v
        | _ => none
      let fields ← match y.splitOn "," with
        | "S" :: fs => fs.mapM famField
        | _ => none
      let foot ← famFoot z
      let p : Family.Params := ⟨sof, fields, foot⟩
      if p.valid then some p else none
    | _, _, _ => none
  | _ => none

def dispStr : Dispatch.Disp → String
  | .ignored => "ignored"
  | .fired cb p => s!"fired {Dispatch.cbName cb} {p.hex}"
  | .raised e => s!"raised {e.name}"

def famCodecOp (p : Family.Params) : List String → Option String
  | ["info"] => some s!"ok {Family.hdrLen p} {p.foot.len}"
  | ["create", fid, pl] => do
    let f ← natArg fid
    let d ← if pl = "none" then some none else (hexArg pl).map some
    pure (showExcept Bytes.hex (Family.frameCreate p f d))
  | ["decode", h] => do
    let d ← hexArg h
    pure (showExcept (fun fr => s!"{fr.fid} {fr.data.hex}") (Family.frameDecode p d))
  | ["hdr", h] => do
    let d ← hexArg h
    pure (showExcept (fun x => s!"{x.fid} {x.flen}") (Family.hdrDecode p d))
  | ["foot", h] => do
    let d ← hexArg h
    pure s!"ok {boolStr (Family.footValidate p d)}"
  | ["find", h] => do
    let d ← hexArg h
    pure (match (Family.codec p).hdrFind d with | some i => s!"ok {i}" | none => "ok -1")
  -- builders of the device side (ParseRecv) and of the client (Parser) with this codec: payload from the
  -- message codecs, framing from the family member
  | ["ackenc", r] => do
    let r ← intArg r
    pure (showExcept Bytes.hex ((Info.ackData r).bind fun b => Family.frameCreate p Gen.Ids.idACK (some b)))
  | ["cmnenc", a, b, c] => do
    let a ← intArg a; let b ← intArg b; let c ← intArg c
    pure (showExcept Bytes.hex ((Info.cmninfoData a b c).bind fun x => Family.frameCreate p Gen.Ids.idCMNINFO (some x)))
  | ["reqstart", b] => do
    let b ← natArg b
    pure (showExcept Bytes.hex ((pack Gen.Fmt.start [.bool (b ≠ 0)]).bind fun x => Family.frameCreate p Gen.Ids.idSTART (some x)))
  | ["reqchinfo", c] => do
    let c ← intArg c
    pure (showExcept Bytes.hex ((pack Gen.Fmt.chinfoReq [.int c]).bind fun x => Family.frameCreate p Gen.Ids.idCHINFO (some x)))
  | "reasm" :: rest => reasmOpWith (Family.codec p) rest
  | ["recv", "handle", h] => do
    let d ← hexArg h
    pure (dispStr (Dispatch.recvHandleWith (Family.codec p) d))
  | _ => none

def famOp : List String → Option String
  | ps :: rest => do
    let p ← famParams ps
    famCodecOp p rest
  | _ => none

end Nxs.Driver
