/-
  Driver ops for frame reassembly:
    reasm run <chunk,chunk,…>     chunks as hex, `-` = empty read;  output: frames `fid:hex` joined by `,`
    reasm scan <hex>
-/
import NxsModel.Driver.Basic
import NxsModel.Reasm
import NxsModel.Route
namespace Nxs.Driver
open Nxs

def framesStr (fs : List Serial.Frame) : String :=
  if fs.isEmpty then "ok -" else "ok " ++ ",".intercalate (fs.map fun f => s!"{f.fid}:{f.data.hex}")

def reasmOpWith (c : Codec) : List String → Option String
  | ["run", chunks] => do
    let cs ← (chunks.splitOn ",").mapM hexArg
    pure (framesStr (Reasm.run c cs))
  | ["scan", h] => do
    let d ← hexArg h
    pure (framesStr (Reasm.scan c d))
  | ["route", hd, chunks] => do
    -- reassembly followed by the receive thread's routing: `<response queue> / <stream queue>`
    let hd ← natArg hd
    let cs ← (chunks.splitOn ",").mapM hexArg
    let (a, b) := Route.queues (hd ≠ 0) (Reasm.run c cs)
    pure (framesStr a ++ " / " ++ framesStr b)
  | _ => none

def reasmOp : List String → Option String := reasmOpWith Serial.codec

end Nxs.Driver
