/-
  Driver op for the life-cycle machine:
    life nx   <flags> <en bits> <div ints> <started 0|1> <desc> <call;call;…>     NxscopeHandler
    life comm <flags> <en bits> <div ints> <started 0|1> <desc> <call;call;…>     bare CommHandler
  desc : <rxpadding>/<type>.<vdim>.<mlen>.<name hex|->,…      (a lone `-` after the slash for a device without channels)
  calls (nx)  : C X S T s<c> u<q> e<cs>[!] d<cs>[!] N[!] v<val>:<cs>[!] D[!] W g<c>     (! = writenow)
  calls (comm): C X S T e<cs> d<cs> v<val>:<cs> A N D W
  an optional last token `cut:<i>,<j>…` (environment events the model does not see, see `lifeOp`; the harness also
  knows `wfail:<i>.<k>…` — an interface write that raises — on lines it judges by the oracle only and never sends here)
  a channel name is any byte string: not valid UTF-8 → connect raises `unicode`; the reported name ends at the first NUL
  every call may carry the device's answers to the start/stop, divider and enable request it issues:
    <call>~<st>,<dv>,<en>      outcomes: a | x | l | n<r> (r ≠ 0; `n0` allowed for <st>)
  output per call, joined by " | ":
    r=<ok|err|ack:<0|1>:<code>>;t=<tenths>;w=<frames written by this call, hex joined by ,|->;
    st=<connected><commStarted><hasDev><streamStarted><recvThr><streamThr><intf>;dev=<bits>/<ints>/<started>;
    subs=<…>;cli=<now en>/<now div>/<new en>/<new div>/<cp en>/<cp div>/<rs><rs> | -;desc=<description (after a connect) | + | ->
-/
import NxsModel.Driver.Config
import NxsModel.Driver.Fanout
import NxsModel.Lifecycle
namespace Nxs.Driver
open Nxs Nxs.Lifecycle Nxs.Config

/-- an outcome token; a NACK with code 0 is not a NACK -/
def lifeOutcome (s : String) : Option Outcome :=
  match outcomeArg s with
  | some (.nack r) => if r = 0 then none else some (.nack r)
  | o => o

/-- answers to the start/stop, divider, enable request; `n0` is accepted for the start/stop request only (there the
    model follows the code: an ACK frame with code 0 is a positive acknowledgement) -/
def ansArg (s : String) : Option Ans :=
  match s.splitOn "," with
  | [a, b, c] => do pure ⟨← outcomeArg a, ← lifeOutcome b, ← lifeOutcome c⟩
  | _ => none

def intsArg' (s : String) : Option (List Int) :=
  if s = "" ∨ s = "-" then some [] else (s.splitOn ",").mapM (·.toInt?)

/-- split `<call>~<answers>` -/
def splitAns (s : String) : Option (String × Ans) :=
  match s.splitOn "~" with
  | [c] => some (c, {})
  | [c, a] => (ansArg a).map fun x => (c, x)
  | _ => none

def callArg (s0 : String) : Option Call :=
  let wn := s0.endsWith "!"
  let s := if wn then (s0.dropEnd 1).toString else s0
  if s = "C" then some .connect else if s = "X" then some .disconnect
  else if s = "S" then some .streamStart else if s = "T" then some .streamStop
  else if s = "W" then some .channelsWrite
  else if s = "N" then some (.chDisableAll wn) else if s = "D" then some (.defaultCfg wn)
  else if s.startsWith "s" then (s.drop 1).toString.toInt?.map .sub
  else if s.startsWith "u" then (s.drop 1).toString.toNat?.map .unsub
  else if s.startsWith "g" then (s.drop 1).toString.toInt?.map .devChannelGet
  else if s.startsWith "e" then (intsArg' (s.drop 1).toString).map (.chEnable · wn)
  else if s.startsWith "d" then (intsArg' (s.drop 1).toString).map (.chDisable · wn)
  else if s.startsWith "v" then
    match (s.drop 1).toString.splitOn ":" with
    | [v, cs] => do pure (.chDivider (← intsArg' cs) (← v.toInt?) wn)
    | _ => none
  else none

def commCallArg (s : String) : Option CommCall :=
  if s = "C" then some .connect else if s = "X" then some .disconnect
  else if s = "S" then some .streamStart else if s = "T" then some .streamStop
  else if s = "W" then some .channelsWrite
  else if s = "A" then some .chEnableAll
  else if s = "N" then some .chDisableAll else if s = "D" then some .defaultCfg
  else if s.startsWith "e" then (intsArg' (s.drop 1).toString).map .chEnable
  else if s.startsWith "d" then (intsArg' (s.drop 1).toString).map .chDisable
  else if s.startsWith "v" then
    match (s.drop 1).toString.splitOn ":" with
    | [v, cs] => do pure (.chDivider (← intsArg' cs) (← v.toInt?))
    | _ => none
  else none

def chanDescArg (s : String) : Option ChanDesc :=
  match s.splitOn "." with
  | [t, v, m, nm] => do pure ⟨← t.toNat?, ← v.toNat?, ← m.toNat?, ← hexArg nm⟩
  | _ => none

def descArg (s : String) : Option Desc :=
  match s.splitOn "/" with
  | [rxp, chs] => do
    let r ← rxp.toNat?
    let cs ← if chs = "-" then some [] else (chs.splitOn ",").mapM chanDescArg
    pure ⟨cs, r⟩
  | _ => none

def chanDescStr (c : ChanDesc) : String := s!"{c.type}.{c.vdim}.{c.mlen}.{Bytes.hex c.name}"

def reportedStr (r : Reported) : String :=
  s!"{r.chmax}.{r.flags}.{r.rxpadding}/" ++ (if r.chans.isEmpty then "-" else ",".intercalate (r.chans.map chanDescStr))

def cliStr (w : World) : String :=
  match w.cli with
  | none => "-"
  | some c =>
    s!"{bitsStr c.enNow}/{intsStr c.divNow}/{bitsStr c.enNew}/{intsStr c.divNew}/" ++
    (if w.hasDev then s!"{bitsStr c.copyEn}/{intsStr c.copyDiv}" else "-/-") ++
    s!"/{boolStr c.enResync}{boolStr c.divResync}"

def resStr : Res → String
  | .ok => "ok"
  | .raised e => e.name
  | .ack s c => s!"ack:{boolStr s}:{c}"

def lifeState (isConnect : Bool) (w0 w : World) (r : Res) : String :=
  let written := w.log.drop w0.log.length
  let ws := if written.isEmpty then "-" else ",".intercalate (written.map Bytes.hex)
  let ds := match w.reported with
    | none => "-"
    | some d => if isConnect then reportedStr d else "+"
  s!"r={resStr r};t={w.time - w0.time};w={ws};st={boolStr w.connected}{boolStr w.commStarted}{boolStr w.hasDev}{boolStr w.streamStarted}{boolStr w.recvThr}{boolStr w.streamThr}{boolStr w.intf};dev={bitsStr w.dev.en}/{intsStr w.dev.div}/{boolStr w.devStarted};subs={",".intercalate (w.subs.map dotJoin)};cli={cliStr w};desc={ds}"

def lifeRun (w : World) : List (Call × Ans) → List String
  | [] => []
  | c :: r =>
    let (w1, res) := step w c.1 c.2
    lifeState (c.1 = .connect) w w1 res :: lifeRun w1 r

def lifeCommRun (w : World) : List (CommCall × Ans) → List String
  | [] => []
  | c :: r =>
    let (w1, res) := commStep w c.1 c.2
    lifeState (c.1 = .connect) w w1 res :: lifeCommRun w1 r

def lifeOp1 (mode flags en div started desc calls : String) : Option String := do
    let fl ← natArg flags; let en ← bitsArg en; let div ← intsArg div; let st ← natArg started
    let ds ← descArg desc
    let w := World.fresh ⟨en, div⟩ (st ≠ 0) fl ds
    let toks ← (calls.splitOn ";").mapM splitAns
    if mode = "nx" then do
      let cs ← toks.mapM fun (c, a) => (callArg c).map fun x => (x, a)
      pure ("ok " ++ " | ".intercalate (lifeRun w cs))
    else if mode = "comm" then do
      let cs ← toks.mapM fun (c, a) => (commCallArg c).map fun x => (x, a)
      pure ("ok " ++ " | ".intercalate (lifeCommRun w cs))
    else none

/-- an optional 8th token describes events of the environment the model does not see (`cut:<i>,…`: before
    call i the first bytes of a frame that is never completed arrive from the device) -/
def lifeOp : List String → Option String
  | [mode, flags, en, div, started, desc, calls] => lifeOp1 mode flags en div started desc calls
  | [mode, flags, en, div, started, desc, calls, _env] => lifeOp1 mode flags en div started desc calls
  | _ => none

end Nxs.Driver
