/-
  Driver op for the life-cycle machine:
    life run <flags> <en bits> <div ints> <started 0|1> <call;call;…>
  calls: C X S T s<c> u<q> e<cs>[!] d<cs>[!] N[!] v<val>:<cs>[!] D[!] W g<c>     (! = writenow)
  output per call, joined by " | ":
    r=<ok|err>;w=<frames written by this call, hex joined by ,|->;st=<connected><commStarted><hasDev><streamStarted><recvThr><streamThr><intf>;dev=<bits>/<ints>/<started>;subs=<…>
-/
import NxsModel.Driver.Config
import NxsModel.Driver.Fanout
import NxsModel.Lifecycle
namespace Nxs.Driver
open Nxs Nxs.Lifecycle

def callArg (s0 : String) : Option Call :=
  let wn := s0.endsWith "!"
  let s := if wn then (s0.dropEnd 1).toString else s0
  if s = "C" then some .connect else if s = "X" then some .disconnect
  else if s = "S" then some .streamStart else if s = "T" then some .streamStop
  else if s = "W" then some .channelsWrite
  else if s = "N" then some (.chDisableAll wn) else if s = "D" then some (.defaultCfg wn)
  else if s.startsWith "s" then (s.drop 1).toString.toNat?.map .sub
  else if s.startsWith "u" then (s.drop 1).toString.toNat?.map .unsub
  else if s.startsWith "g" then (s.drop 1).toString.toNat?.map .devChannelGet
  else if s.startsWith "e" then (natsArg (s.drop 1).toString).map (.chEnable · wn)
  else if s.startsWith "d" then (natsArg (s.drop 1).toString).map (.chDisable · wn)
  else if s.startsWith "v" then
    match (s.drop 1).toString.splitOn ":" with
    | [v, cs] => do pure (.chDivider (← natsArg cs) (← v.toInt?) wn)
    | _ => none
  else none

def lifeState (w0 w : World) (r : Res) : String :=
  let res := match r with | .ok => "ok" | .raised e => e.name
  let written := w.log.drop w0.log.length
  let ws := if written.isEmpty then "-" else ",".intercalate (written.map Bytes.hex)
  s!"r={res};w={ws};st={boolStr w.connected}{boolStr w.commStarted}{boolStr w.hasDev}{boolStr w.streamStarted}{boolStr w.recvThr}{boolStr w.streamThr}{boolStr w.intf};dev={bitsStr w.dev.en}/{intsStr w.dev.div}/{boolStr w.devStarted};subs={",".intercalate (w.subs.map dotJoin)}"

def lifeRun (w : World) : List Call → List String
  | [] => []
  | c :: r =>
    let (w1, res) := step w c
    lifeState w w1 res :: lifeRun w1 r

def lifeOp : List String → Option String
  | ["run", flags, en, div, started, calls] => do
    let fl ← natArg flags; let en ← bitsArg en; let div ← intsArg div; let st ← natArg started
    let cs ← (calls.splitOn ";").mapM callArg
    pure ("ok " ++ " | ".intercalate (lifeRun (World.fresh ⟨en, div⟩ (st ≠ 0) fl) cs))
  | _ => none

end Nxs.Driver
