/-
  Driver ops for request HISTORIES on one device state (C05):
    req hist <n> <en bits> <div ints> <hex>,<hex>,…
        `Requests.devRun` — dispatcher, callback decoder and per-channel writes on ONE device state — over
        the writes; prints per write `ign` · `cb<k> <en>/<div>` · `err <name>`, joined by ` | `
    req sess <n> <pad> <en bits> <div ints> <ask>;<ask>;…
        `Requests.session`: asks `e<c>=<0|1>` · `E<bits>` · `d<c>=<v>` · `D<v>,<v>,…` built by the client
        builders, padded, received by that device; prints `ok <en>/<div>` or `err <name>`
  (To be wired by Main.lean, before the generic `"req"` line:
     | "req" :: "hist" :: rest => (reqHistOp rest).getD "bad-op"
     | "req" :: "sess" :: rest => (reqSessOp rest).getD "bad-op")
-/
import NxsModel.Driver.Basic
import NxsModel.Driver.Codec
import NxsModel.Requests
import NxsModel.ReqSession
namespace Nxs.Driver
open Nxs

def reqHistOp : List String → Option String
  | [n, en, div, items] => do
    let n ← natArg n; let en ← bitsArg en; let div ← intsArg div
    let ws ← (items.splitOn ",").mapM hexArg
    let outs := (Requests.devRun n ⟨en, div⟩ ws).map fun (s, o) =>
      match o with
      | .ok none => "ign"
      | .ok (some cb) => s!"cb{cb} {bitsStr s.en}/{intsStr s.div}"
      | .error e => s!"err {e.name}"
    pure ("ok " ++ " | ".intercalate outs)
  | _ => none

def askArg (s : String) : Option Requests.Ask :=
  match s.toList with
  | 'e' :: r =>
    match (String.ofList r).splitOn "=" with
    | [c, v] => do let c ← natArg c; let v ← natArg v; pure (.enOne c (v ≠ 0))
    | _ => none
  | 'E' :: r => (bitsArg (String.ofList r)).map .enVec
  | 'd' :: r =>
    match (String.ofList r).splitOn "=" with
    | [c, v] => do let c ← natArg c; let v ← natArg v; pure (.divOne c v)
    | _ => none
  | 'D' :: r => do
    let vs ← if r.isEmpty then some [] else ((String.ofList r).splitOn ",").mapM natArg
    pure (.divVec vs)
  | _ => none

def reqSessOp : List String → Option String
  | [n, pad, en, div, asks] => do
    let n ← natArg n; let pad ← natArg pad; let en ← bitsArg en; let div ← intsArg div
    let asks ← (asks.splitOn ";").mapM askArg
    pure (showExcept (fun s => s!"{bitsStr s.en}/{intsStr s.div}") (Requests.session n pad ⟨en, div⟩ asks))
  | _ => none

end Nxs.Driver
