/-
  Driver op of the device-level description-record model (C19, `DevRecords.lean`).

    rec devseq <chmax>,<flags>,<rxpadding> <chanspec>/<chanspec>/… <steps>

  `<chanspec>` = <chan>,<_type>,<vdim>,<name>,<en>,<div>,<mlen>   (`-` = a device without channels): the records of
  `Device(chmax, flags, rxpadding, [DeviceChannel(chan, _type, vdim, name, en, div, mlen), …])` are built by
  `DevRecords.mkDevRecords`, the steps are run on them one by one (`DStep.run`) and, as a whole, by `runDev`.
  Value / name tokens as in `Driver/Record.lean`; `_type` and `flags` must be i<natural>.

  steps (`;`-separated, `-` = none)
    c<i>:<name>=<value>   dev.channel_get(i).data.<name> = <value>     (`cur`: the record's CURRENT value, None if absent
                                                                        or if there is no channel i)
    d:<name>=<value>      dev.data.<name> = <value>
    E:<v>,<v>,…           dev.en_channels_update([v, v, …])            (`E:-` = the empty list)
    D:<v>,<v>,…           dev.div_channels_update([v, v, …])

  answer
    ok <r>;<r>;… E:<channels_en> D:<channels_div> dev:<dump> ch:<dump>/<dump>/…
  with one <r> per step = <outcome>[<channels_en>|<channels_div>] (the two vectors read back right after the step),
  <outcome> = ok | err:<name> (type: the guard's TypeError, attr: no channel i, assert: vector of the wrong length),
  vectors = `,`-separated value tokens (`?` = the attribute is missing, `-` = no channels), <dump> = the record's whole
  `__dict__` as `rec seq` prints it.  The part behind the steps is computed from `runDev` over the WHOLE history.
-/
import NxsModel.Driver.Record
import NxsModel.DevRecords
namespace Nxs.Driver
open Nxs.Record Nxs.DevRecords

def vecTok (l : List (Option RVal)) : String :=
  if l.isEmpty then "-" else ",".intercalate (l.map fun | some v => valTok v | none => "?")

def tokVec (t : String) : Option (List RVal) :=
  if t = "-" then some [] else (t.splitOn ",").mapM tokVal

/-- `c<i>:<name>=<value>` / `d:<name>=<value>` / `E:<vec>` / `D:<vec>`, parsed against the current records (`cur`) -/
def tokDStep (d : Dev) (t : String) : Option DStep :=
  match t.splitOn ":" with
  | ["E", v] => (tokVec v).map .libEn
  | ["D", v] => (tokVec v).map .libDiv
  | [tgt, asg] =>
    match asg.splitOn "=" with
    | [n, v] => do
      let n ← tokName n
      match tgt.toList with
      | ['d'] =>
        let v ← if v = "cur" then pure ((d.data.get? n).getD .none) else tokVal v
        pure (.dev n v)
      | 'c' :: r =>
        let i ← (String.ofList r).toNat?
        let v ← if v = "cur" then pure (((d.chans[i]?).bind (·.get? n)).getD .none) else tokVal v
        pure (.chan i n v)
      | _ => none
    | _ => none
  | _ => none

/-- the exception a refused step raises (the model's `DStep.run` only says THAT it raised) -/
def dstepErr (d : Dev) : DStep → Option Err
  | .chan i k v =>
    match d.chans[i]? with
    | none => some .attributeError
    | some c => match setattr Gen.Record.chanAllow c k v with | .error e => some e | .ok _ => none
  | .dev k v => match setattr Gen.Record.devAllow d.data k v with | .error e => some e | .ok _ => none
  | .libEn vs => match channelsUpdate "en" d vs with | .error e => some e | .ok _ => none
  | .libDiv vs => match channelsUpdate "div" d vs with | .error e => some e | .ok _ => none

/-- run the step tokens one by one: the per-step answers and the parsed history -/
def runDSteps : Dev → List String → Option (List String × List DStep)
  | _, [] => some ([], [])
  | d, t :: r => do
    let s ← tokDStep d t
    let x := s.run d
    let oc ←
      match x.2, dstepErr d s with
      | true, none => some "ok"
      | false, some e => some ("err:" ++ e.name)
      | _, _ => none          -- `DStep.run` and its parts disagree: not an answer
    let (outs, ss) ← runDSteps x.1 r
    pure ((s!"{oc}[{vecTok (channelsEn x.1)}|{vecTok (channelsDiv x.1)}]") :: outs, s :: ss)

def parseChan (spec : String) : Option ((String → RVal) × Nat) := do
  match ← (spec.splitOn ",").mapM tokVal with
  | [c, ty, vd, nm, en, dv, ml] =>
    let ty ← natOfVal ty
    let args : String → RVal := fun k =>
      if k = "chan" then c else if k = "vdim" then vd else if k = "name" then nm
      else if k = "en" then en else if k = "div" then dv else if k = "mlen" then ml else .none
    pure (args, ty)
  | _ => none

def devRecordsOp : List String → Option String
  | [ctor, chans, steps] => do
    match ← (ctor.splitOn ",").mapM tokVal with
    | [cm, fl, rp] =>
      let fl ← natOfVal fl
      let dargs : String → RVal := fun k =>
        if k = "chmax" then cm else if k = "rxpadding" then rp else .none
      let cs ← if chans = "-" then pure [] else (chans.splitOn "/").mapM parseChan
      match mkDevRecords dargs fl cs with
      | .error e => some s!"err-init {e.name}"
      | .ok d0 =>
        let toks := if steps = "-" then [] else steps.splitOn ";"
        let (outs, hist) ← runDSteps d0 toks
        let d := runDev d0 hist
        let chd := if d.chans.isEmpty then "-" else "/".intercalate (d.chans.map dumpDict)
        pure (s!"ok {if outs.isEmpty then "-" else ";".intercalate outs} E:{vecTok (channelsEn d)} D:{vecTok (channelsDiv d)} " ++
              s!"dev:{dumpDict d.data} ch:{chd}")
    | _ => none
  | _ => none

end Nxs.Driver
