/-
  Driver op for the configuration machine with rx padding, Python channel ids and `writenow` calls (C07):
    cfgx run <flags> <pad> <mode> <initEn bits> <initDiv ints> <call;call;…>
  calls: the ops of `cfg run` (e<ids> d<ids> v<val>:<ids> D A N W:<oDiv>:<oEn>) where an id is a signed integer or
  T / F (Python `True` / `False` = 1 / 0), optionally followed by `!` (the wrapper called with `writenow=True`, both
  requests acknowledged) or `!<oDiv>:<oEn>`.  <mode> names harness-side dimensions the model does not depend on
  (which handler is driven, stream running at connect time / during the exchange) and is ignored here.
  output: as `cfg run`, one state per call; `s=` lists the bytes of every write (frames aligned to <pad>).
-/
import NxsModel.Driver.Config
import NxsModel.ConfigExt
namespace Nxs.Driver
open Nxs Nxs.Config

def xIdArg (s : String) : Option Int :=
  if s = "T" then some 1 else if s = "F" then some 0 else s.toInt?

def xIdsArg (s : String) : Option (List Int) :=
  if s = "" ∨ s = "-" then some [] else (s.splitOn ",").mapM xIdArg

def xIopArg (s : String) : Option IOp :=
  if s = "D" ∨ s = "A" ∨ s = "N" ∨ s.startsWith "W:" then (opArg s).map .plain
  else if s.startsWith "e" then (xIdsArg (s.drop 1).toString).map .enable
  else if s.startsWith "d" then (xIdsArg (s.drop 1).toString).map .disable
  else if s.startsWith "v" then
    match (s.drop 1).toString.splitOn ":" with
    | [v, cs] => do pure (.divider (← xIdsArg cs) (← v.toInt?))
    | _ => none
  else none

def xCallArg (s : String) : Option Call :=
  match s.splitOn "!" with
  | [body] => (xIopArg body).map fun op => { op := op }
  | [body, oc] =>
    if oc = "" then (xIopArg body).map fun op => { op := op, now := some (.ack, .ack) }
    else match oc.splitOn ":" with
      | [a, b] => do pure { op := ← xIopArg body, now := some (← outcomeArg a, ← outcomeArg b) }
      | _ => none
  | _ => none

def cfgxRun (pad : Nat) (c : Client) (d : Device) : List Call → List String
  | [] => []
  | k :: r =>
    let s := stepCall pad c d k
    cfgState s.1 s.2.1 s.2.2 :: cfgxRun pad s.1 s.2.1 r

def cfgxOp : List String → Option String
  | ["run", flags, pad, _mode, en, div, calls] => do
    let fl ← natArg flags; let pad ← natArg pad; let en ← bitsArg en; let div ← intsArg div
    let ks ← (calls.splitOn ";").mapM xCallArg
    let d : Device := ⟨en, div⟩
    pure ("ok " ++ " | ".intercalate (cfgxRun pad (Client.init d fl) d ks))
  | _ => none

end Nxs.Driver
