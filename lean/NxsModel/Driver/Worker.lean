/-
  Line-protocol driver for the worker model (C13).  Every line is self-contained.

    worker stats <cfg>
        → ok states=<n> transitions=<m> certified=<0|1> wf=<0|1>
    worker cex <cfg>
        → ok none                                  (every state found by the search is safe)
        → ok <failed predicates joined by +> <tok> <tok> …   (shortest path to an unsafe state)
    worker run <cfg> <history> <schedule> <tok> <tok> …
        replay an observed trace of the real code.  <history> and <schedule> are only carried
        along (they let the harness re-execute the case); the tokens are checked.
        → ok safe=<0|1> flag=<0|1> handle=<0|1> live=<n> started=<0|1>
        → err not-a-run <index> <tok>              (the trace is not a run of the model)
    worker why <cfg> <history> <schedule> <tok> …
        → ok <names of the safety predicates violated along the replay, joined by +, or ->

  <cfg> = two digits: init callback given, final callback given.

  A token is `<thread><event>`: thread 0 is the controller, thread k ≥ 1 the k-th thread object
  created (`n` events, in order).  It says: that thread took its next VISIBLE step and this is
  what was seen.  Events:
     S P A        controller enters thread_start / thread_stop / thread_is_alive
     c e q0 q1    Event.clear, Event.set, Event.is_set → 0 / 1
     n s a0 a1 j  Thread(...) created, .start(), .is_alive() → 0 / 1, .join() returned
     i t f x      init / target / final callback called, `_thread_loop` returned
     R<h>         thread_start / thread_stop returned; h = 1 iff `_thrd` is not None afterwards
     R<h><v>      thread_is_alive returned v (0 / 1 / n for None)
     E            the thread raised an exception
     D            (thread 0, last token) deadlock: nobody can run and a call is in progress
  Instructions without a visible effect (tests of `self._init`, `self._final`, `self._thrd`,
  and `self._thrd = None`; they read or write only state that no other thread accesses) are
  taken silently, as late as possible, by the thread that owns the next token.
-/
import NxsModel.Worker
namespace Nxs.Driver
open Nxs.Worker Nxs.ThreadIR

namespace WorkerDrv   -- helpers live in their own namespace (all drivers share `Nxs.Driver`)

def cfgArg (s : String) : Option Cfg :=
  match s.toList with
  | [a, b] => if (a = '0' ∨ a = '1') ∧ (b = '0' ∨ b = '1') then some ⟨a = '1', b = '1'⟩ else none
  | _ => none

def bit (b : Bool) : String := if b then "1" else "0"

/-- the text a labelled step must show in the trace (`none` for silent steps) -/
def evCode (ev : Ev) (s' : State) : Option String :=
  match ev with
  | .call .start => some "S" | .call .stop => some "P" | .call .alive => some "A"
  | .tau => none
  | .clear => some "c" | .set => some "e" | .isset b => some ("q" ++ bit b)
  | .new => some "n" | .start => some "s" | .alive b => some ("a" ++ bit b) | .join => some "j"
  | .init => some "i" | .target => some "t" | .final => some "f" | .exit => some "x"
  | .ret .alive v => some ("R" ++ bit s'.cur.isSome ++ (match v with | some b => bit b | none => "n"))
  | .ret _ _ => some ("R" ++ bit s'.cur.isSome)
  | .error => some "E"

structure RS where
  s : State
  curId : Nat := 0
  otherIds : List Nat := []
  nextId : Nat := 1
  bad : List String := []

def failed (c : Cfg) (s : State) : List String := ((checks c s).filter (!·.2)).map (·.1)

def RS.note (c : Cfg) (r : RS) : RS :=
  { r with bad := (failed c r.s).foldl (fun acc n => if acc.contains n then acc else acc ++ [n]) r.bad }

/-- take the labelled step `(who, ev, s')`, keeping the thread numbering in step -/
def RS.take (c : Cfg) (r : RS) (who : Who) (ev : Ev) (s' : State) : RS :=
  let pushed := decide (s'.others.length > r.s.others.length)
  let r' : RS :=
    match who with
    | .ctl =>
      if ev = .new then
        { r with otherIds := if pushed then r.otherIds ++ [r.curId] else r.otherIds,
                 curId := r.nextId, nextId := r.nextId + 1 }
      else if r.s.cur.isSome && s'.cur.isNone then
        { r with otherIds := if pushed then r.otherIds ++ [r.curId] else r.otherIds, curId := 0 }
      else r
    | .cur => r
    | .other k => if s'.others.length < r.s.others.length then { r with otherIds := r.otherIds.eraseIdx k } else r
  RS.note c { r' with s := s' }

def RS.who (r : RS) (tid : Nat) : Option Who :=
  if tid = 0 then some .ctl
  else if tid = r.curId then some .cur
  else (r.otherIds.idxOf? tid).map Who.other

/-- the next step of thread `who` (deterministic except for an idle controller) -/
def nextOf (c : Cfg) (s : State) (who : Who) : Option (Ev × State) :=
  match who with
  | .ctl => match s.ctl with
    | .idle => none
    | .run _ _ => (ctlStep c s).head?
  | .cur => curStep c s
  | .other k => otherStep c s k

/-- advance `who` over its silent steps, then take the step that shows `code` -/
def RS.visible (c : Cfg) (who : Who) (code : String) : Nat → RS → Option RS
  | 0, _ => none
  | fuel + 1, r =>
    match who, r.s.ctl with
    | .ctl, .idle =>
      ((ctlStep c r.s).find? fun p => evCode p.1 p.2 = some code).map fun p => r.take c .ctl p.1 p.2
    | _, _ =>
      match nextOf c r.s who with
      | none => none
      | some (ev, s') =>
        match evCode ev s' with
        | none => RS.visible c who code fuel (r.take c who ev s')
        | some t => if t = code then some (r.take c who ev s') else none

/-- silent steps of the controller only -/
def RS.silentCtl (c : Cfg) : Nat → RS → RS
  | 0, r => r
  | fuel + 1, r =>
    match nextOf c r.s .ctl with
    | some (.tau, s') => RS.silentCtl c fuel (r.take c .ctl .tau s')
    | _ => r

def splitTok (t : String) : Option (Nat × String) :=
  let cs := t.toList
  let ds := cs.takeWhile Char.isDigit
  let rest := cs.dropWhile Char.isDigit
  if ds.isEmpty || rest.isEmpty then none else (String.ofList ds).toNat?.map fun n => (n, String.ofList rest)

/-- replay: `.inl (index, token)` = not a run -/
def replay (c : Cfg) : List String → Nat → RS → Sum (Nat × String) RS
  | [], _, r => .inr r
  | t :: ts, i, r =>
    match splitTok t with
    | none => .inl (i, t)
    | some (tid, code) =>
      if tid = 0 ∧ code = "D" then
        let r' := RS.silentCtl c 64 r
        if ts.isEmpty ∧ r'.s.ctl ≠ .idle ∧ (step c r'.s).isEmpty then
          .inr { r' with bad := if r'.bad.contains "deadlock" then r'.bad else r'.bad ++ ["deadlock"] }
        else .inl (i, t)
      else
        match r.who tid with
        | none => .inl (i, t)
        | some who =>
          match RS.visible c who code 64 r with
          | none => .inl (i, t)
          | some r' => replay c ts (i + 1) r'

def startRS (c : Cfg) : RS := RS.note c { s := init }

/-- the trace tokens of a model path (for `cex`) -/
def pathTokens (c : Cfg) : List (Who × Ev) → RS → List String → List String
  | [], _, acc => acc.reverse
  | (who, ev) :: rest, r, acc =>
    let tid := match who with | .ctl => 0 | .cur => r.curId | .other k => r.otherIds.getD k 0
    match (stepL c r.s).find? fun q => q.1 = who ∧ q.2.1 = ev with
    | none => acc.reverse
    | some q =>
      let r' := r.take c who ev q.2.2
      match evCode ev q.2.2 with
      | none => pathTokens c rest r' acc
      | some t => pathTokens c rest r' ((toString tid ++ t) :: acc)

end WorkerDrv
open WorkerDrv

def workerOp : List String → Option String
  | ["stats", cs] => do
    let c ← cfgArg cs
    let r := R c
    let tr := (r.map fun s => (step c s).length).foldl (· + ·) 0
    pure s!"ok states={r.length} transitions={tr} certified={bit (certified c r)} wf={bit progsWf}"
  | ["cex", cs] => do
    let c ← cfgArg cs
    match counterexample c with
    | none => pure "ok none"
    | some (s, path) =>
      let toks := pathTokens c path (startRS c) []
      pure ("ok " ++ "+".intercalate (failed c s) ++ " " ++ " ".intercalate toks)
  | "run" :: cs :: _hist :: _sched :: toks => do
    let c ← cfgArg cs
    match replay c toks 0 (startRS c) with
    | .inl (i, t) => pure s!"err not-a-run {i} {t}"
    | .inr r =>
      pure s!"ok safe={bit r.bad.isEmpty} flag={bit r.s.flag} handle={bit r.s.cur.isSome} live={live r.s} started={bit r.s.started}"
  | "why" :: cs :: _hist :: _sched :: toks => do
    let c ← cfgArg cs
    match replay c toks 0 (startRS c) with
    | .inl (i, t) => pure s!"err not-a-run {i} {t}"
    | .inr r => pure ("ok " ++ (if r.bad.isEmpty then "-" else "+".intercalate r.bad))
  | _ => none

end Nxs.Driver
