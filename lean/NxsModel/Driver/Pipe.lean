/-
  Driver ops for the serial-port pipe (one line = one whole history):
    pipe run <pad> <op;op;…>
        ops:  w:<hex> write   p:<n> set padding   r read   e|E read while the port raises SerialException
              D drop_all   s:<hex> other end sends   o:<k> OS delivers k bytes to the client
              t:<k> OS delivers k bytes to the other end   g other end takes what has arrived
        output: `ok ` + one item per op joined by `,` (`.` nothing observable, `r=<hex>` read result,
        `r!=<hex>` read that waited for the port timeout, `d=<hex>`/`d!=<hex>` bytes dropped by drop_all,
        `g=<hex>` bytes taken by the other end) + ` | pad=<n> rxf=<hex> rxw=<hex> txf=<hex> txw=<hex>`
    pipe sess <k,k,…> <hex>
        the other end sends <hex>; before every client read the OS delivers the next k bytes; after the list
        is used up everything left is delivered and read until the line is drained; output: the frames the client receive path
        extracts from the read results (`Reasm.run Serial.codec`), format of `reasm run`
    pipe open <bytesize> <parity> <stopbits>
        the settings of `Line.opened bytesize parity stopbits`, the line a `SerialDevice(port, baud, bytesize, parity,
        stopbits)` opens; an argument `-` is one the caller leaves out (the constructor's default, translator facts
        `Gen.SerialIntf.openDataBits / openParity / openStopBits`);
        output: `ok bits=<n> parity=<c> stop=<n> xonxoff=<0|1> rtscts=<0|1> dsrdtr=<0|1>`
-/
import NxsModel.Driver.Basic
import NxsModel.Driver.Reasm
import NxsModel.Pipe
import NxsModel.PipeLine
namespace Nxs.Driver
open Nxs Nxs.Pipe

def pipeOpArg (s : String) : Option Op :=
  match s.splitOn ":" with
  | ["r"] => some .read
  | ["e"] => some .readError
  | ["E"] => some .readError
  | ["D"] => some .dropAll
  | ["g"] => some .peerRecv
  | ["w", h] => (hexArg h).map .write
  | ["s", h] => (hexArg h).map .peerSend
  | ["p", n] => (natArg n).map .setPad
  | ["o", k] => (natArg k).map .osDeliver
  | ["t", k] => (natArg k).map .osDeliverTx
  | _ => none

def obsStr : Obs → String
  | .none => "."
  | .read b bl => (if bl then "r!=" else "r=") ++ b.hex
  | .drop b bl => (if bl then "d!=" else "d=") ++ b.hex
  | .peer b => "g=" ++ b.hex

def stateStr (s : State) : String :=
  s!"pad={s.pad} rxf={s.rxFlight.hex} rxw={s.rxWaiting.hex} txf={s.txFlight.hex} txw={s.txWaiting.hex}"

def bit01 (b : Bool) : String := if b then "1" else "0"

def lineStr (l : Line) : String :=
  s!"bits={l.dataBits} parity={l.parity} stop={l.stopBits} xonxoff={bit01 l.xonxoff} rtscts={bit01 l.rtscts} dsrdtr={bit01 l.dsrdtr}"

def pipeOp : List String → Option String
  | ["open", b, p, sb] => do
    let b ← if b = "-" then some Gen.SerialIntf.openDataBits else natArg b
    let p := if p = "-" then Gen.SerialIntf.openParity else p
    let sb ← if sb = "-" then some Gen.SerialIntf.openStopBits else natArg sb
    pure ("ok " ++ lineStr (Line.opened b p sb))
  | ["run", p, ops] => do
    let p ← natArg p
    let ops ← (ops.splitOn ";").mapM pipeOpArg
    let (s, obs) := run Port.real (init p) ops
    pure ("ok " ++ ",".intercalate (obs.map obsStr) ++ " | " ++ stateStr s)
  | ["sess", ks, h] => do
    let d ← hexArg h
    let ks ← if ks = "-" then some [] else (ks.splitOn ",").mapM natArg
    let ops := Op.peerSend d :: (ks.flatMap fun k => [Op.osDeliver k, Op.read]) ++ Op.osDeliver d.length :: List.replicate (d.length + 1) Op.read
    let (_, obs) := run Port.real (init 0) ops
    pure (framesStr (Reasm.run Serial.codec (readChunks obs)))
  | _ => none

end Nxs.Driver
