/-
  Driver op for the configuration machine:
    cfg run <flags> <initEn bits> <initDiv ints> <op;op;…>
  ops: e<c,c,…> d<c,c,…> v<val>:<c,c,…> D A N W:<oDiv>:<oEn>   outcomes: a | x | l | n<r>
  output, per op joined by " | ":
    s=<frames hex joined by ,|->;t=<tenths>;e=<err|->;now=<bits>/<ints>;new=…;dev=…;cp=…;rs=<b><b>
-/
import NxsModel.Driver.Codec
import NxsModel.Config
namespace Nxs.Driver
open Nxs Nxs.Config

def natsArg (s : String) : Option (List Nat) :=
  if s = "" ∨ s = "-" then some [] else (s.splitOn ",").mapM (·.toNat?)

def outcomeArg (s : String) : Option Outcome :=
  if s = "a" then some .ack else if s = "x" then some .appliedAckLost else if s = "l" then some .lost
  else if s.startsWith "n" then (s.drop 1).toString.toInt?.map .nack else none

def opArg (s : String) : Option Op :=
  if s = "D" then some .defaultCfg else if s = "A" then some .enableAll else if s = "N" then some .disableAll
  else if s.startsWith "W:" then
    match s.splitOn ":" with
    | [_, a, b] => do pure (.write (← outcomeArg a) (← outcomeArg b))
    | _ => none
  else if s.startsWith "e" then (natsArg (s.drop 1).toString).map .enable
  else if s.startsWith "d" then (natsArg (s.drop 1).toString).map .disable
  else if s.startsWith "v" then
    match (s.drop 1).toString.splitOn ":" with
    | [v, cs] => do pure (.divider (← natsArg cs) (← v.toInt?))
    | _ => none
  else none

def cfgState (c : Client) (d : Device) (o : StepOut) : String :=
  let sent := if o.sent.isEmpty then "-" else ",".intercalate (o.sent.map Bytes.hex)
  let e := match o.err with | some e => e.name | none => "-"
  s!"s={sent};t={o.time};e={e};now={bitsStr c.enNow}/{intsStr c.divNow};new={bitsStr c.enNew}/{intsStr c.divNew};dev={bitsStr d.en}/{intsStr d.div};cp={bitsStr c.copyEn}/{intsStr c.copyDiv};rs={boolStr c.enResync}{boolStr c.divResync}"

def cfgRun (c : Client) (d : Device) : List Op → List String
  | [] => []
  | op :: r =>
    let (c1, d1, o) := step c d op
    cfgState c1 d1 o :: cfgRun c1 d1 r

def cfgOp : List String → Option String
  | ["run", flags, en, div, ops] => do
    let fl ← natArg flags; let en ← bitsArg en; let div ← intsArg div
    let ops ← (ops.splitOn ";").mapM opArg
    let d : Device := ⟨en, div⟩
    pure ("ok " ++ " | ".intercalate (cfgRun (Client.init d fl) d ops))
  | _ => none

end Nxs.Driver
