import NxsModel.Driver.Basic
import NxsModel.Serial
namespace Nxs.Driver
open Nxs

/-- ops: create <fid> <hex|none> ; decode <hex> ; hdr <hex> ; crc <hex> ; foot <hex> ; find <hex> -/
def frameOp : List String → Option String
  | ["create", fid, p] => do
    let f ← natArg fid
    let d ← if p = "none" then some none else (hexArg p).map some
    pure (showExcept Bytes.hex (Serial.frameCreate f d))
  | ["decode", h] => do
    let d ← hexArg h
    pure (showExcept (fun fr => s!"{fr.fid} {fr.data.hex}") (Serial.frameDecode d))
  | ["hdr", h] => do
    let d ← hexArg h
    pure (showExcept (fun x => s!"{x.fid} {x.flen}") (Serial.hdrDecode d))
  | ["crc", h] => do
    let d ← hexArg h
    pure s!"ok {(crc Gen.Crc.params d).toNat}"
  | ["foot", h] => do
    let d ← hexArg h
    pure s!"ok {boolStr (Serial.footValidate d)}"
  | ["find", h] => do
    let d ← hexArg h
    pure (match Serial.hdrFind d with | some i => s!"ok {i}" | none => "ok -1")
  | _ => none

end Nxs.Driver
