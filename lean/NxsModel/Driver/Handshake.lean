/-
  Driver ops for the connect handshake and for sessions:
    hs connect <chmax> <flags> <rxp> <script> <dflt>
        script: letters o s w h g n x r u (ok silent wrong short garbage nack noise wrongStream badName), `-` = empty
        output: <outcome> t=<tenths> thr=<0|1> intf=<0|1> sent=<S C I<i> P<n> …> | after disconnect: t=… thr=… intf=…
    hs sess <l|h> <chmax> <flags> <rxp> <script> <dflt> <ops> <chunk> [noise=<period ms>:<hex>]
        ops: letters c s t d p (connect, stream start, stream stop, disconnect, pause 0.3 s) on ONE handler object
        (l = CommHandler, h = NxscopeHandler); `chunk` (bytes per read of the link) does not matter to the model;
        a sustained noise source is predicted (as: no effect) only for a device that never answers, noise without a
        decodable header and a period of at most 5 ms — otherwise `bad-op`
        output: per call <op>=<result>@<tenths>/<library threads alive>/<interface started>, then sent=<requests>

  The model leaves the time the stream thread's last `stream_data()` poll still needs when it is joined to the
  adversary (`w ≤ streamPollTimeout`).  The harness runs the real threads under a deterministic scheduler (a new
  thread first runs when its creator first blocks; at equal deadlines the poll of the stream thread is served before
  the main thread's wait): `joinWait` computes the `w` of THAT schedule, so that times can be compared exactly.
-/
import NxsModel.Driver.Basic
import NxsModel.Handshake
namespace Nxs.Driver
open Nxs Nxs.Handshake

def respArg : Char → Option Resp
  | 'o' => some .ok | 's' => some .silent | 'w' => some .wrong | 'h' => some .short
  | 'g' => some .garbage | 'n' => some .nack | 'x' => some .noise | 'r' => some .wrongStream
  | 'u' => some .badName | _ => none

def reqStr : Req → String
  | .stop => "S" | .cmninfo => "C" | .chinfo c => s!"I{c}" | .padding n => s!"P{n}"

def hsSentStr : Sent → String
  | .info r => reqStr r | .start => "T" | .enable => "E" | .div => "D"

def outcomeStr : Outcome → String
  | .connected a b c => s!"connected {a} {b} {c}"
  | .raised e => s!"raised {e.name}"

def hsOpArg : Char → Option Op
  | 'c' => some .connect | 's' => some .streamStart | 't' => some .streamStop | 'd' => some .disconnect
  | 'p' => some .pause | _ => none

def hsOpChar : Op → String
  | .connect => "c" | .streamStart => "s" | .streamStop => "t" | .disconnect => "d" | .pause => "p"

def hsOpResStr : OpRes → String
  | .ok => "ok" | .ack => "ack" | .noack => "noack"
  | .connected a b c => s!"connected:{a}:{b}:{c}"
  | .raised e => s!"raised:{e.name}"

/-- can the periodic repetition of the blob contain a decodable serial header (start byte, frame id ≤ 8)? -/
def hsHasHeader (b : List Nat) : Bool :=
  let s := if b.length < 8 then b ++ b ++ b else b ++ b.take 8
  (List.range (s.length - 3)).any fun i => s.getD i 0 == 0x55 && s.getD (i + 3) 255 ≤ 8

/-- scheduler bookkeeping for the stream thread: `pending` = started but not yet run; `pollStart` = when its polling began -/
structure HsPhase where
  pending : Bool := false
  pollStart : Option Nat := none

/-- the main thread blocks at time `t` (the stream thread, if only pending, starts polling now) -/
def HsPhase.block (ph : HsPhase) (t : Nat) : HsPhase :=
  if ph.pending then { pending := false, pollStart := some t } else ph

/-- the wait of a join of the stream thread at time `t` -/
def HsPhase.joinWait (ph : HsPhase) (t : Nat) : Nat :=
  match ph.pollStart with
  | none => 0
  | some t0 => streamPollTimeout - ((t - t0) % streamPollTimeout)

def hsSessLoop (lvl : Level) : Sess → HsPhase → List Op → List String → List String × Sess
  | x, _, [], acc => (acc.reverse, x)
  | x, ph, op :: rest, acc =>
    let awaited := x.started && Info.ackSupported x.dev.flags
    let t0 := x.st.time
    -- does this call join the stream thread, and when?
    let joins := lvl == .high && x.streamStarted && (op == .streamStop || (op == .disconnect && x.connected))
    -- a STREAM frame as the answer to the stop request reaches the stream thread at once: its poll restarts at t0
    let restart := joins && awaited && x.st.next.1 == Resp.wrongStream
    let ph1 := if restart then ({ pending := false, pollStart := some t0 } : HsPhase)
               else if joins then (if awaited then ph.block t0 else ph)
               else if op == .pause then ph.block t0 else ph
    let w := if joins then
               -- time of the join = after the stop request's ACK wait
               let tj := (ackReq x (.info .stop) Gen.Comm.ackTimeoutStop).2.st.time
               ph1.joinWait tj
             else 0
    let (r, y) := step lvl x op w
    -- every other call in which the main thread blocks lets a pending stream thread start polling when the call began
    let blocked : Bool := match op with
      | .pause => true
      | .connect => !x.started && (lvl == .low || !x.connected)
      | .disconnect => if lvl == .low then x.started else x.connected
      | .streamStart => if lvl == .low then awaited else (!x.streamStarted && awaited)
      | .streamStop => if lvl == .low then awaited else (x.streamStarted && awaited)
    let ph2 := if joins && !y.streamThr then ({} : HsPhase)
               else if blocked then ph1.block t0 else ph1
    -- a stream thread started by this call is pending from now on
    let ph3 := if !x.streamThr && y.streamThr then ({ pending := true } : HsPhase) else ph2
    let line := s!"{hsOpChar op}={hsOpResStr r}@{y.st.time}/{y.threads}/{boolStr y.intf}"
    hsSessLoop lvl y ph3 rest (line :: acc)

def hsOp : List String → Option String
  | ["connect", chmax, flags, rxp, script, dflt] => do
    let chmax ← natArg chmax; let flags ← natArg flags; let rxp ← natArg rxp
    let sc ← if script = "-" then some [] else script.toList.mapM respArg
    let d ← match dflt.toList with | [c] => respArg c | _ => none
    let r := connect ⟨chmax, flags, rxp⟩ sc d
    let r2 := disconnectAfter r
    pure s!"{outcomeStr r.outcome} t={r.time} thr={boolStr r.recvThreadRunning} intf={boolStr r.intfRunning} sent={" ".intercalate (r.sent.map reqStr)} | t={r2.time} thr={boolStr r2.recvThreadRunning} intf={boolStr r2.intfRunning} bound={bound chmax}"
  | "sess" :: lvl :: chmax :: flags :: rxp :: script :: dflt :: ops :: _chunk :: extra => do
    let lvl ← match lvl with | "l" => some Level.low | "h" => some Level.high | _ => none
    let chmax ← natArg chmax; let flags ← natArg flags; let rxp ← natArg rxp
    let sc ← if script = "-" then some [] else script.toList.mapM respArg
    let d ← match dflt.toList with | [c] => respArg c | _ => none
    let ops ← ops.toList.mapM hsOpArg
    match extra with
    | [] => pure ()
    | [nz] =>
      -- noise=<ms>:<hex>
      match nz.splitOn "=" with
      | ["noise", spec] =>
        match spec.splitOn ":" with
        | [ms, hex] =>
          let ms ← natArg ms
          let blob ← hexArg hex
          let quiet := (d :: sc).all fun r => r == Resp.silent || r == Resp.noise
          let nat : List Nat := blob.map fun (b : Byte) => b.toNat
          if quiet && ms ≤ 5 && ms ≥ 1 && !hsHasHeader nat then pure () else none
        | _ => none
      | _ => none
    | _ => none
    let (lines, x) := hsSessLoop lvl (Sess.fresh ⟨chmax, flags, rxp⟩ sc d) {} ops []
    pure s!"{" ".intercalate lines} sent={" ".intercalate (x.log.map hsSentStr)}"
  | _ => none

end Nxs.Driver
