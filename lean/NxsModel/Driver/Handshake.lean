/-
  Driver op for the connect handshake:
    hs connect <chmax> <flags> <rxp> <script> <dflt>     script: letters o s w h (ok silent wrong short), `-` = empty
  output: <outcome> t=<tenths> thr=<0|1> intf=<0|1> sent=<S C I<i> P<n> …> | after disconnect: t=… thr=… intf=…
-/
import NxsModel.Driver.Basic
import NxsModel.Handshake
namespace Nxs.Driver
open Nxs Nxs.Handshake

def respArg : Char → Option Resp
  | 'o' => some .ok | 's' => some .silent | 'w' => some .wrong | 'h' => some .short | _ => none

def reqStr : Req → String
  | .stop => "S" | .cmninfo => "C" | .chinfo c => s!"I{c}" | .padding n => s!"P{n}"

def outcomeStr : Outcome → String
  | .connected a b c => s!"connected {a} {b} {c}"
  | .raised e => s!"raised {e.name}"

def hsOp : List String → Option String
  | ["connect", chmax, flags, rxp, script, dflt] => do
    let chmax ← natArg chmax; let flags ← natArg flags; let rxp ← natArg rxp
    let sc ← if script = "-" then some [] else script.toList.mapM respArg
    let d ← match dflt.toList with | [c] => respArg c | _ => none
    let r := connect ⟨chmax, flags, rxp⟩ sc d
    let r2 := disconnectAfter r
    pure s!"{outcomeStr r.outcome} t={r.time} thr={boolStr r.recvThreadRunning} intf={boolStr r.intfRunning} sent={" ".intercalate (r.sent.map reqStr)} | t={r2.time} thr={boolStr r2.recvThreadRunning} intf={boolStr r2.intfRunning} bound={bound chmax}"
  | _ => none

end Nxs.Driver
