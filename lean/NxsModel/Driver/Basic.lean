/-
  Driver basics: argument parsing helpers shared by the per-module drivers.
  Line protocol: one operation per line, `op arg arg …`; bytes as hex (`-` = empty).
-/
import NxsModel.Bytes
import NxsModel.Struct
namespace Nxs.Driver

def showExcept (f : α → String) : Except Err α → String
  | .ok a => "ok " ++ f a
  | .error e => "err " ++ e.name

def natArg (s : String) : Option Nat := s.toNat?
def intArg (s : String) : Option Int := s.toInt?
def hexArg (s : String) : Option Bytes := Bytes.ofHex s

def boolStr (b : Bool) : String := if b then "1" else "0"

end Nxs.Driver
