/-
  Driver ops for the pure codecs: recv (Dispatch), req (Requests), info (Info), pad (Pad),
  rec (Record).
-/
import NxsModel.Driver.Basic
import NxsModel.Dispatch
import NxsModel.Requests
import NxsModel.Info
import NxsModel.Pad
import NxsModel.Record
namespace Nxs.Driver
open Nxs

def recvOp : List String → Option String
  | ["handle", h] => do
    let d ← hexArg h
    pure (match Dispatch.recvHandle d with
      | .ignored => "ignored"
      | .fired cb p => s!"fired {Dispatch.cbName cb} {p.hex}"
      | .raised e => s!"raised {e.name}")
  | _ => none

def bitsArg (s : String) : Option (List Bool) :=
  if s = "-" then some [] else s.toList.mapM fun c => if c = '0' then some false else if c = '1' then some true else none

def bitsStr (l : List Bool) : String := if l.isEmpty then "-" else String.ofList (l.map fun b => if b then '1' else '0')

def intsArg (s : String) : Option (List Int) :=
  if s = "-" then some [] else (s.splitOn ",").mapM (·.toInt?)

def intsStr (l : List Int) : String := if l.isEmpty then "-" else ",".intercalate (l.map toString)

def reqOp : List String → Option String
  | ["start", b] => do
    let v ← natArg b
    pure (showExcept Bytes.hex (Requests.frameStart (v ≠ 0)))
  | ["cmninfo"] => pure (showExcept Bytes.hex Requests.frameCmninfo)
  | ["chinfo", c] => do
    let v ← intArg c
    pure (showExcept Bytes.hex (Requests.frameChinfo v))
  | ["en", "single", c, v, n] => do
    let c ← intArg c; let v ← natArg v; let n ← natArg n
    pure (showExcept Bytes.hex (Requests.frameEnable (.single c (v ≠ 0)) n))
  | ["en", "vec", bits, n] => do
    let vs ← bitsArg bits; let n ← natArg n
    pure (showExcept Bytes.hex (Requests.frameEnable (.vec vs) n))
  | ["div", "single", c, v, n] => do
    let c ← intArg c; let v ← intArg v; let n ← natArg n
    pure (showExcept Bytes.hex (Requests.frameDiv (.single c v) n))
  | ["div", "vec", vs, n] => do
    let vs ← intsArg vs; let n ← natArg n
    pure (showExcept Bytes.hex (Requests.frameDiv (.vec vs) n))
  | ["dstart", h] => do
    let d ← hexArg h
    pure (showExcept boolStr (Requests.frameStartDecode d))
  | ["den", h, n, cur] => do
    let d ← hexArg h; let n ← natArg n; let cur ← bitsArg cur
    pure (showExcept bitsStr (Requests.frameEnableDecode d n cur))
  | ["ddiv", h, n, cur] => do
    let d ← hexArg h; let n ← natArg n; let cur ← intsArg cur
    pure (showExcept intsStr (Requests.frameDivDecode d n cur))
  | _ => none

def infoOp : List String → Option String
  | ["cmn", a, b, c] => do
    let a ← intArg a; let b ← intArg b; let c ← intArg c
    pure (showExcept Bytes.hex (Info.cmninfoEncode a b c))
  | ["ch", en, ty, vdim, div, mlen, name] => do
    let en ← natArg en; let ty ← intArg ty; let vdim ← intArg vdim; let div ← intArg div
    let mlen ← intArg mlen; let name ← hexArg name
    pure (showExcept Bytes.hex (Info.chinfoEncode ⟨en ≠ 0, ty, vdim, div, mlen, name⟩))
  | ["ack", r] => do
    let r ← intArg r
    pure (showExcept Bytes.hex (Info.ackEncode r))
  | ["dcmn", fid, h] => do
    let fid ← natArg fid; let d ← hexArg h
    pure (showExcept (fun o => match o with
      | none => "none"
      | some (a, b, c) => s!"{a} {b} {c} {boolStr (Info.divSupported b)} {boolStr (Info.ackSupported b)}")
      (Info.cmninfoDecode ⟨fid, d⟩))
  | ["dch", fid, h] => do
    let fid ← natArg fid; let d ← hexArg h
    pure (showExcept (fun o => match o with
      | none => "none"
      | some c => s!"{boolStr c.en} {c.type} {c.vdim} {c.div} {c.mlen} {c.name.hex} {Info.dtypeOf c.type} {boolStr (Info.criticalOf c.type)} {Info.typeResOf c.type} {boolStr (Info.isValidOf c.type)} {boolStr (Info.isNumericalOf c.type)}")
      (Info.chinfoDecode ⟨fid, d⟩))
  | ["dack", fid, h] => do
    let fid ← natArg fid; let d ← hexArg h
    pure (showExcept (fun o => match o with
      | none => "none"
      | some (st, r) => s!"{boolStr st} {r}") (Info.ackDecode ⟨fid, d⟩))
  | _ => none

def padOp : List String → Option String
  | ["align", p, h] => do
    let p ← natArg p; let d ← hexArg h
    pure s!"ok {(Pad.dataAlign p d).hex}"
  | ["seq", items] => do
    -- a sequence of (write_padding := p; write d) on ONE interface object: `p:hex,p:hex,…`
    let outs ← (items.splitOn ",").mapM fun it =>
      match it.splitOn ":" with
      | [p, h] => do
        let p ← natArg p; let d ← hexArg h
        pure (Pad.dataAlign p d).hex
      | _ => none
    pure ("ok " ++ ",".intercalate outs)
  | _ => none

/-- rec chan <type> <field> <value> ; rec dev <flags> <field> <value> : build the record (all
    other init arguments 7), assign, report `err type` or the value read back; rec get … reads -/
def recOp : List String → Option String
  | ["chan", ty, field, v] => do
    let ty ← natArg ty; let v ← intArg v
    pure (match Record.mkChan (fun _ => 7) ty with
      | .error e => s!"err-init {e.name}"
      | .ok d =>
        match Record.setattr Gen.Record.chanAllow d field v with
        | .error e => s!"err {e.name} {(d.get? field).map toString |>.getD "absent"}"
        | .ok d' => s!"ok {(d'.get? field).map toString |>.getD "absent"}")
  | ["dev", fl, field, v] => do
    let fl ← natArg fl; let v ← intArg v
    pure (match Record.mkDev (fun _ => 7) fl with
      | .error e => s!"err-init {e.name}"
      | .ok d =>
        match Record.setattr Gen.Record.devAllow d field v with
        | .error e => s!"err {e.name} {(d.get? field).map toString |>.getD "absent"}"
        | .ok d' => s!"ok {(d'.get? field).map toString |>.getD "absent"}")
  | ["chanall", ty] => do
    let ty ← natArg ty
    pure (match Record.mkChan (fun _ => 7) ty with
      | .error e => s!"err-init {e.name}"
      | .ok d => "ok " ++ " ".intercalate (d.map fun (k, v) => s!"{k}={v}"))
  | ["devall", fl] => do
    let fl ← natArg fl
    pure (match Record.mkDev (fun _ => 7) fl with
      | .error e => s!"err-init {e.name}"
      | .ok d => "ok " ++ " ".intercalate (d.map fun (k, v) => s!"{k}={v}"))
  | _ => none

end Nxs.Driver
