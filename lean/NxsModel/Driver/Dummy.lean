/-
  Driver op for the simulated device (`Dummy.lean`): one line = a whole history.
    dummy run <defs> <ops>
  defs : instance definitions joined by `+`
           D,<flags>,<pad>,<snum>                 default channel set
           C,<flags>,<pad>,<snum>,<chan>:<chan>…  freshly built channels, chan = type.vdim.mlen.gen.en.div.namehex[.id]
                                                   (gen: 0..9 = ChannelFunc<k>, 10 = user vector function, 11 = user function
                                                    of the call index, 12 = sparse user function of the call index,
                                                    n = no function; id = the `chan` argument of `DeviceChannel(...)`:
                                                    the device addresses channels by POSITION, the id is read by nothing
                                                    on the device side — parsed and ignored here)
           A,<flags>,<pad>,<snum>,<k>             the channel objects of instance k (same list object)
         pad = <rxp> | <rxp>/<wpad> | <rxp>/<wpad>/<sleep_ms>: rx padding the device reports, the interface's write
         padding (default: = rxp, what a client sets), `stream_sleep` in ms (the model has no clock: parsed and ignored)
  ops  : joined by `;`, each `<k><code>[arg]`: w<hex> write · R recv step · S stream step · r read ·
         a start · z stop · d state dump · n construct instance k NOW (an instance with an `n` op is not
         constructed up-front but at that op, in the world the earlier ops left: `World.newDefault` / `newCustom` /
         `newAt` on the current heap)
  output: `ok` then one token per op: `.` (nothing to see) · `!e1,e2` (exceptions that ended threads) ·
         read: `-` (empty) | frame hex | `S<payload hex>` for a stream frame (unmodelled values are zero bits) ·
         dump: <en bits>/<dividers>/<stream flag>/<len qwrite>/<len qread>/<call counters> ·
         `?` for an op on an instance that does not exist (yet)
-/
import NxsModel.Driver.Basic
import NxsModel.Dummy
namespace Nxs.Driver
open Nxs Nxs.Dummy

def dummyChanArg (s : String) : Option Chan := do
  let mk (ty vdim mlen gen en div name : String) : Option Chan := do
    let ty ← natArg ty; let vdim ← natArg vdim; let mlen ← natArg mlen
    let g ← if gen = "n" then some none else (natArg gen).map some
    let en ← natArg en; let div ← natArg div
    let nm ← hexArg name
    pure ⟨en ≠ 0, ty, vdim, div, mlen, nm, g, 0, 1, 0⟩
  match s.splitOn "." with
  | [ty, vdim, mlen, gen, en, div, name] => mk ty vdim mlen gen en div name
  | [ty, vdim, mlen, gen, en, div, name, cid] =>
    -- the channel id given to `DeviceChannel(...)`: no part of the model (channels are addressed by position)
    let _ ← natArg cid
    mk ty vdim mlen gen en div name
  | _ => none

/-- `<rxp>` | `<rxp>/<wpad>` | `<rxp>/<wpad>/<sleep_ms>` → (rxp, wpad) -/
def dummyPadArg (s : String) : Option (Nat × Nat) := do
  match s.splitOn "/" with
  | [r] => let r ← natArg r; pure (r, r)
  | [r, w] => let r ← natArg r; let w ← natArg w; pure (r, w)
  | [r, w, sl] => let r ← natArg r; let w ← natArg w; let _ ← natArg sl; pure (r, w)
  | _ => none

/-- a parsed instance definition -/
inductive DummyDef where
  | dflt (flags rxp snum wpad : Nat)
  | custom (cs : List Chan) (flags rxp snum wpad : Nat)
  | alias (flags rxp snum wpad k : Nat)

def dummyDefArg (s : String) : Option DummyDef := do
  match s.splitOn "," with
  | ["D", flags, pad, snum] =>
    let f ← natArg flags; let (r, wp) ← dummyPadArg pad; let n ← natArg snum
    pure (.dflt f r n wp)
  | ["C", flags, pad, snum, chans] =>
    let f ← natArg flags; let (r, wp) ← dummyPadArg pad; let n ← natArg snum
    let cs ← (chans.splitOn ":").mapM dummyChanArg
    pure (.custom cs f r n wp)
  | ["A", flags, pad, snum, k] =>
    let f ← natArg flags; let (r, wp) ← dummyPadArg pad; let n ← natArg snum; let k ← natArg k
    pure (.alias f r n wp k)
  | _ => none

/-- the driver's state: the world and, per definition, the index of its instance in the world (none = not constructed) -/
abbrev DummySt := World × List (Option Nat)

/-- construct the instance of definition number `k` in the current world -/
def dummyConstruct (st : DummySt) (k : Nat) (d : DummyDef) : Option DummySt := do
  let (w, idx) := st
  let w' ← match d with
    | .dflt f r n wp => some (w.newDefault f r n wp)
    | .custom cs f r n wp => some (w.newCustom cs f r n wp)
    | .alias f r n wp a => do
      let j ← (idx[a]?).join
      let i ← w.insts[j]?
      some (w.newAt i.addrs f r n wp)
  pure (w', idx.set k (some w.insts.length))

inductive DummyCode where
  | op (o : Op)
  | dump
  | construct

def dummyOpArg (s : String) : Option (Nat × DummyCode) :=
  match s.toList with
  | k :: code :: rest =>
    if k.isDigit then
      let k := k.toNat - 48
      match code with
      | 'w' => (hexArg (String.ofList rest)).map fun d => (k, .op (.write d))
      | 'R' => if rest.isEmpty then some (k, .op .recvStep) else none
      | 'S' => if rest.isEmpty then some (k, .op .streamStep) else none
      | 'r' => if rest.isEmpty then some (k, .op .read) else none
      | 'a' => if rest.isEmpty then some (k, .op .start) else none
      | 'z' => if rest.isEmpty then some (k, .op .stop) else none
      | 'd' => if rest.isEmpty then some (k, .dump) else none
      | 'n' => if rest.isEmpty then some (k, .construct) else none
      | _ => none
    else none
  | _ => none

def dummyFrameStr (f : Bytes) : String :=
  if f.isEmpty then "-"
  else if f[3]? = some 1 ∧ f.length ≥ 6 then "S" ++ Bytes.toHex ((f.drop 4).take (f.length - 6))
  else f.toHex

def dummyObsStr : Obs → String
  | .none => "."
  | .bytes b => dummyFrameStr b
  | .errs es => "!" ++ ",".intercalate (es.map Err.name)

def dummyDumpStr (w : World) (k : Nat) : String :=
  match w.insts[k]? with
  | none => "?"
  | some i =>
    let cs := gather w.heap i.addrs
    let ens := String.ofList ((ensOf cs).map fun b => if b then '1' else '0')
    let ds := ",".intercalate ((divsOf cs).map toString)
    let calls := ",".intercalate (cs.map fun c => toString c.calls)
    s!"{ens}/{ds}/{boolStr i.flag}/{i.qwrite.length}/{i.qread.length}/{calls}"

def dummyRun (defs : List DummyDef) (st : DummySt) : List (Nat × DummyCode) → List String
  | [] => []
  | (k, .construct) :: rest =>
    match (st.2[k]?).join, defs[k]? with
    | none, some d =>
      match dummyConstruct st k d with
      | some st' => "." :: dummyRun defs st' rest
      | none => "?" :: dummyRun defs st rest
    | _, _ => "?" :: dummyRun defs st rest
  | (k, .dump) :: rest =>
    match (st.2[k]?).join with
    | some j => dummyDumpStr st.1 j :: dummyRun defs st rest
    | none => "?" :: dummyRun defs st rest
  | (k, .op op) :: rest =>
    match (st.2[k]?).join with
    | some j =>
      let (w', o) := st.1.step j op
      dummyObsStr o :: dummyRun defs (w', st.2) rest
    | none => "?" :: dummyRun defs st rest

/-- the instances without an `n` op are constructed up-front, in definition order -/
def dummyInit (defs : List DummyDef) (late : List Nat) : Option DummySt :=
  (List.range defs.length).foldlM (fun st k =>
    if late.contains k then some st
    else match defs[k]? with
      | some d => dummyConstruct st k d
      | none => none) (World.init, List.replicate defs.length none)

def dummyOp : List String → Option String
  | ["run", defs, ops] => do
    let ds ← (defs.splitOn "+").mapM dummyDefArg
    let os ← (ops.splitOn ";").mapM dummyOpArg
    let late := os.filterMap fun p => match p.2 with | .construct => some p.1 | _ => none
    let st ← dummyInit ds late
    pure ("ok " ++ " ".intercalate (dummyRun ds st os))
  | _ => none

end Nxs.Driver
