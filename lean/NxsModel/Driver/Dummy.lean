/-
  Driver op for the simulated device (`Dummy.lean`): one line = a whole history.
    dummy run <defs> <ops>
  defs : instance definitions joined by `+`
           D,<flags>,<rxp>,<snum>                 default channel set
           C,<flags>,<rxp>,<snum>,<chan>:<chan>…  freshly built channels, chan = type.vdim.mlen.gen.en.div.namehex
                                                   (gen: 0..9 = ChannelFunc<k>, 10 = user vector function, 11 = user function
                                                    of the call index, 12 = sparse user function of the call index,
                                                    n = no function)
           A,<flags>,<rxp>,<snum>,<k>             the channel objects of instance k (same list object)
         the interface's write padding is set to rxp
  ops  : joined by `;`, each `<k><code>[arg]`: w<hex> write · R recv step · S stream step · r read ·
         a start · z stop · d state dump
  output: `ok` then one token per op: `.` (nothing to see) · `!e1,e2` (exceptions that ended threads) ·
         read: `-` (empty) | frame hex | `S<payload hex>` for a stream frame (unmodelled values are zero bits) ·
         dump: <en bits>/<dividers>/<stream flag>/<len qwrite>/<len qread>/<call counters>
-/
import NxsModel.Driver.Basic
import NxsModel.Dummy
namespace Nxs.Driver
open Nxs Nxs.Dummy

def dummyChanArg (s : String) : Option Chan := do
  match s.splitOn "." with
  | [ty, vdim, mlen, gen, en, div, name] =>
    let ty ← natArg ty; let vdim ← natArg vdim; let mlen ← natArg mlen
    let g ← if gen = "n" then some none else (natArg gen).map some
    let en ← natArg en; let div ← natArg div
    let nm ← hexArg name
    pure ⟨en ≠ 0, ty, vdim, div, mlen, nm, g, 0, 1, 0⟩
  | _ => none

def dummyInstArg (w : World) (s : String) : Option World := do
  match s.splitOn "," with
  | ["D", flags, rxp, snum] =>
    let f ← natArg flags; let r ← natArg rxp; let n ← natArg snum
    pure (w.newDefault f r n r)
  | ["C", flags, rxp, snum, chans] =>
    let f ← natArg flags; let r ← natArg rxp; let n ← natArg snum
    let cs ← (chans.splitOn ":").mapM dummyChanArg
    pure (w.newCustom cs f r n r)
  | ["A", flags, rxp, snum, k] =>
    let f ← natArg flags; let r ← natArg rxp; let n ← natArg snum; let k ← natArg k
    let i ← w.insts[k]?
    pure (w.newAt i.addrs f r n r)
  | _ => none

def dummyWorldArg (s : String) : Option World :=
  (s.splitOn "+").foldlM dummyInstArg World.init

def dummyOpArg (s : String) : Option (Nat × Option Op) :=
  match s.toList with
  | k :: code :: rest =>
    if k.isDigit then
      let k := k.toNat - 48
      match code with
      | 'w' => (hexArg (String.ofList rest)).map fun d => (k, some (.write d))
      | 'R' => if rest.isEmpty then some (k, some .recvStep) else none
      | 'S' => if rest.isEmpty then some (k, some .streamStep) else none
      | 'r' => if rest.isEmpty then some (k, some .read) else none
      | 'a' => if rest.isEmpty then some (k, some .start) else none
      | 'z' => if rest.isEmpty then some (k, some .stop) else none
      | 'd' => if rest.isEmpty then some (k, none) else none
      | _ => none
    else none
  | _ => none

def dummyFrameStr (f : Bytes) : String :=
  if f.isEmpty then "-"
  else if f[3]? = some 1 ∧ f.length ≥ 6 then "S" ++ Bytes.toHex ((f.drop 4).take (f.length - 6))
  else f.toHex

def dummyObsStr : Obs → String
  | .none => "."
  | .bytes b => dummyFrameStr b
  | .errs es => "!" ++ ",".intercalate (es.map Err.name)

def dummyDumpStr (w : World) (k : Nat) : String :=
  match w.insts[k]? with
  | none => "?"
  | some i =>
    let cs := gather w.heap i.addrs
    let ens := String.ofList ((ensOf cs).map fun b => if b then '1' else '0')
    let ds := ",".intercalate ((divsOf cs).map toString)
    let calls := ",".intercalate (cs.map fun c => toString c.calls)
    s!"{ens}/{ds}/{boolStr i.flag}/{i.qwrite.length}/{i.qread.length}/{calls}"

def dummyRun (w : World) : List (Nat × Option Op) → List String
  | [] => []
  | (k, none) :: rest => dummyDumpStr w k :: dummyRun w rest
  | (k, some op) :: rest =>
    let (w', o) := w.step k op
    dummyObsStr o :: dummyRun w' rest

def dummyOp : List String → Option String
  | ["run", defs, ops] => do
    let w ← dummyWorldArg defs
    let os ← (ops.splitOn ";").mapM dummyOpArg
    pure ("ok " ++ " ".intercalate (dummyRun w os))
  | _ => none

end Nxs.Driver
