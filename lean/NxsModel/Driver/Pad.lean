/-
  Driver op for the composition client builder → interface write → device-side dispatcher (C17):
    padreq seq <item>;<item>;…        item = <p>:<req>
  ONE `Parser`, ONE interface object and ONE `ParseRecv`; for each item in order: `write_padding := p`, the request is built
  and written, and the bytes handed to `_write` are given to `recv_handle`.
  req : s0 | s1 (start) · c (cmninfo) · h.<chan> (chinfo) · e.<n>.<chan>.<0|1> (enable single) · E.<n>.<bits> (enable vector)
        · d.<n>.<chan>.<div> (div single) · D.<n>.<v>/<v>/… (div vector)          (n = chmax)
  output: `ok` then one token per item joined by `;`: `<written hex>|<reaction>` or `err:<name>` when the builder raised
          (nothing written); reaction = ignored | fired:<callback>:<payload hex> | raised:<name>
-/
import NxsModel.Driver.Basic
import NxsModel.Pad
import NxsModel.Dispatch
namespace Nxs.Driver
open Nxs

def padBitsArg (s : String) : Option (List Bool) :=
  if s = "-" then some [] else s.toList.mapM fun c => if c = '0' then some false else if c = '1' then some true else none

def padNatsArg (s : String) : Option (List Nat) :=
  if s = "-" then some [] else (s.splitOn "/").mapM natArg

def padReqArg (s : String) : Option Pad.ClientReq :=
  match s.splitOn "." with
  | ["s0"] => some (.start false)
  | ["s1"] => some (.start true)
  | ["c"] => some .cmninfo
  | ["h", c] => (natArg c).map .chinfo
  | ["e", n, c, v] => do
    let n ← natArg n; let c ← natArg c; let v ← natArg v
    pure (.enSingle n c (v ≠ 0))
  | ["E", n, bits] => do
    let n ← natArg n; let vs ← padBitsArg bits
    pure (.enVec n vs)
  | ["d", n, c, v] => do
    let n ← natArg n; let c ← natArg c; let v ← natArg v
    pure (.divSingle n c v)
  | ["D", n, vs] => do
    let n ← natArg n; let vs ← padNatsArg vs
    pure (.divVec n vs)
  | _ => none

def padDispStr : Dispatch.Disp → String
  | .ignored => "ignored"
  | .fired cb p => s!"fired:{Dispatch.cbName cb}:{p.hex}"
  | .raised e => s!"raised:{e.name}"

def padReqItem (s : String) : Option String :=
  match s.splitOn ":" with
  | [p, r] => do
    let p ← natArg p; let r ← padReqArg r
    pure (match r.written p with
      | .ok w => s!"{w.hex}|{padDispStr (Dispatch.recvHandle w)}"
      | .error e => s!"err:{e.name}")
  | _ => none

def padReqOp : List String → Option String
  | ["seq", items] => do
    let outs ← (items.splitOn ";").mapM padReqItem
    pure ("ok " ++ ";".intercalate outs)
  | _ => none

end Nxs.Driver
