/-
  Driver ops of C06 under the `info` prefix that go beyond the plain codecs of Driver/Codec.lean:
    info utf8 <hex>                         → ok 1|0            (`validUtf8`)
    info enc <cp,cp,…>                      → ok <hex> | err unicode   (`utf8Encode`)
    info cht en ty vdim div mlen <cp,cp,…>  → chinfo response for a channel whose name is a text
    info connect <v> <flags> <rxp> <ch;ch;…> → the client's description after connect() against the
                                              conforming device; ch = en,ty,vdim,div,mlen,<namehex>;
                                              `ok <chmax flags rxp div ack> <chan,en,type,vdim,div,mlen,name,dtype,critical;…>`
                                              (<v> selects the client class / a preset write padding in
                                              the harness; the description does not depend on it)
  Everything else is passed on to `infoOp` (Driver/Codec.lean).
-/
import NxsModel.Driver.Codec
import NxsModel.Describe
namespace Nxs.Driver
open Nxs
namespace C06

def cpsArg (s : String) : Option (List Nat) :=
  if s = "-" then some [] else (s.splitOn ",").mapM (·.toNat?)

def infoChanArg (s : String) : Option Info.ChanCfg :=
  match s.splitOn "," with
  | [en, ty, vdim, div, mlen, name] => do
    let en ← natArg en; let ty ← intArg ty; let vdim ← intArg vdim; let div ← intArg div
    let mlen ← intArg mlen; let name ← hexArg name
    pure ⟨en ≠ 0, ty, vdim, div, mlen, name⟩
  | _ => none

def infoChansArg (s : String) : Option (List Info.ChanCfg) :=
  if s = "-" then some [] else (s.splitOn ";").mapM infoChanArg

def clientChanStr (c : Describe.ClientChan) : String :=
  let i := c.info
  s!"{c.chan},{boolStr i.en},{i.type},{i.vdim},{i.div},{i.mlen},{i.name.hex},{Info.dtypeOf i.type},{boolStr (Info.criticalOf i.type)}"

end C06
open C06

def infoOpX : List String → Option String
  | ["utf8", h] => do
    let d ← hexArg h
    pure s!"ok {boolStr (Info.validUtf8 d)}"
  | ["enc", cps] => do
    let cps ← cpsArg cps
    pure (showExcept Bytes.hex (Info.utf8Encode cps))
  | ["cht", en, ty, vdim, div, mlen, cps] => do
    let en ← natArg en; let ty ← intArg ty; let vdim ← intArg vdim; let div ← intArg div
    let mlen ← intArg mlen; let cps ← cpsArg cps
    pure (showExcept Bytes.hex (Info.chinfoEncodeText (en ≠ 0) ty vdim div mlen cps))
  | ["connect", _variant, fl, rxp, chans] => do
    let fl ← natArg fl; let rxp ← natArg rxp; let chans ← infoChansArg chans
    let (o, d) := Describe.connectDescribe ⟨fl, rxp, chans⟩
    pure (match o, d with
      | .raised e, _ => s!"err {e.name}"
      | .connected _ _ _, .error e => s!"err {e.name}"
      | .connected _ _ _, .ok d =>
        let cs := if d.chans.isEmpty then "-" else ";".intercalate (d.chans.map clientChanStr)
        s!"ok {d.chmax} {d.flags} {d.rxpadding} {boolStr d.divSupported} {boolStr d.ackSupported} {cs}")
  | rest => infoOp rest

end Nxs.Driver
