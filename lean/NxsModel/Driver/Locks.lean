/-
  Driver op for the lock-level machine (C12):
    locks run <flags> <initEn bits> <initDiv ints> <op;op;…>
       configuration blocks (channels lock):  e<c,…> d<c,…> v<val>:<c,…> Wd:<o> We:<o> q     outcomes as in `cfg run`
       subscriber side:  s<ch>  stream_sub(ch)            (queue lock)
                         u<q>   stream_unsub(queue q)     (queue lock)
                         fc<ch> the stream thread's ch_is_enabled(ch) for one sample (channels lock)
                         fd<ch>:<val>,<ch>:<val>,… | fd-   the stream thread's delivery block for the frame with these
                                                          samples (queue lock)
       output per op: a configuration block in the format of `cfg run`;
                      s → `sub=<new queue id | err <name>>;subs=<per channel: ids joined by . ('-' = none), channels joined by />`
                      u → `subs=…`      fc → `ans=<0|1>`      fd → `puts=<q>:<v.v.…>,… | -`
    locks facts      one line of decided facts of the generated lock table is NOT printed here (this driver does not
                     depend on the generated table, so a broken table breaks C12's theorems only)
-/
import NxsModel.Driver.Config
import NxsModel.LockSteps
namespace Nxs.Driver
open Nxs Nxs.Config Nxs.LockSteps

def aopArg (s : String) : Option AOp :=
  if s = "q" then some .query
  else if s.startsWith "Wd:" then (outcomeArg (s.drop 3).toString).map .wDiv
  else if s.startsWith "We:" then (outcomeArg (s.drop 3).toString).map .wEn
  else if s.startsWith "e" then (natsArg (s.drop 1).toString).map .enable
  else if s.startsWith "d" then (natsArg (s.drop 1).toString).map .disable
  else if s.startsWith "v" then
    match (s.drop 1).toString.splitOn ":" with
    | [v, cs] => do pure (.divider (← natsArg cs) (← v.toInt?))
    | _ => none
  else none

def lockSmpArg (s : String) : Option Smp :=
  match s.splitOn ":" with
  | [c, v] => do pure ⟨← c.toNat?, ← v.toNat?⟩
  | _ => none

def xopArg (s : String) : Option XOp :=
  if s.startsWith "fc" then (s.drop 2).toString.toNat?.map .fanCheck
  else if s.startsWith "fd" then
    let body := (s.drop 2).toString
    if body = "-" ∨ body = "" then some (.fanDeliver []) else ((body.splitOn ",").mapM lockSmpArg).map .fanDeliver
  else if s.startsWith "s" then (s.drop 1).toString.toNat?.map .sub
  else if s.startsWith "u" then (s.drop 1).toString.toNat?.map .unsub
  else (aopArg s).map .cfg

def lkDotted (l : List Nat) : String := if l.isEmpty then "-" else ".".intercalate (l.map toString)

def subsStr (subs : List (List Nat)) : String :=
  if subs.isEmpty then "none" else "/".intercalate (subs.map lkDotted)

def xoutStr (s : XState) (op : XOp) (o : XOut) : String :=
  match op, o.cfg with
  | .cfg _, some so => cfgState s.c s.d so
  | .cfg _, none => "bad"
  | .sub _, _ =>
    let r := match o.err, o.newQ with
      | some e, _ => "err " ++ e.name
      | none, some q => toString q
      | none, none => "?"
    s!"sub={r};subs={subsStr s.f.subs}"
  | .unsub _, _ => s!"subs={subsStr s.f.subs}"
  | .fanCheck _, _ => s!"ans={match o.ans with | some b => boolStr b | none => "?"}"
  | .fanDeliver _, _ =>
    "puts=" ++ (if o.puts.isEmpty then "-" else ",".intercalate (o.puts.map fun p => s!"{p.1}:{lkDotted p.2}"))

def locksRun (s : XState) : List XOp → List String
  | [] => []
  | op :: r =>
    let (s1, o) := xstep s op
    xoutStr s1 op o :: locksRun s1 r

def locksOp : List String → Option String
  | ["run", flags, en, div, ops] => do
    let fl ← natArg flags; let en ← bitsArg en; let div ← intsArg div
    let ops ← (ops.splitOn ";").mapM xopArg
    let d : Device := ⟨en, div⟩
    pure ("ok " ++ " | ".intercalate (locksRun (XState.init d fl) ops))
  | _ => none

end Nxs.Driver
