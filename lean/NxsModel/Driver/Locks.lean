/-
  Driver op for the lock-level configuration machine (C12):
    locks run <flags> <initEn bits> <initDiv ints> <op;op;…>
       ops: e<c,…> d<c,…> v<val>:<c,…> Wd:<o> We:<o> q        outcomes as in `cfg run`
       output per op in the format of `cfg run`
  (does not depend on the generated lock table, so a broken table breaks C12's theorems only)
-/
import NxsModel.Driver.Config
import NxsModel.LockSteps
namespace Nxs.Driver
open Nxs Nxs.Config Nxs.LockSteps

def aopArg (s : String) : Option AOp :=
  if s = "q" then some .query
  else if s.startsWith "Wd:" then (outcomeArg (s.drop 3).toString).map .wDiv
  else if s.startsWith "We:" then (outcomeArg (s.drop 3).toString).map .wEn
  else if s.startsWith "e" then (natsArg (s.drop 1).toString).map .enable
  else if s.startsWith "d" then (natsArg (s.drop 1).toString).map .disable
  else if s.startsWith "v" then
    match (s.drop 1).toString.splitOn ":" with
    | [v, cs] => do pure (.divider (← natsArg cs) (← v.toInt?))
    | _ => none
  else none

def locksRun (c : Client) (d : Device) : List AOp → List String
  | [] => []
  | op :: r =>
    let (c1, d1, o) := astep c d op
    cfgState c1 d1 o :: locksRun c1 d1 r

def locksOp : List String → Option String
  | ["run", flags, en, div, ops] => do
    let fl ← natArg flags; let en ← bitsArg en; let div ← intsArg div
    let ops ← (ops.splitOn ";").mapM aopArg
    let d : Device := ⟨en, div⟩
    pure ("ok " ++ " | ".intercalate (locksRun (Client.init d fl) d ops))
  | _ => none

end Nxs.Driver
