/-
  Driver ops for the subscriber fan-out and the stream-frame queue (`Fanout.Sys`):

    fan sys  <initbits> <ev;ev;…>                   abstract frames (samples = `<chan>.<tag>`)
    fan wire <layout> <user> <initbits> <ev;ev;…>   frames as STREAM payloads (hex), decoded by the C04 decoder
    fan run  <n> <op;op;…>                          (legacy corpus form) = `fan sys 0…0` with every frame processed at once

  events (`-` = none):
    f<flags>:<chan>.<tag>,<chan>.<tag>…   a stream frame arrives on `_q_stream`            (sys / run)
    x                                      a stream frame the decoder cannot unpack arrives  (sys / run)
    w<hex>                                 a stream frame with this payload arrives          (wire; `w-` = empty payload)
    i                                      the stream thread runs until it blocks (drains `_q_stream`, or dies)
    s<ch> | n<k> | u<q> | e<bits>          stream_sub(ch) | stream_sub(-(k+1)) | stream_unsub(queue #q) | enable vector := bits
    S | P                                  stream_start() | stream_stop()
    I | T                                  (recorded traces, harness sessions) ONE loop iteration of the stream thread |
                                           stream_stop() without the schedule rule below
  SCHEDULE (the one the harness enforces under the virtual-time runtime, harness/props/C08.py): the application
  thread runs without interruption except in `i` and `P`; in `P` a stream thread that has run before (it is
  parked in `_q_stream.get`) finishes that `get` — i.e. performs ONE more loop iteration — before it sees the stop
  flag, a thread that has never run sees the flag at once.
  output: `ok q<id>=<group>/<group>… … ovf=<n> subs=<per channel ids joined by . ; channels joined by ,>
           dead=<0|1: started, but the stream thread has ended> started=<0|1> qlen=<frames waiting>
           errs=<indices of raising calls>`
  (sys/run: group = tags joined by `.`; wire: group = samples `[v;v],[m;m]` joined by `|`)
-/
import NxsModel.Driver.Codec
import NxsModel.Driver.Stream
import NxsModel.Fanout
namespace Nxs.Driver
open Nxs Nxs.Fanout

def smpArg (s : String) : Option Smp :=
  match s.splitOn "." with
  | [c, v] => do pure ⟨← c.toNat?, ← v.toNat?⟩
  | _ => none

def dotJoin (l : List Nat) : String := ".".intercalate (l.map toString)

/-- a parsed driver event -/
inductive DEv where
  | ev (e : Ev)
  | wire (payload : Bytes)       -- replaced by `ev (.arrive op)` once all payloads are decoded
  | drain
  | stopNow                      -- `stream_stop()` recorded in a trace: the iterations it let happen are explicit `I` events
  deriving Repr

def frameArg (s : String) : Option Op :=
  match s.splitOn ":" with
  | [fl, ss] => do
    let fl ← fl.toNat?
    let l ← if ss = "" then some [] else (ss.splitOn ",").mapM smpArg
    pure (.frame fl l)
  | _ => none

def devArg (s : String) : Option DEv :=
  let rest := (s.drop 1).toString
  if s = "x" then some (.ev (.arrive .badFrame))
  else if s = "i" then some .drain
  else if s = "I" then some (.ev .iter)
  else if s = "T" then some .stopNow
  else if s = "S" then some (.ev .start)
  else if s = "P" then some (.ev .stop)
  else if s.startsWith "f" then (frameArg rest).map fun op => .ev (.arrive op)
  else if s.startsWith "w" then (hexArg rest).map .wire
  else if s.startsWith "s" then rest.toNat?.map fun c => .ev (.sub c)
  else if s.startsWith "n" then rest.toNat?.map fun k => .ev (.subNeg k)
  else if s.startsWith "u" then rest.toNat?.map fun q => .ev (.unsub q)
  else if s.startsWith "e" then (bitsArg rest).map fun v => .ev (.setEnabled v)
  else none

def devsArg (s : String) : Option (List DEv) :=
  if s = "-" then some [] else (s.splitOn ";").mapM devArg

/-- does this application call raise? -/
def callFails (s : Sys) (e : Ev) : Bool :=
  match e with
  | .sub _ | .subNeg _ | .unsub _ | .setEnabled _ =>
    match evOp s e with
    | some op => (match step s.fan op with | .ok _ => false | .error _ => true)
    | none => false
  | _ => false

/-- run the events under the harness schedule; returns the final state and the indices of raising calls -/
def sysDrive (s : Sys) (parked : Bool) (i : Nat) : List DEv → Sys × List Nat
  | [] => (s, [])
  | .drain :: r => sysDrive (sysRun s (List.replicate s.q.length .iter)) true (i + 1) r
  | .wire _ :: r => sysDrive s parked (i + 1) r
  | .stopNow :: r => sysDrive (sysStep s .stop) false (i + 1) r
  | .ev e :: r =>
    match e with
    | .stop =>
      let s1 := if parked && s.alive then sysStep s .iter else s
      sysDrive (sysStep s1 .stop) false (i + 1) r
    | .start => sysDrive (sysStep s .start) (if s.started then parked else false) (i + 1) r
    | _ =>
      let (s2, es) := sysDrive (sysStep s e) parked (i + 1) r
      (s2, if callFails s e then i :: es else es)

def sysOut (s : Sys) (errs : List Nat) (grp : List Nat → String) (sep : String) : String :=
  let qs := s.fan.queues.map fun (q, gs) => s!"q{q}=" ++ sep.intercalate (gs.map grp)
  "ok " ++ " ".intercalate qs ++ s!" ovf={s.fan.ovf} subs=" ++ ",".intercalate (s.fan.subs.map dotJoin) ++
    s!" dead={boolStr (s.started && s.fan.dead)} started={boolStr s.started} qlen={s.q.length} errs=" ++ dotJoin errs

/-- replace the `wire` events by the arrival of the decoded op (ops are in arrival order) -/
def substWire : List DEv → List Op → List DEv
  | [], _ => []
  | .wire _ :: r, op :: ops => .ev (.arrive op) :: substWire r ops
  | .wire p :: r, [] => .wire p :: substWire r []
  | e :: r, ops => e :: substWire r ops

def itemStr (s : Stream.Sample) : String :=
  s!"[{";".intercalate (s.data.map svalStr)}],[{";".intercalate (s.mdata.map toString)}]"

def fanOp : List String → Option String
  | ["sys", init, evs] => do
    let en ← bitsArg init
    let evs ← devsArg evs
    let (s, errs) := sysDrive (Sys.init en) false 0 evs
    pure (sysOut s errs dotJoin "/")
  | ["wire", layout, user, init, evs] => do
    let l ← layoutArg layout; let u ← userArg user
    let en ← bitsArg init
    let evs ← devsArg evs
    let payloads := evs.filterMap fun e => match e with | .wire p => some p | _ => none
    let frs : List Serial.Frame := payloads.map fun p => ⟨Gen.Ids.idSTREAM, p⟩
    let ops := opsOfFrames l u 0 frs
    let all := samplesOfFrames l u frs
    let (s, errs) := sysDrive (Sys.init en) false 0 (substWire evs ops)
    let grp := fun (g : List Nat) => "|".intercalate (g.map fun t => match all[t]? with | some x => itemStr x | none => "?")
    pure (sysOut s errs grp "/")
  | ["run", n, ops] => do
    -- legacy: the stream is running from the start, every frame is processed when it arrives
    let n ← natArg n
    let evs ← devsArg ops
    let evs := evs.flatMap fun e => match e with
      | .ev (.arrive f) => [.ev (.arrive f), .drain]
      | e => [e]
    let (s, _) := sysDrive (Sys.init (List.replicate n false)) false 0 (.ev .start :: evs)
    pure (sysOut s [] dotJoin "/")
  | _ => none

end Nxs.Driver
