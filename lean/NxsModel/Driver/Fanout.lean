/-
  Driver op for the subscriber fan-out:
    fan run <n> <op;op;…>    ops: f<flags>:<chan>.<val>,<chan>.<val>… | s<ch> | u<q> | e<bits>
  output: per queue `q<id>=<group>/<group>…` (group = vals joined by `.`) joined by ` `, then `ovf=<n>` and
  `subs=<per channel ids joined by . ; channels joined by ,>`, `errs=<indices of raising ops>`
-/
import NxsModel.Driver.Codec
import NxsModel.Fanout
namespace Nxs.Driver
open Nxs Nxs.Fanout

def smpArg (s : String) : Option Smp :=
  match s.splitOn "." with
  | [c, v] => do pure ⟨← c.toNat?, ← v.toNat?⟩
  | _ => none

def fanOpArg (s : String) : Option Op :=
  if s.startsWith "f" then
    match (s.drop 1).toString.splitOn ":" with
    | [fl, ss] => do
      let fl ← fl.toNat?
      let l ← if ss = "" then some [] else (ss.splitOn ",").mapM smpArg
      pure (.frame fl l)
    | _ => none
  else if s.startsWith "s" then (s.drop 1).toString.toNat?.map .sub
  else if s.startsWith "u" then (s.drop 1).toString.toNat?.map .unsub
  else if s.startsWith "e" then (bitsArg (s.drop 1).toString).map .setEnabled
  else none

def fanRun (s : St) (i : Nat) : List Op → St × List Nat
  | [] => (s, [])
  | op :: r =>
    match step s op with
    | .ok s' => fanRun s' (i + 1) r
    | .error _ => let (s2, es) := fanRun s (i + 1) r; (s2, i :: es)

def dotJoin (l : List Nat) : String := ".".intercalate (l.map toString)

def fanOp : List String → Option String
  | ["run", n, ops] => do
    let n ← natArg n
    let ops ← if ops = "-" then some [] else (ops.splitOn ";").mapM fanOpArg
    let (s, errs) := fanRun (St.init n) 0 ops
    let qs := s.queues.map fun (q, gs) => s!"q{q}=" ++ "/".intercalate (gs.map dotJoin)
    pure ("ok " ++ " ".intercalate qs ++ s!" ovf={s.ovf} subs=" ++ ",".intercalate (s.subs.map dotJoin) ++
      " errs=" ++ dotJoin errs)
  | _ => none

end Nxs.Driver
