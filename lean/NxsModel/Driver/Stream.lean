/-
  Driver ops for the stream codec.
    stream dec <layout> <user> <payloadhex>
    stream enc <user> <samples>
  layout : `dtype:vdim:mlen,…` (index = channel id) or `-`
  user   : `ty/dtype/items;…` with items `n.code+n.code` (code letters as in struct, `?` = bool) or `-`
  samples: `chan,dtype,vdim,mlen,[v;v],[m;m]|…` ; values `i:<int>` `f:<hex8>` `d:<hex16>`
           `x:<raw>:<frac>` `t:<hex>` `b:<hex>` `o:<0|1>`
-/
import NxsModel.Driver.Basic
import NxsModel.Stream
namespace Nxs.Driver
open Nxs Nxs.Stream

def codeOfChar : Char → Option Code
  | 'B' => some .B | 'b' => some .b | 'H' => some .H | 'h' => some .h | 'I' => some .I | 'i' => some .i
  | 'Q' => some .Q | 'q' => some .q | '?' => some .bool | 'c' => some .c | 's' => some .s
  | 'f' => some .f | 'd' => some .d | _ => none

def itemArg (s : String) : Option (Nat × Code) :=
  match s.splitOn "." with
  | [n, c] => do
    let n ← n.toNat?
    match c.toList with
    | [ch] => (codeOfChar ch).map (n, ·)
    | _ => none
  | _ => none

def userArg (s : String) : Option (List UserType) :=
  if s = "-" then some [] else
  (s.splitOn ";").mapM fun u =>
    match u.splitOn "/" with
    | [ty, dt, items] => do
      let ty ← ty.toNat?; let dt ← dt.toNat?
      let its ← if items = "" then some [] else (items.splitOn "+").mapM itemArg
      pure ⟨ty, its, dt⟩
    | _ => none

def layoutArg (s : String) : Option (List Chan) :=
  if s = "-" then some [] else
  (s.splitOn ",").mapM fun c =>
    match c.splitOn ":" with
    | [a, b, d] => do pure ⟨← a.toNat?, ← b.toNat?, ← d.toNat?⟩
    | _ => none

/-- strict UTF-8 validity (Unicode table 3-7), as CPython's decoder -/
def utf8Valid : List Nat → Bool
  | [] => true
  | a :: r =>
    if a < 0x80 then utf8Valid r
    else if 0xC2 ≤ a ∧ a ≤ 0xDF then
      match r with
      | b :: r' => (0x80 ≤ b ∧ b ≤ 0xBF) && utf8Valid r'
      | _ => false
    else if 0xE0 ≤ a ∧ a ≤ 0xEF then
      match r with
      | b :: c :: r' =>
        let lo := if a = 0xE0 then 0xA0 else 0x80
        let hi := if a = 0xED then 0x9F else 0xBF
        (lo ≤ b ∧ b ≤ hi) && (0x80 ≤ c ∧ c ≤ 0xBF) && utf8Valid r'
      | _ => false
    else if 0xF0 ≤ a ∧ a ≤ 0xF4 then
      match r with
      | b :: c :: d :: r' =>
        let lo := if a = 0xF0 then 0x90 else 0x80
        let hi := if a = 0xF4 then 0x8F else 0xBF
        (lo ≤ b ∧ b ≤ hi) && (0x80 ≤ c ∧ c ≤ 0xBF) && (0x80 ≤ d ∧ d ≤ 0xBF) && utf8Valid r'
      | _ => false
    else false

def hexN (digits : Nat) (n : Nat) : String :=
  String.ofList ((List.range digits).reverse.map fun i => hexDigit ((n / 16 ^ i) % 16))

def svalStr : SVal → String
  | .int v => s!"i:{v}"
  | .f32 w => "f:" ++ hexN 8 w.toNat
  | .f64 w => "d:" ++ hexN 16 w.toNat
  | .fixed raw frac => s!"x:{raw}:{frac}"
  | .text bs => if utf8Valid (bs.map (·.toNat)) then "t:" ++ bs.hex else s!"t~{bs.length}"
  | .bytes bs => "b:" ++ bs.hex
  | .bool b => "o:" ++ boolStr b

def sampleStr (s : Sample) : String :=
  s!"{s.chan},{s.dtype},{s.vdim},{s.mlen},[{";".intercalate (s.data.map svalStr)}],[{";".intercalate (s.mdata.map toString)}]"

def hexToNat (s : String) : Option Nat :=
  s.toList.foldlM (fun acc c => (hexVal c).map (acc * 16 + ·)) 0

def svalArg (s : String) : Option SVal :=
  match s.splitOn ":" with
  | ["i", v] => v.toInt?.map .int
  | ["f", h] => (hexToNat h).map fun n => .f32 (BitVec.ofNat 32 n)
  | ["d", h] => (hexToNat h).map fun n => .f64 (BitVec.ofNat 64 n)
  | ["x", r, f] => do pure (.fixed (← r.toInt?) (← f.toNat?))
  | ["t", h] => (hexArg h).map .text
  | ["b", h] => (hexArg h).map .bytes
  | ["o", v] => v.toNat?.map fun n => .bool (n ≠ 0)
  | _ => none

def listArg (s : String) : Option (List String) :=
  if s.startsWith "[" ∧ s.endsWith "]" then
    let inner := (s.drop 1).dropEnd 1 |>.toString
    some (if inner = "" then [] else inner.splitOn ";")
  else none

def sampleArg (s : String) : Option Sample :=
  match s.splitOn "," with
  | [c, dt, vd, ml, data, mdata] => do
    let ds ← (← listArg data).mapM svalArg
    let ms ← (← listArg mdata).mapM (·.toInt?)
    pure ⟨← c.toNat?, ← dt.toNat?, ← vd.toNat?, ← ml.toNat?, ds, ms⟩
  | _ => none

def samplesArg (s : String) : Option (List Sample) :=
  if s = "-" then some [] else (s.splitOn "|").mapM sampleArg

def streamOp : List String → Option String
  | ["dec", layout, user, h] => do
    let l ← layoutArg layout; let u ← userArg user; let d ← hexArg h
    pure (showExcept (fun o => match o with
      | none => "none"
      | some (fl, ss) => s!"{fl} " ++ (if ss.isEmpty then "-" else "|".intercalate (ss.map sampleStr)))
      (streamDecode l u d))
  | ["enc", user, samples] => do
    let u ← userArg user; let ss ← samplesArg samples
    pure (showExcept (fun o => match o with
      | none => "none"
      | some b => b.hex) (streamDataEncode u ss))
  | ["encf", user, samples] => do
    let u ← userArg user; let ss ← samplesArg samples
    pure (showExcept (fun o => match o with
      | none => "none"
      | some b => b.hex) (frameStreamEncode u ss))
  | _ => none

end Nxs.Driver
