/-
  Driver ops for the stream codec.
    stream dec <layout> <user> <payloadhex>
    stream enc <user> <samples>
    stream rt <layout> <user> <samples>    device-side encode → frame_decode → client decode (C15)
  layout : `dtype:vdim:mlen[:x],…` (index = channel id) or `-`; the optional fourth field tells the harness
           which `en` / critical-type-bit / device flags to give the real device object — the decoder never
           reads them, so the model ignores it
  user   : `ty/dtype/items;…` with items `n.code+n.code` (code letters as in struct, `?` = bool) or `-`
  samples: `chan,dtype,vdim,mlen,[v;v],[m;m]|…` ; values `i:<int>` `f:<hex8>` `d:<hex16>`
           `x:<raw>:<frac>` `t:<hex>` `b:<hex>` `o:<0|1>`
-/
import NxsModel.Driver.Basic
import NxsModel.Stream
namespace Nxs.Driver
open Nxs Nxs.Stream

def codeOfChar : Char → Option Code
  | 'B' => some .B | 'b' => some .b | 'H' => some .H | 'h' => some .h | 'I' => some .I | 'i' => some .i
  | 'Q' => some .Q | 'q' => some .q | '?' => some .bool | 'c' => some .c | 's' => some .s
  | 'f' => some .f | 'd' => some .d | _ => none

def itemArg (s : String) : Option (Nat × Code) :=
  match s.splitOn "." with
  | [n, c] => do
    let n ← n.toNat?
    match c.toList with
    | [ch] => (codeOfChar ch).map (n, ·)
    | _ => none
  | _ => none

def userArg (s : String) : Option (List UserType) :=
  if s = "-" then some [] else
  (s.splitOn ";").mapM fun u =>
    match u.splitOn "/" with
    | [ty, dt, items] => do
      let ty ← ty.toNat?; let dt ← dt.toNat?
      let its ← if items = "" then some [] else (items.splitOn "+").mapM itemArg
      pure ⟨ty, its, dt⟩
    | _ => none

def layoutArg (s : String) : Option (List Chan) :=
  if s = "-" then some [] else
  (s.splitOn ",").mapM fun c =>
    match c.splitOn ":" with
    | [a, b, d] => do pure ⟨← a.toNat?, ← b.toNat?, ← d.toNat?⟩
    | [a, b, d, x] => do let _ ← x.toNat?; pure ⟨← a.toNat?, ← b.toNat?, ← d.toNat?⟩
    | _ => none

def hexN (digits : Nat) (n : Nat) : String :=
  String.ofList ((List.range digits).reverse.map fun i => hexDigit ((n / 16 ^ i) % 16))

def svalStr : SVal → String
  | .int v => s!"i:{v}"
  | .f32 w => "f:" ++ hexN 8 w.toNat
  | .f64 w => "d:" ++ hexN 16 w.toNat
  | .fixed raw frac => s!"x:{raw}:{frac}"
  | .text bs => if Utf8.valid bs then "t:" ++ bs.hex else s!"t~{bs.length}"
  | .bytes bs => "b:" ++ bs.hex
  | .bool b => "o:" ++ boolStr b

def sampleStr (s : Sample) : String :=
  s!"{s.chan},{s.dtype},{s.vdim},{s.mlen},[{";".intercalate (s.data.map svalStr)}],[{";".intercalate (s.mdata.map toString)}]"

def hexToNat (s : String) : Option Nat :=
  s.toList.foldlM (fun acc c => (hexVal c).map (acc * 16 + ·)) 0

def svalArg (s : String) : Option SVal :=
  match s.splitOn ":" with
  | ["i", v] => v.toInt?.map .int
  | ["f", h] => (hexToNat h).map fun n => .f32 (BitVec.ofNat 32 n)
  | ["d", h] => (hexToNat h).map fun n => .f64 (BitVec.ofNat 64 n)
  | ["x", r, f] => do pure (.fixed (← r.toInt?) (← f.toNat?))
  | ["t", h] => (hexArg h).map .text
  | ["b", h] => (hexArg h).map .bytes
  | ["o", v] => v.toNat?.map fun n => .bool (n ≠ 0)
  | _ => none

def listArg (s : String) : Option (List String) :=
  if s.startsWith "[" ∧ s.endsWith "]" then
    let inner := (s.drop 1).dropEnd 1 |>.toString
    some (if inner = "" then [] else inner.splitOn ";")
  else none

def sampleArg (s : String) : Option Sample :=
  match s.splitOn "," with
  | [c, dt, vd, ml, data, mdata] => do
    let ds ← (← listArg data).mapM svalArg
    let ms ← (← listArg mdata).mapM (·.toInt?)
    pure ⟨← c.toNat?, ← dt.toNat?, ← vd.toNat?, ← ml.toNat?, ds, ms⟩
  | _ => none

def samplesArg (s : String) : Option (List Sample) :=
  if s = "-" then some [] else (s.splitOn "|").mapM sampleArg

def streamOp : List String → Option String
  | ["dec", layout, user, h] => do
    let l ← layoutArg layout; let u ← userArg user; let d ← hexArg h
    pure (showExcept (fun o => match o with
      | none => "none"
      | some (fl, ss) => s!"{fl} " ++ (if ss.isEmpty then "-" else "|".intercalate (ss.map sampleStr)))
      (streamDecode l u d))
  | ["enc", user, samples] => do
    let u ← userArg user; let ss ← samplesArg samples
    pure (showExcept (fun o => match o with
      | none => "none"
      | some b => b.hex) (streamDataEncode u ss))
  | ["encf", user, samples] => do
    let u ← userArg user; let ss ← samplesArg samples
    pure (showExcept (fun o => match o with
      | none => "none"
      | some b => b.hex) (frameStreamEncode u ss))
  | ["rt", layout, user, samples] => do
    let l ← layoutArg layout; let u ← userArg user; let ss ← samplesArg samples
    pure (match frameStreamEncode u ss with
      | .error e => "err " ++ e.name
      | .ok none => "ok none"
      | .ok (some f) =>
        "ok " ++ f.hex ++ " " ++
          (match Serial.frameDecode f with
            | .error e => "ferr " ++ e.name
            | .ok fr =>
              match frameStreamDecode l u fr with
              | .error e => "derr " ++ e.name
              | .ok none => "none"
              | .ok (some (fl, ss')) =>
                s!"{fl} " ++ (if ss'.isEmpty then "-" else "|".intercalate (ss'.map sampleStr))))
  | _ => none

end Nxs.Driver
