/-
  Driver ops of the description-record model (C19).

    rec seq chan <route> <chan>,<_type>,<vdim>,<name>,<en>,<div>,<mlen> <steps>
    rec seq dev  <route> <chmax>,<flags>,<rxpadding> <steps>

  builds the record, dumps its whole `__dict__`, then runs the steps on that ONE record and dumps
  the whole `__dict__` again after each:   ok <dump>;<r>:<dump>;<r>:<dump>…   with r = ok | err:type.
  `<route>` says how the harness obtains the real record (directly, through a DeviceChannel /
  Device / decoded frame / connected handler, …); the model record is the same for all of them.

  value tokens   N | T | F | i<decimal> | s<hex of UTF-8> (s- = "") | o<0|1>.<tag>   (Record.Val)
  `_type` and `flags` must be i<natural>.
  steps (`;`-separated, `-` = none)
    <name>=<value>     rec.<name> = <value>
    <name>=cur         rec.<name> = getattr(rec, <name>, None)      (the CURRENT value)
    !<name>=<value>    the same assignment, made by the library (en_channels_update, …)
    @<how>             go on with a copy of the record (copy / deepcopy / pickle / …)
  names: [A-Za-z0-9_]+ as is, anything else %<hex of UTF-8>
-/
import NxsModel.Driver.Basic
import NxsModel.Record
namespace Nxs.Driver
open Nxs.Record

abbrev RVal := Nxs.Record.Val

def utf8Hex (s : String) : String :=
  Bytes.toHex (s.toUTF8.toList.map fun b => BitVec.ofNat 8 b.toNat)

def hexUtf8 (h : String) : Option String := do
  let bs ← Bytes.ofHex h
  String.fromUTF8? (ByteArray.mk (bs.map fun b => UInt8.ofNat b.toNat).toArray)

def valTok : RVal → String
  | .none => "N"
  | .bool b => if b then "T" else "F"
  | .int i => s!"i{i}"
  | .str s => if s.isEmpty then "s-" else "s" ++ utf8Hex s
  | .other t n => s!"o{if t then 1 else 0}.{n}"

def tokVal (t : String) : Option RVal :=
  match t.toList with
  | ['N'] => some .none
  | ['T'] => some (.bool true)
  | ['F'] => some (.bool false)
  | 'i' :: r => (String.ofList r).toInt?.map .int
  | ['s', '-'] => some (.str "")
  | 's' :: r => (hexUtf8 (String.ofList r)).map .str
  | 'o' :: b :: '.' :: r =>
    if b = '0' ∨ b = '1' then (String.ofList r).toNat?.map (.other (b = '1')) else none
  | _ => none

def plainName (s : String) : Bool := !s.isEmpty && s.toList.all fun c => c.isAlphanum || c = '_'

def nameTok (s : String) : String := if plainName s then s else "%" ++ (if s.isEmpty then "-" else utf8Hex s)

def tokName (t : String) : Option String :=
  match t.toList with
  | ['%', '-'] => some ""
  | '%' :: r => hexUtf8 (String.ofList r)
  | _ => if plainName t then some t else none

def dumpDict (d : Dict) : String := ",".intercalate (d.map fun (k, v) => s!"{nameTok k}={valTok v}")

/-- a step token; `cur` needs the record, so a step is parsed against the current `__dict__` -/
def tokStep (d : Dict) (t : String) : Option Step :=
  match t.toList with
  | '@' :: _ => some .copy
  | cs =>
    let cs := match cs with | '!' :: r => r | r => r
    match (String.ofList cs).splitOn "=" with
    | [n, v] => do
      let n ← tokName n
      let v ← if v = "cur" then pure ((d.get? n).getD .none) else tokVal v
      pure (.assign n v)
    | _ => none

def runSteps (allow : List String) : Dict → List String → Option (List String)
  | _, [] => some []
  | d, t :: r => do
    let s ← tokStep d t
    let x := s.run allow d
    let rest ← runSteps allow x.1 r
    pure (((if x.2 then "ok:" else "err:type:") ++ dumpDict x.1) :: rest)

def seqOut (allow : List String) (mk : Except Err Dict) (steps : String) : Option String :=
  match mk with
  | .error e => some s!"err-init {e.name}"
  | .ok d => do
    let toks := if steps = "-" then [] else steps.splitOn ";"
    let outs ← runSteps allow d toks
    pure ("ok " ++ ";".intercalate (dumpDict d :: outs))

def natOfVal : RVal → Option Nat
  | .int i => if 0 ≤ i then some i.toNat else none
  | _ => none

def recordOp : List String → Option String
  | ["seq", "chan", _route, ctor, steps] => do
    match ← (ctor.splitOn ",").mapM tokVal with
    | [c, ty, vd, nm, en, dv, ml] =>
      let ty ← natOfVal ty
      let args : String → RVal := fun k =>
        if k = "chan" then c else if k = "vdim" then vd else if k = "name" then nm
        else if k = "en" then en else if k = "div" then dv else if k = "mlen" then ml else .none
      seqOut Gen.Record.chanAllow (mkChan args ty) steps
    | _ => none
  | ["seq", "dev", _route, ctor, steps] => do
    match ← (ctor.splitOn ",").mapM tokVal with
    | [cm, fl, rp] =>
      let fl ← natOfVal fl
      let args : String → RVal := fun k =>
        if k = "chmax" then cm else if k = "rxpadding" then rp else .none
      seqOut Gen.Record.devAllow (mkDev args fl) steps
    | _ => none
  | _ => none

end Nxs.Driver
