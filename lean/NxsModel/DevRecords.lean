/-
  DevRecords (round 7, C19) — the description records reachable from ONE `Device` object (dev.py:250-335):
  `dev.data` (a `DDeviceData`) and `dev.channel_get(i).data` (a `DDeviceChannelData` per channel, in
  `_channels` order), with the library's own maintenance of the two mutable fields:
    `Device.channels_en` / `channels_div`            (dev.py:292-308)  → `channelsEn` / `channelsDiv`
    `Device.en_channels_update` / `div_channels_update` (dev.py:310-322) → `channelsUpdate "en"` / `"div"`
  Every assignment of those loops goes through the record's `__setattr__` (`Record.setattr` with the generated
  allow-list), exactly like an application's assignment: the library can maintain en / div only because the guard
  lets these two names through.  Mathlib-free, executable.
-/
import NxsModel.Record
namespace Nxs
namespace DevRecords
open Record

/-- the records of one device -/
structure Dev where
  data : Dict
  chans : List Dict
  deriving DecidableEq, Repr

/-- `Device.channels_en`: `[chan.data.en for chan in self._channels]` (`none`: the attribute is missing) -/
def channelsEn (d : Dev) : List (Option Record.Val) := d.chans.map (·.get? "en")

/-- `Device.channels_div` -/
def channelsDiv (d : Dev) : List (Option Record.Val) := d.chans.map (·.get? "div")

/-- `for i, x in enumerate(vs): self._channels[i].data.<field> = x` — the first assignment that raises ends the
    loop (`Except` keeps no state then; on sealed channel records and `field` = en / div no assignment raises:
    `C19.library_update_ok`) -/
def updateLoop (field : String) : List Dict → List Record.Val → Except Err (List Dict)
  | cs, [] => .ok cs
  | [], _ :: _ => .error .indexError
  | c :: cs, v :: vs =>
    (setattr Gen.Record.chanAllow c field v).bind fun c' =>
      (updateLoop field cs vs).bind fun r => .ok (c' :: r)

/-- `Device.en_channels_update(vs)` (`field = "en"`) / `div_channels_update(vs)` (`field = "div"`):
    `assert len(vs) == len(self._channels)`, then the loop -/
def channelsUpdate (field : String) (d : Dev) (vs : List Record.Val) : Except Err Dev :=
  if vs.length ≠ d.chans.length then .error .assertion
  else (updateLoop field d.chans vs).bind fun cs => .ok { d with chans := cs }

/-- what an application — or the library — does with the records of a device -/
inductive DStep where
  /-- `dev.channel_get(i).data.<name> = v` -/
  | chan (i : Nat) (name : String) (v : Record.Val)
  /-- `dev.data.<name> = v` -/
  | dev (name : String) (v : Record.Val)
  /-- `dev.en_channels_update(vs)` -/
  | libEn (vs : List Record.Val)
  /-- `dev.div_channels_update(vs)` -/
  | libDiv (vs : List Record.Val)
  deriving DecidableEq, Repr

/-- one step: the records afterwards and whether the step went through (`false`: it raised — TypeError from the
    guard, AttributeError on `None` when the device has no channel `i`, AssertionError of a library update) -/
def DStep.run (d : Dev) : DStep → Dev × Bool
  | .chan i k v =>
    match d.chans[i]? with
    | none => (d, false)
    | some c =>
      let x := (Step.assign k v).run Gen.Record.chanAllow c
      ({ d with chans := d.chans.set i x.1 }, x.2)
  | .dev k v =>
    let x := (Step.assign k v).run Gen.Record.devAllow d.data
    ({ d with data := x.1 }, x.2)
  | .libEn vs =>
    match channelsUpdate "en" d vs with
    | .ok d' => (d', true)
    | .error _ => (d, false)
  | .libDiv vs =>
    match channelsUpdate "div" d vs with
    | .ok d' => (d', true)
    | .error _ => (d, false)

/-- the records after a whole history -/
def runDev (d : Dev) (h : List DStep) : Dev := h.foldl (fun d s => (s.run d).1) d

/-- the channel records of `Device(…, [DeviceChannel(args₀, ty₀), …])` -/
def mkChans : List ((String → Record.Val) × Nat) → Except Err (List Dict)
  | [] => .ok []
  | c :: cs => (mkChan c.1 c.2).bind fun r => (mkChans cs).bind fun rs => .ok (r :: rs)

/-- the records of a freshly built device -/
def mkDevRecords (dargs : String → Record.Val) (flags : Nat) (cs : List ((String → Record.Val) × Nat)) : Except Err Dev :=
  (mkDev dargs flags).bind fun d => (mkChans cs).bind fun l => .ok ⟨d, l⟩

end DevRecords
end Nxs
